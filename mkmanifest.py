#!/usr/bin/env python3
"""Regenerates MANIFEST.json from checkconf.PROPS (keeps it valid at all times)."""
import json
import os
import subprocess
from checkconf import PROPS

ROOT = os.path.dirname(os.path.abspath(__file__))
ids = [json.loads(l)["id"] for l in open(os.path.join(ROOT, "properties.jsonl"))]
hooks = subprocess.run(["git", "-C", "/repo", "log", "--format=%H %s", "--grep=^verif:"], capture_output=True, text=True).stdout.strip().splitlines()
m = {
    "version": 1,
    "setup_cmd": "./check setup",
    "hooks": {
        "guard": "cargo feature `verif` of the text-utils crate (cfg(feature = \"verif\"))",
        "enable": "the harness crate depends on text-utils = { path = \"/repo\", features = [\"verif\"] }; every check runs `cargo build --offline` in /verif/harness, which rebuilds /repo's working tree with the feature on",
        "baseline_off_cmd": "cd /repo && cargo test --workspace --no-fail-fast --offline",
        "source_commits": [h.split(" ")[0] for h in hooks],
        "add_only": True,
    },
    "engines": [
        {"name": "lean-model", "path": "lean/", "serves_properties": sorted(PROPS), "kind_free_text": "Lean 4 project TuModel: executable models (Model/), lemmas (Lemmas/), property theorems (Props/Cxx.lean), compiled line-protocol driver (Driver.lean)"},
        {"name": "rust-harness", "path": "harness/", "serves_properties": sorted(PROPS), "kind_free_text": "Rust crate linking the real text-utils crate from /repo (feature verif): seeded structured generators, in-process execution of the public API, model-independent property oracle, request/answer line protocol"},
        {"name": "check", "path": "check", "serves_properties": sorted(PROPS), "kind_free_text": "python orchestrator: lake build + axiom audit + forbidden-token scan (+ leanchecker in thorough), cargo build of the harness against /repo, run harness and driver, diff, classify, known findings, evidence, replay"},
    ],
    "checks": [],
    "not_applicable": [],
    "notes": "Technique: machine-checked proof in Lean 4 about hand-written executable models, tied to /repo on every run by a correspondence check (model driver vs. real crate on the same generated requests) and a model-independent oracle. See DESIGN.md. Known findings: known_findings.json.",
}
for i in ids:
    if i in PROPS:
        c = PROPS[i]
        m["checks"].append({
            "property_id": i,
            "quick_cmd": f"./check {i} quick",
            "thorough_cmd": f"./check {i} thorough",
            "evidence_file": f"evidence/{i}.json",
            "replay_cmd_template": f"./check {i} --replay {{path}}",
            "engine": "lean-model + rust-harness",
            "level_claimed": {"category": "proof", "text": c["claim"], "design_ref": f"DESIGN.md §6 {i}"},
            "level_note": c["note"],
            "technique": c.get("technique", "Lean 4 theorems about an executable model + differential correspondence check against the real crate"),
        })
    else:
        m["not_applicable"].append({"property_id": i, "reason": "check not built yet in this round (model, theorems and correspondence are planned in DESIGN.md §6); not claimed until it exists"})
json.dump(m, open(os.path.join(ROOT, "MANIFEST.json"), "w"), indent=1)
print("MANIFEST.json:", len(m["checks"]), "checks,", len(m["not_applicable"]), "not claimed")
