import TuModel.Model.Wire
import TuModel.Model.ByteTok
import TuModel.Model.CharTok
import TuModel.Model.Bpe
namespace Tu.Drive
open Tu Tu.Wire

structure CommonCfg where
  tokens : List (List Nat)
  pad : List Nat
  pre : List (List Nat)
  suf : List (List Nat)

def pCommon : P CommonCfg := do
  let t ← pText; let pad ← pNats; let pre ← pText; let suf ← pText
  pure { tokens := t, pad := pad, pre := pre, suf := suf }

/-- a piece of the request: regular (clusters of code points) or special (token bytes) -/
inductive RPiece | reg (cl : List (List Nat)) | spec (b : List Nat)

def pPieces : P (List RPiece) := pList (do
  let k ← pNat
  if k == 0 then (do let c ← pText; pure (RPiece.reg c))
  else if k == 1 then (do let b ← pNats; pure (RPiece.spec b))
  else failure)

def RPiece.bytes : RPiece → List Nat
  | .reg cl => cl.flatten.flatMap utf8
  | .spec b => b

/-- does the request's piece structure equal the model's `splitInput` of the whole text? -/
def piecesAgree (sp : Special) (ign : Bool) (ps : List RPiece) : Bool :=
  let whole := ps.flatMap RPiece.bytes
  let want := splitInput sp whole ign
  let got : List Piece := ps.filterMap (fun p => match p with
    | .reg cl => some (.regular (cl.flatten.flatMap utf8))
    | .spec b => (idxOf sp.tokens b).map (fun i => .special i b))
  got == want && got.length == ps.length

def eGroups (gs : List TGroup) : List Nat :=
  eList (fun g => match g with | .full n => [0, n] | .nested l => 1 :: eNats l) gs

def eOptBytes (o : Option (List Nat)) : List Nat := eOpt eNats o

structure ByteReq where
  cfg : Option ByteCfg
  pf : Bool

def pByteCfg : P ByteReq := do
  let cp ← pBool; let padTo ← pOpt pNat; let c ← pCommon
  let toks := uniq (byteSpecialTokens c.tokens padTo)
  pure { cfg := mkByteCfg cp c.tokens padTo c.pad c.pre c.suf, pf := prefixFree toks }

structure CharReq where
  cfg : Option CharCfg
  pf : Bool

def pCharCfg : P CharReq := do
  let _g ← pBool; let alpha ← pNats; let unk ← pNats; let c ← pCommon
  pure { cfg := mkCharCfg alpha c.tokens unk c.pad c.pre c.suf, pf := prefixFree (uniq (c.tokens ++ [unk])) }

structure BpeReq where
  cfg : Option BpeCfg
  pf : Bool
  wf : Bool

def pTable : P MTable := pList (pPair pNats pNat)

def pBpeCfg : P BpeReq := do
  let t ← pTable; let mv ← pOpt pNat; let c ← pCommon
  pure { cfg := mkBpeCfg t mv c.tokens c.pad c.pre c.suf, pf := prefixFree (uniq c.tokens), wf := wfTable t }

def vocabAnswer (size : Nat) (vocab : List (List Nat)) (sp : Special) (unk : Option Nat)
    (id2tok : Nat → Option (List Nat)) (tok2id : List Nat → Option Nat) (margin : Nat) : String :=
  ok ([size] ++ eText vocab ++ [sp.padId] ++ eNats sp.prefixIds ++ eNats sp.suffixIds ++ eOpt (fun u => [u]) unk ++
    eList eOptBytes ((List.range (size + margin)).map id2tok) ++
    eList (eOpt (fun i => [i])) (vocab.map (fun v => if validUtf8 v then tok2id v else none)))

def tokD (op : String) (a : List Nat) : Option String :=
  match op with
  | "bytetok" => some <| match runP (do let r ← pByteCfg; let ign ← pBool; let ps ← pPieces; pure (r, ign, ps)) a with
      | some (r, ign, ps) =>
        match r.cfg with
        | none => err "config"
        | some cfg =>
          if !r.pf && !ign then reject else
          if !piecesAgree cfg.sp ign ps then err "split-mismatch" else
          let whole := ps.flatMap RPiece.bytes
          let ids := byteTokenize cfg whole ign
          let gs := byteGroups cfg (ps.map (fun p => match p with | .reg cl => some cl | .spec _ => none))
          ok (eNats ids ++ eGroups gs)
      | none => reject
  | "bytedetok" => some <| match runP (do let r ← pByteCfg; let ign ← pBool; let ids ← pNats; pure (r, ign, ids)) a with
      | some (r, ign, ids) => match r.cfg with
        | none => err "config"
        | some cfg => match byteDetok cfg ids ign with
          | some b => ok (eNats b)
          | none => err "detok"
      | none => reject
  | "bytevocab" => some <| match runP (do let r ← pByteCfg; let m ← pNat; pure (r, m)) a with
      | some (r, m) => match r.cfg with
        | none => err "config"
        | some cfg => vocabAnswer (byteVocabSize cfg) (byteGetVocab cfg) cfg.sp none (byteIdToToken cfg) (byteTokenToId cfg) m
      | none => reject
  | "chartok" => some <| match runP (do let r ← pCharCfg; let ign ← pBool; let ps ← pPieces; pure (r, ign, ps)) a with
      | some (r, ign, ps) =>
        match r.cfg with
        | none => err "config"
        | some cfg =>
          if !r.pf && !ign then reject else
          if !piecesAgree cfg.sp ign ps then err "split-mismatch" else
          let pieces : List (Sum (List (List Nat)) Nat) := ps.map (fun p => match p with
            | .reg cl => Sum.inl cl
            | .spec b => Sum.inr ((idxOf cfg.sp.tokens b).getD 0))
          ok (eNats (charTokenize cfg pieces))
      | none => reject
  | "chardetok" => some <| match runP (do let r ← pCharCfg; let ign ← pBool; let ids ← pNats; pure (r, ign, ids)) a with
      | some (r, ign, ids) => match r.cfg with
        | none => err "config"
        | some cfg => match charDetok cfg ign ids with
          | some b => ok (eNats b)
          | none => err "detok"
      | none => reject
  | "charvocab" => some <| match runP (do let r ← pCharCfg; let m ← pNat; pure (r, m)) a with
      | some (r, m) => match r.cfg with
        | none => err "config"
        | some cfg => vocabAnswer (charVocabSize cfg) (charGetVocab cfg) cfg.sp (some cfg.unkId) (charIdToToken cfg) (charTokenToId cfg) m
      | none => reject
  | "bpetok" => some <| match runP (do let r ← pBpeCfg; let ign ← pBool; let ps ← pPieces; pure (r, ign, ps)) a with
      | some (r, ign, ps) =>
        if !r.wf then reject else
        match r.cfg with
        | none => err "config"
        | some cfg =>
          if !r.pf && !ign then reject else
          if !piecesAgree cfg.sp ign ps then err "split-mismatch" else
          let pieces : List (Sum (List Nat) Nat) := ps.map (fun p => match p with
            | .reg cl => Sum.inl cl.flatten
            | .spec b => Sum.inr ((idxOf cfg.sp.tokens b).getD 0))
          match bpeTokenize cfg pieces with
          | some ids => ok (eNats ids)
          | none => err "fuel"
      | none => reject
  | "bpedetok" => some <| match runP (do let r ← pBpeCfg; let ign ← pBool; let ids ← pNats; pure (r, ign, ids)) a with
      | some (r, ign, ids) =>
        if !r.wf then reject else
        match r.cfg with
        | none => err "config"
        | some cfg => match bpeDetok cfg ids ign with
          | some b => ok (eNats b)
          | none => err "detok"
      | none => reject
  | "bpevocab" => some <| match runP (do let r ← pBpeCfg; let m ← pNat; pure (r, m)) a with
      | some (r, m) =>
        if !r.wf then reject else
        match r.cfg with
        | none => err "config"
        | some cfg => vocabAnswer (bpeVocabSize cfg) (bpeGetVocab cfg) cfg.sp none (bpeIdToToken cfg) (bpeTokenToId cfg) m
      | none => reject
  | "bpeword" => some <| match runP (do let t ← pTable; let w ← pNats; pure (t, w)) a with
      | some (t, w) =>
        if !wfTable t then reject else
        match mergeWordImpl t w, mergeWordSpec t w with
        | some i, some s => ok (eNats i ++ eNats s)
        | _, _ => err "fuel"
      | none => reject
  | _ => none

end Tu.Drive
