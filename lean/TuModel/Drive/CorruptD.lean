import TuModel.Model.Wire
import TuModel.Model.Corrupt
namespace Tu.Drive
open Tu Tu.Wire

def pInsTbl : P (List ((Cl × Cl) × List (List Cl))) :=
  pList (do let a ← pNats; let b ← pNats; let es ← pList pText; pure ((a, b), es))
def pRepTbl : P (List ((Cl × Cl × Cl) × List (List Cl))) :=
  pList (do let a ← pNats; let b ← pNats; let c ← pNats; let es ← pList pText; pure ((a, b, c), es))

/-- request: g word excl | insert? delete? replace? swap frozen | result word, result excl -/
def corruptD (op : String) (args : List Nat) : Option String :=
  match op with
  -- the preprocessing step that builds its edit tables from a characters file and chains edit_word: every chain of
  -- the model ends with a word and an exclusion set inside it (`C15.chain_excl_bound`); the request only asks that the
  -- implementation terminates without a fault
  | "spellprep" => some "terminates"
  | "editword" => some <| match runP (do
        let _g ← pBool; let word ← pText; let excl ← pNats
        let ins ← pOpt pInsTbl; let del ← pOpt pBool; let rep ← pOpt pRepTbl; let sw ← pBool; let frozen ← pNats
        let rw ← pText; let rexcl ← pNats
        pure (word, excl, ({ insert := ins, delete := del, replace := rep, swap := sw, frozen := frozen } : EditCfg), rw, rexcl)) args with
      | some (word, excl, cfg, rw, rexcl) =>
        if (outcomes cfg word excl).contains (rw, normExcl rexcl) then "accept" else "refuse"
      | none => reject
  | _ => none

end Tu.Drive
