import TuModel.Model.Wire
import TuModel.Model.Match
namespace Tu.Drive
open Tu Tu.Wire

/-- request: raw code points of a and b, then optionally (ignore_case) the lowercase forms of the
words of a and of b as computed by the implementation's `str::to_lowercase` -/
def pMatchArgs : P (List (List Nat) × List (List Nat)) := do
  let a ← pNats; let b ← pNats
  let lower ← pOpt (pPair pText pText)
  let wa := splitAsciiWs a
  let wb := splitAsciiWs b
  match lower with
  | none => pure (wa, wb)
  | some (la, lb) => if la.length == wa.length && lb.length == wb.length then pure (la, lb) else failure

def matchD (op : String) (args : List Nat) : Option String :=
  match op with
  | "matchw" => some <| match runP pMatchArgs args with
      | some (a, b) => match matchWords a b with
        | some m => ok (ePairs m ++ [a.length, b.length])
        | none => err "should-not-happen"
      | none => reject
  | "editedw" => some <| match runP pMatchArgs args with
      | some (a, b) => match matchWords a b with
        | some m => let e := editedWords a.length b.length m; ok (eNats e.1 ++ eNats e.2)
        | none => err "should-not-happen"
      | none => reject
  | _ => none

end Tu.Drive
