import TuModel.Model.Wire
import TuModel.Model.Match
namespace Tu.Drive
open Tu Tu.Wire

/-- request: raw code points of a and b, then optionally (ignore_case) the lowercase forms of the
words of a and of b as computed by the implementation's `str::to_lowercase` -/
def pMatchArgs : P (List (List Nat) × List (List Nat)) := do
  let a ← pNats; let b ← pNats
  let lower ← pOpt (pPair pText pText)
  let wa := splitAsciiWs a
  let wb := splitAsciiWs b
  match lower with
  | none => pure (wa, wb)
  | some (la, lb) => if la.length == wa.length && lb.length == wb.length then pure (la, lb) else failure

def matchD (op : String) (args : List Nat) : Option String :=
  match op with
  | "matchw" => some <| match runP (do let x ← pMatchArgs; let m ← pList (pPair pNat pNat); let al ← pNat; let bl ← pNat; pure (x, m, al, bl)) args with
      -- relational: the observed matching must be a longest one; the word counts are fixed
      | some ((a, b), m, al, bl) =>
        if (matchWords a b).isNone then err "should-not-happen"
        else if al != a.length || bl != b.length then "refuse word-counts"
        else if matchAccept a b m then "accept" else "refuse not-a-longest-increasing-matching"
      | none => reject
  | "editedw" => some <| match runP (do let x ← pMatchArgs; let m ← pList (pPair pNat pNat); let ea ← pNats; let eb ← pNats; pure (x, m, ea, eb)) args with
      -- the observed matching (of the same run) and the observed edited sets (sorted): exactly its complement
      | some ((a, b), m, ea, eb) =>
        if !matchAccept a b m then "refuse not-a-longest-increasing-matching"
        else if editedWords a.length b.length m == (ea, eb) then "accept" else "refuse not-the-complement"
      | none => reject
  | _ => none

end Tu.Drive
