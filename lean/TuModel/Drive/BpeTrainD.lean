import TuModel.Model.Wire
import TuModel.Model.BpeTrain
import TuModel.Model.BpeTrainInc
namespace Tu.Drive
open Tu Tu.Wire

/-- lexicographic order on byte strings / pairs, for a canonical form of the statistics -/
def natsLe : List Nat → List Nat → Bool
  | [], _ => true
  | _ :: _, [] => false
  | a :: as, b :: bs => a < b || (a == b && natsLe as bs)
def pairLe (p q : List Nat × List Nat) : Bool := if p.1 == q.1 then natsLe p.2 q.2 else natsLe p.1 q.1

/-- entries sorted by pair, per-word counters sorted by word index (the hook reports them sorted) -/
def canonStats (st : StatsObs) : StatsObs :=
  (st.map (fun e => (e.1, e.2.1, e.2.2.mergeSort (fun a b => a.1 ≤ b.1)))).mergeSort (fun a b => pairLe a.1 b.1)

def bpeTrainD (op : String) (args : List Nat) : Option String :=
  match op with
  | "trainbpe" => some <| match runP (do
        let n ← pNat; let _norm ← pBool; let _threads ← pNat; let _nfiles ← pNat; let _maxLines ← pNat; let _lines ← pList pNats; let words ← pList (pPair pNats pNat); let t ← pList (pPair pNats pNat); pure (n, words, t)) args with
      | some (n, words, t) =>
        if greedyTable words n t then (if wfTable t then "accept" else "refuse not-well-formed") else "refuse not-greedy"
      | none => reject
  | "trainsteps" => some <| match runP (do
        let n ← pNat; let words ← pList (pPair pNats pNat)
        let pStats : P StatsObs := pList (do let a ← pNats; let b ← pNats; let f ← pNat; let ws ← pList (pPair pNat pNat); pure ((a, b), f, ws))
        let init ← pStats
        let steps ← pList (do let a ← pNats; let b ← pNats; let st ← pStats; let vocab ← pList (pList pNats); pure ((a, b), st, vocab))
        pure (n, words, init, steps)) args with
      | some (n, words, init, steps) =>
        let c := initCorpus words
        if !statsExact c init then "refuse initial-statistics"
        else match stepsReplay c steps 0 with
          | some (k, why) => s!"refuse step {k} " ++ (if why == 1 then "pair-not-maximal" else if why == 2 then "vocabulary" else "statistics")
          | none =>
            -- the loop stops after n merges or when no pair occurs any more
            if !(steps.length == n || maxPairFreq (corpusAfter c (steps.map (·.1))) == 0) then "refuse stopped-early"
            -- the FUNCTION model of the incremental bookkeeping (byte_pair_stats / replace_pair / update_stats, line by
            -- line) reproduces every entry of the observed statistics, including the zeroed ones
            else if canonStats (bytePairStats c) != canonStats init then "refuse model-initial-statistics"
            else match trainTrace (c, bytePairStats c) (steps.map (·.1)) with
              | none => "refuse model-run-fails"
              | some tr =>
                if tr.map (fun e => (e.1, canonStats e.2.1, e.2.2)) == steps.map (fun e => (e.1, canonStats e.2.1, e.2.2))
                then "accept" else "refuse model-trace-differs"
      | none => reject
  | _ => none

end Tu.Drive
