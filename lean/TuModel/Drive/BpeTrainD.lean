import TuModel.Model.Wire
import TuModel.Model.BpeTrain
namespace Tu.Drive
open Tu Tu.Wire

def bpeTrainD (op : String) (args : List Nat) : Option String :=
  match op with
  | "trainbpe" => some <| match runP (do
        let n ← pNat; let _norm ← pBool; let _threads ← pNat; let _lines ← pList pNats; let words ← pList (pPair pNats pNat); let t ← pList (pPair pNats pNat); pure (n, words, t)) args with
      | some (n, words, t) =>
        if greedyTable words n t then (if wfTable t then "accept" else "refuse not-well-formed") else "refuse not-greedy"
      | none => reject
  | "trainsteps" => some <| match runP (do
        let n ← pNat; let words ← pList (pPair pNats pNat)
        let pStats : P StatsObs := pList (do let a ← pNats; let b ← pNats; let f ← pNat; let ws ← pList (pPair pNat pNat); pure ((a, b), f, ws))
        let init ← pStats
        let steps ← pList (do let a ← pNats; let b ← pNats; let st ← pStats; let vocab ← pList (pList pNats); pure ((a, b), st, vocab))
        pure (n, words, init, steps)) args with
      | some (n, words, init, steps) =>
        let c := initCorpus words
        if !statsExact c init then "refuse initial-statistics"
        else match stepsReplay c steps 0 with
          | some (k, why) => s!"refuse step {k} " ++ (if why == 1 then "pair-not-maximal" else if why == 2 then "vocabulary" else "statistics")
          | none =>
            -- the loop stops after n merges or when no pair occurs any more
            if steps.length == n || maxPairFreq (corpusAfter c (steps.map (·.1))) == 0 then "accept" else "refuse stopped-early"
      | none => reject
  | _ => none

end Tu.Drive
