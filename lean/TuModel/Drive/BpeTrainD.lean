import TuModel.Model.Wire
import TuModel.Model.BpeTrain
namespace Tu.Drive
open Tu Tu.Wire

def bpeTrainD (op : String) (args : List Nat) : Option String :=
  match op with
  | "trainbpe" => some <| match runP (do
        let n ← pNat; let _norm ← pBool; let _threads ← pNat; let _lines ← pList pNats; let words ← pList (pPair pNats pNat); let t ← pList (pPair pNats pNat); pure (n, words, t)) args with
      | some (n, words, t) =>
        if greedyTable words n t then (if wfTable t then "accept" else "refuse not-well-formed") else "refuse not-greedy"
      | none => reject
  | _ => none

end Tu.Drive
