import TuModel.Model.Wire
import TuModel.Model.Metrics
namespace Tu.Drive
open Tu Tu.Wire

def qs (q : Q) : String := s!"q:{q.num}/{q.den}"
def okQ3 (r : Q × Q × Q) : String := s!"ok {qs r.1} {qs r.2.1} {qs r.2.2}"

def pTriples : P (List (List (List Nat) × List (List Nat) × List (List Nat))) :=
  pList (do let _ ← pNats; let a ← pText; let _ ← pNats; let b ← pText; let _ ← pNats; let c ← pText; pure (a, b, c))

def okTexts (g : Bool) (ts : List (List (List Nat) × List (List Nat) × List (List Nat))) : Bool :=
  g || ts.all (fun (a, b, c) => singletons a && singletons b && singletons c)

abbrev Triple := List (List Nat) × List (List Nat) × List (List Nat)
abbrev RawSub := List (Nat × Nat) × List (Nat × Nat) × List (Nat × Nat) × List (Nat × Nat × Nat)

def mkSpellSub (r : RawSub) : Option SpellSub :=
  (r.2.2.2.mapM (fun (x : Nat × Nat × Nat) => (EKind.ofNat? x.1).map (fun k => (k, x.2.1, x.2.2)))).map
    (fun o => { mit := r.1, mip := r.2.1, mpt := r.2.2.1, ops := o })

def spellAnswer (sa : Bool) (bn bd : Nat) (zs : List (Triple × SpellSub)) : String :=
  if !(zs.all (fun z => spellSubOk z.1.1 z.1.2.1 z.1.2.2 z.2)) then "refuse sub-result-not-admissible" else
  match zs.mapM (fun z => spellCountsWith z.1.1 z.1.2.1 z.1.2.2 z.2) with
  | some cs => okQ3 (if sa then seqAvgF1 cs bn bd else microF1 cs bn bd)
  | none => err "group-words-assert"

def metricsD (op : String) (args : List Nat) : Option String :=
  match op with
  | "binf1" => some <| match runP (do let a ← pList pBool; let b ← pList pBool; let bn ← pNat; let bd ← pNat; pure (a, b, bn, bd)) args with
      | some (a, b, bn, bd) =>
        if bd == 0 then reject else
        if a.length != b.length then err "len" else
        let (tp, fp, fn) := countTpFpFn a b
        okQ3 (f1 tp fp fn bn bd)
      | none => reject
  | "acc" => some <| match runP (do let a ← pNats; let b ← pNats; pure (a, b)) args with
      | some (a, b) => match accuracy a b with
        | some q => s!"ok {qs q}"
        | none => err "len"
      | none => reject
  | "med" => some <| match runP (do let g ← pBool; let norm ← pBool; let ps ← pList (do let _ ← pNats; let a ← pText; let _ ← pNats; let b ← pText; pure (a, b)); pure (g, norm, ps)) args with
      | some (g, norm, ps) =>
        if !g && !(ps.all (fun (a, b) => singletons a && singletons b)) then reject else
        let total := ps.foldl (fun acc (a, b) =>
          Q.add acc ⟨editDistance { swap := false, sid := false } a b, if norm then normDen a b else 1⟩) Q.zero
        s!"ok {qs (total.divNat (max ps.length 1))}"
      | none => reject
  | "wsf1" => some <| match runP (do let g ← pBool; let mode ← pNat; let sa ← pBool; let bn ← pNat; let bd ← pNat; let ts ← pTriples; pure (g, mode, sa, bn, bd, ts)) args with
      | some (g, mode, sa, bn, bd, ts) =>
        if bd == 0 || mode > 2 || !okTexts g ts then reject else
        match ts.mapM (fun (i, p, t) => wsCounts i p t mode) with
        | some cs => okQ3 (if sa then seqAvgF1 cs bn bd else microF1 cs bn bd)
        | none => err "ops"
      | none => reject
  | "spellf1" => some <| match runP (do
        let g ← pBool; let sa ← pBool; let bn ← pNat; let bd ← pNat; let ts ← pTriples
        -- per triple: the sub-results the property leaves open (three word matchings, the edit script), as observed
        let pPairs : P (List (Nat × Nat)) := pList (pPair pNat pNat)
        let subs ← pList (do
          let mit ← pPairs; let mip ← pPairs; let mpt ← pPairs
          let ops ← pList (do let k ← pNat; let i ← pNat; let j ← pNat; pure (k, i, j))
          pure (mit, mip, mpt, ops))
        pure (g, sa, bn, bd, ts, subs)) args with
      | some (g, sa, bn, bd, ts, subs) =>
        if bd == 0 || !okTexts g ts || subs.length != ts.length then reject else
        match subs.mapM mkSpellSub with
        | none => reject
        | some ss => spellAnswer sa bn bd (ts.zip ss)
      | none => reject
  | _ => none

end Tu.Drive
