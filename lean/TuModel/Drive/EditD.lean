import TuModel.Model.Wire
import TuModel.Model.Text
import TuModel.Model.Edit
namespace Tu.Drive
open Tu Tu.Wire

def pEditArgs : P (Bool × EFlags × Bool × List (List Nat) × List (List Nat)) := do
  let g ← pBool; let sw ← pBool; let sid ← pBool; let norm ← pBool
  let a ← pText; let b ← pText
  if !g && !(singletons a && singletons b) then failure
  pure (g, { swap := sw, sid := sid }, norm, a, b)

def editD (op : String) (args : List Nat) : Option String :=
  match op with
  | "dist" => some <| match runP pEditArgs args with
      | some (_, fl, norm, a, b) =>
        let d := editDistance fl a b
        if norm then s!"ok q:{d}/{normDen a b}" else ok [d]
      | none => reject
  | "pdist" => some <| match runP pEditArgs args with
      | some (_, fl, norm, a, b) =>
        let d := prefixDistance fl a b
        if norm then s!"ok q:{d}/{a.length}" else ok [d]
      | none => reject
  | "eops" => some <| match runP pEditArgs args with
      | some (_, fl, _, a, b) =>
        match editOperations fl a b with
        | some l => ok (eList (fun (k, i, j) => [k.toNat, i, j]) l)
        | none => err "should-not-happen"
      | none => reject
  | _ => none

end Tu.Drive
