import TuModel.Model.Wire
import TuModel.Model.Text
import TuModel.Model.Edit
namespace Tu.Drive
open Tu Tu.Wire

def pEditArgs : P (Bool × EFlags × Bool × List (List Nat) × List (List Nat)) := do
  let g ← pBool; let sw ← pBool; let sid ← pBool; let norm ← pBool
  let a ← pText; let b ← pText
  if !g && !(singletons a && singletons b) then failure
  pure (g, { swap := sw, sid := sid }, norm, a, b)

def editD (op : String) (args : List Nat) : Option String :=
  match op with
  | "dist" => some <| match runP pEditArgs args with
      | some (_, fl, norm, a, b) =>
        let d := editDistance fl a b
        if norm then s!"ok q:{d}/{normDen a b}" else ok [d]
      | none => reject
  | "pdist" => some <| match runP pEditArgs args with
      | some (_, fl, norm, a, b) =>
        let d := prefixDistance fl a b
        if norm then s!"ok q:{d}/{a.length}" else ok [d]
      | none => reject
  | "eops" => some <| match runP (do let x ← pEditArgs; let ops ← pList (do let k ← pNat; let i ← pNat; let j ← pNat; pure (k, i, j)); pure (x, ops)) args with
      -- relational: is the observed script an optimal, sorted, flag-respecting script turning a into b?
      | some ((_, fl, _, a, b), ops) =>
        match ops.mapM (fun (k, i, j) => (EKind.ofNat? k).map (fun k => (k, i, j))) with
        | some l => if scriptAccept fl a b l then "accept" else "refuse"
        | none => reject
      | none => reject
  | _ => none

end Tu.Drive
