import TuModel.Model.Wire
import TuModel.Model.Loader
import TuModel.Model.LoaderU
namespace Tu.Drive
open Tu Tu.Wire

/-- request: N skip limit? ff rank W -/
def selectAnswer (args : List Nat) : String :=
  match runP (do
        let n ← pNat; let skip ← pNat; let lim ← pOpt pNat; let ff ← pNat; let rank ← pNat; let w ← pNat
        let _rest ← pNats
        let invalid ← pNats
        pure (n, skip, lim, ff, rank, w, invalid)) args with
  | some (n, skip, lim, ff, rank, w, invalid) =>
    if w == 0 || rank ≥ w then reject else
    -- the line-by-line mirror of the adaptor chain with saturating `usize` arithmetic must give the
    -- specification's answer (`C08u.selectChainU_eq`, `minItemsU_eq` prove it for every corpus that can exist;
    -- here it is evaluated on the request)
    if n < U64 && (selectChainU n skip lim ff rank w invalid != some (selectValid n skip lim ff rank w invalid) ||
        minItemsU n skip lim != minItems n skip lim) then "refuse model-arithmetic" else
    ok (eNats (selectValid n skip lim ff rank w invalid) ++ [minItems n skip lim])
  | none => reject

def loaderD (op : String) (args : List Nat) : Option String :=
  match op with
  | "select" => some (selectAnswer args)
  -- the same loader after its files held other content of the same size: the model has no file system state
  | "selectreload" => some (selectAnswer args)
  | "selectstall" => some <| match args with
      -- the same loader while one worker is held up for several seconds of wall time after it processed item
      -- `k`: the model has no clock, the answer is that of `select`
      | _ms :: _k :: rest => selectAnswer rest
      | _ => reject
  | _ => none

end Tu.Drive
