import TuModel.Model.Wire
import TuModel.Model.Dict
namespace Tu.Drive
open Tu Tu.Wire

/-- insertion sort of entries by key bytes, for a canonical answer -/
def sortEntries (l : List (Tok × Nat)) : List (Tok × Nat) := l.mergeSort (fun a b => tokLt a.1 b.1 || a.1 == b.1)

def dictD (op : String) (args : List Nat) : Option String :=
  match op with
  | "dictcreate" => some <| match runP (do
        let ms ← pOpt pNat; let mq ← pOpt pNat; let _threads ← pNat; let _mode ← pNat
        let lines ← pList (do let _ ← pNats; pList pNats); pure (ms, mq, lines)) args with
      | some (ms, mq, lines) =>
        let d := dictCreate lines ms mq
        ok ([d.freqSum] ++ eList (fun (e : Tok × Nat) => eNats e.1 ++ [e.2]) (sortEntries d.entries))
      | none => reject
  | "closest" => some <| match runP (do
        let norm ← pBool; let q ← pText; let es ← pList (pPair pText pNat); let obs ← pOpt pNat
        pure (norm, q, es, obs)) args with
      | some (norm, q, es, obs) =>
        match closestSpec q es norm, obs with
        | none, none => "ok none"
        | some (idxs, f), some i => if idxs.contains i then ok [f] else "refuse not-a-closest-most-frequent-entry"
        | _, _ => "refuse"
      | none => reject
  | _ => none

end Tu.Drive
