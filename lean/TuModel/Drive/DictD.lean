import TuModel.Model.Wire
import TuModel.Model.Dict
import TuModel.Model.DictFile
import TuModel.Model.Special
namespace Tu.Drive
open Tu Tu.Wire

/-- insertion sort of entries by key bytes, for a canonical answer -/
def sortEntries (l : List (Tok × Nat)) : List (Tok × Nat) := l.mergeSort (fun a b => tokLt a.1 b.1 || a.1 == b.1)

def dictD (op : String) (args : List Nat) : Option String :=
  match op with
  | "dictcreate" => some <| match runP (do
        let ms ← pOpt pNat; let mq ← pOpt pNat; let _threads ← pNat; let _mode ← pNat
        let lines ← pList (do let _ ← pNats; pList pNats)
        let obs ← pOpt (do let fs ← pNat; let es ← pList (pPair pNats pNat); pure (fs, es))
        pure (ms, mq, lines, obs)) args with
      -- relational: the observed dictionary must be an admissible result (ties at the cut are not fixed)
      | some (ms, mq, lines, some (fs, es)) => if dictAccept lines ms mq es fs then "accept" else "refuse"
      | some (_, _, _, none) => "refuse create-failed"
      | none => reject
  | "closest" => some <| match runP (do
        let norm ← pBool; let q ← pText; let es ← pList (pPair pText pNat); let obs ← pOpt pNat
        -- (the query as the caller spelled it, before the normalisation the real code applies: not used by the model)
        let _raw ← pNats
        pure (norm, q, es, obs)) args with
      | some (norm, q, es, obs) =>
        match closestSpec q es norm, obs with
        | none, none => "ok none"
        | some (idxs, f), some i => if idxs.contains i then ok [f] else "refuse not-a-closest-most-frequent-entry"
        | _, _ => "refuse"
      | none => reject
  | "dictload" => some <| match runP (do let bytes ← pNats; let cps ← pNats; pure (bytes, cps)) args with
      -- the file as bytes and, when it is valid UTF-8, as code points (checked here by re-encoding)
      | some (bytes, cps) =>
        if !validUtf8 bytes then (if cps.isEmpty then err "load" else reject)
        else if cps.flatMap utf8 != bytes then reject
        else match dictLoad cps with
          | none => err "load"
          | some d => ok ([d.freqSum] ++ eList (fun (e : Key × Nat) => eNats e.1 ++ [e.2]) (sortEntries d.entries))
      | none => reject
  | "dictsave" => some <| match runP (do let es ← pList (pPair pNats pNat); let file ← pNats; pure (es, file)) args with
      | some (es, file) => if saveAccepts es file then "accept" else "refuse"
      | none => reject
  | _ => none

end Tu.Drive
