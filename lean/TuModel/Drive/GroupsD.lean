import TuModel.Model.Wire
import TuModel.Model.Groups
import TuModel.Drive.MetricsD
namespace Tu.Drive
open Tu Tu.Wire

def pGroup : P TGroup := do
  let k ← pNat
  if k == 0 then (do let n ← pNat; pure (.full n)) else if k == 1 then (do let l ← pNats; pure (.nested l)) else failure

def groupsD (op : String) (args : List Nat) : Option String :=
  match op with
  | "coo" => some <| match runP (do let gs ← pList (do let m ← pBool; let g ← pList pGroup; pure (g, m)); let ls ← pNats; pure (gs, ls)) args with
      | some (gs, ls) => match sparseCoo gs ls with
        | some c =>
          " ".intercalate (["ok"] ++ (eNats c.rowBatch ++ eNats c.rowGroup ++ eNats c.rowToken).map toString ++
            [toString c.values.length] ++ c.values.map qs ++ (eNats c.size ++ eNats c.groupLengths).map toString ++
            (eList (fun r => eNats (r.map (fun b => if b then 1 else 0))) (paddingMask c.groupLengths)).map toString)
        | none => err "assert"
      | none => reject
  | "padids" => some <| match runP (do let pad ← pNat; let rows ← pList pNats; pure (pad, rows)) args with
      | some (pad, rows) => let (m, l) := padIds rows pad; ok (eList eNats m ++ eNats l)
      | none => reject
  | "tensorize" => some <| match runP (do let k ← pNat; let pad ← pNat; let tpad ← pNat; let rows ← pList pNats; let trows ← pList pNats; let lrows ← pList pNats; pure (k, pad, tpad, rows, trows, lrows)) args with
      | some (k, pad, tpad, rows, trows, lrows) =>
        if k > 3 || trows.length != rows.length || lrows.length != rows.length then reject else
        let t := tensorize k pad tpad rows trows lrows
        ok (eList eNats t.ids ++ eNats t.lens ++ eList eNats t.labels ++
          (match t.target with | some (m, l) => [1] ++ eList eNats m ++ eNats l | none => [0]))
      | none => reject
  | _ => none

end Tu.Drive
