import TuModel.Model.Wire
import TuModel.Model.Groups
import TuModel.Drive.MetricsD
namespace Tu.Drive
open Tu Tu.Wire

def pGroup : P TGroup := do
  let k ← pNat
  if k == 0 then (do let n ← pNat; pure (.full n)) else if k == 1 then (do let l ← pNats; pure (.nested l)) else failure

def groupsD (op : String) (args : List Nat) : Option String :=
  match op with
  | "coo" => some <| match runP (do let gs ← pList (do let m ← pBool; let g ← pList pGroup; pure (g, m)); let ls ← pNats; pure (gs, ls)) args with
      | some (gs, ls) => match sparseCoo gs ls with
        | some c =>
          " ".intercalate (["ok"] ++ (eNats c.rowBatch ++ eNats c.rowGroup ++ eNats c.rowToken).map toString ++
            [toString c.values.length] ++ c.values.map qs ++ (eNats c.size ++ eNats c.groupLengths).map toString ++
            (eList (fun r => eNats (r.map (fun b => if b then 1 else 0))) (paddingMask c.groupLengths)).map toString)
        | none => err "assert"
      | none => reject
  | "padids" => some <| match runP (do let pad ← pNat; let rows ← pList pNats; pure (pad, rows)) args with
      | some (pad, rows) => let (m, l) := padIds rows pad; ok (eList eNats m ++ eNats l)
      | none => reject
  | _ => none

end Tu.Drive
