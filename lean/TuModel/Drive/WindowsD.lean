import TuModel.Model.Wire
import TuModel.Model.Windows
import TuModel.Model.WindowsU
namespace Tu.Drive
open Tu Tu.Wire

def eWin (w : Win) : List Nat :=
  [w.ctxStart, w.wStart, w.wEnd, w.ctxEnd, w.bCtxStart, w.bWStart, w.bWEnd, w.bCtxEnd]

def winErr : WinErr → String
  | .badConfig => err "bad-config"
  | .tooWide => err "too-wide"
  | .noProgress => err "no-progress"

/-- does the checked mirror give exactly the Nat model's answer (and no overflow)? -/
def sameAnswer : Option (Except WinErr (List Win)) → Except WinErr (List Win) → Bool
  | some (.ok a), .ok b => a == b
  | some (.error a), .error b => a == b
  | _, _ => false

/-- request: kind (0 char, 1 byte, 2 full), max, ctx, cluster byte lengths -/
def windowsD (op : String) (args : List Nat) : Option String :=
  match op with
  | "windows" => some <| match runP (do
        let k ← pNat; let m ← pNat; let c ← pNat; let _realisation ← pNat; let l ← pNats
        -- the observation: the windows (8 fields each) or an error kind
        let obs ← pOpt (pList (do
          let a ← pNat; let b ← pNat; let c ← pNat; let d ← pNat; let e ← pNat; let f ← pNat; let g ← pNat; let h ← pNat
          pure ({ ctxStart := a, wStart := b, wEnd := c, ctxEnd := d, bCtxStart := e, bWStart := f, bWEnd := g, bCtxEnd := h } : Win)))
        pure (k, m, c, l, obs)) args with
      | some (k, m, c, lens, obs) =>
        if lens.any (fun x => x == 0) || k > 2 then reject else
        -- the checked-arithmetic mirror of the code (every `usize` operation of `char` / `byte`, `none` = an
        -- overflow panic) must not overflow and must give the Nat model's answer (`C16.charWindowsU_eq`,
        -- `byteWindowsU_eq` prove this for every text that can exist; here it is evaluated on the request)
        if (k == 0 && m < U64 && !sameAnswer (charWindowsU lens m c) (charWindows lens m c)) ||
           (k == 1 && m < U64 && !sameAnswer (byteWindowsU lens m c) (byteWindows lens m c)) then "refuse model-arithmetic" else
        if lens.isEmpty then
          -- the empty text: no open choice, the answer is the function model's
          (match windowsModel k lens m c, obs with
           | .ok ws, some o => if ws == o then "accept" else "refuse"
           | .error _, none => "accept"
           | _, _ => "refuse")
        else if windowsAccept k lens m c obs then "accept" else "refuse"
      | none => reject
  | _ => none

end Tu.Drive
