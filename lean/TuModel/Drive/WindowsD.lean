import TuModel.Model.Wire
import TuModel.Model.Windows
namespace Tu.Drive
open Tu Tu.Wire

def eWin (w : Win) : List Nat :=
  [w.ctxStart, w.wStart, w.wEnd, w.ctxEnd, w.bCtxStart, w.bWStart, w.bWEnd, w.bCtxEnd]

def winErr : WinErr → String
  | .badConfig => err "bad-config"
  | .tooWide => err "too-wide"
  | .noProgress => err "no-progress"

/-- request: kind (0 char, 1 byte, 2 full), max, ctx, cluster byte lengths -/
def windowsD (op : String) (args : List Nat) : Option String :=
  match op with
  | "windows" => some <| match runP (do let k ← pNat; let m ← pNat; let c ← pNat; let _realisation ← pNat; let l ← pNats; pure (k, m, c, l)) args with
      | some (k, m, c, lens) =>
        if lens.any (fun x => x == 0) then reject else
        let r := match k with
          | 0 => charWindows lens m c
          | 1 => byteWindows lens m c
          | _ => if lens.isEmpty then .ok [emptyWin] else .ok (fullWindows lens)
        match r with
        | .ok ws => ok (eList eWin ws)
        | .error e => winErr e
      | none => reject
  | _ => none

end Tu.Drive
