import TuModel.Model.Wire
import TuModel.Model.CharString
namespace Tu.Drive
open Tu Tu.Wire

def eRange : Option (Nat × Nat) → List Nat
  | none => [0]
  | some (a, b) => [1, a, b]

def eTriples : Option (List (Nat × Nat × Nat)) → String
  | none => err "panic"
  | some l => ok (l.length :: l.flatMap (fun t => [t.1, t.2.1, t.2.2]))

/-- requests of C16's check about `CharString` and the substring enumerations (the text travels as its cluster
byte lengths plus a realisation selector that only the harness uses):
  cstr var lens queries      → len, decoded lengths, and per query (s, e): sub(s, e), get(s)
  charsubs var max lens      → possible_character_substrings
  bytesubs var max lens      → possible_byte_substrings -/
def charStringD (op : String) (args : List Nat) : Option String :=
  match op with
  | "cstr" => some <| match runP (do
        let _var ← pNat; let l ← pNats; let q ← pList (pPair pNat pNat); pure (l, q)) args with
      | some (lens, qs) =>
        if lens.any (· == 0) then reject else
        let cs := CStr.new lens
        ok (cs.len :: eNats (rld cs.rl) ++ qs.flatMap (fun (s, e) =>
          eRange (csSub cs.rl cs.len s e) ++
          (match csGet cs.rl cs.len s with
           | none => [2]
           | some r => eRange r)))
      | none => reject
  | "charsubs" => some <| match runP (do let _var ← pNat; let m ← pNat; let l ← pNats; pure (m, l)) args with
      | some (m, lens) => if lens.any (· == 0) then reject else eTriples (possibleCharSubstrings lens m)
      | none => reject
  | "bytesubs" => some <| match runP (do let _var ← pNat; let m ← pNat; let l ← pNats; pure (m, l)) args with
      | some (m, lens) => if lens.any (· == 0) then reject else eTriples (possibleByteSubstrings lens m)
      | none => reject
  | _ => none

end Tu.Drive
