import TuModel.Model.Wire
import TuModel.Model.Pipe
namespace Tu.Drive
open Tu Tu.Wire

structure PEv where
  code : Nat
  w : Nat
  idx : Nat
  flag : Nat

def pEvents : P (List PEv) := pList (do
  let c ← pNat; let w ← pNat; let i ← pNat; let f ← pNat
  pure { code := c, w := w, idx := i, flag := f })

/-- replay one observed event: the action must be enabled and the model must predict the observation -/
def replayEv (s : PState) (e : PEv) : Option PState :=
  match e.code with
  | 0 => match stepTake s e.w with
    | some s' => if (e.flag == 1 && s'.pc e.w == .holding e.idx) || (e.flag == 0 && s'.pc e.w == .exited) then some s' else none
    | none => none
  | 1 => if s.pc e.w == .holding e.idx then stepCompute s e.w else none
  | 2 => if s.pc e.w == .computed e.idx && ((e.flag == 1) == (s.turn == e.idx)) then stepSpin s e.w else none
  | 3 => match stepSend s e.w with
    | some s' => if s'.pc e.w == .sent e.idx (e.flag == 1) then some s' else none
    | none => none
  | 4 => match s.pc e.w with
    | .sent i ok => if i == e.idx && ok == (e.flag == 1) then stepAdvance s e.w else none
    | _ => none
  | 5 => match s.chan with
    | x :: _ => if x == e.idx && e.flag == 1 then stepRecv s else none
    | [] => none
  | 6 => stepClose s
  | 7 => stepDrop s
  | _ => none

def replayTrace : PState → Nat → List PEv → Sum Nat PState
  | s, _, [] => .inr s
  | s, k, e :: es => match replayEv s e with
    | some s' => replayTrace s' (k + 1) es
    | none => .inl k

def pipeD (op : String) (args : List Nat) : Option String :=
  match op with
  | "pipetrace" => some <| match runP (do let w ← pNat; let n ← pNat; let evs ← pEvents; pure (w, n, evs)) args with
      | some (w, n, evs) =>
        if w == 0 then reject else
        match replayTrace (PState.init w (fused n)) 0 evs with
        | .inr s => " ".intercalate ("accept" :: (eNats s.recvd).map toString)
        | .inl k => s!"refuse {k}"
      | none => reject
  | "pipegap" => some <| match runP (do let w ← pNat; let k ← pNat; let es ← pList pBool; pure (w, k, es)) args with
      -- an upstream that need not be fused (1 = an item, 0 = `None`, then `None` for ever), consumed `k` times:
      -- every `None` ends one worker, so the pipe delivers the items before the `w`-th `None`
      -- (`pipe_complete_gapDelivered`); unthreaded (`w = 0`, `iter.map(f)`) the loop stops at the first `None`
      | some (w, k, es) => ok [min k (if w == 0 then (es.takeWhile id).length else gapDelivered w es)]
      | none => reject
  | "pipestress" => some <| match args with
      | [_, n, _] => ok [n]
      | _ => reject
  | "pipewalk" => some <| match args with
      -- a schedule walk: every walk of the model ends (`pipe_measure` / `pipe_deadlock_free`)
      | [_, _, _, _, _] => "terminates"
      | _ => reject
  | "pipedeep" => some <| match args with
      -- the model's processing function is an arbitrary total function: its stack need is not observable
      | [_, n, _] => ok [n]
      | _ => reject
  | "pipecpu" => some <| match args with
      -- the model has no notion of CPUs: the piped map is the sequential map on any number of them
      | [_, n] => ok [n]
      | _ => reject
  | "pipemany" => some <| match args with
      -- a pipe is the sequential map whatever other pipes exist: the model has no state shared between pipes
      | [_, _, n] => ok [n]
      | _ => reject
  | "pipeidle" => some <| match args with
      -- consumed items: min k n (the lookahead bound itself is `pipe_lookahead`; on the real code it is a timed observation)
      | [_, n, k, _] => ok [min k n]
      | _ => reject
  | "pipestall" => some <| match args with
      -- a very slow item in one pipe, a long pause of the consumer of another: the model has no clock, both pipes
      -- are the sequential map (`pipe_complete`)
      | [_, n, _, _, _, _] => ok [n, n]
      | _ => reject
  | "pipeslow" => some <| match args with
      | [_, n, _, _] => ok [n]
      | _ => reject
  | "bufdrop" => some <| match args with
      | [_, k, n] => ok [if n == 0 then k else min k n]
      | _ => reject
  | "pipepanic4" => some <| match args with
      -- the same verdict whatever locks the consumer holds
      | [_, n, j] => if j < n then "ok exit 1" else "ok exit 0"
      | _ => reject
  | "pipepanic3" => some <| match args with
      -- the same verdict whatever other pipes were created or dropped before
      | [_, n, j] => if j < n then "ok exit 1" else "ok exit 0"
      | _ => reject
  | "pipepanic2" => some <| match args with
      -- the same verdict whatever ran in the process before
      | [_, n, j] => if j < n then "ok exit 1" else "ok exit 0"
      | _ => reject
  | "pipepanic" => some <| match args with
      | [_, n, j] => if j < n then "ok exit 1" else "ok exit 0"
      | _ => reject
  | _ => none

end Tu.Drive
