import TuModel.Model.Wire
import TuModel.Model.Batch
namespace Tu.Drive
open Tu Tu.Wire

def pItems : P (List Item) := pList (do let i ← pNat; let s ← pNat; pure { id := i, size := s })

/-- request: sort shuffle padded prefetch limit seed <items> <observed batches as lists of ids> -/
def batchD (op : String) (args : List Nat) : Option String :=
  match op with
  | "batch" => some <| match runP (do
        let so ← pBool; let sh ← pBool; let pd ← pBool; let pf ← pNat; let lim ← pNat; let _seed ← pNat
        let items ← pItems; let obs ← pList pNats
        pure ({ sort := so, shuffle := sh, padded := pd, prefetch := pf, limit := lim : BCfg }, items, obs)) args with
      | some (cfg, items, obs) =>
        -- ids must be distinct
        if (items.map (·.id)).eraseDups.length != items.length then reject else
        let lookup := fun (i : Nat) => items.find? (fun x => x.id == i)
        match obs.mapM (fun b => b.mapM lookup) with
        | none => "refuse 0 unknown-item"
        | some batches =>
          let rec go (st : BState) (k : Nat) : List (List Item) → String
            | [] => if finished st then "accept" else s!"refuse {k} ended-early"
            | b :: bs => match stepAllowed cfg st b with
              | some st' => go st' (k + 1) bs
              | none => s!"refuse {k} batch-not-allowed"
          go { rest := items, buf := [] } 0 batches
      | none => reject
  | _ => none

end Tu.Drive
