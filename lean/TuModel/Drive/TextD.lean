import TuModel.Model.Wire
import TuModel.Model.Whitespace
import TuModel.Model.FindSub
namespace Tu.Drive
open Tu Tu.Wire

/-- text argument preceded by the `use_graphemes` flag; in code-point mode the model insists on
one code point per cluster -/
def pGText : P (List (List Nat)) := do
  let g ← pBool
  let t ← pText
  if !g && !singletons t then failure else pure t

def pOps : P (List WsOp) := do
  let l ← pNats
  match l.mapM WsOp.ofNat? with
  | some o => pure o
  | none => failure

def textD (op : String) (a : List Nat) : Option String :=
  match op with
  | "clean" => some <| match runP pGText a with
      | some t => ok (eNats (clean t)) | none => reject
  | "modeswitch" => some <| match runP pNats a with
      -- the code-point mode answers of the four functions (asked straight after the grapheme-mode calls on the same text)
      | some cps =>
        let t := cps.map (fun c => [c])
        ok (eNats (clean t) ++ ePairs (wordBoundaries t) ++ eNats (removeWs t) ++ eNats (full t))
      | none => reject
  | "wb" => some <| match runP pGText a with
      | some t => ok (ePairs (wordBoundaries t)) | none => reject
  | "findsub" => some <| match runP (do let g ← pBool; let t ← pText; let u ← pText; pure (g, t, u)) a with
      -- find_substring_ignoring_whitespace(s, substring, g): the range of code-point positions of the match
      | some (g, t, u) =>
        if !g && !(singletons t && singletons u) then reject else
        (match findSub t.flatten (u.filter (fun c => !isWsCl c)) with
         | some (x, y) => ok [1, x, y]
         | none => ok [0])
      | none => reject
  | "remove" => some <| match runP pGText a with
      | some t => ok (eNats (removeWs t)) | none => reject
  | "full" => some <| match runP pGText a with
      | some t => ok (eNats (full t)) | none => reject
  | "wsops" => some <| match runP (do let g ← pBool; let f ← pText; let t ← pText; pure (g, f, t)) a with
      | some (g, f, t) =>
        if !g && !(singletons f && singletons t) then reject else
        match wsOps f t with
        | some o => ok (eNats (o.map WsOp.toNat))
        | none => err "should-not-happen"
      | none => reject
  | "wslabels" => some <| match runP (do
        let g ← pBool; let f ← pText; let t ← pText; let _tk ← pNat; let np ← pNat; let ns ← pNat; pure (g, f, t, np, ns)) a with
      -- the labels of the whitespace-correction task: -1 (0 on the wire) on prefix / suffix tokens, operations(input,
      -- target) in between; the tokenizer the task is configured with does not matter
      | some (g, f, t, np, ns) =>
        if !g && !(singletons f && singletons t) then reject else
        match wsOps f t with
        | some o => ok (eNats (List.replicate np 0 ++ o.map (fun x => x.toNat + 1) ++ List.replicate ns 0))
        | none => err "task"
      | none => reject
  | "repair" => some <| match runP (do let t ← pGText; let o ← pOps; pure (t, o)) a with
      | some (t, o) => match repair t o with
        | some r => ok (eNats r)
        | none => err "len-mismatch"
      | none => reject
  | "corruptws" => some <| match runP (do let t ← pGText; let _seed ← pNat; let iw ← pNat; let dw ← pNat; let out ← pNats; pure (t, iw, dw, out)) a with
      -- relational: is the observed output possible for some random stream the probabilities allow?
      | some (t, iw, dw, out) => if iw == 0 && dw == 0 then reject else if cwAllowed iw dw t out then "accept" else "refuse"
      | none => reject
  | "wstask" => some <| match runP (do
        let t ← pGText; let _seed ← pNat; let iw ← pNat; let dw ← pNat; let np ← pNat; let ns ← pNat; let out ← pNats
        pure (t, iw, dw, np, ns, out)) a with
      -- the corrupted input is the observed one (judged by cwAllowed); the labels are then determined: -1 (0 on the
      -- wire) on prefix / suffix tokens, operations(input, target) in between.  The model works at the cluster
      -- level: the corrupted clusters are the function model's clusters for a decision list that yields `out`.
      | some (t, iw, dw, np, ns, out) =>
        if iw == 0 && dw == 0 then reject
        else if !cwAllowed iw dw t out then "refuse corrupted-text"
        else match cwWitness (CwFlags.ofPermille iw dw) t true false out with
          | none => "refuse corrupted-text"
          | some inp =>
            match wsOps inp t with
            | some ops => ok ([np + inp.length + ns] ++ eNats (List.replicate np 0 ++ ops.map (fun o => o.toNat + 1) ++ List.replicate ns 0))
            | none => err "task"
      | none => reject
  | "wstable" => some <| match a with
      -- all White_Space code points in [lo, hi)
      | [lo, hi] => ok (eNats ((List.range (hi - lo)).filterMap (fun k => if isWsCp (lo + k) then some (lo + k) else none)))
      | _ => reject
  | "utf8table" => some <| match a with
      -- UTF-8 encodings of the scalar values in [lo, hi): a running checksum over the bytes plus the total length
      | [lo, hi] =>
        let cps := (List.range (hi - lo)).filterMap (fun k => if isScalar (lo + k) then some (lo + k) else none)
        let bytes := cps.flatMap utf8
        ok [cps.length, bytes.length, bytes.foldl (fun acc b => (acc * 257 + b + 1) % 1000000007) 7]
      | _ => reject
  | _ => none

end Tu.Drive
