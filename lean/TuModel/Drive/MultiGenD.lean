import TuModel.Model.Wire
import TuModel.Model.MultiGen
import TuModel.Model.Lines
namespace Tu.Drive
open Tu Tu.Wire

def strategyOf : Nat → Option Strategy
  | 0 => some .sequential | 1 => some .interleaved | 2 => some .weighted | _ => none

/-- items of source k are numbered 0..len-1 -/
def srcsOfLens (lens : List Nat) : List (List Nat) := lens.map List.range

def multiGenD (op : String) (args : List Nat) : Option String :=
  match op with
  -- mgdetb / mgwb: some lines of the sources are unparseable (runs given as (source, start, length) triples); the
  -- generator yields them as `Err` items, and an item is an item whatever it carries: the model does not look at them
  | "mgdet" | "mgdetb" => some <| match runP (do
        let s ← pNat; let lens ← pNats
        if op == "mgdetb" then (do let _ ← pList (do let a ← pNat; let b ← pNat; let c ← pNat; pure (a, b, c)); pure ()) else pure ()
        pure (s, lens)) args with
      | some (s, lens) => match strategyOf s with
        | some .weighted => reject
        | some st =>
          if lens.isEmpty then reject else
          let out := mgRun st (srcsOfLens lens) []
          ok (eList (fun (x, k) => [x, k]) out)
        | none => reject
      | none => reject
  -- mgskip: the generator is advanced with `skip(k)` / `step_by(w)` (i.e. through `Iterator::nth`), as the train
  -- loader does: the items at positions k, k + w, k + 2w, ... of the plain iteration
  | "mgskip" => some <| match runP (do let s ← pNat; let lens ← pNats; let k ← pNat; let w ← pNat; pure (s, lens, k, w)) args with
      | some (s, lens, k, w) => match strategyOf s with
        | some .weighted => reject
        | some st =>
          if lens.isEmpty || w == 0 then reject else
          let out := (mgRun st (srcsOfLens lens) []).drop k
          let sel := (List.range out.length).filterMap (fun j => if j % w == 0 then out[j]? else none)
          ok (eList (fun (x, k) => [x, k]) sel)
        | none => reject
      | none => reject
  | "mgw" | "mgwb" => some <| match runP (do
        let lens ← pNats; let _seed ← pNat; let tags ← pNats
        if op == "mgwb" then (do let _ ← pList (do let a ← pNat; let b ← pNat; let c ← pNat; pure (a, b, c)); pure ()) else pure ()
        pure (lens, tags)) args with
      | some (lens, tags) =>
        if lens.isEmpty || lens.any (· == 0) then "err zero-length" else
        match replayTags (srcsOfLens lens) tags with
        | some rest => if rest.all List.isEmpty then "accept" else "refuse ended-early"
        | none => "refuse yield-from-exhausted-source"
      | none => reject
  -- lossylines: the line reader of the sources (`LossyUtf8Lines`) on one file given as its bytes:
  -- `count_lines`, then the byte content of every yielded line
  | "lossylines" => some <| match runP pNats args with
      | some b =>
        if b.any (· ≥ 256) then reject else
        ok (countLines b :: eList eNats (lossyLines b))
      | none => reject
  | _ => none

end Tu.Drive
