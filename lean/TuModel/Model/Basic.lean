/-
  Shared conventions of all models (DESIGN.md §5).

  * a code point is a `Nat`, a cluster (a "character" of `CharString`) is a `List Nat`,
    a text is a `List (List Nat)`.
  * `isWsCp` is the Unicode `White_Space` property written out; the harness checks it against
    `char::is_whitespace` for every code point.
-/
namespace Tu

/-- Unicode `White_Space` (= Rust `char::is_whitespace`). -/
def isWsCp (c : Nat) : Bool :=
  (9 ≤ c && c ≤ 13) || c == 32 || c == 0x85 || c == 0xA0 || c == 0x1680 ||
  (0x2000 ≤ c && c ≤ 0x200A) || c == 0x2028 || c == 0x2029 || c == 0x202F ||
  c == 0x205F || c == 0x3000

/-- `Character::is_whitespace`: every code point of the cluster is white space. -/
def isWsCl (c : List Nat) : Bool := c.all isWsCp

/-- `str::trim` on the code points of one cluster. -/
def trimCl (c : List Nat) : List Nat :=
  ((c.dropWhile isWsCp).reverse.dropWhile isWsCp).reverse

/-- the single space cluster -/
def sp : List Nat := [32]

/-- number of UTF-8 bytes of a code point (`char::len_utf8`) -/
def utf8Len (c : Nat) : Nat :=
  if c < 0x80 then 1 else if c < 0x800 then 2 else if c < 0x10000 then 3 else 4

/-- UTF-8 encoding of a code point (`char::encode_utf8`), bytes as `Nat` -/
def utf8 (c : Nat) : List Nat :=
  if c < 0x80 then [c]
  else if c < 0x800 then [0xC0 + c / 64, 0x80 + c % 64]
  else if c < 0x10000 then [0xE0 + c / 4096, 0x80 + (c / 64) % 64, 0x80 + c % 64]
  else [0xF0 + c / 262144, 0x80 + (c / 4096) % 64, 0x80 + (c / 64) % 64, 0x80 + c % 64]

/-- a scalar value: what a Rust `char` can hold -/
def isScalar (c : Nat) : Bool := c < 0xD800 || (0xE000 ≤ c && c < 0x110000)

end Tu
