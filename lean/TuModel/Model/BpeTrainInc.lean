/-
  Model of the code of the merge loop of `train_bpe` (src/tokenization.rs) as it exists: the INCREMENTAL bookkeeping
  of the pair statistics (`byte_pair_stats`, `max_byte_pair`, `replace_pair`, `update_stats`), as opposed to the
  recount-based relation of Model/BpeTrain.lean.  The refinement theorems (the incremental statistics always equal the
  recount) are in Props/C19.lean.

  `BytePairStats = HashMap<BytePair, BytePairInfo { freq, words : HashMap<usize, usize> }>` is an association list
  (`StatsObs`): pair ↦ (freq, idx ↦ occ); a new key goes to the end.  Iteration order of a `HashMap` is arbitrary; the
  model iterates in list order (the theorems show that the result does not depend on it: nothing saturates).
  A Rust panic (`stats[pair]`, `vocab[idx]` out of range) and an `Err` of `update_stats` are both `none`.
-/
import TuModel.Model.BpeTrain
namespace Tu

abbrev BPair := List Nat × List Nat
abbrev PairInfo := Nat × List (Nat × Nat)           -- `BytePairInfo`: (freq, words)
abbrev Stats := StatsObs                            -- = List (BPair × PairInfo)
/-- `BytePairChanges`: (idx, old word, new word, freq) -/
abbrev Changes := List (Nat × List (List Nat) × List (List Nat) × Nat)

/-! ### association lists as hash maps -/

/-- `HashMap::get` -/
def alGet {κ β : Type} [BEq κ] : List (κ × β) → κ → Option β
  | [], _ => none
  | (k', v) :: r, k => if k' == k then some v else alGet r k

/-- `HashMap::get_mut` followed by an update of the value (no-op if the key is absent) -/
def alModify {κ β : Type} [BEq κ] (f : β → β) : List (κ × β) → κ → List (κ × β)
  | [], _ => []
  | (k', v) :: r, k => if k' == k then (k', f v) :: r else (k', v) :: alModify f r k

/-- `entry(k).and_modify(f).or_insert(d)` -/
def alUpsert {κ β : Type} [BEq κ] (f : β → β) (d : β) : List (κ × β) → κ → List (κ × β)
  | [], k => [(k, d)]
  | (k', v) :: r, k => if k' == k then (k', f v) :: r else (k', v) :: alUpsert f d r k

/-- the decrement of `update_stats`:
`let stat = stats.get_mut(&q).ok_or(..)?; stat.freq = stat.freq.saturating_sub(freq);
 let occ = stat.words.get_mut(idx).ok_or(..)?; *occ = occ.saturating_sub(1);`  (`Nat` subtraction saturates) -/
def statsDec (st : Stats) (q : BPair) (idx f : Nat) : Option Stats :=
  match alGet st q with
  | none => none                                   -- "pair not found in stats"
  | some info =>
    match alGet info.2 idx with
    | none => none                                 -- "word not found in pair stats"
    | some _ => some (alModify (fun info => (info.1 - f, alModify (fun occ => occ - 1) info.2 idx)) st q)

/-- the increment of `update_stats` and of `byte_pair_stats`:
`stats.entry(q).and_modify(|info| { info.freq += freq; *info.words.entry(idx).or_insert(0) += 1; })
      .or_insert(BytePairInfo { freq, words: [(idx, 1)].into() })` -/
def statsInc (st : Stats) (q : BPair) (idx f : Nat) : Stats :=
  alUpsert (fun info => (info.1 + f, alUpsert (fun occ => occ + 1) 1 info.2 idx)) (f, [(idx, 1)]) st q

/-! ### `byte_pair_stats` -/

/-- the inner loop `for i in 1..word.len()` over the pairs `(word[i-1], word[i])` -/
def bytePairStatsWord (st : Stats) (idx : Nat) (f : Nat) : List BPair → Stats
  | [] => st
  | q :: qs => bytePairStatsWord (statsInc st q idx f) idx f qs

/-- the outer loop `for (idx, (word, freq)) in vocab.iter().enumerate()` -/
def bytePairStatsFrom : Corpus → Nat → Stats → Stats
  | [], _, st => st
  | (w, f) :: r, idx, st => bytePairStatsFrom r (idx + 1) (bytePairStatsWord st idx f (wordPairs w))

def bytePairStats (c : Corpus) : Stats := bytePairStatsFrom c 0 []

/-! ### `max_byte_pair` -/

/-- `stats.iter().filter(freq > 0).max_by_key(freq)`: which of the maximal pairs is returned depends on the hash
order, so this is a relation: `p` has an entry of positive frequency that no other entry exceeds -/
def isMaxBytePair (st : Stats) (p : BPair) : Bool :=
  st.any (fun e => e.1 == p && decide (0 < e.2.1) && st.all (fun e' => decide (e'.2.1 ≤ e.2.1)))

/-- `max_byte_pair(stats) == None` -/
def noBytePair (st : Stats) : Bool := st.all (fun e => e.2.1 == 0)

/-- all pairs `max_byte_pair` may return -/
def maxBytePairs (st : Stats) : List BPair := (st.filter (fun e => isMaxBytePair st e.1)).map (·.1)

/-! ### `replace_pair` -/

/-- body of `for (idx, occ) in &stats[pair].words` -/
def replacePairLoop (p : BPair) : List (Nat × Nat) → Corpus → Changes → Option (Corpus × Changes)
  | [], c, ch => some (c, ch)
  | (idx, occ) :: r, c, ch =>
    if occ < 1 then replacePairLoop p r c ch                 -- `continue`
    else
      match c[idx]? with
      | none => none                                          -- `vocab[*idx]` panics
      | some (w, f) =>
        let nw := replacePairInWord w p.1 p.2
        replacePairLoop p r (c.set idx (nw, f)) (ch ++ [(idx, w, nw, f)])

def replacePair (c : Corpus) (p : BPair) (st : Stats) : Option (Corpus × Changes) :=
  match alGet st p with
  | none => none                                              -- `stats[pair]` panics
  | some info => replacePairLoop p info.2 c []

/-! ### `update_stats` -/

/-- `slice.iter().find_position(pred)` (index only) -/
def findPos {α : Type} (pr : α → Bool) : List α → Option Nat
  | [] => none
  | a :: r => if pr a then some 0 else (findPos pr r).map (· + 1)

/-- `old_word[j]` (all uses are in range; see the comments) -/
def tokAt (w : List (List Nat)) (j : Nat) : List Nat := w.getD j []

/-- one iteration of the first `while` loop of `update_stats` after `i += start` (so `old_word[i] == pair.first`):
the new value of `i` and the statistics -/
def oldAt (x y : List Nat) (old : List (List Nat)) (idx f : Nat) (i : Nat) (st : Stats) : Option (Nat × Stats) :=
  if i == old.length - 1 || tokAt old (i + 1) != y then
    some (i + 1, st)                                           -- `i += 1; continue`
  else
    -- here `i + 1 < old.len()`
    let st1 := if i > 0 then statsDec st (tokAt old (i - 1), tokAt old i) idx f else some st      -- `prev_pair`
    match st1 with
    | none => none
    | some st1 =>
      let st2 :=                                               -- `next_pair`
        if i < old.length - 2 && (tokAt old (i + 2) != x || i ≥ old.length - 3 || tokAt old (i + 3) != y) then
          statsDec st1 (tokAt old (i + 1), tokAt old (i + 2)) idx f
        else some st1
      match st2 with
      | none => none
      | some st2 => some (i + 2, st2)                          -- `i += 2`

/-- the first `while i < old_word.len()` loop of `update_stats`; `fuel` bounds the number of iterations
(`old_word.len() + 1` suffices, `i` increases in every iteration) -/
def oldLoop (x y : List Nat) (old : List (List Nat)) (idx f : Nat) : Nat → Nat → Stats → Option Stats
  | 0, _, st => some st
  | fuel + 1, i, st =>
    if i < old.length then
      match findPos (fun s => s == x) (old.drop i) with
      | none => some st                                        -- `break`
      | some start =>
        match oldAt x y old idx f (i + start) st with          -- `i += start; ...`
        | none => none
        | some (i', st') => oldLoop x y old idx f fuel i' st'
    else some st

/-- one iteration of the second `while` loop after `i += start` (so `new_word[i] == merged`) -/
def newAt (m : List Nat) (new : List (List Nat)) (idx f : Nat) (i : Nat) (st : Stats) : Stats :=
  let st1 := if i > 0 then statsInc st (tokAt new (i - 1), tokAt new i) idx f else st               -- `prev_pair`
  if i < new.length - 1 && tokAt new (i + 1) != m then statsInc st1 (tokAt new i, tokAt new (i + 1)) idx f else st1

/-- the second `while i < new_word.len()` loop of `update_stats` -/
def newLoop (m : List Nat) (new : List (List Nat)) (idx f : Nat) : Nat → Nat → Stats → Stats
  | 0, _, st => st
  | fuel + 1, i, st =>
    if i < new.length then
      match findPos (fun s => s == m) (new.drop i) with
      | none => st                                             -- `break`
      | some start => newLoop m new idx f fuel (i + start + 1) (newAt m new idx f (i + start) st)   -- `i += start; ...; i += 1`
    else st

/-- body of `for (idx, old_word, new_word, freq) in changes` -/
def updateStatsLoop (p : BPair) : Changes → Stats → Option Stats
  | [], st => some st
  | (idx, old, new, f) :: r, st =>
    match oldLoop p.1 p.2 old idx f (old.length + 1) 0 st with
    | none => none
    | some st1 => updateStatsLoop p r (newLoop (p.1 ++ p.2) new idx f (new.length + 1) 0 st1)

def updateStats (st : Stats) (p : BPair) (changes : Changes) : Option Stats :=
  match alGet st p with
  | none => none                                              -- "pair not found in stats"
  | some _ =>
    -- `stat.freq = 0; stat.words.iter_mut().for_each(|(_, occ)| *occ = 0);`
    let st0 := alModify (fun info => (0, info.2.map (fun io => (io.1, 0)))) st p
    updateStatsLoop p changes st0

/-! ### the merge loop -/

/-- `let changes = replace_pair(&mut vocab, &pair, &stats); update_stats(&mut stats, &pair, &changes)?;` -/
def trainStep (s : Corpus × Stats) (p : BPair) : Option (Corpus × Stats) :=
  match replacePair s.1 p s.2 with
  | none => none
  | some (c', ch) =>
    match updateStats s.2 p ch with
    | none => none
    | some st' => some (c', st')

/-- a run of the loop making the choices `ps`: every `p` must be a possible result of `max_byte_pair` -/
def trainRun : Corpus × Stats → List BPair → Option (Corpus × Stats)
  | s, [] => some s
  | s, p :: ps =>
    if isMaxBytePair s.2 p then
      match trainStep s p with
      | none => none
      | some s' => trainRun s' ps
    else none

/-- the observable trace of such a run, in the format of the hook `verif_train_steps`: after every merge the chosen
pair, the statistics and the vocabulary -/
def trainTrace : Corpus × Stats → List BPair → Option (List (BPair × StatsObs × List (List (List Nat))))
  | _, [] => some []
  | s, p :: ps =>
    if isMaxBytePair s.2 p then
      match trainStep s p with
      | none => none
      | some s' => (trainTrace s' ps).map (fun t => (p, s'.2, s'.1.map (·.1)) :: t)
    else none

/-! ### well-formedness of the vocabulary, executable -/

/-- all runs of consecutive elements of a list (with repetitions) -/
def infixesOf {α : Type} (l : List α) : List (List α) :=
  (List.range (l.length + 1)).flatMap (fun i => (List.range (l.length + 1)).map (fun k => (l.drop i).take k))

/-- every token is non-empty, and two runs of consecutive tokens (anywhere in the corpus) that spell the same bytes
are the same token sequence (`C19.CorpusWf`, decided by enumeration) -/
def corpusWfB (c : Corpus) : Bool :=
  c.all (fun e => e.1.all (fun t => t != [])) &&
  c.all (fun e1 => c.all (fun e2 => (infixesOf e1.1).all (fun R1 => (infixesOf e2.1).all (fun R2 =>
    R1.flatten != R2.flatten || R1 == R2))))

end Tu
