/-
  The line reader of the data files: `LossyUtf8Lines` (src/data/loading.rs).

  ```
  let mut buf = vec![];
  match self.reader.read_until(b'\n', &mut buf) {
      Ok(0) => None,
      Ok(_) => { buf.pop();
                 if !buf.is_empty() && *buf.last().unwrap() == b'\r' { buf.pop(); }
                 Some(Ok(String::from_utf8_lossy(&buf).to_string())) }
  ```
  `read_until(b'\n', buf)` appends the bytes up to and including the next line feed, or up to the
  end of the input when there is none, and returns 0 only at the end of the input.  `buf.pop()` is
  unconditional: the last line of a file that does not end with a line feed loses its last byte.
  `count_lines` is the number of items of this iterator.  Bytes are `Nat`.
-/
import TuModel.Model.Basic
namespace Tu

/-- the chunks `read_until(b'\n')` delivers; `acc` is the current `buf`, reversed -/
def splitLFGo : List Nat → List Nat → List (List Nat)
  | [], acc => if acc = [] then [] else [acc.reverse]
  | c :: rest, acc =>
    if c = 10 then (c :: acc).reverse :: splitLFGo rest [] else splitLFGo rest (c :: acc)

/-- the chunks `read_until(b'\n')` delivers: every chunk ends with its line feed except possibly
the last one, no chunk is empty -/
def splitLF (b : List Nat) : List (List Nat) := splitLFGo b []

/-- `if !buf.is_empty() && *buf.last().unwrap() == b'\r' { buf.pop(); }` -/
def stripCR (l : List Nat) : List Nat := if l.getLast? = some 13 then l.dropLast else l

/-- what is left of one chunk: the unconditional `buf.pop()`, then one carriage return -/
def lossyLine (chunk : List Nat) : List Nat := stripCR chunk.dropLast

/-- the byte content of every yielded line (before the lossy decoding, which is the identity on
valid UTF-8) -/
def lossyLines (b : List Nat) : List (List Nat) := (splitLF b).map lossyLine

/-- `count_lines`: the number of items the reader yields -/
def countLines (b : List Nat) : Nat := (splitLF b).length

end Tu
