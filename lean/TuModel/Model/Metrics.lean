/-
  Model of src/metrics.rs on already cleaned + normalised texts: `_f1`, micro / sequence averaging,
  `accuracy`, `binary_f1`, mean (normalised) edit distance, the whitespace-correction counts and the
  spelling-correction counts (`_group_words`, `_spelling_correction_tp_fp_fn`).  Values are exact
  rationals `(numerator, denominator)` over `Int`/`Nat` (core `Rat` is avoided to keep the driver
  dependency-free): see `Q`.
-/
import TuModel.Model.Whitespace
import TuModel.Model.Edit
import TuModel.Model.Match
namespace Tu

/-- non-negative rational as a pair (numerator, positive denominator) -/
structure Q where
  num : Nat
  den : Nat
  deriving Repr, DecidableEq

def Q.zero : Q := ⟨0, 1⟩
def Q.one : Q := ⟨1, 1⟩
def Q.add (a b : Q) : Q := ⟨a.num * b.den + b.num * a.den, a.den * b.den⟩
def Q.mul (a b : Q) : Q := ⟨a.num * b.num, a.den * b.den⟩
def Q.divNat (a : Q) (k : Nat) : Q := ⟨a.num, a.den * k⟩
/-- `a / b` for `b.num > 0` -/
def Q.div (a b : Q) : Q := ⟨a.num * b.den, a.den * b.num⟩
def Q.le (a b : Q) : Prop := a.num * b.den ≤ b.num * a.den

/-- `_f1(tp, fp, fn, beta)` with `beta = bn / bd`: (f, precision, recall) -/
def f1 (tp fp fn : Nat) (bn bd : Nat) : Q × Q × Q :=
  let p : Q := ⟨tp, max (tp + fp) 1⟩
  let r : Q := ⟨tp, max (tp + fn) 1⟩
  let f : Q :=
    if tp > 0 then
      -- ((1 + b²) p r) / (b² p + r),  b² = bn² / bd²
      let b2 : Q := ⟨bn * bn, bd * bd⟩
      Q.div (Q.mul (Q.add Q.one b2) (Q.mul p r)) (Q.add (Q.mul b2 p) r)
    else Q.zero
  (f, p, r)

structure Counts where
  empty : Bool
  tp : Nat
  fp : Nat
  fn : Nat
  deriving Repr, DecidableEq

/-- `micro_f1`: F of the summed counts -/
def microF1 (cs : List Counts) (bn bd : Nat) : Q × Q × Q :=
  f1 (cs.map (·.tp)).sum (cs.map (·.fp)).sum (cs.map (·.fn)).sum bn bd

/-- `sequence_averaged_f1`: mean of the per-sequence values, an empty sequence counting (1,1,1) -/
def seqAvgF1 (cs : List Counts) (bn bd : Nat) : Q × Q × Q :=
  let vals := cs.map (fun c => if c.empty then (Q.one, Q.one, Q.one) else f1 c.tp c.fp c.fn bn bd)
  let n := max cs.length 1
  ((vals.foldl (fun a v => Q.add a v.1) Q.zero).divNat n,
   (vals.foldl (fun a v => Q.add a v.2.1) Q.zero).divNat n,
   (vals.foldl (fun a v => Q.add a v.2.2) Q.zero).divNat n)

/-- `accuracy` -/
def accuracy (preds targets : List Nat) : Option Q :=
  if preds.length != targets.length then none
  else some ⟨((preds.zip targets).filter (fun (p, t) => p == t)).length, max preds.length 1⟩

/-- `_count_tp_fp_fn` -/
def countTpFpFn (a b : List Bool) : Nat × Nat × Nat :=
  (a.zip b).foldl (fun (tp, fp, fn) (p, t) =>
    match p, t with
    | true, true => (tp + 1, fp, fn)
    | true, false => (tp, fp + 1, fn)
    | false, true => (tp, fp, fn + 1)
    | _, _ => (tp, fp, fn)) (0, 0, 0)

/-- whitespace mode: 0 insertions, 1 deletions, 2 both -/
def wsOpSet (ops : List WsOp) (mode : Nat) : List (Nat × WsOp) :=
  (ops.zipIdx.filter (fun (op, _) =>
    match op, mode with
    | .insert, 0 => true | .delete, 1 => true
    | .insert, 2 => true | .delete, 2 => true
    | _, _ => false)).map (fun (op, i) => (i, op))

/-- `_whitespace_correction_tp_fp_fn`; `none` = `operations` failed (an `Err`, not a panic) -/
def wsCounts (input pred target : List (List Nat)) (mode : Nat) : Option Counts :=
  match wsOps input target, wsOps input pred with
  | some gt, some pr =>
    let g := wsOpSet gt mode
    let p := wsOpSet pr mode
    some { empty := g.isEmpty && p.isEmpty,
           tp := (g.filter (fun x => p.contains x)).length,
           fp := (p.filter (fun x => !g.contains x)).length,
           fn := (g.filter (fun x => !p.contains x)).length }
  | _, _ => none

/-- index of the input word an edit position belongs to: first word whose end is ≥ the position -/
def wordIdxOf (words : List (Nat × Nat)) (pos : Nat) : Nat :=
  (words.findIdx? (fun w => pos ≤ w.2)).getD words.length

/-- the grouping loop of `_group_words` (fuel bounds both nested loops) -/
def groupLoop (nWords : Nat) (merged : List Nat) (inserted : Nat → Nat) (matching : List Nat) :
    Nat → Nat → Nat → List Nat → Option (Nat × Nat × List Nat)
  | 0, _, _, _ => none
  | fuel+1, inIdx, predIdx, correct =>
    if inIdx < nWords then
      -- extend over words merged with the next one
      let rec ext : Nat → Nat → List Nat → Nat → Nat × List Nat × Nat
        | 0, i, mw, tot => (i, mw, tot)
        | f+1, i, mw, tot => if merged.contains i then ext f (i + 1) ((i + 1) :: mw) (tot + inserted (i + 1)) else (i, mw, tot)
      let (i', mw, tot) := ext (merged.length + 1) inIdx [inIdx] (inserted inIdx)
      let ok := (List.range (tot + 1)).all (fun k => matching.contains (predIdx + k))
      groupLoop nWords merged inserted matching fuel (i' + 1) (predIdx + tot + 1) (if ok then mw ++ correct else correct)
    else some (inIdx, predIdx, correct)

/-- `_group_words`; `none` = the closing `assert!` fails (a panic) or the edit backtrace fails -/
def groupWords (input pred : List (List Nat)) (matching : List Nat) : Option (List Nat) :=
  match editOperations { swap := false, sid := true } input pred with
  | none => none
  | some ops =>
    let words := wordBoundaries input
    -- as repaired (D8): an empty prediction deleted every input word (one group mapping to no
    -- predicted word: vacuously correct); an empty input has nothing to group
    if (wordBoundaries pred).isEmpty then some (List.range words.length) else
    if words.isEmpty then some [] else
    let merged := ops.filterMap (fun (k, i, _) =>
      if k == .delete && isWsCl (input.getD i []) then some (wordIdxOf words i) else none)
    let insertedAt := ops.filterMap (fun (k, i, j) =>
      if k == .insert && isWsCl (pred.getD j []) then some (wordIdxOf words i) else none)
    let inserted := fun w => (insertedAt.filter (· == w)).length
    match groupLoop words.length merged inserted matching (words.length + 1) 0 0 [] with
    | some (inIdx, predIdx, correct) =>
      if inIdx == words.length && predIdx == (wordBoundaries pred).length then some correct else none
    | none => none

/-- `_spelling_correction_tp_fp_fn` on (clusters, code points) of the three normalised texts -/
def spellCounts (input pred target : List (List Nat)) : Option Counts :=
  let wi := splitAsciiWs input.flatten
  let wp := splitAsciiWs pred.flatten
  let wt := splitAsciiWs target.flatten
  match matchWords wi wt, matchWords wi wp, matchWords wp wt with
  | some mit, some mip, some mpt =>
    let misspelled := (editedWords wi.length wt.length mit).2
    let changed := (editedWords wi.length wp.length mip).1
    let matchingPred := mpt.map Prod.fst
    let restored := mpt.map Prod.snd
    match groupWords input pred matchingPred with
    | none => none
    | some correct =>
      some { empty := misspelled.isEmpty && changed.isEmpty,
             tp := (misspelled.filter (fun x => restored.contains x)).length,
             fp := (changed.filter (fun x => !correct.contains x)).length,
             fn := (misspelled.filter (fun x => !restored.contains x)).length }
  | _, _, _ => none

/-- `_group_words` for a GIVEN edit script of (input, pred) (any admissible answer of `edit::operations`) -/
def groupWordsWith (ops : List (EKind × Nat × Nat)) (input pred : List (List Nat)) (matching : List Nat) : Option (List Nat) :=
  let words := wordBoundaries input
  if (wordBoundaries pred).isEmpty then some (List.range words.length) else
  if words.isEmpty then some [] else
  let merged := ops.filterMap (fun (k, i, _) =>
    if k == .delete && isWsCl (input.getD i []) then some (wordIdxOf words i) else none)
  let insertedAt := ops.filterMap (fun (k, i, j) =>
    if k == .insert && isWsCl (pred.getD j []) then some (wordIdxOf words i) else none)
  let inserted := fun w => (insertedAt.filter (· == w)).length
  match groupLoop words.length merged inserted matching (words.length + 1) 0 0 [] with
  | some (inIdx, predIdx, correct) =>
    if inIdx == words.length && predIdx == (wordBoundaries pred).length then some correct else none
  | none => none

/-- the sub-results of one `_spelling_correction_tp_fp_fn` call that the property leaves open: the three word
matchings (input/target, input/prediction, prediction/target) and the edit script of (input, prediction) -/
structure SpellSub where
  mit : List (Nat × Nat)
  mip : List (Nat × Nat)
  mpt : List (Nat × Nat)
  ops : List (EKind × Nat × Nat)

/-- are the sub-results admissible answers of `match_words` / `edit::operations`? -/
def spellSubOk (input pred target : List (List Nat)) (sub : SpellSub) : Bool :=
  let wi := splitAsciiWs input.flatten
  let wp := splitAsciiWs pred.flatten
  let wt := splitAsciiWs target.flatten
  matchAccept wi wt sub.mit && matchAccept wi wp sub.mip && matchAccept wp wt sub.mpt &&
    scriptAccept { swap := false, sid := true } input pred sub.ops

/-- `_spelling_correction_tp_fp_fn` computed from given (admissible) sub-results; `none` = the closing assertion of
`_group_words` fails -/
def spellCountsWith (input pred target : List (List Nat)) (sub : SpellSub) : Option Counts :=
  let wi := splitAsciiWs input.flatten
  let wp := splitAsciiWs pred.flatten
  let wt := splitAsciiWs target.flatten
  let misspelled := (editedWords wi.length wt.length sub.mit).2
  let changed := (editedWords wi.length wp.length sub.mip).1
  let matchingPred := sub.mpt.map Prod.fst
  let restored := sub.mpt.map Prod.snd
  match groupWordsWith sub.ops input pred matchingPred with
  | none => none
  | some correct =>
    some { empty := misspelled.isEmpty && changed.isEmpty,
           tp := (misspelled.filter (fun x => restored.contains x)).length,
           fp := (changed.filter (fun x => !correct.contains x)).length,
           fn := (misspelled.filter (fun x => !restored.contains x)).length }

end Tu
