/-
  Model of the index arithmetic of `CharString` (src/unicode.rs) and of the two substring
  enumerations built on it (src/text.rs):

    run_length_encode / run_length_decode                  (src/utils.rs)
    CharString::new (the run-length encoded cluster lengths), len, get_char_byte_lengths
    CharString::byte_start_end, char_byte_len, char_range_to_byte_range, get, sub
    possible_character_substrings, possible_byte_substrings

  A text is its list of cluster byte lengths (`CharString::get_char_byte_lengths`, as in
  Model/Windows.lean).  A Rust `panic!` / failed `assert!` is `none`.
-/
import TuModel.Model.Basic
import TuModel.Model.Batch
namespace Tu

/-- the loop of `run_length_encode`: current value `v`, its count `c`, the remaining values -/
def rleAux : Nat → Nat → List Nat → List (Nat × Nat)
  | v, c, [] => [(v, c)]
  | v, c, x :: xs => if x = v then rleAux v (c + 1) xs else (v, c) :: rleAux x 1 xs

/-- `run_length_encode` -/
def rle : List Nat → List (Nat × Nat)
  | [] => []
  | x :: xs => rleAux x 1 xs

/-- `run_length_decode` -/
def rld : List (Nat × Nat) → List Nat
  | [] => []
  | (v, c) :: r => List.replicate c v ++ rld r

/-- the loop of `CharString::byte_start_end(n)` over the run-length encoded lengths with its two
accumulators `start` and `total_count`; `none` is the `panic!("should not happen")` after the loop -/
def byteStartEndAux : List (Nat × Nat) → Nat → Nat → Nat → Option (Nat × Nat)
  | [], _, _, _ => none
  | (nb, cnt) :: r, n, start, total =>
    if n < total + cnt then
      let s := start + nb * (n - total)
      some (s, s + nb)
    else byteStartEndAux r n (start + cnt * nb) (total + cnt)

def byteStartEnd (r : List (Nat × Nat)) (n : Nat) : Option (Nat × Nat) := byteStartEndAux r n 0 0

/-- `CharString::char_byte_len` -/
def charByteLen (r : List (Nat × Nat)) (n : Nat) : Option Nat :=
  (byteStartEnd r n).map (fun p => p.2 - p.1)

/-- `CharString::char_range_to_byte_range(start, end)`; `len` is the stored `self.len`.
`none`: the `assert!(start < end && end <= self.len())` fails or `byte_start_end` panics -/
def charRangeToByteRange (r : List (Nat × Nat)) (len s e : Nat) : Option (Nat × Nat) :=
  if s < e ∧ e ≤ len then
    match byteStartEnd r s with
    | none => none
    | some (sb, eb) =>
      if s < e - 1 then
        match byteStartEnd r (e - 1) with
        | none => none
        | some (_, eb') => some (sb, eb')
      else some (sb, eb)
  else none

/-- `CharString::get(n)` as a byte range (`some none` = `None`, outer `none` = a panic) -/
def csGet (r : List (Nat × Nat)) (len n : Nat) : Option (Option (Nat × Nat)) :=
  if n ≥ len then some none else (byteStartEnd r n).map some

/-- `CharString::sub(start, end)` as the byte range of the returned slice (`(0, 0)` for `""`);
`none`: the `assert!(start <= end)` fails, or a panic further down -/
def csSub (r : List (Nat × Nat)) (len s e : Nat) : Option (Nat × Nat) :=
  if s ≤ e then
    let s' := min s len
    let e' := min e len
    if len = 0 ∨ s' = e' then some (0, 0) else charRangeToByteRange r len s' e'
  else none

/-- a `CharString` built by `CharString::new` from a text with these cluster byte lengths -/
structure CStr where
  rl : List (Nat × Nat)
  len : Nat
  deriving DecidableEq, Repr

def CStr.new (lens : List Nat) : CStr := { rl := rle lens, len := lens.length }

/-- sequence a list of possibly panicking results -/
def allSome : List (Option α) → Option (List α)
  | [] => some []
  | none :: _ => none
  | some x :: r => (allSome r).map (x :: ·)

/-- `possible_character_substrings(str, max_chars, use_graphemes)` for the text with cluster byte
lengths `lens`: triples (start byte, end byte, number of characters); `none` = a panic -/
def possibleCharSubstrings (lens : List Nat) (maxChars : Nat) : Option (List (Nat × Nat × Nat)) :=
  if lens.isEmpty then some [(0, 0, 0)]
  else
    let cs := CStr.new lens
    let n := cs.len
    let m := min maxChars n
    allSome ((List.range (n - m + 1)).map (fun st =>
      let en := min n (st + m)
      (charRangeToByteRange cs.rl cs.len st en).map (fun p => (p.1, p.2, en - st))))

/-- `find_subsequences_of_max_size_k(values, k, size_fn)` for `size_fn` = sum of the byte lengths
(the loops are the generic ones of Model/Batch.lean) -/
def findSubseqSum (lens : List Nat) (k : Nat) : List (Nat × Nat) :=
  let n := lens.length
  let sz := fun s e => ((lens.drop s).take (e - s)).sum
  match firstFit sz n k (n + 1) 0 with
  | none => []
  | some st => subseqLoop sz n k (2 * n + 2) st (st + 1) (sz st (st + 1)) []

/-- `possible_byte_substrings(str, max_bytes, use_graphemes)` -/
def possibleByteSubstrings (lens : List Nat) (maxBytes : Nat) : Option (List (Nat × Nat × Nat)) :=
  if lens.isEmpty then some [(0, 0, 0)]
  else
    let cs := CStr.new lens
    allSome ((findSubseqSum lens maxBytes).map (fun (st, en) =>
      (charRangeToByteRange cs.rl cs.len st en).map (fun p => (p.1, p.2, en - st))))

end Tu
