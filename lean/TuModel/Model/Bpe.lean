/-
  Model of `BPETokenizer` (src/tokenization.rs): word splitting (`\s+\S+|^\S+`), the heap-driven
  merge loop `merge_bytes` (`mergeWordImpl`), the property's own definition of canonical BPE
  (`mergeWordSpec`), `tokenize` / `de_tokenize`, vocabulary functions, `max_vocab_size`.
-/
import TuModel.Model.Special
namespace Tu

abbrev MTable := List (List Nat × Nat)      -- (token bytes, merge id)

def tlookup (t : MTable) (b : List Nat) : Option Nat := (t.find? (fun e => e.1 == b)).map (·.2)

/-- bytes of token id `256 + k` … looked up by merge id -/
def tbytes (t : MTable) (k : Nat) : Option (List Nat) := (t.find? (fun e => e.2 == k)).map (·.1)

/-- well-formed table: ids are exactly `0..n-1` in some order without repetition, keys distinct, and
every entry is the concatenation of two earlier tokens (single bytes or entries with smaller id) -/
def isTokenBefore (t : MTable) (k : Nat) (b : List Nat) : Bool :=
  match b with
  | [x] => x < 256
  | _ => match tlookup t b with
    | some j => j < k
    | none => false

def splitsOf (b : List Nat) : List (List Nat × List Nat) :=
  (List.range (b.length - 1)).map (fun i => (b.take (i + 1), b.drop (i + 1)))

def wfTable (t : MTable) : Bool :=
  (List.range t.length).all (fun k => (t.filter (fun e => e.2 == k)).length == 1) &&
  t.all (fun e => (t.filter (fun e' => e'.1 == e.1)).length == 1) &&
  t.all (fun e => e.1.all (· < 256) &&
    (splitsOf e.1).any (fun (l, r) => isTokenBefore t e.2 l && isTokenBefore t e.2 r))

/-- `max_vocab_size`: keep merges with id below `limit - |special tokens| - 256` (saturating) -/
def truncateTable (t : MTable) (maxVocab : Option Nat) (numSpecialCfg : Nat) : MTable :=
  match maxVocab with
  | none => t
  | some lim => t.filter (fun e => e.2 < lim - numSpecialCfg - 256)

/-! ### word splitting -/

/-- the matches of `\s+\S+|^\S+` on a text (code points): the first maximal non-whitespace run if
the text starts with one, then every whitespace run followed by a non-whitespace run -/
def splitWordsAux : Nat → List Nat → List (List Nat)
  | 0, _ => []
  | fuel+1, s =>
    let ws := s.takeWhile isWsCp
    let rest := s.dropWhile isWsCp
    let w := rest.takeWhile (fun c => !isWsCp c)
    if w.isEmpty then [] else (ws ++ w) :: splitWordsAux fuel (rest.dropWhile (fun c => !isWsCp c))

def splitWords (s : List Nat) : List (List Nat) := splitWordsAux (s.length + 1) s

/-! ### the merge loop as coded (after the D2/D3 repair) -/

structure HEntry where
  mid : Nat
  fst : Nat
  snd : Nat
  fid : Option Nat
  sid : Option Nat
  merged : List Nat
  deriving DecidableEq, Repr

def optLt : Option Nat → Option Nat → Bool
  | none, some _ => true
  | some a, some b => a < b
  | _, _ => false

def bytesLt : List Nat → List Nat → Bool
  | [], _ :: _ => true
  | a :: as, b :: bs => a < b || (a == b && bytesLt as bs)
  | _, _ => false

/-- Rust's derived `Ord` on `(Reverse(merge_id), Reverse(first_idx), second_idx, first_id, second_id, merged)` -/
def HEntry.lt (a b : HEntry) : Bool :=
  if a.mid != b.mid then a.mid > b.mid
  else if a.fst != b.fst then a.fst > b.fst
  else if a.snd != b.snd then a.snd < b.snd
  else if a.fid != b.fid then optLt a.fid b.fid
  else if a.sid != b.sid then optLt a.sid b.sid
  else bytesLt a.merged b.merged

/-- `BinaryHeap::pop`: a greatest element is removed -/
def heapMax : List HEntry → Option HEntry
  | [] => none
  | e :: es => match heapMax es with
    | none => some e
    | some m => if e.lt m then some m else some e

def heapPop (h : List HEntry) : Option (HEntry × List HEntry) :=
  match heapMax h with
  | none => none
  | some m => some (m, h.erase m)

structure MState where
  bytes : List (List Nat)          -- `bytes[i]`, empty when merged away
  ids : List (Option Nat)          -- `token_ids[i]`
  heap : List HEntry
  deriving Repr

def prevLive (bytes : List (List Nat)) (i : Nat) : Option Nat :=
  ((List.range i).reverse.find? (fun k => !(bytes.getD k []).isEmpty))
def nextLive (bytes : List (List Nat)) (i : Nat) : Option Nat :=
  ((List.range (bytes.length - (i + 1))).map (· + i + 1)).find? (fun k => !(bytes.getD k []).isEmpty)

def initHeap (t : MTable) (w : List Nat) : List HEntry :=
  (List.range (w.length - 1)).filterMap (fun i =>
    let m := [w.getD i 0, w.getD (i + 1) 0]
    (tlookup t m).map (fun id => { mid := id, fst := i, snd := i + 1, fid := some (w.getD i 0), sid := some (w.getD (i + 1) 0), merged := m }))

def mergeStep (t : MTable) (st : MState) (e : HEntry) : MState :=
  -- stale entry?
  if st.ids.getD e.fst none != e.fid || st.ids.getD e.snd none != e.sid then st
  else
    let bytes := (st.bytes.set e.fst e.merged).set e.snd []
    let ids := (st.ids.set e.fst (some (256 + e.mid))).set e.snd none
    let h1 := match prevLive bytes e.fst with
      | some p =>
        let m := bytes.getD p [] ++ e.merged
        match tlookup t m with
        | some id => [{ mid := id, fst := p, snd := e.fst, fid := ids.getD p none, sid := ids.getD e.fst none, merged := m : HEntry }]
        | none => []
      | none => []
    let h2 := match nextLive bytes e.snd with
      | some n =>
        let m := e.merged ++ bytes.getD n []
        match tlookup t m with
        | some id => [{ mid := id, fst := e.fst, snd := n, fid := ids.getD e.fst none, sid := ids.getD n none, merged := m : HEntry }]
        | none => []
      | none => []
    { bytes := bytes, ids := ids, heap := st.heap ++ h1 ++ h2 }

def mergeLoop (t : MTable) : Nat → MState → Option MState
  | 0, st => if st.heap.isEmpty then some st else none
  | fuel+1, st =>
    match heapPop st.heap with
    | none => some st
    | some (e, h) => mergeLoop t fuel (mergeStep t { st with heap := h } e)

/-- token ids of one word; `none` = fuel exhausted (never: see Props/C03) -/
def mergeWordImpl (t : MTable) (w : List Nat) : Option (List Nat) :=
  let st : MState := { bytes := w.map (fun b => [b]), ids := w.map some, heap := initHeap t w }
  (mergeLoop t (3 * w.length + 3) st).map (fun s => s.ids.filterMap id)

/-! ### the property's definition: lowest merge id, leftmost -/

/-- best adjacent mergeable pair: `(merge id, position)` minimal -/
def bestPair (t : MTable) : List (List Nat) → Nat → Option (Nat × Nat)
  | a :: b :: rest, i =>
    let r := bestPair t (b :: rest) (i + 1)
    match tlookup t (a ++ b) with
    | some m => match r with
      | some (m', i') => if m' < m then some (m', i') else some (m, i)
      | none => some (m, i)
    | none => r
  | _, _ => none

def mergeAt : List (List Nat) → Nat → List (List Nat)
  | a :: b :: rest, 0 => (a ++ b) :: rest
  | a :: rest, i+1 => a :: mergeAt rest i
  | l, _ => l

def specLoop (t : MTable) : Nat → List (List Nat) → List (List Nat)
  | 0, toks => toks
  | fuel+1, toks => match bestPair t toks 0 with
    | some (_, i) => specLoop t fuel (mergeAt toks i)
    | none => toks

def tokId (t : MTable) (tok : List Nat) : Option Nat :=
  match tok with
  | [b] => some b
  | _ => (tlookup t tok).map (256 + ·)

/-- canonical BPE of one word: repeatedly merge the adjacent pair with the lowest merge id
(leftmost on ties) until none is mergeable -/
def mergeWordSpec (t : MTable) (w : List Nat) : Option (List Nat) :=
  (specLoop t w.length (w.map (fun b => [b]))).mapM (tokId t)

/-! ### tokenizer -/

structure BpeCfg where
  table : MTable       -- after truncation
  sp : Special         -- offset = 256 + table.length
  deriving Repr

def mkBpeCfg (t : MTable) (maxVocab : Option Nat) (tokens : List (List Nat)) (pad : List Nat)
    (pre suf : List (List Nat)) : Option BpeCfg :=
  let t' := truncateTable t maxVocab tokens.length
  (mkSpecial (256 + t'.length) tokens pad pre suf).map (fun sp => { table := t', sp := sp })

def mergeText (t : MTable) (cps : List Nat) : Option (List Nat) :=
  ((splitWords cps).mapM (fun w => mergeWordImpl t (w.flatMap utf8))).map List.flatten

/-- `tokenize`: pieces as for the other tokenizers (regular = code points, special = index) -/
def bpeTokenize (cfg : BpeCfg) (pieces : List (Sum (List Nat) Nat)) : Option (List Nat) :=
  (pieces.mapM (fun (p : Sum (List Nat) Nat) => match p with
    | Sum.inl cps => mergeText cfg.table cps
    | Sum.inr i => some [cfg.sp.offset + i])).map (fun (l : List (List Nat)) => cfg.sp.prefixIds ++ l.flatten ++ cfg.sp.suffixIds)

def bpeIdBytes (cfg : BpeCfg) (id : Nat) : Option (List Nat) :=
  if id < 256 then some [id] else if id < 256 + cfg.table.length then tbytes cfg.table (id - 256) else none

def bpeDetokBytes (cfg : BpeCfg) (ign : Bool) : List Nat → Option (List Nat)
  | [] => some []
  | id :: ids =>
    if id < 256 + cfg.table.length then
      match bpeIdBytes cfg id with
      | some b => (bpeDetokBytes cfg ign ids).map (b ++ ·)
      | none => none
    else if ign then bpeDetokBytes cfg ign ids
    else match cfg.sp.idToToken id with
      | some tk => (bpeDetokBytes cfg ign ids).map (tk ++ ·)
      | none => none

def bpeDetok (cfg : BpeCfg) (ids : List Nat) (ign : Bool) : Option (List Nat) :=
  match bpeDetokBytes cfg ign ids with
  | some b => if validUtf8 b then some b else none
  | none => none

def bpeVocabSize (cfg : BpeCfg) : Nat := 256 + cfg.table.length + cfg.sp.tokens.length
def bpeGetVocab (cfg : BpeCfg) : List (List Nat) :=
  (List.range 256).map (fun b => [b]) ++ (List.range cfg.table.length).map (fun k => (tbytes cfg.table k).getD []) ++ cfg.sp.tokens
/-- `id_to_token` as repaired (D9) -/
def bpeIdToToken (cfg : BpeCfg) (id : Nat) : Option (List Nat) :=
  if id < 256 + cfg.table.length then bpeIdBytes cfg id else cfg.sp.idToToken id
def bpeTokenToId (cfg : BpeCfg) (tk : List Nat) : Option Nat :=
  match cfg.sp.tokenToId tk with
  | some id => some id
  | none => match tk with
    | [b] => some b
    | _ => (tlookup cfg.table tk).map (256 + ·)

end Tu
