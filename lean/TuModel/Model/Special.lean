/-
  Model of the special-token machinery shared by all tokenizers (src/tokenization.rs):
  `Vocab::build` (unique + offset), `new_base_tokenizer` (prefix / suffix / pad lookup),
  `split_input` (leftmost-first alternation of escaped literals, as bytes).
-/
import TuModel.Model.Basic
namespace Tu

/-- `Itertools::unique`: first occurrences, order kept -/
def uniq : List (List Nat) → List (List Nat)
  | [] => []
  | x :: xs => x :: (uniq xs).filter (fun y => y != x)

structure Special where
  tokens : List (List Nat)      -- unique special tokens (UTF-8 bytes); id = offset + position
  offset : Nat
  padId : Nat
  prefixIds : List Nat
  suffixIds : List Nat
  deriving Repr

def idxOf (toks : List (List Nat)) (t : List Nat) : Option Nat :=
  let i := toks.idxOf t
  if i < toks.length then some i else none

def Special.tokenToId (sp : Special) (t : List Nat) : Option Nat := (idxOf sp.tokens t).map (sp.offset + ·)

def Special.idToToken (sp : Special) (id : Nat) : Option (List Nat) :=
  if id < sp.offset then none else sp.tokens[id - sp.offset]?

/-- `new_base_tokenizer`: `none` = one of its `Err` branches (prefix / suffix / pad not a special token) -/
def mkSpecial (offset : Nat) (tokens : List (List Nat)) (pad : List Nat) (pre suf : List (List Nat)) : Option Special :=
  let toks := uniq tokens
  let look := fun t => (idxOf toks t).map (offset + ·)
  match pre.mapM look, suf.mapM look, look pad with
  | some p, some s, some pd => some { tokens := toks, offset := offset, padId := pd, prefixIds := p, suffixIds := s }
  | _, _, _ => none

inductive Piece
  | regular (b : List Nat)
  | special (idx : Nat) (b : List Nat)
  deriving DecidableEq, Repr

def Piece.bytes : Piece → List Nat
  | .regular b => b
  | .special _ b => b

/-- first token, in list order, that is a (non-empty) prefix of `s`: one step of the regex
alternation at a fixed position -/
def matchAt : List (List Nat) → Nat → List Nat → Option (Nat × List Nat)
  | [], _, _ => none
  | t :: ts, i, s => if !t.isEmpty && t.isPrefixOf s then some (i, t) else matchAt ts (i + 1) s

def flushReg (cur : List Nat) : List Piece := if cur.isEmpty then [] else [.regular cur.reverse]

/-- `split_input` with special-token parsing on: scan left to right (`find_iter`), emit the text
between matches as regular pieces (empty ones suppressed). `fuel` ≥ `s.length + 1` always suffices. -/
def splitAux (toks : List (List Nat)) : Nat → List Nat → List Nat → List Piece
  | 0, _, cur => flushReg cur
  | _, [], cur => flushReg cur
  | fuel+1, b :: rest, cur =>
    match matchAt toks 0 (b :: rest) with
    | some (i, t) => flushReg cur ++ Piece.special i t :: splitAux toks fuel ((b :: rest).drop t.length) []
    | none => splitAux toks fuel rest (b :: cur)

def splitInput (sp : Special) (s : List Nat) (ignoreSpecial : Bool) : List Piece :=
  if ignoreSpecial || sp.tokens.isEmpty then [.regular s] else splitAux sp.tokens (s.length + 1) s []

/-- no token is a proper prefix of another: then the alternation order (a `HashMap` iteration
order in the code) cannot influence `split_input` -/
def prefixFree (toks : List (List Nat)) : Bool :=
  toks.all (fun a => toks.all (fun b => a == b || !(a.isPrefixOf b))) && toks.all (fun a => !a.isEmpty)

/-! UTF-8 validation (`String::from_utf8`) -/

def isCont (b : Nat) : Bool := 0x80 ≤ b && b ≤ 0xBF

def validUtf8 : List Nat → Bool
  | [] => true
  | b :: rest =>
    if b < 0x80 then validUtf8 rest
    else if 0xC2 ≤ b && b ≤ 0xDF then
      match rest with
      | c :: r => isCont c && validUtf8 r
      | _ => false
    else if 0xE0 ≤ b && b ≤ 0xEF then
      match rest with
      | c :: d :: r =>
        isCont c && isCont d &&
          (if b == 0xE0 then 0xA0 ≤ c else if b == 0xED then c ≤ 0x9F else true) && validUtf8 r
      | _ => false
    else if 0xF0 ≤ b && b ≤ 0xF4 then
      match rest with
      | c :: d :: e :: r =>
        isCont c && isCont d && isCont e &&
          (if b == 0xF0 then 0x90 ≤ c else if b == 0xF4 then c ≤ 0x8F else true) && validUtf8 r
      | _ => false
    else false

end Tu
