/-
  Model of `corrupt::edit_word` (src/corrupt.rs) with the context-table providers `InsertEdits` /
  `ReplaceEdits` (as repaired: D6) and `DeleteEdits` / `SwapEdits`.  Random draws (edit kind, candidate
  position, edit string) are choices; `outcomes` lists every possible result.
-/
import TuModel.Model.Basic
namespace Tu

abbrev Cl := List Nat
def bow : Cl := "<bow>".toList.map Char.toNat
def eow : Cl := "<eow>".toList.map Char.toNat

structure EditCfg where
  insert : Option (List ((Cl × Cl) × List (List Cl)))          -- context (prev, cur) ↦ insertion strings (as clusters)
  delete : Option Bool                                           -- `full_delete`
  replace : Option (List ((Cl × Cl × Cl) × List (List Cl)))    -- context (prev, cur, next) ↦ replacement strings
  swap : Bool
  frozen : Cl     -- the character `can_delete` / `can_swap` refuse (harness-chosen predicates)

inductive EdKind | ins | del | rep | swp
  deriving DecidableEq, Repr

def EditCfg.kinds (c : EditCfg) : List EdKind :=
  (if c.insert.isSome then [.ins] else []) ++ (if c.delete.isSome then [.del] else []) ++
  (if c.replace.isSome then [.rep] else []) ++ (if c.swap then [.swp] else [])

def normExcl (l : List Nat) : List Nat := (l.mergeSort (· ≤ ·)).eraseDups

/-- `InsertEdits::get_edits` -/
def insertLookup (tbl : List ((Cl × Cl) × List (List Cl))) (word : List Cl) (idx : Nat) : Option (List (List Cl)) :=
  let idx := min idx word.length
  let prev := if idx = 0 then bow else word.getD (idx - 1) bow
  let cur := word.getD idx eow
  (tbl.find? (fun e => e.1 == (prev, cur))).map (·.2)

/-- `ReplaceEdits::get_edits` (only called for `idx < word.length`) -/
def replaceLookup (tbl : List ((Cl × Cl × Cl) × List (List Cl))) (word : List Cl) (idx : Nat) : Option (List (List Cl)) :=
  let idx := min idx (word.length - 1)
  let prev := if idx = 0 then bow else word.getD (idx - 1) bow
  match word[idx]? with
  | none => none
  | some cur =>
    let next := word.getD (idx + 1) eow
    (tbl.find? (fun e => e.1 == (prev, cur, next))).map (·.2)

def applyInsert (word : List Cl) (excl : List Nat) (idx : Nat) (e : List Cl) : List Cl × List Nat :=
  (word.take idx ++ e ++ word.drop idx,
   normExcl (excl.map (fun i => if i ≥ idx then i + e.length else i) ++ (List.range e.length).map (idx + ·)))

def applyDelete (word : List Cl) (excl : List Nat) (idx : Nat) : List Cl × List Nat :=
  (word.take idx ++ word.drop (idx + 1), normExcl (excl.map (fun i => if i > idx then i - 1 else i)))

def applyReplace (word : List Cl) (excl : List Nat) (idx : Nat) (e : List Cl) : List Cl × List Nat :=
  (word.take idx ++ e ++ word.drop (idx + 1),
   normExcl (excl.map (fun i => if i > idx then i + e.length - 1 else i) ++ (List.range e.length).map (idx + ·)))

def applySwap (word : List Cl) (excl : List Nat) (idx : Nat) : List Cl × List Nat :=
  (word.take idx ++ word.getD (idx + 1) [] :: word.getD idx [] :: word.drop (idx + 2), normExcl (excl ++ [idx, idx + 1]))

/-- all results `edit_word` can return once the edit kind is chosen -/
def kindOutcomes (c : EditCfg) (word : List Cl) (excl : List Nat) : EdKind → List (List Cl × List Nat)
  | .ins =>
    let tbl := c.insert.getD []
    let cands := (List.range (word.length + 1)).filterMap (fun idx =>
      if excl.contains idx || (idx > 0 && excl.contains (idx - 1)) then none
      else (insertLookup tbl word idx).map (fun es => (idx, es)))
    if cands.isEmpty then [(word, normExcl excl)]
    else cands.flatMap (fun (idx, es) => es.map (applyInsert word excl idx))
  | .del =>
    let full := c.delete.getD false
    let cands := (List.range word.length).filter (fun idx =>
      !excl.contains idx && !(!full && word.length ≤ 1) && word.getD idx [] != c.frozen)
    if cands.isEmpty then [(word, normExcl excl)] else cands.map (applyDelete word excl)
  | .rep =>
    let tbl := c.replace.getD []
    let cands := (List.range word.length).filterMap (fun idx =>
      if excl.contains idx then none else (replaceLookup tbl word idx).map (fun es => (idx, es)))
    if cands.isEmpty then [(word, normExcl excl)]
    else cands.flatMap (fun (idx, es) => es.map (applyReplace word excl idx))
  | .swp =>
    if word.length ≤ 1 then [(word, normExcl excl)] else
    let cands := (List.range (word.length - 1)).filter (fun idx =>
      !(excl.contains idx || excl.contains (idx + 1)) &&
      (word.getD idx [] != word.getD (idx + 1) [] && word.getD idx [] != c.frozen && word.getD (idx + 1) [] != c.frozen))
    if cands.isEmpty then [(word, normExcl excl)] else cands.map (applySwap word excl)

/-- every result `edit_word` can return -/
def outcomes (c : EditCfg) (word : List Cl) (excl : List Nat) : List (List Cl × List Nat) :=
  if c.kinds.isEmpty then [(word, normExcl excl)] else c.kinds.flatMap (kindOutcomes c word excl)

/-- the choice-parametric function: kind, candidate and edit string picked by three draws -/
def editWord (c : EditCfg) (word : List Cl) (excl : List Nat) (c1 c2 : Nat) : List Cl × List Nat :=
  match c.kinds with
  | [] => (word, normExcl excl)
  | k :: ks =>
    let kind := (k :: ks).getD (c1 % (ks.length + 1)) k
    let outs := kindOutcomes c word excl kind
    outs.getD (c2 % outs.length) (word, normExcl excl)

end Tu
