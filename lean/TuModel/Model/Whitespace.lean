/-
  Model of `whitespace::operations` and `whitespace::repair` (src/whitespace.rs) and of
  `corrupt_whitespace` (src/data/preprocessing.rs).
-/
import TuModel.Model.Text
namespace Tu

inductive WsOp | keep | insert | delete
  deriving DecidableEq, Repr, Inhabited

def WsOp.toNat : WsOp → Nat | .keep => 0 | .insert => 1 | .delete => 2
def WsOp.ofNat? : Nat → Option WsOp | 0 => some .keep | 1 => some .insert | 2 => some .delete | _ => none

/-- `operations(from, to)`: the two-pointer loop; `to_ptr += 2` on insert is `drop 2`.
`none` is the `Err` branch. -/
def wsOps : List (List Nat) → List (List Nat) → Option (List WsOp)
  | [], _ => some []
  | f :: fs, to =>
    match to with
    | t :: ts =>
      if f == t then (wsOps fs ts).map (WsOp.keep :: ·)
      else if isWsCl t then (wsOps fs (ts.drop 1)).map (WsOp.insert :: ·)
      else if isWsCl f then (wsOps fs to).map (WsOp.delete :: ·)
      else none
    | [] =>
      if isWsCl f then (wsOps fs []).map (WsOp.delete :: ·) else none

/-- the loop of `repair`; `prevWs` is `idx == 0 || !chars[idx-1].is_whitespace()` negated:
`prevWs = (idx > 0 && chars[idx-1].is_whitespace())`. Output as clusters. -/
def repairAux : List (List Nat) → List WsOp → Bool → List (List Nat)
  | c :: cs, op :: ops, prevWs =>
    let w := isWsCl c
    if op == .insert && !w && !prevWs then sp :: c :: repairAux cs ops w
    else if op == .delete && w then repairAux cs ops w
    else c :: repairAux cs ops w
  | _, _, _ => []

/-- `repair`: `none` is the length-mismatch `Err`. -/
def repairCl (s : List (List Nat)) (ops : List WsOp) : Option (List (List Nat)) :=
  if s.length != ops.length then none else some (repairAux s ops false)
def repair (s : List (List Nat)) (ops : List WsOp) : Option (List Nat) :=
  (repairCl s ops).map List.flatten

/-- `corrupt_whitespace`: `ds` are the per-character outcomes `(r < dw_p, r < iw_p)` of the single
draw made for that character; `prevWs` is whether the *original* predecessor is white space,
`first` is `idx == 0`. -/
def corruptWsAux : List (List Nat) → List (Bool × Bool) → Bool → Bool → List (List Nat)
  | c :: cs, d :: ds, first, prevWs =>
    let w := isWsCl c
    if w then (if d.1 then [] else [c]) ++ corruptWsAux cs ds false w
    else if d.2 && !first && !prevWs then sp :: c :: corruptWsAux cs ds false w
    else c :: corruptWsAux cs ds false w
  | _, _, _, _ => []

def corruptWsCl (s : List (List Nat)) (ds : List (Bool × Bool)) : List (List Nat) :=
  corruptWsAux s ds true false

/-- what the two probabilities allow a single draw `r ∈ [0,1)` to decide: `r < p` is impossible for `p = 0`,
certain for `p ≥ 1`, open otherwise -/
structure CwFlags where
  mayDel : Bool      -- delete probability > 0
  mustDel : Bool     -- delete probability ≥ 1
  mayIns : Bool      -- insert probability > 0
  mustIns : Bool     -- insert probability ≥ 1

/-- probabilities in 1/1000 (clamped to [0, 1] by the code) -/
def CwFlags.ofPermille (iw dw : Nat) : CwFlags :=
  { mayDel := 0 < dw, mustDel := 1000 ≤ dw, mayIns := 0 < iw, mustIns := 1000 ≤ iw }

def CwFlags.allows (f : CwFlags) (d : Bool × Bool) : Bool :=
  (!d.1 || f.mayDel) && (!f.mustDel || d.1) && (!d.2 || f.mayIns) && (!f.mustIns || d.2)

/-- is the code-point string `out` a possible result of `corrupt_whitespace` on the clusters `s` for SOME
random stream the probabilities allow?  (The property does not fix how the stream is consumed.) -/
def cwMatch (f : CwFlags) : List (List Nat) → Bool → Bool → List Nat → Bool
  | [], _, _, out => out.isEmpty
  | c :: cs, first, prevWs, out =>
    if isWsCl c then
      (f.mayDel && cwMatch f cs false true out) ||
        (!f.mustDel && c.isPrefixOf out && cwMatch f cs false true (out.drop c.length))
    else
      let canIns := !first && !prevWs
      (canIns && f.mayIns && (32 :: c).isPrefixOf out && cwMatch f cs false false (out.drop (c.length + 1))) ||
        ((!canIns || !f.mustIns) && c.isPrefixOf out && cwMatch f cs false false (out.drop c.length))

/-- the clusters of an accepted output: like `cwMatch`, but returning the corrupted cluster list (the first
admissible explanation) -/
def cwWitness (f : CwFlags) : List (List Nat) → Bool → Bool → List Nat → Option (List (List Nat))
  | [], _, _, out => if out.isEmpty then some [] else none
  | c :: cs, first, prevWs, out =>
    if isWsCl c then
      (if f.mayDel then cwWitness f cs false true out else none).orElse (fun _ =>
        if !f.mustDel && c.isPrefixOf out then (cwWitness f cs false true (out.drop c.length)).map (c :: ·) else none)
    else
      let canIns := !first && !prevWs
      (if canIns && f.mayIns && (32 :: c).isPrefixOf out then
          (cwWitness f cs false false (out.drop (c.length + 1))).map (fun r => sp :: c :: r) else none).orElse (fun _ =>
        if (!canIns || !f.mustIns) && c.isPrefixOf out then (cwWitness f cs false false (out.drop c.length)).map (c :: ·) else none)

def cwAllowed (iw dw : Nat) (s : List (List Nat)) (out : List Nat) : Bool :=
  cwMatch (CwFlags.ofPermille iw dw) s true false out

end Tu
