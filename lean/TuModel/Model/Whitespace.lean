/-
  Model of `whitespace::operations` and `whitespace::repair` (src/whitespace.rs) and of
  `corrupt_whitespace` (src/data/preprocessing.rs).
-/
import TuModel.Model.Text
namespace Tu

inductive WsOp | keep | insert | delete
  deriving DecidableEq, Repr, Inhabited

def WsOp.toNat : WsOp → Nat | .keep => 0 | .insert => 1 | .delete => 2
def WsOp.ofNat? : Nat → Option WsOp | 0 => some .keep | 1 => some .insert | 2 => some .delete | _ => none

/-- `operations(from, to)`: the two-pointer loop; `to_ptr += 2` on insert is `drop 2`.
`none` is the `Err` branch. -/
def wsOps : List (List Nat) → List (List Nat) → Option (List WsOp)
  | [], _ => some []
  | f :: fs, to =>
    match to with
    | t :: ts =>
      if f == t then (wsOps fs ts).map (WsOp.keep :: ·)
      else if isWsCl t then (wsOps fs (ts.drop 1)).map (WsOp.insert :: ·)
      else if isWsCl f then (wsOps fs to).map (WsOp.delete :: ·)
      else none
    | [] =>
      if isWsCl f then (wsOps fs []).map (WsOp.delete :: ·) else none

/-- the loop of `repair`; `prevWs` is `idx == 0 || !chars[idx-1].is_whitespace()` negated:
`prevWs = (idx > 0 && chars[idx-1].is_whitespace())`. Output as clusters. -/
def repairAux : List (List Nat) → List WsOp → Bool → List (List Nat)
  | c :: cs, op :: ops, prevWs =>
    let w := isWsCl c
    if op == .insert && !w && !prevWs then sp :: c :: repairAux cs ops w
    else if op == .delete && w then repairAux cs ops w
    else c :: repairAux cs ops w
  | _, _, _ => []

/-- `repair`: `none` is the length-mismatch `Err`. -/
def repairCl (s : List (List Nat)) (ops : List WsOp) : Option (List (List Nat)) :=
  if s.length != ops.length then none else some (repairAux s ops false)
def repair (s : List (List Nat)) (ops : List WsOp) : Option (List Nat) :=
  (repairCl s ops).map List.flatten

/-- `corrupt_whitespace`: `ds` are the per-character outcomes `(r < dw_p, r < iw_p)` of the single
draw made for that character; `prevWs` is whether the *original* predecessor is white space,
`first` is `idx == 0`. -/
def corruptWsAux : List (List Nat) → List (Bool × Bool) → Bool → Bool → List (List Nat)
  | c :: cs, d :: ds, first, prevWs =>
    let w := isWsCl c
    if w then (if d.1 then [] else [c]) ++ corruptWsAux cs ds false w
    else if d.2 && !first && !prevWs then sp :: c :: corruptWsAux cs ds false w
    else c :: corruptWsAux cs ds false w
  | _, _, _, _ => []

def corruptWsCl (s : List (List Nat)) (ds : List (Bool × Bool)) : List (List Nat) :=
  corruptWsAux s ds true false

end Tu
