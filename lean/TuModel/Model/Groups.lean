/-
  Model of `TokenGroup::get_weights`, `token_groups_to_sparse_coo_matrix`, `padding_mask`
  (src/tokenization.rs) and `pad_ids` / `Batch<TrainItem>::tensorize` (src/data/mod.rs).
  Weights are exact rationals.
-/
import TuModel.Model.ByteTok
import TuModel.Model.Metrics
namespace Tu

/-- `get_weights`: mean → every token of a full group weighs 1/len; in a nested group every inner
group additionally weighs 1/(number of inner groups); sum → all ones -/
def groupWeights (mean : Bool) : TGroup → List Q
  | .full n => List.replicate n (if mean then ⟨1, n⟩ else Q.one)
  | .nested gs =>
    let w : Q := if mean then ⟨1, gs.length⟩ else Q.one
    gs.flatMap (fun n => List.replicate n (Q.mul (if mean then ⟨1, n⟩ else Q.one) w))

structure Coo where
  rowBatch : List Nat      -- indices[0]
  rowGroup : List Nat      -- indices[1]
  rowToken : List Nat      -- indices[2]
  values : List Q
  size : List Nat
  groupLengths : List Nat
  deriving Repr

/-- entries of one batch element: for every group its tokens, numbered consecutively -/
def cooItem (b : Nat) (mean : Bool) : List TGroup → Nat → Nat → List (Nat × Nat × Nat × Q)
  | [], _, _ => []
  | g :: gs, gi, off =>
    let vals := if mean then groupWeights mean g else List.replicate g.len Q.one
    ((List.range g.len).zip vals).map (fun (k, v) => (b, gi, off + k, v)) ++ cooItem b mean gs (gi + 1) (off + g.len)

/-- `token_groups_to_sparse_coo_matrix`; `none` = the offset assertion fails (the group lengths of an
item do not sum to its token count) -/
def sparseCoo (groupings : List (List TGroup × Bool)) (lengths : List Nat) : Option Coo :=
  if groupings.length != lengths.length then none else
  if (groupings.zip lengths).any (fun ((gs, _), l) => (gs.map TGroup.len).sum != l) then none else
  let entries := (groupings.zipIdx).flatMap (fun ((gs, mean), b) => cooItem b mean gs 0 0)
  some { rowBatch := entries.map (·.1), rowGroup := entries.map (·.2.1), rowToken := entries.map (·.2.2.1),
         values := entries.map (·.2.2.2),
         size := [groupings.length, (groupings.map (fun g => g.1.length)).foldl max 0, lengths.foldl max 0],
         groupLengths := groupings.map (fun g => g.1.length) }

/-- `padding_mask` rows -/
def paddingMask (lengths : List Nat) : List (List Bool) :=
  let m := lengths.foldl max 0
  lengths.map (fun l => List.replicate l true ++ List.replicate (m - l) false)

/-- `pad_ids`: every row followed only by padding up to the longest row, plus the true lengths -/
def padIds (rows : List (List Nat)) (pad : Nat) : List (List Nat) × List Nat :=
  let m := (rows.map List.length).foldl max 0
  (rows.map (fun r => r ++ List.replicate (m - r.length) pad), rows.map List.length)

/-- the tensorised batch of `Batch<TrainItem>::tensorize`: id matrix, lengths, label rows (labels are shifted
by one on the wire, so the label padding -1 is `0`), and for conditional generation the target id matrix and
target lengths, padded with the TARGET side's pad id -/
structure TensorM where
  ids : List (List Nat)
  lens : List Nat
  labels : List (List Nat)
  target : Option (List (List Nat) × List Nat)

/-- `kind`: 0 classification (one label per item, not padded), 1 sequence classification, 2 generation,
3 conditional generation -/
def tensorize (kind pad tpad : Nat) (rows trows lrows : List (List Nat)) : TensorM :=
  let (m, l) := padIds rows pad
  { ids := m, lens := l,
    labels := if kind == 0 then lrows.map (fun r => r.take 1) else (padIds lrows 0).1,
    target := if kind == 3 then some (padIds trows tpad) else none }

end Tu
