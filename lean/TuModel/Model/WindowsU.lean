/-
  Checked-arithmetic mirror of `windows::char`, `windows::byte` and `count_until` (src/windows.rs).

  The model in `Model/Windows.lean` computes over unbounded `Nat`.  The Rust code computes with `usize`
  (64 bit) and, in debug builds, `+`, `-`, `*` panic on overflow / underflow.  Here every `usize` operation of
  the code is written with a *checked* operation returning `Option Nat` (`none` = the operation would panic);
  `saturating_sub`, `min`, `/` and comparisons cannot panic and stay plain.  `Props/C16.lean` proves that for
  every input that can exist the mirror never yields `none` and agrees with the `Nat` model.

  The empty text.  `windows::windows` returns the single empty window for an empty `s` *before* it looks at the
  configuration; `charWindows` / `byteWindows` of the `Nat` model include that wrapper (`lens.isEmpty` is
  tested first, then the configuration).  `charWindowsU` / `byteWindowsU` keep exactly the same treatment, so
  that the two are comparable for every `lens`: empty text first (no arithmetic), then the configuration
  check, then the loop.

  Byte offsets: the four byte fields of a window come from `char_range_to_byte_range`, whose internal arithmetic
  is not modelled; `mkWin` (prefix sums over `Nat`) is re-used for them.
-/
import TuModel.Model.Windows
namespace Tu

/-- `usize::MAX + 1` on the 64 bit targets -/
def U64 : Nat := 18446744073709551616

/-- `a + b` on `usize`: panics on overflow -/
def addU (a b : Nat) : Option Nat := if a + b < U64 then some (a + b) else none
/-- `a * b` on `usize`: panics on overflow -/
def mulU (a b : Nat) : Option Nat := if a * b < U64 then some (a * b) else none
/-- `a - b` on `usize`: panics on underflow -/
def subU (a b : Nat) : Option Nat := if b ≤ a then some (a - b) else none

/-- the configuration check as REPAIRED: `max / 2 < ctx || max <= 2 * ctx` (short-circuit `||`: the product is
only computed when `ctx ≤ max / 2`) -/
def cfgInvalidU (maxLen ctx : Nat) : Option Bool :=
  if maxLen / 2 < ctx then some true else (mulU 2 ctx).map (fun c => decide (maxLen ≤ c))

/-- the configuration check BEFORE the repair: `max <= 2 * ctx` -/
def cfgInvalidOldU (maxLen ctx : Nat) : Option Bool :=
  (mulU 2 ctx).map (fun c => decide (maxLen ≤ c))

/-- `max_length - (1 + usize::from(window_start > 0)) * context_length`: one `+`, one `*`, one `-` -/
def winLenU (maxLen ctx ws : Nat) : Option Nat :=
  match addU 1 (if ws > 0 then 1 else 0) with
  | none => none
  | some k =>
    match mulU k ctx with
    | none => none
    | some p => subU maxLen p

/-- the `while window_start < cs.len()` loop of `char`, operation by operation in the order of the code.
Same shape as `charLoop` (same `noProgress` branch, same measure). -/
def charLoopU (lens : List Nat) (maxLen ctx : Nat) (ws : Nat) : Option (Except WinErr (List Win)) :=
  if _h : ws < lens.length then
    -- let window_length = max_length - (1 + usize::from(window_start > 0)) * context_length;
    match winLenU maxLen ctx ws with
    | none => none
    | some wl =>
      -- let ctx_start = window_start.saturating_sub(context_length);
      let cs := ws - ctx
      -- let ctx_end = cs.len().min(window_start + window_length + context_length);
      match addU ws wl with
      | none => none
      | some a1 =>
        match addU a1 ctx with
        | none => none
        | some a2 =>
          let ce := min lens.length a2
          -- let window_end = cs.len().min(window_start + window_length);
          match addU ws wl with
          | none => none
          | some a3 =>
            let we := min lens.length a3
            if _hp : we ≤ ws then some (.error .noProgress)
            else
              match charLoopU lens maxLen ctx we with
              | none => none
              | some (.ok rest) => some (.ok (mkWin lens cs ws we ce :: rest))
              | some (.error e) => some (.error e)
  else some (.ok [])
termination_by lens.length - ws
decreasing_by omega

def charWindowsU (lens : List Nat) (maxLen ctx : Nat) : Option (Except WinErr (List Win)) :=
  if lens.isEmpty then some (.ok [emptyWin])
  else
    match cfgInvalidU maxLen ctx with
    | none => none
    | some true => some (.error .badConfig)
    | some false => charLoopU lens maxLen ctx 0

/-- the `fold_while` of `count_until` over the remaining characters (their byte lengths, in iteration order),
with the state `(count, acc)` of the code: `next_acc = acc + char_byte_len(idx)` and `count + 1` are `usize`
additions -/
def countUntilGo : List Nat → Nat → Nat → Nat → Option Nat
  | [], _, count, _ => some count
  | l :: ls, m, count, acc =>
    match addU acc l with
    | none => none
    | some next =>
      if next > m then some count
      else
        match addU count 1 with
        | none => none
        | some c => countUntilGo ls m c next

/-- `count_until(iter, max_length, cs)` -/
def countUntilU (ls : List Nat) (m : Nat) : Option Nat := countUntilGo ls m 0 0

/-- the `while window_start < cs.len()` loop of `byte`, operation by operation in the order of the code (the
"too wide" error is returned before the context is computed) -/
def byteLoopU (lens : List Nat) (maxB ctx : Nat) (ws : Nat) : Option (Except WinErr (List Win)) :=
  if _h : ws < lens.length then
    -- let window_length = max_bytes - (1 + usize::from(window_start > 0)) * context_bytes;
    match winLenU maxB ctx ws with
    | none => none
    | some wl =>
      -- let window_end = window_start + count_until(window_start..cs.len(), window_length, &cs);
      match countUntilU (lens.drop ws) wl with
      | none => none
      | some cnt =>
        match addU ws cnt with
        | none => none
        | some we =>
          -- if window_end <= window_start { return Err(..) }
          if _hp : we ≤ ws then some (.error .tooWide)
          else
            -- let ctx_start = window_start.saturating_sub(count_until((0..window_start).rev(), context_bytes, &cs));
            match countUntilU (lens.take ws).reverse ctx with
            | none => none
            | some c1 =>
              let cs := ws - c1
              -- let ctx_end = window_end + count_until(window_end..cs.len(), context_bytes, &cs);
              match countUntilU (lens.drop we) ctx with
              | none => none
              | some c2 =>
                match addU we c2 with
                | none => none
                | some ce =>
                  match byteLoopU lens maxB ctx we with
                  | none => none
                  | some (.ok rest) => some (.ok (mkWin lens cs ws we ce :: rest))
                  | some (.error e) => some (.error e)
  else some (.ok [])
termination_by lens.length - ws
decreasing_by omega

def byteWindowsU (lens : List Nat) (maxB ctx : Nat) : Option (Except WinErr (List Win)) :=
  if lens.isEmpty then some (.ok [emptyWin])
  else
    match cfgInvalidU maxB ctx with
    | none => none
    | some true => some (.error .badConfig)
    | some false => byteLoopU lens maxB ctx 0

end Tu
