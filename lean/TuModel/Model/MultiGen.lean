/-
  Model of `MultiTrainDataGenerator` (src/data/loading.rs): `next`, `next_idx` for the three
  strategies (interleaved as repaired: D5).  A source is the list of its remaining items.
-/
import TuModel.Model.Basic
namespace Tu

inductive Strategy | sequential | interleaved | weighted
  deriving DecidableEq, Repr

structure MG where
  srcs : List (List Nat)     -- remaining items of every source
  idx : Nat
  fin : List Bool            -- `finished`
  deriving Repr

def MG.init (srcs : List (List Nat)) : MG := { srcs := srcs, idx := 0, fin := srcs.map (fun _ => false) }

def allFinished (g : MG) : Bool := g.fin.all id

/-- cyclic search for the next source not marked finished, starting at `i` (at most `fuel` probes) -/
def nextUnfinished (fin : List Bool) : Nat → Nat → Nat
  | 0, i => i
  | fuel+1, i => if fin.getD i true then nextUnfinished fin fuel ((i + 1) % fin.length) else i

/-- `next_idx`; `choice` selects among the unfinished sources for the weighted strategy -/
def nextIdx (s : Strategy) (g : MG) (choice : Nat) : Nat :=
  match s with
  | .sequential => if g.fin.getD g.idx true then (g.idx + 1) % g.fin.length else g.idx
  | .interleaved => nextUnfinished g.fin g.fin.length ((g.idx + 1) % g.fin.length)
  | .weighted =>
    let cand := (List.range g.fin.length).filter (fun i => !(g.fin.getD i true))
    cand.getD (choice % cand.length) g.idx

/-- `Iterator::next`: the loop runs until a source yields or everything is finished -/
def mgNext (s : Strategy) : Nat → MG → List Nat → Option ((Nat × Nat) × MG × List Nat)
  | 0, _, _ => none
  | fuel+1, g, cs =>
    match g.srcs.getD g.idx [] with
    | x :: rest =>
      let g1 : MG := { g with srcs := g.srcs.set g.idx rest }
      some ((x, g.idx), { g1 with idx := nextIdx s g1 (cs.headD 0) }, cs.tail)
    | [] =>
      let g1 : MG := { g with fin := g.fin.set g.idx true }
      if allFinished g1 then none
      else mgNext s fuel { g1 with idx := nextIdx s g1 (cs.headD 0) } cs.tail

/-- the whole output; `fuel` = total number of items + 1 always suffices -/
def mgDrain (s : Strategy) : Nat → MG → List Nat → List (Nat × Nat)
  | 0, _, _ => []
  | fuel+1, g, cs =>
    match mgNext s (g.srcs.length + 1) g cs with
    | some (y, g', cs') => y :: mgDrain s fuel g' cs'
    | none => []

def totalItems (srcs : List (List Nat)) : Nat := (srcs.map List.length).sum

def mgRun (s : Strategy) (srcs : List (List Nat)) (cs : List Nat) : List (Nat × Nat) :=
  mgDrain s (totalItems srcs + 1) (MG.init srcs) cs

/-- specification of the sequential order: source after source -/
def seqSpec (srcs : List (List Nat)) : List (Nat × Nat) :=
  (srcs.zipIdx).flatMap (fun (s, k) => s.map (fun x => (x, k)))

/-- specification of round robin: rows of heads of the sources that still have items -/
def rrSpec : Nat → List (List Nat) → List (Nat × Nat)
  | 0, _ => []
  | fuel+1, srcs =>
    if srcs.all List.isEmpty then []
    else (srcs.zipIdx).filterMap (fun (s, k) => s.head?.map (fun x => (x, k))) ++ rrSpec fuel (srcs.map List.tail)

/-- observable behaviour of the weighted strategy: `tags` is a merge of the sources (every yield
takes the next item of a source that still has one); returns the remaining sources -/
def replayTags : List (List Nat) → List Nat → Option (List (List Nat))
  | srcs, [] => some srcs
  | srcs, k :: ks => match srcs.getD k [] with
    | _ :: rest => replayTags (srcs.set k rest) ks
    | [] => none

end Tu
