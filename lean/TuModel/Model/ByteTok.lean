/-
  Model of `ByteTokenizer` (src/tokenization.rs): construction (`new_with`, the `<extra_token_i>`
  padding), `tokenize` with token groups, `de_tokenize`, the vocabulary functions.
-/
import TuModel.Model.Special
namespace Tu

inductive TGroup
  | full (n : Nat)
  | nested (gs : List Nat)     -- `Nested` of `Full` groups: one length per code point
  deriving DecidableEq, Repr

def TGroup.len : TGroup → Nat
  | .full n => n
  | .nested gs => gs.sum

structure ByteCfg where
  codePointGroups : Bool
  sp : Special
  deriving Repr

/-- decimal digits of `n` as ASCII bytes -/
def natDigits (n : Nat) : List Nat := (toString n).toList.map Char.toNat

/-- `<extra_token_{i}>` as bytes -/
def extraToken (i : Nat) : List Nat := "<extra_token_".toList.map Char.toNat ++ natDigits i ++ [62]

/-- `ByteTokenizer::new_with`: pad the special tokens so that the vocabulary size becomes a
multiple of `pad_to` -/
def byteSpecialTokens (tokens : List (List Nat)) (padTo : Option Nat) : List (List Nat) :=
  match padTo with
  | none => tokens
  | some p =>
    let n := 256 + (uniq tokens).length
    let numPad := ((n + p - 1) / p) * p - n
    tokens ++ (List.range numPad).map extraToken

def mkByteCfg (cpGroups : Bool) (tokens : List (List Nat)) (padTo : Option Nat) (pad : List Nat)
    (pre suf : List (List Nat)) : Option ByteCfg :=
  (mkSpecial 256 (byteSpecialTokens tokens padTo) pad pre suf).map (fun sp => { codePointGroups := cpGroups, sp := sp })

/-- ids of one piece -/
def pieceIds (sp : Special) : Piece → List Nat
  | .regular b => b
  | .special i _ => [sp.offset + i]

/-- `tokenize`: prefix ids, then the bytes of the text (special occurrences as their id), then suffix ids -/
def byteTokenize (cfg : ByteCfg) (s : List Nat) (ign : Bool) : List Nat :=
  cfg.sp.prefixIds ++ (splitInput cfg.sp s ign).flatMap (pieceIds cfg.sp) ++ cfg.sp.suffixIds

/-- groups of one regular piece, given its clusters (code points) -/
def regularGroups (cpGroups : Bool) (clusters : List (List Nat)) : List TGroup :=
  if cpGroups then clusters.map (fun c => .nested (c.map utf8Len))
  else clusters.map (fun c => .full (c.map utf8Len).sum)

/-- the token groups built beside `tokenize`; regular pieces come with their cluster segmentation -/
def byteGroups (cfg : ByteCfg) (pieces : List (Option (List (List Nat)))) : List TGroup :=
  cfg.sp.prefixIds.map (fun _ => .full 1) ++
  pieces.flatMap (fun p => match p with | none => [.full 1] | some cl => regularGroups cfg.codePointGroups cl) ++
  cfg.sp.suffixIds.map (fun _ => .full 1)

/-- `de_tokenize`; `none` = `Err` (unknown special id, or invalid UTF-8) -/
def byteDetokBytes (sp : Special) (ign : Bool) : List Nat → Option (List Nat)
  | [] => some []
  | id :: ids =>
    if id < 256 then (byteDetokBytes sp ign ids).map (id :: ·)
    else if ign then byteDetokBytes sp ign ids
    else match sp.idToToken id with
      | some t => (byteDetokBytes sp ign ids).map (t ++ ·)
      | none => none

def byteDetok (cfg : ByteCfg) (ids : List Nat) (ign : Bool) : Option (List Nat) :=
  match byteDetokBytes cfg.sp ign ids with
  | some b => if validUtf8 b then some b else none
  | none => none

def byteVocabSize (cfg : ByteCfg) : Nat := 256 + cfg.sp.tokens.length
def byteGetVocab (cfg : ByteCfg) : List (List Nat) := (List.range 256).map (fun b => [b]) ++ cfg.sp.tokens
def byteIdToToken (cfg : ByteCfg) (id : Nat) : Option (List Nat) :=
  if id < 256 then some [id] else cfg.sp.idToToken id
def byteTokenToId (cfg : ByteCfg) (t : List Nat) : Option Nat :=
  match t with
  | [b] => some b
  | _ => cfg.sp.tokenToId t

end Tu
