/-
  Model of `whitespace::find_substring_ignoring_whitespace(s, substring, use_graphemes)` (src/whitespace.rs):
  the code builds the regular expression

      \s* c1 \s* c2 \s* ... \s* cn \s*

  from the non-white-space characters c1 .. cn of `substring` (each escaped, i.e. a literal) and returns the
  leftmost match in `s`.  `\s` of the regex crate is the Unicode `White_Space` property (`isWsCp`).  The model
  works on code points: `s` is a list of code points, every literal a non-empty list of code points (one
  character: a code point, or a grapheme cluster).  The matcher is the backtracking ("leftmost-first") semantics
  of the regex crate for this pattern: every `\s*` is greedy and gives code points back only when the rest does not
  match.  The answer is the range of code-point positions `(start, end)` of the match.
-/
import TuModel.Model.Basic
namespace Tu

/-- length of the white-space run at the beginning of `s` (what a greedy `\s*` takes first) -/
def wsRun (s : List Nat) : Nat := (s.takeWhile isWsCp).length

/-- does the literal `c` stand at the beginning of `s`? -/
def litAt (c s : List Nat) : Bool := c.isPrefixOf s

/-- match `\s* c1 \s* c2 ... \s* cn \s*` at the beginning of `s`: the length of the match.  The `\s*` in front of
a literal first takes the whole white-space run and gives back one code point at a time (`k` = run length, run
length − 1, …, 0) until the rest matches. -/
def matchLits : List (List Nat) → List Nat → Option Nat
  | [], s => some (wsRun s)
  | c :: cs, s =>
    ((List.range (wsRun s + 1)).reverse).findSome? (fun k =>
      if litAt c (s.drop k) then (matchLits cs (s.drop (k + c.length))).map (fun r => k + c.length + r) else none)

/-- the leftmost start position at which the pattern matches, tried in order `p, p+1, …` (`fuel` positions) -/
def findFrom (lits : List (List Nat)) (s : List Nat) : Nat → Nat → Option (Nat × Nat)
  | _, 0 => none
  | p, fuel + 1 =>
    match matchLits lits (s.drop p) with
    | some len => some (p, p + len)
    | none => findFrom lits s (p + 1) fuel

/-- `find_substring_ignoring_whitespace`: `lits` are the characters of `substring` that are not white space -/
def findSub (s : List Nat) (lits : List (List Nat)) : Option (Nat × Nat) := findFrom lits s 0 (s.length + 1)

end Tu
