/-
  Model of `Dictionary::create` / `get_closest` (src/dictionary.rs).  The tokens of every line
  (cleaned, normalised word parts or character n-grams) are supplied by the real Unicode machinery;
  the model counts, merges, keeps the top entries through the bounded min-heap on `(freq, word)`,
  sums the frequencies, and answers closest-entry queries with the C12 edit-distance model.
-/
import TuModel.Model.Edit
namespace Tu

abbrev Tok := List Nat          -- UTF-8 bytes of a dictionary key

def countOf (toks : List Tok) (t : Tok) : Nat := (toks.filter (· == t)).length

/-- distinct tokens in order of first occurrence with their counts: the merged `HashMap` -/
def countAll (toks : List Tok) : List (Tok × Nat) := (toks.eraseDups).map (fun t => (t, countOf toks t))

/-- Rust's `Ord` on `String` = lexicographic on bytes -/
def tokLt : Tok → Tok → Bool
  | [], _ :: _ => true
  | a :: as, b :: bs => a < b || (a == b && tokLt as bs)
  | _, _ => false

/-- the heap order on `(freq, word)` -/
def entryLt (x y : Tok × Nat) : Bool := x.2 < y.2 || (x.2 == y.2 && tokLt x.1 y.1)

/-- number of entries strictly greater: the position of `x` when sorted descending -/
def rankOf (entries : List (Tok × Nat)) (x : Tok × Nat) : Nat := (entries.filter (fun y => entryLt x y)).length

/-- the bounded min-heap keeps the `k` greatest entries; `none` = unlimited -/
def topK (entries : List (Tok × Nat)) (k : Option Nat) : List (Tok × Nat) :=
  match k with
  | none => entries
  | some k => entries.filter (fun x => rankOf entries x < k)

structure DictM where
  entries : List (Tok × Nat)
  freqSum : Nat
  deriving Repr

/-- `Dictionary::create` on the token lists of the lines -/
def dictCreate (lines : List (List Tok)) (maxSize maxSeq : Option Nat) : DictM :=
  let used := match maxSeq with | none => lines | some m => lines.take m
  let kept := topK (countAll used.flatten) maxSize
  { entries := kept, freqSum := (kept.map (·.2)).sum }

/-- is `(entries, freqSum)` an answer `Dictionary::create` may give?  (The property: exactly the frequencies of
the tokens of the first `max_sequences` lines, restricted to `max_size` entries none of which is less frequent
than an omitted one, `freq_sum` their total.  Which of several equally frequent tokens survive the cut is not
fixed by the property.) -/
def dictAccept (lines : List (List Tok)) (maxSize maxSeq : Option Nat) (entries : List (Tok × Nat)) (freqSum : Nat) : Bool :=
  let used := match maxSeq with | none => lines | some m => lines.take m
  let toks := used.flatten
  let all := countAll toks
  let want := match maxSize with | none => all.length | some k => min k all.length
  let keys := entries.map (·.1)
  let minKept := (entries.map (·.2)).foldl min (toks.length + 1)
  keys.eraseDups.length == keys.length &&
  entries.all (fun e => 0 < e.2 && e.2 == countOf toks e.1) &&
  entries.length == want &&
  all.all (fun e => keys.contains e.1 || e.2 ≤ minKept) &&
  freqSum == (entries.map (·.2)).sum

/-- `get_closest`: minimal distance over all entries, and the largest frequency among those -/
def closestSpec (query : List (List Nat)) (entries : List (List (List Nat) × Nat)) (normalized : Bool) :
    Option (List Nat × Nat) :=
  -- returns (indices of admissible entries, frequency); distances compared as cross products
  let d := fun (e : List (List Nat) × Nat) =>
    (editDistance { swap := false, sid := false } query e.1, if normalized then normDen query e.1 else 1)
  let le := fun (a b : Nat × Nat) => a.1 * b.2 ≤ b.1 * a.2
  match entries with
  | [] => none
  | e0 :: _ =>
    let best := entries.foldl (fun m e => if le (d e) m then (if le m (d e) then m else d e) else m) (d e0)
    let closest := entries.zipIdx.filter (fun (e, _) => le (d e) best && le best (d e))
    let f := (closest.map (fun (e, _) => e.2)).foldl max 0
    some ((closest.filter (fun (e, _) => e.2 == f)).map (·.2), f)

end Tu
