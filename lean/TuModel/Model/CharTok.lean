/-
  Model of `CharTokenizer` = `VocabTokenizer<char, _>` (src/tokenization.rs).  The alphabet (the
  regular vocabulary, code points in id order) is a parameter.
-/
import TuModel.Model.Special
namespace Tu

structure CharCfg where
  alphabet : List Nat          -- distinct code points; id = position
  sp : Special                 -- offset = alphabet.length; contains the unk token
  unkId : Nat
  deriving Repr

def natIdxOf (l : List Nat) (x : Nat) : Option Nat :=
  let i := l.idxOf x
  if i < l.length then some i else none

/-- `new_vocab_tokenizer`: the unk token is appended to the special tokens -/
def mkCharCfg (alphabet : List Nat) (tokens : List (List Nat)) (unk pad : List Nat)
    (pre suf : List (List Nat)) : Option CharCfg :=
  match mkSpecial alphabet.length (tokens ++ [unk]) pad pre suf with
  | some sp => (sp.tokenToId unk).map (fun u => { alphabet := alphabet, sp := sp, unkId := u })
  | none => none

/-- id of one cluster: a cluster of several code points, or a code point outside the alphabet, is unknown -/
def charId (cfg : CharCfg) (cluster : List Nat) : Nat :=
  match cluster with
  | [c] => (natIdxOf cfg.alphabet c).getD cfg.unkId
  | _ => cfg.unkId

/-- `tokenize`; regular pieces are given with their cluster segmentation, special pieces by index -/
def charTokenize (cfg : CharCfg) (pieces : List (Sum (List (List Nat)) Nat)) : List Nat :=
  cfg.sp.prefixIds ++
  pieces.flatMap (fun p => match p with
    | Sum.inl clusters => clusters.map (charId cfg)
    | Sum.inr i => [cfg.sp.offset + i]) ++
  cfg.sp.suffixIds

/-- `de_tokenize` (code points); `none` = `Err(unknown special token id)` -/
def charDetok (cfg : CharCfg) (ign : Bool) : List Nat → Option (List Nat)
  | [] => some []
  | id :: ids =>
    match cfg.alphabet[id]? with
    | some c => (charDetok cfg ign ids).map (utf8 c ++ ·)
    | none =>
      if ign then charDetok cfg ign ids
      else match cfg.sp.idToToken id with
        | some t => (charDetok cfg ign ids).map (t ++ ·)
        | none => none

def charVocabSize (cfg : CharCfg) : Nat := cfg.alphabet.length + cfg.sp.tokens.length
def charGetVocab (cfg : CharCfg) : List (List Nat) := cfg.alphabet.map utf8 ++ cfg.sp.tokens
def charIdToToken (cfg : CharCfg) (id : Nat) : Option (List Nat) :=
  match cfg.sp.idToToken id with
  | some t => some t
  | none => (cfg.alphabet[id]?).map utf8

/-- decode a byte string that is the UTF-8 encoding of exactly one code point -/
def singleCp (alphabetOrAny : List Nat) : Option Nat :=
  match alphabetOrAny with
  | [a] => if a < 0x80 then some a else none
  | [a, b] => if 0xC2 ≤ a && a ≤ 0xDF && isCont b then some ((a - 0xC0) * 64 + (b - 0x80)) else none
  | [a, b, c] => if 0xE0 ≤ a && a ≤ 0xEF && validUtf8 [a, b, c] then some ((a - 0xE0) * 4096 + (b - 0x80) * 64 + (c - 0x80)) else none
  | [a, b, c, d] => if 0xF0 ≤ a && a ≤ 0xF4 && validUtf8 [a, b, c, d] then some ((a - 0xF0) * 262144 + (b - 0x80) * 4096 + (c - 0x80) * 64 + (d - 0x80)) else none
  | _ => none

def charTokenToId (cfg : CharCfg) (t : List Nat) : Option Nat :=
  match cfg.sp.tokenToId t with
  | some id => some id
  | none => (singleCp t).bind (natIdxOf cfg.alphabet)

end Tu
