/-
  Line-by-line mirror of the item selection of `TrainLoader::init_iter` / `TrainLoader::new` (src/data/mod.rs)
  with the machine arithmetic and the iterator adaptors the code uses:

      let seed = self.seed.unwrap_or_default().wrapping_add(self.epoch as u64);
      let limit = limit.unwrap_or(usize::MAX);
      self.min_items = Some(data_iter.len().min(self.limit).saturating_sub(self.skip));
      data_iter.enumerate()
          .take(self.limit)
          .skip(self.skip.saturating_add(self.fast_forward).saturating_add(self.rank))
          .step_by(self.world_size)
          .filter_map(|(item_idx, (data, file_idx))| data.ok().map(|data| (.., seed.wrapping_add(item_idx as u64))))

  `Model/Loader.lean` states WHICH global indices a loader processes as a filter over `List.range`
  (`selectIdx`, `selectValid`) in unbounded `Nat`; the theorems of C08 (disjoint ranks, union, resume) are about
  that specification.  Here the chain is modelled as the adaptors compute it, with `usize` saturation and `u64`
  wrap-around; `Props/C08u.lean` proves that for every corpus that can exist (fewer than 2^64 lines) and all
  64-bit parameter values the chain yields exactly the specification.  (D15 / D16 were overflow defects of this
  arithmetic: `seed + epoch`, `seed + item_idx`, `skip + fast_forward + rank`.)
-/
import TuModel.Model.Loader
import TuModel.Model.WindowsU
namespace Tu

/-- `usize::saturating_add` -/
def satAddU (a b : Nat) : Nat := if a + b < U64 then a + b else U64 - 1

/-- `u64::wrapping_add` -/
def wrapAddU (a b : Nat) : Nat := (a + b) % U64

/-- `Iterator::step_by(w)` (`w ≥ 1`; `step_by(0)` panics): the first element, then every `w`-th.  The fuel is the
length of the list (one element is consumed per round). -/
def stepByAux (w : Nat) : Nat → List Nat → List Nat
  | 0, _ => []
  | _ + 1, [] => []
  | fuel + 1, x :: xs => x :: stepByAux w fuel (xs.drop (w - 1))

def stepBy (w : Nat) (l : List Nat) : List Nat := stepByAux w l.length l

/-- the global indices a loader delivers, computed as the adaptor chain does; `none` = the `assert!(rank <
world_size)` of `TrainLoader::new` fails (this also excludes `step_by(0)`) -/
def selectChainU (N skip : Nat) (limit : Option Nat) (ff rank W : Nat) (invalid : List Nat) : Option (List Nat) :=
  if rank < W then
    let lim := limit.getD (U64 - 1)
    let start := satAddU (satAddU skip ff) rank
    some ((stepBy W (((List.range N).take lim).drop start)).filter (fun i => !invalid.contains i))
  else none

/-- `data_iter.len().min(self.limit).saturating_sub(self.skip)` -/
def minItemsU (N skip : Nat) (limit : Option Nat) : Nat := min N (limit.getD (U64 - 1)) - skip

/-- the seed an item is processed with: `seed.unwrap_or_default().wrapping_add(epoch).wrapping_add(item_idx)` -/
def itemSeedU (seed : Option Nat) (epoch idx : Nat) : Nat := wrapAddU (wrapAddU (seed.getD 0) epoch) idx

end Tu
