/-
  Machine arithmetic of the batch-limit accounting (src/data/loading.rs: `BatchLimit::limit`, the buffer bound of
  `Batched::build_batch`).  The code computes `count * max size` and `limit * prefetch factor` with `usize`:

      BatchLimit::TotalItemSize(count, max_length) => count.saturating_mul(*max_length)     (as repaired, D17)
      while buffer_limit.limit() <= batch_limit.saturating_mul(prefetch_factor) { .. }       (as repaired, D14)

  `Model/Batch.lean` follows the code: its `limOf` and the buffer bound of `stepAllowed` saturate at `usizeMax`.
  This file spells `usize::saturating_mul` out once more (`satMulU`, `limOfU`, over `U64` of Model/WindowsU.lean) and
  gives the accounting before the repair (`limOfOldU`, `limOfOldWrap`).  `Props/C06u.lean` proves that the mirror IS
  the model's `limOf`, and that every comparison the code makes with the saturated values has the outcome of the
  mathematical value `limOfExact`, for every batch limit below `usize::MAX` (which the crate itself uses as
  "no limit").
-/
import TuModel.Model.Batch
import TuModel.Model.WindowsU
namespace Tu

/-- `usize::saturating_mul` -/
def satMulU (a b : Nat) : Nat := if a * b < U64 then a * b else U64 - 1

/-- `BatchLimit::limit` as repaired, written with `satMulU` (equal to the model's `limOf`: `C06u.limOfU_eq_limOf`) -/
def limOfU (padded : Bool) (count maxSize : Nat) : Nat := if padded then satMulU count maxSize else count

/-- `BatchLimit::limit` before the repair D17: `count * max_length` (`none` = the overflow panic of a debug build;
a release build wraps around) -/
def limOfOldU (padded : Bool) (count maxSize : Nat) : Option Nat := if padded then mulU count maxSize else some count

/-- what a release build computed before the repair -/
def limOfOldWrap (padded : Bool) (count maxSize : Nat) : Nat := if padded then (count * maxSize) % U64 else count

end Tu
