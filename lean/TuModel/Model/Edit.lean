/-
  Model of `_calculate_edit_matrices`, `distance`, `prefix_distance`, `operations` (src/edit.rs).

  The flat row-major table `d[i * cols + j]` is filled cell by cell; every cell is computed by
  `stepCell` from already filled cells exactly as the Rust loop does: candidate list in the order
  delete, insert, keep/replace, swap, and `Iterator::min_by` (first minimum) as tie-breaker.
-/
import TuModel.Model.Basic
namespace Tu

inductive EOp | none | keep | insert | delete | replace | swap
  deriving DecidableEq, Repr, Inhabited

structure EFlags where
  swap : Bool
  sid : Bool   -- spaces_insert_delete_only
  deriving DecidableEq, Repr

/-- `Iterator::min_by` on the cost: the first of the minimal elements -/
def minByFst : List (Nat × EOp) → Nat × EOp
  | [] => (0, .none)
  | x :: xs => xs.foldl (fun m y => if y.1 < m.1 then y else m) x

/-- may `x` be substituted by `y` (they differ)? -/
def canReplace (fl : EFlags) (x y : List Nat) : Bool := !fl.sid || (!isWsCl x && !isWsCl y)

/-- keep (equal characters) or replace (different, and allowed) -/
def candDiag (fl : EFlags) (x y : List Nat) (dDiag : Nat) : List (Nat × EOp) :=
  if x == y then [(dDiag, EOp.keep)]
  else if canReplace fl x y then [(dDiag + 1, EOp.replace)] else []

/-- adjacent transposition: `x = a[i]`, `x' = a[i-1]` against `y' = b[j-1]`, `y = b[j]` -/
def candSwap (fl : EFlags) (x y : List Nat) (x' y' : Option (List Nat)) (dSwap : Nat) : List (Nat × EOp) :=
  match x', y' with
  | some u, some v =>
    if fl.swap && x == v && u == y && canReplace fl x u then [(dSwap + 1, EOp.swap)] else []
  | _, _ => []

/-- the candidate list of cell `(i+1, j+1)` in the order the code pushes it:
delete, insert, keep/replace, swap; `x = a[i]`, `y = b[j]`, `x' = a[i-1]`, `y' = b[j-1]` -/
def candidates (fl : EFlags) (x y : List Nat) (x' y' : Option (List Nat))
    (dUp dLeft dDiag : Nat) (dSwap : Nat) : List (Nat × EOp) :=
  (dUp + 1, EOp.delete) :: (dLeft + 1, EOp.insert) :: (candDiag fl x y dDiag ++ candSwap fl x y x' y' dSwap)

def stepCell (fl : EFlags) (a b : List (List Nat)) (get : Nat → Nat → Nat × EOp) : Nat → Nat → Nat × EOp
  | 0, 0 => (0, .keep)
  | i+1, 0 => (i+1, .delete)
  | 0, j+1 => (j+1, .insert)
  | i+1, j+1 =>
    minByFst (candidates fl (a.getD i []) (b.getD j [])
      (if i = 0 then none else a[i-1]?) (if j = 0 then none else b[j-1]?)
      (get i (j+1)).1 (get (i+1) j).1 (get i j).1 (get (i-1) (j-1)).1)

def tblGet (tbl : Array (Nat × EOp)) (cols i j : Nat) : Nat × EOp := tbl.getD (i * cols + j) (0, .none)

/-- the filled matrices, row-major, `(a.length+1) * (b.length+1)` cells -/
def fillTable (fl : EFlags) (a b : List (List Nat)) : Array (Nat × EOp) :=
  let cols := b.length + 1
  (List.range ((a.length + 1) * cols)).foldl
    (fun tbl k => tbl.push (stepCell fl a b (tblGet tbl cols) (k / cols) (k % cols))) #[]

/-- `distance` (unnormalised): the last cell -/
def editDistance (fl : EFlags) (a b : List (List Nat)) : Nat :=
  (tblGet (fillTable fl a b) (b.length + 1) a.length b.length).1

/-- the normaliser of `distance(.., normalized = true)`: the longer length, at least 1 (so that two empty strings
have distance 0, as the property demands) -/
def normDen (a b : List (List Nat)) : Nat := max (max a.length b.length) 1

/-- `prefix_distance` (unnormalised): minimum of the last row -/
def prefixDistance (fl : EFlags) (a b : List (List Nat)) : Nat :=
  let tbl := fillTable fl a b
  let cols := b.length + 1
  ((List.range cols).map (fun j => (tblGet tbl cols a.length j).1)).foldl min
    (tblGet tbl cols a.length 0).1

inductive EKind | insert | delete | replace | swap
  deriving DecidableEq, Repr

def EKind.toNat : EKind → Nat | .insert => 0 | .delete => 1 | .replace => 2 | .swap => 3
def EKind.ofNat? : Nat → Option EKind | 0 => some .insert | 1 => some .delete | 2 => some .replace | 3 => some .swap | _ => none

/-- backtrace of `operations`; collects in reverse (the Rust code pushes and reverses at the end).
`none` = the `panic!("should not happen")` branch / an index underflow. -/
def backtrace (tbl : Array (Nat × EOp)) (cols : Nat) : Nat → Nat → Nat → List (EKind × Nat × Nat) →
    Option (List (EKind × Nat × Nat))
  | 0, _, _, _ => none
  | fuel+1, i, j, acc =>
    if i = 0 ∧ j = 0 then some acc else
    match (tblGet tbl cols i j).2 with
    | .none => none
    | .keep => if i ≥ 1 ∧ j ≥ 1 then backtrace tbl cols fuel (i-1) (j-1) acc else none
    | .insert => if j ≥ 1 then backtrace tbl cols fuel i (j-1) ((.insert, i, j-1) :: acc) else none
    | .delete => if i ≥ 1 then backtrace tbl cols fuel (i-1) j ((.delete, i-1, j) :: acc) else none
    | .replace => if i ≥ 1 ∧ j ≥ 1 then backtrace tbl cols fuel (i-1) (j-1) ((.replace, i-1, j-1) :: acc) else none
    | .swap => if i ≥ 2 ∧ j ≥ 2 then backtrace tbl cols fuel (i-2) (j-2) ((.swap, i-2, j-2) :: acc) else none

def editOperations (fl : EFlags) (a b : List (List Nat)) : Option (List (EKind × Nat × Nat)) :=
  backtrace (fillTable fl a b) (b.length + 1) (a.length + b.length + 1) a.length b.length []

/-- applying a script (sorted by position in `a`) to `a`: `pa` is the read position in `a` -/
def applyScript (a b : List (List Nat)) : List (EKind × Nat × Nat) → Nat → List (List Nat)
  | [], pa => a.drop pa
  | (k, i, j) :: rest, pa =>
    let copied := (a.drop pa).take (i - pa)
    match k with
    | .insert => copied ++ b.getD j [] :: applyScript a b rest i
    | .delete => copied ++ applyScript a b rest (i + 1)
    | .replace => copied ++ b.getD j [] :: applyScript a b rest (i + 1)
    | .swap => copied ++ a.getD (i+1) [] :: a.getD i [] :: applyScript a b rest (i + 2)

/-- non-decreasing in both positions -/
def scriptSorted : List (EKind × Nat × Nat) → Bool
  | [] => true
  | [_] => true
  | p :: q :: rest => p.2.1 ≤ q.2.1 && p.2.2 ≤ q.2.2 && scriptSorted (q :: rest)

/-- every operation refers to existing characters and respects the flags -/
def opOk (fl : EFlags) (a b : List (List Nat)) (p : EKind × Nat × Nat) : Bool :=
  match p.1 with
  | .insert => p.2.2 < b.length && p.2.1 ≤ a.length
  | .delete => p.2.1 < a.length
  | .replace => p.2.1 < a.length && p.2.2 < b.length && canReplace fl (a.getD p.2.1 []) (b.getD p.2.2 [])
  | .swap => fl.swap && p.2.1 + 1 < a.length && canReplace fl (a.getD p.2.1 []) (a.getD (p.2.1 + 1) [])

/-- is `ops` an answer `operations(a, b)` may give?  (The property asks for a script sorted by position whose
application to `a` yields `b` and whose length is the distance; among several optimal scripts it fixes none.) -/
def scriptAccept (fl : EFlags) (a b : List (List Nat)) (ops : List (EKind × Nat × Nat)) : Bool :=
  ops.length == editDistance fl a b && scriptSorted ops && ops.all (opOk fl a b) && applyScript a b ops 0 == b

end Tu
