/-
  Model of `Dictionary::save` / `Dictionary::load` (src/dictionary.rs) on the code points of the file.
  `load`: `BufRead::lines` (split at '\n', a final empty piece is no line, one '\r' before the '\n' is
  stripped), `line.trim()`, `split('\t')` must give exactly two parts, the second is parsed with
  `str::parse::<usize>` (optional '+', ASCII digits, < 2^64), entries are inserted into a map (a later line
  with the same key wins), `freq_sum` is the sum of the values.  `save`: the entries in descending
  frequency, one line `key '\t' value '\n'` each.  UTF-8 decoding of the file is checked by the driver by
  re-encoding the code points of the request.
-/
import TuModel.Model.Basic
namespace Tu

abbrev Key := List Nat      -- code points of a dictionary key

/-- `BufRead::lines` before the '\r' stripping -/
def linesAux : List Nat → List Nat → List (List Nat)
  | [], cur => if cur.isEmpty then [] else [cur.reverse]
  | c :: rest, cur => if c == 10 then cur.reverse :: linesAux rest [] else linesAux rest (c :: cur)

def stripCr (l : List Nat) : List Nat :=
  match l.reverse with
  | 13 :: r => r.reverse
  | _ => l

def fileLines (s : List Nat) : List (List Nat) := (linesAux s []).map stripCr

/-- `str::split('\t')`: always at least one part -/
def splitTabAux : List Nat → List Nat → List (List Nat)
  | [], cur => [cur.reverse]
  | c :: rest, cur => if c == 9 then cur.reverse :: splitTabAux rest [] else splitTabAux rest (c :: cur)
def splitTab (s : List Nat) : List (List Nat) := splitTabAux s []

def isDigit (c : Nat) : Bool := 48 ≤ c && c ≤ 57
def digitsVal (d : List Nat) : Nat := d.foldl (fun a c => a * 10 + (c - 48)) 0

/-- `str::parse::<usize>` on a 64-bit target -/
def parseUsize (s : List Nat) : Option Nat :=
  let d := match s with
    | 43 :: r => r
    | _ => s
  if d.isEmpty then none
  else if d.all isDigit then
    (if digitsVal d < 2 ^ 64 then some (digitsVal d) else none)
  else none

/-- one line of the file: `none` = the error "expected two tab separated values" or a parse error -/
def parseLine (line : List Nat) : Option (Key × Nat) :=
  match splitTab (trimCl line) with
  | [k, v] => (parseUsize v).map (fun n => (k, n))
  | _ => none

/-- the pairs of the file in file order (no de-duplication) -/
def loadPairs (file : List Nat) : Option (List (Key × Nat)) := (fileLines file).mapM parseLine

/-- `HashMap::insert`: a later value replaces an earlier one -/
def mapInsert (m : List (Key × Nat)) (k : Key) (v : Nat) : List (Key × Nat) :=
  if m.any (fun e => e.1 == k) then m.map (fun e => if e.1 == k then (k, v) else e) else m ++ [(k, v)]

structure DictFileM where
  entries : List (Key × Nat)     -- distinct keys
  freqSum : Nat
  deriving Repr

/-- `Dictionary::load` -/
def dictLoad (file : List Nat) : Option DictFileM :=
  (loadPairs file).map (fun ps =>
    let m := ps.foldl (fun m e => mapInsert m e.1 e.2) []
    { entries := m, freqSum := (m.map (·.2)).sum })

/-- decimal digits of `n` (as `{}` prints a usize) -/
def decDigits (n : Nat) : List Nat := (Nat.toDigits 10 n).map (fun c => c.toNat)

def saveLine (e : Key × Nat) : List Nat := e.1 ++ [9] ++ decDigits e.2 ++ [10]

/-- the file `save` writes for the entries in the order `l` -/
def dictSave (l : List (Key × Nat)) : List Nat := l.flatMap saveLine

/-- values in descending order (`sort_by_key(Reverse(value))`) -/
def descending : List (Key × Nat) → Bool
  | [] => true
  | [_] => true
  | a :: b :: rest => b.2 ≤ a.2 && descending (b :: rest)

/-- is `file` what `save` may write for the dictionary `entries` (distinct keys)?  The order among entries
of equal frequency is the hash order of the object: any is allowed. -/
def saveAccepts (entries : List (Key × Nat)) (file : List Nat) : Bool :=
  match loadPairs file with
  | none => false
  | some kvs =>
    dictSave kvs == file && kvs.length == entries.length && kvs.all (fun e => entries.contains e) &&
      entries.all (fun e => kvs.contains e) && descending kvs

/-- keys for which the file format is faithful: non-empty, no tab / line feed inside, no white space at
the start (what `create` produces, and everything `load` can produce) -/
def keyOk (k : Key) : Bool :=
  !k.isEmpty && !k.contains 9 && !k.contains 10 && !(k.head?.any isWsCp)

end Tu
