/-
  Line protocol (DESIGN.md §2): a request is an operation name followed by natural numbers;
  lists are length-prefixed.  Answers use the same encoding.
-/
import TuModel.Model.Basic
namespace Tu.Wire

abbrev P := StateT (List Nat) Option

def pNat : P Nat := fun s => match s with | [] => none | x :: xs => some (x, xs)
def pBool : P Bool := do let n ← pNat; if n == 0 then pure false else if n == 1 then pure true else failure
def pMany : Nat → P α → P (List α)
  | 0, _ => pure []
  | n+1, p => do let x ← p; let xs ← pMany n p; pure (x :: xs)
def pList (p : P α) : P (List α) := do let n ← pNat; pMany n p
def pNats : P (List Nat) := pList pNat
def pText : P (List (List Nat)) := pList pNats
def pOpt (p : P α) : P (Option α) := do
  let b ← pBool
  if b then (do let x ← p; pure (some x)) else pure none
def pPair (p : P α) (q : P β) : P (α × β) := do let a ← p; let b ← q; pure (a, b)
/-- succeed only when the whole input was consumed -/
def pEnd : P Unit := fun s => match s with | [] => some ((), []) | _ => none

def runP (p : P α) (s : List Nat) : Option α :=
  match (do let x ← p; pEnd; pure x : P α) s with
  | some (x, _) => some x
  | none => none

def eNats (l : List Nat) : List Nat := l.length :: l
def eList (f : α → List Nat) (l : List α) : List Nat := l.length :: l.flatMap f
def eText (t : List (List Nat)) : List Nat := eList eNats t
def eBool (b : Bool) : List Nat := [if b then 1 else 0]
def ePairs (l : List (Nat × Nat)) : List Nat := eList (fun p => [p.1, p.2]) l
def eOpt (f : α → List Nat) : Option α → List Nat
  | none => [0]
  | some x => 1 :: f x

def ok (l : List Nat) : String := " ".intercalate ("ok" :: l.map toString)
def err (k : String) : String := "err " ++ k
def reject : String := "reject"

end Tu.Wire
