/-
  Model of `text::clean`, `text::word_boundaries`, `whitespace::remove`, `whitespace::full`
  (src/text.rs, src/whitespace.rs) over a text given as a list of clusters.
-/
import TuModel.Model.Basic
namespace Tu

/-- `clean`: the loop of `text::clean`.  `lastWs` is `last_was_whitespace`, `ne` is
`!output.is_empty()`.  The result is kept as a list of clusters (the inserted separator is the
cluster `sp`); the returned string is its `flatten`. -/
def cleanAux : List (List Nat) → Bool → Bool → List (List Nat)
  | [], _, _ => []
  | c :: cs, lastWs, ne =>
    if isWsCl c then cleanAux cs true ne
    else
      let t := trimCl c
      (if lastWs && ne then [sp] else []) ++ t :: cleanAux cs false (ne || !t.isEmpty)

def cleanCl (s : List (List Nat)) : List (List Nat) := cleanAux s false false
def clean (s : List (List Nat)) : List Nat := (cleanCl s).flatten

/-- `word_boundaries`: the loop with `start : Option usize` and the running index. -/
def wbAux : List (List Nat) → Nat → Option Nat → List (Nat × Nat)
  | [], idx, some st => if st < idx then [(st, idx)] else []
  | [], _, none => []
  | c :: cs, idx, start =>
    match isWsCl c, start with
    | true, some st => (st, idx) :: wbAux cs (idx + 1) none
    | false, none => wbAux cs (idx + 1) (some idx)
    | _, _ => wbAux cs (idx + 1) start

def wordBoundaries (s : List (List Nat)) : List (Nat × Nat) := wbAux s 0 none

/-- `whitespace::remove` (clusters kept, string = flatten) -/
def removeWsCl (s : List (List Nat)) : List (List Nat) := s.filter (fun c => !isWsCl c)
def removeWs (s : List (List Nat)) : List Nat := (removeWsCl s).flatten

/-- `whitespace::full`: `join(" ")` of the non-whitespace clusters -/
def fullCl (s : List (List Nat)) : List (List Nat) := (removeWsCl s).intersperse sp
def full (s : List (List Nat)) : List Nat := (fullCl s).flatten

/-- does the text start with a white-space cluster (or is it empty)? -/
def startsWs : List (List Nat) → Bool
  | [] => true
  | d :: _ => isWsCl d

/-- put cluster `c` in front of the word list of the rest: it joins the first word of the rest
unless a separator follows -/
def consWord (c : List Nat) (nextIsWs : Bool) (ws : List (List (List Nat))) : List (List (List Nat)) :=
  match nextIsWs, ws with
  | false, w :: rest => (c :: w) :: rest
  | _, _ => [c] :: ws

/-- specification: the whitespace-separated words of a text (`str::split_whitespace`), i.e. the
maximal runs of non-white-space clusters, in order -/
def splitWs : List (List Nat) → List (List (List Nat))
  | [] => []
  | c :: cs => if isWsCl c then splitWs cs else consWord c (startsWs cs) (splitWs cs)

/-- words joined by single spaces (`join(" ")`) -/
def joinSp : List (List (List Nat)) → List (List Nat)
  | [] => []
  | [w] => w
  | w :: w' :: rest => w ++ sp :: joinSp (w' :: rest)

/-- scanner state for the whitespace normal form -/
inductive CSt | start | sep | ch
  deriving DecidableEq, Repr

/-- the whitespace normal form, as a scanner: white-space clusters are exactly `sp`, and occur only
directly after a non-white-space cluster and never last -/
def cleanSt : CSt → List (List Nat) → Bool
  | .start, [] => true
  | .sep, [] => false
  | .ch, [] => true
  | st, c :: cs => if isWsCl c then (c == sp && st == .ch && cleanSt .sep cs) else cleanSt .ch cs

def CleanB (s : List (List Nat)) : Bool := cleanSt .start s

/-- every cluster is a single code point (code-point mode) -/
def singletons (s : List (List Nat)) : Bool := s.all (fun c => c.length == 1)
/-- no cluster mixes white space and non-white-space code points (the property's grapheme-mode domain) -/
def unmixed (s : List (List Nat)) : Bool := s.all (fun c => !c.isEmpty && (isWsCl c || c.all (fun x => !isWsCp x)))

end Tu
