/-
  Model of `Batched` (src/data/loading.rs: `build_batch`, `batch_from`, `BatchLimit`) and of
  `find_subsequences_of_max_size_k` (src/utils.rs).

  Random decisions (which window, which permutation) are not re-implemented: `stepAllowed` is the
  executable relation "from this state the code may return this batch" (DESIGN §5.3).  For the
  deterministic modes (plain, sort only) exactly one batch is allowed.

  Arithmetic: item sizes and counts are unbounded `Nat`, but the two products the code forms with
  `usize::saturating_mul` (`BatchLimit::limit`, the buffer bound `batch_limit.saturating_mul(prefetch_factor)`)
  saturate at `usizeMax` here as well, so that every comparison has the outcome the code computes.
-/
import TuModel.Model.Basic
namespace Tu

structure Item where
  id : Nat
  size : Nat
  deriving DecidableEq, Repr

structure BCfg where
  sort : Bool
  shuffle : Bool
  padded : Bool      -- BatchLimitType::PaddedItemSize
  prefetch : Nat
  limit : Nat
  deriving Repr

/-- `batch_limit.max(1)` / `prefetch_factor.max(1)` of `Batched::new` -/
def BCfg.lim (c : BCfg) : Nat := max 1 c.limit
def BCfg.pf (c : BCfg) : Nat := max 1 c.prefetch

/-- `usize::MAX` of the 64-bit target -/
def usizeMax : Nat := 18446744073709551615

/-- `BatchLimit::limit` for a running `(count, max size)`, as the code computes it:
`TotalItemSize(count, max_length) => count.saturating_mul(*max_length)` (the padded size saturates at `usize::MAX`);
`BatchSize(count) => count` -/
def limOf (padded : Bool) (count maxSize : Nat) : Nat := if padded then min (count * maxSize) usizeMax else count

/-- the mathematical value of the batch limit (exact product, no saturation); used in statements only, see
`Props/C06u.lean` (`limOf_eq_min`, `limOf_gt_iff`, `limOf_le_iff`) for its relation to `limOf` -/
def limOfExact (padded : Bool) (count maxSize : Nat) : Nat := if padded then count * maxSize else count

def maxSize : List Item → Nat
  | [] => 0
  | x :: xs => max x.size (maxSize xs)

/-- `BatchLimit::from_items(items).limit()` (saturating, see `limOf`) -/
def itemsLimit (padded : Bool) (l : List Item) : Nat := limOf padded l.length (maxSize l)

/-- `batch_from`: consume `src` in order; returns (batch, remainder, unconsumed).  The first item is
always accepted. `items` is the batch so far (reversed), `(c, m)` its running count / max size. -/
def batchFromAux (padded : Bool) (limit : Nat) : List Item → List Item → Nat → Nat → List Item × Option Item × List Item
  | [], items, _, _ => (items.reverse, none, [])
  | x :: xs, items, c, m =>
    if limOf padded (c + 1) (max m x.size) > limit && !items.isEmpty then (items.reverse, some x, xs)
    else batchFromAux padded limit xs (x :: items) (c + 1) (max m x.size)

def batchFrom (padded : Bool) (limit : Nat) (src : List Item) : List Item × Option Item × List Item :=
  batchFromAux padded limit src [] 0 0

/-- fill the buffer: `while buffer_limit.limit() <= cap { pull }`; `stepAllowed` passes
`cap = batch_limit.saturating_mul(prefetch_factor)`, and `limit()` is the saturating `limOf` -/
def fillBuf (padded : Bool) (cap : Nat) : List Item → List Item → Nat → Nat → List Item × List Item
  | [], buf, _, _ => (buf, [])
  | x :: xs, buf, c, m =>
    if limOf padded c m ≤ cap then fillBuf padded cap xs (buf ++ [x]) (c + 1) (max m x.size)
    else (buf, x :: xs)

/-- `find_subsequences_of_max_size_k`, the main loop; `sz s e` is `size_fn(&values[s..e])` -/
def subseqLoop (sz : Nat → Nat → Nat) (n k : Nat) : Nat → Nat → Nat → Nat → List (Nat × Nat) → List (Nat × Nat)
  | 0, _, _, _, acc => acc.reverse
  | fuel+1, st, en, prev, acc =>
    if st < n ∧ en ≤ n then
      let s := sz st en
      if s ≤ k then subseqLoop sz n k fuel st (en + 1) s (if en ≥ n then (st, en) :: acc else acc)
      else if prev ≤ k then subseqLoop sz n k fuel (st + 1) en s ((st, en - 1) :: acc)
      else subseqLoop sz n k fuel (st + 1) (max en (st + 2)) s acc
    else acc.reverse

/-- fast-forward to the first element that fits alone -/
def firstFit (sz : Nat → Nat → Nat) (n k : Nat) : Nat → Nat → Option Nat
  | 0, _ => none
  | fuel+1, st => if st < n then (if sz st (st + 1) > k then firstFit sz n k fuel (st + 1) else some st) else none

def findSubseq (padded : Bool) (values : List Item) (k : Nat) : List (Nat × Nat) :=
  let n := values.length
  let sz := fun s e => itemsLimit padded ((values.drop s).take (e - s))
  match firstFit sz n k (n + 1) 0 with
  | none => []
  | some st => subseqLoop sz n k (2 * n + 2) st (st + 1) (sz st (st + 1)) []

structure BState where
  rest : List Item
  buf : List Item
  deriving Repr

def sortBySize (l : List Item) : List Item := l.mergeSort (fun a b => a.size ≤ b.size)

/-- is `b` a permutation-free sub-multiset: remove the items of `b` from `l` (by id) -/
def removeItems (l b : List Item) : List Item := l.filter (fun x => !b.contains x)

/-- greedy admissibility of batch `b` popped from a freshly shuffled buffer `buf`: `batch_from`
accepts every item of `b` in order, and either nothing is left or some remaining item would
overflow (and is returned as remainder) -/
def greedyOK (padded : Bool) (limit : Nat) (buf b : List Item) : Bool :=
  let (got, _, unconsumed) := batchFrom padded limit b
  got == b && unconsumed.isEmpty && b.all (fun x => buf.contains x) && decide b.Nodup &&
  (let left := removeItems buf b
   left.isEmpty || left.any (fun r => limOf padded (b.length + 1) (max (maxSize b) r.size) > limit))

/-- one call of `build_batch`: `some st'` iff returning `batch` from state `st` is possible -/
def stepAllowed (cfg : BCfg) (st : BState) (batch : List Item) : Option BState :=
  if batch.isEmpty then none else
  if !cfg.sort && !cfg.shuffle then
    -- plain: the buffer holds at most the remainder of the previous call
    if st.buf.length > 1 then none else
    let (b, rem, rest') := batchFrom cfg.padded cfg.lim (st.buf ++ st.rest)
    if b == batch then some { rest := rest', buf := rem.toList } else none
  else
    -- the buffer bound is `batch_limit.saturating_mul(prefetch_factor)`
    let (buf, rest') := fillBuf cfg.padded (min (cfg.lim * cfg.pf) usizeMax) st.rest st.buf st.buf.length (maxSize st.buf)
    if buf.isEmpty then none else
    if cfg.sort then
      let sorted := sortBySize buf
      if cfg.shuffle then
        let subs := findSubseq cfg.padded sorted cfg.lim
        if subs.isEmpty then
          if some batch == sorted.getLast?.map (fun l => [l]) then some { rest := rest', buf := sorted.dropLast } else none
        else
          match subs.find? (fun (s, e) => (sorted.drop s).take (e - s) == batch) with
          | some (s, e) => some { rest := rest', buf := sorted.take s ++ sorted.drop e }
          | none => none
      else
        let (b, rem, unconsumed) := batchFrom cfg.padded cfg.lim sorted.reverse
        if b == batch then some { rest := rest', buf := unconsumed.reverse ++ rem.toList } else none
    else
      if greedyOK cfg.padded cfg.lim buf batch then some { rest := rest', buf := removeItems buf batch } else none

/-- replay a whole observed batch sequence; `some st` = every batch was allowed -/
def runBatches (cfg : BCfg) : BState → List (List Item) → Option BState
  | st, [] => some st
  | st, b :: bs => match stepAllowed cfg st b with
    | some st' => runBatches cfg st' bs
    | none => none

/-- at the end of the iteration (`None`) nothing may be left: buffer empty and upstream exhausted.
(In plain mode `None` is returned iff `batch_from` got no item at all.) -/
def finished (st : BState) : Bool := st.rest.isEmpty && st.buf.isEmpty

end Tu
