/-
  Model of the threaded `Pipe` (src/data/loading.rs, `Pipe::new` worker loop + `Pipe::next`) as a
  labelled transition system.  An action is "thread t performs its next operation on a shared
  object" (DESIGN §5.5): the ticket take under the mutex, the atomic load of `send_next`, the
  channel send, the atomic swap, the consumer's receive.  Items are identified by their upstream
  index `i`; the value delivered for index `i` is `f (xs[i])`.

  The unthreaded branch (`num_threads = 0`) is `iter.map(f)` and needs no transition system.
-/
import TuModel.Model.Basic
namespace Tu

inductive PC
  | idle                      -- before the ticket take
  | holding (i : Nat)         -- took item `i`, pipeline function not yet applied
  | computed (i : Nat)        -- spinning on `send_next`
  | cleared (i : Nat)         -- observed `send_next == i`, about to send
  | sent (i : Nat) (ok : Bool) -- send returned, about to swap `send_next`
  | exited
  deriving DecidableEq, Repr

structure PState where
  W : Nat                 -- number of worker threads (≥ 1)
  n : Nat                 -- upstream length
  next : Nat              -- items pulled from upstream so far (`enumerate` counter)
  turn : Nat              -- `send_next`
  chan : List Nat         -- bounded channel (capacity `W`), oldest first
  recvd : List Nat        -- what the consumer received, in order
  dropped : Bool          -- the consumer dropped the iterator
  closed : Bool           -- the consumer received `None`
  pc : Nat → PC           -- program counter of worker `w < W`
  calls : Nat → Nat       -- how often the pipeline function was applied to item `i`

def PState.init (W n : Nat) : PState :=
  { W := W, n := n, next := 0, turn := 0, chan := [], recvd := [], dropped := false, closed := false,
    pc := fun _ => .idle, calls := fun _ => 0 }

def setPc (pc : Nat → PC) (w : Nat) (v : PC) : Nat → PC := fun u => if u = w then v else pc u
def bump (calls : Nat → Nat) (i : Nat) : Nat → Nat := fun j => if j = i then calls j + 1 else calls j

inductive PAction
  | take (w : Nat)
  | compute (w : Nat)
  | spin (w : Nat)
  | send (w : Nat)
  | advance (w : Nat)
  | recv
  | close
  | drop
  deriving DecidableEq, Repr

def stepTake (s : PState) (w : Nat) : Option PState :=
  if w < s.W ∧ s.pc w = .idle then
    if s.next < s.n then some { s with pc := setPc s.pc w (.holding s.next), next := s.next + 1 }
    else some { s with pc := setPc s.pc w .exited }
  else none

def stepCompute (s : PState) (w : Nat) : Option PState :=
  if w < s.W then
    match s.pc w with
    | .holding i => some { s with pc := setPc s.pc w (.computed i), calls := bump s.calls i }
    | _ => none
  else none

/-- one load of `send_next`: clears the worker iff it is its turn, otherwise nothing changes (stutter) -/
def stepSpin (s : PState) (w : Nat) : Option PState :=
  if w < s.W then
    match s.pc w with
    | .computed i => if s.turn = i then some { s with pc := setPc s.pc w (.cleared i) } else some s
    | _ => none
  else none

/-- `tx.send`: blocks while the channel is full (not enabled), fails once the receiver is gone -/
def stepSend (s : PState) (w : Nat) : Option PState :=
  if w < s.W then
    match s.pc w with
    | .cleared i =>
      if s.dropped then some { s with pc := setPc s.pc w (.sent i false) }
      else if s.chan.length < s.W then some { s with pc := setPc s.pc w (.sent i true), chan := s.chan ++ [i] }
      else none
    | _ => none
  else none

/-- `send_next.swap(idx + 1)`, then back to the loop head, or thread exit after a failed send -/
def stepAdvance (s : PState) (w : Nat) : Option PState :=
  if w < s.W then
    match s.pc w with
    | .sent i ok => some { s with turn := i + 1, pc := setPc s.pc w (if ok then .idle else .exited) }
    | _ => none
  else none

def allExited (s : PState) : Bool := (List.range s.W).all (fun w => s.pc w == .exited)

def stepRecv (s : PState) : Option PState :=
  if s.dropped || s.closed then none else
  match s.chan with
  | x :: rest => some { s with chan := rest, recvd := s.recvd ++ [x] }
  | [] => none

/-- `rx.recv()` returns `Err` (the iterator yields `None`): every sender is gone and nothing is queued -/
def stepClose (s : PState) : Option PState :=
  if !s.dropped && !s.closed && s.chan.isEmpty && allExited s then some { s with closed := true } else none

def stepDrop (s : PState) : Option PState :=
  if s.dropped || s.closed then none else some { s with dropped := true }

def pstep (s : PState) : PAction → Option PState
  | .take w => stepTake s w
  | .compute w => stepCompute s w
  | .spin w => stepSpin s w
  | .send w => stepSend s w
  | .advance w => stepAdvance s w
  | .recv => stepRecv s
  | .close => stepClose s
  | .drop => stepDrop s

/-- run a schedule (sequence of actions); `none` if some action is not enabled -/
def prun (s : PState) : List PAction → Option PState
  | [] => some s
  | a :: as => match pstep s a with
    | some s' => prun s' as
    | none => none

/-- states reachable from the initial state of a pipe with `W` workers over `n` items -/
inductive PReach (W n : Nat) : PState → Prop
  | init : PReach W n (PState.init W n)
  | step {s s' : PState} (a : PAction) : PReach W n s → pstep s a = some s' → PReach W n s'

/-! ### `Buffered` (as repaired: the producer returns when the receiver is gone) -/

inductive BPC | idle | have (i : Nat) | exited
  deriving DecidableEq, Repr

structure BufState where
  B : Nat              -- channel capacity (`buffer_size`)
  n : Nat              -- upstream length
  pulled : Nat
  chan : List Nat
  recvd : List Nat
  dropped : Bool
  closed : Bool
  pc : BPC

def BufState.init (B n : Nat) : BufState :=
  { B := B, n := n, pulled := 0, chan := [], recvd := [], dropped := false, closed := false, pc := .idle }

inductive BAction | pull | send | recv | close | drop
  deriving DecidableEq, Repr

/-- with capacity 0 the channel is a rendezvous: a send completes only by handing the item to a
receiving consumer, which the model performs as one step -/
def bstep (s : BufState) : BAction → Option BufState
  | .pull => if s.pc = .idle then
      (if s.pulled < s.n then some { s with pc := .have s.pulled, pulled := s.pulled + 1 } else some { s with pc := .exited })
    else none
  | .send => match s.pc with
    | .have i =>
      if s.dropped then some { s with pc := .exited }
      else if s.B = 0 then (if s.closed then none else some { s with pc := .idle, recvd := s.recvd ++ [i] })
      else if s.chan.length < s.B then some { s with pc := .idle, chan := s.chan ++ [i] }
      else none
    | _ => none
  | .recv => if s.dropped || s.closed then none else
      match s.chan with
      | x :: rest => some { s with chan := rest, recvd := s.recvd ++ [x] }
      | [] => none
  | .close => if !s.dropped && !s.closed && s.chan.isEmpty && s.pc == .exited then some { s with closed := true } else none
  | .drop => if s.dropped || s.closed then none else some { s with dropped := true }

inductive BReach (B n : Nat) : BufState → Prop
  | init : BReach B n (BufState.init B n)
  | step {s s' : BufState} (a : BAction) : BReach B n s → bstep s a = some s' → BReach B n s'

end Tu
