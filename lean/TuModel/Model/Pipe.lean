/-
  Model of the threaded `Pipe` (src/data/loading.rs, `Pipe::new` worker loop + `Pipe::next`) as a
  labelled transition system.  An action is "thread t performs its next operation on a shared
  object" (DESIGN §5.5): the ticket take under the mutex, the atomic load of `send_next`, the
  channel send, the atomic swap, the consumer's receive.  Items are identified by their upstream
  index `i`; the value delivered for index `i` is `f (xs[i])`.

  The upstream need not be fused: `src k` says whether the `k`-th call of `upstream.next()` yields an item.
  A worker leaves its loop on the first `None` it sees itself, so every `None` ends exactly one worker and the
  others keep pulling; the pipe delivers the items before the `W`-th `None` (`gapDelivered`).  A fused
  upstream of `n` items is `fused n`.

  The unthreaded branch (`num_threads = 0`) is `iter.map(f)` and needs no transition system.
-/
import TuModel.Model.Basic
namespace Tu

inductive PC
  | idle                      -- before the ticket take
  | holding (i : Nat)         -- took item `i`, pipeline function not yet applied
  | computed (i : Nat)        -- spinning on `send_next`
  | cleared (i : Nat)         -- observed `send_next == i`, about to send
  | sent (i : Nat) (ok : Bool) -- send returned, about to swap `send_next`
  | exited
  deriving DecidableEq, Repr

/-- a fused upstream of `n` items: the first `n` calls of `next()` yield, all later ones return `None` -/
def fused (n : Nat) : Nat → Bool := fun k => decide (k < n)

/-- the upstream that answers its first calls as listed (`true` = an item, `false` = `None`) and returns
`None` for ever afterwards -/
def srcOf (entries : List Bool) : Nat → Bool := fun k => entries.getD k false

/-- number of items among the first `k` answers of the upstream -/
def itemsBefore (src : Nat → Bool) : Nat → Nat
  | 0 => 0
  | k + 1 => itemsBefore src k + (if src k then 1 else 0)

/-- number of `None` answers among the first `k` answers of the upstream -/
def gapsBefore (src : Nat → Bool) : Nat → Nat
  | 0 => 0
  | k + 1 => gapsBefore src k + (if src k then 0 else 1)

/-- what a pipe with `W` workers delivers from the upstream `srcOf entries`: the number of `true` entries
before the `W`-th `false` entry (all of them if there are fewer than `W` `false` entries; 0 for `W = 0`,
which is not a threaded pipe); every `None` ends exactly one worker -/
def gapDelivered : Nat → List Bool → Nat
  | 0, _ => 0
  | _ + 1, [] => 0
  | W + 1, true :: es => gapDelivered (W + 1) es + 1
  | W + 1, false :: es => gapDelivered W es

structure PState where
  W : Nat                 -- number of worker threads (≥ 1)
  src : Nat → Bool        -- the `k`-th call of `upstream.next()` yields an item iff `src k` (need not be fused)
  pulls : Nat             -- calls of `upstream.next()` made so far
  next : Nat              -- items pulled from upstream so far (`enumerate` counter)
  turn : Nat              -- `send_next`
  chan : List Nat         -- bounded channel (capacity `W`), oldest first
  recvd : List Nat        -- what the consumer received, in order
  dropped : Bool          -- the consumer dropped the iterator
  closed : Bool           -- the consumer received `None`
  pc : Nat → PC           -- program counter of worker `w < W`
  calls : Nat → Nat       -- how often the pipeline function was applied to item `i`

def PState.init (W : Nat) (src : Nat → Bool) : PState :=
  { W := W, src := src, pulls := 0, next := 0, turn := 0, chan := [], recvd := [], dropped := false, closed := false,
    pc := fun _ => .idle, calls := fun _ => 0 }

/-- initial state over a fused upstream of `n` items -/
abbrev PState.initF (W n : Nat) : PState := PState.init W (fused n)

def setPc (pc : Nat → PC) (w : Nat) (v : PC) : Nat → PC := fun u => if u = w then v else pc u
def bump (calls : Nat → Nat) (i : Nat) : Nat → Nat := fun j => if j = i then calls j + 1 else calls j

inductive PAction
  | take (w : Nat)
  | compute (w : Nat)
  | spin (w : Nat)
  | send (w : Nat)
  | advance (w : Nat)
  | recv
  | close
  | drop
  deriving DecidableEq, Repr

/-- the ticket take under the mutex: one call of `upstream.next()`; on `None` this worker (and only this
one) leaves its loop -/
def stepTake (s : PState) (w : Nat) : Option PState :=
  if w < s.W ∧ s.pc w = .idle then
    if s.src s.pulls then
      some { s with pc := setPc s.pc w (.holding s.next), next := s.next + 1, pulls := s.pulls + 1 }
    else some { s with pc := setPc s.pc w .exited, pulls := s.pulls + 1 }
  else none

def stepCompute (s : PState) (w : Nat) : Option PState :=
  if w < s.W then
    match s.pc w with
    | .holding i => some { s with pc := setPc s.pc w (.computed i), calls := bump s.calls i }
    | _ => none
  else none

/-- one load of `send_next`: clears the worker iff it is its turn, otherwise nothing changes (stutter) -/
def stepSpin (s : PState) (w : Nat) : Option PState :=
  if w < s.W then
    match s.pc w with
    | .computed i => if s.turn = i then some { s with pc := setPc s.pc w (.cleared i) } else some s
    | _ => none
  else none

/-- `tx.send`: blocks while the channel is full (not enabled), fails once the receiver is gone -/
def stepSend (s : PState) (w : Nat) : Option PState :=
  if w < s.W then
    match s.pc w with
    | .cleared i =>
      if s.dropped then some { s with pc := setPc s.pc w (.sent i false) }
      else if s.chan.length < s.W then some { s with pc := setPc s.pc w (.sent i true), chan := s.chan ++ [i] }
      else none
    | _ => none
  else none

/-- `send_next.swap(idx + 1)`, then back to the loop head, or thread exit after a failed send -/
def stepAdvance (s : PState) (w : Nat) : Option PState :=
  if w < s.W then
    match s.pc w with
    | .sent i ok => some { s with turn := i + 1, pc := setPc s.pc w (if ok then .idle else .exited) }
    | _ => none
  else none

def allExited (s : PState) : Bool := (List.range s.W).all (fun w => s.pc w == .exited)

def stepRecv (s : PState) : Option PState :=
  if s.dropped || s.closed then none else
  match s.chan with
  | x :: rest => some { s with chan := rest, recvd := s.recvd ++ [x] }
  | [] => none

/-- `rx.recv()` returns `Err` (the iterator yields `None`): every sender is gone and nothing is queued -/
def stepClose (s : PState) : Option PState :=
  if !s.dropped && !s.closed && s.chan.isEmpty && allExited s then some { s with closed := true } else none

def stepDrop (s : PState) : Option PState :=
  if s.dropped || s.closed then none else some { s with dropped := true }

def pstep (s : PState) : PAction → Option PState
  | .take w => stepTake s w
  | .compute w => stepCompute s w
  | .spin w => stepSpin s w
  | .send w => stepSend s w
  | .advance w => stepAdvance s w
  | .recv => stepRecv s
  | .close => stepClose s
  | .drop => stepDrop s

/-- run a schedule (sequence of actions); `none` if some action is not enabled -/
def prun (s : PState) : List PAction → Option PState
  | [] => some s
  | a :: as => match pstep s a with
    | some s' => prun s' as
    | none => none

/-- states reachable from the initial state of a pipe with `W` workers over the upstream `src` -/
inductive PReach (W : Nat) (src : Nat → Bool) : PState → Prop
  | init : PReach W src (PState.init W src)
  | step {s s' : PState} (a : PAction) : PReach W src s → pstep s a = some s' → PReach W src s'

/-- reachable over a fused upstream of `n` items -/
abbrev PReachF (W n : Nat) : PState → Prop := PReach W (fused n)

/-! ### `Buffered` (as repaired: the producer returns when the receiver is gone) -/

inductive BPC | idle | have (i : Nat) | exited
  deriving DecidableEq, Repr

structure BufState where
  B : Nat              -- channel capacity (`buffer_size`)
  n : Nat              -- upstream length
  pulled : Nat
  chan : List Nat
  recvd : List Nat
  dropped : Bool
  closed : Bool
  pc : BPC

def BufState.init (B n : Nat) : BufState :=
  { B := B, n := n, pulled := 0, chan := [], recvd := [], dropped := false, closed := false, pc := .idle }

inductive BAction | pull | send | recv | close | drop
  deriving DecidableEq, Repr

/-- with capacity 0 the channel is a rendezvous: a send completes only by handing the item to a
receiving consumer, which the model performs as one step -/
def bstep (s : BufState) : BAction → Option BufState
  | .pull => if s.pc = .idle then
      (if s.pulled < s.n then some { s with pc := .have s.pulled, pulled := s.pulled + 1 } else some { s with pc := .exited })
    else none
  | .send => match s.pc with
    | .have i =>
      if s.dropped then some { s with pc := .exited }
      else if s.B = 0 then (if s.closed then none else some { s with pc := .idle, recvd := s.recvd ++ [i] })
      else if s.chan.length < s.B then some { s with pc := .idle, chan := s.chan ++ [i] }
      else none
    | _ => none
  | .recv => if s.dropped || s.closed then none else
      match s.chan with
      | x :: rest => some { s with chan := rest, recvd := s.recvd ++ [x] }
      | [] => none
  | .close => if !s.dropped && !s.closed && s.chan.isEmpty && s.pc == .exited then some { s with closed := true } else none
  | .drop => if s.dropped || s.closed then none else some { s with dropped := true }

inductive BReach (B n : Nat) : BufState → Prop
  | init : BReach B n (BufState.init B n)
  | step {s s' : BufState} (a : BAction) : BReach B n s → bstep s a = some s' → BReach B n s'

end Tu
