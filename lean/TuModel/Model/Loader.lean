/-
  Model of the item selection of `TrainLoader::init_iter` (src/data/mod.rs):
  `data_iter.enumerate().take(limit).skip(skip + fast_forward + rank).step_by(world_size)`,
  of `min_items`, and of the per-item seed.  The remaining stages of the loader are the C07 model
  (multi-source generator), the C05 model (Pipe = sequential map), a FIFO identity (Buffered) and the
  C06 model (batching).
-/
import TuModel.Model.Basic
namespace Tu

/-- the global indices a loader processes; `limit = none` is unlimited -/
def selectIdx (N skip : Nat) (limit : Option Nat) (ff rank W : Nat) : List Nat :=
  let lim := match limit with | none => N | some l => min N l
  let start := skip + ff + rank
  (List.range lim).filter (fun i => decide (start ≤ i) && (i - start) % W == 0)

/-- lines that fail to parse keep their global index but are dropped AFTER the rank stride (`filter_map` comes
after `step_by`): the items a rank delivers are its selected indices without the invalid ones -/
def selectValid (N skip : Nat) (limit : Option Nat) (ff rank W : Nat) (invalid : List Nat) : List Nat :=
  (selectIdx N skip limit ff rank W).filter (fun i => !invalid.contains i)

/-- `min_items` -/
def minItems (N skip : Nat) (limit : Option Nat) : Nat :=
  (match limit with | none => N | some l => min N l) - skip

/-- the seed every item is processed with: a function of the global index only -/
def itemSeed (seed epoch idx : Nat) : Nat := seed + epoch + idx

end Tu
