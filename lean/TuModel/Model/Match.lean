/-
  Model of `text::match_words_with` and `edit::edited_words` (src/text.rs, src/edit.rs).
  Words are compared through keys (the word itself, or its lowercase form when `ignore_case`).
-/
import TuModel.Model.Basic
namespace Tu

inductive MOp | none | delete | insert | matched | unmatched
  deriving DecidableEq, Repr, Inhabited

/-- `Iterator::max_by` on the value: the *last* of the maximal elements -/
def maxByFst : List (Nat × MOp) → Nat × MOp
  | [] => (0, .none)
  | x :: xs => xs.foldl (fun m y => if m.1 ≤ y.1 then y else m) x

def mCandidates (eq : Bool) (dUp dLeft dDiag : Nat) : List (Nat × MOp) :=
  [(dUp, .delete), (dLeft, .insert), (dDiag + (if eq then 1 else 0), if eq then .matched else .unmatched)]

def mStep (a b : List (List Nat)) (get : Nat → Nat → Nat × MOp) : Nat → Nat → Nat × MOp
  | 0, 0 => (0, .unmatched)
  | _+1, 0 => (0, .delete)
  | 0, _+1 => (0, .insert)
  | i+1, j+1 => maxByFst (mCandidates (a.getD i [] == b.getD j []) (get i (j+1)).1 (get (i+1) j).1 (get i j).1)

def mGet (tbl : Array (Nat × MOp)) (cols i j : Nat) : Nat × MOp := tbl.getD (i * cols + j) (0, .none)

def mFill (a b : List (List Nat)) : Array (Nat × MOp) :=
  (List.range ((a.length + 1) * (b.length + 1))).foldl
    (fun tbl k => tbl.push (mStep a b (mGet tbl (b.length + 1)) (k / (b.length + 1)) (k % (b.length + 1)))) #[]

/-- backtrace; prepending while walking back yields the pairs in increasing order (the Rust code
pushes and reverses). `none` = the `panic!` branch or an index underflow. -/
def mBacktrace (tbl : Array (Nat × MOp)) (cols : Nat) : Nat → Nat → Nat → List (Nat × Nat) → Option (List (Nat × Nat))
  | 0, _, _, _ => none
  | fuel+1, i, j, acc =>
    if i = 0 ∧ j = 0 then some acc else
    match (mGet tbl cols i j).2 with
    | .none => none
    | .delete => if i ≥ 1 then mBacktrace tbl cols fuel (i-1) j acc else none
    | .insert => if j ≥ 1 then mBacktrace tbl cols fuel i (j-1) acc else none
    | .matched => if i ≥ 1 ∧ j ≥ 1 then mBacktrace tbl cols fuel (i-1) (j-1) ((i-1, j-1) :: acc) else none
    | .unmatched => if i ≥ 1 ∧ j ≥ 1 then mBacktrace tbl cols fuel (i-1) (j-1) acc else none

/-- `match_words_with` on the key sequences of the two texts -/
def matchWords (a b : List (List Nat)) : Option (List (Nat × Nat)) :=
  mBacktrace (mFill a b) (b.length + 1) (a.length + b.length + 1) a.length b.length []

/-- `edited_words`: the word indices not touched by the matching -/
def editedWords (aLen bLen : Nat) (m : List (Nat × Nat)) : List Nat × List Nat :=
  ((List.range aLen).filter (fun i => !(m.map Prod.fst).contains i),
   (List.range bLen).filter (fun j => !(m.map Prod.snd).contains j))

/-- strictly increasing in both coordinates -/
def pairsIncreasing : List (Nat × Nat) → Bool
  | [] => true
  | [_] => true
  | p :: q :: rest => p.1 < q.1 && p.2 < q.2 && pairsIncreasing (q :: rest)

/-- is `m` an answer `match_words` may give for the key sequences `a`, `b`?  (The property asks for index
pairs strictly increasing in both coordinates whose words are equal and whose number is the length of a
longest common subsequence; among several longest matchings it fixes none.)  The LCS length is the length
of the modelled function's own result (`lcs_attained`). -/
def matchAccept (a b : List (List Nat)) (m : List (Nat × Nat)) : Bool :=
  pairsIncreasing m &&
  m.all (fun p => p.1 < a.length && p.2 < b.length && a.getD p.1 [] == b.getD p.2 []) &&
  m.length == ((matchWords a b).getD []).length

/-- `char::is_ascii_whitespace` -/
def isAsciiWs (c : Nat) : Bool := c == 9 || c == 10 || c == 12 || c == 13 || c == 32

/-- `str::split_ascii_whitespace` on code points -/
def splitAsciiWsAux : List Nat → List Nat → List (List Nat)
  | [], cur => if cur.isEmpty then [] else [cur.reverse]
  | c :: cs, cur =>
    if isAsciiWs c then (if cur.isEmpty then splitAsciiWsAux cs [] else cur.reverse :: splitAsciiWsAux cs [])
    else splitAsciiWsAux cs (c :: cur)
def splitAsciiWs (s : List Nat) : List (List Nat) := splitAsciiWsAux s []

end Tu
