/-
  Model of `train_bpe` (src/tokenization.rs) at the level of the property: the written table must be
  what a greedy trainer can produce from the word counts of the corpus — entry `i` is the
  concatenation of an adjacent token pair of positive, maximal frequency in the corpus as segmented
  by the merges `0..i-1` (`replace_pair_in_word`), and training stops after `n` merges or when no
  pair occurs any more.  Ties between equally frequent pairs are broken by `HashMap` order in the
  code, so the model is the relation `greedyTable`, replayed on the table the code wrote.
-/
import TuModel.Model.Bpe
namespace Tu

abbrev Corpus := List (List (List Nat) × Nat)      -- (word as token list, count)

def initCorpus (words : List (List Nat × Nat)) : Corpus := words.map (fun (w, c) => (w.map (fun b => [b]), c))

/-- all adjacent pairs of one word -/
def wordPairs : List (List Nat) → List (List Nat × List Nat)
  | a :: b :: rest => (a, b) :: wordPairs (b :: rest)
  | _ => []

/-- `byte_pair_stats`: total frequency of a pair = Σ over words of count × number of adjacent occurrences -/
def pairFreq (c : Corpus) (p : List Nat × List Nat) : Nat :=
  (c.map (fun (w, n) => n * ((wordPairs w).filter (· == p)).length)).sum

def allPairs (c : Corpus) : List (List Nat × List Nat) := (c.flatMap (fun (w, _) => wordPairs w)).eraseDups

def maxPairFreq (c : Corpus) : Nat := ((allPairs c).map (pairFreq c)).foldl max 0

/-- `replace_pair_in_word`: left to right, a merged token is not merged again in the same pass -/
def replacePairAux (x y : List Nat) : List (List Nat) → List (List Nat) → List (List Nat)
  | [], acc => acc.reverse
  | s :: rest, [] => replacePairAux x y rest [s]
  | s :: rest, last :: acc =>
    if last == x && s == y then replacePairAux x y rest ((last ++ s) :: acc)
    else replacePairAux x y rest (s :: last :: acc)

def replacePairInWord (w : List (List Nat)) (x y : List Nat) : List (List Nat) := replacePairAux x y w []

def applyMerge (c : Corpus) (p : List Nat × List Nat) : Corpus := c.map (fun (w, n) => (replacePairInWord w p.1 p.2, n))

/-- replay the entries (in id order); returns every corpus state the code may be in afterwards
(several if two maximal pairs concatenate to the same bytes) -/
def greedyReplay : Corpus → List (List Nat) → List Corpus
  | c, [] => [c]
  | c, e :: es =>
    let m := maxPairFreq c
    if m = 0 then [] else
    let cands := (allPairs c).filter (fun p => p.1 ++ p.2 == e && pairFreq c p == m)
    cands.flatMap (fun p => greedyReplay (applyMerge c p) es)

/-- entries of a table in id order, if its ids are exactly `0..m-1` -/
def entriesInOrder (t : MTable) : Option (List (List Nat)) :=
  (List.range t.length).mapM (fun k => tbytes t k)

/-- the table is a possible result of greedy training with at most `n` merges -/
def greedyTable (words : List (List Nat × Nat)) (n : Nat) (t : MTable) : Bool :=
  match entriesInOrder t with
  | none => false
  | some es =>
    t.length ≤ n && decide (es.Nodup) &&
    (greedyReplay (initCorpus words) es).any (fun c => es.length == n || maxPairFreq c == 0)

/-! ### the trainer's internal state (observed through the hook `verif_train_steps`) -/

/-- number of adjacent occurrences of `p` in one word (overlapping occurrences count, as in `byte_pair_stats`) -/
def wordPairCount (w : List (List Nat)) (p : List Nat × List Nat) : Nat := ((wordPairs w).filter (· == p)).length

/-- a snapshot of `BytePairStats`: pair, frequency, per-word occurrence counters -/
abbrev StatsObs := List ((List Nat × List Nat) × Nat × List (Nat × Nat))

/-- do the statistics describe the corpus exactly?  Every entry carries the recounted frequency and per-word
counters (a missing counter is 0), no pair has two entries, and every pair that occurs has an entry. -/
def statsExact (c : Corpus) (st : StatsObs) : Bool :=
  st.all (fun e =>
    e.2.1 == pairFreq c e.1 &&
    e.2.2.all (fun io => io.1 < c.length) &&
    (List.range c.length).all (fun i =>
      ((e.2.2.find? (fun io => io.1 == i)).map (·.2)).getD 0 == wordPairCount (c.getD i ([], 0)).1 e.1)) &&
  ((st.map (·.1)).eraseDups.length == st.length) &&
  (allPairs c).all (fun p => st.any (fun e => e.1 == p))

/-- replay of the observed steps: the chosen pair is a most frequent one, the vocabulary is the corpus re-segmented
with it, and the statistics stay exact.  `some k` = the first step that fails (with a reason code). -/
def stepsReplay : Corpus → List ((List Nat × List Nat) × StatsObs × List (List (List Nat))) → Nat → Option (Nat × Nat)
  | _, [], _ => none
  | c, (p, st, vocab) :: rest, k =>
    if !(0 < pairFreq c p && pairFreq c p == maxPairFreq c) then some (k, 1)
    else
      let c' := applyMerge c p
      if c'.map (·.1) != vocab then some (k, 2)
      else if !statsExact c' st then some (k, 3)
      else stepsReplay c' rest (k + 1)

def corpusAfter : Corpus → List (List Nat × List Nat) → Corpus
  | c, [] => c
  | c, p :: ps => corpusAfter (applyMerge c p) ps

end Tu
