/-
  Model of `train_bpe` (src/tokenization.rs) at the level of the property: the written table must be
  what a greedy trainer can produce from the word counts of the corpus — entry `i` is the
  concatenation of an adjacent token pair of positive, maximal frequency in the corpus as segmented
  by the merges `0..i-1` (`replace_pair_in_word`), and training stops after `n` merges or when no
  pair occurs any more.  Ties between equally frequent pairs are broken by `HashMap` order in the
  code, so the model is the relation `greedyTable`, replayed on the table the code wrote.
-/
import TuModel.Model.Bpe
namespace Tu

abbrev Corpus := List (List (List Nat) × Nat)      -- (word as token list, count)

def initCorpus (words : List (List Nat × Nat)) : Corpus := words.map (fun (w, c) => (w.map (fun b => [b]), c))

/-- all adjacent pairs of one word -/
def wordPairs : List (List Nat) → List (List Nat × List Nat)
  | a :: b :: rest => (a, b) :: wordPairs (b :: rest)
  | _ => []

/-- `byte_pair_stats`: total frequency of a pair = Σ over words of count × number of adjacent occurrences -/
def pairFreq (c : Corpus) (p : List Nat × List Nat) : Nat :=
  (c.map (fun (w, n) => n * ((wordPairs w).filter (· == p)).length)).sum

def allPairs (c : Corpus) : List (List Nat × List Nat) := (c.flatMap (fun (w, _) => wordPairs w)).eraseDups

def maxPairFreq (c : Corpus) : Nat := ((allPairs c).map (pairFreq c)).foldl max 0

/-- `replace_pair_in_word`: left to right, a merged token is not merged again in the same pass -/
def replacePairAux (x y : List Nat) : List (List Nat) → List (List Nat) → List (List Nat)
  | [], acc => acc.reverse
  | s :: rest, [] => replacePairAux x y rest [s]
  | s :: rest, last :: acc =>
    if last == x && s == y then replacePairAux x y rest ((last ++ s) :: acc)
    else replacePairAux x y rest (s :: last :: acc)

def replacePairInWord (w : List (List Nat)) (x y : List Nat) : List (List Nat) := replacePairAux x y w []

def applyMerge (c : Corpus) (p : List Nat × List Nat) : Corpus := c.map (fun (w, n) => (replacePairInWord w p.1 p.2, n))

/-- replay the entries (in id order); returns every corpus state the code may be in afterwards
(several if two maximal pairs concatenate to the same bytes) -/
def greedyReplay : Corpus → List (List Nat) → List Corpus
  | c, [] => [c]
  | c, e :: es =>
    let m := maxPairFreq c
    if m = 0 then [] else
    let cands := (allPairs c).filter (fun p => p.1 ++ p.2 == e && pairFreq c p == m)
    cands.flatMap (fun p => greedyReplay (applyMerge c p) es)

/-- entries of a table in id order, if its ids are exactly `0..m-1` -/
def entriesInOrder (t : MTable) : Option (List (List Nat)) :=
  (List.range t.length).mapM (fun k => tbytes t k)

/-- the table is a possible result of greedy training with at most `n` merges -/
def greedyTable (words : List (List Nat × Nat)) (n : Nat) (t : MTable) : Bool :=
  match entriesInOrder t with
  | none => false
  | some es =>
    t.length ≤ n && decide (es.Nodup) &&
    (greedyReplay (initCorpus words) es).any (fun c => es.length == n || maxPairFreq c == 0)

end Tu
