/-
  Model of `windows::char`, `windows::byte`, `windows::windows` (src/windows.rs) over the list of
  cluster byte lengths of the text (`CharString::get_char_byte_lengths`).
-/
import TuModel.Model.Basic
namespace Tu

structure Win where
  ctxStart : Nat
  wStart : Nat
  wEnd : Nat
  ctxEnd : Nat
  bCtxStart : Nat
  bWStart : Nat
  bWEnd : Nat
  bCtxEnd : Nat
  deriving DecidableEq, Repr

inductive WinErr | badConfig | tooWide | noProgress
  deriving DecidableEq, Repr

/-- byte offset of character position `k`: what `char_range_to_byte_range` computes from the
run-length encoded cluster lengths -/
def byteOf (lens : List Nat) (k : Nat) : Nat := (lens.take k).sum

def mkWin (lens : List Nat) (cs ws we ce : Nat) : Win :=
  { ctxStart := cs, wStart := ws, wEnd := we, ctxEnd := ce,
    bCtxStart := byteOf lens cs, bWStart := byteOf lens ws, bWEnd := byteOf lens we, bCtxEnd := byteOf lens ce }

/-- `max_length - (1 + usize::from(window_start > 0)) * context_length` -/
def winLen (maxLen ctx ws : Nat) : Nat := if ws = 0 then maxLen - ctx else maxLen - 2 * ctx

/-- the `while window_start < cs.len()` loop of `char`.  The `noProgress` branch does not exist in
the code (there the loop would not advance); `C16.charLoop_progress` proves it unreachable for
valid configurations. -/
def charLoop (lens : List Nat) (maxLen ctx : Nat) (ws : Nat) : Except WinErr (List Win) :=
  if _h : ws < lens.length then
    let wl := winLen maxLen ctx ws
    let cs := ws - ctx
    let ce := min lens.length (ws + wl + ctx)
    let we := min lens.length (ws + wl)
    if _hp : we ≤ ws then .error .noProgress
    else
      match charLoop lens maxLen ctx we with
      | .ok rest => .ok (mkWin lens cs ws we ce :: rest)
      | .error e => .error e
  else .ok []
termination_by lens.length - ws
decreasing_by omega

def emptyWin : Win := mkWin [] 0 0 0 0

def charWindows (lens : List Nat) (maxLen ctx : Nat) : Except WinErr (List Win) :=
  if lens.isEmpty then .ok [emptyWin]
  else if maxLen ≤ 2 * ctx then .error .badConfig
  else charLoop lens maxLen ctx 0

/-- `count_until`: how many of the given characters (in iteration order) fit into `m` bytes -/
def countUntil : List Nat → Nat → Nat
  | [], _ => 0
  | l :: ls, m => if l > m then 0 else 1 + countUntil ls (m - l)

def byteLoop (lens : List Nat) (maxB ctx : Nat) (ws : Nat) : Except WinErr (List Win) :=
  if _h : ws < lens.length then
    let wl := winLen maxB ctx ws
    let cnt := countUntil (lens.drop ws) wl
    let we := ws + cnt
    if _hp : cnt = 0 then .error .tooWide
    else
      let cs := ws - countUntil (lens.take ws).reverse ctx
      let ce := we + countUntil (lens.drop we) ctx
      match byteLoop lens maxB ctx we with
      | .ok rest => .ok (mkWin lens cs ws we ce :: rest)
      | .error e => .error e
  else .ok []
termination_by lens.length - ws
decreasing_by
  show lens.length - (ws + cnt) < lens.length - ws
  omega

def byteWindows (lens : List Nat) (maxB ctx : Nat) : Except WinErr (List Win) :=
  if lens.isEmpty then .ok [emptyWin]
  else if maxB ≤ 2 * ctx then .error .badConfig
  else byteLoop lens maxB ctx 0

def fullWindows (lens : List Nat) : List Win := [mkWin lens 0 0 lens.length lens.length]

/-! ### relational acceptance: the property does not fix the window lengths -/

/-- the windows partition `[ws, n)`: each starts where the previous ended, none is empty, the last ends at `n` -/
def tilesB (n : Nat) : Nat → List Win → Bool
  | ws, [] => ws == n
  | ws, w :: rest => w.wStart == ws && decide (w.wStart < w.wEnd) && decide (w.wEnd ≤ n) && tilesB n w.wEnd rest

/-- the context contains its window, lies inside the text, and the byte fields are the byte offsets of the
character fields -/
def ctxOkB (lens : List Nat) (w : Win) : Bool :=
  decide (w.ctxStart ≤ w.wStart) && decide (w.wEnd ≤ w.ctxEnd) && decide (w.ctxEnd ≤ lens.length) &&
  w.bCtxStart == byteOf lens w.ctxStart && w.bWStart == byteOf lens w.wStart &&
  w.bWEnd == byteOf lens w.wEnd && w.bCtxEnd == byteOf lens w.ctxEnd

/-- the function model's answer for the three kinds (0 characters, 1 bytes, 2 full) -/
def windowsModel (kind : Nat) (lens : List Nat) (maxLen ctx : Nat) : Except WinErr (List Win) :=
  match kind with
  | 0 => charWindows lens maxLen ctx
  | 1 => byteWindows lens maxLen ctx
  | _ => if lens.isEmpty then .ok [emptyWin] else .ok (fullWindows lens)

/-- is the observation (`some windows`, or `none` = an error) an answer `windows(s, cfg)` may give for a NON-EMPTY
text?  The property: the windows tile the characters, every context contains its window and stays within the
configured maximum, byte and character boundaries denote the same positions; an impossible configuration
(`max ≤ 2·context`) or a character that cannot fit yields an error.  How long the windows are is not fixed, so a
character wider than `max − 2·context` bytes may either be refused or (if the window it falls into is long
enough) accepted. -/
def windowsAccept (kind : Nat) (lens : List Nat) (maxLen ctx : Nat) (obs : Option (List Win)) : Bool :=
  match obs with
  | some ws =>
    (kind ≥ 2 || decide (2 * ctx < maxLen)) &&
    tilesB lens.length 0 ws && ws.all (ctxOkB lens) &&
    (match kind with
     | 0 => ws.all (fun w => decide (w.ctxEnd - w.ctxStart ≤ maxLen))
     | 1 => ws.all (fun w => decide (w.bCtxEnd - w.bCtxStart ≤ maxLen))
     | _ => ws.length == 1)
  | none =>
    kind < 2 && (decide (maxLen ≤ 2 * ctx) || (kind == 1 && lens.any (fun l => decide (maxLen - 2 * ctx < l))))

end Tu
