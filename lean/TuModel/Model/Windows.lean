/-
  Model of `windows::char`, `windows::byte`, `windows::windows` (src/windows.rs) over the list of
  cluster byte lengths of the text (`CharString::get_char_byte_lengths`).
-/
import TuModel.Model.Basic
namespace Tu

structure Win where
  ctxStart : Nat
  wStart : Nat
  wEnd : Nat
  ctxEnd : Nat
  bCtxStart : Nat
  bWStart : Nat
  bWEnd : Nat
  bCtxEnd : Nat
  deriving DecidableEq, Repr

inductive WinErr | badConfig | tooWide | noProgress
  deriving DecidableEq, Repr

/-- byte offset of character position `k`: what `char_range_to_byte_range` computes from the
run-length encoded cluster lengths -/
def byteOf (lens : List Nat) (k : Nat) : Nat := (lens.take k).sum

def mkWin (lens : List Nat) (cs ws we ce : Nat) : Win :=
  { ctxStart := cs, wStart := ws, wEnd := we, ctxEnd := ce,
    bCtxStart := byteOf lens cs, bWStart := byteOf lens ws, bWEnd := byteOf lens we, bCtxEnd := byteOf lens ce }

/-- `max_length - (1 + usize::from(window_start > 0)) * context_length` -/
def winLen (maxLen ctx ws : Nat) : Nat := if ws = 0 then maxLen - ctx else maxLen - 2 * ctx

/-- the `while window_start < cs.len()` loop of `char`.  The `noProgress` branch does not exist in
the code (there the loop would not advance); `C16.charLoop_progress` proves it unreachable for
valid configurations. -/
def charLoop (lens : List Nat) (maxLen ctx : Nat) (ws : Nat) : Except WinErr (List Win) :=
  if _h : ws < lens.length then
    let wl := winLen maxLen ctx ws
    let cs := ws - ctx
    let ce := min lens.length (ws + wl + ctx)
    let we := min lens.length (ws + wl)
    if _hp : we ≤ ws then .error .noProgress
    else
      match charLoop lens maxLen ctx we with
      | .ok rest => .ok (mkWin lens cs ws we ce :: rest)
      | .error e => .error e
  else .ok []
termination_by lens.length - ws
decreasing_by omega

def emptyWin : Win := mkWin [] 0 0 0 0

def charWindows (lens : List Nat) (maxLen ctx : Nat) : Except WinErr (List Win) :=
  if lens.isEmpty then .ok [emptyWin]
  else if maxLen ≤ 2 * ctx then .error .badConfig
  else charLoop lens maxLen ctx 0

/-- `count_until`: how many of the given characters (in iteration order) fit into `m` bytes -/
def countUntil : List Nat → Nat → Nat
  | [], _ => 0
  | l :: ls, m => if l > m then 0 else 1 + countUntil ls (m - l)

def byteLoop (lens : List Nat) (maxB ctx : Nat) (ws : Nat) : Except WinErr (List Win) :=
  if _h : ws < lens.length then
    let wl := winLen maxB ctx ws
    let cnt := countUntil (lens.drop ws) wl
    let we := ws + cnt
    if _hp : cnt = 0 then .error .tooWide
    else
      let cs := ws - countUntil (lens.take ws).reverse ctx
      let ce := we + countUntil (lens.drop we) ctx
      match byteLoop lens maxB ctx we with
      | .ok rest => .ok (mkWin lens cs ws we ce :: rest)
      | .error e => .error e
  else .ok []
termination_by lens.length - ws
decreasing_by
  show lens.length - (ws + cnt) < lens.length - ws
  omega

def byteWindows (lens : List Nat) (maxB ctx : Nat) : Except WinErr (List Win) :=
  if lens.isEmpty then .ok [emptyWin]
  else if maxB ≤ 2 * ctx then .error .badConfig
  else byteLoop lens maxB ctx 0

def fullWindows (lens : List Nat) : List Win := [mkWin lens 0 0 lens.length lens.length]

end Tu
