/-
  C02 — BPE tokenisation only regroups bytes: for every well-formed merge table and every word of
  bytes the ids produced by the merge loop (`Tu.mergeWordImpl`) decode, token by token, to byte
  strings whose concatenation is the word, and every id is a vocabulary id (`< 256 + |table|`);
  the words produced by the splitter (`\s+\S+|^\S+`, `Tu.splitWords`) concatenate to the text
  without its trailing white space.

  Proofs: Lemmas/BpeL5 (`mergeWordSpec_concat`, on top of C03's `mergeWordImpl = mergeWordSpec`)
  and Lemmas/SplitL (`splitWords_flatten`).
-/
import TuModel.Lemmas.BpeL5
import TuModel.Lemmas.SplitL
namespace Tu.C02
open Tu

/-- bytes of a token id of the BPE vocabulary: single bytes, then table entries by merge id -/
def idBytes (t : MTable) (id : Nat) : List Nat := if id < 256 then [id] else (tbytes t (id - 256)).getD []

/-- the merge loop only regroups bytes: the token byte strings concatenate to the word -/
theorem mergeWordImpl_concat (t : MTable) (w : List Nat) (hwf : wfTable t = true) (hw : ∀ b ∈ w, b < 256) :
    ∃ ids, mergeWordImpl t w = some ids ∧ ids.flatMap (idBytes t) = w ∧ ∀ id ∈ ids, id < 256 + t.length := by
  obtain ⟨heq, hsome⟩ := mergeWordImpl_eq_spec' t w hwf hw
  obtain ⟨ids, hids⟩ := Option.isSome_iff_exists.mp hsome
  obtain ⟨h1, h2⟩ := mergeWordSpec_concat hwf w hw ids (by rw [← heq]; exact hids)
  exact ⟨ids, hids, h1, h2⟩

/-- `idBytes` agrees with the model's vocabulary function on vocabulary ids -/
theorem idBytes_eq_bpeIdBytes (cfg : BpeCfg) (id : Nat) (b : List Nat) (h : bpeIdBytes cfg id = some b) :
    idBytes cfg.table id = b := by
  unfold bpeIdBytes at h
  unfold idBytes
  by_cases h1 : id < 256
  · rw [if_pos h1] at h ⊢; simpa using h
  · rw [if_neg h1] at h ⊢
    by_cases h2 : id < 256 + cfg.table.length
    · rw [if_pos h2] at h; rw [h]; rfl
    · rw [if_neg h2] at h; simp at h

/-- words produced by the splitter concatenate to the text without its trailing whitespace -/
def dropTrailingWs (s : List Nat) : List Nat := (s.reverse.dropWhile isWsCp).reverse

theorem splitWords_flatten (s : List Nat) : (splitWords s).flatten = dropTrailingWs s :=
  Tu.splitWords_flatten s

/-! non-vacuity -/
example : wfTable [([97, 98], 0), ([99, 100], 1), ([97, 98, 99], 2), ([97, 98, 99, 100], 3)] = true := by decide
example : mergeWordImpl [([97, 98], 0), ([99, 100], 1), ([97, 98, 99], 2), ([97, 98, 99, 100], 3)]
    [97, 98, 99, 100] = some [259] := by decide
example : [259].flatMap (idBytes [([97, 98], 0), ([99, 100], 1), ([97, 98, 99], 2), ([97, 98, 99, 100], 3)])
    = [97, 98, 99, 100] := by decide
example : ∃ ids, mergeWordImpl [([97, 98], 0), ([99, 100], 1), ([97, 98, 99], 2), ([97, 98, 99, 100], 3)]
    [97, 98, 99, 100, 97, 98] = some ids ∧
    ids.flatMap (idBytes [([97, 98], 0), ([99, 100], 1), ([97, 98, 99], 2), ([97, 98, 99, 100], 3)])
      = [97, 98, 99, 100, 97, 98] ∧ ∀ id ∈ ids, id < 256 + 4 :=
  mergeWordImpl_concat _ _ (by decide) (by decide)
example : (splitWords [32, 97, 98, 32, 32, 99, 32]).flatten = [32, 97, 98, 32, 32, 99] := by
  rw [splitWords_flatten]; decide

end Tu.C02
