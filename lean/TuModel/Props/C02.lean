/-
  C02 — BPE tokenisation only regroups bytes: for every well-formed merge table and every word of
  bytes the ids produced by the merge loop (`Tu.mergeWordImpl`) decode, token by token, to byte
  strings whose concatenation is the word, and every id is a vocabulary id (`< 256 + |table|`);
  the words produced by the splitter (`\s+\S+|^\S+`, `Tu.splitWords`) concatenate to the text
  without its trailing white space.

  Proofs: Lemmas/BpeL5 (`mergeWordSpec_concat`, on top of C03's `mergeWordImpl = mergeWordSpec`)
  and Lemmas/SplitL (`splitWords_flatten`).

  End to end (Lemmas/BpeE2E): `bpe_roundtrip` — for every configuration accepted by `mkBpeCfg`
  (any `max_vocab_size`), `tokenize` then `de_tokenize` (special tokens ignored) returns the text
  without its trailing white space, as valid UTF-8, and every emitted id is a vocabulary id.
-/
import TuModel.Lemmas.BpeL5
import TuModel.Lemmas.SplitL
import TuModel.Lemmas.BpeE2E
namespace Tu.C02
open Tu

/-- bytes of a token id of the BPE vocabulary: single bytes, then table entries by merge id -/
def idBytes (t : MTable) (id : Nat) : List Nat := if id < 256 then [id] else (tbytes t (id - 256)).getD []

/-- the merge loop only regroups bytes: the token byte strings concatenate to the word -/
theorem mergeWordImpl_concat (t : MTable) (w : List Nat) (hwf : wfTable t = true) (hw : ∀ b ∈ w, b < 256) :
    ∃ ids, mergeWordImpl t w = some ids ∧ ids.flatMap (idBytes t) = w ∧ ∀ id ∈ ids, id < 256 + t.length := by
  obtain ⟨heq, hsome⟩ := mergeWordImpl_eq_spec' t w hwf hw
  obtain ⟨ids, hids⟩ := Option.isSome_iff_exists.mp hsome
  obtain ⟨h1, h2⟩ := mergeWordSpec_concat hwf w hw ids (by rw [← heq]; exact hids)
  exact ⟨ids, hids, h1, h2⟩

/-- `idBytes` agrees with the model's vocabulary function on vocabulary ids -/
theorem idBytes_eq_bpeIdBytes (cfg : BpeCfg) (id : Nat) (b : List Nat) (h : bpeIdBytes cfg id = some b) :
    idBytes cfg.table id = b := by
  unfold bpeIdBytes at h
  unfold idBytes
  by_cases h1 : id < 256
  · rw [if_pos h1] at h ⊢; simpa using h
  · rw [if_neg h1] at h ⊢
    by_cases h2 : id < 256 + cfg.table.length
    · rw [if_pos h2] at h; rw [h]; rfl
    · rw [if_neg h2] at h; simp at h

/-- words produced by the splitter concatenate to the text without its trailing whitespace -/
def dropTrailingWs (s : List Nat) : List Nat := (s.reverse.dropWhile isWsCp).reverse

theorem splitWords_flatten (s : List Nat) : (splitWords s).flatten = dropTrailingWs s :=
  Tu.splitWords_flatten s

/-! non-vacuity -/
example : wfTable [([97, 98], 0), ([99, 100], 1), ([97, 98, 99], 2), ([97, 98, 99, 100], 3)] = true := by decide
example : mergeWordImpl [([97, 98], 0), ([99, 100], 1), ([97, 98, 99], 2), ([97, 98, 99, 100], 3)]
    [97, 98, 99, 100] = some [259] := by decide
example : [259].flatMap (idBytes [([97, 98], 0), ([99, 100], 1), ([97, 98, 99], 2), ([97, 98, 99, 100], 3)])
    = [97, 98, 99, 100] := by decide
example : ∃ ids, mergeWordImpl [([97, 98], 0), ([99, 100], 1), ([97, 98, 99], 2), ([97, 98, 99, 100], 3)]
    [97, 98, 99, 100, 97, 98] = some ids ∧
    ids.flatMap (idBytes [([97, 98], 0), ([99, 100], 1), ([97, 98, 99], 2), ([97, 98, 99, 100], 3)])
      = [97, 98, 99, 100, 97, 98] ∧ ∀ id ∈ ids, id < 256 + 4 :=
  mergeWordImpl_concat _ _ (by decide) (by decide)
example : (splitWords [32, 97, 98, 32, 32, 99, 32]).flatten = [32, 97, 98, 32, 32, 99] := by
  rw [splitWords_flatten]; decide

/-! ### end to end: `tokenize` then `de_tokenize` -/

/-- the UTF-8 encoding of scalar values is valid UTF-8 and consists of bytes -/
theorem utf8_bytes (c : Nat) (hc : isScalar c = true) : ∀ b ∈ utf8 c, b < 256 :=
  Tu.utf8_bytes' c hc

theorem validUtf8_utf8 (cps : List Nat) (h : ∀ c ∈ cps, isScalar c = true) :
    validUtf8 (cps.flatMap utf8) = true :=
  Tu.validUtf8_utf8' cps h

/-- truncation by max_vocab_size keeps a well-formed table well-formed -/
theorem truncateTable_wf (t : MTable) (mv : Option Nat) (k : Nat) (h : wfTable t = true) :
    wfTable (truncateTable t mv k) = true :=
  Tu.truncateTable_wf' t mv k h

theorem dropTrailingWs_mem (cps : List Nat) (c : Nat) (h : c ∈ dropTrailingWs cps) : c ∈ cps :=
  Tu.mem_dropTrailing cps c h

/-- text level: the ids of a text decode to the text without its trailing whitespace -/
theorem mergeText_decode (t : MTable) (hwf : wfTable t = true) (cps : List Nat)
    (hs : ∀ c ∈ cps, isScalar c = true) :
    ∃ ids, mergeText t cps = some ids ∧ ids.flatMap (idBytes t) = (dropTrailingWs cps).flatMap utf8 ∧
      ∀ id ∈ ids, id < 256 + t.length := by
  have hw : ∀ w ∈ splitWords cps, ∃ ids, mergeWordImpl t (w.flatMap utf8) = some ids ∧
      ids.flatMap (idBytes t) = w.flatMap utf8 ∧ ∀ id ∈ ids, id < 256 + t.length := by
    intro w hw
    apply mergeWordImpl_concat t (w.flatMap utf8) hwf
    intro b hb
    obtain ⟨c, hc, hbc⟩ := List.mem_flatMap.mp hb
    have hc' : c ∈ (splitWords cps).flatten := List.mem_flatten.mpr ⟨w, hw, hc⟩
    rw [splitWords_flatten] at hc'
    exact utf8_bytes c (hs c (dropTrailingWs_mem cps c hc')) b hbc
  obtain ⟨idss, h1, h2, h3⟩ := mapM_flatten_decode (fun w => mergeWordImpl t (w.flatMap utf8)) (idBytes t)
    (fun w => w.flatMap utf8) (fun id => id < 256 + t.length) (splitWords cps) hw
  refine ⟨idss.flatten, ?_, ?_, h3⟩
  · unfold mergeText; rw [h1]; rfl
  · rw [h2, flatMap_flatten_utf8, splitWords_flatten]

/-- **BPE tokenization is lossless**: for every configuration accepted by the constructor (well-formed table, any
max_vocab_size, prefix / suffix lists), tokenizing a text with special tokens ignored and decoding with special tokens
ignored returns the text without its trailing whitespace, as valid UTF-8; every emitted id is a vocabulary id -/
theorem bpe_roundtrip (t : MTable) (mv : Option Nat) (tokens : List (List Nat)) (pad : List Nat) (pre suf : List (List Nat))
    (cfg : BpeCfg) (hcfg : mkBpeCfg t mv tokens pad pre suf = some cfg) (hwf : wfTable t = true)
    (cps : List Nat) (hs : ∀ c ∈ cps, isScalar c = true) :
    ∃ ids, bpeTokenize cfg [Sum.inl cps] = some ids ∧
      bpeDetok cfg ids true = some ((dropTrailingWs cps).flatMap utf8) ∧ ∀ id ∈ ids, id < bpeVocabSize cfg := by
  obtain ⟨htab, hsp⟩ := mkBpeCfg_spec hcfg
  have hwf' : wfTable cfg.table = true := by rw [htab]; exact truncateTable_wf t mv _ hwf
  obtain ⟨ho, _, hpre, hsuf, _⟩ := mkSpecial_ids hsp
  obtain ⟨m, hm1, hm2, hm3⟩ := mergeText_decode cfg.table hwf' cps hs
  refine ⟨cfg.sp.prefixIds ++ m ++ cfg.sp.suffixIds, ?_, ?_, ?_⟩
  · simp [bpeTokenize, hm1]
  · have e1 : bpeDetokBytes cfg true cfg.sp.prefixIds = some [] :=
      bpeDetokBytes_skip cfg _ (fun id hid => by have := (hpre id hid).1; omega)
    have e2 : bpeDetokBytes cfg true cfg.sp.suffixIds = some [] :=
      bpeDetokBytes_skip cfg _ (fun id hid => by have := (hsuf id hid).1; omega)
    have e3 : bpeDetokBytes cfg true m = some (m.flatMap (idBytes cfg.table)) :=
      bpeDetokBytes_regular cfg true (tbytes_isSome_of_wf hwf') m hm3
    have e : bpeDetokBytes cfg true (cfg.sp.prefixIds ++ m ++ cfg.sp.suffixIds)
        = some ((dropTrailingWs cps).flatMap utf8) := by
      rw [bpeDetokBytes_append, bpeDetokBytes_append, e1, e2, e3, hm2]; simp
    have hv : validUtf8 ((dropTrailingWs cps).flatMap utf8) = true :=
      validUtf8_utf8 _ (fun c hc => hs c (dropTrailingWs_mem cps c hc))
    unfold bpeDetok
    rw [e]; simp [hv]
  · intro id hid
    unfold bpeVocabSize
    simp only [List.mem_append] at hid
    rcases hid with (hid | hid) | hid
    · have := special_id_lt cfg.sp id (hpre id hid).2; omega
    · have := hm3 id hid; omega
    · have := special_id_lt cfg.sp id (hsuf id hid).2; omega

/-! non-vacuity of the end-to-end statement -/
example : ∃ cfg, mkBpeCfg [([97, 98], 0), ([99, 100], 1), ([97, 98, 99], 2), ([97, 98, 99, 100], 3)] (some 260)
    [[60, 115, 62], [60, 112, 62]] [60, 112, 62] [[60, 115, 62]] [[60, 112, 62]] = some cfg ∧
    bpeTokenize cfg [Sum.inl [97, 98, 99, 100, 32, 233, 32]] = some [258, 256, 257, 32, 195, 169, 259] ∧
    bpeDetok cfg [258, 256, 257, 32, 195, 169, 259] true = some [97, 98, 99, 100, 32, 195, 169] := by
  refine ⟨_, rfl, ?_, ?_⟩ <;> decide

end Tu.C02
