/-
  C17 — token groups, group weights, the sparse COO matrix and padding.
  Model: `Tu.groupWeights`, `Tu.sparseCoo`, `Tu.paddingMask`, `Tu.padIds` (Model/Groups.lean),
  `Tu.byteGroups` (Model/ByteTok.lean).
-/
import TuModel.Model.Groups
import TuModel.Lemmas.GroupsL
namespace Tu.C17
open Tu

/-- value equality of two fractions -/
def Q.eqv (a b : Q) : Prop := a.num * b.den = b.num * a.den
/-- exact sum of a list of fractions -/
def qsum (l : List Q) : Q := l.foldl Q.add Q.zero

instance (a b : Q) : Decidable (Q.eqv a b) := inferInstanceAs (Decidable (_ = _))

/-! ### group weights -/

/-- one weight per token of the group -/
theorem groupWeights_length (mean : Bool) (g : TGroup) : (groupWeights mean g).length = g.len :=
  GroupsL.groupWeights_length mean g

/-- sum aggregation: all ones -/
theorem groupWeights_sum_mode (g : TGroup) : ∀ w ∈ groupWeights false g, w = Q.one := by
  intro w hw
  cases g with
  | full n =>
    simp only [groupWeights, Bool.false_eq_true, if_false] at hw
    exact (List.mem_replicate.1 hw).2
  | nested gs =>
    simp only [groupWeights, Bool.false_eq_true, if_false, List.mem_flatMap] at hw
    obtain ⟨n, _, hn⟩ := hw
    rw [(List.mem_replicate.1 hn).2]
    rfl

/-- mean aggregation: the weights of a (non-degenerate) group sum to one -/
theorem groupWeights_mean_full (n : Nat) (hn : 0 < n) : Q.eqv (qsum (groupWeights true (.full n))) Q.one := by
  simp only [groupWeights, if_true, qsum, Q.eqv]
  obtain ⟨e, _⟩ := GroupsL.foldl_add_replicate 1 n hn n Q.zero Nat.one_pos
  generalize (List.replicate n (⟨1, n⟩ : Q)).foldl Q.add Q.zero = r at e
  simp only [Q.zero, Q.one] at e ⊢
  apply Nat.eq_of_mul_eq_mul_left hn
  grind

theorem groupWeights_mean_nested (gs : List Nat) (hne : gs ≠ []) (hpos : ∀ n ∈ gs, 0 < n) :
    Q.eqv (qsum (groupWeights true (.nested gs))) Q.one := by
  have hL : 0 < gs.length := List.length_pos_iff.2 hne
  simp only [groupWeights, if_true, qsum, Q.eqv, Q.mul]
  obtain ⟨e, _⟩ := GroupsL.foldl_add_nested gs.length hL gs hpos Q.zero Nat.one_pos
  generalize (gs.flatMap (fun n => List.replicate n (⟨1 * 1, n * gs.length⟩ : Q))).foldl Q.add Q.zero = r at e
  simp only [Q.zero, Q.one] at e ⊢
  apply Nat.eq_of_mul_eq_mul_left hL
  grind

/-! ### byte tokenizer groups -/

/-- **the group lengths sum to the number of token ids, with one group per character, special
token, prefix and suffix token** -/
theorem byteGroups_sum (cfg : ByteCfg) (pieces : List (Option (List (List Nat)))) :
    ((byteGroups cfg pieces).map TGroup.len).sum =
      cfg.sp.prefixIds.length +
      (pieces.map (fun p => match p with | none => 1 | some cl => (cl.flatten.map utf8Len).sum)).sum +
      cfg.sp.suffixIds.length := by
  simp only [byteGroups, List.map_append, List.sum_append, List.map_map, Function.comp_def, TGroup.len,
    GroupsL.sum_map_const_one, GroupsL.sum_flatMap_map]
  congr 2
  congr 1
  apply List.map_congr_left
  intro p _
  cases p with
  | none => rfl
  | some cl => exact GroupsL.regularGroups_sum _ cl

theorem byteGroups_count (cfg : ByteCfg) (pieces : List (Option (List (List Nat)))) :
    (byteGroups cfg pieces).length =
      cfg.sp.prefixIds.length + (pieces.map (fun p => match p with | none => 1 | some cl => cl.length)).sum +
        cfg.sp.suffixIds.length := by
  simp only [byteGroups, List.length_append, List.length_map, GroupsL.length_flatMap']
  congr 2
  congr 1
  apply List.map_congr_left
  intro p _
  cases p with
  | none => rfl
  | some cl => exact GroupsL.regularGroups_length _ cl

/-- the UTF-8 encoding of a code point has `utf8Len` bytes (so the group lengths count bytes =
token ids) -/
theorem utf8_length (c : Nat) : (utf8 c).length = utf8Len c := by
  unfold utf8 utf8Len
  split
  · rfl
  · split
    · rfl
    · split <;> rfl

/-! ### the sparse COO matrix -/

/-- the sparse matrix is produced whenever the group lengths of every item sum to its token count … -/
theorem sparseCoo_total (groupings : List (List TGroup × Bool)) (lengths : List Nat)
    (hl : groupings.length = lengths.length)
    (hs : ∀ p ∈ groupings.zip lengths, (p.1.1.map TGroup.len).sum = p.2) :
    (sparseCoo groupings lengths).isSome = true := by
  unfold sparseCoo
  have h1 : (groupings.length != lengths.length) = false := by simp [hl]
  have h2 : (groupings.zip lengths).any (fun ((gs, _), l) => (gs.map TGroup.len).sum != l) = false := by
    rw [List.any_eq_false]
    intro p hp
    have := hs p hp
    obtain ⟨⟨gs, m⟩, l⟩ := p
    simpa using this
  simp only [h1, h2, Bool.false_eq_true, if_false, Option.isSome_some]

/-- … has exactly one entry per token … -/
theorem sparseCoo_entries (groupings : List (List TGroup × Bool)) (lengths : List Nat) (c : Coo)
    (h : sparseCoo groupings lengths = some c) :
    c.rowBatch.length = lengths.sum ∧ c.rowGroup.length = lengths.sum ∧ c.rowToken.length = lengths.sum ∧
      c.values.length = lengths.sum := by
  obtain ⟨hl, hs, rfl⟩ := GroupsL.sparseCoo_some h
  simp only [List.length_map, GroupsL.cooEntries_length groupings lengths hl hs, and_self]

/-- … and every index lies inside the declared size -/
theorem sparseCoo_in_bounds (groupings : List (List TGroup × Bool)) (lengths : List Nat) (c : Coo)
    (h : sparseCoo groupings lengths = some c) (k : Nat) (hk : k < c.rowBatch.length) :
    c.size.length = 3 ∧ c.rowBatch.getD k 0 < c.size.getD 0 0 ∧ c.rowGroup.getD k 0 < c.size.getD 1 0 ∧
      c.rowToken.getD k 0 < c.size.getD 2 0 := by
  obtain ⟨hl, hs, rfl⟩ := GroupsL.sparseCoo_some h
  simp only [List.length_map] at hk
  have hm := GroupsL.cooEntries_mem groupings lengths hl hs _ (List.getElem_mem hk)
  simp only [List.getD_eq_getElem?_getD, List.getElem?_map, List.getElem?_eq_getElem hk, Option.map_some,
    Option.getD_some, List.length_cons, List.length_nil, List.getElem?_cons_zero, List.getElem?_cons_succ]
  exact ⟨trivial, hm⟩

/-! ### padding -/

theorem getD_map_lt {α β : Type} (f : α → β) (l : List α) (i : Nat) (hi : i < l.length) (da : α) (db : β) :
    (l.map f).getD i db = f (l.getD i da) := by
  simp [List.getD_eq_getElem?_getD, List.getElem?_eq_getElem hi]

/-- **padded matrices contain each item's values followed only by padding, and report the true
lengths** -/
theorem padIds_spec (rows : List (List Nat)) (pad : Nat) :
    (padIds rows pad).2 = rows.map List.length ∧
    (padIds rows pad).1.length = rows.length ∧
    ∀ i, i < rows.length →
      ∃ m, (∀ r ∈ rows, r.length ≤ m) ∧
        (padIds rows pad).1.getD i [] = rows.getD i [] ++ List.replicate (m - (rows.getD i []).length) pad ∧
        ((padIds rows pad).1.getD i []).length = m := by
  refine ⟨rfl, by simp [padIds], ?_⟩
  intro i hi
  have hb : ∀ r ∈ rows, r.length ≤ (rows.map List.length).foldl max 0 := fun r hr =>
    (GroupsL.le_foldl_max _ 0).2 _ (List.mem_map.2 ⟨r, hr, rfl⟩)
  refine ⟨(rows.map List.length).foldl max 0, hb, ?_⟩
  simp only [padIds]
  rw [getD_map_lt _ rows i hi []]
  refine ⟨rfl, ?_⟩
  have hri : rows.getD i [] ∈ rows := by
    rw [List.getD_eq_getElem?_getD, List.getElem?_eq_getElem hi]
    exact List.getElem_mem hi
  have := hb _ hri
  simp only [List.length_append, List.length_replicate]
  omega

theorem paddingMask_spec (lengths : List Nat) :
    (paddingMask lengths).length = lengths.length ∧
    ∀ i, i < lengths.length → ∃ m, (∀ l ∈ lengths, l ≤ m) ∧
      (paddingMask lengths).getD i [] =
        List.replicate (lengths.getD i 0) true ++ List.replicate (m - lengths.getD i 0) false := by
  refine ⟨by simp [paddingMask], ?_⟩
  intro i hi
  refine ⟨lengths.foldl max 0, (GroupsL.le_foldl_max lengths 0).2, ?_⟩
  simp only [paddingMask]
  rw [getD_map_lt _ lengths i hi 0]

/-! ### non-vacuity -/

example : groupWeights true (.nested [2, 1]) = [⟨1, 4⟩, ⟨1, 4⟩, ⟨1, 2⟩] := by decide
example : qsum (groupWeights true (.nested [2, 1])) = ⟨32, 32⟩ := by decide
example : qsum (groupWeights true (.full 3)) = ⟨27, 27⟩ := by decide
example : groupWeights false (.nested [2, 1]) = [Q.one, Q.one, Q.one] := by decide
/-- the hypothesis `0 < n` / `gs ≠ []` is needed: the empty sum is 0 -/
example : ¬ Q.eqv (qsum (groupWeights true (.full 0))) Q.one := by decide
example : ¬ Q.eqv (qsum (groupWeights true (.nested []))) Q.one := by decide
/-- a zero-length inner group makes the mean weights sum to less than one -/
example : ¬ Q.eqv (qsum (groupWeights true (.nested [0, 1]))) Q.one := by decide

/-- two items, the first with a nested group (`Coo` has no `DecidableEq`, so its fields are compared) -/
example :
    (sparseCoo [([.nested [2, 1], .full 1], true), ([.full 2], false)] [4, 2]).map
        (fun c => (c.rowBatch, c.rowGroup, c.rowToken)) =
      some ([0, 0, 0, 0, 1, 1], [0, 0, 0, 1, 0, 0], [0, 1, 2, 3, 0, 1]) := by decide
example :
    (sparseCoo [([.nested [2, 1], .full 1], true), ([.full 2], false)] [4, 2]).map
        (fun c => (c.values, c.size, c.groupLengths)) =
      some ([⟨1, 4⟩, ⟨1, 4⟩, ⟨1, 2⟩, ⟨1, 1⟩, ⟨1, 1⟩, ⟨1, 1⟩], [2, 2, 4], [2, 1]) := by decide
/-- the offset assertion: group lengths not summing to the token count -/
example : sparseCoo [([.full 2], true)] [3] = none := by decide
example : sparseCoo [([.full 2], true)] [2, 1] = none := by decide

example : padIds [[7, 8, 9], [], [5]] 0 = ([[7, 8, 9], [0, 0, 0], [5, 0, 0]], [3, 0, 1]) := by decide
example : paddingMask [2, 0, 3] = [[true, true, false], [false, false, false], [true, true, true]] := by decide
example : utf8 0x20AC = [0xE2, 0x82, 0xAC] := by decide

/-! ### the tensorised batch of every task kind -/

/-- the id matrix and the lengths are `pad_ids` of the items' ids with the INPUT side's pad id (so
`padIds_spec` applies: each row is the item's ids followed only by that padding; true lengths) -/
theorem tensorize_ids (k pad tpad : Nat) (rows trows lrows : List (List Nat)) :
    ((tensorize k pad tpad rows trows lrows).ids, (tensorize k pad tpad rows trows lrows).lens) = padIds rows pad := by
  simp [tensorize]

/-- conditional generation: the target matrix is `pad_ids` of the target ids with the TARGET side's pad id -/
theorem tensorize_target (pad tpad : Nat) (rows trows lrows : List (List Nat)) :
    (tensorize 3 pad tpad rows trows lrows).target = some (padIds trows tpad) := by
  simp [tensorize]

theorem tensorize_no_target (k pad tpad : Nat) (rows trows lrows : List (List Nat)) (hk : k ≠ 3) :
    (tensorize k pad tpad rows trows lrows).target = none := by
  simp [tensorize, hk]

/-- sequence tasks: the label matrix is `pad_ids` of the label rows with the ignore label (-1, `0` on the wire) -/
theorem tensorize_labels (k pad tpad : Nat) (rows trows lrows : List (List Nat)) (hk : k ≠ 0) :
    (tensorize k pad tpad rows trows lrows).labels = (padIds lrows 0).1 := by
  simp [tensorize, hk]

/-- hence every target row is the item's target ids followed only by the target padding -/
theorem tensorize_target_rows (pad tpad : Nat) (rows trows lrows : List (List Nat)) (i : Nat) (hi : i < trows.length) :
    ∃ tm tl m, (tensorize 3 pad tpad rows trows lrows).target = some (tm, tl) ∧ tl = trows.map List.length ∧
      (∀ r ∈ trows, r.length ≤ m) ∧
      tm.getD i [] = trows.getD i [] ++ List.replicate (m - (trows.getD i []).length) tpad := by
  obtain ⟨h1, _, h3⟩ := padIds_spec trows tpad
  obtain ⟨m, hm, hrow, _⟩ := h3 i hi
  exact ⟨(padIds trows tpad).1, (padIds trows tpad).2, m, by rw [tensorize_target], h1, hm, hrow⟩

example : (tensorize 3 9 7 [[1, 2], [3]] [[4], [5, 6, 6]] [[1], [1, 2, 2]]).target = some ([[4, 7, 7], [5, 6, 6]], [1, 3]) := by decide
example : (tensorize 3 9 7 [[1, 2], [3]] [[4], [5, 6, 6]] [[1], [1, 2, 2]]).ids = [[1, 2], [3, 9]] := by decide

end Tu.C17
