import TuModel.Model.Groups
namespace Tu.C17
open Tu
theorem placeholder_padIds_nil (pad : Nat) : padIds [] pad = ([], []) := rfl
end Tu.C17
