/-
  C06, machine arithmetic: the model's batch-limit value `limOf` (Model/Batch.lean) is the code's saturating
  product; these theorems relate it to the mathematical value `limOfExact` (exact product): the two decide every
  comparison alike for every batch limit below `usize::MAX`, and they differ exactly in the sharpness example at the
  end (Model/BatchU.lean: the mirror `satMulU` / `limOfU` and the accounting before the repair).
-/
import TuModel.Model.BatchU
namespace Tu.C06u
open Tu

/-- the two spellings of `usize::MAX` -/
theorem usizeMax_eq : usizeMax = U64 - 1 := rfl

theorem satMulU_eq (a b : Nat) : satMulU a b = min (a * b) usizeMax := by
  unfold satMulU U64 usizeMax; split <;> omega

theorem satMulU_lt (a b : Nat) : satMulU a b < U64 := by
  unfold satMulU U64; split <;> omega

/-- the mirror written with `usize::saturating_mul` is the model's `limOf` -/
theorem limOfU_eq_limOf (padded : Bool) (count maxSize : Nat) : limOfU padded count maxSize = limOf padded count maxSize := by
  unfold limOfU limOf
  cases padded
  · rfl
  · simp only [if_true]; exact satMulU_eq _ _

/-- the buffer bound of `stepAllowed` is `batch_limit.saturating_mul(prefetch_factor)` -/
theorem cap_eq (cfg : BCfg) : min (cfg.lim * cfg.pf) usizeMax = satMulU cfg.lim cfg.pf := (satMulU_eq _ _).symm

/-- the model's value is the mathematical value cut off at `usize::MAX` (padded size), resp. the count itself -/
theorem limOf_eq_min (padded : Bool) (count maxSize : Nat) :
    limOf padded count maxSize =
      if padded then min (limOfExact padded count maxSize) usizeMax else limOfExact padded count maxSize := by
  unfold limOf limOfExact
  cases padded <;> simp

/-- the same, uniformly, for every count a `usize` can hold -/
theorem limOf_eq_min' (padded : Bool) (count maxSize : Nat) (hc : count ≤ usizeMax) :
    limOf padded count maxSize = min (limOfExact padded count maxSize) usizeMax := by
  unfold limOf limOfExact
  cases padded
  · simp only [Bool.false_eq_true, if_false]; omega
  · simp

theorem limOf_le_exact (padded : Bool) (count maxSize : Nat) : limOf padded count maxSize ≤ limOfExact padded count maxSize := by
  unfold limOf limOfExact
  cases padded
  · simp
  · simp only [if_true]; omega

/-- no saturation while the padded size fits into a `usize` -/
theorem limOf_eq_exact (padded : Bool) (count maxSize : Nat) (h : count * maxSize < U64) :
    limOf padded count maxSize = limOfExact padded count maxSize := by
  unfold limOf limOfExact
  cases padded
  · simp
  · simp only [if_true]; unfold U64 at h; unfold usizeMax; omega

/-- `batch_from`: "adding the item would overshoot" is the exact decision, for every batch limit below `usize::MAX`
and ALL item sizes and counts -/
theorem limOf_gt_iff (padded : Bool) (count maxSize limit : Nat) (hl : limit < usizeMax) :
    limOf padded count maxSize > limit ↔ limOfExact padded count maxSize > limit := by
  unfold limOf limOfExact
  cases padded
  · simp
  · simp only [if_true]; omega

/-- "the batch satisfies the limit" is the exact statement, for every batch limit below `usize::MAX` -/
theorem limOf_le_iff (padded : Bool) (count maxSize limit : Nat) (hl : limit < usizeMax) :
    limOf padded count maxSize ≤ limit ↔ limOfExact padded count maxSize ≤ limit := by
  unfold limOf limOfExact
  cases padded
  · simp
  · simp only [if_true]; omega

/-- the same for a list of items (`BatchLimit::from_items(items).limit()`) -/
theorem itemsLimit_le_iff (padded : Bool) (l : List Item) (limit : Nat) (hl : limit < usizeMax) :
    itemsLimit padded l ≤ limit ↔ limOfExact padded l.length (maxSize l) ≤ limit :=
  limOf_le_iff padded _ _ limit hl

/-- the buffer fill condition `limit() <= batch_limit.saturating_mul(prefetch_factor)` is the exact comparison
`count * max size ≤ limit * prefetch factor` whenever the buffer's own padded size fits into a `usize` (a buffer whose
padded size is 2^64 or more would stop the filling by the exact comparison; the saturated comparison may read one
more item when `limit * prefetch factor` saturates too) -/
theorem fill_le_iff (padded : Bool) (count maxSize lim pf : Nat) (hc : count < U64) (h : count * maxSize < U64) :
    limOf padded count maxSize ≤ min (lim * pf) usizeMax ↔ limOfExact padded count maxSize ≤ lim * pf := by
  unfold limOf limOfExact
  unfold U64 at hc h
  unfold usizeMax
  cases padded
  · simp only [Bool.false_eq_true, if_false]; omega
  · simp only [if_true]; omega

/-- without the size hypothesis one direction remains: the exact comparison implies the code's -/
theorem fill_le_of_exact (padded : Bool) (count maxSize lim pf : Nat) (hc : count < U64)
    (h : limOfExact padded count maxSize ≤ lim * pf) : limOf padded count maxSize ≤ min (lim * pf) usizeMax := by
  unfold limOf limOfExact at *
  unfold U64 at hc
  unfold usizeMax
  cases padded
  · simp only [Bool.false_eq_true, if_false] at *; omega
  · simp only [if_true] at *; omega

/-- the differential finding that made the model saturating: item sizes 2^64-1, prefetch factor 3, limit 2^64-2.
With three items buffered the exact comparison stops the filling, the code's saturated one goes on -/
example : limOf true 3 (2 ^ 64 - 1) ≤ min ((2 ^ 64 - 2) * 3) usizeMax ∧ ¬ limOfExact true 3 (2 ^ 64 - 1) ≤ (2 ^ 64 - 2) * 3 := by
  decide

/-- the accounting before the repair D17 overflows exactly when the padded size does not fit -/
theorem limOfOldU_none_iff (count maxSize : Nat) : limOfOldU true count maxSize = none ↔ U64 ≤ count * maxSize := by
  unfold limOfOldU mulU
  simp only [if_true]
  split <;> simp <;> omega

/-- ... and otherwise computed the mathematical value -/
theorem limOfOldU_ok (padded : Bool) (count maxSize : Nat) (h : count * maxSize < U64) :
    limOfOldU padded count maxSize = some (limOfExact padded count maxSize) := by
  unfold limOfOldU limOfExact mulU
  cases padded <;> simp [h]

/-- ... which is then also the value of the repaired code -/
theorem limOfOldU_ok' (padded : Bool) (count maxSize : Nat) (h : count * maxSize < U64) :
    limOfOldU padded count maxSize = some (limOf padded count maxSize) := by
  rw [limOf_eq_exact padded count maxSize h]; exact limOfOldU_ok padded count maxSize h

/-- D17, debug build: two items of 2^63 tokens make the multiplication overflow -/
example : limOfOldU true 2 (2 ^ 63) = none := by decide
/-- D17, release build: the wrapped product is 0, so two items whose padded size is 2^64 pass ANY limit -/
example : limOfOldWrap true 2 (2 ^ 63) = 0 ∧ limOfExact true 2 (2 ^ 63) = 2 ^ 64 := by decide
/-- as repaired: the saturated value is above every limit below `usize::MAX` -/
example : limOf true 2 (2 ^ 63) = usizeMax ∧ limOfU true 2 (2 ^ 63) = U64 - 1 := by decide
/-- the bound on the limit is sharp: with `batch_limit = usize::MAX` (the crate's "no limit") the saturated value is
not above the limit although the exact product is -/
example : ¬ (limOf true 2 (2 ^ 63) > usizeMax) ∧ limOfExact true 2 (2 ^ 63) > usizeMax := by decide

end Tu.C06u
