import TuModel.Model.ByteTok
import TuModel.Model.CharTok
import TuModel.Model.Bpe
namespace Tu.C03
open Tu
theorem placeholder_uniq_nil : uniq [] = [] := rfl
end Tu.C03
