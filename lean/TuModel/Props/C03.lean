/-
  C03 — BPE merges are the canonical ones: the heap-driven loop `merge_bytes` (model
  `Tu.mergeWordImpl`, Model/Bpe.lean) computes, for every well-formed merge table and every word of
  bytes, exactly the segmentation of the property's own definition `Tu.mergeWordSpec`: repeatedly
  merge, among all adjacent token pairs whose concatenation is a table key, the one with the lowest
  merge id (leftmost on ties), until no adjacent pair is mergeable.

  Proof (Lemmas/BpeL1 … BpeL4): refinement invariant `Tu.Inv` between an `MState` and the token list
  `live st.bytes` (the non-empty cells in order):
    * every cell is dead or carries the id of its bytes, and an id determines its bytes
      (`IdOK.inj`, uses that merge ids are unique among all table entries: `wf_ids_unique`);
    * every heap entry denotes two cells with only dead cells in between and records ids whose byte
      strings concatenate to `merged`, a key with id `mid`; hence an entry that passes the staleness
      test denotes two adjacent live cells and their current concatenation (`valid_entry`);
    * every mergeable adjacent pair of live cells has a heap entry with the current ids.
  The popped entry is minimal in `(mid, fst)` (`heapMax_min`), so the first non-stale one is the
  `bestPair` of the token list (`pop_valid_best`); `heap.length + 2 * #live` decreases in every
  iteration, so the fuel `3 * |w| + 3` is never exhausted (`mergeLoop_spec`).
-/
import TuModel.Lemmas.BpeL4
namespace Tu.C03
open Tu

/-- the heap-driven loop computes the canonical lowest-id-leftmost segmentation -/
theorem mergeWordImpl_eq_spec (t : MTable) (w : List Nat) (hwf : wfTable t = true) (hw : ∀ b ∈ w, b < 256) :
    mergeWordImpl t w = mergeWordSpec t w :=
  (mergeWordImpl_eq_spec' t w hwf hw).1

/-- the result of the canonical procedure is terminal: no adjacent pair of result tokens is a table key -/
theorem specLoop_terminal (t : MTable) (w : List Nat) :
    bestPair t (specLoop t w.length (w.map (fun b => [b]))) 0 = none :=
  specLoop_terminal_aux t w.length _ (by simp)

/-- `bestPair … = none` says what it should: no adjacent pair of tokens concatenates to a key -/
theorem terminal_iff (t : MTable) (toks : List (List Nat)) :
    bestPair t toks 0 = none ↔
      ∀ k, k + 1 < toks.length → tlookup t (toks.getD k [] ++ toks.getD (k + 1) []) = none :=
  ⟨bestPair_none t toks 0, bestPair_of_none t toks 0⟩

/-- `bestPair` picks a mergeable position with the lowest merge id, leftmost on ties -/
theorem bestPair_is_min (t : MTable) (toks : List (List Nat)) (m k : Nat) :
    bestPair t toks 0 = some (m, k) ↔
      (k + 1 < toks.length ∧ tlookup t (toks.getD k [] ++ toks.getD (k + 1) []) = some m ∧
        ∀ k' m', k' + 1 < toks.length → tlookup t (toks.getD k' [] ++ toks.getD (k' + 1) []) = some m' →
          m < m' ∨ (m = m' ∧ k ≤ k')) := by
  constructor
  · intro h
    obtain ⟨k0, hk0, hk1, hk2⟩ := bestPair_some t toks 0 m k h
    have hk : k = k0 := by omega
    subst hk
    refine ⟨hk1, hk2, ?_⟩
    intro k' m' hk' hl'
    have := bestPair_some_min t toks 0 m k h k' m' hk' hl'
    omega
  · intro ⟨h1, h2, h3⟩
    have := bestPair_eq t toks 0 k m h1 h2 h3
    rw [Nat.zero_add] at this; exact this

/-- the fuel of the model's loop is never exhausted -/
theorem mergeWordImpl_isSome (t : MTable) (w : List Nat) (hwf : wfTable t = true) (hw : ∀ b ∈ w, b < 256) :
    (mergeWordImpl t w).isSome = true :=
  (mergeWordImpl_eq_spec' t w hwf hw).2

/-! non-vacuity: a well-formed table with chained merges; the theorems apply to it -/
example : wfTable [([97, 98], 0), ([99, 100], 1), ([97, 98, 99], 2), ([97, 98, 99, 100], 3)] = true := by decide
example : mergeWordImpl [([97, 98], 0), ([99, 100], 1), ([97, 98, 99], 2), ([97, 98, 99, 100], 3)]
    [97, 98, 99, 100] = some [259] := by decide
example : mergeWordSpec [([97, 98], 0), ([99, 100], 1), ([97, 98, 99], 2), ([97, 98, 99, 100], 3)]
    [97, 98, 99, 100] = some [259] := by
  rw [← mergeWordImpl_eq_spec _ _ (by decide) (by decide)]; decide

end Tu.C03
