import TuModel.Model.Edit
namespace Tu.C12
open Tu
theorem minByFst_singleton (x : Nat × EOp) : minByFst [x] = x := rfl
end Tu.C12
