/-
  C12 — edit distance equals the reference metric; operations() is a minimal script.

  Model: `Tu.fillTable` / `Tu.editDistance` / `Tu.prefixDistance` / `Tu.editOperations`
  (Model/Edit.lean) — the flat matrix filled cell by cell with the code's candidate order and
  first-minimum tie-breaking.  Reference: `Tu.osaR` (the recurrence as a recursive definition) and
  `Tu.Align` (edit scripts with their cost), Lemmas/EditL.lean.
-/
import TuModel.Lemmas.EditTable
import TuModel.Lemmas.EditScript
import TuModel.Lemmas.ScriptAcceptL
namespace Tu.C12
open Tu

/-- **the matrix is the reference recurrence**, cell by cell, for every pair of texts and every flag
combination -/
theorem matrix_eq_rec (fl : EFlags) (a b : List (List Nat)) (i j : Nat) (hi : i ≤ a.length) (hj : j ≤ b.length) :
    (tblGet (fillTable fl a b) (b.length + 1) i j).1 = osaR fl (a.take i).reverse (b.take j).reverse :=
  (fillTable_spec fl a b).2 i j hi hj

theorem distance_eq_osa (fl : EFlags) (a b : List (List Nat)) :
    editDistance fl a b = osaR fl a.reverse b.reverse := by
  unfold editDistance
  rw [matrix_eq_rec fl a b a.length b.length (Nat.le_refl _) (Nat.le_refl _)]
  simp

/-- the distance is a lower bound for the cost of every edit script (keep / insert / delete /
replace / adjacent transposition as the flags allow) … -/
theorem distance_le_script (fl : EFlags) (a b : List (List Nat)) (n : Nat)
    (h : Align fl a.reverse b.reverse n) : editDistance fl a b ≤ n := by
  rw [distance_eq_osa]; exact osa_min h

/-- … and some script has exactly that cost: the distance is the minimum over all scripts -/
theorem distance_attained (fl : EFlags) (a b : List (List Nat)) :
    Align fl a.reverse b.reverse (editDistance fl a b) := by
  rw [distance_eq_osa]; exact osa_attained fl _ _ _ rfl

theorem align_refl (fl : EFlags) (as : List (List Nat)) : Align fl as as 0 := by
  induction as with
  | nil => exact .nil
  | cons x as ih => exact .keep x ih

theorem align_zero_eq {fl : EFlags} {as bs : List (List Nat)} {n : Nat} (h : Align fl as bs n) (hn : n = 0) : as = bs := by
  induction h with
  | nil => rfl
  | del _ _ _ => omega
  | ins _ _ _ => omega
  | keep x _ ih => rw [ih hn]
  | rep _ _ _ _ => omega
  | swp _ _ _ _ => omega

/-- distance 0 exactly for equal texts (including two empty ones) -/
theorem distance_eq_zero_iff (fl : EFlags) (a b : List (List Nat)) : editDistance fl a b = 0 ↔ a = b := by
  constructor
  · intro h
    have := align_zero_eq (distance_attained fl a b) h
    have h2 := congrArg List.reverse this
    simpa using h2
  · rintro rfl
    have := distance_le_script fl a a 0 (align_refl fl _)
    omega

theorem align_le_max (fl : EFlags) (hs : fl.sid = false) (as : List (List Nat)) :
    ∀ bs : List (List Nat), ∃ n, n ≤ max as.length bs.length ∧ Align fl as bs n := by
  induction as with
  | nil => intro bs; exact ⟨bs.length, by simp, align_ins_all fl bs⟩
  | cons x as ih =>
    intro bs
    cases bs with
    | nil => exact ⟨(x :: as).length, by simp, align_del_all fl (x :: as)⟩
    | cons y bs =>
      obtain ⟨n, hn, hal⟩ := ih bs
      by_cases hxy : x = y
      · subst hxy; exact ⟨n, by simp; omega, .keep x hal⟩
      · exact ⟨n + 1, by simp; omega, .rep hxy (by simp [canReplace, hs]) hal⟩

/-- without `spaces_insert_delete_only` the distance is at most the longer length, so the
normalised value `distance / max(|a|, |b|, 1)` lies in [0, 1] -/
theorem normalized_range (fl : EFlags) (hs : fl.sid = false) (a b : List (List Nat)) :
    editDistance fl a b ≤ normDen a b := by
  obtain ⟨n, hn, hal⟩ := align_le_max fl hs a.reverse b.reverse
  have := distance_le_script fl a b n hal
  simp at hn
  unfold normDen
  omega

/-- normalised distance of equal texts is 0, including two empty ones (the normaliser is ≥ 1) -/
theorem normalized_self (fl : EFlags) (a : List (List Nat)) : editDistance fl a a = 0 ∧ 0 < normDen a a := by
  refine ⟨(distance_eq_zero_iff fl a a).mpr rfl, ?_⟩
  unfold normDen; omega

theorem align_le_add (fl : EFlags) (as bs : List (List Nat)) : ∃ n, n ≤ as.length + bs.length ∧ Align fl as bs n := by
  induction as with
  | nil => exact ⟨bs.length, by simp, align_ins_all fl bs⟩
  | cons x as ih =>
    obtain ⟨n, hn, hal⟩ := ih
    exact ⟨n + 1, by simp; omega, .del x hal⟩

/-- PARTIAL form of the [0,1] clause under `spaces_insert_delete_only`: the normalised value is at
most 2 (the full clause is false there: see `sid_counterexample`, known finding F12) -/
theorem normalized_range_sid_partial (fl : EFlags) (a b : List (List Nat)) :
    editDistance fl a b ≤ 2 * normDen a b := by
  obtain ⟨n, hn, hal⟩ := align_le_add fl a.reverse b.reverse
  have := distance_le_script fl a b n hal
  simp at hn
  unfold normDen
  omega

/-- witness for F12: `distance(" ", "x")` is 2 although the longer length is 1 -/
theorem sid_counterexample :
    editDistance { swap := true, sid := true } [[32]] [[120]] = 2 ∧ normDen [[32]] [[120]] = 1 := by decide

/-- **prefix_distance is the minimum over all prefixes of `b`** -/
theorem prefix_min (fl : EFlags) (a b : List (List Nat)) :
    prefixDistance fl a b =
      ((List.range (b.length + 1)).map (fun j => editDistance fl a (b.take j))).foldl min (editDistance fl a []) := by
  unfold prefixDistance
  have hcell : ∀ j, j ≤ b.length → (tblGet (fillTable fl a b) (b.length + 1) a.length j).1 = editDistance fl a (b.take j) := by
    intro j hj
    rw [matrix_eq_rec fl a b a.length j (Nat.le_refl _) hj, distance_eq_osa]
    simp
  have h0 := hcell 0 (by omega)
  simp only [List.take_zero] at h0
  simp only []
  rw [h0]
  congr 1
  apply List.map_congr_left
  intro j hj
  exact hcell j (by simp at hj; omega)

/-! non-vacuity: a transposition is found with swaps and costs two without -/
example : editDistance { swap := true, sid := false } [[97], [98]] [[98], [97]] = 1 := by decide
example : editDistance { swap := false, sid := false } [[97], [98]] [[98], [97]] = 2 := by decide
example : editOperations { swap := true, sid := false } [[97], [98], [99]] [[98], [97], [99]] = some [(.swap, 0, 0)] := by decide
example : Align { swap := true, sid := false } [[98], [97]] [[97], [98]] 1 := .swp rfl rfl .nil

/-- **operations() is a minimal script**: the backtrace never reaches its panic branch, the script has
exactly `distance` operations, is sorted by position, and applying it to `a` yields `b` -/
theorem editOperations_ok (fl : EFlags) (a b : List (List Nat)) :
    ∃ ops, editOperations fl a b = some ops ∧
      ops.length = editDistance fl a b ∧
      applyScript a b ops 0 = b ∧
      ops.Pairwise (fun p q => p.2.1 ≤ q.2.1 ∧ p.2.2 ≤ q.2.2) := by
  obtain ⟨l, hb, hok⟩ := backtrace_ok fl a b (a.length + b.length + 1) a.length b.length []
    (Nat.le_refl _) (Nat.le_refl _) (by omega)
  refine ⟨l, by simpa [editOperations] using hb, ?_, ?_, hok.sorted⟩
  · rw [hok.len]
    unfold editDistance
    exact ((fillTable_spec fl a b).2 a.length b.length (Nat.le_refl _) (Nat.le_refl _)).symm
  · have := hok.sem [] (by simp)
    rw [List.append_nil, applyScript_nil] at this
    rw [this]
    simp

/-- under `spaces_insert_delete_only` no whitespace is substituted or transposed, and without
`with_swap` no swap is used -/
theorem editOperations_flags (fl : EFlags) (a b : List (List Nat)) (ops) (h : editOperations fl a b = some ops) :
    ∀ p ∈ ops,
      (p.1 = EKind.swap → fl.swap = true ∧ canReplace fl (a.getD p.2.1 []) (a.getD (p.2.1 + 1) []) = true) ∧
      (p.1 = EKind.replace → canReplace fl (a.getD p.2.1 []) (b.getD p.2.2 []) = true) :=
  backtrace_flags fl a b _ _ _ [] ops (Nat.le_refl _) (Nat.le_refl _) h (by simp)

/-- the script is an optimal one: no edit script (in the sense of `Align`) is shorter -/
theorem editOperations_minimal (fl : EFlags) (a b : List (List Nat)) (n : Nat)
    (h : Align fl a.reverse b.reverse n) :
    ∃ ops, editOperations fl a b = some ops ∧ ops.length ≤ n := by
  obtain ⟨ops, h1, h2, _⟩ := editOperations_ok fl a b
  exact ⟨ops, h1, by rw [h2]; exact distance_le_script fl a b n h⟩

/-! non-vacuity of `editOperations_ok` / `editOperations_flags`: the script of the example above is the one
the theorem speaks about, and replaying it gives `b` -/
example : applyScript [[97], [98], [99]] [[98], [97], [99]] [(.swap, 0, 0)] 0 = [[98], [97], [99]] := by decide
example : ∃ ops, editOperations { swap := false, sid := true } [[97], [32], [99]] [[98], [97], [99]] = some ops ∧
    ops.length = 2 ∧ applyScript [[97], [32], [99]] [[98], [97], [99]] ops 0 = [[98], [97], [99]] := by
  obtain ⟨ops, h1, h2, h3, _⟩ := editOperations_ok { swap := false, sid := true } [[97], [32], [99]] [[98], [97], [99]]
  exact ⟨ops, h1, by rw [h2]; decide, h3⟩
example : editOperations { swap := true, sid := true } [[97], [32]] [[32], [97]] =
    some [(.insert, 0, 0), (.delete, 1, 2)] := by decide

/-! ## the relational acceptance test `scriptAccept` for `operations()`

`operations()` may return any optimal script; the correspondence check therefore does not compare the answer with
the model's backtrace but runs `scriptAccept` (Model/Edit.lean) on it.  The three theorems say: the test never
refuses the modelled code, what it accepts has exactly the property's clauses, and what it accepts is optimal. -/

/-- the script the code's backtrace produces is accepted (so the acceptance test never refuses the modelled code) -/
theorem editOperations_accepted (fl : EFlags) (a b : List (List Nat)) (ops : List (EKind × Nat × Nat))
    (h : editOperations fl a b = some ops) : scriptAccept fl a b ops = true := by
  obtain ⟨ops', h', hlen, hsem, hsorted⟩ := editOperations_ok fl a b
  rw [h] at h'; cases h'
  have hflags := editOperations_flags fl a b ops h
  have hbounds := editOperations_bounds fl a b ops h
  refine (scriptAccept_iff fl a b ops).mpr ⟨hlen, pairwise_scriptSorted ops hsorted, ?_, hsem⟩
  intro p hp
  obtain ⟨hsw, hrp⟩ := hflags p hp
  obtain ⟨b1, b2, b3, b4⟩ := hbounds p hp
  refine (opOk_iff fl a b p).mpr ⟨fun e => ?_, fun e => ?_, fun e => ?_, fun e => ?_⟩
  · have := b1 e; exact ⟨this.2, this.1⟩
  · exact (b2 e).2
  · have := b3 e; exact ⟨this.2.1, this.2.2, hrp e⟩
  · have := b4 e; exact ⟨(hsw e).1, by omega, (hsw e).2⟩

/-- what acceptance means: the property's clauses for `operations(a, b)` -/
theorem scriptAccept_spec (fl : EFlags) (a b : List (List Nat)) (ops : List (EKind × Nat × Nat))
    (h : scriptAccept fl a b ops = true) :
    ops.length = editDistance fl a b ∧
    applyScript a b ops 0 = b ∧
    ops.Pairwise (fun p q => p.2.1 ≤ q.2.1 ∧ p.2.2 ≤ q.2.2) ∧
    (∀ p ∈ ops, (p.1 = EKind.swap → fl.swap = true ∧ canReplace fl (a.getD p.2.1 []) (a.getD (p.2.1 + 1) []) = true) ∧
                (p.1 = EKind.replace → canReplace fl (a.getD p.2.1 []) (b.getD p.2.2 []) = true)) := by
  obtain ⟨hlen, hs, hok, hsem⟩ := (scriptAccept_iff fl a b ops).mp h
  refine ⟨hlen, hsem, scriptSorted_pairwise ops hs, ?_⟩
  intro p hp
  obtain ⟨_, _, h3, h4⟩ := (opOk_iff fl a b p).mp (hok p hp)
  exact ⟨fun e => ⟨(h4 e).1, (h4 e).2.2⟩, fun e => (h3 e).2.2⟩

/-- besides the property's clauses, acceptance guarantees that every operation refers to existing characters
(the part of `opOk` that `scriptAccept_spec` does not mention) -/
theorem scriptAccept_bounds (fl : EFlags) (a b : List (List Nat)) (ops : List (EKind × Nat × Nat))
    (h : scriptAccept fl a b ops = true) :
    ∀ p ∈ ops, (p.1 = EKind.insert → p.2.2 < b.length ∧ p.2.1 ≤ a.length) ∧
               (p.1 = EKind.delete → p.2.1 < a.length) ∧
               (p.1 = EKind.replace → p.2.1 < a.length ∧ p.2.2 < b.length) ∧
               (p.1 = EKind.swap → p.2.1 + 1 < a.length) := by
  obtain ⟨_, _, hok, _⟩ := (scriptAccept_iff fl a b ops).mp h
  intro p hp
  obtain ⟨h1, h2, h3, h4⟩ := (opOk_iff fl a b p).mp (hok p hp)
  exact ⟨h1, h2, fun e => ⟨(h3 e).1, (h3 e).2.1⟩, fun e => (h4 e).2.1⟩

/-- an accepted script is optimal: no valid alignment is shorter (via `distance_le_script`) -/
theorem scriptAccept_minimal (fl : EFlags) (a b : List (List Nat)) (ops : List (EKind × Nat × Nat))
    (h : scriptAccept fl a b ops = true) (n : Nat) (hal : Align fl a.reverse b.reverse n) : ops.length ≤ n := by
  rw [(scriptAccept_spec fl a b ops h).1]
  exact distance_le_script fl a b n hal

/-- the acceptance test is not vacuous: for every pair of texts some script is accepted -/
theorem scriptAccept_exists (fl : EFlags) (a b : List (List Nat)) : ∃ ops, scriptAccept fl a b ops = true := by
  obtain ⟨ops, h, _⟩ := editOperations_ok fl a b
  exact ⟨ops, editOperations_accepted fl a b ops h⟩

/-! examples for the acceptance test ("ab" → "ba"; `[97] = a`, `[98] = b`, `[32] = space`, `[120] = x`) -/

/-- accepted: the one-swap script, with swaps enabled -/
example : scriptAccept { swap := true, sid := false } [[97], [98]] [[98], [97]] [(.swap, 0, 0)] = true := by decide
/-- … and it is the script the backtrace gives -/
example : editOperations { swap := true, sid := false } [[97], [98]] [[98], [97]] = some [(.swap, 0, 0)] := by decide
/-- accepted although it is not the backtrace's answer: without swaps there are several optimal scripts
(insert + delete, which the backtrace finds, or two replacements) and the test fixes none -/
example : editOperations { swap := false, sid := false } [[97], [98]] [[98], [97]] =
    some [(.insert, 0, 0), (.delete, 1, 2)] := by decide
example : scriptAccept { swap := false, sid := false } [[97], [98]] [[98], [97]] [(.replace, 0, 0), (.replace, 1, 1)] = true := by
  decide
/-- refused: a valid script (sorted, in range, replaying it gives `b`) that is one operation too long -/
example :
    scriptAccept { swap := true, sid := false } [[97], [98]] [[98], [97]] [(.replace, 0, 0), (.replace, 1, 1)] = false ∧
    applyScript [[97], [98]] [[98], [97]] [(.replace, 0, 0), (.replace, 1, 1)] 0 = [[98], [97]] ∧
    scriptSorted [(.replace, 0, 0), (.replace, 1, 1)] = true ∧
    [(EKind.replace, 0, 0), (EKind.replace, 1, 1)].all (opOk { swap := true, sid := false } [[97], [98]] [[98], [97]]) = true ∧
    editDistance { swap := true, sid := false } [[97], [98]] [[98], [97]] = 1 := by decide
/-- refused: a swap although `with_swap` is off -/
example : scriptAccept { swap := false, sid := false } [[97], [98], [99]] [[98], [97], [120]] [(.swap, 0, 0), (.replace, 2, 2)] = false ∧
    editDistance { swap := false, sid := false } [[97], [98], [99]] [[98], [97], [120]] = 3 := by decide
/-- refused: a script that substitutes whitespace under `spaces_insert_delete_only` (" a" → "xb"); it has the right
length (3, the distance under `sid`), is sorted and replays to `b` — only `opOk` of the replacement fails -/
example :
    scriptAccept { swap := false, sid := true } [[32], [97]] [[120], [98]] [(.replace, 0, 0), (.delete, 1, 1), (.insert, 2, 1)] = false ∧
    editDistance { swap := false, sid := true } [[32], [97]] [[120], [98]] = 3 ∧
    scriptSorted [(.replace, 0, 0), (.delete, 1, 1), (.insert, 2, 1)] = true ∧
    applyScript [[32], [97]] [[120], [98]] [(.replace, 0, 0), (.delete, 1, 1), (.insert, 2, 1)] 0 = [[120], [98]] ∧
    opOk { swap := false, sid := true } [[32], [97]] [[120], [98]] (.replace, 0, 0) = false := by decide
/-- the two-replacement script for the same texts is accepted without `sid` and refused with it -/
example : scriptAccept { swap := false, sid := false } [[32], [97]] [[120], [98]] [(.replace, 0, 0), (.replace, 1, 1)] = true ∧
    scriptAccept { swap := false, sid := true } [[32], [97]] [[120], [98]] [(.replace, 0, 0), (.replace, 1, 1)] = false := by decide
/-- refused: an operation that refers to a character that does not exist (`delete` at `i = |a|`) -/
example : opOk { swap := true, sid := false } [[97]] [] (.delete, 1, 0) = false := by decide

end Tu.C12
