import TuModel.Model.Dict
namespace Tu.C20
open Tu
theorem placeholder_topK_none (e : List (Tok × Nat)) : topK e none = e := rfl
end Tu.C20
