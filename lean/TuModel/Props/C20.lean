/-
  C20 — frequency dictionary (`Dictionary::create`) and closest-entry queries (`get_closest`).
  Model: `Tu.countOf`, `Tu.countAll`, `Tu.topK`, `Tu.dictCreate`, `Tu.closestSpec` (Model/Dict.lean).
-/
import TuModel.Lemmas.DictL
import TuModel.Lemmas.DictFileL
import TuModel.Lemmas.DictAcceptL
namespace Tu.C20
open Tu

/-- counting is independent of the order in which lines / per-line count maps are merged (worker interleaving) -/
theorem countOf_perm (a b : List Tok) (h : a.Perm b) (t : Tok) : countOf a t = countOf b t := by
  unfold countOf
  exact (h.filter _).length_eq

/-- `countAll` is exactly the frequency table: distinct keys, each with its number of occurrences -/
theorem countAll_spec (toks : List Tok) (t : Tok) (n : Nat) :
    (t, n) ∈ countAll toks ↔ t ∈ toks ∧ n = countOf toks t := by
  unfold countAll
  simp only [List.mem_map, Prod.mk.injEq, List.mem_eraseDups]
  constructor
  · rintro ⟨t', ht', rfl, rfl⟩; exact ⟨ht', rfl⟩
  · rintro ⟨ht, rfl⟩; exact ⟨t, ht, rfl, rfl⟩

theorem countAll_keys_nodup (toks : List Tok) : ((countAll toks).map (·.1)).Nodup := by
  unfold countAll
  rw [List.map_map]
  have : ((fun x : Tok × Nat => x.1) ∘ fun t => (t, countOf toks t)) = id := rfl
  rw [this, List.map_id]
  exact DictL.nodup_eraseDups toks

theorem countAll_perm_mem (a b : List Tok) (h : a.Perm b) (e : Tok × Nat) :
    e ∈ countAll a ↔ e ∈ countAll b := by
  obtain ⟨t, n⟩ := e
  rw [countAll_spec, countAll_spec, h.mem_iff, countOf_perm a b h]

/-- the kept entries are entries … -/
theorem topK_sub (entries : List (Tok × Nat)) (k : Option Nat) : ∀ e ∈ topK entries k, e ∈ entries := by
  intro e he
  cases k with
  | none => exact he
  | some k => exact (List.mem_filter.1 he).1

/-- … an absent `max_size` keeps everything … -/
theorem topK_none (entries : List (Tok × Nat)) : topK entries none = entries := rfl

/-- … no omitted entry is more frequent than a kept one … -/
theorem topK_dominates (entries : List (Tok × Nat)) (k : Nat) (x y : Tok × Nat)
    (hx : x ∈ topK entries (some k)) (hy : y ∈ entries) (hny : y ∉ topK entries (some k)) : y.2 ≤ x.2 := by
  simp only [topK, List.mem_filter, decide_eq_true_eq] at hx hny
  apply Classical.byContradiction
  intro hlt
  have hlt' : x.2 < y.2 := by omega
  have := DictL.rankOf_lt_of_lt entries x y (DictL.entryLt_of_freq_lt x y hlt') hy
  exact hny ⟨hy, by omega⟩

/-- … and exactly `min k n` entries are kept (keys distinct) -/
theorem topK_length (entries : List (Tok × Nat)) (k : Nat) (hnd : (entries.map (·.1)).Nodup) :
    (topK entries (some k)).length = min k entries.length :=
  DictL.filter_rank_length entries k hnd

/-- `freq_sum` is the total of the kept frequencies (by construction), and the created dictionary only depends
on the multiset of tokens of the used lines -/
theorem dictCreate_freqSum (lines : List (List Tok)) (ms mq : Option Nat) :
    (dictCreate lines ms mq).freqSum = ((dictCreate lines ms mq).entries.map (·.2)).sum := rfl

theorem dictCreate_entries_mem (lines : List (List Tok)) (mq : Option Nat) (e : Tok × Nat) :
    e ∈ (dictCreate lines none mq).entries ↔
      e.1 ∈ (match mq with | none => lines | some m => lines.take m).flatten ∧
      e.2 = countOf (match mq with | none => lines | some m => lines.take m).flatten e.1 := by
  obtain ⟨t, n⟩ := e
  simp only [dictCreate, topK]
  exact countAll_spec _ t n

/-- every index returned by `closestSpec` is at minimal distance, and has the maximal frequency among the
entries at minimal distance -/
theorem closestSpec_ok (q : List (List Nat)) (es : List (List (List Nat) × Nat)) (norm : Bool) (idxs : List Nat) (f : Nat)
    (h : closestSpec q es norm = some (idxs, f)) :
    ∀ i ∈ idxs, ∃ e, es[i]? = some e ∧ e.2 = f ∧
      ∀ e' ∈ es,
        let d := fun (x : List (List Nat) × Nat) => (editDistance { swap := false, sid := false } q x.1, if norm then normDen q x.1 else 1)
        (d e).1 * (d e').2 ≤ (d e').1 * (d e).2 ∧
        ((d e').1 * (d e).2 ≤ (d e).1 * (d e').2 → e'.2 ≤ f) := by
  rw [DictL.closestSpec_eq] at h
  exact DictL.closestGen_ok _ (by
    intro e
    show 0 < (if norm then normDen q e.1 else 1)
    split
    · exact DictL.normDen_pos _ _
    · exact Nat.one_pos) es idxs f h

/-- `closestSpec` answers whenever the dictionary is non-empty, with at least one index -/
theorem closestSpec_isSome (q : List (List Nat)) (es : List (List (List Nat) × Nat)) (norm : Bool) (hne : es ≠ []) :
    (closestSpec q es norm).isSome = true := by
  cases es with
  | nil => exact absurd rfl hne
  | cons e0 es => rfl

/-! ### `Dictionary::save` / `Dictionary::load` (Model/DictFile.lean) -/

/-- decimal printing and parsing are inverse for every usize value -/
theorem parseUsize_decDigits (n : Nat) (h : n < 2 ^ 64) : parseUsize (decDigits n) = some n := by
  have := DictFileL.parseUsize_digits (decDigits n) (DictFileL.decDigits_ne_nil n)
    (DictFileL.decDigits_all_isDigit n) (by rw [DictFileL.digitsVal_decDigits]; exact h)
  rw [DictFileL.digitsVal_decDigits] at this
  exact this

/-- one saved line parses back to its entry -/
theorem parseLine_saveLine (k : Key) (v : Nat) (hk : keyOk k = true) (hv : v < 2 ^ 64) :
    parseLine (k ++ [9] ++ decDigits v) = some (k, v) := by
  cases k with
  | nil => rw [DictFileL.keyOk_nil] at hk; cases hk
  | cons a t =>
    obtain ⟨hw, h9, _⟩ := (DictFileL.keyOk_cons a t).1 hk
    obtain ⟨i, c, hi, hc⟩ := DictFileL.decDigits_last v
    have htrim : trimCl (a :: t ++ [9] ++ decDigits v) = a :: t ++ [9] ++ decDigits v := by
      have : a :: t ++ [9] ++ decDigits v = a :: ((t ++ 9 :: i) ++ [c]) := by rw [hi]; simp
      rw [this]
      exact DictFileL.trimCl_eq_self _ _ _ hw (DictFileL.isDigit_not_ws hc)
    have hsplit : splitTab (a :: t ++ [9] ++ decDigits v) = [a :: t, decDigits v] := by
      have : a :: t ++ [9] ++ decDigits v = (a :: t) ++ 9 :: decDigits v := by simp
      rw [this]
      exact DictFileL.splitTab_key_val _ _ h9 (DictFileL.not_mem_decDigits (by decide))
    unfold parseLine
    rw [htrim, hsplit]
    simp only [parseUsize_decDigits v hv, Option.map_some]

/-- the saved file splits into exactly its lines -/
theorem loadPairs_dictSave (l : List (Key × Nat)) (hk : ∀ e ∈ l, keyOk e.1 = true) (hv : ∀ e ∈ l, e.2 < 2 ^ 64) :
    loadPairs (dictSave l) = some l := by
  have h10 : ∀ e ∈ l, 10 ∉ e.1 := by
    intro e he
    have := hk e he
    cases hke : e.1 with
    | nil => rw [hke, DictFileL.keyOk_nil] at this; cases this
    | cons a t => rw [hke] at this; exact ((DictFileL.keyOk_cons a t).1 this).2.2
  unfold loadPairs
  rw [DictFileL.fileLines_dictSave l h10]
  exact DictFileL.mapM_map_some _ parseLine l (fun e he => parseLine_saveLine e.1 e.2 (hk e he) (hv e he))

/-- **save followed by load reproduces the dictionary**: for distinct, well-formed keys, whatever order
`save` wrote the entries in -/
theorem dictLoad_dictSave (l : List (Key × Nat)) (hk : ∀ e ∈ l, keyOk e.1 = true) (hv : ∀ e ∈ l, e.2 < 2 ^ 64)
    (hd : (l.map (·.1)).Nodup) :
    dictLoad (dictSave l) = some { entries := l, freqSum := (l.map (·.2)).sum } := by
  unfold dictLoad
  rw [loadPairs_dictSave l hk hv, Option.map_some, DictFileL.foldl_mapInsert l [] (by simpa using hd)]
  rfl

/-- the acceptance test used by the correspondence check is sound and complete for such dictionaries:
a file is accepted iff it is the save of some descending ordering of the entries -/
theorem saveAccepts_iff (entries : List (Key × Nat)) (file : List Nat)
    (hk : ∀ e ∈ entries, keyOk e.1 = true) (hv : ∀ e ∈ entries, e.2 < 2 ^ 64) (hd : (entries.map (·.1)).Nodup) :
    saveAccepts entries file = true ↔
      ∃ l, l.Perm entries ∧ descending l = true ∧ file = dictSave l := by
  constructor
  · intro h
    unfold saveAccepts at h
    split at h
    · cases h
    · rename_i kvs hload
      simp only [Bool.and_eq_true, beq_iff_eq, List.all_eq_true, List.contains_eq_mem, decide_eq_true_eq] at h
      obtain ⟨⟨⟨⟨hsave, hlen⟩, _⟩, hsub⟩, hdesc⟩ := h
      have hnd : entries.Nodup :=
        List.Pairwise.of_map (fun e : Key × Nat => e.1) (fun a b hab e => hab (e ▸ rfl)) hd
      exact ⟨kvs, (DictFileL.perm_of_nodup_subset entries kvs hnd (fun e he => hsub e he) (by omega)).symm,
        hdesc, hsave.symm⟩
  · rintro ⟨l, hp, hdesc, rfl⟩
    unfold saveAccepts
    rw [loadPairs_dictSave l (fun e he => hk e (hp.mem_iff.1 he)) (fun e he => hv e (hp.mem_iff.1 he))]
    simp only [Bool.and_eq_true, beq_iff_eq, List.all_eq_true, List.contains_eq_mem, decide_eq_true_eq]
    exact ⟨⟨⟨⟨trivial, hp.length_eq⟩, fun e he => hp.mem_iff.1 he⟩, fun e he => hp.mem_iff.2 he⟩, hdesc⟩

/-- every key `load` can return is well-formed in this sense, so loaded dictionaries are in the domain of the
round trip (keys come from `parseLine`) -/
theorem parseLine_keyOk (line : List Nat) (k : Key) (v : Nat) (h : parseLine line = some (k, v)) (hl : 10 ∉ line) :
    keyOk k = true ∧ v < 2 ^ 64 := by
  obtain ⟨w, rest, hsplit, hparse⟩ := DictFileL.parseLine_some h
  refine ⟨?_, DictFileL.parseUsize_some hparse⟩
  unfold splitTab at hsplit
  cases ht : trimCl line with
  | nil =>
    -- an empty trimmed line has one part only: `parseLine` fails
    unfold parseLine at h
    rw [ht] at h
    cases h
  | cons a T =>
    have hw : isWsCp a = false := DictFileL.trimCl_head line a T ht
    have ha9 : a ≠ 9 := by intro e; subst e; revert hw; decide
    rw [ht, splitTabAux, if_neg (by simpa using ha9)] at hsplit
    obtain ⟨x, hx, h9, hm⟩ := DictFileL.splitTabAux_head _ _ _ _ hsplit
    have hk : k = a :: x := by rw [hx]; rfl
    rw [hk, DictFileL.keyOk_cons]
    have hmem : ∀ c ∈ a :: x, c ∈ line := by
      intro c hc
      apply DictFileL.trimCl_mem line c
      rw [ht]
      rcases List.mem_cons.1 hc with e | e
      · exact e ▸ List.mem_cons_self
      · exact List.mem_cons_of_mem _ (hm c e)
    refine ⟨hw, ?_, fun h10 => hl (hmem 10 h10)⟩
    intro hmem9
    rcases List.mem_cons.1 hmem9 with e | e
    · exact ha9 e.symm
    · exact h9 e

/-! ### non-vacuity -/

example : topK [([97], 3), ([98], 1), ([99], 3)] (some 2) = [([97], 3), ([99], 3)] := by decide
example : topK [([97], 3), ([98], 1), ([99], 3)] (some 1) = [([99], 3)] := by decide
example : topK [([97], 3), ([98], 1), ([99], 3)] (some 5) = [([97], 3), ([98], 1), ([99], 3)] := by decide
example : countAll [[97], [98], [97], [99], [97], [98]] = [([97], 3), ([98], 2), ([99], 1)] := by decide
example : (dictCreate [[[97], [98]], [[97]], [[99]]] (some 1) (some 2)).entries = [([97], 2)] := by decide
example : (dictCreate [[[97], [98]], [[97]], [[99]]] (some 1) (some 2)).freqSum = 2 := by decide
example : closestSpec [[97]] [([[98]], 2), ([[97], [98]], 5), ([[99]], 5)] false = some ([1, 2], 5) := by decide
/-- the key-distinctness hypothesis of `topK_length` is needed: duplicates share a rank -/
example : (topK [([97], 3), ([97], 3)] (some 1)).length = 2 := by decide

/-! ### non-vacuity of the save / load round trip -/

/-- "new york" (inner space), "中文" (non-ASCII), "a"; a frequency tie between the first two -/
private def exDict : List (Key × Nat) :=
  [([110, 101, 119, 32, 121, 111, 114, 107], 7), ([0x4e2d, 0x6587], 7), ([97], 120)]

example : (∀ e ∈ exDict, keyOk e.1 = true) ∧ (∀ e ∈ exDict, e.2 < 2 ^ 64) ∧ (exDict.map (·.1)).Nodup := by decide
example : dictSave [([97, 32, 98], 7), ([0x4e2d], 120)] = [97, 32, 98, 9, 55, 10, 0x4e2d, 9, 49, 50, 48, 10] := by decide
example : loadPairs (dictSave exDict) = some exDict := by decide
example : (dictLoad (dictSave exDict)).map (fun d => (d.entries, d.freqSum)) = some (exDict, 134) := by decide
/-- `save` may write the tie in either order, but not in ascending order of frequency -/
example : saveAccepts exDict (dictSave [exDict[2], exDict[0], exDict[1]]) = true := by decide
example : saveAccepts exDict (dictSave [exDict[2], exDict[1], exDict[0]]) = true := by decide
example : saveAccepts exDict (dictSave exDict) = false := by decide
example : saveAccepts exDict (dictSave [exDict[2], exDict[0]]) = false := by decide
/-- a `\r` inside or at the end of a key, and white space at the end of a key, survive the round trip -/
example : loadPairs (dictSave [([97, 13], 3), ([98, 32], 0)]) = some [([97, 13], 3), ([98, 32], 0)] := by decide
/-- the bounds of `parseUsize_decDigits` -/
example : parseUsize (decDigits 0) = some 0 := by decide
example : parseUsize (decDigits (2 ^ 64 - 1)) = some (2 ^ 64 - 1) := by decide
example : parseUsize (decDigits (2 ^ 64)) = none := by decide
/-- `keyOk` is needed: a key with a leading space does not round-trip (`trim` removes the space) … -/
example : (dictLoad (dictSave [([32, 97], 1)])).map (·.entries) = some [([97], 1)] := by decide
example : dictLoad (dictSave [([32, 97], 1)]) ≠ some { entries := [([32, 97], 1)], freqSum := 1 } := by
  intro h
  have := congrArg (Option.map (·.entries)) h
  revert this
  decide
/-- … a key of white space only, an empty key or a key with a tab make the saved file unloadable -/
example : loadPairs (dictSave [([32], 1)]) = none := by decide
example : loadPairs (dictSave [([], 1)]) = none := by decide
example : loadPairs (dictSave [([97, 9, 98], 1)]) = none := by decide
/-- … and distinct keys are needed: `load` merges equal keys (the later value wins) -/
example : (dictLoad (dictSave [([97], 2), ([97], 1)])).map (·.entries) = some [([97], 1)] := by decide
/-- `parseLine_keyOk`: `load` accepts a `+` sign and surrounding white space, the key it returns is well-formed -/
example : parseLine [32, 97, 32, 98, 9, 43, 53, 32, 13] = some ([97, 32, 98], 5) := by decide

/-! ### the relational acceptance test `dictAccept` (Model/Dict.lean) -/

/-- the clauses of `dictAccept`, as propositions -/
theorem dictAccept_iff (lines : List (List Tok)) (maxSize maxSeq : Option Nat) (entries : List (Tok × Nat)) (freqSum : Nat) :
    dictAccept lines maxSize maxSeq entries freqSum = true ↔
    (let toks := (match maxSeq with | none => lines | some m => lines.take m).flatten
     (entries.map (·.1)).Nodup ∧
     (∀ e ∈ entries, 0 < e.2 ∧ e.2 = countOf toks e.1) ∧
     entries.length = (match maxSize with | none => (countAll toks).length | some k => min k (countAll toks).length) ∧
     (∀ e ∈ countAll toks, e.1 ∈ entries.map (·.1) ∨ e.2 ≤ (entries.map (·.2)).foldl min (toks.length + 1)) ∧
     freqSum = (entries.map (·.2)).sum) := by
  unfold dictAccept
  simp only [Bool.and_eq_true, beq_iff_eq, List.all_eq_true, Bool.or_eq_true, decide_eq_true_eq,
    List.contains_eq_mem, DictAcceptL.eraseDups_length_eq_iff]
  constructor
  · rintro ⟨⟨⟨⟨h1, h2⟩, h3⟩, h4⟩, h5⟩; exact ⟨h1, h2, h3, h4, h5⟩
  · rintro ⟨h1, h2, h3, h4, h5⟩; exact ⟨⟨⟨⟨h1, h2⟩, h3⟩, h4⟩, h5⟩


/-- the modelled function's own result is accepted (the acceptance test never refuses the modelled code) -/
theorem dictCreate_accepted (lines : List (List Tok)) (maxSize maxSeq : Option Nat) :
    dictAccept lines maxSize maxSeq (dictCreate lines maxSize maxSeq).entries
      (dictCreate lines maxSize maxSeq).freqSum = true := by
  rw [dictAccept_iff]
  simp only [dictCreate]
  generalize (match maxSeq with | none => lines | some m => lines.take m).flatten = toks
  have hsub : ∀ e ∈ topK (countAll toks) maxSize, e ∈ countAll toks := topK_sub _ _
  have hsl : (topK (countAll toks) maxSize).Sublist (countAll toks) := by
    cases maxSize with
    | none => exact List.Sublist.refl _
    | some k => exact List.filter_sublist
  refine ⟨(hsl.map _).nodup (countAll_keys_nodup toks), ?_, ?_, ?_, trivial⟩
  · intro e he
    have := (DictAcceptL.mem_countAll toks e).1 (hsub e he)
    exact ⟨this.2 ▸ (DictAcceptL.countOf_pos_iff toks e.1).2 this.1, this.2⟩
  · cases maxSize with
    | none => rfl
    | some k => exact topK_length _ k (countAll_keys_nodup toks)
  · intro e he
    by_cases hk : e ∈ topK (countAll toks) maxSize
    · exact Or.inl (List.mem_map.2 ⟨e, hk, rfl⟩)
    · right
      cases maxSize with
      | none => exact absurd he hk
      | some k =>
        apply DictAcceptL.le_foldl_min
        · have := (DictAcceptL.mem_countAll toks e).1 he
          have h2 := DictAcceptL.countOf_le_length toks e.1
          omega
        · intro x hx
          obtain ⟨x', hx', rfl⟩ := List.mem_map.1 hx
          exact topK_dominates (countAll toks) k x' e hx' he hk

/-- what acceptance means: the property's clauses -/
theorem dictAccept_spec (lines : List (List Tok)) (maxSize maxSeq : Option Nat) (entries : List (Tok × Nat)) (freqSum : Nat)
    (h : dictAccept lines maxSize maxSeq entries freqSum = true) :
    let toks := (match maxSeq with | none => lines | some m => lines.take m).flatten
    (entries.map (·.1)).Nodup ∧
    (∀ e ∈ entries, e.2 = countOf toks e.1 ∧ 0 < e.2) ∧
    entries.length = (match (generalizing := false) maxSize with | none => (countAll toks).length | some k => min k (countAll toks).length) ∧
    (∀ t, t ∈ toks → t ∉ entries.map (·.1) → ∀ e ∈ entries, countOf toks t ≤ e.2) ∧
    freqSum = (entries.map (·.2)).sum := by
  rw [dictAccept_iff] at h
  obtain ⟨h1, h2, h3, h4, h5⟩ := h
  refine ⟨h1, fun e he => ⟨(h2 e he).2, (h2 e he).1⟩, h3, ?_, h5⟩
  intro t ht hnk e he
  rcases h4 (t, countOf _ t) ((countAll_spec _ t _).2 ⟨ht, rfl⟩) with hin | hle
  · exact absurd hin hnk
  · exact Nat.le_trans hle ((DictAcceptL.foldl_min_le _ _).2 e.2 (List.mem_map.2 ⟨e, he, rfl⟩))

/-- … and conversely: the clauses of `dictAccept_spec` are all that acceptance asks for -/
theorem dictAccept_of_spec (lines : List (List Tok)) (maxSize maxSeq : Option Nat) (entries : List (Tok × Nat)) (freqSum : Nat)
    (h : let toks := (match maxSeq with | none => lines | some m => lines.take m).flatten
      (entries.map (·.1)).Nodup ∧
      (∀ e ∈ entries, e.2 = countOf toks e.1 ∧ 0 < e.2) ∧
      entries.length = (match maxSize with | none => (countAll toks).length | some k => min k (countAll toks).length) ∧
      (∀ t, t ∈ toks → t ∉ entries.map (·.1) → ∀ e ∈ entries, countOf toks t ≤ e.2) ∧
      freqSum = (entries.map (·.2)).sum) :
    dictAccept lines maxSize maxSeq entries freqSum = true := by
  rw [dictAccept_iff]
  obtain ⟨h1, h2, h3, h4, h5⟩ := h
  refine ⟨h1, fun e he => ⟨(h2 e he).2, (h2 e he).1⟩, h3, ?_, h5⟩
  intro e he
  have hm := (DictAcceptL.mem_countAll _ e).1 he
  by_cases hk : e.1 ∈ entries.map (·.1)
  · exact Or.inl hk
  · right
    apply DictAcceptL.le_foldl_min
    · rw [hm.2]
      exact Nat.le_succ_of_le (DictAcceptL.countOf_le_length _ e.1)
    · intro x hx
      obtain ⟨x', hx', rfl⟩ := List.mem_map.1 hx
      rw [hm.2]
      exact h4 e.1 hm.1 hk x' hx'

/-- with no max_size every token of the used lines is an entry -/
theorem dictAccept_unlimited (lines : List (List Tok)) (maxSeq : Option Nat) (entries : List (Tok × Nat)) (freqSum : Nat)
    (h : dictAccept lines none maxSeq entries freqSum = true) :
    let toks := (match maxSeq with | none => lines | some m => lines.take m).flatten
    ∀ t, t ∈ toks → (t, countOf toks t) ∈ entries := by
  have hs := dictAccept_spec lines none maxSeq entries freqSum h
  simp only at hs ⊢
  generalize (match maxSeq with | none => lines | some m => lines.take m).flatten = toks at hs
  obtain ⟨h1, h2, h3, -, -⟩ := hs
  intro t ht
  have hsubset : entries.map (·.1) ⊆ toks.eraseDups := by
    intro k hk
    obtain ⟨e, he, rfl⟩ := List.mem_map.1 hk
    rw [List.mem_eraseDups]
    have := h2 e he
    exact (DictAcceptL.countOf_pos_iff toks e.1).1 (this.1 ▸ this.2)
  have hperm := DictFileL.perm_of_nodup_subset (entries.map (·.1)) toks.eraseDups h1 hsubset (by
    rw [List.length_map, h3, DictAcceptL.countAll_length]; exact Nat.le_refl _)
  have hk : t ∈ entries.map (·.1) := hperm.mem_iff.2 (List.mem_eraseDups.2 ht)
  obtain ⟨e, he, rfl⟩ := List.mem_map.1 hk
  have := (h2 e he).1
  rw [← this]
  exact he


/-! ### non-vacuity of the acceptance test: a frequency tie at the cut -/

/-- tokens `a`, `b`, each twice, `max_size = 1` -/
private def tieLines : List (List Tok) := [[[97], [98]], [[98], [97]]]

/-- BOTH survivors of the tie are accepted (the model keeps `b`, the greater word) … -/
example : dictAccept tieLines (some 1) none [([97], 2)] 2 = true := by decide
example : dictAccept tieLines (some 1) none [([98], 2)] 2 = true := by decide
example : (dictCreate tieLines (some 1) none).entries = [([98], 2)] := by decide
/-- … a wrong count, too many entries, too few entries, a wrong `freq_sum`, a token that does not occur and a
repeated key are refused -/
example : dictAccept tieLines (some 1) none [([97], 1)] 1 = false := by decide
example : dictAccept tieLines (some 1) none [([97], 2), ([98], 2)] 4 = false := by decide
example : dictAccept tieLines (some 1) none [] 0 = false := by decide
example : dictAccept tieLines (some 1) none [([97], 2)] 3 = false := by decide
example : dictAccept tieLines (some 1) none [([99], 0)] 0 = false := by decide
example : dictAccept tieLines (some 2) none [([97], 2), ([97], 2)] 4 = false := by decide
/-- a kept entry less frequent than an omitted one is refused (`a` three times, `b` once, `c` twice) -/
example : dictAccept [[[97], [98], [97]], [[99], [97], [99]]] (some 2) none [([97], 3), ([98], 1)] 4 = false := by decide
example : dictAccept [[[97], [98], [97]], [[99], [97], [99]]] (some 2) none [([99], 2), ([97], 3)] 5 = true := by decide
example : dictAccept [[[97], [98], [97]], [[99], [97], [99]]] (some 1) none [([99], 2)] 2 = false := by decide
/-- `max_size = 0`, the empty corpus, `max_sequences`, and no `max_size` (any order of the entries) -/
example : dictAccept tieLines (some 0) none [] 0 = true := by decide
example : dictAccept tieLines (some 0) none [([97], 2)] 2 = false := by decide
example : dictAccept [] (some 3) none [] 0 = true := by decide
example : dictAccept [] none none [] 0 = true := by decide
example : dictAccept [[[97], [98]], [[97]], [[99]]] none (some 2) [([98], 1), ([97], 2)] 3 = true := by decide
example : dictAccept [[[97], [98]], [[97]], [[99]]] none (some 2) [([97], 2), ([98], 1), ([99], 1)] 4 = false := by decide
example : dictAccept [[[97], [98]], [[97]], [[99]]] none (some 2) [([97], 2)] 2 = false := by decide

end Tu.C20
