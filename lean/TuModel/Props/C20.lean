/-
  C20 — frequency dictionary (`Dictionary::create`) and closest-entry queries (`get_closest`).
  Model: `Tu.countOf`, `Tu.countAll`, `Tu.topK`, `Tu.dictCreate`, `Tu.closestSpec` (Model/Dict.lean).
-/
import TuModel.Lemmas.DictL
namespace Tu.C20
open Tu

/-- counting is independent of the order in which lines / per-line count maps are merged (worker interleaving) -/
theorem countOf_perm (a b : List Tok) (h : a.Perm b) (t : Tok) : countOf a t = countOf b t := by
  unfold countOf
  exact (h.filter _).length_eq

/-- `countAll` is exactly the frequency table: distinct keys, each with its number of occurrences -/
theorem countAll_spec (toks : List Tok) (t : Tok) (n : Nat) :
    (t, n) ∈ countAll toks ↔ t ∈ toks ∧ n = countOf toks t := by
  unfold countAll
  simp only [List.mem_map, Prod.mk.injEq, List.mem_eraseDups]
  constructor
  · rintro ⟨t', ht', rfl, rfl⟩; exact ⟨ht', rfl⟩
  · rintro ⟨ht, rfl⟩; exact ⟨t, ht, rfl, rfl⟩

theorem countAll_keys_nodup (toks : List Tok) : ((countAll toks).map (·.1)).Nodup := by
  unfold countAll
  rw [List.map_map]
  have : ((fun x : Tok × Nat => x.1) ∘ fun t => (t, countOf toks t)) = id := rfl
  rw [this, List.map_id]
  exact DictL.nodup_eraseDups toks

theorem countAll_perm_mem (a b : List Tok) (h : a.Perm b) (e : Tok × Nat) :
    e ∈ countAll a ↔ e ∈ countAll b := by
  obtain ⟨t, n⟩ := e
  rw [countAll_spec, countAll_spec, h.mem_iff, countOf_perm a b h]

/-- the kept entries are entries … -/
theorem topK_sub (entries : List (Tok × Nat)) (k : Option Nat) : ∀ e ∈ topK entries k, e ∈ entries := by
  intro e he
  cases k with
  | none => exact he
  | some k => exact (List.mem_filter.1 he).1

/-- … an absent `max_size` keeps everything … -/
theorem topK_none (entries : List (Tok × Nat)) : topK entries none = entries := rfl

/-- … no omitted entry is more frequent than a kept one … -/
theorem topK_dominates (entries : List (Tok × Nat)) (k : Nat) (x y : Tok × Nat)
    (hx : x ∈ topK entries (some k)) (hy : y ∈ entries) (hny : y ∉ topK entries (some k)) : y.2 ≤ x.2 := by
  simp only [topK, List.mem_filter, decide_eq_true_eq] at hx hny
  apply Classical.byContradiction
  intro hlt
  have hlt' : x.2 < y.2 := by omega
  have := DictL.rankOf_lt_of_lt entries x y (DictL.entryLt_of_freq_lt x y hlt') hy
  exact hny ⟨hy, by omega⟩

/-- … and exactly `min k n` entries are kept (keys distinct) -/
theorem topK_length (entries : List (Tok × Nat)) (k : Nat) (hnd : (entries.map (·.1)).Nodup) :
    (topK entries (some k)).length = min k entries.length :=
  DictL.filter_rank_length entries k hnd

/-- `freq_sum` is the total of the kept frequencies (by construction), and the created dictionary only depends
on the multiset of tokens of the used lines -/
theorem dictCreate_freqSum (lines : List (List Tok)) (ms mq : Option Nat) :
    (dictCreate lines ms mq).freqSum = ((dictCreate lines ms mq).entries.map (·.2)).sum := rfl

theorem dictCreate_entries_mem (lines : List (List Tok)) (mq : Option Nat) (e : Tok × Nat) :
    e ∈ (dictCreate lines none mq).entries ↔
      e.1 ∈ (match mq with | none => lines | some m => lines.take m).flatten ∧
      e.2 = countOf (match mq with | none => lines | some m => lines.take m).flatten e.1 := by
  obtain ⟨t, n⟩ := e
  simp only [dictCreate, topK]
  exact countAll_spec _ t n

/-- every index returned by `closestSpec` is at minimal distance, and has the maximal frequency among the
entries at minimal distance -/
theorem closestSpec_ok (q : List (List Nat)) (es : List (List (List Nat) × Nat)) (norm : Bool) (idxs : List Nat) (f : Nat)
    (h : closestSpec q es norm = some (idxs, f)) :
    ∀ i ∈ idxs, ∃ e, es[i]? = some e ∧ e.2 = f ∧
      ∀ e' ∈ es,
        let d := fun (x : List (List Nat) × Nat) => (editDistance { swap := false, sid := false } q x.1, if norm then normDen q x.1 else 1)
        (d e).1 * (d e').2 ≤ (d e').1 * (d e).2 ∧
        ((d e').1 * (d e).2 ≤ (d e).1 * (d e').2 → e'.2 ≤ f) := by
  rw [DictL.closestSpec_eq] at h
  exact DictL.closestGen_ok _ (by
    intro e
    show 0 < (if norm then normDen q e.1 else 1)
    split
    · exact DictL.normDen_pos _ _
    · exact Nat.one_pos) es idxs f h

/-- `closestSpec` answers whenever the dictionary is non-empty, with at least one index -/
theorem closestSpec_isSome (q : List (List Nat)) (es : List (List (List Nat) × Nat)) (norm : Bool) (hne : es ≠ []) :
    (closestSpec q es norm).isSome = true := by
  cases es with
  | nil => exact absurd rfl hne
  | cons e0 es => rfl

/-! ### non-vacuity -/

example : topK [([97], 3), ([98], 1), ([99], 3)] (some 2) = [([97], 3), ([99], 3)] := by decide
example : topK [([97], 3), ([98], 1), ([99], 3)] (some 1) = [([99], 3)] := by decide
example : topK [([97], 3), ([98], 1), ([99], 3)] (some 5) = [([97], 3), ([98], 1), ([99], 3)] := by decide
example : countAll [[97], [98], [97], [99], [97], [98]] = [([97], 3), ([98], 2), ([99], 1)] := by decide
example : (dictCreate [[[97], [98]], [[97]], [[99]]] (some 1) (some 2)).entries = [([97], 2)] := by decide
example : (dictCreate [[[97], [98]], [[97]], [[99]]] (some 1) (some 2)).freqSum = 2 := by decide
example : closestSpec [[97]] [([[98]], 2), ([[97], [98]], 5), ([[99]], 5)] false = some ([1, 2], 5) := by decide
/-- the key-distinctness hypothesis of `topK_length` is needed: duplicates share a rank -/
example : (topK [([97], 3), ([97], 3)] (some 1)).length = 2 := by decide

end Tu.C20
