/-
  C11 — clean() produces the whitespace normal form; word boundaries match it.

  All statements are about the cluster-level model `Tu.cleanCl` / `Tu.wordBoundaries` /
  `Tu.removeWsCl` / `Tu.fullCl` (Model/Text.lean) and hold for every text (list of clusters).
  `Stable s` (trim is the identity on the non-white-space clusters) holds in code-point mode and on
  the property's grapheme-mode domain (`stable_of_unmixed`, `unmixed_of_singletons`).
-/
import TuModel.Lemmas.TextL
namespace Tu.C11
open Tu

/-! ### clean is in normal form -/

theorem cleanAux_clean (s : List (List Nat)) (lastWs ne : Bool) (st : CSt)
    (h : (ne = false ∧ st = .start) ∨ (ne = true ∧ st = .ch)) :
    cleanSt st (cleanAux s lastWs ne) = true := by
  induction s generalizing lastWs ne st with
  | nil => rcases h with ⟨_, rfl⟩ | ⟨_, rfl⟩ <;> simp [cleanAux, cleanSt]
  | cons c cs ih =>
    unfold cleanAux
    by_cases hw : isWsCl c = true
    · simp only [hw, if_true]; exact ih _ _ _ h
    · have hw' : isWsCl c = false := by simpa using hw
      have ht : isWsCl (trimCl c) = false := by rw [isWsCl_trimCl]; exact hw'
      have hne := trimCl_ne_nil hw'
      simp only [hw', Bool.false_eq_true, if_false]
      have ih' := ih false true .ch (Or.inr ⟨rfl, rfl⟩)
      rcases h with ⟨rfl, rfl⟩ | ⟨rfl, rfl⟩
      · simp [cleanSt, ht, hne, ih']
      · cases lastWs <;> simp [cleanSt, ht, hne, ih', isWsCl_sp]

/-- `clean(s)` has no leading, trailing or consecutive whitespace and uses only single spaces. -/
theorem clean_Clean (s : List (List Nat)) : CleanB (cleanCl s) = true :=
  cleanAux_clean s false false .start (Or.inl ⟨rfl, rfl⟩)

/-! ### clean preserves the non-whitespace characters -/

theorem cleanAux_nonws (s : List (List Nat)) (lastWs ne : Bool) :
    removeWsCl (cleanAux s lastWs ne) = (removeWsCl s).map trimCl := by
  induction s generalizing lastWs ne with
  | nil => simp [cleanAux, removeWsCl]
  | cons c cs ih =>
    unfold cleanAux
    by_cases hw : isWsCl c = true
    · simp only [hw, if_true]; rw [ih]; simp [removeWsCl, hw]
    · have hw' : isWsCl c = false := by simpa using hw
      have ht : isWsCl (trimCl c) = false := by rw [isWsCl_trimCl]; exact hw'
      simp only [hw', Bool.false_eq_true, if_false]
      have := ih false (ne || !(trimCl c).isEmpty)
      simp only [removeWsCl] at this ⊢
      split <;> simp [ht, hw', isWsCl_sp, this]

/-- the sequence of non-whitespace characters is preserved (each trimmed) -/
theorem clean_nonws (s : List (List Nat)) : removeWsCl (cleanCl s) = (removeWsCl s).map trimCl :=
  cleanAux_nonws s false false

theorem map_trim_stable {s : List (List Nat)} (h : Stable s) : (removeWsCl s).map trimCl = removeWsCl s := by
  induction s with
  | nil => rfl
  | cons c cs ih =>
    by_cases hw : isWsCl c = true
    · simp [removeWsCl, hw] at ih ⊢; exact ih h.tail
    · have hw' : isWsCl c = false := by simpa using hw
      simp [removeWsCl, hw'] at ih ⊢
      exact ⟨h c List.mem_cons_self hw', ih h.tail⟩

/-- on the property's domain the non-whitespace character sequence is preserved exactly -/
theorem clean_nonws_stable {s : List (List Nat)} (h : Stable s) : removeWsCl (cleanCl s) = removeWsCl s := by
  rw [clean_nonws, map_trim_stable h]

/-! ### a text in normal form is a fixed point; idempotence -/

theorem cleanAux_fix (t : List (List Nat)) (h : Stable t) :
    (cleanSt .start t = true → cleanAux t false false = t) ∧
    (cleanSt .ch t = true → cleanAux t false true = t) ∧
    (cleanSt .sep t = true → cleanAux t true true = sp :: t) := by
  induction t with
  | nil => simp [cleanAux, cleanSt]
  | cons c cs ih =>
    obtain ⟨ih1, ih2, ih3⟩ := ih h.tail
    by_cases hw : isWsCl c = true
    · refine ⟨?_, ?_, ?_⟩
      · intro hc; simp [cleanSt, hw] at hc
      · intro hc
        simp [cleanSt, hw] at hc
        obtain ⟨rfl, hc⟩ := hc
        unfold cleanAux; simp only [hw, if_true]
        exact ih3 hc
      · intro hc; simp [cleanSt, hw] at hc
    · have hw' : isWsCl c = false := by simpa using hw
      have htr : trimCl c = c := h c List.mem_cons_self hw'
      have hne : c.isEmpty = false := by rw [← htr]; exact trimCl_ne_nil hw'
      refine ⟨?_, ?_, ?_⟩ <;> intro hc <;> simp [cleanSt, hw'] at hc <;>
        unfold cleanAux <;> simp [hw', htr, hne, ih2 hc]

/-- a text already in normal form is left unchanged -/
theorem clean_of_Clean {t : List (List Nat)} (h : Stable t) (hc : CleanB t = true) : cleanCl t = t :=
  (cleanAux_fix t h).1 hc

theorem cleanAux_stable (s : List (List Nat)) (h : Stable s) (lastWs ne : Bool) :
    Stable (cleanAux s lastWs ne) := by
  induction s generalizing lastWs ne with
  | nil => intro c hc; simp [cleanAux] at hc
  | cons c cs ih =>
    unfold cleanAux
    by_cases hw : isWsCl c = true
    · simp only [hw, if_true]; exact ih h.tail _ _
    · have hw' : isWsCl c = false := by simpa using hw
      have htr : trimCl c = c := h c List.mem_cons_self hw'
      simp only [hw', Bool.false_eq_true, if_false]
      intro d hd hdw
      simp only [List.mem_append, List.mem_cons] at hd
      rcases hd with hd | rfl | hd
      · split at hd
        · simp at hd; subst hd; simp [isWsCl_sp] at hdw
        · simp at hd
      · rw [htr, htr]
      · exact ih h.tail _ _ d hd hdw

/-- `clean` is idempotent -/
theorem clean_idem {s : List (List Nat)} (h : Stable s) : cleanCl (cleanCl s) = cleanCl s :=
  clean_of_Clean (cleanAux_stable s h false false) (clean_Clean s)

/-! ### clean = split on whitespace, join with single spaces -/

theorem splitWs_ne_nil_of_nonws {c : List Nat} {cs : List (List Nat)} (h : isWsCl c = false) :
    splitWs (c :: cs) ≠ [] := by
  simp only [splitWs, h, Bool.false_eq_true, if_false, consWord]
  split <;> simp

theorem cleanAux_eq_join (s : List (List Nat)) (h : Stable s) (lastWs ne : Bool) :
    cleanAux s lastWs ne =
      (if ne && (lastWs || startsWs s) && !(splitWs s).isEmpty then [sp] else []) ++ joinSp (splitWs s) := by
  induction s generalizing lastWs ne with
  | nil => simp [cleanAux, splitWs, joinSp]
  | cons c cs ih =>
    unfold cleanAux
    by_cases hw : isWsCl c = true
    · simp only [hw, if_true]; rw [ih h.tail]; simp [splitWs, hw, startsWs]
    · have hw' : isWsCl c = false := by simpa using hw
      have htr : trimCl c = c := h c List.mem_cons_self hw'
      have hne : c.isEmpty = false := by rw [← htr]; exact trimCl_ne_nil hw'
      have hnn := splitWs_ne_nil_of_nonws (cs := cs) hw'
      have hnn' : (splitWs (c :: cs)).isEmpty = false := by
        cases hx : splitWs (c :: cs) with
        | nil => exact absurd hx hnn
        | cons _ _ => rfl
      simp only [hw', Bool.false_eq_true, if_false, htr]
      rw [ih h.tail false (ne || !c.isEmpty)]
      have hsw : startsWs (c :: cs) = isWsCl c := rfl
      simp only [hne, Bool.not_false, Bool.or_true, Bool.true_and, Bool.false_or, hsw, hw', hnn', Bool.or_false]
      have hbody : c :: ((if (startsWs cs && !(splitWs cs).isEmpty) = true then [sp] else []) ++ joinSp (splitWs cs))
          = joinSp (splitWs (c :: cs)) := by
        simp only [splitWs, hw', Bool.false_eq_true, if_false]
        cases cs with
        | nil => simp [startsWs, splitWs, consWord, joinSp]
        | cons d ds =>
          by_cases hd : isWsCl d = true
          · simp only [startsWs, hd, consWord, Bool.true_and]
            cases hx : splitWs (d :: ds) with
            | nil => simp [joinSp]
            | cons w ws => simp [joinSp]
          · have hd' : isWsCl d = false := by simpa using hd
            have := splitWs_ne_nil_of_nonws (cs := ds) hd'
            cases hx : splitWs (d :: ds) with
            | nil => exact absurd hx this
            | cons w ws =>
              simp only [startsWs, hd', consWord, Bool.false_and, Bool.false_eq_true, if_false, List.nil_append]
              cases ws <;> simp [joinSp]
      rw [← hbody]
      cases lastWs <;> cases ne <;> simp

/-- `clean(s)` equals the whitespace-split words joined by single spaces -/
theorem clean_eq_join {s : List (List Nat)} (h : Stable s) : cleanCl s = joinSp (splitWs s) := by
  unfold cleanCl; rw [cleanAux_eq_join s h]; simp

/-- `joinSp` is `join(" ")` -/
theorem joinSp_eq_intercalate (ws : List (List (List Nat))) : joinSp ws = List.intercalate [sp] ws := by
  induction ws with
  | nil => rfl
  | cons w ws ih =>
    cases ws with
    | nil => simp [joinSp, List.intercalate]
    | cons w' rest => simp [joinSp, ih, List.intercalate, List.intersperse]

/-! ### word boundaries -/

/-- ranges are non-empty, in order, separated by at least one position, and end by `hi` -/
def SepFrom : Nat → Nat → List (Nat × Nat) → Prop
  | _, _, [] => True
  | lo, hi, (a, b) :: rest => lo ≤ a ∧ a < b ∧ b ≤ hi ∧ SepFrom (b + 1) hi rest

def inRanges (wb : List (Nat × Nat)) (i : Nat) : Bool := wb.any (fun p => p.1 ≤ i && i < p.2)

theorem SepFrom.mono {lo lo' hi : Nat} {l : List (Nat × Nat)} (h : SepFrom lo hi l) (hl : lo' ≤ lo) : SepFrom lo' hi l := by
  cases l with
  | nil => trivial
  | cons p rest =>
    obtain ⟨a, b⟩ := p
    obtain ⟨h1, h2, h3, h4⟩ := h
    exact ⟨by omega, h2, h3, h4⟩

theorem wbAux_sep (cs : List (List Nat)) (idx : Nat) :
    SepFrom idx (idx + cs.length) (wbAux cs idx none) ∧
    ∀ st, st < idx → SepFrom st (idx + cs.length) (wbAux cs idx (some st)) := by
  induction cs generalizing idx with
  | nil => constructor
           · simp [wbAux, SepFrom]
           · intro st h; simp [wbAux, h, SepFrom]
  | cons c cs ih =>
    obtain ⟨ih1, ih2⟩ := ih (idx + 1)
    have e : idx + 1 + cs.length = idx + (c :: cs).length := by simp; omega
    rw [e] at ih1 ih2
    constructor
    · by_cases hw : isWsCl c = true
      · simp only [wbAux, hw]; exact ih1.mono (by omega)
      · have hw' : isWsCl c = false := by simpa using hw
        simp only [wbAux, hw']; exact ih2 idx (by omega)
    · intro st hst
      by_cases hw : isWsCl c = true
      · simp only [wbAux, hw, SepFrom]; refine ⟨by omega, hst, by simp, ih1⟩
      · have hw' : isWsCl c = false := by simpa using hw
        simp only [wbAux, hw']; exact ih2 st (by omega)

/-- the ranges are non-empty, strictly increasing, pairwise separated and inside the text -/
theorem wordBoundaries_sep (s : List (List Nat)) : SepFrom 0 s.length (wordBoundaries s) := by
  have := (wbAux_sep s 0).1; simpa [wordBoundaries] using this

def nonWsAt (cs : List (List Nat)) (k : Nat) : Bool := match cs[k]? with | some c => !isWsCl c | none => false

theorem nonWsAt_cons_succ (c : List Nat) (cs) (k) : nonWsAt (c :: cs) (k+1) = nonWsAt cs k := by
  simp [nonWsAt]
theorem nonWsAt_cons_zero (c : List Nat) (cs) : nonWsAt (c :: cs) 0 = !isWsCl c := by
  simp [nonWsAt]

theorem wbAux_cover (cs : List (List Nat)) (idx i : Nat) :
    (inRanges (wbAux cs idx none) i = (decide (idx ≤ i) && nonWsAt cs (i - idx))) ∧
    ∀ st, st < idx → inRanges (wbAux cs idx (some st)) i =
      ((decide (st ≤ i) && decide (i < idx)) || (decide (idx ≤ i) && nonWsAt cs (i - idx))) := by
  induction cs generalizing idx with
  | nil => constructor
           · simp [wbAux, inRanges, nonWsAt]
           · intro st h; simp [wbAux, h, inRanges, nonWsAt]
  | cons c cs ih =>
    obtain ⟨ih1, ih2⟩ := ih (idx + 1)
    have hcons : ∀ p l, inRanges (p :: l) i = ((decide (p.1 ≤ i) && decide (i < p.2)) || inRanges l i) := by
      intro p l; simp [inRanges]
    rcases Nat.lt_trichotomy i idx with hlt | heq | hgt
    · -- i < idx
      have e1 : decide (idx ≤ i) = false := by simp; omega
      have e2 : decide (idx + 1 ≤ i) = false := by simp; omega
      have e3 : decide (i < idx) = true := by simp; omega
      have e4 : decide (i < idx + 1) = true := by simp; omega
      constructor
      · by_cases hw : isWsCl c = true
        · simp only [wbAux, hw, ih1, e1, e2, Bool.false_and]
        · have hw' : isWsCl c = false := by simpa using hw
          simp only [wbAux, hw', ih2 idx (by omega), e1, e2, Bool.false_and, Bool.or_false]
      · intro st hst
        by_cases hw : isWsCl c = true
        · simp only [wbAux, hw, hcons, ih1, e1, e2, e3, Bool.false_and, Bool.or_false]
        · have hw' : isWsCl c = false := by simpa using hw
          simp only [wbAux, hw', ih2 st (by omega), e1, e2, e3, e4, Bool.false_and, Bool.or_false]
    · subst heq
      have e1 : decide (i ≤ i) = true := by simp
      have e2 : decide (i + 1 ≤ i) = false := by simp
      have e3 : decide (i < i) = false := by simp
      have e4 : decide (i < i + 1) = true := by simp
      have e5 : nonWsAt (c :: cs) (i - i) = !isWsCl c := by simp [nonWsAt]
      constructor
      · by_cases hw : isWsCl c = true
        · simp only [wbAux, hw, ih1, e1, e2, e5, Bool.false_and]; simp
        · have hw' : isWsCl c = false := by simpa using hw
          simp only [wbAux, hw', ih2 i (by omega), e1, e2, e4, e5, Bool.false_and, Bool.or_false]
          simp
      · intro st hst
        have e6 : decide (st ≤ i) = true := by simp; omega
        by_cases hw : isWsCl c = true
        · simp only [wbAux, hw, hcons, ih1, e1, e2, e3, e5, e6, Bool.false_and, Bool.or_false]; simp
        · have hw' : isWsCl c = false := by simpa using hw
          simp only [wbAux, hw', ih2 st (by omega), e1, e2, e3, e4, e5, e6, Bool.false_and, Bool.or_false]
          simp
    · have e1 : decide (idx ≤ i) = true := by simp; omega
      have e2 : decide (idx + 1 ≤ i) = true := by simp; omega
      have e3 : decide (i < idx) = false := by simp; omega
      have e4 : decide (i < idx + 1) = false := by simp; omega
      have e5 : nonWsAt (c :: cs) (i - idx) = nonWsAt cs (i - (idx + 1)) := by
        have : i - idx = (i - (idx + 1)) + 1 := by omega
        rw [this, nonWsAt_cons_succ]
      constructor
      · by_cases hw : isWsCl c = true
        · simp only [wbAux, hw, ih1, e1, e2, e5]
        · have hw' : isWsCl c = false := by simpa using hw
          simp only [wbAux, hw', ih2 idx (by omega), e1, e2, e4, e5, Bool.and_false, Bool.false_or]
      · intro st hst
        by_cases hw : isWsCl c = true
        · simp only [wbAux, hw, hcons, ih1, e1, e2, e3, e5, Bool.and_false, Bool.false_or]
        · have hw' : isWsCl c = false := by simpa using hw
          simp only [wbAux, hw', ih2 st (by omega), e1, e2, e3, e4, e5, Bool.and_false, Bool.false_or]
/-- a position lies in one of the reported ranges iff it holds a non-whitespace character; with
`wordBoundaries_sep` (non-empty, ordered, separated ranges) the ranges are therefore exactly the
maximal runs of non-whitespace characters, i.e. the words, in order -/
theorem wordBoundaries_cover (s : List (List Nat)) (i : Nat) :
    inRanges (wordBoundaries s) i = nonWsAt s i := by
  have := (wbAux_cover s 0 i).1; simpa [wordBoundaries] using this

/-! ### remove / full -/

/-- `remove(s)` is `s` without its whitespace characters (code points), on the property's domain -/
theorem remove_eq {s : List (List Nat)} (h : unmixed s = true) :
    removeWs s = s.flatten.filter (fun x => !isWsCp x) := by
  induction s with
  | nil => rfl
  | cons c cs ih =>
    have hc : unmixed cs = true := by simp [unmixed] at h ⊢; exact h.2
    have ih := ih hc
    simp only [unmixed, List.all_cons, Bool.and_eq_true] at h
    simp only [removeWs, removeWsCl] at ih ⊢
    by_cases hw : isWsCl c = true
    · have : c.filter (fun x => !isWsCp x) = [] := by
        simp only [isWsCl, List.all_eq_true] at hw
        simp [List.filter_eq_nil_iff]; exact hw
      simp [hw, this, ih]
    · have hw' : isWsCl c = false := by simpa using hw
      have hall : c.all (fun x => !isWsCp x) = true := by
        have := h.1; simp [hw'] at this; simpa using this.2
      have : c.filter (fun x => !isWsCp x) = c := by
        rw [List.filter_eq_self]; simpa using hall
      simp [hw', this, ih]

/-- `full(s)`: the remaining characters, one space between neighbours; it is in normal form and has
the same non-whitespace characters -/
theorem full_eq (s : List (List Nat)) : fullCl s = (s.filter (fun c => !isWsCl c)).intersperse sp := rfl

theorem full_nonws (s : List (List Nat)) : removeWsCl (fullCl s) = removeWsCl s := by
  unfold fullCl
  have : ∀ l : List (List Nat), (∀ c ∈ l, isWsCl c = false) → removeWsCl (l.intersperse sp) = l := by
    intro l
    induction l with
    | nil => intro _; rfl
    | cons a l ih =>
      intro h
      have ha := h a List.mem_cons_self
      have ih := ih (fun c hc => h c (List.mem_cons_of_mem _ hc))
      cases l with
      | nil => simp [removeWsCl, ha]
      | cons b l => simp [List.intersperse, removeWsCl, ha, isWsCl_sp] at ih ⊢; exact ih
  apply this
  intro c hc; simp [removeWsCl] at hc; exact hc.2

/-! ### non-vacuity -/

example : cleanCl [[32], [97], [9], [10], [98], [32]] = [[97], sp, [98]] := by decide
example : wordBoundaries [[32], [97], [9], [10], [98], [99]] = [(1, 2), (4, 6)] := by decide
example : Stable [[32], [97], [13, 10], [98, 769]] := stable_of_unmixed (by decide)

end Tu.C11
