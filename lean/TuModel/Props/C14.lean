/-
  C14 — whitespace corruption changes only whitespace and stays label-consistent.
  Model: `Tu.corruptWsCl` (Model/Whitespace.lean).  `ds` is the list of per-character threshold
  outcomes `(r < delete_p, r < insert_p)`; every theorem is for *all* decision lists, hence for all
  probabilities and all seeds.
-/
import TuModel.Props.C10
import TuModel.Lemmas.CwMatchL
import TuModel.Lemmas.CwWitnessL
namespace Tu.C14
open Tu Tu.C10

/-- the non-whitespace character sequence is unchanged -/
theorem cwAux_nonws (s : List (List Nat)) (ds : List (Bool × Bool)) (first prevWs : Bool)
    (h : ds.length = s.length) :
    removeWsCl (corruptWsAux s ds first prevWs) = removeWsCl s := by
  induction s generalizing ds first prevWs with
  | nil => cases ds <;> simp [corruptWsAux]
  | cons c cs ih =>
    cases ds with
    | nil => simp at h
    | cons d ds =>
      have hl : ds.length = cs.length := by simpa using h
      have := ih ds false (isWsCl c) hl
      simp only [corruptWsAux]
      by_cases hw : isWsCl c = true
      · simp only [hw, if_true]
        split <;> simp [removeWsCl, hw] at this ⊢ <;> exact this
      · have hw' : isWsCl c = false := by simpa using hw
        simp only [hw', Bool.false_eq_true, if_false]
        split <;> simp [removeWsCl, hw', isWsCl_sp] at this ⊢ <;> exact this

theorem cw_nonws (s : List (List Nat)) (ds : List (Bool × Bool)) (h : ds.length = s.length) :
    removeWsCl (corruptWsCl s ds) = removeWsCl s := cwAux_nonws s ds true false h

/-- the corrupted text is again in whitespace normal form -/
theorem cwAux_clean (s : List (List Nat)) : ∀ (ds : List (Bool × Bool)) (st so : CSt),
    ds.length = s.length → cleanSt st s = true →
    ((st = .start ∧ so = .start) ∨ (st = .ch ∧ so = .ch) ∨ (st = .sep ∧ (so = .sep ∨ so = .ch))) →
    cleanSt so (corruptWsAux s ds (decide (st = .start)) (decide (st = .sep))) = true := by
  induction s with
  | nil =>
    intro ds st so h hc hrel
    cases ds with
    | cons _ _ => simp at h
    | nil =>
      simp only [corruptWsAux]
      rcases hrel with ⟨rfl, rfl⟩ | ⟨rfl, rfl⟩ | ⟨rfl, _⟩
      · rfl
      · rfl
      · simp [cleanSt] at hc
  | cons c cs ih =>
    intro ds st so h hc hrel
    cases ds with
    | nil => simp at h
    | cons d ds =>
      have hl : ds.length = cs.length := by simpa using h
      simp only [corruptWsAux]
      by_cases hw : isWsCl c = true
      · obtain ⟨rfl, rfl, hc'⟩ := clean_ws_head hc hw
        have hso : so = .ch := by rcases hrel with ⟨h, _⟩ | ⟨_, h⟩ | ⟨h, _⟩ <;> first | exact h | cases h
        subst hso
        simp only [isWsCl_sp, if_true]
        cases hd : d.1
        · have := ih ds .sep .sep hl hc' (Or.inr (Or.inr ⟨rfl, Or.inl rfl⟩))
          simp at this
          simp [cleanSt, isWsCl_sp, this]
        · have := ih ds .sep .ch hl hc' (Or.inr (Or.inr ⟨rfl, Or.inr rfl⟩))
          simp at this
          simp [this]
      · have hw' : isWsCl c = false := by simpa using hw
        have hc' := clean_nonws_head hc hw'
        have := ih ds .ch .ch hl hc' (Or.inr (Or.inl ⟨rfl, rfl⟩))
        simp at this
        simp only [hw', Bool.false_eq_true, if_false]
        split
        · rename_i hcond
          have hso : so = .ch := by
            rcases hrel with ⟨rfl, _⟩ | ⟨_, h⟩ | ⟨rfl, _⟩
            · simp at hcond
            · exact h
            · simp at hcond
          subst hso
          simp [cleanSt, isWsCl_sp, hw', this]
        · simp [cleanSt, hw', this]

theorem cw_Clean (s : List (List Nat)) (ds : List (Bool × Bool)) (h : ds.length = s.length)
    (hc : CleanB s = true) : CleanB (corruptWsCl s ds) = true := by
  have := cwAux_clean s ds .start .start h hc (Or.inl ⟨rfl, rfl⟩)
  simpa [corruptWsCl, CleanB] using this

/-- **label consistency**: from the corrupted text, `operations` yields exactly one label per
character and `repair` recovers the original text -/
theorem cw_recover (s : List (List Nat)) (ds : List (Bool × Bool)) (h : ds.length = s.length)
    (hc : CleanB s = true) :
    ∃ o, wsOps (corruptWsCl s ds) s = some o ∧ o.length = (corruptWsCl s ds).length ∧
      repairCl (corruptWsCl s ds) o = some s :=
  ops_total_and_repair (cw_Clean s ds h hc) hc (cw_nonws s ds h)

/-- with delete probability 0 (no delete decision fires) nothing disappears: the original is a
subsequence of the output -/
theorem cwAux_no_delete (s : List (List Nat)) (ds : List (Bool × Bool)) (first prevWs : Bool)
    (h : ds.length = s.length) (hd : ∀ d ∈ ds, d.1 = false) :
    List.Sublist s (corruptWsAux s ds first prevWs) := by
  induction s generalizing ds first prevWs with
  | nil => cases ds <;> simp [corruptWsAux]
  | cons c cs ih =>
    cases ds with
    | nil => simp at h
    | cons d ds =>
      have hl : ds.length = cs.length := by simpa using h
      have hd0 : d.1 = false := hd d List.mem_cons_self
      have := ih ds false (isWsCl c) hl (fun x hx => hd x (List.mem_cons_of_mem _ hx))
      simp only [corruptWsAux, hd0]
      split
      · simpa using this
      · split
        · exact List.Sublist.cons _ (this.cons_cons _)
        · exact this.cons_cons _

theorem cw_no_delete (s : List (List Nat)) (ds : List (Bool × Bool)) (h : ds.length = s.length)
    (hd : ∀ d ∈ ds, d.1 = false) : List.Sublist s (corruptWsCl s ds) := cwAux_no_delete s ds true false h hd

/-- with insert probability 0 nothing appears: the output is a subsequence of the original -/
theorem cwAux_no_insert (s : List (List Nat)) (ds : List (Bool × Bool)) (first prevWs : Bool)
    (hd : ∀ d ∈ ds, d.2 = false) :
    List.Sublist (corruptWsAux s ds first prevWs) s := by
  induction s generalizing ds first prevWs with
  | nil => cases ds <;> simp [corruptWsAux]
  | cons c cs ih =>
    cases ds with
    | nil => simp [corruptWsAux]
    | cons d ds =>
      have hd0 : d.2 = false := hd d List.mem_cons_self
      have := ih ds false (isWsCl c) (fun x hx => hd x (List.mem_cons_of_mem _ hx))
      simp only [corruptWsAux, hd0]
      split
      · split
        · simpa using List.Sublist.cons c this
        · simpa using this.cons_cons c
      · simpa using this.cons_cons c

theorem cw_no_insert (s : List (List Nat)) (ds : List (Bool × Bool)) (hd : ∀ d ∈ ds, d.2 = false) :
    List.Sublist (corruptWsCl s ds) s := cwAux_no_insert s ds true false hd

/-- only separators are ever inserted or deleted: the output and the input agree after removing
whitespace, so in particular no whitespace count can change except through `ds` -/
theorem cw_length_bounds (s : List (List Nat)) (ds : List (Bool × Bool)) (h : ds.length = s.length) :
    (removeWsCl (corruptWsCl s ds)).length = (removeWsCl s).length := by rw [cw_nonws s ds h]

/-! non-vacuity -/
example : corruptWsCl [[97], [98], sp, [99]] [(false, true), (false, true), (true, false), (false, true)]
    = [[97], sp, [98], [99]] := by decide
example : CleanB [[97], [98], sp, [99]] = true := by decide


/-! ## the relational acceptance test `cwMatch` / `cwAllowed` accepts exactly the outputs of the model

`cwMatch f s true false out` is what the correspondence check evaluates (Drive/TextD.lean).  The theorems
below say that it accepts `out` iff `out` is the output of `corruptWsCl s ds` for a decision list `ds`
(one decision per character) every entry of which the flags allow.

`cwMatch_sound` for ARBITRARY flags is false: for the inconsistent flags
`⟨mayDel := true, mustDel := false, mayIns := false, mustIns := true⟩` ("insertion is impossible and
certain") no decision is allowed at all, yet `cwMatch` accepts `[]` for the text `[[32]]` (the examples
after `cwMatch_sound_partial`).  The statement is true exactly for flags with "certain ⇒ possible"
(`CwFlags.consistent`, equivalent to "some decision is allowed", `CwFlags.consistent_iff`), which
`CwFlags.ofPermille` always produces, so `cwAllowed_iff` holds as stated, without extra hypothesis. -/

/-- soundness, generalised over the position flags `first prevWs` -/
theorem cwMatchAux_sound (f : CwFlags) (hf : f.consistent = true) (s : List (List Nat))
    (first prevWs : Bool) (out : List Nat) (h : cwMatch f s first prevWs out = true) :
    ∃ ds : List (Bool × Bool), ds.length = s.length ∧ (∀ d ∈ ds, f.allows d = true) ∧
      (corruptWsAux s ds first prevWs).flatten = out :=
  Tu.cwMatchAux_sound f hf s first prevWs out h

/-- completeness, generalised over the position flags `first prevWs` (arbitrary flags) -/
theorem cwMatchAux_complete (f : CwFlags) (s : List (List Nat)) (ds : List (Bool × Bool))
    (first prevWs : Bool) (hl : ds.length = s.length) (ha : ∀ d ∈ ds, f.allows d = true) :
    cwMatch f s first prevWs (corruptWsAux s ds first prevWs).flatten = true :=
  Tu.cwMatchAux_complete f s ds first prevWs hl ha

/- The statement as requested, FALSE for inconsistent flags (counterexample below):

theorem cwMatch_sound (f : CwFlags) (s : List (List Nat)) (out : List Nat)
    (h : cwMatch f s true false out = true) :
    ∃ ds : List (Bool × Bool), ds.length = s.length ∧ (∀ d ∈ ds, f.allows d = true) ∧
      (corruptWsCl s ds).flatten = out
-/

/-- soundness: an accepted output is the output of `corruptWsCl` for some decision list the flags allow;
for consistent flags (`mustDel → mayDel`, `mustIns → mayIns`) -/
theorem cwMatch_sound_partial (f : CwFlags) (hf : f.consistent = true) (s : List (List Nat))
    (out : List Nat) (h : cwMatch f s true false out = true) :
    ∃ ds : List (Bool × Bool), ds.length = s.length ∧ (∀ d ∈ ds, f.allows d = true) ∧
      (corruptWsCl s ds).flatten = out :=
  Tu.cwMatchAux_sound f hf s true false out h

/-- the counterexample to the unrestricted soundness statement: these flags allow no decision … -/
example : ∀ d : Bool × Bool, (CwFlags.mk true false false true).allows d = false := by
  rintro ⟨a, b⟩; cases a <;> cases b <;> decide
/-- … but the acceptance test accepts an output for a one-character text -/
example : cwMatch (CwFlags.mk true false false true) [[32]] true false [] = true := by decide
example : (CwFlags.mk true false false true).consistent = false := by decide
/-- the consistency hypothesis is necessary as soon as the text is not empty: soundness for one non-empty
text already implies it -/
theorem cwMatch_sound_needs_consistent (f : CwFlags) (s : List (List Nat)) (hs : s ≠ [])
    (out : List Nat) (h : cwMatch f s true false out = true)
    (hsound : ∃ ds : List (Bool × Bool), ds.length = s.length ∧ (∀ d ∈ ds, f.allows d = true) ∧
      (corruptWsCl s ds).flatten = out) : f.consistent = true := by
  obtain ⟨ds, hl, ha, _⟩ := hsound
  cases ds with
  | nil => cases s with
    | nil => exact absurd rfl hs
    | cons _ _ => simp at hl
  | cons d ds => exact (CwFlags.consistent_iff f).mpr ⟨d, ha d List.mem_cons_self⟩

/-- completeness: every output of the function model under allowed decisions is accepted -/
theorem cwMatch_complete (f : CwFlags) (s : List (List Nat)) (ds : List (Bool × Bool))
    (hl : ds.length = s.length) (ha : ∀ d ∈ ds, f.allows d = true) :
    cwMatch f s true false (corruptWsCl s ds).flatten = true :=
  Tu.cwMatchAux_complete f s ds true false hl ha

/-- acceptance = producibility, for consistent flags -/
theorem cwMatch_iff (f : CwFlags) (hf : f.consistent = true) (s : List (List Nat)) (out : List Nat) :
    cwMatch f s true false out = true ↔
      ∃ ds : List (Bool × Bool), ds.length = s.length ∧ (∀ d ∈ ds, f.allows d = true) ∧
        (corruptWsCl s ds).flatten = out := by
  constructor
  · exact cwMatch_sound_partial f hf s out
  · rintro ⟨ds, hl, ha, rfl⟩
    exact cwMatch_complete f s ds hl ha

/-- the two together, for the probabilities of a request (no extra hypothesis: the flags of two
probabilities are always consistent) -/
theorem cwAllowed_iff (iw dw : Nat) (s : List (List Nat)) (out : List Nat) :
    cwAllowed iw dw s out = true ↔
      ∃ ds : List (Bool × Bool), ds.length = s.length ∧
        (∀ d ∈ ds, (CwFlags.ofPermille iw dw).allows d = true) ∧
        (corruptWsCl s ds).flatten = out :=
  cwMatch_iff _ (CwFlags.ofPermille_consistent iw dw) s out

/-! ### the property theorems, transferred to every accepted output -/

/-- every accepted output of a clean text is the flattening of a clustered text `corruptWsCl s ds` that
has the same non-whitespace clusters, is clean again, and from which `operations` / `repair` recover
the original (`cw_nonws`, `cw_Clean`, `cw_recover` for that `ds`) -/
theorem cwAllowed_props (iw dw : Nat) (s : List (List Nat)) (out : List Nat)
    (hc : CleanB s = true) (h : cwAllowed iw dw s out = true) :
    ∃ ds : List (Bool × Bool), ds.length = s.length ∧
      (∀ d ∈ ds, (CwFlags.ofPermille iw dw).allows d = true) ∧
      (corruptWsCl s ds).flatten = out ∧
      removeWsCl (corruptWsCl s ds) = removeWsCl s ∧
      CleanB (corruptWsCl s ds) = true ∧
      ∃ o, wsOps (corruptWsCl s ds) s = some o ∧ o.length = (corruptWsCl s ds).length ∧
        repairCl (corruptWsCl s ds) o = some s := by
  obtain ⟨ds, hl, ha, he⟩ := (cwAllowed_iff iw dw s out).mp h
  exact ⟨ds, hl, ha, he, cw_nonws s ds hl, cw_Clean s ds hl hc, cw_recover s ds hl hc⟩

/-- the part of `cwAllowed_props` that needs no cleanness: same non-whitespace clusters -/
theorem cwAllowed_nonws (iw dw : Nat) (s : List (List Nat)) (out : List Nat)
    (h : cwAllowed iw dw s out = true) :
    ∃ cl : List (List Nat), cl.flatten = out ∧ removeWsCl cl = removeWsCl s := by
  obtain ⟨ds, hl, _, he⟩ := (cwAllowed_iff iw dw s out).mp h
  exact ⟨corruptWsCl s ds, he, cw_nonws s ds hl⟩

/-- on code points: the function model changes only whitespace code points -/
theorem cwAux_nonws_cp (s : List (List Nat)) (ds : List (Bool × Bool)) (first prevWs : Bool)
    (h : ds.length = s.length) :
    (corruptWsAux s ds first prevWs).flatten.filter (fun x => !isWsCp x) =
      s.flatten.filter (fun x => !isWsCp x) := by
  induction s generalizing ds first prevWs with
  | nil => rw [corruptWsAux_nil]
  | cons c cs ih =>
    cases ds with
    | nil => simp at h
    | cons d ds =>
      have hl : ds.length = cs.length := by simpa using h
      by_cases hw : isWsCl c = true
      · have hcf : c.filter (fun x => !isWsCp x) = [] := by
          rw [List.filter_eq_nil_iff]
          intro x hx
          have := List.all_eq_true.mp hw x hx
          simp [this]
        rw [corruptWsAux_ws cs d ds first prevWs hw]
        cases d.1 <;> simp [ih ds false true hl, hcf]
      · have hw' : isWsCl c = false := by simpa using hw
        rw [corruptWsAux_nonws cs d ds first prevWs hw']
        have hsp : sp.filter (fun x => !isWsCp x) = [] := by decide
        split <;> simp [ih ds false false hl, hsp]

/-- every accepted output has exactly the non-whitespace code points of the text, in order (a statement
about `out` itself; no hypothesis on the text) -/
theorem cwAllowed_nonws_cp (iw dw : Nat) (s : List (List Nat)) (out : List Nat)
    (h : cwAllowed iw dw s out = true) :
    out.filter (fun x => !isWsCp x) = s.flatten.filter (fun x => !isWsCp x) := by
  obtain ⟨ds, hl, _, rfl⟩ := (cwAllowed_iff iw dw s out).mp h
  exact cwAux_nonws_cp s ds true false hl

theorem sublist_flatten {α} {l₁ l₂ : List (List α)} (h : List.Sublist l₁ l₂) :
    List.Sublist l₁.flatten l₂.flatten := by
  induction h with
  | slnil => exact List.Sublist.refl _
  | cons a _ ih => simpa using List.sublist_append_of_sublist_right ih
  | cons_cons a _ ih => simpa using List.Sublist.append (List.Sublist.refl a) ih

/-- with delete probability 0 every accepted output comes from a decision list that never deletes, so
(`cw_no_delete`) the text is a subsequence of the output: nothing disappears -/
theorem cwAllowed_no_delete (iw : Nat) (s : List (List Nat)) (out : List Nat)
    (h : cwAllowed iw 0 s out = true) :
    ∃ ds : List (Bool × Bool), ds.length = s.length ∧ (∀ d ∈ ds, d.1 = false) ∧
      (corruptWsCl s ds).flatten = out ∧ List.Sublist s (corruptWsCl s ds) := by
  obtain ⟨ds, hl, ha, he⟩ := (cwAllowed_iff iw 0 s out).mp h
  have hd : ∀ d ∈ ds, d.1 = false := by
    intro d hd
    have := ha d hd
    simp only [CwFlags.allows, CwFlags.ofPermille, Bool.and_eq_true, Bool.or_eq_true] at this
    rcases this.1.1.1 with h1 | h1
    · simpa using h1
    · simp at h1
  exact ⟨ds, hl, hd, he, cw_no_delete s ds hl hd⟩

theorem cwAllowed_no_delete_sublist (iw : Nat) (s : List (List Nat)) (out : List Nat)
    (h : cwAllowed iw 0 s out = true) : List.Sublist s.flatten out := by
  obtain ⟨ds, _, _, rfl, hs⟩ := cwAllowed_no_delete iw s out h
  exact sublist_flatten hs

/-- with insert probability 0 every accepted output comes from a decision list that never inserts, so
(`cw_no_insert`) the output is a subsequence of the text: nothing appears -/
theorem cwAllowed_no_insert (dw : Nat) (s : List (List Nat)) (out : List Nat)
    (h : cwAllowed 0 dw s out = true) :
    ∃ ds : List (Bool × Bool), ds.length = s.length ∧ (∀ d ∈ ds, d.2 = false) ∧
      (corruptWsCl s ds).flatten = out ∧ List.Sublist (corruptWsCl s ds) s := by
  obtain ⟨ds, hl, ha, he⟩ := (cwAllowed_iff 0 dw s out).mp h
  have hd : ∀ d ∈ ds, d.2 = false := by
    intro d hd
    have := ha d hd
    simp only [CwFlags.allows, CwFlags.ofPermille, Bool.and_eq_true, Bool.or_eq_true] at this
    rcases this.1.2 with h1 | h1
    · simpa using h1
    · simp at h1
  exact ⟨ds, hl, hd, he, cw_no_insert s ds hd⟩

theorem cwAllowed_no_insert_sublist (dw : Nat) (s : List (List Nat)) (out : List Nat)
    (h : cwAllowed 0 dw s out = true) : List.Sublist out s.flatten := by
  obtain ⟨ds, _, _, rfl, hs⟩ := cwAllowed_no_insert dw s out h
  exact sublist_flatten hs

/-- with delete probability 1 (and dually insert probability 1) every decision of the witness deletes
(inserts): the "must" flags are not vacuous -/
theorem cwAllowed_must (iw dw : Nat) (s : List (List Nat)) (out : List Nat)
    (h : cwAllowed iw dw s out = true) :
    ∃ ds : List (Bool × Bool), ds.length = s.length ∧ (corruptWsCl s ds).flatten = out ∧
      (1000 ≤ dw → ∀ d ∈ ds, d.1 = true) ∧ (1000 ≤ iw → ∀ d ∈ ds, d.2 = true) := by
  obtain ⟨ds, hl, ha, he⟩ := (cwAllowed_iff iw dw s out).mp h
  refine ⟨ds, hl, he, ?_, ?_⟩
  · intro hdw d hd
    have := ha d hd
    simp only [CwFlags.allows, CwFlags.ofPermille, Bool.and_eq_true, Bool.or_eq_true] at this
    rcases this.1.1.2 with h1 | h1
    · simp at h1; omega
    · exact h1
  · intro hiw d hd
    have := ha d hd
    simp only [CwFlags.allows, CwFlags.ofPermille, Bool.and_eq_true, Bool.or_eq_true] at this
    rcases this.2 with h1 | h1
    · simp at h1; omega
    · exact h1

/-! non-vacuity of the acceptance test: the clean two-word text "ab cd" -/
example : CleanB [[97], [98], sp, [99], [100]] = true := by decide
/-- identity -/
example : cwAllowed 500 500 [[97], [98], sp, [99], [100]] [97, 98, 32, 99, 100] = true := by decide
/-- a space inserted before `b` -/
example : cwAllowed 500 500 [[97], [98], sp, [99], [100]] [97, 32, 98, 32, 99, 100] = true := by decide
/-- the space deleted -/
example : cwAllowed 500 500 [[97], [98], sp, [99], [100]] [97, 98, 99, 100] = true := by decide
/-- refused: a double space (no insertion directly after a space of the original) -/
example : cwAllowed 500 500 [[97], [98], sp, [99], [100]] [97, 98, 32, 32, 99, 100] = false := by decide
/-- refused: a space before the first character -/
example : cwAllowed 500 500 [[97], [98], sp, [99], [100]] [32, 97, 98, 32, 99, 100] = false := by decide
/-- refused: a changed non-whitespace character -/
example : cwAllowed 500 500 [[97], [98], sp, [99], [100]] [97, 98, 32, 99, 101] = false := by decide
/-- insert probability 0 refuses an inserted space -/
example : cwAllowed 0 500 [[97], [98], sp, [99], [100]] [97, 32, 98, 32, 99, 100] = false := by decide
/-- delete probability 0 refuses a deleted space -/
example : cwAllowed 500 0 [[97], [98], sp, [99], [100]] [97, 98, 99, 100] = false := by decide
/-- insert probability 1 refuses an output that lacks a mandatory insertion … -/
example : cwAllowed 1000 500 [[97], [98], sp, [99], [100]] [97, 98, 32, 99, 100] = false := by decide
example : cwAllowed 1000 500 [[97], [98], sp, [99], [100]] [97, 32, 98, 32, 99, 100] = false := by decide
/-- … and accepts the ones with all of them (space kept / deleted) -/
example : cwAllowed 1000 500 [[97], [98], sp, [99], [100]] [97, 32, 98, 32, 99, 32, 100] = true := by decide
example : cwAllowed 1000 500 [[97], [98], sp, [99], [100]] [97, 32, 98, 99, 32, 100] = true := by decide
/-- delete probability 1 refuses a kept space -/
example : cwAllowed 500 1000 [[97], [98], sp, [99], [100]] [97, 98, 32, 99, 100] = false := by decide
/-- the witness decision list of the iff for the accepted output with an inserted space -/
example : corruptWsCl [[97], [98], sp, [99], [100]]
    [(false, false), (false, true), (false, false), (false, false), (false, false)]
    = [[97], sp, [98], sp, [99], [100]] := by decide
/-- the empty cluster counts as whitespace in the model; test and function model agree on it -/
example : cwAllowed 500 500 [[], [97]] [97] = true := by decide
example : cwAllowed 500 500 [sp, [97], [98]] [97, 32, 98] = true := by decide
example : cwAllowed 500 500 [sp, [97], [98]] [32, 32, 97, 98] = false := by decide

/-! ## the witness `cwWitness`: the corrupted cluster list of the first admissible explanation

`cwWitness f s true false out` is what the driver uses to derive the labels of the whitespace-correction task
(`wsOps inp s` for the returned `inp`).  It is defined exactly where `cwMatch` accepts
(`cwWitness_isSome_iff`, arbitrary flags); the returned cluster list spells `out` and is an output of the
function model for a decision list the flags allow (`cwWitness_spec`, consistent flags as for
`cwMatch_sound_partial`); hence for the probabilities of a request the derived labels are those of a genuine
corruption (`cwWitness_labels`). -/

/-- the witness exists exactly when the output is accepted -/
theorem cwWitness_isSome_iff (f : CwFlags) (s : List (List Nat)) (first prevWs : Bool) (out : List Nat) :
    (cwWitness f s first prevWs out).isSome = cwMatch f s first prevWs out :=
  Tu.cwWitnessAux_isSome f s first prevWs out

/-- the witness is an output of the function model for a decision list the flags allow, and it spells `out` -/
theorem cwWitness_spec (f : CwFlags) (hf : f.consistent = true) (s : List (List Nat)) (first prevWs : Bool)
    (out : List Nat) (inp : List (List Nat)) (h : cwWitness f s first prevWs out = some inp) :
    inp.flatten = out ∧
    ∃ ds : List (Bool × Bool), ds.length = s.length ∧ (∀ d ∈ ds, f.allows d = true) ∧
      corruptWsAux s ds first prevWs = inp :=
  Tu.cwWitnessAux_spec f hf s first prevWs out inp h

/-- an accepted output has a witness, a refused one has none -/
theorem cwWitness_of_match (f : CwFlags) (s : List (List Nat)) (first prevWs : Bool) (out : List Nat)
    (h : cwMatch f s first prevWs out = true) : ∃ inp, cwWitness f s first prevWs out = some inp :=
  Option.isSome_iff_exists.mp ((cwWitness_isSome_iff f s first prevWs out).trans h)

theorem cwWitness_none_iff (f : CwFlags) (s : List (List Nat)) (first prevWs : Bool) (out : List Nat) :
    cwWitness f s first prevWs out = none ↔ cwMatch f s first prevWs out = false := by
  rw [← cwWitness_isSome_iff]
  cases cwWitness f s first prevWs out <;> simp

/-- for the probabilities of a request: the labels the driver derives are those of a genuine corruption, so on a
clean text they exist, there is one per character of the corrupted text, and repairing the corrupted text with
them gives the original text back -/
theorem cwWitness_labels (iw dw : Nat) (s : List (List Nat)) (hc : CleanB s = true) (out : List Nat)
    (inp : List (List Nat))
    (h : cwWitness (CwFlags.ofPermille iw dw) s true false out = some inp) :
    inp.flatten = out ∧ CleanB inp = true ∧
    ∃ o, wsOps inp s = some o ∧ o.length = inp.length ∧ repairCl inp o = some s := by
  obtain ⟨hfl, ds, hl, _, he⟩ :=
    cwWitness_spec _ (CwFlags.ofPermille_consistent iw dw) s true false out inp h
  have he' : corruptWsCl s ds = inp := he
  subst he'
  exact ⟨hfl, cw_Clean s ds hl hc, cw_recover s ds hl hc⟩

/-- the same, starting from acceptance: every accepted output of a clean text has a witness with these
properties (this is the situation of the driver: `cwAllowed` has succeeded) -/
theorem cwAllowed_witness_labels (iw dw : Nat) (s : List (List Nat)) (hc : CleanB s = true) (out : List Nat)
    (h : cwAllowed iw dw s out = true) :
    ∃ inp, cwWitness (CwFlags.ofPermille iw dw) s true false out = some inp ∧
      inp.flatten = out ∧ CleanB inp = true ∧ removeWsCl inp = removeWsCl s ∧
      ∃ o, wsOps inp s = some o ∧ o.length = inp.length ∧ repairCl inp o = some s := by
  obtain ⟨inp, hi⟩ := cwWitness_of_match _ s true false out h
  obtain ⟨hfl, ds, hl, _, he⟩ :=
    cwWitness_spec _ (CwFlags.ofPermille_consistent iw dw) s true false out inp hi
  have he' : corruptWsCl s ds = inp := he
  subst he'
  exact ⟨_, hi, hfl, cw_Clean s ds hl hc, cw_nonws s ds hl, cw_recover s ds hl hc⟩

/-! non-vacuity of the witness: the clean two-word text "ab cd" -/
/-- a space inserted before `b` -/
example : cwWitness (CwFlags.ofPermille 500 500) [[97], [98], sp, [99], [100]] true false
    [97, 32, 98, 32, 99, 100] = some [[97], sp, [98], sp, [99], [100]] := by decide
/-- the space deleted -/
example : cwWitness (CwFlags.ofPermille 500 500) [[97], [98], sp, [99], [100]] true false
    [97, 98, 99, 100] = some [[97], [98], [99], [100]] := by decide
/-- identity -/
example : cwWitness (CwFlags.ofPermille 500 500) [[97], [98], sp, [99], [100]] true false
    [97, 98, 32, 99, 100] = some [[97], [98], sp, [99], [100]] := by decide
/-- a refused output (double space) has no witness -/
example : cwWitness (CwFlags.ofPermille 500 500) [[97], [98], sp, [99], [100]] true false
    [97, 98, 32, 32, 99, 100] = none := by decide
/-- the labels derived from the two witnesses, and the repair -/
example : wsOps [[97], sp, [98], sp, [99], [100]] [[97], [98], sp, [99], [100]] =
    some [.keep, .delete, .keep, .keep, .keep, .keep] := by decide
example : wsOps [[97], [98], [99], [100]] [[97], [98], sp, [99], [100]] =
    some [.keep, .keep, .insert, .keep] := by decide
example : repairCl [[97], [98], [99], [100]] [.keep, .keep, .insert, .keep] =
    some [[97], [98], sp, [99], [100]] := by decide
/-- several explanations (text "a  b" with two separators, one of them deleted): the first admissible one,
which deletes the FIRST separator, is returned; both explanations give the same cluster list -/
example : cwWitness (CwFlags.ofPermille 500 500) [[97], sp, sp, [98]] true false [97, 32, 98] =
    some [[97], sp, [98]] := by decide
/-- "ab" → "a b": only by insertion -/
example : cwWitness (CwFlags.ofPermille 500 500) [[97], [98]] true false [97, 32, 98] =
    some [[97], sp, [98]] := by decide
/-- empty clusters count as white space and may vanish or stay: two explanations with DIFFERENT cluster
lists (same code points); the first admissible one (deletion, if the delete probability is > 0) is returned.
Then a text starting with white space. -/
example : cwWitness (CwFlags.ofPermille 500 500) [[], [97]] true false [97] = some [[97]] := by decide
example : cwWitness (CwFlags.ofPermille 500 0) [[], [97]] true false [97] = some [[], [97]] := by decide
example : cwWitness (CwFlags.ofPermille 500 500) [sp, [97], [98]] true false [97, 32, 98] =
    some [[97], sp, [98]] := by decide
example : cwWitness (CwFlags.ofPermille 500 500) [sp, [97], [98]] true false [32, 32, 97, 98] = none := by
  decide


end Tu.C14
