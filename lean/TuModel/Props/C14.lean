/-
  C14 — whitespace corruption changes only whitespace and stays label-consistent.
  Model: `Tu.corruptWsCl` (Model/Whitespace.lean).  `ds` is the list of per-character threshold
  outcomes `(r < delete_p, r < insert_p)`; every theorem is for *all* decision lists, hence for all
  probabilities and all seeds.
-/
import TuModel.Props.C10
namespace Tu.C14
open Tu Tu.C10

/-- the non-whitespace character sequence is unchanged -/
theorem cwAux_nonws (s : List (List Nat)) (ds : List (Bool × Bool)) (first prevWs : Bool)
    (h : ds.length = s.length) :
    removeWsCl (corruptWsAux s ds first prevWs) = removeWsCl s := by
  induction s generalizing ds first prevWs with
  | nil => cases ds <;> simp [corruptWsAux]
  | cons c cs ih =>
    cases ds with
    | nil => simp at h
    | cons d ds =>
      have hl : ds.length = cs.length := by simpa using h
      have := ih ds false (isWsCl c) hl
      simp only [corruptWsAux]
      by_cases hw : isWsCl c = true
      · simp only [hw, if_true]
        split <;> simp [removeWsCl, hw] at this ⊢ <;> exact this
      · have hw' : isWsCl c = false := by simpa using hw
        simp only [hw', Bool.false_eq_true, if_false]
        split <;> simp [removeWsCl, hw', isWsCl_sp] at this ⊢ <;> exact this

theorem cw_nonws (s : List (List Nat)) (ds : List (Bool × Bool)) (h : ds.length = s.length) :
    removeWsCl (corruptWsCl s ds) = removeWsCl s := cwAux_nonws s ds true false h

/-- the corrupted text is again in whitespace normal form -/
theorem cwAux_clean (s : List (List Nat)) : ∀ (ds : List (Bool × Bool)) (st so : CSt),
    ds.length = s.length → cleanSt st s = true →
    ((st = .start ∧ so = .start) ∨ (st = .ch ∧ so = .ch) ∨ (st = .sep ∧ (so = .sep ∨ so = .ch))) →
    cleanSt so (corruptWsAux s ds (decide (st = .start)) (decide (st = .sep))) = true := by
  induction s with
  | nil =>
    intro ds st so h hc hrel
    cases ds with
    | cons _ _ => simp at h
    | nil =>
      simp only [corruptWsAux]
      rcases hrel with ⟨rfl, rfl⟩ | ⟨rfl, rfl⟩ | ⟨rfl, _⟩
      · rfl
      · rfl
      · simp [cleanSt] at hc
  | cons c cs ih =>
    intro ds st so h hc hrel
    cases ds with
    | nil => simp at h
    | cons d ds =>
      have hl : ds.length = cs.length := by simpa using h
      simp only [corruptWsAux]
      by_cases hw : isWsCl c = true
      · obtain ⟨rfl, rfl, hc'⟩ := clean_ws_head hc hw
        have hso : so = .ch := by rcases hrel with ⟨h, _⟩ | ⟨_, h⟩ | ⟨h, _⟩ <;> first | exact h | cases h
        subst hso
        simp only [isWsCl_sp, if_true]
        cases hd : d.1
        · have := ih ds .sep .sep hl hc' (Or.inr (Or.inr ⟨rfl, Or.inl rfl⟩))
          simp at this
          simp [cleanSt, isWsCl_sp, this]
        · have := ih ds .sep .ch hl hc' (Or.inr (Or.inr ⟨rfl, Or.inr rfl⟩))
          simp at this
          simp [this]
      · have hw' : isWsCl c = false := by simpa using hw
        have hc' := clean_nonws_head hc hw'
        have := ih ds .ch .ch hl hc' (Or.inr (Or.inl ⟨rfl, rfl⟩))
        simp at this
        simp only [hw', Bool.false_eq_true, if_false]
        split
        · rename_i hcond
          have hso : so = .ch := by
            rcases hrel with ⟨rfl, _⟩ | ⟨_, h⟩ | ⟨rfl, _⟩
            · simp at hcond
            · exact h
            · simp at hcond
          subst hso
          simp [cleanSt, isWsCl_sp, hw', this]
        · simp [cleanSt, hw', this]

theorem cw_Clean (s : List (List Nat)) (ds : List (Bool × Bool)) (h : ds.length = s.length)
    (hc : CleanB s = true) : CleanB (corruptWsCl s ds) = true := by
  have := cwAux_clean s ds .start .start h hc (Or.inl ⟨rfl, rfl⟩)
  simpa [corruptWsCl, CleanB] using this

/-- **label consistency**: from the corrupted text, `operations` yields exactly one label per
character and `repair` recovers the original text -/
theorem cw_recover (s : List (List Nat)) (ds : List (Bool × Bool)) (h : ds.length = s.length)
    (hc : CleanB s = true) :
    ∃ o, wsOps (corruptWsCl s ds) s = some o ∧ o.length = (corruptWsCl s ds).length ∧
      repairCl (corruptWsCl s ds) o = some s :=
  ops_total_and_repair (cw_Clean s ds h hc) hc (cw_nonws s ds h)

/-- with delete probability 0 (no delete decision fires) nothing disappears: the original is a
subsequence of the output -/
theorem cwAux_no_delete (s : List (List Nat)) (ds : List (Bool × Bool)) (first prevWs : Bool)
    (h : ds.length = s.length) (hd : ∀ d ∈ ds, d.1 = false) :
    List.Sublist s (corruptWsAux s ds first prevWs) := by
  induction s generalizing ds first prevWs with
  | nil => cases ds <;> simp [corruptWsAux]
  | cons c cs ih =>
    cases ds with
    | nil => simp at h
    | cons d ds =>
      have hl : ds.length = cs.length := by simpa using h
      have hd0 : d.1 = false := hd d List.mem_cons_self
      have := ih ds false (isWsCl c) hl (fun x hx => hd x (List.mem_cons_of_mem _ hx))
      simp only [corruptWsAux, hd0]
      split
      · simpa using this
      · split
        · exact List.Sublist.cons _ (this.cons_cons _)
        · exact this.cons_cons _

theorem cw_no_delete (s : List (List Nat)) (ds : List (Bool × Bool)) (h : ds.length = s.length)
    (hd : ∀ d ∈ ds, d.1 = false) : List.Sublist s (corruptWsCl s ds) := cwAux_no_delete s ds true false h hd

/-- with insert probability 0 nothing appears: the output is a subsequence of the original -/
theorem cwAux_no_insert (s : List (List Nat)) (ds : List (Bool × Bool)) (first prevWs : Bool)
    (hd : ∀ d ∈ ds, d.2 = false) :
    List.Sublist (corruptWsAux s ds first prevWs) s := by
  induction s generalizing ds first prevWs with
  | nil => cases ds <;> simp [corruptWsAux]
  | cons c cs ih =>
    cases ds with
    | nil => simp [corruptWsAux]
    | cons d ds =>
      have hd0 : d.2 = false := hd d List.mem_cons_self
      have := ih ds false (isWsCl c) (fun x hx => hd x (List.mem_cons_of_mem _ hx))
      simp only [corruptWsAux, hd0]
      split
      · split
        · simpa using List.Sublist.cons c this
        · simpa using this.cons_cons c
      · simpa using this.cons_cons c

theorem cw_no_insert (s : List (List Nat)) (ds : List (Bool × Bool)) (hd : ∀ d ∈ ds, d.2 = false) :
    List.Sublist (corruptWsCl s ds) s := cwAux_no_insert s ds true false hd

/-- only separators are ever inserted or deleted: the output and the input agree after removing
whitespace, so in particular no whitespace count can change except through `ds` -/
theorem cw_length_bounds (s : List (List Nat)) (ds : List (Bool × Bool)) (h : ds.length = s.length) :
    (removeWsCl (corruptWsCl s ds)).length = (removeWsCl s).length := by rw [cw_nonws s ds h]

/-! non-vacuity -/
example : corruptWsCl [[97], [98], sp, [99]] [(false, true), (false, true), (true, false), (false, true)]
    = [[97], sp, [98], [99]] := by decide
example : CleanB [[97], [98], sp, [99]] = true := by decide

end Tu.C14
