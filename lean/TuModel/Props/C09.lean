/-
  C09 — abandoning never wedges the loader: bounded lookahead, prompt stop.
  Models: `Tu.pstep` (threaded `Pipe`) and `Tu.bstep` (`Buffered` producer), Model/Pipe.lean.
-/
import TuModel.Lemmas.PipeProg
import TuModel.Lemmas.BufL
namespace Tu.C09
open Tu
set_option linter.unusedVariables false

/-! ### any upstream (it need not be fused) -/

/-- while the consumer is there, workers pull at most `2 * W` items ahead of what was consumed -/
theorem pipe_lookahead_gen (W : Nat) (src : Nat → Bool) (hW : 1 ≤ W) (s : PState) (h : PReach W src s)
    (hd : s.dropped = false) : s.next ≤ s.recvd.length + 2 * W := by
  have hi := inv_reach h
  have hcount := hi.count
  have hbusy := sum_range_le (fun u => (s.pc u).busy) 1 (fun u => by cases s.pc u <;> simp [PC.busy]) W
  have hcl := hi.chan_le
  have hL : s.turn ≤ (s.recvd ++ s.chan).length := by
    rcases hi.len_turn hd with hl | ⟨u, ok, hu, hpc⟩
    · omega
    · have := hi.len_sent hd u _ ok hu hpc; omega
  rw [List.length_append] at hL
  omega

/-- after the consumer dropped the iterator no worker takes more than one further item:
`next + takesLeft` never grows, and `takesLeft ≤ W` -/
theorem pipe_drop_stops_gen (W : Nat) (src : Nat → Bool) (hW : 1 ≤ W) (s s' : PState) (a : PAction)
    (h : PReach W src s) (hd : s.dropped = true) (hs : pstep s a = some s') :
    s'.dropped = true ∧ s'.next + takesLeft s' ≤ s.next + takesLeft s ∧ takesLeft s ≤ W := by
  obtain ⟨h1, h2⟩ := drop_step hd hs
  have := takesLeft_le s
  rw [(inv_reach h).hW] at this
  exact ⟨h1, h2, this⟩

/-- after `drop`, while some worker has not exited, a measure-decreasing step of a *worker* is enabled
(the consumer's actions are all disabled after `drop`); the measure is the one of C05, for an upstream that
is exhausted from its `N`-th call on -/
theorem pipe_drop_exits_worker_gen (W : Nat) (src : Nat → Bool) (hW : 1 ≤ W) (N : Nat)
    (hN : ∀ k, N ≤ k → src k = false) (s : PState) (h : PReach W src s)
    (hd : s.dropped = true) (hne : allExited s = false) :
    ∃ a s', a ≠ PAction.drop ∧ a ≠ PAction.recv ∧ a ≠ PAction.close ∧
      pstep s a = some s' ∧ pmeasure N s' < pmeasure N s := by
  have hi := inv_reach h
  have : ∃ w, w < W ∧ s.pc w ≠ .exited := by
    apply Classical.byContradiction
    intro hcon
    have : allExited s = true := by
      rw [allExited_iff, hi.hW]
      intro w hw
      apply Classical.byContradiction
      intro hne
      exact hcon ⟨w, hw, hne⟩
    rw [this] at hne; cases hne
  obtain ⟨w, hw, hpc⟩ := this
  exact worker_progress hi (by rw [hi.hsrc]; exact hN) hw hpc (Or.inl hd)

/-- … and every worker eventually exits: while some worker has not exited, a worker step that
decreases the measure is enabled (nothing can block any more: sends fail immediately) -/
theorem pipe_drop_exits_gen (W : Nat) (src : Nat → Bool) (hW : 1 ≤ W) (N : Nat)
    (hN : ∀ k, N ≤ k → src k = false) (s : PState) (h : PReach W src s) (hd : s.dropped = true)
    (hne : allExited s = false) : ∃ a s', pstep s a = some s' ∧ pmeasure N s' < pmeasure N s := by
  obtain ⟨a, s', _, _, _, hs, hm⟩ := pipe_drop_exits_worker_gen W src hW N hN s h hd hne
  exact ⟨a, s', hs, hm⟩

/-! ### fused upstream of `n` items -/

/-- while the consumer is there, workers pull at most `2 * W` items ahead of what was consumed -/
theorem pipe_lookahead (W n : Nat) (hW : 1 ≤ W) (s : PState) (h : PReach W (fused n) s) (hd : s.dropped = false) :
    s.next ≤ s.recvd.length + 2 * W :=
  pipe_lookahead_gen W (fused n) hW s h hd

/-- after the consumer dropped the iterator no worker takes more than one further item:
`next + takesLeft` never grows, and `takesLeft ≤ W` -/
theorem pipe_drop_stops (W n : Nat) (hW : 1 ≤ W) (s s' : PState) (a : PAction) (h : PReach W (fused n) s)
    (hd : s.dropped = true) (hs : pstep s a = some s') :
    s'.dropped = true ∧ s'.next + takesLeft s' ≤ s.next + takesLeft s ∧ takesLeft s ≤ W :=
  pipe_drop_stops_gen W (fused n) hW s s' a h hd hs

/-- after `drop`, while some worker has not exited, a measure-decreasing step of a *worker* is enabled
(the consumer's actions are all disabled after `drop`) -/
theorem pipe_drop_exits_worker (W n : Nat) (hW : 1 ≤ W) (s : PState) (h : PReach W (fused n) s)
    (hd : s.dropped = true) (hne : allExited s = false) :
    ∃ a s', a ≠ PAction.drop ∧ a ≠ PAction.recv ∧ a ≠ PAction.close ∧
      pstep s a = some s' ∧ pmeasure n s' < pmeasure n s :=
  pipe_drop_exits_worker_gen W (fused n) hW n (fun _ hk => fused_false hk) s h hd hne

/-- … and every worker eventually exits: while some worker has not exited, a worker step that
decreases the measure is enabled (nothing can block any more: sends fail immediately) -/
theorem pipe_drop_exits (W n : Nat) (hW : 1 ≤ W) (s : PState) (h : PReach W (fused n) s) (hd : s.dropped = true)
    (hne : allExited s = false) : ∃ a s', pstep s a = some s' ∧ pmeasure n s' < pmeasure n s :=
  pipe_drop_exits_gen W (fused n) hW n (fun _ hk => fused_false hk) s h hd hne

/-! ### `Buffered` -/

/-- `Buffered`: bounded lookahead while the consumer is there … -/
theorem buffered_lookahead (B n : Nat) (s : BufState) (h : BReach B n s) (hd : s.dropped = false) :
    s.pulled ≤ s.recvd.length + B + 1 := by
  have hi := binv_reach h
  have hf := congrArg List.length (hi.fifo hd)
  have hcl := hi.chan_le
  have hp : s.pc.pend.length ≤ 1 := by cases s.pc <;> simp [BPC.pend]
  simp only [List.length_append, List.length_range] at hf
  omega

/-- … and after a drop at most one more item is pulled, and the producer is never blocked -/
theorem buffered_drop_stops (B n : Nat) (s s' : BufState) (a : BAction) (h : BReach B n s)
    (hd : s.dropped = true) (hs : bstep s a = some s') :
    s'.dropped = true ∧ s'.pulled + (if s'.pc = BPC.idle then 1 else 0) ≤ s.pulled + (if s.pc = BPC.idle then 1 else 0) := by
  cases a with
  | pull =>
    simp only [bstep] at hs
    split at hs
    · rename_i hpc
      split at hs
      · injection hs with hs; subst hs
        refine ⟨hd, ?_⟩
        dsimp only; rw [if_pos hpc]; simp
      · injection hs with hs; subst hs
        refine ⟨hd, ?_⟩
        dsimp only; rw [if_pos hpc]; simp
    · cases hs
  | send =>
    simp only [bstep] at hs
    split at hs
    · rename_i i hpc
      rw [if_pos hd] at hs
      injection hs with hs; subst hs
      refine ⟨hd, ?_⟩
      dsimp only; rw [hpc]; simp
    · cases hs
  | recv => simp [bstep, hd] at hs
  | close => simp [bstep, hd] at hs
  | drop => simp [bstep, hd] at hs

theorem buffered_drop_exits (B n : Nat) (s : BufState) (h : BReach B n s) (hd : s.dropped = true)
    (hne : s.pc ≠ BPC.exited) : ∃ a s', (a = BAction.pull ∨ a = BAction.send) ∧ bstep s a = some s' := by
  cases hpc : s.pc with
  | idle =>
    by_cases hlt : s.pulled < s.n
    · exact ⟨.pull, { s with pc := .have s.pulled, pulled := s.pulled + 1 }, Or.inl rfl, by
        simp only [bstep, hpc, if_true, if_pos hlt]⟩
    · exact ⟨.pull, { s with pc := .exited }, Or.inl rfl, by
        simp only [bstep, hpc, if_true, if_neg hlt]⟩
  | «have» i =>
    refine ⟨.send, { s with pc := .exited }, Or.inr rfl, ?_⟩
    simp only [bstep, hpc, hd, if_true]
  | exited => exact absurd hpc hne

/-- complete iteration of `Buffered`: exactly the upstream sequence -/
theorem buffered_complete (B n : Nat) (s : BufState) (h : BReach B n s) (hc : s.closed = true) :
    s.recvd = List.range n := by
  have hi := binv_reach h
  obtain ⟨hpc, hch, hd⟩ := hi.closed_ hc
  have hf := hi.fifo hd
  rw [hpc, hch, hi.exited_ hd hpc] at hf
  simpa [BPC.pend] using hf

/-! non-vacuity -/

/-- run a schedule of the `Buffered` model -/
def brun (s : BufState) : List BAction → Option BufState
  | [] => some s
  | a :: as => match bstep s a with
    | some s' => brun s' as
    | none => none

example : (brun (BufState.init 1 2) [.pull, .send, .pull, .recv, .send, .pull, .recv, .close]).map
    (fun s => (s.recvd, s.closed, s.pulled)) = some ([0, 1], true, 2) := by decide
/-- rendezvous channel (`buffer_size = 0`) -/
example : (brun (BufState.init 0 2) [.pull, .send, .pull, .send, .pull, .close]).map
    (fun s => (s.recvd, s.closed, s.pulled)) = some ([0, 1], true, 2) := by decide
/-- drop while the producer holds an item: its send fails and it exits without pulling again -/
example : (brun (BufState.init 1 5) [.pull, .send, .pull, .drop, .send]).map
    (fun s => (s.dropped, s.pulled, decide (s.pc = .exited))) = some (true, 2, true) := by decide

/-- drop while worker 0 is about to send and worker 1 is spinning: both exit, nothing further is taken -/
example : (prun (PState.init 2 (fused 5))
    [.take 0, .take 1, .compute 0, .compute 1, .spin 0, .drop, .send 0, .spin 1, .advance 0, .spin 1, .send 1,
     .advance 1]).map
    (fun s => (s.dropped, s.next, allExited s)) = some (true, 2, true) := by decide

/-- the same drop over an upstream that is not fused (`Some, Some, None, Some, …`): both workers exit through
their failed sends, the `None` and what follows it are never asked for -/
example : (prun (PState.init 2 (srcOf [true, true, false, true, true]))
    [.take 0, .take 1, .compute 0, .compute 1, .spin 0, .drop, .send 0, .spin 1, .advance 0, .spin 1, .send 1,
     .advance 1]).map
    (fun s => (s.dropped, s.next, s.pulls, allExited s)) = some (true, 2, 2, true) := by decide

/-! ### why the panic hook is needed: the negative control

Without the hook that ends the process, a worker whose processing function panics simply vanishes
while it owns its item. `vanish` models that. The example exhibits a reachable state of a 2-worker
pipe in which the other worker waits for a turn that never comes and the consumer is blocked: no
action other than a failing spin (a stutter) is enabled, nothing was delivered, and the iteration
is not over. With the hook, the first panic ends the process instead. -/

/-- a worker dies while holding its item (what a panic does without the process-exit hook) -/
def vanish (s : PState) (w : Nat) : Option PState :=
  match s.pc w with
  | .holding _ => some { s with pc := setPc s.pc w .exited }
  | _ => none

/-- every action of a 2-worker pipe -/
def actions2 : List PAction :=
  [.take 0, .take 1, .compute 0, .compute 1, .spin 0, .spin 1, .send 0, .send 1, .advance 0, .advance 1, .recv, .close]

/-- the wedged state: worker 0 took item 0 and vanished, worker 1 computed item 1 and spins -/
def wedged : Option PState :=
  (prun (PState.init 2 (fused 3)) [.take 0, .take 1, .compute 1]).bind (fun s => vanish s 0)

theorem no_hook_wedges :
    (wedged.map (fun s => (s.closed, s.recvd, s.turn, decide (s.pc 1 = .computed 1)))) = some (false, [], 0, true) ∧
    (wedged.map (fun s => actions2.all (fun a =>
        match pstep s a with
        | none => true                                  -- not enabled
        | some s' => pmeasure 3 s' == pmeasure 3 s && s'.recvd == s.recvd && s'.closed == s.closed))) = some true := by
  decide

end Tu.C09
