/-
  C05 — the threaded pipeline is a sequential map under every schedule.
  Model: `Tu.pstep` (Model/Pipe.lean), the interleaving semantics of the `Pipe` worker loop and
  `Pipe::next`.  All statements are about every state reachable under any schedule (`PReach`);
  they follow from the inductive invariant `Tu.Inv` (Lemmas/PipeL.lean, Lemmas/PipeInv.lean).
-/
import TuModel.Lemmas.PipeProg
namespace Tu.C05
open Tu
-- `pipe_safety` does not use `1 ≤ W` and `pipe_measure` does not use `1 ≤ W`; the hypotheses are kept so that
-- all statements have the same shape
set_option linter.unusedVariables false

/-! ### any upstream (`src k` = the `k`-th call of `upstream.next()` yields an item; it need not be fused) -/

/-- no loss, no duplication, no reordering, each item processed at most once — in every reachable state;
the `enumerate` counter is the number of items among the answers so far, and every `None` ended a worker of
its own, so at most `W` of them were consumed -/
theorem pipe_safety_gen (W : Nat) (src : Nat → Bool) (hW : 1 ≤ W) (s : PState) (h : PReach W src s) :
    s.next = itemsBefore src s.pulls ∧ s.chan.length ≤ W ∧ (∀ i, s.calls i ≤ 1) ∧
    (s.dropped = false → s.recvd ++ s.chan = List.range (s.recvd ++ s.chan).length) ∧
    (∀ w w' i, w < W → w' < W → holds s w i → holds s w' i → w = w') ∧
    gapsBefore src s.pulls ≤ W := by
  have hi := inv_reach h
  refine ⟨hi.next_eq, hi.chan_le, ?_, hi.fifo, ?_, ?_⟩
  · intro i
    by_cases h1 : s.next ≤ i
    · rw [hi.calls_hi i h1]; omega
    · by_cases h2 : ∃ w, w < W ∧ s.pc w = .holding i
      · obtain ⟨w, hw, hpc⟩ := h2
        rw [hi.calls_hold w i hw hpc]; omega
      · rw [hi.calls_done i (by omega) (fun w hw hpc => h2 ⟨w, hw, hpc⟩)]; omega
  · intro w w' i hw hw' h1 h2
    exact hi.held_uniq w w' i hw hw' ((holds_iff s w i).mp h1) ((holds_iff s w' i).mp h2)
  · exact Nat.le_trans hi.gaps_le (exSum_le s.pc W)

/-- when the iteration has ended (the consumer got `None`) it delivered exactly the items that come before
the `W`-th `None` of the upstream, in order, and every one of them was processed exactly once -/
theorem pipe_complete_gen (W : Nat) (src : Nat → Bool) (hW : 1 ≤ W) (s : PState) (h : PReach W src s)
    (hc : s.closed = true) :
    s.recvd = List.range s.next ∧ (∀ i, i < s.next → s.calls i = 1) ∧ gapsBefore src s.pulls = W := by
  have hi := inv_reach h
  obtain ⟨hall, hch, hdr⟩ := hi.closed_ hc
  have hturn : s.turn = s.next := by
    apply Classical.byContradiction
    intro hne
    have := hi.turn_le
    obtain ⟨u, hu, hui⟩ := hi.held_ex s.turn (Nat.le_refl _) (by omega)
    rw [hall u hu] at hui; cases hui
  have hL : (s.recvd ++ s.chan).length = s.turn := by
    rcases hi.len_turn hdr with hl | ⟨u, ok, hu, hpc⟩
    · exact hl
    · rw [hall u hu] at hpc; cases hpc
  have hf := hi.fifo hdr
  rw [hL, hch, List.append_nil, hturn] at hf
  refine ⟨hf, ?_, ?_⟩
  · intro i hin
    apply hi.calls_done i hin
    intro w hw
    rw [hall w hw]; simp
  · rw [← hi.gaps_eq hdr]; exact exSum_all s.pc W hall

/-- the position of the end: no call of `upstream.next()` is made after the `W`-th `None` -/
theorem pipe_pulls_minimal (W : Nat) (src : Nat → Bool) (hW : 1 ≤ W) (s : PState) (h : PReach W src s) :
    ∀ k, k < s.pulls → gapsBefore src k < W :=
  (inv_reach h).pulls_min

/-- the closed formula: over the upstream that answers as `entries` and then `None` for ever, a completed
iteration delivered `gapDelivered W entries` items -/
theorem pipe_complete_gapDelivered (W : Nat) (entries : List Bool) (hW : 1 ≤ W) (s : PState)
    (h : PReach W (srcOf entries) s) (hc : s.closed = true) :
    s.recvd = List.range (gapDelivered W entries) := by
  have hi := inv_reach h
  obtain ⟨hr, _, hg⟩ := pipe_complete_gen W (srcOf entries) hW s h hc
  rw [hr, hi.next_eq, gapDelivered_spec entries W s.pulls hg hi.pulls_min]

/-- no deadlock: unless the consumer is done, some step that makes progress is enabled (for an upstream
that is exhausted from its `N`-th call on) -/
theorem pipe_deadlock_free_gen (W : Nat) (src : Nat → Bool) (hW : 1 ≤ W) (N : Nat)
    (hN : ∀ k, N ≤ k → src k = false) (s : PState) (h : PReach W src s)
    (hc : s.closed = false) (hd : s.dropped = false) :
    ∃ a s', a ≠ PAction.drop ∧ pstep s a = some s' ∧ pmeasure N s' < pmeasure N s := by
  have hi := inv_reach h
  have hN' : ∀ k, N ≤ k → s.src k = false := by rw [hi.hsrc]; exact hN
  cases hch : s.chan with
  | cons x rest =>
    -- something is queued: the consumer can receive
    have hs : stepRecv s = some { s with chan := rest, recvd := s.recvd ++ [x] } := by
      unfold stepRecv; simp [hc, hd, hch]
    exact ⟨.recv, _, by simp, hs, measure_recv hs⟩
  | nil =>
    by_cases hall : allExited s = true
    · -- all workers gone and nothing queued: the consumer gets `None`
      have hs : stepClose s = some { s with closed := true } := by
        unfold stepClose; simp [hc, hd, hch, hall]
      exact ⟨.close, _, by simp, hs, measure_close hs⟩
    · -- some worker is still running, and the channel has room
      have : ∃ w, w < W ∧ s.pc w ≠ .exited := by
        apply Classical.byContradiction
        intro hcon
        apply hall
        rw [allExited_iff, hi.hW]
        intro w hw
        apply Classical.byContradiction
        intro hne
        exact hcon ⟨w, hw, hne⟩
      obtain ⟨w, hw, hne⟩ := this
      have hroom : s.chan.length < s.W := by rw [hch, hi.hW]; simp; omega
      obtain ⟨a, s', ha, _, _, hs, hm⟩ := worker_progress hi hN' hw hne (Or.inr hroom)
      exact ⟨a, s', ha, hs, hm⟩

/-- every step other than `drop` is a stutter (failed spin) or strictly decreases the measure, so under a
fair scheduler every run over an eventually exhausted upstream terminates -/
theorem pipe_measure_gen (W : Nat) (src : Nat → Bool) (hW : 1 ≤ W) (N : Nat)
    (hN : ∀ k, N ≤ k → src k = false) (s s' : PState) (a : PAction) (h : PReach W src s)
    (ha : a ≠ PAction.drop) (hs : pstep s a = some s') : s' = s ∨ pmeasure N s' < pmeasure N s :=
  pstep_measure (by rw [(inv_reach h).hsrc]; exact hN) ha hs

/-! ### fused upstream of `n` items (`fused n`): the statements as they were before the generalisation -/

theorem fused_exhausted (n : Nat) : ∀ k, n ≤ k → fused n k = false := fun _ h => fused_false h

/-- no loss, no duplication, no reordering, each item processed at most once — in every reachable state -/
theorem pipe_safety (W n : Nat) (hW : 1 ≤ W) (s : PState) (h : PReach W (fused n) s) :
    s.next ≤ n ∧ s.chan.length ≤ W ∧ (∀ i, s.calls i ≤ 1) ∧
    (s.dropped = false → s.recvd ++ s.chan = List.range (s.recvd ++ s.chan).length) ∧
    (∀ w w' i, w < W → w' < W → holds s w i → holds s w' i → w = w') := by
  obtain ⟨h1, h2, h3, h4, h5, _⟩ := pipe_safety_gen W (fused n) hW s h
  refine ⟨?_, h2, h3, h4, h5⟩
  rw [h1, itemsBefore_fused]; omega

/-- when the iteration has ended (the consumer got `None`) it delivered exactly `f x0, f x1, …` in
order and every item was processed exactly once -/
theorem pipe_complete (W n : Nat) (hW : 1 ≤ W) (s : PState) (h : PReach W (fused n) s) (hc : s.closed = true) :
    s.recvd = List.range n ∧ ∀ i, i < n → s.calls i = 1 := by
  obtain ⟨h1, h2, h3⟩ := pipe_complete_gen W (fused n) hW s h hc
  have hnext : s.next = n := by
    rw [(inv_reach h).next_eq, itemsBefore_fused]
    rw [gapsBefore_fused] at h3
    omega
  rw [hnext] at h1 h2
  exact ⟨h1, h2⟩

/-- no deadlock: unless the consumer is done, some step that makes progress is enabled -/
theorem pipe_deadlock_free (W n : Nat) (hW : 1 ≤ W) (s : PState) (h : PReach W (fused n) s)
    (hc : s.closed = false) (hd : s.dropped = false) :
    ∃ a s', a ≠ PAction.drop ∧ pstep s a = some s' ∧ pmeasure n s' < pmeasure n s :=
  pipe_deadlock_free_gen W (fused n) hW n (fused_exhausted n) s h hc hd

/-- every step other than `drop` is a stutter (failed spin) or strictly decreases the measure, so under a
fair scheduler every run terminates -/
theorem pipe_measure (W n : Nat) (hW : 1 ≤ W) (s s' : PState) (a : PAction) (h : PReach W (fused n) s)
    (ha : a ≠ PAction.drop) (hs : pstep s a = some s') : s' = s ∨ pmeasure n s' < pmeasure n s :=
  pipe_measure_gen W (fused n) hW n (fused_exhausted n) s s' a h ha hs

/-! non-vacuity: concrete schedules reach `closed`, and the theorems apply to them -/

example : (prun (PState.init 1 (fused 1)) [.take 0, .compute 0, .spin 0, .send 0, .advance 0, .take 0, .recv, .close]).map
    (fun s => (s.recvd, s.closed)) = some ([0], true) := by decide

/-- two workers, three items, worker 1 overtakes worker 0 on computing but has to wait for its turn -/
example : (prun (PState.init 2 (fused 3))
    [.take 0, .take 1, .compute 1, .spin 1, .compute 0, .spin 0, .send 0, .advance 0, .spin 1, .send 1,
     .take 0, .recv, .compute 0, .advance 1, .take 1, .spin 0, .send 0, .advance 0, .take 0, .recv, .recv,
     .close]).map
    (fun s => (s.recvd, s.closed, s.next, s.turn, [s.calls 0, s.calls 1, s.calls 2])) =
    some ([0, 1, 2], true, 3, 3, [1, 1, 1]) := by decide

/-- an upstream that is not fused, two workers: `Some, None, Some, None, Some`.  Worker 0 takes item 0, worker 1
sees the first `None` and exits, worker 0 goes on alone, takes item 1, then sees the second `None`: the
consumer gets items 0 and 1 and then `None`; the fifth answer is never asked for -/
example : (prun (PState.init 2 (srcOf [true, false, true, false, true]))
    [.take 0, .take 1, .compute 0, .spin 0, .send 0, .advance 0, .take 0, .recv, .compute 0, .spin 0, .send 0,
     .advance 0, .take 0, .recv, .close]).map
    (fun s => (s.recvd, s.closed, s.next, s.pulls, [s.calls 0, s.calls 1, s.calls 2])) =
    some ([0, 1], true, 2, 4, [1, 1, 0]) := by decide

example : gapDelivered 2 [true, false, true, false, true] = 2 := by decide
example : gapDelivered 1 [true, true, false, true] = 2 ∧ gapDelivered 3 [true, false, true] = 2 ∧
    gapDelivered 2 [false, false, true] = 0 := by decide

end Tu.C05
