import TuModel.Model.Pipe
namespace Tu.C05
open Tu
theorem placeholder_init_next (W n : Nat) : (PState.init W n).next = 0 := rfl
end Tu.C05
