/-
  C05 — the threaded pipeline is a sequential map under every schedule.
  Model: `Tu.pstep` (Model/Pipe.lean), the interleaving semantics of the `Pipe` worker loop and
  `Pipe::next`.  All statements are about every state reachable under any schedule (`PReach`);
  they follow from the inductive invariant `Tu.Inv` (Lemmas/PipeL.lean, Lemmas/PipeInv.lean).
-/
import TuModel.Lemmas.PipeProg
namespace Tu.C05
open Tu
-- `pipe_safety` does not use `1 ≤ W` and `pipe_measure` uses neither `1 ≤ W` nor reachability; the
-- hypotheses are kept so that all four statements have the same shape
set_option linter.unusedVariables false

/-- no loss, no duplication, no reordering, each item processed at most once — in every reachable state -/
theorem pipe_safety (W n : Nat) (hW : 1 ≤ W) (s : PState) (h : PReach W n s) :
    s.next ≤ n ∧ s.chan.length ≤ W ∧ (∀ i, s.calls i ≤ 1) ∧
    (s.dropped = false → s.recvd ++ s.chan = List.range (s.recvd ++ s.chan).length) ∧
    (∀ w w' i, w < W → w' < W → holds s w i → holds s w' i → w = w') := by
  have hi := inv_reach h
  refine ⟨hi.next_le, hi.chan_le, ?_, hi.fifo, ?_⟩
  · intro i
    by_cases h1 : s.next ≤ i
    · rw [hi.calls_hi i h1]; omega
    · by_cases h2 : ∃ w, w < W ∧ s.pc w = .holding i
      · obtain ⟨w, hw, hpc⟩ := h2
        rw [hi.calls_hold w i hw hpc]; omega
      · rw [hi.calls_done i (by omega) (fun w hw hpc => h2 ⟨w, hw, hpc⟩)]; omega
  · intro w w' i hw hw' h1 h2
    exact hi.held_uniq w w' i hw hw' ((holds_iff s w i).mp h1) ((holds_iff s w' i).mp h2)

/-- when the iteration has ended (the consumer got `None`) it delivered exactly `f x0, f x1, …` in
order and every item was processed exactly once -/
theorem pipe_complete (W n : Nat) (hW : 1 ≤ W) (s : PState) (h : PReach W n s) (hc : s.closed = true) :
    s.recvd = List.range n ∧ ∀ i, i < n → s.calls i = 1 := by
  have hi := inv_reach h
  obtain ⟨hall, hch, hdr⟩ := hi.closed_ hc
  have hnext : s.next = n := hi.exited_ hdr 0 (by omega) (hall 0 (by omega))
  have hturn : s.turn = s.next := by
    apply Classical.byContradiction
    intro hne
    have := hi.turn_le
    obtain ⟨u, hu, hui⟩ := hi.held_ex s.turn (Nat.le_refl _) (by omega)
    rw [hall u hu] at hui; cases hui
  have hL : (s.recvd ++ s.chan).length = s.turn := by
    rcases hi.len_turn hdr with hl | ⟨u, ok, hu, hpc⟩
    · exact hl
    · rw [hall u hu] at hpc; cases hpc
  have hf := hi.fifo hdr
  rw [hL, hch, List.append_nil, hturn, hnext] at hf
  refine ⟨hf, ?_⟩
  intro i hin
  apply hi.calls_done i (by omega)
  intro w hw
  rw [hall w hw]; simp

/-- no deadlock: unless the consumer is done, some step that makes progress is enabled -/
theorem pipe_deadlock_free (W n : Nat) (hW : 1 ≤ W) (s : PState) (h : PReach W n s)
    (hc : s.closed = false) (hd : s.dropped = false) :
    ∃ a s', a ≠ PAction.drop ∧ pstep s a = some s' ∧ pmeasure s' < pmeasure s := by
  have hi := inv_reach h
  cases hch : s.chan with
  | cons x rest =>
    -- something is queued: the consumer can receive
    have hs : stepRecv s = some { s with chan := rest, recvd := s.recvd ++ [x] } := by
      unfold stepRecv; simp [hc, hd, hch]
    exact ⟨.recv, _, by simp, hs, measure_recv hs⟩
  | nil =>
    by_cases hall : allExited s = true
    · -- all workers gone and nothing queued: the consumer gets `None`
      have hs : stepClose s = some { s with closed := true } := by
        unfold stepClose; simp [hc, hd, hch, hall]
      exact ⟨.close, _, by simp, hs, measure_close hs⟩
    · -- some worker is still running, and the channel has room
      have : ∃ w, w < W ∧ s.pc w ≠ .exited := by
        apply Classical.byContradiction
        intro hcon
        apply hall
        rw [allExited_iff, hi.hW]
        intro w hw
        apply Classical.byContradiction
        intro hne
        exact hcon ⟨w, hw, hne⟩
      obtain ⟨w, hw, hne⟩ := this
      have hroom : s.chan.length < s.W := by rw [hch, hi.hW]; simp; omega
      obtain ⟨a, s', ha, _, _, hs, hm⟩ := worker_progress hi hw hne (Or.inr hroom)
      exact ⟨a, s', ha, hs, hm⟩

/-- every step other than `drop` is a stutter (failed spin) or strictly decreases the measure, so under a
fair scheduler every run terminates -/
theorem pipe_measure (W n : Nat) (hW : 1 ≤ W) (s s' : PState) (a : PAction) (h : PReach W n s)
    (ha : a ≠ PAction.drop) (hs : pstep s a = some s') : s' = s ∨ pmeasure s' < pmeasure s :=
  pstep_measure ha hs

/-! non-vacuity: concrete schedules reach `closed`, and the theorems apply to them -/

example : (prun (PState.init 1 1) [.take 0, .compute 0, .spin 0, .send 0, .advance 0, .take 0, .recv, .close]).map
    (fun s => (s.recvd, s.closed)) = some ([0], true) := by decide

/-- two workers, three items, worker 1 overtakes worker 0 on computing but has to wait for its turn -/
example : (prun (PState.init 2 3)
    [.take 0, .take 1, .compute 1, .spin 1, .compute 0, .spin 0, .send 0, .advance 0, .spin 1, .send 1,
     .take 0, .recv, .compute 0, .advance 1, .take 1, .spin 0, .send 0, .advance 0, .take 0, .recv, .recv,
     .close]).map
    (fun s => (s.recvd, s.closed, s.next, s.turn, [s.calls 0, s.calls 1, s.calls 2])) =
    some ([0, 1, 2], true, 3, 3, [1, 1, 1]) := by decide

end Tu.C05
