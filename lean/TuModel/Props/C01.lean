import TuModel.Model.ByteTok
import TuModel.Model.CharTok
import TuModel.Model.Bpe
namespace Tu.C01
open Tu
theorem placeholder_uniq_nil : uniq [] = [] := rfl
end Tu.C01
