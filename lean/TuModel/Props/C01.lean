/-
  C01 — byte and character tokenizers encode every character faithfully and losslessly.
  Models: `Tu.byteTokenize` / `Tu.byteDetok` (Model/ByteTok.lean), `Tu.charTokenize` / `Tu.charDetok`
  (Model/CharTok.lean), `Tu.splitInput` (Model/Special.lean).
-/
import TuModel.Lemmas.SpecialL
namespace Tu.C01
open Tu

/-! ### byte tokenizer -/

/-- the shape of the id sequence: prefix ids, then the pieces of the text — regular pieces as their
bytes, every special-token occurrence as its single id — then suffix ids -/
theorem byteTokenize_shape (cfg : ByteCfg) (s : List Nat) (ign : Bool) :
    byteTokenize cfg s ign =
      cfg.sp.prefixIds ++ (splitInput cfg.sp s ign).flatMap (pieceIds cfg.sp) ++ cfg.sp.suffixIds := rfl

/-- the pieces are exactly the text (for any alternation order of the special-token pattern) -/
theorem pieces_are_text (sp : Special) (s : List Nat) (ign : Bool) :
    (splitInput sp s ign).flatMap Piece.bytes = s := splitInput_concat sp s ign

/-- without special-token parsing the text ids are exactly the UTF-8 bytes -/
theorem byteTokenize_ignore (cfg : ByteCfg) (s : List Nat) :
    byteTokenize cfg s true = cfg.sp.prefixIds ++ s ++ cfg.sp.suffixIds := by
  simp [byteTokenize, splitInput, pieceIds]

/-- regular ids are bytes (`< 256`), special ids lie at or above the offset 256 -/
theorem pieceIds_range (sp : Special) (ho : 256 ≤ sp.offset) (s : List Nat) (ign : Bool) (hs : ∀ x ∈ s, x < 256)
    (p : Piece) (hp : p ∈ splitInput sp s ign) :
    match p with
    | .regular r => ∀ id ∈ pieceIds sp (.regular r), id < 256
    | .special i b => pieceIds sp (.special i b) = [sp.offset + i] ∧ sp.tokens[i]? = some b := by
  cases p with
  | regular r => intro id hid; exact hs id (splitInput_regular_mem sp s ign r hp id (by simpa [pieceIds] using hid))
  | special i b => exact ⟨rfl, splitInput_special sp s ign i b hp⟩

/-- **decoding the text ids with special tokens kept returns the original bytes** -/
theorem byteDetok_text (cfg : ByteCfg) (ho : 256 ≤ cfg.sp.offset) (s : List Nat) (ign : Bool)
    (hs : ∀ x ∈ s, x < 256) :
    byteDetokBytes cfg.sp false ((splitInput cfg.sp s ign).flatMap (pieceIds cfg.sp)) = some s := by
  rw [byteDetokBytes_pieces cfg.sp ho _ (fun r hr x hx => hs x (splitInput_regular_mem _ _ _ r hr x hx))
    (fun i b hb => splitInput_special _ _ _ i b hb), splitInput_concat]

/-- **decoding the full id sequence with special tokens kept returns prefix tokens, the original
text, suffix tokens** — for every configuration accepted by the constructor -/
theorem byteDetok_tokenize_keep (cpGroups : Bool) (tokens : List (List Nat)) (padTo : Option Nat) (pad : List Nat)
    (pre suf : List (List Nat)) (cfg : ByteCfg) (hcfg : mkByteCfg cpGroups tokens padTo pad pre suf = some cfg)
    (s : List Nat) (ign : Bool) (hs : ∀ x ∈ s, x < 256) :
    byteDetokBytes cfg.sp false (byteTokenize cfg s ign) =
      some (specialBytes cfg.sp cfg.sp.prefixIds ++ s ++ specialBytes cfg.sp cfg.sp.suffixIds) := by
  unfold mkByteCfg at hcfg
  cases hm : mkSpecial 256 (byteSpecialTokens tokens padTo) pad pre suf with
  | none => simp [hm] at hcfg
  | some sp =>
    simp [hm] at hcfg; subst hcfg
    obtain ⟨ho, _, hp, hsf, _⟩ := mkSpecial_ids hm
    have ho' : 256 ≤ sp.offset := by omega
    simp only [byteTokenize, byteDetokBytes_append]
    rw [byteDetokBytes_specials sp ho' _ hp, byteDetokBytes_specials sp ho' _ hsf]
    have := byteDetok_text { codePointGroups := cpGroups, sp := sp } ho' s ign hs
    simp only at this
    rw [this]
    simp

/-- the decoded bytes are the input bytes, so a valid UTF-8 input decodes successfully to itself
(no prefix / suffix configured) -/
theorem byte_roundtrip (cfg : ByteCfg) (ho : 256 ≤ cfg.sp.offset) (hp : cfg.sp.prefixIds = []) (hsf : cfg.sp.suffixIds = [])
    (s : List Nat) (ign : Bool) (hs : ∀ x ∈ s, x < 256) (hv : validUtf8 s = true) :
    byteDetok cfg (byteTokenize cfg s ign) false = some s := by
  unfold byteDetok
  simp only [byteTokenize, hp, hsf, List.nil_append, List.append_nil]
  rw [byteDetok_text cfg ho s ign hs]
  simp [hv]

/-! ### character tokenizer -/

/-- exactly one id per character (cluster) and per special occurrence, plus prefix and suffix -/
theorem charTokenize_length (cfg : CharCfg) (pieces : List (Sum (List (List Nat)) Nat)) :
    (charTokenize cfg pieces).length =
      cfg.sp.prefixIds.length +
      (pieces.map (fun p => match p with | Sum.inl cl => cl.length | Sum.inr _ => 1)).sum +
      cfg.sp.suffixIds.length := by
  unfold charTokenize
  simp only [List.length_append, List.length_flatMap]
  congr 2
  apply congrArg
  apply List.map_congr_left
  intro p _
  cases p <;> simp

theorem natIdxOf_some {l : List Nat} {x i : Nat} (h : natIdxOf l x = some i) : l[i]? = some x ∧ i < l.length := by
  unfold natIdxOf at h
  simp only at h
  split at h
  · rename_i hlt
    injection h with h; subst h
    exact ⟨by rw [List.getElem?_eq_getElem hlt]; simp [List.getElem_idxOf], hlt⟩
  · simp at h

theorem natIdxOf_mem {l : List Nat} {x : Nat} (h : x ∈ l) : ∃ i, natIdxOf l x = some i := by
  unfold natIdxOf
  have := List.idxOf_lt_length_of_mem h
  simp [this]

/-- a character is mapped to the unknown id exactly when it is not a single code point of the alphabet -/
theorem charId_regular_iff (cfg : CharCfg) (hunk : cfg.alphabet.length ≤ cfg.unkId) (cl : List Nat) :
    charId cfg cl < cfg.alphabet.length ↔ ∃ c, cl = [c] ∧ c ∈ cfg.alphabet := by
  constructor
  · intro h
    match cl, h with
    | [c], h =>
      simp only [charId] at h
      cases hi : natIdxOf cfg.alphabet c with
      | none => simp [hi] at h; omega
      | some i =>
        have := (natIdxOf_some hi).1
        exact ⟨c, rfl, List.mem_of_getElem? this⟩
    | [], h => simp [charId] at h; omega
    | _ :: _ :: _, h => simp [charId] at h; omega
  · rintro ⟨c, rfl, hc⟩
    obtain ⟨i, hi⟩ := natIdxOf_mem hc
    simp [charId, hi, (natIdxOf_some hi).2]

theorem charId_unk (cfg : CharCfg) (cl : List Nat) (h : ¬ ∃ c, cl = [c] ∧ c ∈ cfg.alphabet) : charId cfg cl = cfg.unkId := by
  match cl with
  | [c] =>
    simp only [charId]
    cases hi : natIdxOf cfg.alphabet c with
    | none => rfl
    | some i => exact absurd ⟨c, rfl, List.mem_of_getElem? (natIdxOf_some hi).1⟩ h
  | [] => rfl
  | _ :: _ :: _ => rfl

/-- **texts over the alphabet round-trip exactly** -/
theorem charDetok_regular (cfg : CharCfg) (ign : Bool) (clusters : List (List Nat))
    (h : ∀ cl ∈ clusters, ∃ c, cl = [c] ∧ c ∈ cfg.alphabet) :
    charDetok cfg ign (clusters.map (charId cfg)) = some (clusters.flatten.flatMap utf8) := by
  induction clusters with
  | nil => rfl
  | cons cl cls ih =>
    obtain ⟨c, rfl, hc⟩ := h cl List.mem_cons_self
    have ih := ih (fun x hx => h x (List.mem_cons_of_mem _ hx))
    obtain ⟨i, hi⟩ := natIdxOf_mem hc
    simp [charDetok, charId, hi, (natIdxOf_some hi).1, ih]

theorem char_roundtrip (cfg : CharCfg) (hp : cfg.sp.prefixIds = []) (hsf : cfg.sp.suffixIds = []) (ign : Bool)
    (clusters : List (List Nat)) (h : ∀ cl ∈ clusters, ∃ c, cl = [c] ∧ c ∈ cfg.alphabet) :
    charDetok cfg ign (charTokenize cfg [Sum.inl clusters]) = some (clusters.flatten.flatMap utf8) := by
  simp only [charTokenize, hp, hsf, List.nil_append, List.append_nil, List.flatMap_cons, List.flatMap_nil]
  exact charDetok_regular cfg ign clusters h

/-! non-vacuity -/
example : (mkByteCfg false [[60,112,62]] none [60,112,62] [[60,112,62]] []).isSome = true := by decide
example : splitInput { tokens := [[60,112,62]], offset := 256, padId := 256, prefixIds := [], suffixIds := [] }
    [97, 60, 112, 62, 60, 112] false = [.regular [97], .special 0 [60,112,62], .regular [60,112]] := by decide

/-! ### independence of the alternation order (the code iterates a `HashMap`) -/

theorem isPrefixOf_total : ∀ (t u s : List Nat), t.isPrefixOf s = true → u.isPrefixOf s = true → t.length ≤ u.length →
    t.isPrefixOf u = true := by
  intro t
  induction t with
  | nil => intro u s _ _ _; simp
  | cons a t ih =>
    intro u s h1 h2 hl
    cases u with
    | nil => simp at hl
    | cons b u =>
      cases s with
      | nil => simp at h1
      | cons c s =>
        simp only [List.isPrefixOf, Bool.and_eq_true, beq_iff_eq] at h1 h2 ⊢
        obtain ⟨rfl, h1⟩ := h1
        obtain ⟨rfl, h2⟩ := h2
        exact ⟨rfl, ih u s h1 h2 (by simpa using hl)⟩

theorem prefixFree_spec {toks : List (List Nat)} (hpf : prefixFree toks = true) :
    (∀ a ∈ toks, ∀ b ∈ toks, a.isPrefixOf b = true → a = b) ∧ ∀ a ∈ toks, a ≠ [] := by
  unfold prefixFree at hpf
  simp only [Bool.and_eq_true, List.all_eq_true, Bool.or_eq_true, beq_iff_eq, Bool.not_eq_true',
    List.isEmpty_eq_false_iff] at hpf
  refine ⟨fun a ha b hb hab => ?_, hpf.2⟩
  rcases hpf.1 a ha b hb with h | h
  · exact h
  · rw [h] at hab; cases hab

theorem matchAt_unique (toks : List (List Nat)) (hpf : prefixFree toks = true) (s : List Nat) (i j : Nat) (t u : List Nat)
    (ht : t ∈ toks) (hu : u ∈ toks) (h1 : t.isPrefixOf s = true) (h2 : u.isPrefixOf s = true) : t = u := by
  have hsp := (prefixFree_spec hpf).1
  rcases Nat.le_total t.length u.length with hl | hl
  · exact hsp t ht u hu (isPrefixOf_total t u s h1 h2 hl)
  · exact (hsp u hu t ht (isPrefixOf_total u t s h2 h1 hl)).symm

theorem matchAt_none {toks : List (List Nat)} {i : Nat} {s : List Nat} (h : matchAt toks i s = none) :
    ∀ t ∈ toks, t ≠ [] → t.isPrefixOf s = false := by
  induction toks generalizing i with
  | nil => intro t ht; simp at ht
  | cons u us ih =>
    unfold matchAt at h
    split at h
    · simp at h
    · rename_i hc
      intro t ht hne
      rcases List.mem_cons.mp ht with rfl | ht
      · simp only [Bool.and_eq_true, Bool.not_eq_true', List.isEmpty_eq_false_iff, not_and, Bool.not_eq_true] at hc
        exact hc hne
      · exact ih h t ht hne

theorem matchAt_mem {toks : List (List Nat)} {i j : Nat} {s t : List Nat} (h : matchAt toks i s = some (j, t)) : t ∈ toks :=
  List.mem_of_getElem? (matchAt_some h).2.2.2

theorem prefixFree_perm {toks toks' : List (List Nat)} (hp : toks.Perm toks') (h : prefixFree toks = true) :
    prefixFree toks' = true := by
  unfold prefixFree at *
  simp only [Bool.and_eq_true, List.all_eq_true] at h ⊢
  exact ⟨fun a ha b hb => h.1 a (hp.mem_iff.mpr ha) b (hp.mem_iff.mpr hb), fun a ha => h.2 a (hp.mem_iff.mpr ha)⟩

/-- the alternation step finds the same token for every order of the alternatives -/
theorem matchAt_perm (toks toks' : List (List Nat)) (hp : toks.Perm toks') (hpf : prefixFree toks = true) (s : List Nat) :
    (matchAt toks 0 s).map (·.2) = (matchAt toks' 0 s).map (·.2) := by
  cases h1 : matchAt toks 0 s with
  | none =>
    cases h2 : matchAt toks' 0 s with
    | none => rfl
    | some r =>
      obtain ⟨j, u⟩ := r
      obtain ⟨hne, hpre, _, _⟩ := matchAt_some h2
      have := matchAt_none h1 u (hp.mem_iff.mpr (matchAt_mem h2)) hne
      rw [this] at hpre; cases hpre
  | some r =>
    obtain ⟨i, t⟩ := r
    obtain ⟨hne, hpre, _, _⟩ := matchAt_some h1
    cases h2 : matchAt toks' 0 s with
    | none =>
      have := matchAt_none h2 t (hp.mem_iff.mp (matchAt_mem h1)) hne
      rw [this] at hpre; cases hpre
    | some r =>
      obtain ⟨j, u⟩ := r
      obtain ⟨_, hpre2, _, _⟩ := matchAt_some h2
      have := matchAt_unique toks hpf s 0 0 t u (matchAt_mem h1) (hp.mem_iff.mpr (matchAt_mem h2)) hpre hpre2
      simp [this]

theorem splitAux_perm (toks toks' : List (List Nat)) (hp : toks.Perm toks') (hpf : prefixFree toks = true) :
    ∀ (fuel : Nat) (s cur : List Nat),
      (splitAux toks fuel s cur).map (fun p => (match p with | .regular b => (false, b) | .special _ b => (true, b))) =
      (splitAux toks' fuel s cur).map (fun p => (match p with | .regular b => (false, b) | .special _ b => (true, b))) := by
  intro fuel
  induction fuel with
  | zero => intro s cur; simp [splitAux]
  | succ fuel ih =>
    intro s cur
    cases s with
    | nil => simp [splitAux]
    | cons b rest =>
      have hm := matchAt_perm toks toks' hp hpf (b :: rest)
      simp only [splitAux]
      cases h1 : matchAt toks 0 (b :: rest) with
      | none =>
        cases h2 : matchAt toks' 0 (b :: rest) with
        | none => simp only []; exact ih _ _
        | some r => rw [h1, h2] at hm; simp at hm
      | some r =>
        cases h2 : matchAt toks' 0 (b :: rest) with
        | none => rw [h1, h2] at hm; simp at hm
        | some r' =>
          obtain ⟨i, t⟩ := r
          obtain ⟨j, u⟩ := r'
          rw [h1, h2] at hm
          simp at hm; subst hm
          simp only [List.map_append, List.map_cons]
          rw [ih]

/-- consequence for `split_input` -/
theorem splitInput_perm (sp sp' : Special) (hp : sp.tokens.Perm sp'.tokens) (hpf : prefixFree sp.tokens = true)
    (s : List Nat) (ign : Bool) :
    (splitInput sp s ign).map (fun p => (match p with | .regular b => (false, b) | .special _ b => (true, b))) =
    (splitInput sp' s ign).map (fun p => (match p with | .regular b => (false, b) | .special _ b => (true, b))) := by
  unfold splitInput
  have he : sp.tokens.isEmpty = sp'.tokens.isEmpty := by
    cases h1 : sp.tokens <;> cases h2 : sp'.tokens <;> simp [h1, h2] at hp ⊢
  rw [he]
  split
  · rfl
  · exact splitAux_perm _ _ hp hpf _ _ _

example : prefixFree [[60,112,62],[60,113,62]] = true := by decide
end Tu.C01
