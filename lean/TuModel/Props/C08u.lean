/-
  C08u — the item selection of the loader as the code computes it (`Model/LoaderU.lean`: iterator adaptors
  `enumerate().take(limit).skip(..).step_by(W).filter_map(..)`, `usize` saturation, `u64` wrap-around) refines the
  specification of `Model/Loader.lean` (`selectIdx` / `selectValid` / `minItems` / `itemSeed` in unbounded `Nat`),
  about which the theorems of C08 are stated.
-/
import TuModel.Model.LoaderU
import TuModel.Lemmas.LoaderL
import TuModel.Lemmas.LoaderUL
namespace Tu.C08u
open Tu

theorem satAddU_eq (a b : Nat) : satAddU a b = min (a + b) (U64 - 1) := Tu.satAddU_eq a b

theorem satAddU_lt (a b : Nat) (ha : a < U64) (hb : b < U64) : satAddU a b < U64 := Tu.satAddU_lt a b ha hb

/-- step_by(w) keeps exactly the elements at positions 0, w, 2w, ... -/
theorem stepBy_eq (w : Nat) (hw : 0 < w) (l : List Nat) :
    stepBy w l = (List.range l.length).filterMap (fun j => if j % w = 0 then l[j]? else none) :=
  Tu.stepBy_eq w hw l

theorem stepBy_range' (w : Nat) (hw : 0 < w) (s n : Nat) :
    stepBy w (List.range' s n) = (List.range' s n).filter (fun i => (i - s) % w == 0) :=
  Tu.stepBy_range' w hw s n

/-- the chain without the `filter_map`, for a range of `M ≤ usize::MAX` items and a start saturated at
`usize::MAX`: exactly the filter of the specification with the unsaturated start -/
theorem chain_core (M start W : Nat) (hW : 0 < W) (hM : M ≤ U64 - 1) :
    stepBy W ((List.range M).drop (min start (U64 - 1)))
      = (List.range M).filter (fun i => decide (start ≤ i) && (i - start) % W == 0) := by
  rw [drop_range, Tu.stepBy_range' W hW, ← filter_ge_range, List.filter_filter]
  apply List.filter_congr
  intro i hi
  rw [List.mem_range] at hi
  by_cases h : start ≤ U64 - 1
  · rw [Nat.min_eq_left h, Bool.and_comm]
  · have h1 : ¬ start ≤ i := by omega
    have h2 : ¬ min start (U64 - 1) ≤ i := by omega
    simp only [h1, h2, decide_false, Bool.false_and, Bool.and_false]

/-- `take(limit.unwrap_or(usize::MAX))` of a corpus that can exist -/
theorem lim_eq (N : Nat) (limit : Option Nat) (hN : N < U64) :
    min (limit.getD (U64 - 1)) N = (match limit with | none => N | some l => min N l) := by
  cases limit with
  | none => show min (U64 - 1) N = N; omega
  | some l => show min l N = min N l; omega

/-- THE refinement: for every corpus that can exist (fewer than 2^64 lines) and all 64-bit parameters the adaptor
chain with saturating arithmetic delivers exactly the specified indices -/
theorem selectChainU_eq (N skip : Nat) (limit : Option Nat) (ff rank W : Nat) (invalid : List Nat)
    (hN : N < U64) (hs : skip < U64) (hf : ff < U64) (hr : rank < W) (hW : W < U64)
    (hl : ∀ l, limit = some l → l < U64) :
    selectChainU N skip limit ff rank W invalid = some (selectValid N skip limit ff rank W invalid) := by
  have _ := hs; have _ := hf; have _ := hW; have _ := hl
  have hW0 : 0 < W := by omega
  unfold selectChainU selectValid selectIdx
  rw [if_pos hr]
  show some (List.filter _ (stepBy W (((List.range N).take (limit.getD (U64 - 1))).drop
      (satAddU (satAddU skip ff) rank)))) = _
  rw [satAddU_satAddU, List.take_range]
  have hM : min (limit.getD (U64 - 1)) N ≤ U64 - 1 := by omega
  rw [chain_core _ (skip + ff + rank) W hW0 hM, lim_eq N limit hN]
  rfl

theorem selectChainU_none (N skip : Nat) (limit : Option Nat) (ff rank W : Nat) (invalid : List Nat) (hr : W ≤ rank) :
    selectChainU N skip limit ff rank W invalid = none := by
  unfold selectChainU
  rw [if_neg (by omega)]

theorem minItemsU_eq (N skip : Nat) (limit : Option Nat) (hN : N < U64) :
    minItemsU N skip limit = minItems N skip limit := by
  unfold minItemsU minItems
  cases limit with
  | none => show min N (U64 - 1) - skip = N - skip; omega
  | some l => rfl

theorem itemSeedU_eq (seed : Option Nat) (epoch idx : Nat) :
    itemSeedU seed epoch idx = (seed.getD 0 + epoch + idx) % U64 := by
  unfold itemSeedU wrapAddU
  rw [Nat.mod_add_mod]

theorem itemSeedU_lt (seed : Option Nat) (epoch idx : Nat) : itemSeedU seed epoch idx < U64 := by
  rw [itemSeedU_eq]
  exact Nat.mod_lt _ U64_pos

/-- within one corpus distinct items are processed with distinct seeds (no two indices below 2^64 collide) -/
theorem itemSeedU_inj (seed : Option Nat) (epoch i j : Nat) (hi : i < U64) (hj : j < U64)
    (h : itemSeedU seed epoch i = itemSeedU seed epoch j) : i = j := by
  rw [itemSeedU_eq, itemSeedU_eq] at h
  generalize seed.getD 0 + epoch = a at h
  unfold U64 at *
  omega

/-- a seedless loader behaves exactly like seed 0 -/
theorem itemSeedU_none (epoch idx : Nat) : itemSeedU none epoch idx = itemSeedU (some 0) epoch idx := rfl

/-- the seed of an item depends on the global index only, not on rank, world size, skip or fast-forward -/
theorem itemSeedU_small (seed epoch idx : Nat) (h : seed + epoch + idx < U64) :
    itemSeedU (some seed) epoch idx = itemSeed seed epoch idx := by
  rw [itemSeedU_eq]
  exact Nat.mod_eq_of_lt h

/-! ### checked instances -/

example : selectChainU 20 2 (some 17) 1 1 3 [7, 10] = some [4, 13, 16] := by decide
example : selectValid 20 2 (some 17) 1 1 3 [7, 10] = [4, 13, 16] := by decide
example : stepBy 3 (List.range 10) = [0, 3, 6, 9] := by decide
example : stepBy 1 [5, 6, 7] = [5, 6, 7] := by decide
/-- the start saturates at `usize::MAX`: nothing is delivered, and nothing overflows -/
example : selectChainU 20 (U64 - 1) none 5 0 1 [] = some [] := by decide
example : selectValid 20 (U64 - 1) none 5 0 1 [] = [] := by decide
/-- `rank < world_size` is asserted -/
example : selectChainU 20 0 none 0 3 3 [] = none := by decide
/-- the seed wraps around -/
example : itemSeedU (some (U64 - 1)) 2 3 = 4 := by decide
example : itemSeedU none 2 3 = 5 := by decide
example : minItemsU 20 3 none = 17 := by decide
example : minItemsU 20 3 (some 10) = 7 := by decide
example : minItemsU 20 30 (some 10) = 0 := by decide
/-- the bound `hN` matters: a corpus of 2^64 lines (which cannot exist: `len()` is a `usize`) would be cut to
`usize::MAX` by `take(limit.unwrap_or(usize::MAX))` -/
example : minItemsU U64 0 none = U64 - 1 ∧ minItems U64 0 none = U64 := by decide
example : minItemsU U64 0 none ≠ minItems U64 0 none := by decide

end Tu.C08u
