/-
  C13 — metrics: precision / recall / F-beta and their averages are finite and lie in [0,1];
  calibration (perfect / no true positive); accuracy; the whitespace-correction counts are the set
  comparison of the two operation sets; pair counting; spelling counts calibration (tp, fp, fn; also for every
  admissible set of sub-results).
  Model: `Tu.f1`, `Tu.microF1`, `Tu.seqAvgF1`, `Tu.accuracy`, `Tu.countTpFpFn`, `Tu.wsCounts`,
  `Tu.spellCounts` (Model/Metrics.lean).  `Q.unit`, `Q.isOne`, `Q.isZero` are in Lemmas/MetricsL.lean.
-/
import TuModel.Lemmas.MetricsL
import TuModel.Lemmas.GroupWordsL
import TuModel.Lemmas.GroupWordsWithL
import TuModel.Lemmas.SpellCalibL
import TuModel.Props.C10
import TuModel.Props.C18
namespace Tu.C13
open Tu

/-! ### Priority 1 — range / finiteness -/

/-- precision, recall and F-beta are finite (positive denominators) and lie in [0,1], for every
count triple and every beta = bn/bd ≥ 0 -/
theorem f1_range (tp fp fn bn bd : Nat) (hbd : 0 < bd) :
    (f1 tp fp fn bn bd).1.unit ∧ (f1 tp fp fn bn bd).2.1.unit ∧ (f1 tp fp fn bn bd).2.2.unit :=
  ⟨f1_f_unit tp fp fn bn bd hbd, f1_prec_unit tp fp fn bn bd, f1_rec_unit tp fp fn bn bd⟩

/-- no false positives and no false negatives: precision = recall = F = 1 (when there is at least
one true positive) -/
theorem f1_perfect (tp bn bd : Nat) (htp : 0 < tp) (hbd : 0 < bd) :
    (f1 tp 0 0 bn bd).1.isOne ∧ (f1 tp 0 0 bn bd).2.1.isOne ∧ (f1 tp 0 0 bn bd).2.2.isOne := by
  have hu := (f1_range tp 0 0 bn bd hbd).1
  rw [f1_pos _ _ _ _ _ htp] at hu ⊢
  have hm : max (tp + 0) 1 = tp := by omega
  simp only [hm, Q.isOne, Q.unit] at hu ⊢
  refine ⟨⟨hu.1, by grind⟩, ⟨htp, trivial⟩, ⟨htp, trivial⟩⟩

/-- zero true positives: precision = recall = F = 0 -/
theorem f1_no_tp (fp fn bn bd : Nat) :
    (f1 0 fp fn bn bd).1.isZero ∧ (f1 0 fp fn bn bd).2.1.isZero ∧ (f1 0 fp fn bn bd).2.2.isZero := by
  rw [f1_zero]
  refine ⟨Q.zero_isZero, ⟨?_, rfl⟩, ⟨?_, rfl⟩⟩ <;> simp only [] <;> omega

theorem microF1_range (cs : List Counts) (bn bd : Nat) (hbd : 0 < bd) :
    (microF1 cs bn bd).1.unit ∧ (microF1 cs bn bd).2.1.unit ∧ (microF1 cs bn bd).2.2.unit :=
  f1_range _ _ _ bn bd hbd

/-- the sequence average of values in [0,1] is in [0,1] -/
theorem seqAvgF1_range (cs : List Counts) (bn bd : Nat) (hbd : 0 < bd) :
    (seqAvgF1 cs bn bd).1.unit ∧ (seqAvgF1 cs bn bd).2.1.unit ∧ (seqAvgF1 cs bn bd).2.2.unit := by
  have hv : ∀ v ∈ cs.map (fun c => if c.empty then (Q.one, Q.one, Q.one) else f1 c.tp c.fp c.fn bn bd),
      v.1.unit ∧ v.2.1.unit ∧ v.2.2.unit := by
    intro v hv
    rw [List.mem_map] at hv
    obtain ⟨c, _, rfl⟩ := hv
    split
    · exact ⟨Q.one_unit, Q.one_unit, Q.one_unit⟩
    · exact f1_range _ _ _ bn bd hbd
  have hlen : (cs.map (fun c => if c.empty then (Q.one, Q.one, Q.one) else f1 c.tp c.fp c.fn bn bd)).length
      ≤ max cs.length 1 := by rw [List.length_map]; omega
  have hn0 : 0 < max cs.length 1 := by omega
  simp only [seqAvgF1]
  exact ⟨mean_unit (fun v => v.1) _ (fun v h => (hv v h).1) _ hlen hn0,
    mean_unit (fun v => v.2.1) _ (fun v h => (hv v h).2.1) _ hlen hn0,
    mean_unit (fun v => v.2.2) _ (fun v h => (hv v h).2.2) _ hlen hn0⟩

theorem accuracy_range (p t : List Nat) (q : Q) (h : accuracy p t = some q) : q.unit := by
  unfold accuracy at h
  split at h
  · simp at h
  · simp only [Option.some.injEq] at h
    subst h
    simp only [Q.unit]
    have h1 := List.length_filter_le (fun (x : Nat × Nat) => x.1 == x.2) (p.zip t)
    have h2 : (p.zip t).length ≤ p.length := by rw [List.length_zip]; omega
    constructor
    · omega
    · exact Nat.le_trans h1 (by omega)

/-- accuracy fails exactly on a length mismatch (an error value, not a fault) -/
theorem accuracy_none_iff (p t : List Nat) : accuracy p t = none ↔ p.length ≠ t.length := by
  unfold accuracy; split <;> simp_all

/-! ### Priority 2 — whitespace-correction counts -/

/-- the counts are the set comparison of ground-truth and predicted operation sets:
tp + fn = |gt|, tp + fp = |pred| -/
theorem wsCounts_sets (i p t : List (List Nat)) (mode : Nat) (c : Counts) (gt pr : List WsOp)
    (hg : wsOps i t = some gt) (hp : wsOps i p = some pr) (h : wsCounts i p t mode = some c) :
    c.tp + c.fn = (wsOpSet gt mode).length ∧ c.tp + c.fp = (wsOpSet pr mode).length := by
  simp only [wsCounts, hg, hp, Option.some.injEq] at h
  subst h
  simp only []
  constructor
  · exact length_filter_add_not (fun x => (wsOpSet pr mode).contains x) (wsOpSet gt mode)
  · rw [length_inter_comm _ _ (wsOpSet_nodup gt mode) (wsOpSet_nodup pr mode)]
    exact length_filter_add_not (fun x => (wsOpSet gt mode).contains x) (wsOpSet pr mode)

/-- a prediction equal to the target has no false positives or negatives -/
theorem wsCounts_pred_eq_target (i t : List (List Nat)) (mode : Nat) (c : Counts)
    (h : wsCounts i t t mode = some c) : c.fp = 0 ∧ c.fn = 0 := by
  unfold wsCounts at h
  split at h
  · rename_i gt pr hg hp
    rw [hg] at hp
    simp only [Option.some.injEq] at hp h
    subst hp; subst h
    simp
  · simp at h

/-- an unchanged prediction has zero true (and false) positives -/
theorem wsCounts_pred_eq_input (i t : List (List Nat)) (mode : Nat) (c : Counts)
    (h : wsCounts i i t mode = some c) : c.tp = 0 ∧ c.fp = 0 := by
  unfold wsCounts at h
  split at h
  · rename_i gt pr hg hp
    rw [wsOps_self] at hp
    simp only [Option.some.injEq] at hp h
    subst hp; subst h
    simp [wsOpSet_replicate_keep]
  · simp at h

/-- on whitespace-clean, whitespace-equivalent texts the function is total (returns counts, never
the error) -/
theorem wsCounts_total (i p t : List (List Nat)) (mode : Nat) (hi : CleanB i = true)
    (hp : CleanB p = true) (ht : CleanB t = true)
    (h1 : removeWsCl i = removeWsCl t) (h2 : removeWsCl i = removeWsCl p) :
    (wsCounts i p t mode).isSome = true := by
  obtain ⟨gt, hg, _⟩ := C10.ops_total_and_repair hi ht h1
  obtain ⟨pr, hpr, _⟩ := C10.ops_total_and_repair hi hp h2
  simp [wsCounts, hg, hpr]

/-! ### Priority 3 — counting -/

theorem countTpFpFn_spec (a b : List Bool) :
    countTpFpFn a b = (((a.zip b).filter (fun (p, t) => p && t)).length,
      ((a.zip b).filter (fun (p, t) => p && !t)).length,
      ((a.zip b).filter (fun (p, t) => !p && t)).length) := by
  have := countTpFpFn_fold (a.zip b) 0 0 0
  simp only [Nat.zero_add] at this
  exact this

/-! ### Priority 4 — spelling counts calibration -/

/-- matching a word sequence with itself matches every index -/
theorem matchWords_self_snd (w : List (List Nat)) (m : List (Nat × Nat)) (h : matchWords w w = some m) :
    ∀ k, k < w.length → k ∈ m.map Prod.snd := by
  obtain ⟨m', hm', hinc, hb, hlen⟩ := C18.matchWords_ok w w
  rw [h] at hm'
  simp only [Option.some.injEq] at hm'
  subst hm'
  have hup := C18.lcs_upper w w w (List.Sublist.refl _) (List.Sublist.refl _)
  have hp : (m.map Prod.snd).Pairwise (· < ·) := by
    rw [List.pairwise_map]; exact hinc.imp (fun h => h.2)
  have hbd : ∀ x ∈ m.map Prod.snd, 0 ≤ x ∧ x < w.length := by
    intro x hx
    rw [List.mem_map] at hx
    obtain ⟨q, hq, rfl⟩ := hx
    exact ⟨Nat.zero_le _, (hb q hq).2.1⟩
  intro k hk
  exact (incr_range_full _ 0 w.length hp hbd).2 (by rw [List.length_map]; omega) k (Nat.zero_le _) hk

/-- prediction equal to the target: no false negatives -/
theorem spellCounts_pred_eq_target_fn (i t : List (List Nat)) (c : Counts)
    (h : spellCounts i t t = some c) : c.fn = 0 := by
  unfold spellCounts at h
  simp only [] at h
  split at h
  · rename_i mit mip mpt h1 h2 h3
    split at h
    · simp at h
    · simp only [Option.some.injEq] at h
      subst h
      simp only [List.length_eq_zero_iff, List.filter_eq_nil_iff]
      intro a ha
      have hlt : a < (splitAsciiWs t.flatten).length := by
        simp only [editedWords, List.mem_filter, List.mem_range] at ha
        exact ha.1
      have := matchWords_self_snd _ _ h3 a hlt
      simp [List.contains_eq_mem, this]
  · simp at h

/-! ### Priority 1 — the spelling-correction F1 functions never panic -/

/-- `_group_words` never hits its closing assertion on whitespace-clean texts (every matching set) -/
theorem groupWords_total (input pred : List (List Nat)) (hi : CleanB input = true) (hp : CleanB pred = true)
    (matching : List Nat) : (groupWords input pred matching).isSome = true :=
  groupWords_isSome input pred hi hp matching

/-- hence the spelling counts are defined whenever the three word matchings are -/
theorem spellCounts_total (input pred target : List (List Nat)) (hi : CleanB input = true) (hp : CleanB pred = true)
    (h1 : (matchWords (splitAsciiWs input.flatten) (splitAsciiWs target.flatten)).isSome = true)
    (h2 : (matchWords (splitAsciiWs input.flatten) (splitAsciiWs pred.flatten)).isSome = true)
    (h3 : (matchWords (splitAsciiWs pred.flatten) (splitAsciiWs target.flatten)).isSome = true) :
    (spellCounts input pred target).isSome = true := by
  obtain ⟨mit, e1⟩ := Option.isSome_iff_exists.mp h1
  obtain ⟨mip, e2⟩ := Option.isSome_iff_exists.mp h2
  obtain ⟨mpt, e3⟩ := Option.isSome_iff_exists.mp h3
  obtain ⟨c, ec⟩ := Option.isSome_iff_exists.mp (groupWords_total input pred hi hp (mpt.map Prod.fst))
  simp only [spellCounts, e1, e2, e3, ec, Option.isSome_some]

/-- non-vacuity: a merge (deleted whitespace), a split (inserted whitespace) and a deleted last word -/
example : groupWords [[97], sp, [98]] [[97], [98]] [0] = some [1, 0] := by decide
example : groupWords [[97], [98]] [[97], sp, [98]] [0, 1] = some [0] := by decide
example : groupWords [[97], sp, [98]] [[97]] [] = some [] := by decide

/-! ### the spelling counts for GIVEN sub-results (the observed matchings / edit script)

The correspondence check passes the matchings and the edit script the code actually computed to the model
(`groupWordsWith`, `spellCountsWith`), after testing that they are admissible (`spellSubOk`).  The theorems say:
the old function models are the new ones on the model's own sub-results, those are admissible, and the closing
assertion of `_group_words` holds for EVERY admissible script. -/

/-- the old function model is the new one applied to the model's own script -/
theorem groupWords_eq_with (input pred : List (List Nat)) (matching : List Nat) :
    groupWords input pred matching =
      (editOperations { swap := false, sid := true } input pred).bind
        (fun ops => groupWordsWith ops input pred matching) := by
  unfold groupWords
  cases editOperations { swap := false, sid := true } input pred with
  | none => rfl
  | some ops => rfl

/-- and `spellCounts` is `spellCountsWith` on the model's own sub-results (when the three matchings exist) -/
theorem spellCounts_eq_with (input pred target : List (List Nat)) (mit mip mpt : List (Nat × Nat))
    (ops : List (EKind × Nat × Nat))
    (h1 : matchWords (splitAsciiWs input.flatten) (splitAsciiWs target.flatten) = some mit)
    (h2 : matchWords (splitAsciiWs input.flatten) (splitAsciiWs pred.flatten) = some mip)
    (h3 : matchWords (splitAsciiWs pred.flatten) (splitAsciiWs target.flatten) = some mpt)
    (h4 : editOperations { swap := false, sid := true } input pred = some ops) :
    spellCounts input pred target =
      spellCountsWith input pred target { mit := mit, mip := mip, mpt := mpt, ops := ops } := by
  unfold spellCounts spellCountsWith
  simp only [h1, h2, h3, groupWords_eq_with, h4, Option.bind_some]

/-- the model's own sub-results are admissible -/
theorem spellSubOk_own (input pred target : List (List Nat)) (mit mip mpt : List (Nat × Nat))
    (ops : List (EKind × Nat × Nat))
    (h1 : matchWords (splitAsciiWs input.flatten) (splitAsciiWs target.flatten) = some mit)
    (h2 : matchWords (splitAsciiWs input.flatten) (splitAsciiWs pred.flatten) = some mip)
    (h3 : matchWords (splitAsciiWs pred.flatten) (splitAsciiWs target.flatten) = some mpt)
    (h4 : editOperations { swap := false, sid := true } input pred = some ops) :
    spellSubOk input pred target { mit := mit, mip := mip, mpt := mpt, ops := ops } = true := by
  unfold spellSubOk
  simp only [C18.matchWords_accepted _ _ _ h1, C18.matchWords_accepted _ _ _ h2, C18.matchWords_accepted _ _ _ h3,
    C12.editOperations_accepted _ _ _ _ h4, Bool.and_self]

/-- **never panics, for EVERY admissible script**: on whitespace-clean texts the closing assertion of `_group_words`
holds whatever optimal script `edit::operations` returned.  (`scriptAccept` also accepts scripts that are not
forward traces of the matrix — e.g. two replacements recorded at the same input position, the second of which
`applyScript` treats as an insertion; the proof follows `applyScript` and uses the optimality `length = distance`
to exclude the degenerate steps that would disturb the whitespace count: Lemmas/GroupWordsWithL.lean.) -/
theorem groupWordsWith_total (input pred : List (List Nat)) (hi : CleanB input = true) (hp : CleanB pred = true)
    (ops : List (EKind × Nat × Nat)) (ha : scriptAccept { swap := false, sid := true } input pred ops = true)
    (matching : List Nat) : (groupWordsWith ops input pred matching).isSome = true :=
  groupWordsWith_isSome input pred hi hp ops ha matching

/-- hence the spelling counts computed from admissible sub-results are always defined -/
theorem spellCountsWith_total (input pred target : List (List Nat)) (hi : CleanB input = true) (hp : CleanB pred = true)
    (sub : SpellSub) (hs : spellSubOk input pred target sub = true) :
    (spellCountsWith input pred target sub).isSome = true := by
  have ha : scriptAccept { swap := false, sid := true } input pred sub.ops = true := by
    unfold spellSubOk at hs
    simp only [Bool.and_eq_true] at hs
    exact hs.2
  obtain ⟨c, ec⟩ := Option.isSome_iff_exists.mp
    (groupWordsWith_total input pred hi hp sub.ops ha (sub.mpt.map Prod.fst))
  simp only [spellCountsWith, ec, Option.isSome_some]

/-- non-vacuity: an accepted script that is NOT the backtrace's answer and not even a forward trace of the matrix
("bb b" → "aabb": two replacements recorded at input position 0 — `applyScript` treats the second as an insertion —
and the deleted space): the theorem covers it, the two input words are merged into one group -/
example : scriptAccept { swap := false, sid := true } [[98], [98], sp, [98]] [[97], [97], [98], [98]]
      [(.replace, 0, 1), (.replace, 0, 1), (.delete, 2, 2)] = true ∧
    editOperations { swap := false, sid := true } [[98], [98], sp, [98]] [[97], [97], [98], [98]] ≠
      some [(.replace, 0, 1), (.replace, 0, 1), (.delete, 2, 2)] ∧
    groupWordsWith [(.replace, 0, 1), (.replace, 0, 1), (.delete, 2, 2)]
      [[98], [98], sp, [98]] [[97], [97], [98], [98]] [0] = some [1, 0] := by decide

/-! ### Priority 4 (continued) — spelling counts calibration: the remaining clauses

`spellCounts_pred_eq_target_fn` above is the "no false negatives" clause.  Here: an unchanged prediction has no
true positive; a prediction equal to the target has no false positive; and the relational forms (for every
admissible set of sub-results).  Helper lemmas: Lemmas/SpellCalibL.lean. -/

/-- relational form — unchanged prediction: zero true positives, when the SAME matching was observed for the two
calls `match_words(input, target)` and `match_words(prediction, target)` (they are the same call) -/
theorem spellCountsWith_pred_eq_input_tp (i t : List (List Nat)) (sub : SpellSub) (hm : sub.mit = sub.mpt)
    (c : Counts) (h : spellCountsWith i i t sub = some c) : c.tp = 0 :=
  spellCountsWith_tp_zero i i t sub c h hm

/-- the hypothesis `sub.mit = sub.mpt` is needed: input = prediction = `a`, target = `a a`; both `[(0,0)]` and
`[(0,1)]` are admissible longest matchings; taking one for (input, target) and the other for (prediction, target)
reports the second target word as misspelled AND restored -/
example :
    spellSubOk [[97]] [[97]] [[97], sp, [97]] { mit := [(0, 0)], mip := [(0, 0)], mpt := [(0, 1)], ops := [] } = true ∧
    spellCountsWith [[97]] [[97]] [[97], sp, [97]] { mit := [(0, 0)], mip := [(0, 0)], mpt := [(0, 1)], ops := [] } =
      some ⟨false, 1, 0, 0⟩ := by decide

/-- unchanged prediction: zero true positives (the function itself: the two calls coincide, so `restored` is
exactly the complement of `misspelled`) -/
theorem spellCounts_pred_eq_input_tp (i t : List (List Nat)) (c : Counts)
    (h : spellCounts i i t = some c) : c.tp = 0 := by
  obtain ⟨mit, mip, mpt, ops, h1, _, h3, _, hw⟩ := spellCounts_some_with i i t c h
  rw [h1] at h3
  cases h3
  exact spellCountsWith_tp_zero _ _ _ _ c hw rfl

/-- non-vacuity: input = prediction `a b`, target `a c`: the misspelled word is missed (fn = 1), tp = 0 -/
example : spellCounts [[97], sp, [98]] [[97], sp, [98]] [[97], sp, [99]] = some ⟨false, 0, 0, 1⟩ := by decide
example : spellCountsWith [[97], sp, [98]] [[97], sp, [98]] [[97], sp, [99]]
    { mit := [(0, 0)], mip := [(0, 0), (1, 1)], mpt := [(0, 0)], ops := [] } = some ⟨false, 0, 0, 1⟩ := by decide

/-- the prediction/target matching of an admissible sub-result set -/
theorem spellSubOk_mpt (i p t : List (List Nat)) (sub : SpellSub) (hs : spellSubOk i p t sub = true) :
    matchAccept (splitAsciiWs p.flatten) (splitAsciiWs t.flatten) sub.mpt = true := by
  unfold spellSubOk at hs
  simp only [Bool.and_eq_true] at hs
  exact hs.1.2

/-- an admissible matching of (target, target) is the identity matching -/
theorem spellSubOk_mpt_identity (i t : List (List Nat)) (sub : SpellSub) (hs : spellSubOk i t t sub = true) :
    sub.mpt = (List.range (splitAsciiWs t.flatten).length).map (fun k => (k, k)) :=
  matchAccept_self_eq _ _ (spellSubOk_mpt i t t sub hs)

/-- relational form — prediction equal to the target: no false negatives, for EVERY admissible sub-result set -/
theorem spellCountsWith_pred_eq_target_fn (i t : List (List Nat)) (sub : SpellSub)
    (hs : spellSubOk i t t sub = true) (c : Counts) (h : spellCountsWith i t t sub = some c) : c.fn = 0 :=
  spellCountsWith_fn_zero i t t sub c h (matchAccept_self_full _ _ (spellSubOk_mpt i t t sub hs)).2

/-- relational form — prediction equal to the target: no false positives, for EVERY admissible sub-result set;
stated with what the proof uses of the texts: `split_ascii_whitespace` finds no more words in the input than
`word_boundaries`, and no fewer in the target -/
theorem spellCountsWith_pred_eq_target_fp_of_counts (i t : List (List Nat))
    (hi : (splitAsciiWs i.flatten).length ≤ (wordBoundaries i).length)
    (ht : (wordBoundaries t).length ≤ (splitAsciiWs t.flatten).length)
    (sub : SpellSub) (hs : spellSubOk i t t sub = true) (c : Counts)
    (h : spellCountsWith i t t sub = some c) : c.fp = 0 :=
  spellCountsWith_fp_zero i t t sub c h
    (fun k hk => (matchAccept_self_full _ _ (spellSubOk_mpt i t t sub hs)).1 k (by omega)) hi

/-- … in particular for a whitespace-clean input without mixed clusters (the property's domain: `unmixed`, which
holds in code-point mode) and a whitespace-clean target -/
theorem spellCountsWith_pred_eq_target_fp (i t : List (List Nat)) (hi : CleanB i = true) (hu : unmixed i = true)
    (ht : CleanB t = true) (sub : SpellSub) (hs : spellSubOk i t t sub = true) (c : Counts)
    (h : spellCountsWith i t t sub = some c) : c.fp = 0 :=
  spellCountsWith_pred_eq_target_fp_of_counts i t (Nat.le_of_eq (wordBoundaries_length_split hi hu).symm)
    (wordBoundaries_length_le ht) sub hs c h

/-- code-point mode -/
theorem spellCountsWith_pred_eq_target_fp_singletons (i t : List (List Nat)) (hi : CleanB i = true)
    (hu : singletons i = true) (ht : CleanB t = true) (sub : SpellSub) (hs : spellSubOk i t t sub = true)
    (c : Counts) (h : spellCountsWith i t t sub = some c) : c.fp = 0 :=
  spellCountsWith_pred_eq_target_fp i t hi (unmixed_of_singletons hu) ht sub hs c h

/-- prediction equal to the target: no false positives (the function itself), under the word-count conditions -/
theorem spellCounts_pred_eq_target_fp_of_counts (i t : List (List Nat))
    (hi : (splitAsciiWs i.flatten).length ≤ (wordBoundaries i).length)
    (ht : (wordBoundaries t).length ≤ (splitAsciiWs t.flatten).length)
    (c : Counts) (h : spellCounts i t t = some c) : c.fp = 0 := by
  obtain ⟨mit, mip, mpt, ops, h1, h2, h3, h4, hw⟩ := spellCounts_some_with i t t c h
  exact spellCountsWith_pred_eq_target_fp_of_counts i t hi ht _ (spellSubOk_own i t t mit mip mpt ops h1 h2 h3 h4) c hw

/-- **prediction equal to the target: no false positives** — whitespace-clean input without mixed clusters,
whitespace-clean target.  (`CleanB i` and `CleanB t` alone do NOT suffice, and each of the three hypotheses is
needed: see the examples below.) -/
theorem spellCounts_pred_eq_target_fp (i t : List (List Nat)) (hi : CleanB i = true) (hu : unmixed i = true)
    (ht : CleanB t = true) (c : Counts) (h : spellCounts i t t = some c) : c.fp = 0 :=
  spellCounts_pred_eq_target_fp_of_counts i t (Nat.le_of_eq (wordBoundaries_length_split hi hu).symm)
    (wordBoundaries_length_le ht) c h

/-- code-point mode -/
theorem spellCounts_pred_eq_target_fp_singletons (i t : List (List Nat)) (hi : CleanB i = true)
    (hu : singletons i = true) (ht : CleanB t = true) (c : Counts) (h : spellCounts i t t = some c) : c.fp = 0 :=
  spellCounts_pred_eq_target_fp i t hi (unmixed_of_singletons hu) ht c h

/-- both clauses together: a prediction equal to the target has no false positives or negatives -/
theorem spellCounts_pred_eq_target (i t : List (List Nat)) (hi : CleanB i = true) (hu : unmixed i = true)
    (ht : CleanB t = true) (c : Counts) (h : spellCounts i t t = some c) : c.fp = 0 ∧ c.fn = 0 :=
  ⟨spellCounts_pred_eq_target_fp i t hi hu ht c h, spellCounts_pred_eq_target_fn i t c h⟩

theorem spellCountsWith_pred_eq_target (i t : List (List Nat)) (hi : CleanB i = true) (hu : unmixed i = true)
    (ht : CleanB t = true) (sub : SpellSub) (hs : spellSubOk i t t sub = true) (c : Counts)
    (h : spellCountsWith i t t sub = some c) : c.fp = 0 ∧ c.fn = 0 :=
  ⟨spellCountsWith_pred_eq_target_fp i t hi hu ht sub hs c h, spellCountsWith_pred_eq_target_fn i t sub hs c h⟩

/-- non-vacuity: input `a b`, prediction = target `a c`: one true positive, nothing else; and a case with a merge
and a split (input `ab c`, prediction = target `a bc`): both input words changed, both correct -/
example : CleanB [[97], sp, [98]] = true ∧ unmixed [[97], sp, [98]] = true ∧ CleanB [[97], sp, [99]] = true ∧
    spellCounts [[97], sp, [98]] [[97], sp, [99]] [[97], sp, [99]] = some ⟨false, 1, 0, 0⟩ := by decide
example : spellCounts [[97], [98], sp, [99]] [[97], sp, [98], [99]] [[97], sp, [98], [99]] =
    some ⟨false, 2, 0, 0⟩ := by decide
example :
    spellSubOk [[97], sp, [98]] [[97], sp, [99]] [[97], sp, [99]]
      { mit := [(0, 0)], mip := [(0, 0)], mpt := [(0, 0), (1, 1)], ops := [(.replace, 2, 2)] } = true ∧
    spellCountsWith [[97], sp, [98]] [[97], sp, [99]] [[97], sp, [99]]
      { mit := [(0, 0)], mip := [(0, 0)], mpt := [(0, 0), (1, 1)], ops := [(.replace, 2, 2)] } =
      some ⟨false, 1, 0, 0⟩ := by decide

/-- the hypotheses of the "no false positives" clause are needed (counterexamples in the model):
* a whitespace-clean input with a MIXED cluster `a␣b` (one `word_boundaries` word, two `split_ascii_whitespace`
  words; its second word is "changed" but belongs to no group);
* a target that is not whitespace-clean (`a<NBSP>b`: two `word_boundaries` words, one `split_ascii_whitespace`
  word, so the second predicted word is never matched);
* an input without mixed clusters that is not whitespace-clean (`␣<NBSP>␣`: no `word_boundaries` word, one
  `split_ascii_whitespace` word). -/
example : CleanB [[97, 32, 98]] = true ∧ CleanB [[99]] = true ∧
    spellCounts [[97, 32, 98]] [[99]] [[99]] = some ⟨false, 1, 1, 0⟩ := by decide
example : CleanB [[99]] = true ∧ unmixed [[99]] = true ∧
    spellCounts [[99]] [[97], [160], [98]] [[97], [160], [98]] = some ⟨false, 1, 1, 0⟩ := by decide
example : unmixed [[32], [160], [32]] = true ∧ CleanB [[99]] = true ∧
    spellCounts [[32], [160], [32]] [[99]] [[99]] = some ⟨false, 1, 1, 0⟩ := by decide

/-! ### non-vacuity -/

example : (f1 2 1 1 1 1).1 = ⟨72, 108⟩ ∧ (f1 2 1 1 1 1).1.unit ∧ (f1 2 1 1 1 2).1 = ⟨720, 1080⟩ := by decide
example : (f1 3 0 0 1 2).1.isOne ∧ (f1 0 3 1 1 2).2.1.isZero := by decide
example : (seqAvgF1 [⟨true, 0, 0, 0⟩, ⟨false, 1, 1, 0⟩] 1 1).2.1 = ⟨3, 4⟩ := by decide
example : accuracy [1, 2, 3] [1, 5, 3] = some ⟨2, 3⟩ := by decide
example : accuracy [1, 2] [1] = none := by decide
example : countTpFpFn [true, true, false, false] [true, false, true, false] = (1, 1, 1) := by decide
/-- input `a b·c` (· = space), prediction `a·bc`, target `a·b·c`; mode 2: one correct insertion,
one wrong deletion, nothing missed -/
example : wsCounts [[97], [98], sp, [99]] [[97], sp, [98], [99]] [[97], sp, [98], sp, [99]] 2 =
    some ⟨false, 1, 1, 0⟩ := by decide

end Tu.C13
