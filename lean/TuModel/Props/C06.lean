/-
  C06 — batching partitions the item stream and respects the batch limit.

  Model: `Tu.stepAllowed` (Model/Batch.lean): "from this state `build_batch` may return this
  batch", executable, replayed by the driver on every observed batch sequence of the real
  `Batched` iterator.  The theorems below hold for EVERY sequence of allowed steps, i.e. for every
  random stream / seed, every item-size sequence and every configuration.

  The limit clauses (`Good`, `itemsLimit`, `limOf`) speak about the value the code computes, the SATURATING
  product `count.saturating_mul(max size)` (Model/Batch.lean `limOf`): this is what the code guarantees for every
  configuration.  The `*_exact` corollaries give the same clauses for the mathematical product `limOfExact`, for
  every batch limit below `usize::MAX` (Props/C06u.lean `limOf_le_iff` / `limOf_gt_iff`; sharp: with limit
  `usize::MAX` the saturated value never exceeds the limit).
-/
import TuModel.Lemmas.BatchL
import TuModel.Props.C06u
namespace Tu.C06
open Tu

theorem removeItems_perm (buf b : List Item) (hb : b.Nodup) (hbuf : buf.Nodup) (hsub : ∀ x ∈ b, x ∈ buf) :
    (b ++ removeItems buf b).Perm buf := by
  have h1 := List.filter_append_perm (fun x => b.contains x) buf
  have h2 : (buf.filter (fun x => b.contains x)).Perm b := by
    apply (List.perm_ext_iff_of_nodup (hbuf.filter _) hb).mpr
    intro a
    simp only [List.mem_filter, List.contains_eq_mem, decide_eq_true_eq]
    exact ⟨fun h => h.2, fun h => ⟨hsub a h, h⟩⟩
  have h3 : removeItems buf b = buf.filter (fun x => !(fun x => b.contains x) x) := rfl
  rw [h3]
  exact (List.Perm.append_right _ h2.symm).trans h1

/-- one allowed step: the batch is non-empty, within the limit unless it is a single item, and
batch + new state is a rearrangement of the old state -/
theorem step_spec (cfg : BCfg) (st : BState) (b : List Item) (st' : BState)
    (hnd : (st.buf ++ st.rest).Nodup) (h : stepAllowed cfg st b = some st') :
    b ≠ [] ∧ Good cfg.padded cfg.lim b ∧ (b ++ st'.buf ++ st'.rest).Perm (st.buf ++ st.rest) := by
  unfold stepAllowed at h
  split at h
  · simp at h
  · rename_i hne
    have hne' : b ≠ [] := by simpa using hne
    refine ⟨hne', ?_⟩
    split at h
    · -- plain
      split at h
      · simp at h
      · generalize hbf : batchFrom cfg.padded cfg.lim (st.buf ++ st.rest) = r at h
        obtain ⟨got, rem, un⟩ := r
        simp only at h
        split at h
        · rename_i heq
          have heq' : got = b := by simpa using heq
          injection h with h; subst h
          obtain ⟨h1, h2, _, _, _⟩ := batchFrom_spec _ _ _ _ _ _ hbf
          subst heq'
          exact ⟨h2, by rw [← h1]⟩
        · simp at h
    · generalize hfb : fillBuf cfg.padded (min (cfg.lim * cfg.pf) usizeMax) st.rest st.buf st.buf.length (maxSize st.buf) = r at h
      obtain ⟨buf, rest'⟩ := r
      have hfill := fillBuf_spec _ _ _ _ _ _ _ _ hfb
      simp only at h
      split at h
      · simp at h
      · split at h
        · -- sort
          have hsp : (sortBySize buf).Perm buf := List.mergeSort_perm _ _
          split at h
          · -- sort + shuffle
            split at h
            · -- no window: the last item alone
              split at h
              · rename_i heq
                injection h with h; subst h
                cases hl : (sortBySize buf).getLast? with
                | none => simp [hl] at heq
                | some l =>
                  simp [hl] at heq; subst heq
                  refine ⟨Or.inl (by simp), ?_⟩
                  have hne2 : sortBySize buf ≠ [] := by intro h0; rw [h0] at hl; simp at hl
                  have : (sortBySize buf).dropLast ++ [l] = sortBySize buf := by
                    have h1 := List.dropLast_concat_getLast hne2
                    have h2 : (sortBySize buf).getLast hne2 = l := by
                      rw [List.getLast?_eq_some_getLast hne2] at hl; injection hl
                    rw [h2] at h1; exact h1
                  simp only []
                  rw [← hfill]
                  have hp : ([l] ++ (sortBySize buf).dropLast).Perm (sortBySize buf) := by
                    have h3 : ([l] ++ (sortBySize buf).dropLast).Perm ((sortBySize buf).dropLast ++ [l]) := List.perm_append_comm
                    rw [this] at h3; exact h3
                  exact (List.Perm.append_right _ (hp.trans hsp))
              · simp at h
            · split at h
              · rename_i s e hfind
                injection h with h; subst h
                have hmem := List.mem_of_find?_eq_some hfind
                have hwin := List.find?_some hfind
                simp only [beq_iff_eq] at hwin
                have hlim := findSubseq_sound cfg.padded (sortBySize buf) cfg.lim s e hmem
                rw [hwin] at hlim
                refine ⟨Or.inr hlim, ?_⟩
                have hse : s ≤ e := by
                  rcases Nat.lt_or_ge e s with hlt | hge
                  · have : e - s = 0 := by omega
                    rw [this] at hwin; simp at hwin; exact (hne' hwin).elim
                  · exact hge
                have hdecomp : (sortBySize buf).take s ++ (b ++ (sortBySize buf).drop e) = sortBySize buf := by
                  rw [← hwin]
                  have h1 : ((sortBySize buf).drop s).take (e - s) ++ (sortBySize buf).drop e = (sortBySize buf).drop s := by
                    have : (sortBySize buf).drop e = ((sortBySize buf).drop s).drop (e - s) := by
                      rw [List.drop_drop]; congr 1; omega
                    rw [this, List.take_append_drop]
                  rw [h1, List.take_append_drop]
                simp only []
                rw [← hfill]
                have hp : (b ++ ((sortBySize buf).take s ++ (sortBySize buf).drop e)).Perm (sortBySize buf) := by
                  have : (b ++ ((sortBySize buf).take s ++ (sortBySize buf).drop e)).Perm
                      ((sortBySize buf).take s ++ (b ++ (sortBySize buf).drop e)) := by
                    rw [← List.append_assoc, ← List.append_assoc]
                    exact List.Perm.append_right _ List.perm_append_comm
                  rw [hdecomp] at this; exact this
                have := List.Perm.append_right rest' (hp.trans hsp)
                simpa [List.append_assoc] using this
              · simp at h
          · -- sort only
            generalize hbf : batchFrom cfg.padded cfg.lim (sortBySize buf).reverse = r at h
            obtain ⟨got, rem, un⟩ := r
            simp only at h
            split at h
            · rename_i heq
              have heq' : got = b := by simpa using heq
              injection h with h; subst h
              obtain ⟨h1, h2, _, _, _⟩ := batchFrom_spec _ _ _ _ _ _ hbf
              subst heq'
              refine ⟨h2, ?_⟩
              simp only []
              rw [← hfill]
              have hp : (got ++ (un.reverse ++ rem.toList)).Perm (sortBySize buf) := by
                have e1 : (got ++ (un.reverse ++ rem.toList)).Perm (got ++ rem.toList ++ un) := by
                  rw [List.append_assoc]
                  exact List.Perm.append_left _ ((List.perm_append_comm).trans (List.Perm.append_left _ (List.reverse_perm un)))
                rw [h1] at e1
                exact e1.trans (List.reverse_perm _)
              have := List.Perm.append_right rest' (hp.trans hsp)
              simpa [List.append_assoc] using this
            · simp at h
        · -- shuffle only
          split at h
          · rename_i hg
            injection h with h; subst h
            unfold greedyOK at hg
            generalize hbf : batchFrom cfg.padded cfg.lim b = r at hg
            obtain ⟨got, rem, un⟩ := r
            simp only [Bool.and_eq_true, beq_iff_eq, List.isEmpty_iff, List.all_eq_true, List.contains_eq_mem,
              decide_eq_true_eq] at hg
            obtain ⟨⟨⟨⟨hgot, _⟩, hsub⟩, hnodup⟩, _⟩ := hg
            obtain ⟨_, h2, _, _, _⟩ := batchFrom_spec _ _ _ _ _ _ hbf
            subst hgot
            refine ⟨h2, ?_⟩
            simp only []
            rw [← hfill]
            have hbufnd : buf.Nodup := by
              have : (buf ++ rest').Nodup := by rw [hfill]; exact hnd
              exact (List.nodup_append.mp this).1
            have := List.Perm.append_right rest' (removeItems_perm buf got hnodup hbufnd hsub)
            simpa [List.append_assoc] using this
          · simp at h

/-- **every item appears in exactly one batch**: after any sequence of allowed steps, the batches
plus what is still buffered / upstream are a rearrangement of the input; all batches are non-empty
and every batch with more than one item satisfies the limit -/
theorem run_spec (cfg : BCfg) : ∀ (bs : List (List Item)) (st st' : BState),
    (st.buf ++ st.rest).Nodup → runBatches cfg st bs = some st' →
    (bs.flatten ++ st'.buf ++ st'.rest).Perm (st.buf ++ st.rest) ∧
    (∀ b ∈ bs, b ≠ [] ∧ (1 < b.length → itemsLimit cfg.padded b ≤ cfg.lim)) := by
  intro bs
  induction bs with
  | nil => intro st st' _ h; simp [runBatches] at h; subst h; simp
  | cons b bs ih =>
    intro st st' hnd h
    simp only [runBatches] at h
    cases hs : stepAllowed cfg st b with
    | none => simp [hs] at h
    | some st1 =>
      simp only [hs] at h
      obtain ⟨hne, hgood, hperm⟩ := step_spec cfg st b st1 hnd hs
      have hnd1 : (st1.buf ++ st1.rest).Nodup := by
        have := (hperm.nodup_iff).mpr hnd
        rw [List.append_assoc] at this
        exact (List.nodup_append.mp this).2.1
      obtain ⟨hp2, hall⟩ := ih st1 st' hnd1 h
      constructor
      · simp only [List.flatten_cons]
        have : (b ++ bs.flatten ++ st'.buf ++ st'.rest).Perm (b ++ (st1.buf ++ st1.rest)) := by
          simp only [List.append_assoc]
          exact List.Perm.append_left _ (by simpa [List.append_assoc] using hp2)
        exact this.trans (by simpa [List.append_assoc] using hperm)
      · intro x hx
        rcases List.mem_cons.mp hx with rfl | hx
        · refine ⟨hne, fun hl => ?_⟩
          rcases hgood with h1 | h1
          · omega
          · exact h1
        · exact hall x hx

/-- `batch_limit.max(1)` is below `usize::MAX` iff the configured limit is -/
theorem lim_lt_usizeMax_iff (cfg : BCfg) : cfg.lim < usizeMax ↔ cfg.limit < usizeMax := by
  unfold BCfg.lim usizeMax; omega

/-- `step_spec` with the mathematical padded size: for every batch limit below `usize::MAX` a batch with more than
one item has `count * max size ≤ limit` exactly (not only after saturation) -/
theorem step_spec_exact (cfg : BCfg) (st : BState) (b : List Item) (st' : BState)
    (hl : max 1 cfg.limit < usizeMax)
    (hnd : (st.buf ++ st.rest).Nodup) (h : stepAllowed cfg st b = some st') :
    b ≠ [] ∧ (b.length ≤ 1 ∨ limOfExact cfg.padded b.length (maxSize b) ≤ cfg.lim) ∧
    (b ++ st'.buf ++ st'.rest).Perm (st.buf ++ st.rest) := by
  obtain ⟨hne, hgood, hperm⟩ := step_spec cfg st b st' hnd h
  refine ⟨hne, ?_, hperm⟩
  rcases hgood with h1 | h1
  · exact Or.inl h1
  · exact Or.inr ((C06u.itemsLimit_le_iff cfg.padded b cfg.lim hl).mp h1)

/-- `run_spec` with the mathematical padded size, for every batch limit below `usize::MAX` -/
theorem run_spec_exact (cfg : BCfg) (bs : List (List Item)) (st st' : BState) (hl : max 1 cfg.limit < usizeMax)
    (hnd : (st.buf ++ st.rest).Nodup) (h : runBatches cfg st bs = some st') :
    (bs.flatten ++ st'.buf ++ st'.rest).Perm (st.buf ++ st.rest) ∧
    (∀ b ∈ bs, b ≠ [] ∧ (1 < b.length → limOfExact cfg.padded b.length (maxSize b) ≤ cfg.lim)) := by
  obtain ⟨hp, hall⟩ := run_spec cfg bs st st' hnd h
  refine ⟨hp, fun b hb => ⟨(hall b hb).1, fun h1 => ?_⟩⟩
  exact (C06u.itemsLimit_le_iff cfg.padded b cfg.lim hl).mp ((hall b hb).2 h1)

/-- complete iteration: when the iterator ended (`finished`), the batches are a permutation of the
input items — every item in exactly one batch -/
theorem batches_partition (cfg : BCfg) (items : List Item) (bs : List (List Item)) (st' : BState)
    (hnd : items.Nodup) (h : runBatches cfg { rest := items, buf := [] } bs = some st') (hf : finished st' = true) :
    bs.flatten.Perm items := by
  obtain ⟨hp, _⟩ := run_spec cfg bs _ st' (by simpa using hnd) h
  simp only [finished, Bool.and_eq_true, List.isEmpty_iff] at hf
  simpa [hf.1, hf.2] using hp

/-- the iteration terminates: every allowed step strictly shrinks buffer + upstream, so at most
`|items|` batches can ever be returned -/
theorem step_decreases (cfg : BCfg) (st : BState) (b : List Item) (st' : BState)
    (hnd : (st.buf ++ st.rest).Nodup) (h : stepAllowed cfg st b = some st') :
    st'.buf.length + st'.rest.length < st.buf.length + st.rest.length := by
  obtain ⟨hne, _, hp⟩ := step_spec cfg st b st' hnd h
  have := hp.length_eq
  simp only [List.length_append] at this
  have : 0 < b.length := by cases b <;> simp_all
  omega

/-- without sort and shuffle the step is a function (exactly one batch is allowed), the
concatenation of batch, remainder and upstream is the input order, and the batch is greedy-maximal:
the remainder would overflow it -/
theorem plain_step (cfg : BCfg) (hs : cfg.sort = false) (hsh : cfg.shuffle = false) (st : BState) (b : List Item)
    (st' : BState) (h : stepAllowed cfg st b = some st') :
    b ++ st'.buf ++ st'.rest = st.buf ++ st.rest ∧
    (∀ r, st'.buf = [r] → limOf cfg.padded (b.length + 1) (max (maxSize b) r.size) > cfg.lim) ∧
    (st'.buf = [] → st'.rest = []) ∧ st'.buf.length ≤ 1 ∧
    ∀ b2 st2, stepAllowed cfg st b2 = some st2 → b2 = b := by
  unfold stepAllowed at h
  simp only [hs, hsh, Bool.not_false, Bool.and_self, if_true] at h
  split at h
  · simp at h
  · split at h
    · simp at h
    · generalize hbf : batchFrom cfg.padded cfg.lim (st.buf ++ st.rest) = r at h
      obtain ⟨got, rem, un⟩ := r
      simp only at h
      split at h
      · rename_i hlen heq
        have heq' : got = b := by simpa using heq
        injection h with h; subst h
        obtain ⟨h1, _, h3, h4, _⟩ := batchFrom_spec _ _ _ _ _ _ hbf
        subst heq'
        refine ⟨by simpa using h1, ?_, ?_, ?_, ?_⟩
        · intro r hr
          cases rem with
          | none => simp at hr
          | some r' => simp at hr; subst hr; exact (h3 r' rfl).2
        · intro hr
          cases rem with
          | none => exact h4 rfl
          | some r' => simp at hr
        · cases rem <;> simp
        · intro b2 st2 h2
          unfold stepAllowed at h2
          simp only [hs, hsh, Bool.not_false, Bool.and_self, if_true] at h2
          split at h2
          · simp at h2
          · simp only [hbf] at h2
            split at h2
            · rename_i heq2; have : got = b2 := by simpa using heq2
              exact this.symm
            · simp at h2
      · simp at h

/-- `plain_step`, greedy maximality with the mathematical padded size: for every batch limit below `usize::MAX` the
remainder would overflow the batch exactly -/
theorem plain_step_exact (cfg : BCfg) (hs : cfg.sort = false) (hsh : cfg.shuffle = false) (st : BState) (b : List Item)
    (st' : BState) (hl : max 1 cfg.limit < usizeMax) (h : stepAllowed cfg st b = some st') :
    ∀ r, st'.buf = [r] → limOfExact cfg.padded (b.length + 1) (max (maxSize b) r.size) > cfg.lim := by
  intro r hr
  exact (C06u.limOf_gt_iff cfg.padded _ _ cfg.lim hl).mp ((plain_step cfg hs hsh st b st' h).2.1 r hr)

/-! non-vacuity -/
example : (runBatches { sort := false, shuffle := false, padded := true, prefetch := 1, limit := 6 }
    { rest := [⟨0, 2⟩, ⟨1, 3⟩, ⟨2, 3⟩, ⟨3, 9⟩, ⟨4, 1⟩], buf := [] }
    [[⟨0, 2⟩, ⟨1, 3⟩], [⟨2, 3⟩], [⟨3, 9⟩], [⟨4, 1⟩]]).map finished = some true := by decide

/-- saturation: two items whose padded size is 2^64 are not put into one batch (limit 8) -/
example : (runBatches { sort := false, shuffle := false, padded := true, prefetch := 1, limit := 8 }
    { rest := [⟨0, 2 ^ 63⟩, ⟨1, 2 ^ 63⟩, ⟨2, 3⟩], buf := [] }
    [[⟨0, 2 ^ 63⟩], [⟨1, 2 ^ 63⟩], [⟨2, 3⟩]]).map finished = some true := by decide

/-! ### progress: the iteration cannot get stuck -/

/-- the plain-mode side condition of `step_progress` is an invariant of runs from the initial state -/
theorem plain_buf_le_one (cfg : BCfg) (hs : cfg.sort = false) (hsh : cfg.shuffle = false) :
    ∀ (bs : List (List Item)) (st st' : BState), st.buf.length ≤ 1 → runBatches cfg st bs = some st' → st'.buf.length ≤ 1 := by
  intro bs
  induction bs with
  | nil => intro st st' hl h; simp [runBatches] at h; subst h; exact hl
  | cons b bs ih =>
    intro st st' _ h
    simp only [runBatches] at h
    cases hst : stepAllowed cfg st b with
    | none => simp [hst] at h
    | some st1 =>
      simp only [hst] at h
      exact ih st1 st' (plain_step cfg hs hsh st b st1 hst).2.2.2.1 h

theorem progress_plain (cfg : BCfg) (st : BState) (hs : cfg.sort = false) (hsh : cfg.shuffle = false)
    (hne : st.buf ++ st.rest ≠ []) (hl : st.buf.length ≤ 1) : ∃ b st', stepAllowed cfg st b = some st' := by
  cases hbf : batchFrom cfg.padded cfg.lim (st.buf ++ st.rest) with
  | mk got r =>
  obtain ⟨rem, un⟩ := r
  have hgot := (batchFrom_spec _ _ _ _ _ _ hbf).2.2.2.2 hne
  refine ⟨got, { rest := un, buf := rem.toList }, ?_⟩
  unfold stepAllowed
  have : ¬ st.buf.length > 1 := by omega
  simp [hs, hsh, hgot, this, hbf]

theorem fillBuf_ne (p : Bool) (cap : Nat) : ∀ (rest buf : List Item) (c m : Nat),
    (buf ≠ [] ∨ (rest ≠ [] ∧ limOf p c m ≤ cap)) → (fillBuf p cap rest buf c m).1 ≠ [] := by
  intro rest
  induction rest with
  | nil => intro buf c m h; rcases h with h | h
           · simpa [fillBuf] using h
           · exact absurd rfl h.1
  | cons x xs ih =>
    intro buf c m h
    unfold fillBuf
    split
    · exact ih _ _ _ (Or.inl (by simp))
    · rename_i hc
      rcases h with h | h
      · exact h
      · exact absurd h.2 hc

theorem fillBuf_ne' (cfg : BCfg) (st : BState) (hne : st.buf ++ st.rest ≠ []) :
    (fillBuf cfg.padded (min (cfg.lim * cfg.pf) usizeMax) st.rest st.buf st.buf.length (maxSize st.buf)).1 ≠ [] := by
  apply fillBuf_ne
  by_cases hb : st.buf = []
  · right
    refine ⟨by simpa [hb] using hne, ?_⟩
    simp [hb, maxSize, limOf]
  · exact Or.inl hb

theorem sortBySize_ne {l : List Item} (h : l ≠ []) : sortBySize l ≠ [] := by
  intro h0
  have := (List.mergeSort_perm l (fun a b => a.size ≤ b.size)).length_eq
  unfold sortBySize at h0
  rw [h0] at this
  cases l <;> simp_all

theorem progress_sort (cfg : BCfg) (st : BState) (hs : cfg.sort = true) (hsh : cfg.shuffle = false)
    (hne : st.buf ++ st.rest ≠ []) : ∃ b st', stepAllowed cfg st b = some st' := by
  have hfne := fillBuf_ne' cfg st hne
  cases hfb : fillBuf cfg.padded (min (cfg.lim * cfg.pf) usizeMax) st.rest st.buf st.buf.length (maxSize st.buf) with
  | mk buf rest' =>
  rw [hfb] at hfne
  simp only at hfne
  have hsne : (sortBySize buf).reverse ≠ [] := by simpa using sortBySize_ne hfne
  cases hbf : batchFrom cfg.padded cfg.lim (sortBySize buf).reverse with
  | mk got r =>
  obtain ⟨rem, un⟩ := r
  have hgot := (batchFrom_spec _ _ _ _ _ _ hbf).2.2.2.2 hsne
  refine ⟨got, { rest := rest', buf := un.reverse ++ rem.toList }, ?_⟩
  unfold stepAllowed
  simp [hs, hsh, hgot, hfb, hfne, hbf]

/-- every window produced by the main loop is non-empty and starts inside the array -/
theorem subseqLoop_windows (sz : Nat → Nat → Nat) (n k : Nat) :
    ∀ (fuel st en prev : Nat) (acc : List (Nat × Nat)),
      (∀ w ∈ acc, w.1 < w.2 ∧ w.1 < n) → st < en → (prev ≤ k → en = st + 1 → sz st en ≤ k) →
      ∀ w ∈ subseqLoop sz n k fuel st en prev acc, w.1 < w.2 ∧ w.1 < n := by
  intro fuel
  induction fuel with
  | zero => intro st en prev acc ha _ _ w hw; simp [subseqLoop] at hw; exact ha w hw
  | succ fuel ih =>
    intro st en prev acc ha hlt hp w hw
    unfold subseqLoop at hw
    split at hw
    · rename_i hb
      simp only at hw
      split at hw
      · rename_i hs
        refine ih _ _ _ _ ?_ (by omega) (by intro _ h; omega) w hw
        intro v hv
        split at hv
        · rcases List.mem_cons.mp hv with rfl | hv
          · exact ⟨hlt, hb.1⟩
          · exact ha v hv
        · exact ha v hv
      · split at hw
        · rename_i hs hpk
          have hen : en ≠ st + 1 := fun h => hs (hp hpk h)
          refine ih _ _ _ _ ?_ (by omega) (by intro h; omega) w hw
          intro v hv
          rcases List.mem_cons.mp hv with rfl | hv
          · exact ⟨by simp only; omega, hb.1⟩
          · exact ha v hv
        · rename_i hs hpk
          apply ih _ _ _ _ ha (by omega) (by intro h; omega) w hw
    · simp at hw; exact ha w hw

theorem findSubseq_windows (p : Bool) (values : List Item) (k : Nat) (s e : Nat) (h : (s, e) ∈ findSubseq p values k) :
    s < e ∧ s < values.length := by
  unfold findSubseq at h
  simp only at h
  split at h
  · simp at h
  · rename_i st _
    exact subseqLoop_windows _ _ _ _ _ _ _ [] (by simp) (by omega) (by intro h1 _; exact h1) (s, e) h

theorem progress_sort_shuffle (cfg : BCfg) (st : BState) (hs : cfg.sort = true) (hsh : cfg.shuffle = true)
    (hne : st.buf ++ st.rest ≠ []) : ∃ b st', stepAllowed cfg st b = some st' := by
  have hfne := fillBuf_ne' cfg st hne
  cases hfb : fillBuf cfg.padded (min (cfg.lim * cfg.pf) usizeMax) st.rest st.buf st.buf.length (maxSize st.buf) with
  | mk buf rest' =>
  rw [hfb] at hfne
  simp only at hfne
  have hsne : sortBySize buf ≠ [] := sortBySize_ne hfne
  cases hsub : findSubseq cfg.padded (sortBySize buf) cfg.lim with
  | nil =>
    refine ⟨[(sortBySize buf).getLast hsne], { rest := rest', buf := (sortBySize buf).dropLast }, ?_⟩
    unfold stepAllowed
    simp [hs, hsh, hfb, hfne, hsub, List.getLast?_eq_some_getLast hsne]
  | cons w ws =>
    obtain ⟨s, e⟩ := w
    have hw := findSubseq_windows cfg.padded (sortBySize buf) cfg.lim s e (by rw [hsub]; exact List.mem_cons_self)
    have hbne : ((sortBySize buf).drop s).take (e - s) ≠ [] := by
      intro h0
      have := congrArg List.length h0
      simp only [List.length_take, List.length_drop, List.length_nil] at this
      omega
    refine ⟨((sortBySize buf).drop s).take (e - s), { rest := rest', buf := (sortBySize buf).take s ++ (sortBySize buf).drop e }, ?_⟩
    unfold stepAllowed
    simp [hs, hsh, hfb, hfne, hsub, hbne]

/-- the greedy prefix is a fixed point of `batch_from` -/
theorem batchFromAux_idem (p : Bool) (L : Nat) : ∀ (src items : List Item) (c m : Nat) got rem un,
    batchFromAux p L src items c m = (got, rem, un) →
    ∃ tk, got = items.reverse ++ tk ∧ batchFromAux p L tk items c m = (got, none, []) := by
  intro src
  induction src with
  | nil =>
    intro items c m got rem un h
    simp [batchFromAux] at h
    exact ⟨[], by simp [h.1], by simp [batchFromAux, h.1]⟩
  | cons x xs ih =>
    intro items c m got rem un h
    unfold batchFromAux at h
    split at h
    · simp at h
      exact ⟨[], by simp [h.1], by simp [batchFromAux, h.1]⟩
    · rename_i hov
      obtain ⟨tk, h1, h2⟩ := ih _ _ _ _ _ _ h
      refine ⟨x :: tk, by simpa using h1, ?_⟩
      unfold batchFromAux
      rw [if_neg hov]
      exact h2

theorem batchFrom_idem (p : Bool) (L : Nat) (src got : List Item) (rem : Option Item) (un : List Item)
    (h : batchFrom p L src = (got, rem, un)) : batchFrom p L got = (got, none, []) := by
  obtain ⟨tk, h1, h2⟩ := batchFromAux_idem p L src [] 0 0 got rem un h
  simp at h1; subst h1
  exact h2

theorem removeItems_self (l : List Item) : removeItems l l = [] := by
  unfold removeItems
  simp [List.filter_eq_nil_iff]

theorem progress_shuffle (cfg : BCfg) (st : BState) (hs : cfg.sort = false) (hsh : cfg.shuffle = true)
    (hnd : (st.buf ++ st.rest).Nodup) (hne : st.buf ++ st.rest ≠ []) : ∃ b st', stepAllowed cfg st b = some st' := by
  have hfne := fillBuf_ne' cfg st hne
  cases hfb : fillBuf cfg.padded (min (cfg.lim * cfg.pf) usizeMax) st.rest st.buf st.buf.length (maxSize st.buf) with
  | mk buf rest' =>
  rw [hfb] at hfne
  simp only at hfne
  have hfill := fillBuf_spec _ _ _ _ _ _ _ _ hfb
  have hbufnd : buf.Nodup := by
    have : (buf ++ rest').Nodup := by rw [hfill]; exact hnd
    exact (List.nodup_append.mp this).1
  cases hbf : batchFrom cfg.padded cfg.lim buf with
  | mk got r =>
  obtain ⟨rem, un⟩ := r
  obtain ⟨h1, _, h3, h4, h5⟩ := batchFrom_spec _ _ _ _ _ _ hbf
  have hgot := h5 hfne
  have hidem := batchFrom_idem _ _ _ _ _ _ hbf
  refine ⟨got, { rest := rest', buf := removeItems buf got }, ?_⟩
  have hsub : ∀ x ∈ got, x ∈ buf := by
    intro x hx; rw [← h1]; simp [hx]
  have hgnd : got.Nodup := by
    rw [← h1, List.append_assoc] at hbufnd
    exact (List.nodup_append.mp hbufnd).1
  have hleft : (removeItems buf got).isEmpty = true ∨
      (removeItems buf got).any (fun r => limOf cfg.padded (got.length + 1) (max (maxSize got) r.size) > cfg.lim) = true := by
    cases rem with
    | none =>
      left
      have := h4 rfl; subst this
      simp at h1; subst h1
      simp [removeItems_self]
    | some r =>
      right
      have hov := (h3 r rfl).2
      rw [List.any_eq_true]
      refine ⟨r, ?_, by simpa using hov⟩
      unfold removeItems
      simp only [List.mem_filter, List.contains_eq_mem, Bool.not_eq_true', decide_eq_false_iff_not]
      constructor
      · rw [← h1]; simp
      · intro hr
        rw [← h1, List.append_assoc] at hbufnd
        have := (List.nodup_append.mp hbufnd).2.2 r hr r (by simp)
        exact this rfl
  have hg : greedyOK cfg.padded cfg.lim buf got = true := by
    unfold greedyOK
    rw [hidem]
    simp only [Bool.and_eq_true, beq_iff_eq, List.isEmpty_iff, List.all_eq_true, List.contains_eq_mem,
      decide_eq_true_eq, Bool.or_eq_true]
    exact ⟨⟨⟨⟨trivial, trivial⟩, hsub⟩, hgnd⟩, by simpa using hleft⟩
  unfold stepAllowed
  simp [hs, hsh, hfb, hfne, hgot, hg]

/-- **progress**: as long as anything is buffered or left upstream, some batch is allowed — the iteration cannot get stuck
before everything has been delivered (with `step_decreases` this gives termination with a complete partition) -/
theorem step_progress (cfg : BCfg) (st : BState) (hnd : (st.buf ++ st.rest).Nodup) (hne : st.buf ++ st.rest ≠ [])
    (hplain : cfg.sort = false → cfg.shuffle = false → st.buf.length ≤ 1) :
    ∃ b st', stepAllowed cfg st b = some st' := by
  cases hs : cfg.sort <;> cases hsh : cfg.shuffle
  · exact progress_plain cfg st hs hsh hne (hplain hs hsh)
  · exact progress_shuffle cfg st hs hsh hnd hne
  · exact progress_sort cfg st hs hsh hne
  · exact progress_sort_shuffle cfg st hs hsh hne

end Tu.C06
