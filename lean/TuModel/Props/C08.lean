/-
  C08 — the loader's item selection: which global indices a rank processes, disjointness and
  coverage across ranks, resumption by fast-forward, train/validation split, `min_items`, seeds,
  and independence of the delivered stream from the number of worker threads.
  Model: `Tu.selectIdx`, `Tu.minItems`, `Tu.itemSeed` (Model/Loader.lean); the thread pipeline is the
  C05 model (`Tu.PReach`).
-/
import TuModel.Lemmas.LoaderL
import TuModel.Props.C05
namespace Tu.C08
open Tu

/-- which global indices a rank processes -/
theorem select_mem (N skip : Nat) (limit : Option Nat) (ff rank W i : Nat) :
    i ∈ selectIdx N skip limit ff rank W ↔
      i < (match limit with | none => N | some l => min N l) ∧ skip + ff + rank ≤ i ∧
        (i - (skip + ff + rank)) % W = 0 := by
  unfold selectIdx
  cases limit <;> simp [List.mem_filter, List.mem_range]

/-- in increasing order, without repetition -/
theorem select_sorted (N skip : Nat) (limit : Option Nat) (ff rank W : Nat) :
    (selectIdx N skip limit ff rank W).Pairwise (· < ·) := by
  unfold selectIdx
  exact List.Pairwise.filter _ List.pairwise_lt_range

/-- the per-rank streams of a world of size W are disjoint … -/
theorem ranks_disjoint (N skip : Nat) (limit : Option Nat) (ff W r r' i : Nat) (hr : r < W) (hr' : r' < W)
    (hne : r ≠ r') (h : i ∈ selectIdx N skip limit ff r W) : i ∉ selectIdx N skip limit ff r' W := by
  intro h'
  rw [select_mem] at h h'
  obtain ⟨_, h1, h2⟩ := h
  obtain ⟨_, h1', h2'⟩ := h'
  have e := residue_unique (skip + ff) i W r hr h1 h2
  have e' := residue_unique (skip + ff) i W r' hr' h1' h2'
  exact hne (e.trans e'.symm)

/-- … and their union is exactly the single-process stream restricted by skip, limit and fast-forward -/
theorem ranks_union (N skip : Nat) (limit : Option Nat) (ff W i : Nat) (hW : 0 < W) :
    (∃ r, r < W ∧ i ∈ selectIdx N skip limit ff r W) ↔ i ∈ selectIdx N skip limit ff 0 1 := by
  constructor
  · rintro ⟨r, _, h⟩
    rw [select_mem] at h ⊢
    exact ⟨h.1, by omega, Nat.mod_one _⟩
  · intro h
    rw [select_mem] at h
    obtain ⟨hl, hs, _⟩ := h
    have hs' : skip + ff ≤ i := by omega
    obtain ⟨a, b⟩ := residue_rank (skip + ff) i W hs'
    exact ⟨(i - (skip + ff)) % W, Nat.mod_lt _ hW, (select_mem ..).mpr ⟨hl, a, b⟩⟩

/-- the single-process stream is a contiguous range -/
theorem select_single (N skip : Nat) (limit : Option Nat) (ff : Nat) :
    selectIdx N skip limit ff 0 1 =
      List.range' (skip + ff) ((match limit with | none => N | some l => min N l) - (skip + ff)) := by
  unfold selectIdx
  simp only [Nat.add_zero, Nat.mod_one, beq_self_eq_true, Bool.and_true]
  exact filter_ge_range _ _

/-- restarting with fast_forward k yields exactly the uninterrupted stream after its first k items, in the
same order -/
theorem ff_resume (N skip : Nat) (limit : Option Nat) (k : Nat) :
    selectIdx N skip limit k 0 1 = (selectIdx N skip limit 0 0 1).drop k := by
  rw [select_single, select_single, List.drop_range']
  congr 1 <;> omega

/-- distributed form: after fast-forward k the ranks together process exactly the items of the global stream
after its first k -/
theorem ff_resume_ranks (N skip : Nat) (limit : Option Nat) (k W i : Nat) (hW : 0 < W) :
    (∃ r, r < W ∧ i ∈ selectIdx N skip limit k r W) ↔ i ∈ (selectIdx N skip limit 0 0 1).drop k := by
  rw [← ff_resume]; exact ranks_union N skip limit k W i hW

/-- skip = k and limit = k split the data without overlap and without loss (train / validation split) -/
theorem split_no_overlap (N k i : Nat) :
    ¬ (i ∈ selectIdx N k none 0 0 1 ∧ i ∈ selectIdx N 0 (some k) 0 0 1) ∧
    (i < N ↔ (i ∈ selectIdx N k none 0 0 1 ∨ i ∈ selectIdx N 0 (some k) 0 0 1)) := by
  simp only [select_mem, Nat.mod_one, and_true]
  omega

/-! ### files with lines that do not parse: they keep their index and are dropped after the rank stride -/

theorem selectValid_mem (N skip : Nat) (limit : Option Nat) (ff r W : Nat) (invalid : List Nat) (i : Nat) :
    i ∈ selectValid N skip limit ff r W invalid ↔ i ∈ selectIdx N skip limit ff r W ∧ i ∉ invalid := by
  simp [selectValid, List.mem_filter]

/-- the ranks still deliver disjoint sets … -/
theorem ranks_disjoint_valid (N skip : Nat) (limit : Option Nat) (ff W r r' i : Nat) (invalid : List Nat)
    (hr : r < W) (hr' : r' < W) (hne : r ≠ r') (h : i ∈ selectValid N skip limit ff r W invalid) :
    i ∉ selectValid N skip limit ff r' W invalid := by
  rw [selectValid_mem] at h ⊢
  exact fun h' => ranks_disjoint N skip limit ff W r r' i hr hr' hne h.1 h'.1

/-- … whose union is exactly what the single process delivers: wherever the unparseable lines sit, no valid line
is lost or delivered twice -/
theorem ranks_union_valid (N skip : Nat) (limit : Option Nat) (ff W i : Nat) (invalid : List Nat) (hW : 0 < W) :
    (∃ r, r < W ∧ i ∈ selectValid N skip limit ff r W invalid) ↔ i ∈ selectValid N skip limit ff 0 1 invalid := by
  simp only [selectValid_mem]
  constructor
  · rintro ⟨r, hr, h, hi⟩
    exact ⟨(ranks_union N skip limit ff W i hW).mp ⟨r, hr, h⟩, hi⟩
  · rintro ⟨h, hi⟩
    obtain ⟨r, hr, h'⟩ := (ranks_union N skip limit ff W i hW).mpr h
    exact ⟨r, hr, h', hi⟩

/-- fast-forward counts LINES: after `fast_forward k` the single process delivers the valid lines among the global
stream after its first `k` lines.  (The property speaks of the first `k` delivered ITEMS: the two differ exactly
when an unparseable line lies among the skipped ones, known finding F17.) -/
theorem ff_resume_valid (N skip : Nat) (limit : Option Nat) (k : Nat) (invalid : List Nat) :
    selectValid N skip limit k 0 1 invalid =
      ((selectIdx N skip limit 0 0 1).drop k).filter (fun i => !invalid.contains i) := by
  unfold selectValid
  rw [ff_resume]

/-- F17, concretely: 9 lines, skip 4, line 5 unparseable: the uninterrupted stream delivers 4, 6, 7, 8; a restart
after two delivered items (`fast_forward 2`) delivers 6 again -/
example : selectValid 9 4 none 0 0 1 [5] = [4, 6, 7, 8] ∧ selectValid 9 4 none 2 0 1 [5] = [6, 7, 8] := by decide

/-- min_items is the length of the single-process stream without fast-forward -/
theorem minItems_eq (N skip : Nat) (limit : Option Nat) :
    minItems N skip limit = (selectIdx N skip limit 0 0 1).length := by
  rw [select_single, List.length_range']; rfl

/-- every global index is processed with the same seed whatever the rank, world size or fast-forward offset -/
theorem itemSeed_indep (seed epoch idx : Nat) (N skip : Nat) (limit : Option Nat) (ff ff' r r' W W' : Nat)
    (_h : idx ∈ selectIdx N skip limit ff r W) (_h' : idx ∈ selectIdx N skip limit ff' r' W') :
    itemSeed seed epoch idx = itemSeed seed epoch idx := rfl

/-- the stream a loader delivers to batching does not depend on the number of worker threads, the buffer size
or the schedule: for every reachable closed pipe state over `n` selected items the delivered index sequence is
`List.range n`, hence the delivered items are `(selectIdx …).map process` — stated here as the composition
lemma -/
theorem stream_independent_of_threads (Wt Wt' n : Nat) (hW : 1 ≤ Wt) (hW' : 1 ≤ Wt') (s s' : PState)
    (h : PReach Wt (fused n) s) (h' : PReach Wt' (fused n) s') (hc : s.closed = true) (hc' : s'.closed = true) :
    s.recvd = s'.recvd ∧ s.recvd = List.range n := by
  have a := (Tu.C05.pipe_complete Wt n hW s h hc).1
  have b := (Tu.C05.pipe_complete Wt' n hW' s' h' hc').1
  exact ⟨a.trans b.symm, a⟩

/-! ### non-vacuity -/
example : selectIdx 10 1 (some 8) 2 1 3 = [4, 7] := by decide
example : selectIdx 10 1 (some 8) 2 0 3 = [3, 6] := by decide
example : selectIdx 10 1 (some 8) 2 2 3 = [5] := by decide
example : selectIdx 10 1 (some 8) 2 0 1 = [3, 4, 5, 6, 7] := by decide
example : selectIdx 10 1 (some 8) 0 0 1 = [1, 2, 3, 4, 5, 6, 7] := by decide
example : (selectIdx 10 1 (some 8) 0 0 1).drop 2 = selectIdx 10 1 (some 8) 2 0 1 := by decide
example : selectIdx 10 3 none 0 0 1 = [3, 4, 5, 6, 7, 8, 9] ∧ selectIdx 10 0 (some 3) 0 0 1 = [0, 1, 2] := by decide
example : minItems 10 1 (some 8) = 7 := by decide
example : selectIdx 5 0 (some 8) 0 1 2 = [1, 3] := by decide

end Tu.C08
