/-
  C10 — whitespace operations and repair are inverse; repair only touches whitespace.
  Model: `Tu.wsOps`, `Tu.repairCl` (Model/Whitespace.lean), cluster level.
-/
import TuModel.Lemmas.TextL
import TuModel.Model.Whitespace
namespace Tu.C10
open Tu

/-- exactly one operation per character of `from`, whenever `operations` succeeds -/
theorem wsOps_length (f t : List (List Nat)) (o : List WsOp) (h : wsOps f t = some o) : o.length = f.length := by
  induction f generalizing t o with
  | nil => simp [wsOps] at h; subst h; rfl
  | cons c cs ih =>
    unfold wsOps at h
    split at h
    · split at h
      · simp only [Option.map_eq_some_iff] at h; obtain ⟨o', h1, rfl⟩ := h; simp [ih _ _ h1]
      · split at h
        · simp only [Option.map_eq_some_iff] at h; obtain ⟨o', h1, rfl⟩ := h; simp [ih _ _ h1]
        · split at h
          · simp only [Option.map_eq_some_iff] at h; obtain ⟨o', h1, rfl⟩ := h; simp [ih _ _ h1]
          · simp at h
    · split at h
      · simp only [Option.map_eq_some_iff] at h; obtain ⟨o', h1, rfl⟩ := h; simp [ih _ _ h1]
      · simp at h

theorem cleanSt_sep_cons {t : List (List Nat)} (h : cleanSt .sep t = true) :
    ∃ c r, t = c :: r ∧ isWsCl c = false ∧ cleanSt .ch r = true := by
  cases t with
  | nil => simp [cleanSt] at h
  | cons c r =>
    by_cases hw : isWsCl c = true
    · simp [cleanSt, hw] at h
    · have hw' : isWsCl c = false := by simpa using hw
      simp [cleanSt, hw'] at h
      exact ⟨c, r, rfl, hw', h⟩

theorem clean_ws_head {st : CSt} {c : List Nat} {r : List (List Nat)} (h : cleanSt st (c :: r) = true)
    (hw : isWsCl c = true) : c = sp ∧ st = .ch ∧ cleanSt .sep r = true := by
  simp [cleanSt, hw] at h; exact ⟨h.1.1, h.1.2, h.2⟩

theorem clean_nonws_head {st : CSt} {c : List Nat} {r : List (List Nat)} (h : cleanSt st (c :: r) = true)
    (hw : isWsCl c = false) : cleanSt .ch r = true := by
  simp [cleanSt, hw] at h; exact h

theorem removeWsCl_cons_ws {c : List Nat} {r : List (List Nat)} (hw : isWsCl c = true) :
    removeWsCl (c :: r) = removeWsCl r := by simp [removeWsCl, hw]
theorem removeWsCl_cons_nonws {c : List Nat} {r : List (List Nat)} (hw : isWsCl c = false) :
    removeWsCl (c :: r) = c :: removeWsCl r := by simp [removeWsCl, hw]

theorem wsOps_keep (c : List Nat) (f' t' : List (List Nat)) :
    wsOps (c :: f') (c :: t') = (wsOps f' t').map (WsOp.keep :: ·) := by
  rw [wsOps]; simp

theorem wsOps_insert {c e : List Nat} (f' t' : List (List Nat)) (hne : c ≠ e) (hw : isWsCl e = true) :
    wsOps (c :: f') (e :: t') = (wsOps f' (t'.drop 1)).map (WsOp.insert :: ·) := by
  rw [wsOps]; simp [hne, hw]

theorem wsOps_delete {c e : List Nat} (f' t' : List (List Nat)) (hne : c ≠ e) (hew : isWsCl e = false)
    (hcw : isWsCl c = true) :
    wsOps (c :: f') (e :: t') = (wsOps f' (e :: t')).map (WsOp.delete :: ·) := by
  rw [wsOps]; simp [hne, hew, hcw]

/-- joint statement: on clean texts with equal non-whitespace content the two-pointer loop never
reaches its error branch, and `repair` replays its output to exactly `to`.  `sf`, `st` are the
normal-form scanner states reached in `from` and `to`. -/
theorem ops_repair_aux (f : List (List Nat)) : ∀ (t : List (List Nat)) (sf st : CSt),
    cleanSt sf f = true → cleanSt st t = true → removeWsCl f = removeWsCl t →
    (sf = .sep → startsWs t = false) →
    ∃ o, wsOps f t = some o ∧ repairAux f o (decide (sf = .sep)) = t := by
  induction f with
  | nil =>
    intro t sf st _ ht hr _
    refine ⟨[], by simp [wsOps], ?_⟩
    simp only [repairAux]
    cases t with
    | nil => rfl
    | cons c r =>
      by_cases hw : isWsCl c = true
      · obtain ⟨_, _, h3⟩ := clean_ws_head ht hw
        obtain ⟨d, r', rfl, hd, _⟩ := cleanSt_sep_cons h3
        simp [removeWsCl, hw, hd] at hr
      · have hw' : isWsCl c = false := by simpa using hw
        simp [removeWsCl, hw'] at hr
  | cons c f' ih =>
    intro t sf st hf ht hr hinv
    by_cases hcw : isWsCl c = true
    · -- head of `from` is the separator
      obtain ⟨rfl, rfl, hf'⟩ := clean_ws_head hf hcw
      rw [removeWsCl_cons_ws hcw] at hr
      obtain ⟨d, f'', rfl, hd, hf''⟩ := cleanSt_sep_cons hf'
      cases t with
      | nil => simp [removeWsCl, hd] at hr
      | cons e t' =>
        by_cases hew : isWsCl e = true
        · -- keep the separator
          obtain ⟨rfl, rfl, ht'⟩ := clean_ws_head ht hew
          rw [removeWsCl_cons_ws hew] at hr
          obtain ⟨e', t'', rfl, he', _⟩ := cleanSt_sep_cons ht'
          obtain ⟨o, ho, hrep⟩ := ih (e' :: t'') .sep .sep hf' ht' hr (by intro _; simp [startsWs, he'])
          refine ⟨.keep :: o, by rw [wsOps_keep, ho]; rfl, ?_⟩
          simp only [repairAux, isWsCl_sp]
          simp at hrep ⊢
          exact hrep
        · -- delete it
          have hew' : isWsCl e = false := by simpa using hew
          have hne : sp ≠ e := by intro h; rw [← h, isWsCl_sp] at hew'; simp at hew'
          obtain ⟨o, ho, hrep⟩ := ih (e :: t') .sep st hf' ht hr (by intro _; simp [startsWs, hew'])
          refine ⟨.delete :: o, ?_, ?_⟩
          · rw [wsOps_delete _ _ hne hew' isWsCl_sp, ho]; rfl
          · simp only [repairAux, isWsCl_sp]
            simp at hrep ⊢
            exact hrep
    · -- head of `from` is a non-whitespace character
      have hcw' : isWsCl c = false := by simpa using hcw
      have hf' := clean_nonws_head hf hcw'
      rw [removeWsCl_cons_nonws hcw'] at hr
      cases t with
      | nil => simp [removeWsCl] at hr
      | cons e t' =>
        by_cases hew : isWsCl e = true
        · -- insert a separator: `to` continues with `sp, c`
          obtain ⟨rfl, rfl, ht'⟩ := clean_ws_head ht hew
          rw [removeWsCl_cons_ws hew] at hr
          obtain ⟨e', t'', rfl, he', ht''⟩ := cleanSt_sep_cons ht'
          rw [removeWsCl_cons_nonws he'] at hr
          injection hr with hce hr
          subst hce
          have hsf : sf ≠ .sep := by
            intro h; have := hinv h; simp [startsWs, isWsCl_sp] at this
          have hne : c ≠ sp := by intro h; rw [h, isWsCl_sp] at hcw'; simp at hcw'
          obtain ⟨o, ho, hrep⟩ := ih t'' .ch .ch hf' ht'' hr (by intro h; cases h)
          refine ⟨.insert :: o, ?_, ?_⟩
          · rw [wsOps_insert _ _ hne isWsCl_sp]; simp only [List.drop_one, List.tail_cons]; rw [ho]; rfl
          · simp only [repairAux, hcw']
            simp [hsf] at hrep ⊢
            exact hrep
        · -- keep the character
          have hew' : isWsCl e = false := by simpa using hew
          have ht' := clean_nonws_head ht hew'
          rw [removeWsCl_cons_nonws hew'] at hr
          injection hr with hce hr
          subst hce
          obtain ⟨o, ho, hrep⟩ := ih t' .ch .ch hf' ht' hr (by intro h; cases h)
          refine ⟨.keep :: o, by rw [wsOps_keep, ho]; rfl, ?_⟩
          simp only [repairAux, hcw']
          simp at hrep ⊢
          exact hrep

/-- **operations is total on the property's domain and repair inverts it.** -/
theorem ops_total_and_repair {f t : List (List Nat)} (hf : CleanB f = true) (ht : CleanB t = true)
    (hr : removeWsCl f = removeWsCl t) :
    ∃ o, wsOps f t = some o ∧ o.length = f.length ∧ repairCl f o = some t := by
  obtain ⟨o, ho, hrep⟩ := ops_repair_aux f t .start .start hf ht hr (by intro h; cases h)
  have hl := wsOps_length f t o ho
  refine ⟨o, ho, hl, ?_⟩
  simp [repairCl, hl] at hrep ⊢
  exact hrep

/-- repair changes nothing but whitespace, for every text and every operation sequence -/
theorem repairAux_nonws (s : List (List Nat)) (ops : List WsOp) (b : Bool) (h : s.length = ops.length) :
    removeWsCl (repairAux s ops b) = removeWsCl s := by
  induction s generalizing ops b with
  | nil => cases ops <;> simp [repairAux]
  | cons c cs ih =>
    cases ops with
    | nil => simp at h
    | cons op ops =>
      have hl : cs.length = ops.length := by simpa using h
      have := ih ops (isWsCl c) hl
      simp only [repairAux]
      by_cases hw : isWsCl c = true
      · split
        · simp [hw] at *
        · split
          · simp [removeWsCl, hw] at this ⊢; exact this
          · simp [removeWsCl, hw] at this ⊢; exact this
      · have hw' : isWsCl c = false := by simpa using hw
        split
        · simp [removeWsCl, hw', isWsCl_sp] at this ⊢; exact this
        · split
          · simp [hw'] at *
          · simp [removeWsCl, hw'] at this ⊢; exact this

theorem repair_nonws {s : List (List Nat)} {ops : List WsOp} {r : List (List Nat)}
    (h : repairCl s ops = some r) : removeWsCl r = removeWsCl s := by
  unfold repairCl at h
  split at h
  · simp at h
  · rename_i hl
    simp at hl h
    subst h
    exact repairAux_nonws s ops false hl

/-- an all-Keep sequence is the identity -/
theorem repairAux_keep (s : List (List Nat)) (b : Bool) : repairAux s (List.replicate s.length .keep) b = s := by
  induction s generalizing b with
  | nil => simp [repairAux]
  | cons c cs ih => simp [List.replicate_succ, repairAux, ih]

theorem repair_keep (s : List (List Nat)) : repairCl s (List.replicate s.length .keep) = some s := by
  simp [repairCl, repairAux_keep]

/-- a length mismatch is the error value (never a fault) and matching lengths never fail -/
theorem repair_err_iff (s : List (List Nat)) (ops : List WsOp) : repairCl s ops = none ↔ s.length ≠ ops.length := by
  unfold repairCl; split <;> simp_all

/-! non-vacuity -/
example : CleanB [[97], sp, [98], [99]] = true ∧ CleanB [[97], [98], sp, [99]] = true ∧
    removeWsCl [[97], sp, [98], [99]] = removeWsCl [[97], [98], sp, [99]] := by decide
example : wsOps [[97], sp, [98], [99]] [[97], [98], sp, [99]] = some [.keep, .delete, .keep, .insert] := by decide

end Tu.C10
