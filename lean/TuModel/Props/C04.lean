/-
  C04 — tokenizer vocabulary maps are mutually consistent bijections.
  Models: the vocabulary functions of Model/ByteTok.lean, Model/CharTok.lean, Model/Bpe.lean.
-/
import TuModel.Lemmas.SpecialL
import TuModel.Model.Bpe
namespace Tu.C04
open Tu

/-! ### special tokens: `unique` and the id range -/

theorem uniq_nodup (l : List (List Nat)) : (uniq l).Nodup := by
  induction l with
  | nil => simp [uniq]
  | cons x xs ih =>
    simp only [uniq, List.nodup_cons]
    exact ⟨by simp, ih.filter _⟩

theorem uniq_mem (l : List (List Nat)) (x : List Nat) : x ∈ uniq l ↔ x ∈ l := by
  induction l with
  | nil => simp [uniq]
  | cons y ys ih =>
    simp only [uniq, List.mem_cons, List.mem_filter, ih]
    constructor
    · rintro (h | ⟨h, _⟩); exact Or.inl h; exact Or.inr h
    · rintro (h | h)
      · exact Or.inl h
      · by_cases hxy : x = y
        · exact Or.inl hxy
        · exact Or.inr ⟨h, by simpa using hxy⟩

/-- distinct special tokens get distinct ids, and `token_to_id` inverts `id_to_token` on them -/
theorem special_tokenToId_idToToken (sp : Special) (hn : sp.tokens.Nodup) (id : Nat) (t : List Nat)
    (h : sp.idToToken id = some t) : sp.tokenToId t = some id := by
  unfold Special.idToToken at h
  split at h
  · simp at h
  · rename_i hlt
    have hi : id - sp.offset < sp.tokens.length := by
      rcases Nat.lt_or_ge (id - sp.offset) sp.tokens.length with h' | h'
      · exact h'
      · rw [List.getElem?_eq_none h'] at h; simp at h
    rw [List.getElem?_eq_getElem hi] at h
    injection h with h
    unfold Special.tokenToId idxOf
    have := hn.idxOf_getElem (id - sp.offset) hi
    rw [h] at this
    simp [this, hi]
    omega

/-- pad, prefix and suffix ids (and every special id) lie in `[offset, offset + |tokens|)` -/
theorem special_id_range (sp : Special) (id : Nat) (h : (sp.idToToken id).isSome = true) :
    sp.offset ≤ id ∧ id < sp.offset + sp.tokens.length := by
  unfold Special.idToToken at h
  split at h
  · simp at h
  · rename_i hlt
    refine ⟨by omega, ?_⟩
    rcases Nat.lt_or_ge (id - sp.offset) sp.tokens.length with h' | h'
    · omega
    · rw [List.getElem?_eq_none h'] at h; simp at h

theorem mkSpecial_range {offset : Nat} {tokens : List (List Nat)} {pad : List Nat} {pre suf : List (List Nat)}
    {sp : Special} (h : mkSpecial offset tokens pad pre suf = some sp) :
    sp.tokens.Nodup ∧
    (∀ id ∈ sp.padId :: (sp.prefixIds ++ sp.suffixIds), offset ≤ id ∧ id < offset + sp.tokens.length) := by
  obtain ⟨ho, ht, hp, hs, hpad⟩ := mkSpecial_ids h
  refine ⟨by rw [ht]; exact uniq_nodup _, ?_⟩
  intro id hid
  rw [← ho]
  simp only [List.mem_cons, List.mem_append] at hid
  rcases hid with rfl | hid | hid
  · exact special_id_range sp _ hpad.2
  · exact special_id_range sp _ (hp id hid).2
  · exact special_id_range sp _ (hs id hid).2

/-! ### byte tokenizer -/

theorem byte_getVocab_length (cfg : ByteCfg) : (byteGetVocab cfg).length = byteVocabSize cfg := by
  simp [byteGetVocab, byteVocabSize]

/-- `id_to_token(id) = get_vocab()[id]`, and `None` from `vocab_size` on -/
theorem byte_idToToken_eq (cfg : ByteCfg) (ho : cfg.sp.offset = 256) (id : Nat) :
    byteIdToToken cfg id = (byteGetVocab cfg)[id]? := by
  unfold byteIdToToken byteGetVocab
  by_cases h : id < 256
  · simp [h, List.getElem?_append_left, List.getElem?_map, List.getElem?_range h]
  · have hge : 256 ≤ id := by omega
    simp only [h, if_false]
    rw [List.getElem?_append_right (by simpa using hge)]
    simp [Special.idToToken, ho, h]

theorem byte_idToToken_none (cfg : ByteCfg) (ho : cfg.sp.offset = 256) (id : Nat) (h : byteVocabSize cfg ≤ id) :
    byteIdToToken cfg id = none := by
  rw [byte_idToToken_eq cfg ho, List.getElem?_eq_none]; rw [byte_getVocab_length]; exact h

/-- `token_to_id` inverts `id_to_token` (no special token is a single byte) -/
theorem byte_tokenToId_idToToken (cfg : ByteCfg) (ho : cfg.sp.offset = 256) (hn : cfg.sp.tokens.Nodup)
    (hd : ∀ t ∈ cfg.sp.tokens, t.length ≠ 1) (id : Nat) (t : List Nat) (h : byteIdToToken cfg id = some t) :
    byteTokenToId cfg t = some id := by
  unfold byteIdToToken at h
  split at h
  · injection h with h; subst h; rfl
  · have hmem : t ∈ cfg.sp.tokens := by
      unfold Special.idToToken at h
      split at h
      · simp at h
      · exact List.mem_of_getElem? h
    have hl := hd t hmem
    unfold byteTokenToId
    match t, hl with
    | [], _ => exact special_tokenToId_idToToken cfg.sp hn id [] h
    | [b], hl => simp at hl
    | a :: b :: r, _ => exact special_tokenToId_idToToken cfg.sp hn id _ h

/-- decoding a single regular id yields exactly that token's bytes -/
theorem byte_detok_single (cfg : ByteCfg) (ign : Bool) (id : Nat) (h : id < 256) :
    byteDetokBytes cfg.sp ign [id] = byteIdToToken cfg id := by
  simp [byteDetokBytes, byteIdToToken, h]

/-! ### character tokenizer -/

theorem char_getVocab_length (cfg : CharCfg) : (charGetVocab cfg).length = charVocabSize cfg := by
  simp [charGetVocab, charVocabSize]

theorem char_idToToken_eq (cfg : CharCfg) (ho : cfg.sp.offset = cfg.alphabet.length) (id : Nat) :
    charIdToToken cfg id = (charGetVocab cfg)[id]? := by
  unfold charIdToToken charGetVocab Special.idToToken
  by_cases h : id < cfg.alphabet.length
  · simp [ho, h, List.getElem?_append_left]
  · have hge : cfg.alphabet.length ≤ id := by omega
    rw [List.getElem?_append_right (by simpa using hge)]
    simp only [ho, h, if_false, List.length_map]
    have : cfg.alphabet[id]? = none := List.getElem?_eq_none hge
    cases hx : cfg.sp.tokens[id - cfg.alphabet.length]? <;> simp [this]

theorem char_idToToken_none (cfg : CharCfg) (ho : cfg.sp.offset = cfg.alphabet.length) (id : Nat)
    (h : charVocabSize cfg ≤ id) : charIdToToken cfg id = none := by
  rw [char_idToToken_eq cfg ho, List.getElem?_eq_none]; rw [char_getVocab_length]; exact h

/-- the unknown id is a special id: it lies at or above the alphabet -/
theorem char_unk_range (alphabet : List Nat) (tokens : List (List Nat)) (unk pad : List Nat) (pre suf : List (List Nat))
    (cfg : CharCfg) (h : mkCharCfg alphabet tokens unk pad pre suf = some cfg) :
    cfg.alphabet.length ≤ cfg.unkId ∧ cfg.unkId < charVocabSize cfg ∧ cfg.sp.offset = cfg.alphabet.length := by
  unfold mkCharCfg at h
  cases hm : mkSpecial alphabet.length (tokens ++ [unk]) pad pre suf with
  | none => simp [hm] at h
  | some sp =>
    simp only [hm] at h
    cases hu : sp.tokenToId unk with
    | none => simp [hu] at h
    | some u =>
      simp [hu] at h; subst h
      obtain ⟨ho, _, _⟩ := mkSpecial_ids hm
      unfold Special.tokenToId idxOf at hu
      simp only at hu
      split at hu
      · rename_i hlt
        simp at hu; subst hu
        simp [charVocabSize, ho]; omega
      · simp at hu

/-! ### BPE tokenizer -/

theorem bpe_getVocab_length (cfg : BpeCfg) : (bpeGetVocab cfg).length = bpeVocabSize cfg := by
  simp [bpeGetVocab, bpeVocabSize]; omega

/-- every merge id below the table size has an entry (part of `wfTable`) -/
def idsComplete (t : MTable) : Prop := ∀ k, k < t.length → (tbytes t k).isSome = true

theorem idsComplete_of_wf (t : MTable) (h : wfTable t = true) : idsComplete t := by
  intro k hk
  unfold wfTable at h
  simp only [Bool.and_eq_true, List.all_eq_true, List.mem_range, beq_iff_eq] at h
  have h1 := h.1.1 k hk
  unfold tbytes
  cases hf : t.find? (fun e => e.2 == k) with
  | some e => simp
  | none =>
    rw [List.find?_eq_none] at hf
    have : t.filter (fun e => e.2 == k) = [] := by
      rw [List.filter_eq_nil_iff]; exact hf
    rw [this] at h1; simp at h1

theorem bpe_idToToken_eq (cfg : BpeCfg) (ho : cfg.sp.offset = 256 + cfg.table.length) (hc : idsComplete cfg.table)
    (id : Nat) : bpeIdToToken cfg id = (bpeGetVocab cfg)[id]? := by
  unfold bpeIdToToken bpeGetVocab bpeIdBytes
  by_cases h : id < 256
  · have h2 : id < 256 + cfg.table.length := by omega
    simp [h, h2, List.getElem?_append_left]
  · by_cases h2 : id < 256 + cfg.table.length
    · have hk : id - 256 < cfg.table.length := by omega
      simp only [h, h2, if_true, if_false]
      rw [List.getElem?_append_left (by simp; omega), List.getElem?_append_right (by simp; omega)]
      have := hc (id - 256) hk
      cases hb : tbytes cfg.table (id - 256) with
      | none => simp [hb] at this
      | some b => simp [List.getElem?_range hk, hb]
    · simp only [h2, if_false]
      rw [List.getElem?_append_right (by simp; omega)]
      simp [Special.idToToken, ho, h2]

theorem bpe_idToToken_none (cfg : BpeCfg) (ho : cfg.sp.offset = 256 + cfg.table.length) (hc : idsComplete cfg.table)
    (id : Nat) (h : bpeVocabSize cfg ≤ id) : bpeIdToToken cfg id = none := by
  rw [bpe_idToToken_eq cfg ho hc, List.getElem?_eq_none]; rw [bpe_getVocab_length]; exact h

/-- decoding a single regular id yields exactly that token's bytes -/
theorem bpe_detok_single (cfg : BpeCfg) (ign : Bool) (id : Nat) (h : id < 256 + cfg.table.length) :
    bpeDetokBytes cfg ign [id] = bpeIdToToken cfg id := by
  simp only [bpeDetokBytes, bpeIdToToken, h, if_true]
  cases bpeIdBytes cfg id <;> simp

/-! non-vacuity -/
example : wfTable [([97, 98], 0), ([99, 100], 1), ([97, 98, 99], 2), ([97, 98, 99, 100], 3)] = true := by decide
example : (mkBpeCfg [([97, 98], 0)] none [[60, 112, 62]] [60, 112, 62] [] []).isSome = true := by decide

end Tu.C04
