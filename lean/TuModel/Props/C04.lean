/-
  C04 — tokenizer vocabulary maps are mutually consistent bijections.
  Models: the vocabulary functions of Model/ByteTok.lean, Model/CharTok.lean, Model/Bpe.lean.
-/
import TuModel.Lemmas.SpecialL
import TuModel.Lemmas.VocabL
import TuModel.Model.Bpe
namespace Tu.C04
open Tu

/-! ### special tokens: `unique` and the id range -/

theorem uniq_nodup (l : List (List Nat)) : (uniq l).Nodup := by
  induction l with
  | nil => simp [uniq]
  | cons x xs ih =>
    simp only [uniq, List.nodup_cons]
    exact ⟨by simp, ih.filter _⟩

theorem uniq_mem (l : List (List Nat)) (x : List Nat) : x ∈ uniq l ↔ x ∈ l := by
  induction l with
  | nil => simp [uniq]
  | cons y ys ih =>
    simp only [uniq, List.mem_cons, List.mem_filter, ih]
    constructor
    · rintro (h | ⟨h, _⟩); exact Or.inl h; exact Or.inr h
    · rintro (h | h)
      · exact Or.inl h
      · by_cases hxy : x = y
        · exact Or.inl hxy
        · exact Or.inr ⟨h, by simpa using hxy⟩

/-- distinct special tokens get distinct ids, and `token_to_id` inverts `id_to_token` on them -/
theorem special_tokenToId_idToToken (sp : Special) (hn : sp.tokens.Nodup) (id : Nat) (t : List Nat)
    (h : sp.idToToken id = some t) : sp.tokenToId t = some id := by
  unfold Special.idToToken at h
  split at h
  · simp at h
  · rename_i hlt
    have hi : id - sp.offset < sp.tokens.length := by
      rcases Nat.lt_or_ge (id - sp.offset) sp.tokens.length with h' | h'
      · exact h'
      · rw [List.getElem?_eq_none h'] at h; simp at h
    rw [List.getElem?_eq_getElem hi] at h
    injection h with h
    unfold Special.tokenToId idxOf
    have := hn.idxOf_getElem (id - sp.offset) hi
    rw [h] at this
    simp [this, hi]
    omega

/-- pad, prefix and suffix ids (and every special id) lie in `[offset, offset + |tokens|)` -/
theorem special_id_range (sp : Special) (id : Nat) (h : (sp.idToToken id).isSome = true) :
    sp.offset ≤ id ∧ id < sp.offset + sp.tokens.length := by
  unfold Special.idToToken at h
  split at h
  · simp at h
  · rename_i hlt
    refine ⟨by omega, ?_⟩
    rcases Nat.lt_or_ge (id - sp.offset) sp.tokens.length with h' | h'
    · omega
    · rw [List.getElem?_eq_none h'] at h; simp at h

theorem mkSpecial_range {offset : Nat} {tokens : List (List Nat)} {pad : List Nat} {pre suf : List (List Nat)}
    {sp : Special} (h : mkSpecial offset tokens pad pre suf = some sp) :
    sp.tokens.Nodup ∧
    (∀ id ∈ sp.padId :: (sp.prefixIds ++ sp.suffixIds), offset ≤ id ∧ id < offset + sp.tokens.length) := by
  obtain ⟨ho, ht, hp, hs, hpad⟩ := mkSpecial_ids h
  refine ⟨by rw [ht]; exact uniq_nodup _, ?_⟩
  intro id hid
  rw [← ho]
  simp only [List.mem_cons, List.mem_append] at hid
  rcases hid with rfl | hid | hid
  · exact special_id_range sp _ hpad.2
  · exact special_id_range sp _ (hp id hid).2
  · exact special_id_range sp _ (hs id hid).2

/-! ### byte tokenizer -/

theorem byte_getVocab_length (cfg : ByteCfg) : (byteGetVocab cfg).length = byteVocabSize cfg := by
  simp [byteGetVocab, byteVocabSize]

/-- `id_to_token(id) = get_vocab()[id]`, and `None` from `vocab_size` on -/
theorem byte_idToToken_eq (cfg : ByteCfg) (ho : cfg.sp.offset = 256) (id : Nat) :
    byteIdToToken cfg id = (byteGetVocab cfg)[id]? := by
  unfold byteIdToToken byteGetVocab
  by_cases h : id < 256
  · simp [h, List.getElem?_append_left, List.getElem?_map, List.getElem?_range h]
  · have hge : 256 ≤ id := by omega
    simp only [h, if_false]
    rw [List.getElem?_append_right (by simpa using hge)]
    simp [Special.idToToken, ho, h]

theorem byte_idToToken_none (cfg : ByteCfg) (ho : cfg.sp.offset = 256) (id : Nat) (h : byteVocabSize cfg ≤ id) :
    byteIdToToken cfg id = none := by
  rw [byte_idToToken_eq cfg ho, List.getElem?_eq_none]; rw [byte_getVocab_length]; exact h

/-- `token_to_id` inverts `id_to_token` (no special token is a single byte) -/
theorem byte_tokenToId_idToToken (cfg : ByteCfg) (ho : cfg.sp.offset = 256) (hn : cfg.sp.tokens.Nodup)
    (hd : ∀ t ∈ cfg.sp.tokens, t.length ≠ 1) (id : Nat) (t : List Nat) (h : byteIdToToken cfg id = some t) :
    byteTokenToId cfg t = some id := by
  unfold byteIdToToken at h
  split at h
  · injection h with h; subst h; rfl
  · have hmem : t ∈ cfg.sp.tokens := by
      unfold Special.idToToken at h
      split at h
      · simp at h
      · exact List.mem_of_getElem? h
    have hl := hd t hmem
    unfold byteTokenToId
    match t, hl with
    | [], _ => exact special_tokenToId_idToToken cfg.sp hn id [] h
    | [b], hl => simp at hl
    | a :: b :: r, _ => exact special_tokenToId_idToToken cfg.sp hn id _ h

/-- decoding a single regular id yields exactly that token's bytes -/
theorem byte_detok_single (cfg : ByteCfg) (ign : Bool) (id : Nat) (h : id < 256) :
    byteDetokBytes cfg.sp ign [id] = byteIdToToken cfg id := by
  simp [byteDetokBytes, byteIdToToken, h]

/-! ### character tokenizer -/

theorem char_getVocab_length (cfg : CharCfg) : (charGetVocab cfg).length = charVocabSize cfg := by
  simp [charGetVocab, charVocabSize]

theorem char_idToToken_eq (cfg : CharCfg) (ho : cfg.sp.offset = cfg.alphabet.length) (id : Nat) :
    charIdToToken cfg id = (charGetVocab cfg)[id]? := by
  unfold charIdToToken charGetVocab Special.idToToken
  by_cases h : id < cfg.alphabet.length
  · simp [ho, h, List.getElem?_append_left]
  · have hge : cfg.alphabet.length ≤ id := by omega
    rw [List.getElem?_append_right (by simpa using hge)]
    simp only [ho, h, if_false, List.length_map]
    have : cfg.alphabet[id]? = none := List.getElem?_eq_none hge
    cases hx : cfg.sp.tokens[id - cfg.alphabet.length]? <;> simp [this]

theorem char_idToToken_none (cfg : CharCfg) (ho : cfg.sp.offset = cfg.alphabet.length) (id : Nat)
    (h : charVocabSize cfg ≤ id) : charIdToToken cfg id = none := by
  rw [char_idToToken_eq cfg ho, List.getElem?_eq_none]; rw [char_getVocab_length]; exact h

/-- the unknown id is a special id: it lies at or above the alphabet -/
theorem char_unk_range (alphabet : List Nat) (tokens : List (List Nat)) (unk pad : List Nat) (pre suf : List (List Nat))
    (cfg : CharCfg) (h : mkCharCfg alphabet tokens unk pad pre suf = some cfg) :
    cfg.alphabet.length ≤ cfg.unkId ∧ cfg.unkId < charVocabSize cfg ∧ cfg.sp.offset = cfg.alphabet.length := by
  unfold mkCharCfg at h
  cases hm : mkSpecial alphabet.length (tokens ++ [unk]) pad pre suf with
  | none => simp [hm] at h
  | some sp =>
    simp only [hm] at h
    cases hu : sp.tokenToId unk with
    | none => simp [hu] at h
    | some u =>
      simp [hu] at h; subst h
      obtain ⟨ho, _, _⟩ := mkSpecial_ids hm
      unfold Special.tokenToId idxOf at hu
      simp only at hu
      split at hu
      · rename_i hlt
        simp at hu; subst hu
        simp [charVocabSize, ho]; omega
      · simp at hu

/-! ### BPE tokenizer -/

theorem bpe_getVocab_length (cfg : BpeCfg) : (bpeGetVocab cfg).length = bpeVocabSize cfg := by
  simp [bpeGetVocab, bpeVocabSize]; omega

/-- every merge id below the table size has an entry (part of `wfTable`) -/
def idsComplete (t : MTable) : Prop := ∀ k, k < t.length → (tbytes t k).isSome = true

theorem idsComplete_of_wf (t : MTable) (h : wfTable t = true) : idsComplete t := by
  intro k hk
  unfold wfTable at h
  simp only [Bool.and_eq_true, List.all_eq_true, List.mem_range, beq_iff_eq] at h
  have h1 := h.1.1 k hk
  unfold tbytes
  cases hf : t.find? (fun e => e.2 == k) with
  | some e => simp
  | none =>
    rw [List.find?_eq_none] at hf
    have : t.filter (fun e => e.2 == k) = [] := by
      rw [List.filter_eq_nil_iff]; exact hf
    rw [this] at h1; simp at h1

theorem bpe_idToToken_eq (cfg : BpeCfg) (ho : cfg.sp.offset = 256 + cfg.table.length) (hc : idsComplete cfg.table)
    (id : Nat) : bpeIdToToken cfg id = (bpeGetVocab cfg)[id]? := by
  unfold bpeIdToToken bpeGetVocab bpeIdBytes
  by_cases h : id < 256
  · have h2 : id < 256 + cfg.table.length := by omega
    simp [h, h2, List.getElem?_append_left]
  · by_cases h2 : id < 256 + cfg.table.length
    · have hk : id - 256 < cfg.table.length := by omega
      simp only [h, h2, if_true, if_false]
      rw [List.getElem?_append_left (by simp; omega), List.getElem?_append_right (by simp; omega)]
      have := hc (id - 256) hk
      cases hb : tbytes cfg.table (id - 256) with
      | none => simp [hb] at this
      | some b => simp [List.getElem?_range hk, hb]
    · simp only [h2, if_false]
      rw [List.getElem?_append_right (by simp; omega)]
      simp [Special.idToToken, ho, h2]

theorem bpe_idToToken_none (cfg : BpeCfg) (ho : cfg.sp.offset = 256 + cfg.table.length) (hc : idsComplete cfg.table)
    (id : Nat) (h : bpeVocabSize cfg ≤ id) : bpeIdToToken cfg id = none := by
  rw [bpe_idToToken_eq cfg ho hc, List.getElem?_eq_none]; rw [bpe_getVocab_length]; exact h

/-- decoding a single regular id yields exactly that token's bytes -/
theorem bpe_detok_single (cfg : BpeCfg) (ign : Bool) (id : Nat) (h : id < 256 + cfg.table.length) :
    bpeDetokBytes cfg ign [id] = bpeIdToToken cfg id := by
  simp only [bpeDetokBytes, bpeIdToToken, h, if_true]
  cases bpeIdBytes cfg id <;> simp

/-! non-vacuity -/
example : wfTable [([97, 98], 0), ([99, 100], 1), ([97, 98, 99], 2), ([97, 98, 99, 100], 3)] = true := by decide
example : (mkBpeCfg [([97, 98], 0)] none [[60, 112, 62]] [60, 112, 62] [] []).isSome = true := by decide

/-! ### `token_to_id` inverts `id_to_token` (character and BPE tokenizers); id ranges are disjoint -/

/-- decoding the UTF-8 encoding of a scalar value gives the value back -/
theorem singleCp_utf8 (c : Nat) (hc : isScalar c = true) : singleCp (utf8 c) = some c := by
  have hc0 := hc
  unfold isScalar at hc
  simp only [Bool.or_eq_true, Bool.and_eq_true, decide_eq_true_eq] at hc
  by_cases h1 : c < 0x80
  · have hu : utf8 c = [c] := by unfold utf8; rw [if_pos h1]
    rw [hu]
    show (if c < 0x80 then some c else none) = some c
    rw [if_pos h1]
  · by_cases h2 : c < 0x800
    · have hu : utf8 c = [0xC0 + c / 64, 0x80 + c % 64] := by
        unfold utf8; rw [if_neg h1, if_pos h2]
      rw [hu]
      show (if (decide (0xC2 ≤ 0xC0 + c / 64) && decide (0xC0 + c / 64 ≤ 0xDF) && isCont (0x80 + c % 64)) = true
        then some ((0xC0 + c / 64 - 0xC0) * 64 + (0x80 + c % 64 - 0x80)) else none) = some c
      have a : (decide (0xC2 ≤ 0xC0 + c / 64) && decide (0xC0 + c / 64 ≤ 0xDF) && isCont (0x80 + c % 64)) = true := by
        unfold isCont
        simp only [Bool.and_eq_true, decide_eq_true_eq]; omega
      rw [if_pos a]
      exact congrArg some (by omega)
    · by_cases h3 : c < 0x10000
      · have hu : utf8 c = [0xE0 + c / 4096, 0x80 + (c / 64) % 64, 0x80 + c % 64] := by
          unfold utf8; rw [if_neg h1, if_neg h2, if_pos h3]
        have hv : validUtf8 [0xE0 + c / 4096, 0x80 + (c / 64) % 64, 0x80 + c % 64] = true := by
          have := validUtf8_utf8_append c hc0 []
          rw [hu] at this
          simpa [validUtf8] using this
        rw [hu]
        have hl : (decide (0xE0 ≤ 0xE0 + c / 4096) && decide (0xE0 + c / 4096 ≤ 0xEF) &&
            validUtf8 [0xE0 + c / 4096, 0x80 + (c / 64) % 64, 0x80 + c % 64]) = true := by
          simp only [Bool.and_eq_true, decide_eq_true_eq]; exact ⟨⟨by omega, by omega⟩, hv⟩
        show (if (decide (0xE0 ≤ 0xE0 + c / 4096) && decide (0xE0 + c / 4096 ≤ 0xEF) &&
            validUtf8 [0xE0 + c / 4096, 0x80 + (c / 64) % 64, 0x80 + c % 64]) = true
          then some ((0xE0 + c / 4096 - 0xE0) * 4096 + (0x80 + (c / 64) % 64 - 0x80) * 64 + (0x80 + c % 64 - 0x80))
          else none) = some c
        rw [if_pos hl]
        exact congrArg some (by omega)
      · have hu : utf8 c = [0xF0 + c / 262144, 0x80 + (c / 4096) % 64, 0x80 + (c / 64) % 64, 0x80 + c % 64] := by
          unfold utf8; rw [if_neg h1, if_neg h2, if_neg h3]
        have hv : validUtf8 [0xF0 + c / 262144, 0x80 + (c / 4096) % 64, 0x80 + (c / 64) % 64, 0x80 + c % 64] = true := by
          have := validUtf8_utf8_append c hc0 []
          rw [hu] at this
          simpa [validUtf8] using this
        rw [hu]
        have hl : (decide (0xF0 ≤ 0xF0 + c / 262144) && decide (0xF0 + c / 262144 ≤ 0xF4) &&
            validUtf8 [0xF0 + c / 262144, 0x80 + (c / 4096) % 64, 0x80 + (c / 64) % 64, 0x80 + c % 64]) = true := by
          simp only [Bool.and_eq_true, decide_eq_true_eq]; exact ⟨⟨by omega, by omega⟩, hv⟩
        show (if (decide (0xF0 ≤ 0xF0 + c / 262144) && decide (0xF0 + c / 262144 ≤ 0xF4) &&
            validUtf8 [0xF0 + c / 262144, 0x80 + (c / 4096) % 64, 0x80 + (c / 64) % 64, 0x80 + c % 64]) = true
          then some ((0xF0 + c / 262144 - 0xF0) * 262144 + (0x80 + (c / 4096) % 64 - 0x80) * 4096 +
            (0x80 + (c / 64) % 64 - 0x80) * 64 + (0x80 + c % 64 - 0x80))
          else none) = some c
        rw [if_pos hl]
        exact congrArg some (by omega)

/-- char tokenizer, the statement with the hypothesis that is actually needed (and that matches the Rust
`char::from_bytes`): no special token is the UTF-8 encoding of an alphabet character.  `ho` is not used:
`charIdToToken` asks the special vocabulary first, exactly like the Rust code. -/
theorem char_tokenToId_idToToken' (cfg : CharCfg) (hn : cfg.sp.tokens.Nodup)
    (ha : cfg.alphabet.Nodup) (hs : ∀ c ∈ cfg.alphabet, isScalar c = true)
    (hd : ∀ c ∈ cfg.alphabet, utf8 c ∉ cfg.sp.tokens)
    (id : Nat) (t : List Nat) (h : charIdToToken cfg id = some t) : charTokenToId cfg t = some id := by
  unfold charIdToToken at h
  unfold charTokenToId
  cases hsp : cfg.sp.idToToken id with
  | some t' =>
    rw [hsp] at h
    injection h with h; subst h
    rw [special_tokenToId_idToToken cfg.sp hn id t' hsp]
  | none =>
    rw [hsp] at h
    rw [Option.map_eq_some_iff] at h
    obtain ⟨c, hc, ht⟩ := h
    subst ht
    have hcm : c ∈ cfg.alphabet := List.mem_of_getElem? hc
    rw [tokenToId_none_of_not_mem cfg.sp _ (hd c hcm), singleCp_utf8 c (hs c hcm)]
    exact natIdxOf_of_getElem? ha hc

/-- char tokenizer: `token_to_id` inverts `id_to_token` on every id (alphabet of distinct scalar values; no special token is the
UTF-8 encoding of a single code point) -/
theorem char_tokenToId_idToToken (cfg : CharCfg) (ho : cfg.sp.offset = cfg.alphabet.length) (hn : cfg.sp.tokens.Nodup)
    (ha : cfg.alphabet.Nodup) (hs : ∀ c ∈ cfg.alphabet, isScalar c = true)
    (hd : ∀ t ∈ cfg.sp.tokens, singleCp t = none)
    (id : Nat) (t : List Nat) (h : charIdToToken cfg id = some t) : charTokenToId cfg t = some id := by
  refine char_tokenToId_idToToken' cfg hn ha hs ?_ id t h
  intro c hc hm
  have := hd _ hm
  rw [singleCp_utf8 c (hs c hc)] at this
  cases this

/-- BPE tokenizer: `token_to_id` inverts `id_to_token` on every id (well-formed table; no special token is a single byte or a table key) -/
theorem bpe_tokenToId_idToToken (cfg : BpeCfg) (ho : cfg.sp.offset = 256 + cfg.table.length) (hwf : wfTable cfg.table = true)
    (hn : cfg.sp.tokens.Nodup)
    (hd : ∀ t ∈ cfg.sp.tokens, t.length ≠ 1 ∧ tlookup cfg.table t = none)
    (id : Nat) (t : List Nat) (h : bpeIdToToken cfg id = some t) : bpeTokenToId cfg t = some id := by
  unfold bpeIdToToken at h
  unfold bpeTokenToId
  by_cases h1 : id < 256 + cfg.table.length
  · rw [if_pos h1] at h
    unfold bpeIdBytes at h
    by_cases h2 : id < 256
    · rw [if_pos h2] at h
      injection h with h; subst h
      have hnm : [id] ∉ cfg.sp.tokens := fun hm => (hd _ hm).1 rfl
      rw [tokenToId_none_of_not_mem cfg.sp _ hnm]
    · rw [if_neg h2, if_pos h1] at h
      have hl : tlookup cfg.table t = some (id - 256) := tlookup_of_tbytes hwf h
      have hlen : 2 ≤ t.length := wf_key_length hwf _ (tbytes_mem h)
      have hnm : t ∉ cfg.sp.tokens := by
        intro hm
        have := (hd _ hm).2
        rw [hl] at this
        cases this
      rw [tokenToId_none_of_not_mem cfg.sp _ hnm]
      match t, hlen, hl with
      | [], hlen, _ => simp at hlen
      | [b], hlen, _ => simp at hlen
      | a :: b :: r, _, hl =>
        show (tlookup cfg.table (a :: b :: r)).map (256 + ·) = some id
        rw [hl]
        show some (256 + (id - 256)) = some id
        exact congrArg some (by omega)
  · rw [if_neg h1] at h
    rw [special_tokenToId_idToToken cfg.sp hn id t h]

/-- regular and special ids are disjoint: every special id is at or above the number of regular tokens, in all three tokenizers -/
theorem special_ids_disjoint (sp : Special) (id : Nat) (h : (sp.idToToken id).isSome = true) : sp.offset ≤ id :=
  (special_id_range sp id h).1

/-- with the offsets the constructors set, a regular id of the char / BPE tokenizer is never a special id -/
theorem char_regular_not_special (cfg : CharCfg) (ho : cfg.sp.offset = cfg.alphabet.length) (id : Nat)
    (h : id < cfg.alphabet.length) : cfg.sp.idToToken id = none := by
  cases hx : cfg.sp.idToToken id with
  | none => rfl
  | some t =>
    have := special_ids_disjoint cfg.sp id (by rw [hx]; rfl)
    omega

theorem bpe_regular_not_special (cfg : BpeCfg) (ho : cfg.sp.offset = 256 + cfg.table.length) (id : Nat)
    (h : id < 256 + cfg.table.length) : cfg.sp.idToToken id = none := by
  cases hx : cfg.sp.idToToken id with
  | none => rfl
  | some t =>
    have := special_ids_disjoint cfg.sp id (by rw [hx]; rfl)
    omega

/-! non-vacuity of the new hypotheses (small concrete configurations) -/

/-- alphabet `a`, `é`, `€`, U+1F600; special tokens `<pad>` and `<unk>` -/
def exCharCfg : CharCfg :=
  { alphabet := [97, 0xE9, 0x20AC, 0x1F600],
    sp := { tokens := [[60, 112, 97, 100, 62], [60, 117, 110, 107, 62]], offset := 4, padId := 4, prefixIds := [], suffixIds := [] },
    unkId := 5 }

example : isScalar 0x20AC = true ∧ singleCp (utf8 0x20AC) = some 0x20AC := by decide
example : isScalar 0x10FFFF = true ∧ isScalar 0xD7FF = true ∧ isScalar 0xE000 = true ∧ isScalar 0xD800 = false := by decide
example : [0, 0x7F, 0x80, 0x7FF, 0x800, 0xD7FF, 0xE000, 0xFFFF, 0x10000, 0x10FFFF].all
    (fun c => isScalar c && singleCp (utf8 c) == some c) = true := by decide

example : exCharCfg.sp.offset = exCharCfg.alphabet.length ∧ exCharCfg.sp.tokens.Nodup ∧ exCharCfg.alphabet.Nodup ∧
    (∀ c ∈ exCharCfg.alphabet, isScalar c = true) ∧ (∀ t ∈ exCharCfg.sp.tokens, singleCp t = none) := by decide
example : (List.range 7).map (charIdToToken exCharCfg) =
    [some [97], some [0xC3, 0xA9], some [0xE2, 0x82, 0xAC], some [0xF0, 0x9F, 0x98, 0x80],
     some [60, 112, 97, 100, 62], some [60, 117, 110, 107, 62], none] := by decide
example : (List.range 6).all (fun id => match charIdToToken exCharCfg id with
    | some t => charTokenToId exCharCfg t == some id
    | none => false) = true := by decide
/-- the constructor produces such configurations -/
example : (mkCharCfg [97, 0xE9, 0x20AC, 0x1F600] [[60, 112, 97, 100, 62]] [60, 117, 110, 107, 62] [60, 112, 97, 100, 62] [] []).map
    (fun cfg => (cfg.alphabet, cfg.sp.tokens, cfg.sp.offset)) =
    some (exCharCfg.alphabet, exCharCfg.sp.tokens, exCharCfg.sp.offset) := by decide

/-- regression examples for a corrected model defect: `singleCp` used to check only `validUtf8` for 3- and
4-byte inputs, not that the first byte is a 3- / 4-byte lead, so three ASCII bytes "decoded" to code point 0
(truncated subtraction) where the Rust `char::from_bytes` answers `chars.len() != 1`.  Found while proving
`char_tokenToId_idToToken`; the difference was not observable through the real constructor, whose alphabet is a
fixed ASCII set without U+0000 (the bogus code point was then simply not in the alphabet). -/
example : singleCp [60, 112, 62] = none ∧ singleCp [97, 98, 99] = none ∧ singleCp [97, 98, 99, 100] = none ∧
    singleCp [97, 0xC3, 0xA9] = none := by decide
example :
    let cfg : CharCfg := { alphabet := [0, 97], sp := { tokens := [[60, 117, 110, 107, 62]], offset := 2, padId := 2, prefixIds := [], suffixIds := [] }, unkId := 2 }
    charTokenToId cfg [97, 98, 99] = none ∧ charIdToToken cfg 0 = some [0] := by decide

/-- the hypotheses of `char_tokenToId_idToToken'` hold with the 3-byte special token `<p>` -/
def exCharCfg' : CharCfg :=
  { alphabet := [97, 0xE9, 0x20AC, 0x1F600],
    sp := { tokens := [[60, 112, 62], [60, 117, 110, 107, 62]], offset := 4, padId := 4, prefixIds := [], suffixIds := [] },
    unkId := 5 }
example : exCharCfg'.sp.tokens.Nodup ∧ exCharCfg'.alphabet.Nodup ∧
    (∀ c ∈ exCharCfg'.alphabet, isScalar c = true) ∧ (∀ c ∈ exCharCfg'.alphabet, utf8 c ∉ exCharCfg'.sp.tokens) := by decide
example : (List.range 6).all (fun id => match charIdToToken exCharCfg' id with
    | some t => charTokenToId exCharCfg' t == some id
    | none => false) = true := by decide

def exBpeCfg : BpeCfg :=
  { table := [([97, 98], 0), ([99, 100], 1), ([97, 98, 99], 2), ([97, 98, 99, 100], 3)],
    sp := { tokens := [[60, 112, 62], []], offset := 260, padId := 260, prefixIds := [], suffixIds := [] } }

example : exBpeCfg.sp.offset = 256 + exBpeCfg.table.length ∧ wfTable exBpeCfg.table = true ∧ exBpeCfg.sp.tokens.Nodup ∧
    (∀ t ∈ exBpeCfg.sp.tokens, t.length ≠ 1 ∧ tlookup exBpeCfg.table t = none) := by decide
example : [97, 255, 256, 259, 260, 261, 262].map (bpeIdToToken exBpeCfg) =
    [some [97], some [255], some [97, 98], some [97, 98, 99, 100], some [60, 112, 62], some [], none] := by decide
example : [97, 255, 256, 259, 260, 261].all (fun id => match bpeIdToToken exBpeCfg id with
    | some t => bpeTokenToId exBpeCfg t == some id
    | none => false) = true := by decide

example : (exBpeCfg.sp.idToToken 260).isSome = true ∧ exBpeCfg.sp.offset ≤ 260 := by decide
example : (exCharCfg.sp.idToToken 5).isSome = true ∧ exCharCfg.sp.offset ≤ 5 := by decide

/-- the hypothesis `hd` is needed (char): a special token that is the UTF-8 encoding of an alphabet
character shadows that character in `token_to_id` -/
example :
    let cfg : CharCfg := { alphabet := [97, 98], sp := { tokens := [[98]], offset := 2, padId := 2, prefixIds := [], suffixIds := [] }, unkId := 2 }
    charIdToToken cfg 1 = some [98] ∧ charTokenToId cfg [98] = some 2 := by decide

/-- the hypothesis `hd` is needed (BPE): a special token equal to a table key shadows the merge token -/
example :
    let cfg : BpeCfg := { table := [([97, 98], 0)], sp := { tokens := [[97, 98]], offset := 257, padId := 257, prefixIds := [], suffixIds := [] } }
    bpeIdToToken cfg 256 = some [97, 98] ∧ bpeTokenToId cfg [97, 98] = some 257 := by decide

end Tu.C04
