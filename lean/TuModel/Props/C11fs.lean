/-
  C11 (find_substring_ignoring_whitespace) — the leftmost match of `\s* c1 \s* c2 ... \s* cn \s*`:
  what is returned is a range of `s`, equals the literals up to white space, is the leftmost match, is not
  preceded / followed by white space, and (for literals of one code point that is not white space) a match is
  found whenever one exists.  Model: Model/FindSub.lean; lemmas: Lemmas/FindSubL.lean.
-/
import TuModel.Lemmas.FindSubL
namespace Tu.C11fs
open Tu

/-! ### the anchored matcher -/

theorem matchLits_le (lits : List (List Nat)) (s : List Nat) (n : Nat) (h : matchLits lits s = some n) :
    n ≤ s.length := by
  induction lits generalizing s n with
  | nil =>
    rw [matchLits_nil] at h
    injection h with h
    rw [← h]; exact wsRun_le_length s
  | cons c cs ih =>
    obtain ⟨k, r, hk, hl, hr, hn⟩ := matchLits_cons_some c cs s n h
    have h1 := ih _ _ hr
    have h2 := litAt_drop c s k hl
    have h3 : (s.drop k).length = (c ++ s.drop (k + c.length)).length := by rw [← h2]
    have h4 := wsRun_le_length s
    simp at h1 h3
    omega

/-- what is matched differs from the literals only by white space -/
theorem matchLits_sound (lits : List (List Nat)) (s : List Nat) (n : Nat) (h : matchLits lits s = some n) :
    nonWs (s.take n) = nonWs lits.flatten := by
  induction lits generalizing s n with
  | nil =>
    rw [matchLits_nil] at h
    injection h with h
    rw [← h]
    exact nonWs_take_of_le_wsRun s _ (Nat.le_refl _)
  | cons c cs ih =>
    obtain ⟨k, r, hk, hl, hr, hn⟩ := matchLits_cons_some c cs s n h
    have h1 := ih _ _ hr
    have h2 := litAt_drop c s k hl
    have h3 : n = k + (c.length + r) := by omega
    rw [h3, List.take_add, h2, List.take_length_add_append, nonWs_append, nonWs_append,
      nonWs_take_of_le_wsRun s k hk, h1, List.flatten_cons, nonWs_append, List.nil_append]

/-- the trailing `\s*` is greedy: the match cannot be extended by a white-space code point -/
theorem matchLits_maximal (lits : List (List Nat)) (s : List Nat) (n : Nat) (h : matchLits lits s = some n) :
    ∀ c, s[n]? = some c → isWsCp c = false := by
  induction lits generalizing s n with
  | nil =>
    rw [matchLits_nil] at h
    injection h with h
    intro c hc
    rw [← h] at hc
    exact getElem?_wsRun s c hc
  | cons c' cs ih =>
    obtain ⟨k, r, hk, hl, hr, hn⟩ := matchLits_cons_some c' cs s n h
    intro c hc
    refine ih _ _ hr c ?_
    rw [List.getElem?_drop, ← hn]; exact hc

/-! ### the search -/

theorem findSub_range (s : List Nat) (lits : List (List Nat)) (a b : Nat) (h : findSub s lits = some (a, b)) :
    a ≤ b ∧ b ≤ s.length ∧ matchLits lits (s.drop a) = some (b - a) := by
  unfold findSub at h
  obtain ⟨_, h2, h3, h4, _⟩ := findFrom_some lits s _ _ a b h
  refine ⟨h3, ?_, h4⟩
  have h5 := matchLits_le lits _ _ h4
  simp at h5
  omega

/-- the returned slice is `substring` up to white space -/
theorem findSub_sound (s : List Nat) (lits : List (List Nat)) (a b : Nat) (h : findSub s lits = some (a, b)) :
    nonWs ((s.drop a).take (b - a)) = nonWs lits.flatten :=
  matchLits_sound lits _ _ (findSub_range s lits a b h).2.2

/-- leftmost: the pattern matches at no earlier position -/
theorem findSub_leftmost (s : List Nat) (lits : List (List Nat)) (a b : Nat) (h : findSub s lits = some (a, b)) :
    ∀ p, p < a → matchLits lits (s.drop p) = none := by
  unfold findSub at h
  obtain ⟨_, _, _, _, h5⟩ := findFrom_some lits s _ _ a b h
  intro p hp
  exact h5 p (Nat.zero_le _) hp

/-- the slice is not preceded and not followed by white space -/
theorem findSub_tight (s : List Nat) (lits : List (List Nat)) (a b : Nat) (h : findSub s lits = some (a, b)) :
    (∀ c, s[b]? = some c → isWsCp c = false) ∧ (∀ c, 0 < a → s[a - 1]? = some c → isWsCp c = false) := by
  obtain ⟨hab, hb, hm⟩ := findSub_range s lits a b h
  constructor
  · intro c hc
    refine matchLits_maximal lits _ _ hm c ?_
    rw [List.getElem?_drop]
    have : a + (b - a) = b := by omega
    rw [this]; exact hc
  · intro c ha hc
    cases hw : isWsCp c with
    | false => rfl
    | true =>
      have h1 := drop_eq_cons_of_getElem? s (a - 1) c hc
      have h2 : a - 1 + 1 = a := by omega
      rw [h2] at h1
      obtain ⟨m, hm'⟩ := matchLits_cons_ws lits (s.drop a) c _ hw hm
      rw [← h1, findSub_leftmost s lits a b h (a - 1) (by omega)] at hm'
      cases hm'

theorem findSub_none (s : List Nat) (lits : List (List Nat)) (h : findSub s lits = none) :
    ∀ p, p ≤ s.length → matchLits lits (s.drop p) = none := by
  unfold findSub at h
  intro p hp
  exact findFrom_none lits s _ _ h p (Nat.zero_le _) (by omega)

/-- an empty `substring` (or one of white space only) matches the white-space run at the very beginning -/
theorem findSub_nil (s : List Nat) : findSub s [] = some (0, wsRun s) := by
  unfold findSub
  rw [findFrom_succ_some [] s 0 s.length (wsRun s) (by rw [matchLits_nil, List.drop_zero])]
  simp

/-! ### completeness

As stated for arbitrary literals without white space, completeness is false: a literal of more than one code
point (a grapheme cluster) is matched contiguously, while "equal up to white space" lets white space stand
between its code points.  `[97, 32, 98]` equals the one literal `[97, 98]` up to white space, and
`\s*ab\s*` does not match it. -/

/-- counterexample to `matchLits_complete` as stated for literals of more than one code point -/
example : ¬ (∀ (lits : List (List Nat)) (_ : ∀ c ∈ lits, c ≠ [] ∧ ∀ x ∈ c, isWsCp x = false)
    (s : List Nat) (n : Nat) (_ : n ≤ s.length) (_ : nonWs (s.take n) = lits.flatten),
    ∃ m, matchLits lits s = some m) := by
  intro H
  obtain ⟨m, hm⟩ := H [[97, 98]] (by decide) [97, 32, 98] 3 (by decide) (by decide)
  have h0 : matchLits [[97, 98]] [97, 32, 98] = none := by decide
  rw [h0] at hm
  cases hm

/-- counterexample to `findSub_complete` as stated for literals of more than one code point -/
example : ¬ (∀ (s : List Nat) (lits : List (List Nat)) (_ : ∀ c ∈ lits, c ≠ [] ∧ ∀ x ∈ c, isWsCp x = false)
    (a b : Nat) (_ : a ≤ b) (_ : b ≤ s.length) (_ : nonWs ((s.drop a).take (b - a)) = lits.flatten),
    ∃ r, findSub s lits = some r) := by
  intro H
  obtain ⟨r, hr⟩ := H [97, 32, 98] [[97, 98]] (by decide) 0 3 (by decide) (by decide) (by decide)
  have h0 : findSub [97, 32, 98] [[97, 98]] = none := by decide
  rw [h0] at hr
  cases hr

/-- the data of the counterexample, checked by evaluation -/
example : (∀ c ∈ [[97, 98]], c ≠ [] ∧ ∀ x ∈ c, isWsCp x = false) ∧
    nonWs (([97, 32, 98].drop 0).take (3 - 0)) = [[97, 98]].flatten ∧
    matchLits [[97, 98]] [97, 32, 98] = none ∧ findSub [97, 32, 98] [[97, 98]] = none := by decide

set_option linter.unusedVariables false in
/-- completeness for literals of one code point that is not white space: whenever some prefix of `s` equals the
literals up to white space, the matcher succeeds -/
theorem matchLits_complete_partial (lits : List (List Nat))
    (hl : ∀ c ∈ lits, ∃ x, c = [x] ∧ isWsCp x = false)
    (s : List Nat) (n : Nat) (hn : n ≤ s.length) (h : nonWs (s.take n) = lits.flatten) :
    ∃ m, matchLits lits s = some m := by
  have := matchLits_complete_app lits hl (s.take n) (s.drop n) h
  rw [List.take_append_drop] at this
  exact this

/-- completeness for literals of one code point that is not white space: whenever some slice of `s` equals the
literals up to white space, the function finds one -/
theorem findSub_complete_partial (s : List Nat) (lits : List (List Nat))
    (hl : ∀ c ∈ lits, ∃ x, c = [x] ∧ isWsCp x = false)
    (a b : Nat) (hab : a ≤ b) (hb : b ≤ s.length) (h : nonWs ((s.drop a).take (b - a)) = lits.flatten) :
    ∃ r, findSub s lits = some r := by
  cases hf : findSub s lits with
  | some r => exact ⟨r, rfl⟩
  | none =>
    have h1 := findSub_none s lits hf a (by omega)
    obtain ⟨m, hm⟩ := matchLits_complete_partial lits hl (s.drop a) (b - a) (by simp; omega) h
    rw [h1] at hm
    cases hm

/-! ### completeness for literals of any length (also with white space inside): the language of the pattern

`PatInst lits l`: `l` is white space, then each literal followed by white space.  The matcher succeeds exactly on
the strings that have such a prefix, and the search finds a match whenever some slice of `s` is one. -/

theorem matchLits_iff_patInst (lits : List (List Nat)) (s : List Nat) :
    (∃ m, matchLits lits s = some m) ↔ ∃ n, n ≤ s.length ∧ PatInst lits (s.take n) := by
  constructor
  · intro ⟨m, hm⟩
    exact ⟨m, matchLits_le lits s m hm, patInst_of_matchLits lits s m hm⟩
  · intro ⟨n, _, hn⟩
    have := matchLits_of_patInst lits (s.take n) (s.drop n) hn
    rw [List.take_append_drop] at this
    exact this

theorem findSub_complete_patInst (s : List Nat) (lits : List (List Nat)) (a b : Nat) (hab : a ≤ b)
    (hb : b ≤ s.length) (h : PatInst lits ((s.drop a).take (b - a))) : ∃ r, findSub s lits = some r := by
  cases hf : findSub s lits with
  | some r => exact ⟨r, rfl⟩
  | none =>
    have h1 := findSub_none s lits hf a (by omega)
    obtain ⟨m, hm⟩ := (matchLits_iff_patInst lits (s.drop a)).mpr ⟨b - a, by simp; omega, h⟩
    rw [h1] at hm
    cases hm

/-! ### examples -/

example : findSub [97, 32, 98, 32, 32, 99, 32, 100] [[98], [99]] = some (1, 7) := by decide
example : findSub [97, 32, 98, 32, 32, 99, 32, 100] [[99], [98]] = none := by decide
example : findSub [32, 32, 97] [] = some (0, 2) := by decide
/-- backtracking: the literal starts with a white-space code point, the greedy `\s*` has to give it back -/
example : findSub [120, 32, 769] [[32, 769]] = some (1, 3) := by decide
example : findSub [120, 32, 32, 769, 32] [[32, 769]] = some (1, 5) := by decide

end Tu.C11fs
