/-
  C18 — word matching is a longest common subsequence; edited words are its complement.
  Model: `Tu.matchWords`, `Tu.editedWords` (Model/Match.lean) on the key sequences of the two texts
  (keys = words, or their lowercase forms under `ignore_case`).
-/
import TuModel.Lemmas.MatchTable
namespace Tu.C18
open Tu

/-- **match_words never reaches its panic branch, returns index pairs strictly increasing in both
coordinates whose words are equal, and their number is the value of the LCS recurrence** -/
theorem matchWords_ok (a b : List (List Nat)) :
    ∃ m, matchWords a b = some m ∧
      m.Pairwise (fun p q => p.1 < q.1 ∧ p.2 < q.2) ∧
      (∀ p ∈ m, p.1 < a.length ∧ p.2 < b.length ∧ a.getD p.1 [] = b.getD p.2 []) ∧
      m.length = lcsR a.reverse b.reverse := by
  obtain ⟨l, hb, hok⟩ := mBacktrace_ok a b (a.length + b.length + 1) a.length b.length [] (Nat.le_refl _) (Nat.le_refl _) (by omega)
  refine ⟨l, by simpa [matchWords] using hb, hok.incr, ?_, ?_⟩
  · intro p hp; exact ⟨(hok.bound p hp).1, (hok.bound p hp).2, hok.eq p hp⟩
  · rw [hok.len]; simp [refL]

/-- the recurrence value is an upper bound for every common subsequence of the word sequences … -/
theorem lcs_upper (a b m : List (List Nat)) (ha : List.Sublist m a) (hb : List.Sublist m b) :
    m.length ≤ lcsR a.reverse b.reverse := by
  have := Tu.lcs_upper _ a.reverse b.reverse m.reverse rfl (List.reverse_sublist.mpr ha) (List.reverse_sublist.mpr hb)
  simpa using this

/-- … and is attained: the number of matches is the length of a *longest* common subsequence -/
theorem lcs_attained (a b : List (List Nat)) :
    ∃ m, List.Sublist m a ∧ List.Sublist m b ∧ m.length = lcsR a.reverse b.reverse := by
  obtain ⟨m, h1, h2, h3⟩ := Tu.lcs_attained _ a.reverse b.reverse rfl
  refine ⟨m.reverse, ?_, ?_, by simpa using h3⟩
  · have := List.reverse_sublist.mpr h1; simpa using this
  · have := List.reverse_sublist.mpr h2; simpa using this

/-- `edited_words` is exactly the complement of the matching -/
theorem edited_eq_complement (aLen bLen : Nat) (m : List (Nat × Nat)) (i : Nat) :
    (i ∈ (editedWords aLen bLen m).1 ↔ i < aLen ∧ ∀ p ∈ m, p.1 ≠ i) ∧
    (i ∈ (editedWords aLen bLen m).2 ↔ i < bLen ∧ ∀ p ∈ m, p.2 ≠ i) := by
  simp only [editedWords, List.mem_filter, List.mem_range, Bool.not_eq_true', List.contains_eq_mem,
    decide_eq_false_iff_not, List.mem_map, not_exists, not_and]
  constructor <;> trivial

/-- the reported word counts are the numbers of whitespace-separated words: in the model the key
sequences *are* the result of `splitAsciiWs`; their lengths are what is reported. `splitAsciiWs`
yields only non-empty words without ASCII whitespace. -/
theorem splitAsciiWsAux_words (s cur : List Nat) (hc : ∀ c ∈ cur, isAsciiWs c = false) :
    ∀ w ∈ splitAsciiWsAux s cur, w ≠ [] ∧ ∀ c ∈ w, isAsciiWs c = false := by
  induction s generalizing cur with
  | nil =>
    intro w hw
    unfold splitAsciiWsAux at hw
    split at hw
    · simp at hw
    · rename_i hne
      simp at hw; subst hw
      exact ⟨by simpa using hne, by simpa using hc⟩
  | cons c cs ih =>
    intro w hw
    unfold splitAsciiWsAux at hw
    by_cases hws : isAsciiWs c = true
    · simp only [hws, if_true] at hw
      split at hw
      · exact ih [] (by simp) w hw
      · rename_i hne
        rcases List.mem_cons.mp hw with rfl | hw
        · exact ⟨by simpa using hne, by simpa using hc⟩
        · exact ih [] (by simp) w hw
    · have hws' : isAsciiWs c = false := by simpa using hws
      simp only [hws', Bool.false_eq_true, if_false] at hw
      exact ih (c :: cur) (by intro d hd; rcases List.mem_cons.mp hd with rfl | hd; exact hws'; exact hc d hd) w hw

theorem splitAsciiWs_words (s : List Nat) : ∀ w ∈ splitAsciiWs s, w ≠ [] ∧ ∀ c ∈ w, isAsciiWs c = false :=
  splitAsciiWsAux_words s [] (by simp)

/-! non-vacuity -/
example : matchWords [[97], [98], [99]] [[98], [120], [99]] = some [(1, 0), (2, 2)] := by decide
example : lcsR [[99], [98], [97]] [[99], [120], [98]] = 2 := by
  simp [lcsR_cons, lcsR_nil_left, lcsR_nil_right, mCandidates, maxByFst]

end Tu.C18
