/-
  C18 — word matching is a longest common subsequence; edited words are its complement.
  Model: `Tu.matchWords`, `Tu.editedWords` (Model/Match.lean) on the key sequences of the two texts
  (keys = words, or their lowercase forms under `ignore_case`).
-/
import TuModel.Lemmas.MatchTable
import TuModel.Lemmas.MatchAcceptL
namespace Tu.C18
open Tu

/-- **match_words never reaches its panic branch, returns index pairs strictly increasing in both
coordinates whose words are equal, and their number is the value of the LCS recurrence** -/
theorem matchWords_ok (a b : List (List Nat)) :
    ∃ m, matchWords a b = some m ∧
      m.Pairwise (fun p q => p.1 < q.1 ∧ p.2 < q.2) ∧
      (∀ p ∈ m, p.1 < a.length ∧ p.2 < b.length ∧ a.getD p.1 [] = b.getD p.2 []) ∧
      m.length = lcsR a.reverse b.reverse := by
  obtain ⟨l, hb, hok⟩ := mBacktrace_ok a b (a.length + b.length + 1) a.length b.length [] (Nat.le_refl _) (Nat.le_refl _) (by omega)
  refine ⟨l, by simpa [matchWords] using hb, hok.incr, ?_, ?_⟩
  · intro p hp; exact ⟨(hok.bound p hp).1, (hok.bound p hp).2, hok.eq p hp⟩
  · rw [hok.len]; simp [refL]

/-- the recurrence value is an upper bound for every common subsequence of the word sequences … -/
theorem lcs_upper (a b m : List (List Nat)) (ha : List.Sublist m a) (hb : List.Sublist m b) :
    m.length ≤ lcsR a.reverse b.reverse := by
  have := Tu.lcs_upper _ a.reverse b.reverse m.reverse rfl (List.reverse_sublist.mpr ha) (List.reverse_sublist.mpr hb)
  simpa using this

/-- … and is attained: the number of matches is the length of a *longest* common subsequence -/
theorem lcs_attained (a b : List (List Nat)) :
    ∃ m, List.Sublist m a ∧ List.Sublist m b ∧ m.length = lcsR a.reverse b.reverse := by
  obtain ⟨m, h1, h2, h3⟩ := Tu.lcs_attained _ a.reverse b.reverse rfl
  refine ⟨m.reverse, ?_, ?_, by simpa using h3⟩
  · have := List.reverse_sublist.mpr h1; simpa using this
  · have := List.reverse_sublist.mpr h2; simpa using this

/-- `edited_words` is exactly the complement of the matching -/
theorem edited_eq_complement (aLen bLen : Nat) (m : List (Nat × Nat)) (i : Nat) :
    (i ∈ (editedWords aLen bLen m).1 ↔ i < aLen ∧ ∀ p ∈ m, p.1 ≠ i) ∧
    (i ∈ (editedWords aLen bLen m).2 ↔ i < bLen ∧ ∀ p ∈ m, p.2 ≠ i) := by
  simp only [editedWords, List.mem_filter, List.mem_range, Bool.not_eq_true', List.contains_eq_mem,
    decide_eq_false_iff_not, List.mem_map, not_exists, not_and]
  constructor <;> trivial

/-- the reported word counts are the numbers of whitespace-separated words: in the model the key
sequences *are* the result of `splitAsciiWs`; their lengths are what is reported. `splitAsciiWs`
yields only non-empty words without ASCII whitespace. -/
theorem splitAsciiWsAux_words (s cur : List Nat) (hc : ∀ c ∈ cur, isAsciiWs c = false) :
    ∀ w ∈ splitAsciiWsAux s cur, w ≠ [] ∧ ∀ c ∈ w, isAsciiWs c = false := by
  induction s generalizing cur with
  | nil =>
    intro w hw
    unfold splitAsciiWsAux at hw
    split at hw
    · simp at hw
    · rename_i hne
      simp at hw; subst hw
      exact ⟨by simpa using hne, by simpa using hc⟩
  | cons c cs ih =>
    intro w hw
    unfold splitAsciiWsAux at hw
    by_cases hws : isAsciiWs c = true
    · simp only [hws, if_true] at hw
      split at hw
      · exact ih [] (by simp) w hw
      · rename_i hne
        rcases List.mem_cons.mp hw with rfl | hw
        · exact ⟨by simpa using hne, by simpa using hc⟩
        · exact ih [] (by simp) w hw
    · have hws' : isAsciiWs c = false := by simpa using hws
      simp only [hws', Bool.false_eq_true, if_false] at hw
      exact ih (c :: cur) (by intro d hd; rcases List.mem_cons.mp hd with rfl | hd; exact hws'; exact hc d hd) w hw

theorem splitAsciiWs_words (s : List Nat) : ∀ w ∈ splitAsciiWs s, w ≠ [] ∧ ∀ c ∈ w, isAsciiWs c = false :=
  splitAsciiWsAux_words s [] (by simp)

/-! non-vacuity -/
example : matchWords [[97], [98], [99]] [[98], [120], [99]] = some [(1, 0), (2, 2)] := by decide
example : lcsR [[99], [98], [97]] [[99], [120], [98]] = 2 := by
  simp [lcsR_cons, lcsR_nil_left, lcsR_nil_right, mCandidates, maxByFst]


/-! ## the relational acceptance test `matchAccept` (used by the correspondence check) -/

/-- `match_words` always returns (no panic branch): `matchWords a b` is `some _` -/
theorem matchWords_isSome (a b : List (List Nat)) : ∃ m, matchWords a b = some m := by
  obtain ⟨m, h, _⟩ := matchWords_ok a b
  exact ⟨m, h⟩

/-- the length compared against by `matchAccept` is the value of the LCS recurrence -/
theorem matchWords_getD_length (a b : List (List Nat)) :
    ((matchWords a b).getD []).length = lcsR a.reverse b.reverse := by
  obtain ⟨m, h, _, _, hl⟩ := matchWords_ok a b
  rw [h]; exact hl

/-- the modelled function's own result is accepted (the acceptance test never refuses the modelled code) -/
theorem matchWords_accepted (a b : List (List Nat)) (m : List (Nat × Nat)) (h : matchWords a b = some m) :
    matchAccept a b m = true := by
  obtain ⟨m', h', hinc, hb, _⟩ := matchWords_ok a b
  rw [h] at h'
  cases h'
  rw [matchAccept_iff]
  exact ⟨hinc, hb, by rw [h]; rfl⟩

/-- what acceptance means: the property's clauses -/
theorem matchAccept_spec (a b : List (List Nat)) (m : List (Nat × Nat)) (h : matchAccept a b m = true) :
    m.Pairwise (fun p q => p.1 < q.1 ∧ p.2 < q.2) ∧
    (∀ p ∈ m, p.1 < a.length ∧ p.2 < b.length ∧ a.getD p.1 [] = b.getD p.2 []) ∧
    -- it is a LONGEST common subsequence: every common subsequence is at most as long
    (∀ c : List (List Nat), List.Sublist c a → List.Sublist c b → c.length ≤ m.length) := by
  obtain ⟨hinc, hb, hl⟩ := (matchAccept_iff a b m).mp h
  refine ⟨hinc, hb, ?_⟩
  intro c ha hb'
  rw [hl, matchWords_getD_length]
  exact lcs_upper a b c ha hb'

/-- and the matched words form a common subsequence of that length (so the number of matches IS the
LCS length) -/
theorem matchAccept_common (a b : List (List Nat)) (m : List (Nat × Nat)) (h : matchAccept a b m = true) :
    ∃ c : List (List Nat), List.Sublist c a ∧ List.Sublist c b ∧ c.length = m.length := by
  obtain ⟨hinc, hb, _⟩ := (matchAccept_iff a b m).mp h
  refine ⟨m.map (fun p => a.getD p.1 []), ?_, ?_, by simp⟩
  · have := map_getD_sublist a (m.map Prod.fst)
      (by rw [List.pairwise_map]; exact hinc.imp (fun h => h.1))
      (by intro i hi; obtain ⟨p, hp, rfl⟩ := List.mem_map.mp hi; exact (hb p hp).1)
    simpa [List.map_map, Function.comp_def] using this
  · have he : m.map (fun p => a.getD p.1 []) = m.map (fun p => b.getD p.2 []) :=
      List.map_congr_left (fun p hp => (hb p hp).2.2)
    rw [he]
    have := map_getD_sublist b (m.map Prod.snd)
      (by rw [List.pairwise_map]; exact hinc.imp (fun h => h.2))
      (by intro i hi; obtain ⟨p, hp, rfl⟩ := List.mem_map.mp hi; exact (hb p hp).2.1)
    simpa [List.map_map, Function.comp_def] using this

/-- the number of accepted matches is exactly the LCS recurrence value -/
theorem matchAccept_length (a b : List (List Nat)) (m : List (Nat × Nat)) (h : matchAccept a b m = true) :
    m.length = lcsR a.reverse b.reverse := by
  rw [((matchAccept_iff a b m).mp h).2.2, matchWords_getD_length]

/-- conversely, acceptance is *exactly* the property: every strictly increasing, in-range, equal-word
matching that no common subsequence exceeds is accepted (the test refuses no correct answer) -/
theorem matchAccept_complete (a b : List (List Nat)) (m : List (Nat × Nat))
    (hinc : m.Pairwise (fun p q => p.1 < q.1 ∧ p.2 < q.2))
    (hb : ∀ p ∈ m, p.1 < a.length ∧ p.2 < b.length ∧ a.getD p.1 [] = b.getD p.2 [])
    (hmax : ∀ c : List (List Nat), List.Sublist c a → List.Sublist c b → c.length ≤ m.length) :
    matchAccept a b m = true := by
  obtain ⟨m0, h0⟩ := matchWords_isSome a b
  have hacc0 := matchWords_accepted a b m0 h0
  obtain ⟨c0, c0a, c0b, c0l⟩ := matchAccept_common a b m0 hacc0
  have h1 := hmax c0 c0a c0b
  -- `m` itself is a common subsequence, hence at most as long as the function's result
  have hm : matchAccept a b m0 = true → m.length ≤ m0.length := by
    intro hh
    have hs := (matchAccept_spec a b m0 hh).2.2
    have ha : List.Sublist (m.map (fun p => a.getD p.1 [])) a := by
      have := map_getD_sublist a (m.map Prod.fst)
        (by rw [List.pairwise_map]; exact hinc.imp (fun h => h.1))
        (by intro i hi; obtain ⟨p, hp, rfl⟩ := List.mem_map.mp hi; exact (hb p hp).1)
      simpa [List.map_map, Function.comp_def] using this
    have hb2 : List.Sublist (m.map (fun p => a.getD p.1 [])) b := by
      have he : m.map (fun p => a.getD p.1 []) = m.map (fun p => b.getD p.2 []) :=
        List.map_congr_left (fun p hp => (hb p hp).2.2)
      rw [he]
      have := map_getD_sublist b (m.map Prod.snd)
        (by rw [List.pairwise_map]; exact hinc.imp (fun h => h.2))
        (by intro i hi; obtain ⟨p, hp, rfl⟩ := List.mem_map.mp hi; exact (hb p hp).2.1)
      simpa [List.map_map, Function.comp_def] using this
    simpa using hs _ ha hb2
  have h2 := hm hacc0
  rw [matchAccept_iff]
  refine ⟨hinc, hb, ?_⟩
  rw [h0]; simp only [Option.getD_some]; omega

/-! acceptance examples: a = [x, y, x], b = [x, x] with x = [120], y = [121] -/
example : matchWords [[120], [121], [120]] [[120], [120]] = some [(0, 0), (2, 1)] := by decide
example : matchAccept [[120], [121], [120]] [[120], [120]] [(0, 0), (2, 1)] = true := by decide
/-- a non-longest matching is refused -/
example : matchAccept [[120], [121], [120]] [[120], [120]] [(0, 0)] = false := by decide
/-- a crossing matching is refused -/
example : matchAccept [[120], [121], [120]] [[120], [120]] [(2, 0), (0, 1)] = false := by decide
/-- unequal words are refused -/
example : matchAccept [[120], [121], [120]] [[120], [120]] [(0, 0), (1, 1)] = false := by decide
/-- out-of-range indices are refused -/
example : matchAccept [[120], [121], [120]] [[120], [120]] [(0, 0), (2, 2)] = false := by decide
/-- a second longest matching is accepted too when there are several: a = [x, x], b = [x] -/
example : matchAccept [[120], [120]] [[120]] [(0, 0)] = true ∧ matchAccept [[120], [120]] [[120]] [(1, 0)] = true := by decide


end Tu.C18
