/-
  C16 (CharString part) — the run-length based index arithmetic of `CharString` agrees with prefix
  sums over the cluster byte lengths, and the two substring enumerations built on it return exactly
  the windows they promise.  Model: Model/CharString.lean; lemmas: Lemmas/CharStringL.lean.
-/
import TuModel.Lemmas.CharStringL
namespace Tu.C16cs
open Tu

/-! ### run-length encoding -/

theorem rld_rle (l : List Nat) : rld (rle l) = l := rld_rle' l

theorem rle_counts_pos (l : List Nat) : ∀ p ∈ rle l, 0 < p.2 := by
  cases l with
  | nil => intro p hp; rw [rle] at hp; cases hp
  | cons x xs => rw [rle]; exact rleAux_counts_pos xs x 1 (by omega)

theorem rle_count_sum (l : List Nat) : ((rle l).map (·.2)).sum = l.length := by
  cases l with
  | nil => rw [rle]; rfl
  | cons x xs => rw [rle, rleAux_count_sum]; simp; omega

/-- canonical: neighbouring runs carry different values -/
theorem rle_adjacent_ne (l : List Nat) : ∀ i, (h : i + 1 < (rle l).length) →
    ((rle l)[i]'(by omega)).1 ≠ ((rle l)[i+1]'h).1 := by
  cases l with
  | nil => intro i h; simp [rle] at h
  | cons x xs =>
    intro i h
    have e : rle (x :: xs) = rleAux x 1 xs := by rw [rle]
    simp only [e] at h ⊢
    exact rleAux_adjacent_ne xs x 1 i h

/-! ### `byte_start_end` on the encoded lengths = prefix sums; panics exactly out of range -/

theorem byteStartEnd_rle (l : List Nat) (n : Nat) (h : n < l.length) :
    byteStartEnd (rle l) n = some (byteOf l n, byteOf l (n + 1)) := byteStartEnd_rle_some l n h

theorem byteStartEnd_rle_none (l : List Nat) (n : Nat) (h : l.length ≤ n) : byteStartEnd (rle l) n = none :=
  byteStartEnd_rle_none' l n h

theorem charByteLen_rle (l : List Nat) (n : Nat) (h : n < l.length) : charByteLen (rle l) n = some l[n] := by
  unfold charByteLen
  rw [byteStartEnd_rle l n h, byteOf_succ l n h]
  simp

/-! ### `char_range_to_byte_range`: byte and character boundaries denote the same positions -/

theorem charRange_rle (l : List Nat) (s e : Nat) (h : s < e) (he : e ≤ l.length) :
    charRangeToByteRange (rle l) l.length s e = some (byteOf l s, byteOf l e) := charRange_rle_some l s e h he

theorem charRange_rle_none (l : List Nat) (s e : Nat) (h : ¬ (s < e ∧ e ≤ l.length)) :
    charRangeToByteRange (rle l) l.length s e = none := by
  unfold charRangeToByteRange
  rw [if_neg h]

theorem csGet_rle (l : List Nat) (n : Nat) :
    csGet (rle l) l.length n = some (if n < l.length then some (byteOf l n, byteOf l (n + 1)) else none) := by
  unfold csGet
  by_cases h : n < l.length
  · rw [if_neg (by omega), if_pos h, byteStartEnd_rle l n h]; rfl
  · rw [if_pos (by omega), if_neg h]

/-- `sub` never panics for start ≤ end (it clamps), and returns the slice between the clamped boundaries -/
theorem csSub_rle (l : List Nat) (s e : Nat) (h : s ≤ e) :
    csSub (rle l) l.length s e =
      some (if min s l.length = min e l.length then (0, 0) else (byteOf l (min s l.length), byteOf l (min e l.length))) := by
  unfold csSub
  rw [if_pos h]
  simp only
  by_cases h0 : l.length = 0
  · rw [if_pos (Or.inl h0), if_pos (by omega)]
  · by_cases h1 : min s l.length = min e l.length
    · rw [if_pos (Or.inr h1), if_pos h1]
    · rw [if_neg (by omega), if_neg h1]
      exact charRange_rle l _ _ (by omega) (by omega)

theorem csSub_rle_none (l : List Nat) (s e : Nat) (h : e < s) : csSub (rle l) l.length s e = none := by
  unfold csSub
  rw [if_neg (by omega)]

/-! ### `possible_character_substrings`: all windows of min(max, len) characters, in order -/

theorem possibleCharSubstrings_spec (l : List Nat) (hl : l ≠ []) (m : Nat) (hm : 0 < m) :
    possibleCharSubstrings l m =
      some ((List.range (l.length - min m l.length + 1)).map
        (fun st => (byteOf l st, byteOf l (st + min m l.length), min m l.length))) := by
  have hlen : 0 < l.length := List.length_pos_iff.mpr hl
  unfold possibleCharSubstrings
  rw [if_neg (by simpa using hl)]
  simp only [CStr.new]
  apply allSome_map_some
  intro st hst
  have hst' : st < l.length - min m l.length + 1 := List.mem_range.mp hst
  have e1 : min l.length (st + min m l.length) = st + min m l.length := by omega
  rw [e1, charRange_rle l st (st + min m l.length) (by omega) (by omega)]
  simp

/-- max_chars = 0 on a non-empty text trips the assertion of char_range_to_byte_range -/
theorem possibleCharSubstrings_zero (l : List Nat) (hl : l ≠ []) : possibleCharSubstrings l 0 = none := by
  unfold possibleCharSubstrings
  rw [if_neg (by simpa using hl)]
  simp only [CStr.new]
  rw [List.range_succ_eq_map, List.map_cons, charRange_rle_none l 0 _ (by omega)]
  exact allSome_none _

/-! ### `find_subsequences_of_max_size_k` with size = byte sum -/

theorem findSubseqSum_sound (l : List Nat) (k s e : Nat) (h : (s, e) ∈ findSubseqSum l k) :
    s < e ∧ e ≤ l.length ∧ byteOf l e - byteOf l s ≤ k := by
  obtain ⟨h1, h2, h3, _⟩ := findSubseqSum_props l k (s, e) h
  exact ⟨h1, h2, h3⟩

/-- right-maximal: the window cannot be extended by the next character -/
theorem findSubseqSum_right_maximal (l : List Nat) (k s e : Nat) (h : (s, e) ∈ findSubseqSum l k) :
    e = l.length ∨ k < byteOf l (e + 1) - byteOf l s :=
  (findSubseqSum_props l k (s, e) h).2.2.2

/-- every fitting window is covered by an emitted one (the enumeration is complete up to inclusion) -/
theorem findSubseqSum_complete (l : List Nat) (k s e : Nat) (hse : s < e) (he : e ≤ l.length)
    (hfit : byteOf l e - byteOf l s ≤ k) : ∃ p ∈ findSubseqSum l k, p.1 ≤ s ∧ e ≤ p.2 :=
  findSubseqSum_covers l k s e hse he hfit

theorem findSubseqSum_empty_iff (l : List Nat) (k : Nat) : findSubseqSum l k = [] ↔ ∀ x ∈ l, k < x := by
  constructor
  · intro h x hx
    obtain ⟨i, hi, rfl⟩ := List.getElem_of_mem hx
    apply Nat.lt_of_not_le
    intro hle
    have hfit : byteOf l (i + 1) - byteOf l i ≤ k := by rw [byteOf_succ l i hi]; omega
    obtain ⟨p, hp, _⟩ := findSubseqSum_complete l k i (i + 1) (by omega) (by omega) hfit
    rw [h] at hp; cases hp
  · intro h
    apply findSubseqSum_of_none
    apply firstFit_none_of
    intro i _ hi
    rw [sumSz_one l i hi]
    exact h _ (List.getElem_mem hi)

/-- the emitted windows are strictly increasing in both coordinates -/
theorem findSubseqSum_increasing (l : List Nat) (k : Nat) :
    (findSubseqSum l k).Pairwise (fun a b => a.1 < b.1 ∧ a.2 < b.2) := by
  cases hf : firstFit (sumSz l) l.length k (l.length + 1) 0 with
  | none => rw [findSubseqSum_of_none l k hf]; exact List.Pairwise.nil
  | some st =>
    rw [findSubseqSum_of_some l k st hf]
    obtain ⟨_, _, h3, _⟩ := firstFit_some _ _ _ _ _ _ hf
    exact invB_loop _ _ _ _ _ _ _ _ ⟨by omega, fun _ _ => h3, List.Pairwise.nil, fun p hp => by cases hp⟩

/-- the fuel 2n+2 of the model's main loop is never exhausted: more fuel gives the same result -/
theorem findSubseqSum_fuel (l : List Nat) (k extra : Nat) (st : Nat)
    (h : firstFit (fun s e => ((l.drop s).take (e - s)).sum) l.length k (l.length + 1) 0 = some st) :
    subseqLoop (fun s e => ((l.drop s).take (e - s)).sum) l.length k (2 * l.length + 2 + extra) st (st + 1)
      (((l.drop st).take 1).sum) [] = findSubseqSum l k := by
  have h' : firstFit (sumSz l) l.length k (l.length + 1) 0 = some st := h
  rw [findSubseqSum_of_some l k st h']
  have := subseqLoop_fuel (sumSz l) l.length k extra (2 * l.length + 2) st (st + 1) (sumSz l st (st + 1)) []
    (by omega)
  rw [← this]
  show _ = subseqLoop (sumSz l) l.length k (2 * l.length + 2 + extra) st (st + 1)
    (((l.drop st).take (st + 1 - st)).sum) []
  rw [show st + 1 - st = 1 by omega]
  rfl

/-! ### `possible_byte_substrings` -/

/-- possible_byte_substrings never panics and is the enumeration converted by prefix sums -/
theorem possibleByteSubstrings_spec (l : List Nat) (hl : l ≠ []) (k : Nat) :
    possibleByteSubstrings l k = some ((findSubseqSum l k).map (fun p => (byteOf l p.1, byteOf l p.2, p.2 - p.1))) := by
  unfold possibleByteSubstrings
  rw [if_neg (by simpa using hl)]
  simp only [CStr.new]
  apply allSome_map_some
  rintro ⟨s, e⟩ hp
  obtain ⟨h1, h2, _⟩ := findSubseqSum_sound l k s e hp
  simp only
  rw [charRange_rle l s e h1 h2]
  rfl

theorem possibleByteSubstrings_fit (l : List Nat) (k : Nat) (r : List (Nat × Nat × Nat)) (hl : l ≠ [])
    (h : possibleByteSubstrings l k = some r) : ∀ t ∈ r, t.2.1 - t.1 ≤ k ∧ 0 < t.2.2 := by
  rw [possibleByteSubstrings_spec l hl k] at h
  injection h with h
  subst h
  intro t ht
  obtain ⟨⟨s, e⟩, hp, rfl⟩ := List.mem_map.mp ht
  obtain ⟨h1, h2, h3⟩ := findSubseqSum_sound l k s e hp
  exact ⟨h3, by simp only; omega⟩

/-! ### non-vacuity -/

example : rle [1,1,1,2,2,1,4,4,5] = [(1,3),(2,2),(1,1),(4,2),(5,1)] := by decide
example : rld (rle [1,1,1,2,2,1,4,4,5]) = [1,1,1,2,2,1,4,4,5] := by decide
example : byteStartEnd (rle [1,1,1,2,2,1,4,4,5]) 4 = some (5, 7) := by decide
example : byteStartEnd (rle [1,1,1,2,2,1,4,4,5]) 9 = none := by decide
example : charRangeToByteRange (rle [1,2,1,3]) 4 1 3 = some (1, 4) := by decide
example : charRangeToByteRange (rle [1,2,1,3]) 4 2 2 = none := by decide
example : csSub (rle [1,2,1,3]) 4 1 9 = some (1, 7) := by decide
example : csSub (rle [1,2,1,3]) 4 7 9 = some (0, 0) := by decide
example : csSub (rle [1,2,1,3]) 4 3 2 = none := by decide
example : csGet (rle [1,2,1,3]) 4 3 = some (some (4, 7)) := by decide
example : csGet (rle [1,2,1,3]) 4 4 = some none := by decide
example : possibleCharSubstrings [1,2,1,3] 2 = some [(0,3,2),(1,4,2),(3,7,2)] := by decide
example : possibleCharSubstrings [1,2,1,3] 9 = some [(0,7,4)] := by decide
example : possibleCharSubstrings [1,2,1,3] 0 = none := by decide
example : findSubseqSum [1,2,1,3] 3 = [(0,2),(1,3),(3,4)] := by decide
example : possibleByteSubstrings [1,2,1,3] 3 = some [(0,3,2),(1,4,2),(4,7,1)] := by decide
example : possibleByteSubstrings [4,4] 3 = some [] := by decide
example : possibleByteSubstrings [4,1,4,2,2] 4 = some [(0,4,1),(4,5,1),(5,9,1),(9,13,2)] := by decide

end Tu.C16cs
