/-
  C16 — inference windows tile the text exactly and respect the size limits.
  Model: `Tu.charWindows`, `Tu.byteWindows`, `Tu.fullWindows` (Model/Windows.lean) over the vector
  of cluster byte lengths.  Byte boundaries are `byteOf lens k` (the prefix sum), so "byte and
  character boundaries denote the same positions" is how the model *computes* byte boundaries;
  the implementation's run-length based `char_range_to_byte_range` is compared with it on every
  request (and by the harness oracle against an independent prefix sum).
-/
import TuModel.Model.Windows
import TuModel.Lemmas.WindowsUL
namespace Tu.C16
open Tu

/-- the windows partition `[ws, n)`: each starts where the previous ended, none is empty, the last
ends at `n` -/
def Tiles (n : Nat) : Nat → List Win → Prop
  | ws, [] => ws = n
  | ws, w :: rest => w.wStart = ws ∧ w.wStart < w.wEnd ∧ w.wEnd ≤ n ∧ Tiles n w.wEnd rest

/-- context contains the window, lies inside the text, and byte fields are the byte offsets of the
character fields -/
def CtxOK (lens : List Nat) (w : Win) : Prop :=
  w.ctxStart ≤ w.wStart ∧ w.wEnd ≤ w.ctxEnd ∧ w.ctxEnd ≤ lens.length ∧
  w.bCtxStart = byteOf lens w.ctxStart ∧ w.bWStart = byteOf lens w.wStart ∧
  w.bWEnd = byteOf lens w.wEnd ∧ w.bCtxEnd = byteOf lens w.ctxEnd

theorem winLen_bounds (maxLen ctx ws : Nat) (hcfg : 2 * ctx < maxLen) :
    1 ≤ winLen maxLen ctx ws ∧ maxLen - 2 * ctx ≤ winLen maxLen ctx ws ∧ winLen maxLen ctx ws + ctx ≤ maxLen ∧
    (0 < ws → winLen maxLen ctx ws + 2 * ctx ≤ maxLen) := by
  unfold winLen; split <;> omega

/-! ### character windows -/

theorem charLoop_ok (lens : List Nat) (maxLen ctx : Nat) (hcfg : 2 * ctx < maxLen) :
    ∀ (k ws : Nat), lens.length - ws = k → ws ≤ lens.length →
      ∃ l, charLoop lens maxLen ctx ws = .ok l ∧ Tiles lens.length ws l ∧
        ∀ w ∈ l, CtxOK lens w ∧ w.ctxEnd - w.ctxStart ≤ maxLen := by
  intro k
  induction k using Nat.strongRecOn with
  | _ k ih =>
    intro ws hk hws
    rw [charLoop]
    by_cases h : ws < lens.length
    · simp only [h, dite_true]
      obtain ⟨hwl, _, hwl2, hwl3⟩ := winLen_bounds maxLen ctx ws hcfg
      have hnp : ¬ min lens.length (ws + (winLen maxLen ctx ws)) ≤ ws := by omega
      simp only [hnp, dite_false]
      obtain ⟨l, hl, ht, hc⟩ := ih (lens.length - min lens.length (ws + (winLen maxLen ctx ws)))
        (by omega) _ rfl (by omega)
      rw [hl]
      refine ⟨_, rfl, ?_, ?_⟩
      · exact ⟨rfl, by simp [mkWin]; omega, by simp [mkWin]; omega, ht⟩
      · intro w hw
        rcases List.mem_cons.mp hw with rfl | hw
        · refine ⟨⟨by simp [mkWin], by simp [mkWin]; omega, by simp [mkWin]; omega, rfl, rfl, rfl, rfl⟩, ?_⟩
          simp only [mkWin]
          omega
        · exact hc w hw
    · simp only [h, dite_false]
      exact ⟨[], rfl, by simp [Tiles]; omega, by simp⟩

/-- **character windows tile the text, contexts contain their windows and never exceed the
maximum**, for every non-empty text and every valid configuration -/
theorem char_windows_ok (lens : List Nat) (maxLen ctx : Nat) (hne : lens ≠ []) (hcfg : 2 * ctx < maxLen) :
    ∃ l, charWindows lens maxLen ctx = .ok l ∧ Tiles lens.length 0 l ∧
      ∀ w ∈ l, CtxOK lens w ∧ w.ctxEnd - w.ctxStart ≤ maxLen := by
  unfold charWindows
  have h1 : lens.isEmpty = false := by cases lens <;> simp_all
  have h2 : ¬ maxLen ≤ 2 * ctx := by omega
  simp only [h1, Bool.false_eq_true, if_false, h2]
  exact charLoop_ok lens maxLen ctx hcfg _ 0 rfl (by omega)

/-- an impossible configuration is an error value -/
theorem invalid_cfg_err (lens : List Nat) (maxLen ctx : Nat) (hne : lens ≠ []) (hcfg : maxLen ≤ 2 * ctx) :
    charWindows lens maxLen ctx = .error .badConfig ∧ byteWindows lens maxLen ctx = .error .badConfig := by
  have h1 : lens.isEmpty = false := by cases lens <;> simp_all
  simp [charWindows, byteWindows, h1, hcfg]

/-! ### byte windows -/

theorem countUntil_le (ls : List Nat) (m : Nat) : countUntil ls m ≤ ls.length := by
  induction ls generalizing m with
  | nil => simp [countUntil]
  | cons l ls ih =>
    simp only [countUntil]
    split
    · omega
    · have := ih (m - l); simp; omega

theorem countUntil_sum (ls : List Nat) (m : Nat) : (ls.take (countUntil ls m)).sum ≤ m := by
  induction ls generalizing m with
  | nil => simp [countUntil]
  | cons l ls ih =>
    simp only [countUntil]
    split
    · simp
    · have := ih (m - l)
      rw [show 1 + countUntil ls (m - l) = countUntil ls (m - l) + 1 by omega, List.take_succ_cons]
      simp; omega

theorem countUntil_pos {l : Nat} {ls : List Nat} {m : Nat} (h : l ≤ m) : 0 < countUntil (l :: ls) m := by
  simp only [countUntil]; split <;> omega

theorem byteOf_add (lens : List Nat) (a k : Nat) :
    byteOf lens (a + k) = byteOf lens a + ((lens.drop a).take k).sum := by
  unfold byteOf
  rw [← List.sum_append, List.take_add]

theorem byteOf_sub (lens : List Nat) (a k : Nat) (hk : k ≤ a) (ha : a ≤ lens.length) :
    byteOf lens a = byteOf lens (a - k) + ((lens.take a).reverse.take k).sum := by
  unfold byteOf
  have h1 : (lens.take a).length = a := by rw [List.length_take]; omega
  have : lens.take (a - k) = (lens.take a).take (a - k) := by rw [List.take_take]; congr 1; omega
  rw [this]
  have hrev : ((lens.take a).reverse.take k) = ((lens.take a).drop (a - k)).reverse := by
    rw [List.take_reverse, h1]
  rw [hrev, List.sum_reverse, ← List.sum_append, List.take_append_drop]

theorem byteLoop_ok (lens : List Nat) (maxB ctx : Nat) (hcfg : 2 * ctx < maxB) :
    ∀ (k ws : Nat), lens.length - ws = k → ws ≤ lens.length →
      byteLoop lens maxB ctx ws = .error .tooWide ∨
      ∃ l, byteLoop lens maxB ctx ws = .ok l ∧ Tiles lens.length ws l ∧
        ∀ w ∈ l, CtxOK lens w ∧ w.bCtxEnd - w.bCtxStart ≤ maxB := by
  intro k
  induction k using Nat.strongRecOn with
  | _ k ih =>
    intro ws hk hws
    rw [byteLoop]
    by_cases h : ws < lens.length
    · simp only [h, dite_true]
      by_cases hz : countUntil (lens.drop ws) (winLen maxB ctx ws) = 0
      · simp only [hz, dite_true]; exact Or.inl trivial
      · simp only [hz, dite_false]
        have hle := countUntil_le (lens.drop ws) (winLen maxB ctx ws)
        simp only [List.length_drop] at hle
        rcases ih (lens.length - (ws + countUntil (lens.drop ws) (winLen maxB ctx ws)))
          (by omega) _ rfl (by omega) with he | ⟨l, hl, ht, hc⟩
        · rw [he]; exact Or.inl rfl
        · rw [hl]
          refine Or.inr ⟨_, rfl, ?_, ?_⟩
          · exact ⟨rfl, by simp [mkWin]; omega, by simp [mkWin]; omega, ht⟩
          · intro w hw
            rcases List.mem_cons.mp hw with rfl | hw
            · have hce := countUntil_le (lens.drop (ws + countUntil (lens.drop ws) (winLen maxB ctx ws))) ctx
              simp only [List.length_drop] at hce
              have hcs := countUntil_le (lens.take ws).reverse ctx
              simp only [List.length_reverse, List.length_take] at hcs
              refine ⟨⟨by simp [mkWin], by simp [mkWin], by simp [mkWin]; omega, rfl, rfl, rfl, rfl⟩, ?_⟩
              simp only [mkWin]
              have s1 := countUntil_sum (lens.drop ws) (winLen maxB ctx ws)
              have s2 := countUntil_sum (lens.drop (ws + countUntil (lens.drop ws) (winLen maxB ctx ws))) ctx
              have s3 := countUntil_sum (lens.take ws).reverse ctx
              have b1 := byteOf_add lens ws (countUntil (lens.drop ws) (winLen maxB ctx ws))
              have b2 := byteOf_add lens (ws + countUntil (lens.drop ws) (winLen maxB ctx ws))
                (countUntil (lens.drop (ws + countUntil (lens.drop ws) (winLen maxB ctx ws))) ctx)
              have b3 := byteOf_sub lens ws (countUntil (lens.take ws).reverse ctx) (by omega) (by omega)
              obtain ⟨_, _, hwl2, hwl3⟩ := winLen_bounds maxB ctx ws hcfg
              by_cases h0 : ws > 0
              · have := hwl3 h0
                omega
              · have hws0 : ws = 0 := by omega
                subst hws0
                have e0 : byteOf lens (0 - countUntil (lens.take 0).reverse ctx) = byteOf lens 0 := by simp
                rw [e0]
                omega
            · exact hc w hw
    · simp only [h, dite_false]
      exact Or.inr ⟨[], rfl, by simp [Tiles]; omega, by simp⟩

/-- **byte windows**: for every non-empty text and valid configuration the result is either the
`too-wide` error value or a tiling whose contexts contain their windows and never exceed
`max_bytes`; no other error, no fault -/
theorem byte_windows_ok (lens : List Nat) (maxB ctx : Nat) (hne : lens ≠ []) (hcfg : 2 * ctx < maxB) :
    byteWindows lens maxB ctx = .error .tooWide ∨
    ∃ l, byteWindows lens maxB ctx = .ok l ∧ Tiles lens.length 0 l ∧
      ∀ w ∈ l, CtxOK lens w ∧ w.bCtxEnd - w.bCtxStart ≤ maxB := by
  unfold byteWindows
  have h1 : lens.isEmpty = false := by cases lens <;> simp_all
  have h2 : ¬ maxB ≤ 2 * ctx := by omega
  simp only [h1, Bool.false_eq_true, if_false, h2]
  exact byteLoop_ok lens maxB ctx hcfg _ 0 rfl (by omega)

/-- if every character fits into the smallest window length, byte windows succeed -/
theorem byteLoop_fits (lens : List Nat) (maxB ctx : Nat) (hcfg : 2 * ctx < maxB)
    (hfit : ∀ l ∈ lens, l ≤ maxB - 2 * ctx) :
    ∀ (k ws : Nat), lens.length - ws = k → byteLoop lens maxB ctx ws ≠ .error .tooWide := by
  intro k
  induction k using Nat.strongRecOn with
  | _ k ih =>
    intro ws hk
    rw [byteLoop]
    by_cases h : ws < lens.length
    · simp only [h, dite_true]
      have hd : lens.drop ws = lens[ws] :: lens.drop (ws + 1) := by
        rw [List.drop_eq_getElem_cons h]
      obtain ⟨_, hwl, _, _⟩ := winLen_bounds maxB ctx ws hcfg
      have hpos : 0 < countUntil (lens.drop ws) (winLen maxB ctx ws) := by
        rw [hd]; apply countUntil_pos
        have := hfit lens[ws] (List.getElem_mem h); omega
      have hz : ¬ countUntil (lens.drop ws) (winLen maxB ctx ws) = 0 := by omega
      simp only [hz, dite_false]
      have := ih (lens.length - (ws + countUntil (lens.drop ws) (winLen maxB ctx ws))) (by omega) _ rfl
      split
      · simp
      · rename_i e he; intro h'; rw [he] at this; injection h' with h'; exact this (by rw [h'])
    · simp [h]

theorem byte_windows_fit (lens : List Nat) (maxB ctx : Nat) (hne : lens ≠ []) (hcfg : 2 * ctx < maxB)
    (hfit : ∀ l ∈ lens, l ≤ maxB - 2 * ctx) : ∃ l, byteWindows lens maxB ctx = .ok l := by
  rcases byte_windows_ok lens maxB ctx hne hcfg with h | ⟨l, h, _⟩
  · exfalso
    unfold byteWindows at h
    have h1 : lens.isEmpty = false := by cases lens <;> simp_all
    have h2 : ¬ maxB ≤ 2 * ctx := by omega
    simp only [h1, Bool.false_eq_true, if_false, h2] at h
    exact byteLoop_fits lens maxB ctx hcfg hfit _ 0 rfl h
  · exact ⟨l, h⟩

/-! ### consequences of tiling: byte ranges concatenate to the text -/

/-- byte ranges of a tiling start at `byteOf ws`, chain, and end at the total byte length -/
def ByteTiles (lens : List Nat) : Nat → List Win → Prop
  | b, [] => b = lens.sum
  | b, w :: rest => w.bWStart = b ∧ ByteTiles lens w.bWEnd rest

theorem tiles_bytes (lens : List Nat) (ws : Nat) (l : List Win) (ht : Tiles lens.length ws l)
    (hc : ∀ w ∈ l, CtxOK lens w) : ByteTiles lens (byteOf lens ws) l := by
  induction l generalizing ws with
  | nil => simp [Tiles] at ht; subst ht; simp [ByteTiles, byteOf]
  | cons w rest ih =>
    obtain ⟨h1, _, _, h4⟩ := ht
    have hw := hc w List.mem_cons_self
    refine ⟨by rw [hw.2.2.2.2.1, h1], ?_⟩
    rw [hw.2.2.2.2.2.1]
    exact ih _ h4 (fun v hv => hc v (List.mem_cons_of_mem _ hv))

/-- the full window covers the whole text -/
theorem full_window (lens : List Nat) : Tiles lens.length 0 (match lens with | [] => [] | _ => fullWindows lens) ∨ lens ≠ [] := by
  cases lens with
  | nil => left; simp [Tiles]
  | cons a l => right; simp

theorem full_window_ok (lens : List Nat) (hne : lens ≠ []) :
    Tiles lens.length 0 (fullWindows lens) ∧ ∀ w ∈ fullWindows lens, CtxOK lens w := by
  have : 0 < lens.length := by cases lens <;> simp_all
  constructor
  · simp [fullWindows, Tiles, mkWin]; omega
  · intro w hw; simp [fullWindows] at hw; subst hw; simp [CtxOK, mkWin]

/-! non-vacuity: the hypotheses are satisfiable and the theorems apply to concrete texts -/
example : ∃ l, charWindows [1, 2, 3, 4, 1] 3 1 = .ok l ∧ Tiles 5 0 l ∧
    ∀ w ∈ l, CtxOK [1, 2, 3, 4, 1] w ∧ w.ctxEnd - w.ctxStart ≤ 3 :=
  char_windows_ok [1, 2, 3, 4, 1] 3 1 (by decide) (by decide)
example : ∃ l, byteWindows [1, 2, 3, 4, 1] 9 2 = .ok l :=
  byte_windows_fit [1, 2, 3, 4, 1] 9 2 (by decide) (by decide) (by decide)

/-! ### the relational acceptance test `windowsAccept` (Model/Windows.lean) -/

theorem tilesB_iff (n ws : Nat) (l : List Win) : tilesB n ws l = true ↔ Tiles n ws l := by
  induction l generalizing ws with
  | nil => simp [tilesB, Tiles]
  | cons w rest ih =>
    simp only [tilesB, Tiles, Bool.and_eq_true, beq_iff_eq, decide_eq_true_eq, ih, and_assoc]

theorem ctxOkB_iff (lens : List Nat) (w : Win) : ctxOkB lens w = true ↔ CtxOK lens w := by
  simp only [ctxOkB, CtxOK, Bool.and_eq_true, beq_iff_eq, decide_eq_true_eq, and_assoc]

/-- `.error .tooWide` only arises when some character is wider than `maxB - 2*ctx`
(contrapositive of `byte_windows_fit`) -/
theorem byte_windows_err_wide (lens : List Nat) (maxB ctx : Nat) (hne : lens ≠ []) (hcfg : 2 * ctx < maxB)
    (e : WinErr) (he : byteWindows lens maxB ctx = .error e) : ∃ l ∈ lens, maxB - 2 * ctx < l := by
  apply Classical.byContradiction
  intro hno
  have hfit : ∀ l ∈ lens, l ≤ maxB - 2 * ctx := by
    intro l hl
    apply Classical.byContradiction
    intro hgt
    exact hno ⟨l, hl, by omega⟩
  obtain ⟨l, hl⟩ := byte_windows_fit lens maxB ctx hne hcfg hfit
  rw [hl] at he
  cases he

/-- the function model's own answer is accepted, for every non-empty text, every kind and every configuration
(so the acceptance test never refuses the modelled code) -/
theorem windowsModel_accepted (kind : Nat) (lens : List Nat) (maxLen ctx : Nat) (hne : lens ≠ []) (hk : kind ≤ 2) :
    windowsAccept kind lens maxLen ctx
      (match windowsModel kind lens maxLen ctx with | .ok ws => some ws | .error _ => none) = true := by
  have h1 : lens.isEmpty = false := by cases lens <;> simp_all
  match kind, hk with
  | 0, _ =>
    by_cases hcfg : 2 * ctx < maxLen
    · obtain ⟨l, hl, ht, hc⟩ := char_windows_ok lens maxLen ctx hne hcfg
      simp only [windowsModel, hl, windowsAccept]
      have t := (tilesB_iff _ _ _).mpr ht
      have c : l.all (ctxOkB lens) = true :=
        List.all_eq_true.mpr (fun w hw => (ctxOkB_iff _ _).mpr (hc w hw).1)
      have b : l.all (fun w => decide (w.ctxEnd - w.ctxStart ≤ maxLen)) = true :=
        List.all_eq_true.mpr (fun w hw => decide_eq_true (hc w hw).2)
      rw [t, c, b]; simp [hcfg]
    · have he := (invalid_cfg_err lens maxLen ctx hne (by omega)).1
      simp only [windowsModel, he, windowsAccept]
      have : maxLen ≤ 2 * ctx := by omega
      simp [this]
  | 1, _ =>
    by_cases hcfg : 2 * ctx < maxLen
    · rcases byte_windows_ok lens maxLen ctx hne hcfg with he | ⟨l, hl, ht, hc⟩
      · obtain ⟨x, hx, hwide⟩ := byte_windows_err_wide lens maxLen ctx hne hcfg _ he
        simp only [windowsModel, he, windowsAccept]
        have : lens.any (fun l => decide (maxLen - 2 * ctx < l)) = true :=
          List.any_eq_true.mpr ⟨x, hx, decide_eq_true hwide⟩
        simp [this]
      · simp only [windowsModel, hl, windowsAccept]
        have t := (tilesB_iff _ _ _).mpr ht
        have c : l.all (ctxOkB lens) = true :=
          List.all_eq_true.mpr (fun w hw => (ctxOkB_iff _ _).mpr (hc w hw).1)
        have b : l.all (fun w => decide (w.bCtxEnd - w.bCtxStart ≤ maxLen)) = true :=
          List.all_eq_true.mpr (fun w hw => decide_eq_true (hc w hw).2)
        rw [t, c, b]; simp [hcfg]
    · have he := (invalid_cfg_err lens maxLen ctx hne (by omega)).2
      simp only [windowsModel, he, windowsAccept]
      have : maxLen ≤ 2 * ctx := by omega
      simp [this]
  | 2, _ =>
    obtain ⟨ht, hc⟩ := full_window_ok lens hne
    simp only [windowsModel, h1, Bool.false_eq_true, if_false, windowsAccept]
    have t := (tilesB_iff _ _ _).mpr ht
    have c : (fullWindows lens).all (ctxOkB lens) = true :=
      List.all_eq_true.mpr (fun w hw => (ctxOkB_iff _ _).mpr (hc w hw))
    rw [t, c]; simp [fullWindows]

/-- what acceptance of a list of windows means: the property's clauses -/
theorem windowsAccept_ok_spec (kind : Nat) (lens : List Nat) (maxLen ctx : Nat) (ws : List Win)
    (h : windowsAccept kind lens maxLen ctx (some ws) = true) :
    Tiles lens.length 0 ws ∧ (∀ w ∈ ws, CtxOK lens w) ∧ ByteTiles lens 0 ws ∧
    (kind = 0 → ∀ w ∈ ws, w.ctxEnd - w.ctxStart ≤ maxLen) ∧
    (kind = 1 → ∀ w ∈ ws, w.bCtxEnd - w.bCtxStart ≤ maxLen) ∧
    (kind < 2 → 2 * ctx < maxLen) := by
  simp only [windowsAccept, Bool.and_eq_true, Bool.or_eq_true, decide_eq_true_eq] at h
  obtain ⟨⟨⟨hcfg, ht⟩, hc⟩, hb⟩ := h
  have ht' := (tilesB_iff _ _ _).mp ht
  have hc' : ∀ w ∈ ws, CtxOK lens w := fun w hw => (ctxOkB_iff _ _).mp (List.all_eq_true.mp hc w hw)
  have hbt : ByteTiles lens 0 ws := by
    have := tiles_bytes lens 0 ws ht' hc'
    simpa [byteOf] using this
  refine ⟨ht', hc', hbt, ?_, ?_, ?_⟩
  · intro hk; subst hk
    intro w hw
    simpa using List.all_eq_true.mp hb w hw
  · intro hk; subst hk
    intro w hw
    simpa using List.all_eq_true.mp hb w hw
  · intro hk
    rcases hcfg with h2 | h2
    · omega
    · exact h2

/-- an error is only accepted for an impossible configuration or (byte windows) a character that does not fit the
smallest window -/
theorem windowsAccept_err_spec (kind : Nat) (lens : List Nat) (maxLen ctx : Nat)
    (h : windowsAccept kind lens maxLen ctx none = true) :
    kind < 2 ∧ (maxLen ≤ 2 * ctx ∨ (kind = 1 ∧ ∃ l ∈ lens, maxLen - 2 * ctx < l)) := by
  simp only [windowsAccept, Bool.and_eq_true, Bool.or_eq_true, decide_eq_true_eq, beq_iff_eq,
    List.any_eq_true] at h
  exact h

/-! concrete observations for `lens = [1,2,1,1]`, byte windows, max 4, context 1 (byte offsets 0,1,3,4,5) -/
section Examples
/-- the model's answer: windows [0,2) (context [0,3)) and [2,4) -/
private def exModel : List Win :=
  [⟨0, 0, 2, 3, 0, 0, 3, 4⟩, ⟨2, 2, 4, 4, 3, 3, 5, 5⟩]
/-- a different valid tiling with shorter windows: [0,1) [1,2) [2,3) [3,4) -/
private def exShort : List Win :=
  [⟨0, 0, 1, 1, 0, 0, 1, 1⟩, ⟨1, 1, 2, 2, 1, 1, 3, 3⟩, ⟨1, 2, 3, 4, 1, 3, 4, 5⟩, ⟨2, 3, 4, 4, 3, 4, 5, 5⟩]

private theorem exModel_eq : windowsModel 1 [1, 2, 1, 1] 4 1 = .ok exModel := by
  simp only [windowsModel, byteWindows, List.isEmpty_cons, Bool.false_eq_true, if_false]
  rw [byteLoop]; simp [winLen, countUntil, mkWin, byteOf]
  rw [byteLoop]; simp [winLen, countUntil, mkWin, byteOf]
  rw [byteLoop]; simp [exModel]
example : windowsAccept 1 [1, 2, 1, 1] 4 1 (some exModel) = true := by decide
/-- the same, as an instance of the general theorem -/
example : windowsAccept 1 [1, 2, 1, 1] 4 1 (some exModel) = true := by
  have h := windowsModel_accepted 1 [1, 2, 1, 1] 4 1 (by decide) (by decide)
  rw [exModel_eq] at h; exact h
example : windowsAccept 1 [1, 2, 1, 1] 4 1 (some exShort) = true := by decide
/-- a gap: character 2 is in no window -/
example : windowsAccept 1 [1, 2, 1, 1] 4 1
    (some [⟨0, 0, 2, 2, 0, 0, 3, 3⟩, ⟨3, 3, 4, 4, 4, 4, 5, 5⟩]) = false := by decide
/-- an empty window -/
example : windowsAccept 1 [1, 2, 1, 1] 4 1
    (some [⟨0, 0, 2, 2, 0, 0, 3, 3⟩, ⟨2, 2, 2, 2, 3, 3, 3, 3⟩, ⟨2, 2, 4, 4, 3, 3, 5, 5⟩]) = false := by decide
/-- a context of 5 bytes exceeds the maximum of 4 -/
example : windowsAccept 1 [1, 2, 1, 1] 4 1
    (some [⟨0, 0, 2, 2, 0, 0, 3, 3⟩, ⟨0, 2, 4, 4, 0, 3, 5, 5⟩]) = false := by decide
/-- a wrong byte boundary: character 2 starts at byte 3, not 2 -/
example : windowsAccept 1 [1, 2, 1, 1] 4 1
    (some [⟨0, 0, 2, 2, 0, 0, 2, 2⟩, ⟨2, 2, 4, 4, 2, 2, 5, 5⟩]) = false := by decide
/-- every character fits into `4 - 2·1 = 2` bytes: an error is refused -/
example : windowsAccept 1 [1, 2, 1, 1] 4 1 none = false := by decide
/-- impossible configuration `2 ≤ 2·1`: an error is accepted (and windows are refused) -/
example : windowsAccept 1 [1, 2, 1, 1] 2 1 none = true := by decide
example : windowsAccept 1 [1, 2, 1, 1] 2 1 (some exShort) = false := by decide
end Examples

/-! ### no `usize` operation of `char` / `byte` overflows: the checked-arithmetic mirror refines the `Nat` model

`Model/WindowsU.lean` re-writes the configuration check, `char`, `count_until` and `byte` with checked `usize`
operations (`none` = the operation panics in a debug build).  "An impossible configuration or a character that
cannot fit yields an error, never a panic" includes that no arithmetic operation panics; the theorems below prove
it for every input that can exist: `max`, `ctx` are `usize` values, a text has at most `isize::MAX = 2^63 - 1`
bytes, hence also at most that many characters. -/

/-- the REPAIRED configuration check `max / 2 < ctx || max <= 2 * ctx` never overflows and decides exactly the
model's predicate; `ctx` may be anything (the short-circuit protects the product) -/
theorem cfgInvalidU_eq' (max ctx : Nat) (hm : max < 2 ^ 64) :
    cfgInvalidU max ctx = some (decide (max ≤ 2 * ctx)) :=
  cfgInvalidU_val max ctx hm

theorem cfgInvalidU_eq (max ctx : Nat) (hm : max < 2 ^ 64) (_hc : ctx < 2 ^ 64) :
    cfgInvalidU max ctx = some (decide (max ≤ 2 * ctx)) :=
  cfgInvalidU_val max ctx hm

/-- the check BEFORE the repair (`max <= 2 * ctx`) panics for every context length from `2^63` on: the repaired
defect -/
theorem cfgInvalidOldU_overflows : ∀ max ctx : Nat, 2 ^ 63 ≤ ctx → cfgInvalidOldU max ctx = none :=
  cfgInvalidOldU_none

/-- below `2^63` the old check was fine, so `2^63 ≤ ctx` characterises the defect exactly -/
theorem cfgInvalidOldU_ok (max ctx : Nat) (h : ctx < 2 ^ 63) :
    cfgInvalidOldU max ctx = some (decide (max ≤ 2 * ctx)) :=
  cfgInvalidOldU_val max ctx h

example : cfgInvalidOldU 5 (2 ^ 63) = none := by decide
example : cfgInvalidOldU (2 ^ 64 - 1) (2 ^ 64 - 1) = none := by decide
example : cfgInvalidU 5 (2 ^ 63) = some true := by decide
example : cfgInvalidU (2 ^ 64 - 1) (2 ^ 64 - 1) = some true := by decide
example : cfgInvalidU (2 ^ 64 - 1) (2 ^ 63 - 1) = some false := by decide
example : cfgInvalidU (2 ^ 64 - 1) 0 = some false := by decide

/-- `char`: for a text of at most `2^63` characters no operation overflows and the result is the model's.
(`ctx` needs no bound of its own: an accepted configuration has `2·ctx < max`.) -/
theorem charWindowsU_eq' (lens : List Nat) (max ctx : Nat) (hm : max < 2 ^ 64) (hn : lens.length ≤ 2 ^ 63) :
    charWindowsU lens max ctx = some (charWindows lens max ctx) := by
  unfold charWindowsU charWindows
  cases lens.isEmpty
  · simp only [Bool.false_eq_true, if_false]
    rw [cfgInvalidU_val max ctx hm]
    by_cases h : max ≤ 2 * ctx
    · simp [h]
    · simp only [h, decide_false, if_false]
      exact charLoopU_eq lens max ctx (by omega) hm (by unfold U64; omega) _ 0 rfl (fun _ => Or.inl rfl)
  · simp

/-- **`char` never panics on arithmetic**: for every text that can exist (fewer than `2^63` characters) and all
`usize` parameters the checked mirror yields a value, the `Nat` model's -/
theorem charWindowsU_eq (lens : List Nat) (max ctx : Nat) (hm : max < 2 ^ 64) (_hc : ctx < 2 ^ 64)
    (hn : lens.length < 2 ^ 63) : charWindowsU lens max ctx = some (charWindows lens max ctx) :=
  charWindowsU_eq' lens max ctx hm (by omega)

/-- `count_until`: the accumulating fold of the code equals the budget-subtracting `countUntil` of the model when
the bytes and the number of the characters it iterates over fit into `usize` -/
theorem countUntilU_eq_model (ls : List Nat) (m : Nat) (hs : ls.sum < 2 ^ 64) (hc : ls.length < 2 ^ 64) :
    countUntilU ls m = some (countUntil ls m) :=
  countUntilU_eq ls m hs hc

/-- `byte`: if the byte length and the number of characters of the text fit into `usize`, no operation
overflows and the result is the model's (characters of zero bytes allowed, `ctx` unconstrained) -/
theorem byteWindowsU_eq' (lens : List Nat) (max ctx : Nat) (hm : max < 2 ^ 64) (hs : lens.sum < 2 ^ 64)
    (hn : lens.length < 2 ^ 64) : byteWindowsU lens max ctx = some (byteWindows lens max ctx) := by
  unfold byteWindowsU byteWindows
  cases lens.isEmpty
  · simp only [Bool.false_eq_true, if_false]
    rw [cfgInvalidU_val max ctx hm]
    by_cases h : max ≤ 2 * ctx
    · simp [h]
    · simp only [h, decide_false, if_false]
      exact byteLoopU_eq lens max ctx (by omega) hm hs hn _ 0 rfl
  · simp

/-- **`byte` never panics on arithmetic**: for every text that can exist (fewer than `2^63` bytes, every character
at least one byte) and all `usize` parameters the checked mirror yields a value, the `Nat` model's -/
theorem byteWindowsU_eq (lens : List Nat) (max ctx : Nat) (hm : max < 2 ^ 64) (_hc : ctx < 2 ^ 64)
    (hb : lens.sum < 2 ^ 63) (hl : ∀ l ∈ lens, 1 ≤ l) :
    byteWindowsU lens max ctx = some (byteWindows lens max ctx) := by
  have := length_le_sum lens hl
  exact byteWindowsU_eq' lens max ctx hm (by omega) (by omega)

/-- consequently: an impossible configuration is the error VALUE for all `usize` parameters, in both functions -/
theorem invalid_cfg_errU (lens : List Nat) (max ctx : Nat) (hne : lens ≠ []) (hm : max < 2 ^ 64)
    (hcfg : max ≤ 2 * ctx) :
    charWindowsU lens max ctx = some (.error .badConfig) ∧ byteWindowsU lens max ctx = some (.error .badConfig) := by
  have h1 : lens.isEmpty = false := by cases lens <;> simp_all
  simp [charWindowsU, byteWindowsU, h1, cfgInvalidU_val max ctx hm, hcfg]

/-- the bound on the number of characters is sharp for `char`: with `2^63 + 1` characters (a text that cannot
exist), `max = 2^63`, `ctx = 0` the second window computes `window_start + window_length = 2^63 + 2^63` -/
theorem charWindowsU_length_sharp (lens : List Nat) (h : lens.length = 2 ^ 63 + 1) :
    charWindowsU lens (2 ^ 63) 0 = none := by
  have h1 : lens.isEmpty = false := by cases lens <;> simp_all
  have c : cfgInvalidU (2 ^ 63) 0 = some false := by decide
  have w0 : winLenU (2 ^ 63) 0 0 = some (2 ^ 63) := by decide
  have w1 : winLenU (2 ^ 63) 0 (2 ^ 63) = some (2 ^ 63) := by decide
  have a0 : addU 0 (2 ^ 63) = some (2 ^ 63) := by decide
  have a1 : addU (2 ^ 63) 0 = some (2 ^ 63) := by decide
  have a2 : addU (2 ^ 63) (2 ^ 63) = none := by decide
  have m : min lens.length (2 ^ 63) = 2 ^ 63 := by omega
  unfold charWindowsU
  rw [h1]; simp only [Bool.false_eq_true, if_false, c]
  rw [charLoopU, dif_pos (by omega)]
  simp only [w0, a0, a1, m]
  rw [dif_neg (by omega)]
  rw [charLoopU, dif_pos (by omega)]
  simp only [w1, a2]

example : ∃ lens : List Nat, lens.length = 2 ^ 63 + 1 := ⟨List.replicate (2 ^ 63 + 1) 1, List.length_replicate⟩

/-! non-vacuity and boundary values.  (`charLoopU` / `byteLoopU` are defined by well-founded recursion, which
`decide` does not unfold: the concrete values are computed by rewriting with the defining equations.) -/
section ExamplesU

/-- `max = usize::MAX`, no context: one window, no overflow -/
example : charWindowsU [1, 2, 3, 4, 1] (2 ^ 64 - 1) 0 = some (.ok [mkWin [1, 2, 3, 4, 1] 0 0 5 5]) := by
  simp [charWindowsU, cfgInvalidU, mulU, U64]
  rw [charLoopU]; simp [winLenU, addU, mulU, subU, U64]
  rw [charLoopU]; simp
/-- the same as an instance of the general theorem -/
example : charWindowsU [1, 2, 3, 4, 1] (2 ^ 64 - 1) 0 = some (charWindows [1, 2, 3, 4, 1] (2 ^ 64 - 1) 0) :=
  charWindowsU_eq _ _ _ (by decide) (by decide) (by decide)
/-- two windows: `[0,2)` with context `[0,3)`, then `[2,3)` with context `[1,3)` -/
example : charWindowsU [1, 2, 3] 3 1 = some (.ok [mkWin [1, 2, 3] 0 0 2 3, mkWin [1, 2, 3] 1 2 3 3]) := by
  simp [charWindowsU, cfgInvalidU, mulU, U64]
  rw [charLoopU]; simp [winLenU, addU, mulU, subU, U64]
  rw [charLoopU]; simp [winLenU, addU, mulU, subU, U64]
  rw [charLoopU]; simp
example : byteWindowsU [2] 7 2 = some (.ok [mkWin [2] 0 0 1 1]) := by
  simp [byteWindowsU, cfgInvalidU, mulU, U64]
  rw [byteLoopU]; simp [winLenU, addU, mulU, subU, U64, countUntilU, countUntilGo]
  rw [byteLoopU]; simp
example : byteWindowsU [2] 7 2 = some (byteWindows [2] 7 2) :=
  byteWindowsU_eq _ _ _ (by decide) (by decide) (by decide) (by decide)
/-- `max = usize::MAX`, the largest context that is still valid -/
example : byteWindowsU [1, 2, 3, 4, 1] (2 ^ 64 - 1) (2 ^ 63 - 1) =
    some (byteWindows [1, 2, 3, 4, 1] (2 ^ 64 - 1) (2 ^ 63 - 1)) :=
  byteWindowsU_eq _ _ _ (by decide) (by decide) (by decide) (by decide)
/-- an invalid configuration is an error value, also where the old check overflowed -/
example : charWindowsU [1, 1] 4 2 = some (.error .badConfig) := by
  simp [charWindowsU, cfgInvalidU, mulU, U64]
example : byteWindowsU [1, 1] (2 ^ 64 - 1) (2 ^ 63) = some (.error .badConfig) := by
  simp [byteWindowsU, cfgInvalidU]
/-- a character too wide for the window is an error value -/
example : byteWindowsU [1, 5, 1] 6 1 = some (.error .tooWide) := by
  simp [byteWindowsU, cfgInvalidU, mulU, U64]
  rw [byteLoopU]; simp [winLenU, addU, mulU, subU, U64, countUntilU, countUntilGo]
  rw [byteLoopU]; simp [winLenU, addU, mulU, subU, U64, countUntilU, countUntilGo]
/-- the empty text: the single empty window, whatever the configuration (as in `windows::windows`) -/
example : charWindowsU [] 0 (2 ^ 64 - 1) = some (.ok [emptyWin]) := rfl
/-- `count_until` on a concrete list -/
example : countUntilU [1, 2, 3] 4 = some 2 := by decide

/-- the bound on the byte length is needed, and `2^64` is sharp for `byte`: a (non-existent) text of `2^64` bytes
makes `acc + char_byte_len(idx)` in `count_until` overflow, where the `Nat` model has an answer.  No text of
that size can exist (allocations are limited to `isize::MAX` bytes), so this is not a defect of the code. -/
example : byteWindowsU [2 ^ 64 - 1, 1] (2 ^ 64 - 1) 0 = none := by
  simp [byteWindowsU, cfgInvalidU, mulU, U64]
  rw [byteLoopU]; simp [winLenU, addU, mulU, subU, U64, countUntilU, countUntilGo]
example : ∃ l, byteWindows [2 ^ 64 - 1, 1] (2 ^ 64 - 1) 0 = .ok l :=
  byte_windows_fit _ _ _ (by decide) (by decide) (by decide)

end ExamplesU

end Tu.C16
