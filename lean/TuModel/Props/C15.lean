import TuModel.Model.Corrupt
namespace Tu.C15
open Tu
theorem placeholder_kinds_nil (c : EditCfg) (h : c.kinds = []) (w : List Cl) (e : List Nat) :
    outcomes c w e = [(w, normExcl e)] := by simp [outcomes, h]
end Tu.C15
