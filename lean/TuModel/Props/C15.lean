/-
  C15 — `corrupt::edit_word` changes a word by at most one edit of an enabled kind, never alters a
  protected (excluded) character, and returns an exclusion set that stays inside the new word.
  Model: `Tu.outcomes` / `Tu.editWord` (Model/Corrupt.lean); lemmas in Lemmas/CorruptL.lean.

  Deviation: `editWord_mem_outcomes` is FALSE for the model as written when a context-table entry
  carries an empty list of edit strings (then the chosen kind has no outcome at all; the Rust code panics
  in `sample_edit`: `WeightedIndex::new(&[])` → `expect("invalid weights")`).  See the counterexample
  below; the theorem is proved under `TablesNonempty c` (`editWord_mem_outcomes_partial`) and in the
  unconditional form `editWord_mem_outcomes_or_unchanged`.
-/
import TuModel.Lemmas.CorruptL
namespace Tu.C15
open Tu

/-- evaluate a closed `outcomes` / `editWord` instance: `normExcl` (merge sort, well-founded recursion, stuck in
the kernel) is first rewritten to the structurally recursive `normExclS` (`normExcl_eq_normExclS`) -/
macro "corrupt_decide" : tactic =>
  `(tactic| (try unfold outcomes
             try unfold editWord
             try unfold kindOutcomes
             try unfold applyInsert
             try unfold applyDelete
             try unfold applyReplace
             try unfold applySwap
             simp only [normExcl_eq_normExclS]
             decide))

/-- the four ways a word can change by one edit -/
inductive OneEdit (c : EditCfg) (word : List Cl) : List Cl → Prop
  | ins (idx : Nat) (e : List Cl) : c.insert.isSome → idx ≤ word.length → OneEdit c word (word.take idx ++ e ++ word.drop idx)
  | del (idx : Nat) : c.delete.isSome → idx < word.length → OneEdit c word (word.take idx ++ word.drop (idx + 1))
  | rep (idx : Nat) (e : List Cl) : c.replace.isSome → idx < word.length → OneEdit c word (word.take idx ++ e ++ word.drop (idx + 1))
  | swp (idx : Nat) : c.swap = true → idx + 1 < word.length →
      OneEdit c word (word.take idx ++ word.getD (idx + 1) [] :: word.getD idx [] :: word.drop (idx + 2))

/-- every listed outcome is the unchanged word with the normalised exclusion set, or the result of one
admissible edit (edited positions not excluded) of an enabled kind -/
theorem outcomes_cases {c : EditCfg} {word : List Cl} {excl : List Nat} {r : List Cl × List Nat}
    (h : r ∈ outcomes c word excl) :
    r = (word, normExcl excl) ∨
    (∃ idx e, c.insert.isSome ∧ idx ≤ word.length ∧ idx ∉ excl ∧ (0 < idx → idx - 1 ∉ excl) ∧
      r = applyInsert word excl idx e) ∨
    (∃ idx, c.delete.isSome ∧ idx < word.length ∧ idx ∉ excl ∧ r = applyDelete word excl idx) ∨
    (∃ idx e, c.replace.isSome ∧ idx < word.length ∧ idx ∉ excl ∧ r = applyReplace word excl idx e) ∨
    (∃ idx, c.swap = true ∧ idx + 1 < word.length ∧ idx ∉ excl ∧ idx + 1 ∉ excl ∧ r = applySwap word excl idx) := by
  rcases mem_outcomes h with h | ⟨kind, hk, hr⟩
  · exact Or.inl h
  · cases kind with
    | ins =>
      rcases mem_kindOutcomes_ins hr with h | ⟨idx, e, h1, h2, h3, h4⟩
      · exact Or.inl h
      · exact Or.inr (Or.inl ⟨idx, e, mem_kinds_ins.mp hk, h1, h2, h3, h4⟩)
    | del =>
      rcases mem_kindOutcomes_del hr with h | ⟨idx, h1, h2, h3⟩
      · exact Or.inl h
      · exact Or.inr (Or.inr (Or.inl ⟨idx, mem_kinds_del.mp hk, h1, h2, h3⟩))
    | rep =>
      rcases mem_kindOutcomes_rep hr with h | ⟨idx, e, h1, h2, h3⟩
      · exact Or.inl h
      · exact Or.inr (Or.inr (Or.inr (Or.inl ⟨idx, e, mem_kinds_rep.mp hk, h1, h2, h3⟩)))
    | swp =>
      rcases mem_kindOutcomes_swp hr with h | ⟨idx, h1, h2, h3, h4⟩
      · exact Or.inl h
      · exact Or.inr (Or.inr (Or.inr (Or.inr ⟨idx, mem_kinds_swp.mp hk, h1, h2, h3, h4⟩)))

/-- **unchanged or exactly one edit of an enabled kind**, for every word, configuration, exclusion set
and every random stream -/
theorem outcomes_unchanged_or_one (c : EditCfg) (word : List Cl) (excl : List Nat) (r : List Cl × List Nat)
    (h : r ∈ outcomes c word excl) : r.1 = word ∨ OneEdit c word r.1 := by
  rcases outcomes_cases h with rfl | ⟨idx, e, hc, h1, _, _, rfl⟩ | ⟨idx, hc, h1, _, rfl⟩ |
    ⟨idx, e, hc, h1, _, rfl⟩ | ⟨idx, hc, h1, _, _, rfl⟩
  · exact Or.inl rfl
  · exact Or.inr (.ins idx e hc h1)
  · exact Or.inr (.del idx hc h1)
  · exact Or.inr (.rep idx e hc h1)
  · exact Or.inr (.swp idx hc h1)

/-! ### `editWord` against `outcomes` -/

/-- COUNTEREXAMPLE to the unconditional `editWord_mem_outcomes`: an insert table whose only entry (context
`(<bow>, <eow>)`, i.e. the empty word) has NO edit strings.  `outcomes` is empty, the model's `editWord`
falls back to the unchanged word (the Rust code panics in `sample_edit`). -/
def cexCfg : EditCfg := { insert := some [((bow, eow), [])], delete := none, replace := none, swap := false, frozen := [] }

example : outcomes cexCfg [] [] = [] := by decide
example : editWord cexCfg [] [] 0 0 = ([], []) := by corrupt_decide
example : ¬ (editWord cexCfg [] [] 0 0 ∈ outcomes cexCfg [] []) := by decide
example : ¬ TablesNonempty cexCfg := by
  intro h; exact h.1 _ rfl ((bow, eow), []) (by simp) rfl

/-- unconditional form: a listed outcome, or — only if some enabled kind has no outcome at all — the
unchanged word -/
theorem editWord_mem_outcomes_or_unchanged (c : EditCfg) (word : List Cl) (excl : List Nat) (c1 c2 : Nat) :
    editWord c word excl c1 c2 ∈ outcomes c word excl ∨
    (editWord c word excl c1 c2 = (word, normExcl excl) ∧ ∃ kind ∈ c.kinds, kindOutcomes c word excl kind = []) :=
  editWord_cases c word excl c1 c2

/-- the choice-parametric function only produces listed outcomes (tables without empty entries) -/
theorem editWord_mem_outcomes_partial (c : EditCfg) (hc : TablesNonempty c) (word : List Cl) (excl : List Nat)
    (c1 c2 : Nat) : editWord c word excl c1 c2 ∈ outcomes c word excl := by
  rcases editWord_cases c word excl c1 c2 with h | ⟨_, kind, _, hnil⟩
  · exact h
  · exact absurd hnil (kindOutcomes_ne_nil hc word excl kind)

/-- every listed outcome is produced by some draws -/
theorem outcomes_complete (c : EditCfg) (word : List Cl) (excl : List Nat) (r : List Cl × List Nat)
    (h : r ∈ outcomes c word excl) : ∃ c1 c2, editWord c word excl c1 c2 = r := by
  unfold outcomes at h
  unfold editWord
  cases hk : c.kinds with
  | nil =>
    rw [hk] at h
    simp only [List.isEmpty_nil, if_true, List.mem_singleton] at h
    exact ⟨0, 0, h.symm⟩
  | cons k ks =>
    rw [hk] at h
    simp only [List.isEmpty_cons, Bool.false_eq_true, if_false, List.mem_flatMap] at h
    obtain ⟨kind, hkind, hr⟩ := h
    obtain ⟨i, hi, rfl⟩ := List.getElem_of_mem hkind
    obtain ⟨j, hj, rfl⟩ := List.getElem_of_mem hr
    refine ⟨i, j, ?_⟩
    have hi' : i % (ks.length + 1) = i := Nat.mod_eq_of_lt (by simpa using hi)
    simp only [hi']
    have e1 : (k :: ks).getD i k = (k :: ks)[i] := by
      rw [List.getD_eq_getElem?_getD, List.getElem?_eq_getElem hi]; rfl
    rw [e1, Nat.mod_eq_of_lt hj, List.getD_eq_getElem?_getD, List.getElem?_eq_getElem hj]
    rfl

/-! ### exclusion set -/

/-- **the returned exclusion set stays inside the new word** -/
theorem outcomes_excl_bound (c : EditCfg) (word : List Cl) (excl : List Nat) (hex : ∀ i ∈ excl, i < word.length)
    (r : List Cl × List Nat) (h : r ∈ outcomes c word excl) : ∀ j ∈ r.2, j < r.1.length := by
  rcases outcomes_cases h with rfl | ⟨idx, e, _, h1, _, _, rfl⟩ | ⟨idx, _, h1, h2, rfl⟩ |
    ⟨idx, e, _, h1, h2, rfl⟩ | ⟨idx, _, h1, _, _, rfl⟩
  · intro j hj; exact hex j (mem_normExcl.mp hj)
  · exact applyInsert_bound hex h1
  · exact applyDelete_bound hex h1 h2
  · exact applyReplace_bound hex h1 h2
  · exact applySwap_bound hex h1

/-- **protected characters are never altered**: every excluded position is re-indexed to a position of the
result that holds the same character and is again excluded (holds even without the bound on `excl`) -/
theorem outcomes_protected' (c : EditCfg) (word : List Cl) (excl : List Nat)
    (r : List Cl × List Nat) (h : r ∈ outcomes c word excl) :
    ∀ i ∈ excl, ∃ j, j ∈ r.2 ∧ r.1[j]? = word[i]? := by
  rcases outcomes_cases h with rfl | ⟨idx, e, _, h1, _, _, rfl⟩ | ⟨idx, _, h1, h2, rfl⟩ |
    ⟨idx, e, _, h1, h2, rfl⟩ | ⟨idx, _, h1, h2, h3, rfl⟩
  · intro i hi; exact ⟨i, mem_normExcl.mpr hi, rfl⟩
  · exact applyInsert_protected h1
  · exact applyDelete_protected h1 h2
  · exact applyReplace_protected h1 h2
  · exact applySwap_protected h1 h2 h3

/-- **protected characters are never altered** (headline form, with the bound hypothesis as stated in the claim) -/
theorem outcomes_protected (c : EditCfg) (word : List Cl) (excl : List Nat) (_hex : ∀ i ∈ excl, i < word.length)
    (r : List Cl × List Nat) (h : r ∈ outcomes c word excl) :
    ∀ i ∈ excl, ∃ j, j ∈ r.2 ∧ r.1[j]? = word[i]? :=
  outcomes_protected' c word excl r h

/-- with the bound: the re-indexed position really holds a character (`some`), the same as before -/
theorem outcomes_protected_some (c : EditCfg) (word : List Cl) (excl : List Nat) (hex : ∀ i ∈ excl, i < word.length)
    (r : List Cl × List Nat) (h : r ∈ outcomes c word excl) :
    ∀ i (hi : i ∈ excl), ∃ j, j ∈ r.2 ∧ r.1[j]? = some (word[i]'(hex i hi)) := by
  intro i hi
  obtain ⟨j, hj, he⟩ := outcomes_protected' c word excl r h i hi
  exact ⟨j, hj, by rw [he, List.getElem?_eq_getElem (hex i hi)]⟩

/-- one step of `editWord` (no assumption on the tables) keeps the exclusion set inside the word -/
theorem editWord_excl_bound (c : EditCfg) (word : List Cl) (excl : List Nat) (hex : ∀ i ∈ excl, i < word.length)
    (c1 c2 : Nat) : ∀ j ∈ (editWord c word excl c1 c2).2, j < (editWord c word excl c1 c2).1.length := by
  rcases editWord_cases c word excl c1 c2 with h | ⟨h, _⟩
  · exact outcomes_excl_bound c word excl hex _ h
  · rw [h]; intro j hj; exact hex j (mem_normExcl.mp hj)

/-- one step of `editWord` (no assumption on the tables) never alters a protected character -/
theorem editWord_protected (c : EditCfg) (word : List Cl) (excl : List Nat) (c1 c2 : Nat) :
    ∀ i ∈ excl, ∃ j, j ∈ (editWord c word excl c1 c2).2 ∧ (editWord c word excl c1 c2).1[j]? = word[i]? := by
  rcases editWord_cases c word excl c1 c2 with h | ⟨h, _⟩
  · exact outcomes_protected' c word excl _ h
  · rw [h]; intro i hi; exact ⟨i, mem_normExcl.mpr hi, rfl⟩

/-- the invariants compose over chains of repeated edits with the returned set (as `corrupt_spelling` does) -/
theorem chain_excl_bound (c : EditCfg) : ∀ (steps : List (Nat × Nat)) (word : List Cl) (excl : List Nat),
    (∀ i ∈ excl, i < word.length) →
    let r := steps.foldl (fun (st : List Cl × List Nat) d => editWord c st.1 st.2 d.1 d.2) (word, excl)
    ∀ j ∈ r.2, j < r.1.length := by
  intro steps
  induction steps with
  | nil => intro word excl hex; exact hex
  | cons d rest ih =>
    intro word excl hex
    simp only [List.foldl_cons]
    exact ih (editWord c word excl d.1 d.2).1 (editWord c word excl d.1 d.2).2
      (editWord_excl_bound c word excl hex d.1 d.2)

/-! ### non-vacuity -/

/-- insert table keyed by `(<bow>, 'a')`, delete, replace table keyed by `(<bow>, 'a', 'b')`, swap -/
def exCfg : EditCfg :=
  { insert := some [((bow, [97]), [[[120]], [[121], [122]]])], delete := some false,
    replace := some [((bow, [97], [98]), [[], [[120], [121]]])], swap := true, frozen := [99] }

example : TablesNonempty exCfg := by
  refine ⟨?_, ?_⟩ <;> intro t ht en hen <;> cases ht <;> simp at hen <;> subst hen <;> simp

example : outcomes { exCfg with delete := none, replace := none, swap := false } [[97], [98]] [] =
    [([[120], [97], [98]], [0]), ([[121], [122], [97], [98]], [0, 1])] := by corrupt_decide
example : outcomes { exCfg with delete := none, replace := none, swap := false } [[97], [98]] [0] =
    [([[97], [98]], [0])] := by corrupt_decide
example : outcomes { exCfg with insert := none, replace := none, swap := false } [[97], [98], [99]] [1] =
    [([[98], [99]], [0])] := by corrupt_decide
example : outcomes { exCfg with insert := none, delete := none, swap := false } [[97], [98], [100]] [2] =
    [([[98], [100]], [1]), ([[120], [121], [98], [100]], [0, 1, 3])] := by corrupt_decide
example : outcomes { exCfg with insert := none, delete := none, replace := none } [[97], [98], [100]] [2] =
    [([[98], [97], [100]], [0, 1, 2])] := by corrupt_decide
example : (outcomes exCfg [[97], [98], [100]] [2]).length = 7 := by corrupt_decide
example : editWord exCfg [[97], [98], [100]] [2] 3 0 = ([[98], [97], [100]], [0, 1, 2]) := by corrupt_decide
example : OneEdit exCfg [[97], [98], [100]] [[98], [97], [100]] := OneEdit.swp 0 rfl (by decide)

end Tu.C15
