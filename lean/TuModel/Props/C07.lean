import TuModel.Model.MultiGen
namespace Tu.C07
open Tu
theorem placeholder_total_nil : totalItems [] = 0 := rfl
end Tu.C07
