/-
  C07 — `MultiTrainDataGenerator` yields every item of every source exactly once, in per-source
  order, correctly tagged, and terminates; the sequential strategy visits the sources one after
  another and the interleaved strategy is round robin over the sources that still have items.
  Model: `Tu.mgRun` (Model/MultiGen.lean); lemmas in Lemmas/MultiGenL*.lean.
-/
import TuModel.Lemmas.MultiGenL
import TuModel.Lemmas.MultiGenSeq
import TuModel.Lemmas.MultiGenRR
import TuModel.Model.Lines
import TuModel.Lemmas.LinesL
namespace Tu.C07
open Tu Tu.MultiGenL

/-- consume an output sequence against the sources: every yielded pair `(x, k)` must be the next
item of source `k`; returns what is left of the sources -/
def consume : List (List Nat) → List (Nat × Nat) → Option (List (List Nat))
  | srcs, [] => some srcs
  | srcs, (x, k) :: out => match srcs.getD k [] with
    | y :: rest => if x = y then consume (srcs.set k rest) out else none
    | [] => none

theorem consume_nil (srcs : List (List Nat)) : consume srcs [] = some srcs := by rw [consume]

theorem consume_cons_of (srcs : List (List Nat)) (x k : Nat) (rest : List Nat) (out : List (Nat × Nat))
    (h : srcs.getD k [] = x :: rest) :
    consume srcs ((x, k) :: out) = consume (srcs.set k rest) out := by
  rw [consume, h]; simp

/-- inversion of a successful `consume` step -/
theorem consume_cons_inv (srcs : List (List Nat)) (x k : Nat) (out : List (Nat × Nat))
    (left : List (List Nat)) (h : consume srcs ((x, k) :: out) = some left) :
    ∃ rest, srcs.getD k [] = x :: rest ∧ consume (srcs.set k rest) out = some left := by
  rw [consume] at h
  cases hs : srcs.getD k [] with
  | nil => rw [hs] at h; cases h
  | cons y rest =>
    rw [hs] at h
    by_cases hxy : x = y
    · subst hxy
      simp only [if_true] at h
      exact ⟨rest, rfl, h⟩
    · simp only [hxy, if_false] at h; cases h

/-- the simulation hypotheses for "the output is a merge of the sources that exhausts them" -/
theorem sim_merge (s : Strategy) :
    Sim s (Inv s) (fun g out => ∃ left, consume g.srcs out = some left ∧ ∀ l ∈ left, l = []) where
  len := fun g h => h.1.1
  cur := fun g h => h.1.2.1
  yld := by
    intro g x rest c hI hsrc
    refine ⟨Inv_yield s g x rest c hI hsrc, ?_⟩
    intro out ⟨left, h1, h2⟩
    exact ⟨left, by rw [consume_cons_of _ _ _ _ _ hsrc]; exact h1, h2⟩
  mrk := by
    intro g c hI hsrc hall
    exact ⟨Inv_mark s g c hI hsrc hall, fun out h => h⟩
  stop := by
    intro g hI hsrc hall
    refine ⟨g.srcs, consume_nil _, ?_⟩
    rw [all_empty_iff_getD]
    intro i
    by_cases hi : g.idx = i
    · subst hi; exact hsrc
    · apply hI.1.2.2
      rw [← marked_getD_ne g i hi]
      exact (all_id_iff _).mp hall i

/-- **every item exactly once, in per-source order, correctly tagged, and the iteration terminates**:
for every strategy, every choice stream (random draws) and every non-empty list of sources the
output is a merge of the sources that exhausts all of them -/
theorem mgRun_merge (s : Strategy) (srcs : List (List Nat)) (cs : List Nat) (hne : srcs ≠ []) :
    ∃ left, consume srcs (mgRun s srcs cs) = some left ∧ ∀ l ∈ left, l = [] :=
  mgDrain_sim (sim_merge s) (totalItems srcs + 1) (MG.init srcs) cs (Inv_init s srcs hne)
    (Nat.lt_succ_self _)

/-- what `consume` means: the items tagged `k`, in output order, followed by what is left of source `k`, are source `k` -/
theorem consume_projection (srcs : List (List Nat)) (out : List (Nat × Nat)) (left : List (List Nat))
    (h : consume srcs out = some left) (k : Nat) :
    ((out.filter (fun p => p.2 == k)).map (·.1)) ++ left.getD k [] = srcs.getD k [] := by
  induction out generalizing srcs with
  | nil =>
    rw [consume_nil] at h
    cases h
    simp
  | cons p out ih =>
    obtain ⟨x, k'⟩ := p
    obtain ⟨rest, hs, hc⟩ := consume_cons_inv srcs x k' out left h
    have := ih _ hc
    by_cases hk : k' = k
    · subst hk
      have hlt : k' < srcs.length := lt_length_of_getD_ne srcs k' [] (by rw [hs]; simp)
      rw [getD_set_self _ _ _ _ hlt] at this
      simp only [List.filter_cons, beq_self_eq_true, if_true, List.map_cons, List.cons_append]
      rw [this, hs]
    · rw [getD_set_ne _ _ _ _ _ hk] at this
      have hb : (k' == k) = false := by simpa using hk
      simp only [List.filter_cons, hb]
      exact this

/-- corollary: per-source order and completeness -/
theorem mgRun_per_source (s : Strategy) (srcs : List (List Nat)) (cs : List Nat) (hne : srcs ≠ []) (k : Nat) :
    ((mgRun s srcs cs).filter (fun p => p.2 == k)).map (·.1) = srcs.getD k [] := by
  obtain ⟨left, h1, h2⟩ := mgRun_merge s srcs cs hne
  have := consume_projection srcs _ left h1 k
  rw [(all_empty_iff_getD left).mp h2 k, List.append_nil] at this
  exact this

/-- `consume` preserves the number of items -/
theorem consume_total (srcs : List (List Nat)) (out : List (Nat × Nat)) (left : List (List Nat))
    (h : consume srcs out = some left) : out.length + totalItems left = totalItems srcs := by
  induction out generalizing srcs with
  | nil =>
    rw [consume_nil] at h
    cases h
    simp
  | cons p out ih =>
    obtain ⟨x, k'⟩ := p
    obtain ⟨rest, hs, hc⟩ := consume_cons_inv srcs x k' out left h
    have h1 := ih _ hc
    have h2 := totalItems_set srcs k' x rest hs
    simp only [List.length_cons]
    omega

theorem mgRun_length (s : Strategy) (srcs : List (List Nat)) (cs : List Nat) (hne : srcs ≠ []) :
    (mgRun s srcs cs).length = totalItems srcs := by
  obtain ⟨left, h1, h2⟩ := mgRun_merge s srcs cs hne
  have := consume_total srcs _ left h1
  rw [totalItems_eq_zero left h2] at this
  omega

/-- sequential visits the sources one after another -/
theorem sequential_order (srcs : List (List Nat)) (cs : List Nat) (hne : srcs ≠ []) :
    mgRun .sequential srcs cs = seqSpec srcs :=
  mgRun_sequential srcs cs hne

/-- interleaved is round robin over the sources that still have items -/
theorem interleaved_round_robin (srcs : List (List Nat)) (cs : List Nat) (hne : srcs ≠ []) :
    mgRun .interleaved srcs cs = rrSpec (totalItems srcs + 1) srcs :=
  mgRun_interleaved srcs cs hne

/-! ### non-vacuity -/

example : mgRun .interleaved [[0,1],[0],[0,1,2]] [] = [(0,0),(0,1),(0,2),(1,0),(1,2),(2,2)] := by decide
example : mgRun .sequential [[0,1],[],[0,1,2]] [] = [(0,0),(1,0),(0,2),(1,2),(2,2)] := by decide
example : mgRun .weighted [[0,1],[0],[0,1,2]] [2,0,1,1] = [(0,0),(0,2),(1,0),(0,1),(1,2),(2,2)] := by decide
example : consume [[0,1],[0],[0,1,2]] [(0,0),(0,2),(1,0),(1,2),(2,2),(0,1)] = some [[],[],[]] := by decide
example : consume [[0,1],[0]] [(0,0),(0,0)] = none := by decide
example : consume [[0,1],[0]] [(0,1),(1,0)] = none := by decide
example : rrSpec 7 [[0,1],[0],[0,1,2]] = [(0,0),(0,1),(0,2),(1,0),(1,2),(2,2)] := by decide

/-! ### the line reader of the sources (`LossyUtf8Lines`, `count_lines`): Model/Lines.lean

The declared length of a source is `count_lines` of its file, and its items are the lines the same
reader yields.  A file is a byte list; `ls.flatMap (· ++ [10])` is the file whose lines are `ls`,
every one of them ended by a line feed. -/

open Tu.LinesL in
/-- the chunks are a partition of the file -/
theorem splitLF_flatten (b : List Nat) : (splitLF b).flatten = b := by
  unfold splitLF
  rw [splitLFGo_flatten]
  simp

open Tu.LinesL in
/-- `read_until` never delivers an empty chunk (it returns 0 only at the end of the input) -/
theorem splitLF_ne_nil (b : List Nat) : ∀ c ∈ splitLF b, c ≠ [] :=
  splitLFGo_ne_nil b []

open Tu.LinesL in
theorem splitLF_terminated (ls : List (List Nat)) (h : ∀ l ∈ ls, 10 ∉ l) :
    splitLF (ls.flatMap (· ++ [10])) = ls.map (· ++ [10]) := by
  have := splitLF_lines ls h []
  rw [splitLF_nil, List.append_nil, List.append_nil] at this
  exact this

open Tu.LinesL in
theorem splitLF_unterminated (ls : List (List Nat)) (last : List Nat) (h : ∀ l ∈ ls, 10 ∉ l)
    (hl : 10 ∉ last) (hne : last ≠ []) :
    splitLF (ls.flatMap (· ++ [10]) ++ last) = ls.map (· ++ [10]) ++ [last] := by
  rw [splitLF_lines ls h last, splitLF_tail last hl hne]

open Tu.LinesL in
/-- a file whose every line ends with a line feed yields exactly its lines, one trailing carriage
return removed -/
theorem lossyLines_terminated (ls : List (List Nat)) (h : ∀ l ∈ ls, 10 ∉ l) :
    lossyLines (ls.flatMap (· ++ [10])) = ls.map stripCR := by
  unfold lossyLines
  rw [splitLF_terminated ls h, List.map_map]
  apply List.map_congr_left
  intro l _
  exact lossyLine_line l

open Tu.LinesL in
/-- the quirk, stated outright: the unterminated last line loses its last byte (`buf.pop()` is
unconditional) -/
theorem lossyLines_unterminated (ls : List (List Nat)) (last : List Nat) (h : ∀ l ∈ ls, 10 ∉ l)
    (hl : 10 ∉ last) (hne : last ≠ []) :
    lossyLines (ls.flatMap (· ++ [10]) ++ last) = ls.map stripCR ++ [stripCR last.dropLast] := by
  unfold lossyLines
  rw [splitLF_unterminated ls last h hl hne, List.map_append, List.map_map]
  congr 1
  apply List.map_congr_left
  intro l _
  exact lossyLine_line l

theorem countLines_terminated (ls : List (List Nat)) (h : ∀ l ∈ ls, 10 ∉ l) :
    countLines (ls.flatMap (· ++ [10])) = ls.length := by
  unfold countLines
  rw [splitLF_terminated ls h, List.length_map]

theorem countLines_unterminated (ls : List (List Nat)) (last : List Nat) (h : ∀ l ∈ ls, 10 ∉ l)
    (hl : 10 ∉ last) (hne : last ≠ []) :
    countLines (ls.flatMap (· ++ [10]) ++ last) = ls.length + 1 := by
  unfold countLines
  rw [splitLF_unterminated ls last h hl hne]
  simp

/-- the declared length of a source is the number of items its reader yields -/
theorem countLines_eq_length_lossyLines (b : List Nat) : countLines b = (lossyLines b).length := by
  unfold countLines lossyLines
  rw [List.length_map]

/-- every byte list has exactly one of the two shapes (`last = []`: terminated or empty), so the
theorems above cover all inputs -/
theorem splitLF_cases (b : List Nat) :
    ∃ (ls : List (List Nat)) (last : List Nat),
      (∀ l ∈ ls, 10 ∉ l) ∧ 10 ∉ last ∧ b = ls.flatMap (· ++ [10]) ++ last := by
  induction b with
  | nil => exact ⟨[], [], by simp, by simp, by simp⟩
  | cons c b ih =>
    obtain ⟨ls, last, h1, h2, h3⟩ := ih
    by_cases hc : c = 10
    · subst hc
      refine ⟨[] :: ls, last, ?_, h2, ?_⟩
      · intro l hl
        rcases List.mem_cons.mp hl with e | e
        · subst e; simp
        · exact h1 l e
      · rw [h3]; simp
    · cases ls with
      | nil =>
        refine ⟨[], c :: last, by simp, ?_, ?_⟩
        · intro hm
          rcases List.mem_cons.mp hm with e | e
          · exact hc e.symm
          · exact h2 e
        · rw [h3]; simp
      | cons l ls =>
        refine ⟨(c :: l) :: ls, last, ?_, h2, ?_⟩
        · intro x hx
          rcases List.mem_cons.mp hx with e | e
          · subst e
            intro hm
            rcases List.mem_cons.mp hm with e' | e'
            · exact hc e'.symm
            · exact h1 l (by simp) e'
          · exact h1 x (List.mem_cons_of_mem _ e)
        · rw [h3]; simp

/-! ### non-vacuity -/

-- "a\nb\r\n"
example : lossyLines [97, 10, 98, 13, 10] = [[97], [98]] := by decide
example : countLines [97, 10, 98, 13, 10] = 2 := by decide
example : splitLF [97, 10, 98, 13, 10] = [[97, 10], [98, 13, 10]] := by decide
-- "a\nb": the quirk, the last line loses its only byte
example : lossyLines [97, 10, 98] = [[97], []] := by decide
example : countLines [97, 10, 98] = 2 := by decide
-- "", "\n", "\r\n", "x\r"
example : lossyLines [] = [] ∧ countLines [] = 0 := by decide
example : lossyLines [10] = [[]] ∧ countLines [10] = 1 := by decide
example : lossyLines [13, 10] = [[]] ∧ countLines [13, 10] = 1 := by decide
example : lossyLines [120, 13] = [[120]] ∧ countLines [120, 13] = 1 := by decide
-- only one carriage return is removed
example : lossyLines [120, 13, 13, 10] = [[120, 13]] := by decide

end Tu.C07
