import TuModel.Model.BpeTrain
namespace Tu.C19
open Tu
theorem placeholder_replay_nil (c : Corpus) : greedyReplay c [] = [c] := by simp [greedyReplay]
end Tu.C19
