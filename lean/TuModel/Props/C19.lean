/-
  C19 — the merge table written by `train_bpe` is what greedy training produces and is well-formed.
  Model: `Tu.greedyTable` (Model/BpeTrain.lean), replayed on the table the code wrote.  Every entry
  is the concatenation of an adjacent pair of positive, maximal frequency in the corpus as
  segmented by the earlier merges; ids are `0..m-1`, `m ≤ n`; training stops early only when no
  pair occurs any more; the table satisfies `wfTable`, the hypothesis of the C02–C04 theorems.
-/
import TuModel.Model.BpeTrain
import TuModel.Lemmas.BpeTrainL
namespace Tu.C19
open Tu

/-- merging a pair only regroups the bytes of a word -/
theorem replacePairInWord_flatten (w : List (List Nat)) (x y : List Nat) :
    (replacePairInWord w x y).flatten = w.flatten := by
  unfold replacePairInWord
  rw [BpeTrainL.replacePairAux_flatten]
  simp

/-- every replayed entry is the concatenation of an adjacent token pair that occurs, with positive
and maximal frequency, in the corpus as segmented by the earlier merges -/
theorem greedyReplay_head (c : Corpus) (e : List Nat) (es : List (List Nat)) (c' : Corpus)
    (h : c' ∈ greedyReplay c (e :: es)) :
    ∃ p, p ∈ allPairs c ∧ p.1 ++ p.2 = e ∧ 0 < pairFreq c p ∧ (∀ q ∈ allPairs c, pairFreq c q ≤ pairFreq c p) ∧
      c' ∈ greedyReplay (applyMerge c p) es :=
  BpeTrainL.greedyReplay_head c e es c' h

/-- a pair listed in `allPairs` really is adjacent in some word, and pairs that are not adjacent
anywhere have frequency 0: the table never contains an entry for a pair that does not occur -/
theorem pairFreq_pos_mem (c : Corpus) (p : List Nat × List Nat) (h : 0 < pairFreq c p) : p ∈ allPairs c :=
  BpeTrainL.pairFreq_pos_mem c p h

theorem mem_allPairs (c : Corpus) (p : List Nat × List Nat) :
    p ∈ allPairs c ↔ ∃ w n, (w, n) ∈ c ∧ p ∈ wordPairs w :=
  BpeTrainL.mem_allPairs c p

/-- what `greedyTable` checks, as propositions -/
theorem greedyTable_unfold (words : List (List Nat × Nat)) (n : Nat) (t : MTable)
    (h : greedyTable words n t = true) :
    ∃ es, entriesInOrder t = some es ∧ t.length ≤ n ∧ es.Nodup ∧
      ∃ c, c ∈ greedyReplay (initCorpus words) es ∧ (es.length = n ∨ maxPairFreq c = 0) := by
  unfold greedyTable at h
  cases he : entriesInOrder t with
  | none => rw [he] at h; simp at h
  | some es =>
    rw [he] at h
    simp only [Bool.and_eq_true, decide_eq_true_eq, List.any_eq_true, Bool.or_eq_true, beq_iff_eq] at h
    obtain ⟨⟨h1, h2⟩, c, hc, h3⟩ := h
    exact ⟨es, rfl, h1, h2, c, hc, h3⟩

/-- ids are exactly 0..m-1 and at most the requested number of merges -/
theorem greedyTable_ids (words : List (List Nat × Nat)) (n : Nat) (t : MTable) (h : greedyTable words n t = true) :
    t.length ≤ n ∧ ∀ k, k < t.length → (tbytes t k).isSome = true := by
  obtain ⟨es, he, hn, _, _⟩ := greedyTable_unfold words n t h
  refine ⟨hn, ?_⟩
  intro k hk
  obtain ⟨hlen, hb⟩ := BpeTrainL.entriesInOrder_spec t es he
  rw [hb k hk, List.getElem?_eq_getElem (by omega)]
  rfl

/-- each id `k < m` is the id of exactly one entry, and no other ids occur -/
theorem greedyTable_ids_exact (words : List (List Nat × Nat)) (n : Nat) (t : MTable) (h : greedyTable words n t = true) :
    (∀ k, k < t.length → (t.filter (fun e => e.2 == k)).length = 1) ∧ ∀ e ∈ t, e.2 < t.length := by
  obtain ⟨es, he, _⟩ := greedyTable_unfold words n t h
  exact ⟨BpeTrainL.table_ids_once t es he, BpeTrainL.table_id_lt t es he⟩

/-- training stops early only when the corpus is exhausted -/
theorem greedyTable_stops (words : List (List Nat × Nat)) (n : Nat) (t : MTable) (h : greedyTable words n t = true) :
    t.length = n ∨ ∃ es c, entriesInOrder t = some es ∧ c ∈ greedyReplay (initCorpus words) es ∧ maxPairFreq c = 0 := by
  obtain ⟨es, he, _, _, c, hc, h3⟩ := greedyTable_unfold words n t h
  obtain ⟨hlen, _⟩ := BpeTrainL.entriesInOrder_spec t es he
  rcases h3 with h3 | h3
  · left; omega
  · right; exact ⟨es, c, he, hc, h3⟩

/-- every entry of a trained table, spelled out: entry `k` is `l ++ r` for two tokens that are single
bytes or entries with smaller ids -/
theorem greedyTable_entry (words : List (List Nat × Nat)) (n : Nat) (t : MTable)
    (hb : ∀ w ∈ words, ∀ b ∈ w.1, b < 256) (h : greedyTable words n t = true) :
    ∀ e ∈ t, (∀ b ∈ e.1, b < 256) ∧ ∃ l r, l ++ r = e.1 ∧ l ≠ [] ∧ r ≠ [] ∧
      isTokenBefore t e.2 l = true ∧ isTokenBefore t e.2 r = true := by
  obtain ⟨es, he, _, hnd, c, hc, _⟩ := greedyTable_unfold words n t h
  obtain ⟨hlen, _⟩ := BpeTrainL.entriesInOrder_spec t es he
  intro e hem
  have hlt := BpeTrainL.table_id_lt t es he e hem
  have hent := BpeTrainL.table_entry t es he e hem
  obtain ⟨hk1, hk2⟩ := List.getElem?_eq_some_iff.mp hent
  obtain ⟨l, r, hlr, gl, gr, al, ar⟩ :=
    BpeTrainL.replay_inv es (initCorpus words) [] c (BpeTrainL.initCorpus_inv words hb) hc e.2 hk1
  rw [hk2] at hlr
  have key : ∀ tok, BpeTrainL.Good ([] ++ es.take e.2) tok → BpeTrainL.AllB tok → isTokenBefore t e.2 tok = true := by
    intro tok g a
    rcases g with ⟨b, hb256, rfl⟩ | g
    · simp [isTokenBefore, hb256]
    · rw [List.nil_append] at g
      obtain ⟨j, hj⟩ := List.getElem?_of_mem g
      have hjlt : j < e.2 := by
        have := (List.getElem?_eq_some_iff.mp hj).1
        rw [List.length_take] at this
        omega
      rw [List.getElem?_take_of_lt hjlt] at hj
      have hlook := BpeTrainL.table_tlookup t es he hnd j tok hj
      unfold isTokenBefore
      split
      · rename_i x
        exact decide_eq_true (a.2 x (by simp))
      · rw [hlook]; exact decide_eq_true hjlt
  refine ⟨?_, l, r, hlr, al.1, ar.1, key l gl al, key r gr ar⟩
  rw [← hlr]
  exact (al.append ar).2

/-- **the written table is well-formed** (so a tokenizer built from it satisfies the C02–C04 theorems) -/
theorem train_WF (words : List (List Nat × Nat)) (n : Nat) (t : MTable) (hb : ∀ w ∈ words, ∀ b ∈ w.1, b < 256)
    (h : greedyTable words n t = true) : wfTable t = true := by
  obtain ⟨es, he, _, hnd, c, hc, _⟩ := greedyTable_unfold words n t h
  obtain ⟨hlen, _⟩ := BpeTrainL.entriesInOrder_spec t es he
  have honce := BpeTrainL.table_ids_once t es he
  unfold wfTable
  rw [Bool.and_eq_true, Bool.and_eq_true]
  refine ⟨⟨?_, ?_⟩, ?_⟩
  · -- (1) ids
    rw [List.all_eq_true]
    intro k hk
    rw [List.mem_range] at hk
    rw [honce k hk]; rfl
  · -- (2) keys distinct
    rw [List.all_eq_true]
    intro e hem
    have hlt := BpeTrainL.table_id_lt t es he e hem
    have hent := BpeTrainL.table_entry t es he e hem
    have : t.filter (fun e' => e'.1 == e.1) = t.filter (fun e' => e'.2 == e.2) := by
      apply List.filter_congr
      intro e' hem'
      have hent' := BpeTrainL.table_entry t es he e' hem'
      by_cases hk : e'.2 = e.2
      · have : e' = e := BpeTrainL.table_ids_unique t es he e' hem' e hem hk
        simp [this]
      · have h1 : (e'.2 == e.2) = false := by simpa using hk
        rw [h1]
        by_cases hb' : e'.1 = e.1
        · rw [hb'] at hent'
          exact absurd (BpeTrainL.nodup_getElem?_inj hnd hent' hent) hk
        · simpa using hb'
    rw [this, honce e.2 hlt]; rfl
  · -- (3) entries are concatenations of earlier tokens
    rw [List.all_eq_true]
    intro e hem
    obtain ⟨hbytes, l, r, hlr, hl, hr, tl, tr⟩ := greedyTable_entry words n t hb h e hem
    rw [Bool.and_eq_true]
    constructor
    · rw [List.all_eq_true]
      intro b hbm
      exact decide_eq_true (hbytes b hbm)
    · rw [List.any_eq_true]
      refine ⟨(l, r), ?_, ?_⟩
      · rw [← hlr]; exact BpeTrainL.mem_splitsOf l r hl hr
      · simp only [tl, tr, Bool.and_self]

/-! ### non-vacuity -/

example : greedyTable [([97,98],2),([32,97,98],1)] 4 [([97,98],0),([32,97,98],1)] = true := by decide
example : greedyTable [([97,98],2),([32,97,98],1)] 1 [([97,98],0)] = true := by decide
/-- the second merge must be the (only) remaining pair -/
example : greedyTable [([97,98],2),([32,97,98],1)] 4 [([97,98],0),([32,97],1)] = false := by decide
/-- stopping early while a pair still occurs is rejected -/
example : greedyTable [([97,98],2),([32,97,98],1)] 4 [([97,98],0)] = false := by decide
example : wfTable [([97,98],0),([32,97,98],1)] = true := by decide
example : replacePairInWord [[97],[98],[97],[98],[99]] [97] [98] = [[97,98],[97,98],[99]] := by decide
example : [[97,98],[32,97,98]] ∈ (greedyReplay (initCorpus [([97,98],2),([32,97,98],1)]) [[97,98],[32,97,98]]).map (fun c => c.map (·.1.flatten)) := by decide
/-- the hypotheses of `train_WF` are satisfiable -/
example : wfTable [([97,98],0),([32,97,98],1)] = true :=
  train_WF [([97,98],2),([32,97,98],1)] 4 _ (by decide) (by decide)

end Tu.C19
