/-
  C19 — the merge table written by `train_bpe` is what greedy training produces and is well-formed.
  Model: `Tu.greedyTable` (Model/BpeTrain.lean), replayed on the table the code wrote.  Every entry
  is the concatenation of an adjacent pair of positive, maximal frequency in the corpus as
  segmented by the earlier merges; ids are `0..m-1`, `m ≤ n`; training stops early only when no
  pair occurs any more; the table satisfies `wfTable`, the hypothesis of the C02–C04 theorems.
-/
import TuModel.Model.BpeTrain
import TuModel.Lemmas.BpeTrainL
import TuModel.Model.BpeTrainInc
import TuModel.Lemmas.BpeTrainIncL9
namespace Tu.C19
open Tu

/-- merging a pair only regroups the bytes of a word -/
theorem replacePairInWord_flatten (w : List (List Nat)) (x y : List Nat) :
    (replacePairInWord w x y).flatten = w.flatten := by
  unfold replacePairInWord
  rw [BpeTrainL.replacePairAux_flatten]
  simp

/-- every replayed entry is the concatenation of an adjacent token pair that occurs, with positive
and maximal frequency, in the corpus as segmented by the earlier merges -/
theorem greedyReplay_head (c : Corpus) (e : List Nat) (es : List (List Nat)) (c' : Corpus)
    (h : c' ∈ greedyReplay c (e :: es)) :
    ∃ p, p ∈ allPairs c ∧ p.1 ++ p.2 = e ∧ 0 < pairFreq c p ∧ (∀ q ∈ allPairs c, pairFreq c q ≤ pairFreq c p) ∧
      c' ∈ greedyReplay (applyMerge c p) es :=
  BpeTrainL.greedyReplay_head c e es c' h

/-- a pair listed in `allPairs` really is adjacent in some word, and pairs that are not adjacent
anywhere have frequency 0: the table never contains an entry for a pair that does not occur -/
theorem pairFreq_pos_mem (c : Corpus) (p : List Nat × List Nat) (h : 0 < pairFreq c p) : p ∈ allPairs c :=
  BpeTrainL.pairFreq_pos_mem c p h

theorem mem_allPairs (c : Corpus) (p : List Nat × List Nat) :
    p ∈ allPairs c ↔ ∃ w n, (w, n) ∈ c ∧ p ∈ wordPairs w :=
  BpeTrainL.mem_allPairs c p

/-- what `greedyTable` checks, as propositions -/
theorem greedyTable_unfold (words : List (List Nat × Nat)) (n : Nat) (t : MTable)
    (h : greedyTable words n t = true) :
    ∃ es, entriesInOrder t = some es ∧ t.length ≤ n ∧ es.Nodup ∧
      ∃ c, c ∈ greedyReplay (initCorpus words) es ∧ (es.length = n ∨ maxPairFreq c = 0) := by
  unfold greedyTable at h
  cases he : entriesInOrder t with
  | none => rw [he] at h; simp at h
  | some es =>
    rw [he] at h
    simp only [Bool.and_eq_true, decide_eq_true_eq, List.any_eq_true, Bool.or_eq_true, beq_iff_eq] at h
    obtain ⟨⟨h1, h2⟩, c, hc, h3⟩ := h
    exact ⟨es, rfl, h1, h2, c, hc, h3⟩

/-- ids are exactly 0..m-1 and at most the requested number of merges -/
theorem greedyTable_ids (words : List (List Nat × Nat)) (n : Nat) (t : MTable) (h : greedyTable words n t = true) :
    t.length ≤ n ∧ ∀ k, k < t.length → (tbytes t k).isSome = true := by
  obtain ⟨es, he, hn, _, _⟩ := greedyTable_unfold words n t h
  refine ⟨hn, ?_⟩
  intro k hk
  obtain ⟨hlen, hb⟩ := BpeTrainL.entriesInOrder_spec t es he
  rw [hb k hk, List.getElem?_eq_getElem (by omega)]
  rfl

/-- each id `k < m` is the id of exactly one entry, and no other ids occur -/
theorem greedyTable_ids_exact (words : List (List Nat × Nat)) (n : Nat) (t : MTable) (h : greedyTable words n t = true) :
    (∀ k, k < t.length → (t.filter (fun e => e.2 == k)).length = 1) ∧ ∀ e ∈ t, e.2 < t.length := by
  obtain ⟨es, he, _⟩ := greedyTable_unfold words n t h
  exact ⟨BpeTrainL.table_ids_once t es he, BpeTrainL.table_id_lt t es he⟩

/-- training stops early only when the corpus is exhausted -/
theorem greedyTable_stops (words : List (List Nat × Nat)) (n : Nat) (t : MTable) (h : greedyTable words n t = true) :
    t.length = n ∨ ∃ es c, entriesInOrder t = some es ∧ c ∈ greedyReplay (initCorpus words) es ∧ maxPairFreq c = 0 := by
  obtain ⟨es, he, _, _, c, hc, h3⟩ := greedyTable_unfold words n t h
  obtain ⟨hlen, _⟩ := BpeTrainL.entriesInOrder_spec t es he
  rcases h3 with h3 | h3
  · left; omega
  · right; exact ⟨es, c, he, hc, h3⟩

/-- every entry of a trained table, spelled out: entry `k` is `l ++ r` for two tokens that are single
bytes or entries with smaller ids -/
theorem greedyTable_entry (words : List (List Nat × Nat)) (n : Nat) (t : MTable)
    (hb : ∀ w ∈ words, ∀ b ∈ w.1, b < 256) (h : greedyTable words n t = true) :
    ∀ e ∈ t, (∀ b ∈ e.1, b < 256) ∧ ∃ l r, l ++ r = e.1 ∧ l ≠ [] ∧ r ≠ [] ∧
      isTokenBefore t e.2 l = true ∧ isTokenBefore t e.2 r = true := by
  obtain ⟨es, he, _, hnd, c, hc, _⟩ := greedyTable_unfold words n t h
  obtain ⟨hlen, _⟩ := BpeTrainL.entriesInOrder_spec t es he
  intro e hem
  have hlt := BpeTrainL.table_id_lt t es he e hem
  have hent := BpeTrainL.table_entry t es he e hem
  obtain ⟨hk1, hk2⟩ := List.getElem?_eq_some_iff.mp hent
  obtain ⟨l, r, hlr, gl, gr, al, ar⟩ :=
    BpeTrainL.replay_inv es (initCorpus words) [] c (BpeTrainL.initCorpus_inv words hb) hc e.2 hk1
  rw [hk2] at hlr
  have key : ∀ tok, BpeTrainL.Good ([] ++ es.take e.2) tok → BpeTrainL.AllB tok → isTokenBefore t e.2 tok = true := by
    intro tok g a
    rcases g with ⟨b, hb256, rfl⟩ | g
    · simp [isTokenBefore, hb256]
    · rw [List.nil_append] at g
      obtain ⟨j, hj⟩ := List.getElem?_of_mem g
      have hjlt : j < e.2 := by
        have := (List.getElem?_eq_some_iff.mp hj).1
        rw [List.length_take] at this
        omega
      rw [List.getElem?_take_of_lt hjlt] at hj
      have hlook := BpeTrainL.table_tlookup t es he hnd j tok hj
      unfold isTokenBefore
      split
      · rename_i x
        exact decide_eq_true (a.2 x (by simp))
      · rw [hlook]; exact decide_eq_true hjlt
  refine ⟨?_, l, r, hlr, al.1, ar.1, key l gl al, key r gr ar⟩
  rw [← hlr]
  exact (al.append ar).2

/-- **the written table is well-formed** (so a tokenizer built from it satisfies the C02–C04 theorems) -/
theorem train_WF (words : List (List Nat × Nat)) (n : Nat) (t : MTable) (hb : ∀ w ∈ words, ∀ b ∈ w.1, b < 256)
    (h : greedyTable words n t = true) : wfTable t = true := by
  obtain ⟨es, he, _, hnd, c, hc, _⟩ := greedyTable_unfold words n t h
  obtain ⟨hlen, _⟩ := BpeTrainL.entriesInOrder_spec t es he
  have honce := BpeTrainL.table_ids_once t es he
  unfold wfTable
  rw [Bool.and_eq_true, Bool.and_eq_true]
  refine ⟨⟨?_, ?_⟩, ?_⟩
  · -- (1) ids
    rw [List.all_eq_true]
    intro k hk
    rw [List.mem_range] at hk
    rw [honce k hk]; rfl
  · -- (2) keys distinct
    rw [List.all_eq_true]
    intro e hem
    have hlt := BpeTrainL.table_id_lt t es he e hem
    have hent := BpeTrainL.table_entry t es he e hem
    have : t.filter (fun e' => e'.1 == e.1) = t.filter (fun e' => e'.2 == e.2) := by
      apply List.filter_congr
      intro e' hem'
      have hent' := BpeTrainL.table_entry t es he e' hem'
      by_cases hk : e'.2 = e.2
      · have : e' = e := BpeTrainL.table_ids_unique t es he e' hem' e hem hk
        simp [this]
      · have h1 : (e'.2 == e.2) = false := by simpa using hk
        rw [h1]
        by_cases hb' : e'.1 = e.1
        · rw [hb'] at hent'
          exact absurd (BpeTrainL.nodup_getElem?_inj hnd hent' hent) hk
        · simpa using hb'
    rw [this, honce e.2 hlt]; rfl
  · -- (3) entries are concatenations of earlier tokens
    rw [List.all_eq_true]
    intro e hem
    obtain ⟨hbytes, l, r, hlr, hl, hr, tl, tr⟩ := greedyTable_entry words n t hb h e hem
    rw [Bool.and_eq_true]
    constructor
    · rw [List.all_eq_true]
      intro b hbm
      exact decide_eq_true (hbytes b hbm)
    · rw [List.any_eq_true]
      refine ⟨(l, r), ?_, ?_⟩
      · rw [← hlr]; exact BpeTrainL.mem_splitsOf l r hl hr
      · simp only [tl, tr, Bool.and_self]

/-! ### non-vacuity -/

example : greedyTable [([97,98],2),([32,97,98],1)] 4 [([97,98],0),([32,97,98],1)] = true := by decide
example : greedyTable [([97,98],2),([32,97,98],1)] 1 [([97,98],0)] = true := by decide
/-- the second merge must be the (only) remaining pair -/
example : greedyTable [([97,98],2),([32,97,98],1)] 4 [([97,98],0),([32,97],1)] = false := by decide
/-- stopping early while a pair still occurs is rejected -/
example : greedyTable [([97,98],2),([32,97,98],1)] 4 [([97,98],0)] = false := by decide
example : wfTable [([97,98],0),([32,97,98],1)] = true := by decide
example : replacePairInWord [[97],[98],[97],[98],[99]] [97] [98] = [[97,98],[97,98],[99]] := by decide
example : [[97,98],[32,97,98]] ∈ (greedyReplay (initCorpus [([97,98],2),([32,97,98],1)]) [[97,98],[32,97,98]]).map (fun c => c.map (·.1.flatten)) := by decide
/-- the hypotheses of `train_WF` are satisfiable -/
example : wfTable [([97,98],0),([32,97,98],1)] = true :=
  train_WF [([97,98],2),([32,97,98],1)] 4 _ (by decide) (by decide)

/-! ### the code that exists: the incremental bookkeeping of `update_stats` refines the recount

Model: `Tu.bytePairStats`, `Tu.replacePair`, `Tu.updateStats`, `Tu.trainStep`, `Tu.trainRun` (Model/BpeTrainInc.lean), a
line-by-line model of `byte_pair_stats`, `replace_pair`, `update_stats` and the merge loop of `train_bpe`. -/

/-- the statistics describe the corpus exactly (map-style): no duplicate keys, word indices in range, and for every
pair `q` the stored frequency is `pairFreq c q` and the counter of word `i` is its number of occurrences in word `i` -/
abbrev StatsOk (c : Corpus) (st : Stats) : Prop := BpeTrainIncL.StatsOk c st

/-- well-formedness of the trainer's vocabulary: every token is non-empty, and segmentation is unique (two runs of
consecutive tokens, anywhere in the corpus, that spell the same bytes are the same token sequence) -/
abbrev CorpusWf (c : Corpus) : Prop := BpeTrainIncL.CorpusWf c

theorem StatsOk_unfold (c : Corpus) (st : Stats) : StatsOk c st ↔
    (((st.map (·.1)).Nodup ∧ ∀ q info, alGet st q = some info → (info.2.map (·.1)).Nodup ∧ ∀ i ∈ info.2.map (·.1), i < c.length) ∧
      ∀ q, BpeTrainIncL.freqOf st q = pairFreq c q ∧
        ∀ i, BpeTrainIncL.occOf st q i = wordPairCount (c.getD i ([], 0)).1 q) := Iff.rfl

theorem CorpusWf_unfold (c : Corpus) : CorpusWf c ↔
    ((∀ e ∈ c, ∀ t ∈ e.1, t ≠ []) ∧
      ∀ e1 ∈ c, ∀ e2 ∈ c, ∀ R1 R2 : List (List Nat), R1 <:+: e1.1 → R2 <:+: e2.1 → R1.flatten = R2.flatten → R1 = R2) := Iff.rfl

/-- `CorpusWf` is decidable: the executable check `corpusWfB` (Model/BpeTrainInc.lean) decides it -/
theorem corpusWfB_iff (c : Corpus) : corpusWfB c = true ↔ CorpusWf c := BpeTrainIncL.corpusWfB_iff c

/-- `StatsOk` implies the executable check `statsExact` used by the driver -/
theorem StatsOk_statsExact (c : Corpus) (st : Stats) (h : StatsOk c st) : statsExact c st = true :=
  BpeTrainIncL.StatsOk.statsExact h

/-- the initial statistics (`byte_pair_stats`) are exact -/
theorem bytePairStats_exact (c : Corpus) : StatsOk c (bytePairStats c) := BpeTrainIncL.bytePairStats_ok c

/-- the byte-level vocabulary is well-formed -/
theorem corpusWf_init (words : List (List Nat × Nat)) : CorpusWf (initCorpus words) := BpeTrainIncL.CorpusWf_init words

/-- well-formedness is preserved by a merge -/
theorem corpusWf_applyMerge (c : Corpus) (p : List Nat × List Nat) (h : CorpusWf c) (hp : 0 < pairFreq c p) :
    CorpusWf (applyMerge c p) := BpeTrainIncL.CorpusWf.applyMerge h p hp

/-- in a well-formed vocabulary the merged token of a pair that occurs is new -/
theorem corpusWf_fresh (c : Corpus) (p : List Nat × List Nat) (h : CorpusWf c) (hp : 0 < pairFreq c p) :
    ∀ e ∈ c, (p.1 ++ p.2) ∉ e.1 := h.2.fresh p hp

/-- the single-word lemma behind `update_stats`: on a word `w` that does not contain the merged token, the old-word loop
performs the decrements `decsN`, the new-word loop the increments `incsN`, no decrement saturates, and for every pair
`q` other than the merged one the pair counts of the re-segmented word are the old counts minus the decrements plus the
increments -/
theorem updateStats_word (x y : List Nat) (w : List (List Nat)) (idx f : Nat) (st : Stats) (hfresh : (x ++ y) ∉ w) :
    oldLoop x y w idx f (w.length + 1) 0 st = BpeTrainIncL.applyDecs idx f (BpeTrainIncL.decsN x y none w) st ∧
    (∀ st1, newLoop (x ++ y) (BpeTrainIncL.rep x y w) idx f ((BpeTrainIncL.rep x y w).length + 1) 0 st1 =
      BpeTrainIncL.applyIncs idx f (BpeTrainIncL.incsN (x ++ y) none (BpeTrainIncL.rep x y w)) st1) ∧
    (y ≠ [] → replacePairInWord w x y = BpeTrainIncL.rep x y w) ∧
    ∀ q, q ≠ (x, y) →
      BpeTrainIncL.cnt q (BpeTrainIncL.decsN x y none w) ≤ wordPairCount w q ∧
      wordPairCount w q + BpeTrainIncL.cnt q (BpeTrainIncL.incsN (x ++ y) none (BpeTrainIncL.rep x y w)) =
        wordPairCount (BpeTrainIncL.rep x y w) q + BpeTrainIncL.cnt q (BpeTrainIncL.decsN x y none w) := by
  refine ⟨BpeTrainIncL.oldLoop_top x y idx f w st, fun st1 => BpeTrainIncL.newLoop_top _ idx f _ st1,
    fun hy => BpeTrainIncL.replacePairInWord_eq_rep w x y hy, ?_⟩
  intro q hq
  exact ⟨BpeTrainIncL.decs_le x y q w none, BpeTrainIncL.count_balance x y q hq w none hfresh⟩

/-- **one merge step**: if the statistics are exact and the pair occurs, the incremental update succeeds (no `Err`, no
panic), the vocabulary is the corpus re-segmented with the pair (skipping the words whose counter is 0 loses nothing),
and the updated statistics are exact again -/
theorem trainStep_exact (c : Corpus) (st : Stats) (p : List Nat × List Nat) (h : StatsOk c st) (hp : 0 < pairFreq c p)
    (hwf : CorpusWf c) :
    ∃ st', trainStep (c, st) p = some (applyMerge c p, st') ∧ StatsOk (applyMerge c p) st' :=
  BpeTrainIncL.trainStep_exact' c st p h hp hwf

/-- `max_byte_pair` on exact statistics: `p` can be returned iff it has maximal positive recounted frequency, and `None`
is returned iff no pair occurs any more -/
theorem maxBytePair_exact (c : Corpus) (st : Stats) (h : StatsOk c st) :
    (∀ p, isMaxBytePair st p = true ↔ (0 < pairFreq c p ∧ pairFreq c p = maxPairFreq c)) ∧
    (noBytePair st = true ↔ maxPairFreq c = 0) :=
  ⟨fun p => BpeTrainIncL.isMaxBytePair_iff h p, BpeTrainIncL.noBytePair_iff h⟩

/-- **the loop is a greedy trainer**: started on the byte-level vocabulary with `byte_pair_stats`, the incremental loop
can make exactly the choice sequences `ps` that are greedy for the recounted corpus (every chosen pair has maximal
positive `pairFreq` in the corpus re-segmented by the earlier choices); on them it never fails, its vocabulary is
`corpusAfter`, its statistics are exact (`statsExact`), the sequence of merged tokens is accepted by the recount-based
replay `greedyReplay`, and it stops (`max_byte_pair = None`) exactly when no pair occurs any more -/
theorem trainLoop_greedy (words : List (List Nat × Nat)) (ps : List (List Nat × List Nat)) :
    ((trainRun (initCorpus words, bytePairStats (initCorpus words)) ps).isSome = true ↔
      BpeTrainIncL.greedyChoices (initCorpus words) ps) ∧
    ∀ s', trainRun (initCorpus words, bytePairStats (initCorpus words)) ps = some s' →
      s'.1 = corpusAfter (initCorpus words) ps ∧ StatsOk s'.1 s'.2 ∧ statsExact s'.1 s'.2 = true ∧
      s'.1 ∈ greedyReplay (initCorpus words) (ps.map (fun p => p.1 ++ p.2)) ∧
      (noBytePair s'.2 = true ↔ maxPairFreq s'.1 = 0) := by
  obtain ⟨h1, h2⟩ := BpeTrainIncL.trainRun_spec ps (initCorpus words) _ (bytePairStats_exact _) (corpusWf_init words)
  refine ⟨h1, ?_⟩
  intro s' hs
  obtain ⟨g1, g2, _⟩ := h2 s' hs
  refine ⟨g1, g2, BpeTrainIncL.StatsOk.statsExact g2, ?_, BpeTrainIncL.noBytePair_iff g2⟩
  rw [g1]
  exact BpeTrainIncL.greedyChoices_replay ps _ (h1.mp (by rw [hs]; rfl))

/-- the same from any state with exact statistics and a well-formed vocabulary -/
theorem trainLoop_greedy_from (c : Corpus) (st : Stats) (h : StatsOk c st) (hwf : CorpusWf c) (ps : List (List Nat × List Nat)) :
    ((trainRun (c, st) ps).isSome = true ↔ BpeTrainIncL.greedyChoices c ps) ∧
    ∀ s', trainRun (c, st) ps = some s' → s'.1 = corpusAfter c ps ∧ StatsOk s'.1 s'.2 ∧ CorpusWf s'.1 :=
  BpeTrainIncL.trainRun_spec ps c st h hwf

/-- the observable trace of a run of the model (format of the hook `verif_train_steps`) passes the driver's replay
check `stepsReplay` -/
theorem trainTrace_accepted : ∀ (ps : List (List Nat × List Nat)) (c : Corpus) (st : Stats) (k : Nat), StatsOk c st → CorpusWf c →
    ∀ tr, trainTrace (c, st) ps = some tr → stepsReplay c tr k = none := by
  intro ps
  induction ps with
  | nil =>
    intro c st k _ _ tr h
    simp only [trainTrace, Option.some.injEq] at h
    subst h
    rfl
  | cons p ps ih =>
    intro c st k h hwf tr htr
    rw [trainTrace] at htr
    simp only [] at htr
    by_cases hmax : isMaxBytePair st p = true
    · rw [if_pos hmax] at htr
      have hg := (BpeTrainIncL.isMaxBytePair_iff h p).mp hmax
      obtain ⟨st', hstep, hok⟩ := trainStep_exact c st p h hg.1 hwf
      rw [hstep] at htr
      simp only [] at htr
      cases ht : trainTrace (applyMerge c p, st') ps with
      | none => rw [ht] at htr; cases htr
      | some t =>
        rw [ht] at htr
        simp only [Option.map_some, Option.some.injEq] at htr
        subst htr
        rw [stepsReplay]
        simp only []
        have c1 : (!(decide (0 < pairFreq c p) && pairFreq c p == maxPairFreq c)) = false := by
          rw [Bool.not_eq_false', Bool.and_eq_true]
          exact ⟨decide_eq_true hg.1, beq_iff_eq.mpr hg.2⟩
        have c3 : (!statsExact (applyMerge c p) st') = false := by rw [StatsOk_statsExact _ _ hok]; rfl
        rw [c1]
        simp only [Bool.false_eq_true, if_false, bne_self_eq_false]
        rw [c3]
        simp only [Bool.false_eq_true, if_false]
        exact ih _ _ _ hok (corpusWf_applyMerge c p hwf hg.1) t ht
    · rw [if_neg hmax] at htr; cases htr

/-- the merged tokens of a run of the loop are pairwise distinct: `merge_ops.insert(pair.merge(), merge_idx)` never
overwrites an entry -/
theorem trainLoop_nodup (words : List (List Nat × Nat)) (ps : List (List Nat × List Nat))
    (h : (trainRun (initCorpus words, bytePairStats (initCorpus words)) ps).isSome = true) :
    (ps.map (fun p => p.1 ++ p.2)).Nodup :=
  BpeTrainIncL.greedy_nodup ps [] (initCorpus words) (BpeTrainIncL.SegInv_init words) (corpusWf_init words)
    ((trainLoop_greedy words ps).1.mp h)

/-- **the incremental loop writes a greedy table**: if the loop makes the choices `ps` and stops after `n` merges or
because `max_byte_pair` returns `None`, then every table whose entries in id order are the merged tokens is accepted
by the recount-based relation `greedyTable` (and hence, by `train_WF`, is well-formed) -/
theorem trainLoop_table (words : List (List Nat × Nat)) (ps : List (List Nat × List Nat)) (n : Nat) (t : MTable)
    (s' : Corpus × Stats) (hrun : trainRun (initCorpus words, bytePairStats (initCorpus words)) ps = some s')
    (ht : entriesInOrder t = some (ps.map (fun p => p.1 ++ p.2))) (hn : ps.length ≤ n)
    (hstop : ps.length = n ∨ noBytePair s'.2 = true) : greedyTable words n t = true := by
  obtain ⟨g1, _, _, g4, g5⟩ := (trainLoop_greedy words ps).2 s' hrun
  have hnd := trainLoop_nodup words ps (by rw [hrun]; rfl)
  have hlen := (BpeTrainL.entriesInOrder_spec t _ ht).1
  rw [List.length_map] at hlen
  unfold greedyTable
  rw [ht]
  simp only [Bool.and_eq_true, decide_eq_true_eq, List.any_eq_true, Bool.or_eq_true, beq_iff_eq, List.length_map]
  refine ⟨⟨by omega, hnd⟩, s'.1, g4, ?_⟩
  rcases hstop with h | h
  · exact Or.inl h
  · exact Or.inr (g5.mp h)

/-! non-vacuity, and necessity of the well-formedness hypothesis -/

example : (trainRun (initCorpus [([97,98,97,98,97],2),([97,97,97],1)], bytePairStats (initCorpus [([97,98,97,98,97],2),([97,97,97],1)]))
    [([97],[98]), ([97,98],[97,98])] ==
  some ([([[97,98,97,98],[97]],2),([[97],[97],[97]],1)],
    [(([97], [98]), 0, [(0, 0)]), (([98], [97]), 0, [(0, 0)]), (([97], [97]), 2, [(1, 2)]),
     (([97, 98], [97, 98]), 0, [(0, 0)]), (([97, 98], [97]), 0, [(0, 0)]), (([97, 98, 97, 98], [97]), 2, [(0, 1)])])) = true := by decide

/-- `update_stats` relies on the merged token being new: on a (unreachable) vocabulary that already contains the token
`[1,2,3]` next to the adjacent pair `([1],[2,3])`, the second loop counts the pair `([1,2,3],[4])` twice -/
example : (trainStep ([([[1,2,3],[4],[1],[2,3]], 1)], bytePairStats [([[1,2,3],[4],[1],[2,3]], 1)]) ([1],[2,3])).map
    (fun s => (s.1 == applyMerge [([[1,2,3],[4],[1],[2,3]], 1)] ([1],[2,3]), statsExact s.1 s.2)) = some (true, false) := by decide

/-- that vocabulary is indeed not well-formed (`[1,2,3]` and `[1],[2,3]` spell the same bytes) -/
example : corpusWfB [([[1,2,3],[4],[1],[2,3]], 1)] = false := by decide
example : corpusWfB (applyMerge (initCorpus [([97,98,97,98,97],2),([97,97,97],1)]) ([97],[98])) = true := by decide

end Tu.C19
