/-
  Lemmas about the model of `find_substring_ignoring_whitespace` (Model/FindSub.lean): one-step unfoldings of
  the matcher, the white-space run, the content that is not white space, and the search loop `findFrom`.
-/
import TuModel.Model.FindSub
namespace Tu

/-- the code points that are not white space -/
def nonWs (l : List Nat) : List Nat := l.filter (fun c => !isWsCp c)

/-! ### `nonWs` -/

theorem nonWs_nil : nonWs [] = [] := rfl

theorem nonWs_cons_ws (c : Nat) (l : List Nat) (h : isWsCp c = true) : nonWs (c :: l) = nonWs l := by
  simp [nonWs, h]

theorem nonWs_cons_nws (c : Nat) (l : List Nat) (h : isWsCp c = false) : nonWs (c :: l) = c :: nonWs l := by
  simp [nonWs, h]

theorem nonWs_append (a b : List Nat) : nonWs (a ++ b) = nonWs a ++ nonWs b := by
  simp [nonWs]

/-- a list without white space is its own `nonWs` -/
theorem nonWs_of_all_nws (l : List Nat) (h : ∀ x ∈ l, isWsCp x = false) : nonWs l = l := by
  induction l with
  | nil => rfl
  | cons x xs ih =>
    rw [nonWs_cons_nws x xs (h x (by simp)), ih (fun y hy => h y (by simp [hy]))]

/-! ### `wsRun` -/

theorem wsRun_nil : wsRun [] = 0 := rfl

theorem wsRun_cons_ws (c : Nat) (l : List Nat) (h : isWsCp c = true) : wsRun (c :: l) = wsRun l + 1 := by
  simp [wsRun, h]

theorem wsRun_cons_nws (c : Nat) (l : List Nat) (h : isWsCp c = false) : wsRun (c :: l) = 0 := by
  simp [wsRun, h]

theorem wsRun_le_length (s : List Nat) : wsRun s ≤ s.length := by
  induction s with
  | nil => simp [wsRun_nil]
  | cons c l ih =>
    cases hc : isWsCp c with
    | true => rw [wsRun_cons_ws c l hc]; simp; omega
    | false => rw [wsRun_cons_nws c l hc]; omega

theorem wsRun_le_append (l t : List Nat) : wsRun l ≤ wsRun (l ++ t) := by
  induction l with
  | nil => simp [wsRun_nil]
  | cons c l ih =>
    cases hc : isWsCp c with
    | true => rw [List.cons_append, wsRun_cons_ws c l hc, wsRun_cons_ws c (l ++ t) hc]; omega
    | false => rw [wsRun_cons_nws c l hc]; omega

/-- the code points of the run are white space -/
theorem nonWs_take_of_le_wsRun (s : List Nat) (k : Nat) (h : k ≤ wsRun s) : nonWs (s.take k) = [] := by
  induction s generalizing k with
  | nil => simp [nonWs_nil]
  | cons c l ih =>
    cases k with
    | zero => simp [nonWs_nil]
    | succ k =>
      cases hc : isWsCp c with
      | true =>
        rw [wsRun_cons_ws c l hc] at h
        rw [List.take_succ_cons, nonWs_cons_ws c _ hc]
        exact ih k (by omega)
      | false => rw [wsRun_cons_nws c l hc] at h; omega

/-- the run is maximal: the code point after it is not white space -/
theorem getElem?_wsRun (s : List Nat) (c : Nat) (h : s[wsRun s]? = some c) : isWsCp c = false := by
  induction s with
  | nil => simp at h
  | cons d l ih =>
    cases hd : isWsCp d with
    | true =>
      rw [wsRun_cons_ws d l hd, List.getElem?_cons_succ] at h
      exact ih h
    | false =>
      rw [wsRun_cons_nws d l hd] at h
      simp at h
      rw [← h]; exact hd

theorem drop_eq_cons_of_getElem? (s : List Nat) (i c : Nat) (h : s[i]? = some c) :
    s.drop i = c :: s.drop (i + 1) := by
  induction s generalizing i with
  | nil => simp at h
  | cons d l ih =>
    cases i with
    | zero => simp at h; simp [h]
    | succ i =>
      rw [List.getElem?_cons_succ] at h
      simpa using ih i h

/-! ### `litAt` -/

/-- a literal that stands at position `k` splits the rest of the string -/
theorem litAt_drop (c s : List Nat) (k : Nat) (h : litAt c (s.drop k) = true) :
    s.drop k = c ++ s.drop (k + c.length) := by
  unfold litAt at h
  rw [List.isPrefixOf_iff_prefix] at h
  obtain ⟨t, ht⟩ := h
  have : s.drop (k + c.length) = t := by
    rw [← List.drop_drop, ← ht, List.drop_left]
  rw [this, ht]

theorem litAt_append (c t : List Nat) : litAt c (c ++ t) = true := by
  unfold litAt
  rw [List.isPrefixOf_iff_prefix]
  exact ⟨t, rfl⟩

/-! ### one-step unfoldings of `matchLits` -/

theorem matchLits_nil (s : List Nat) : matchLits [] s = some (wsRun s) := by
  rw [matchLits]

theorem matchLits_cons (c : List Nat) (cs : List (List Nat)) (s : List Nat) :
    matchLits (c :: cs) s =
      ((List.range (wsRun s + 1)).reverse).findSome? (fun k =>
        if litAt c (s.drop k) then (matchLits cs (s.drop (k + c.length))).map (fun r => k + c.length + r)
        else none) := by
  rw [matchLits]

/-- a successful match of `\s* c rest` comes from some split of the white-space run -/
theorem matchLits_cons_some (c : List Nat) (cs : List (List Nat)) (s : List Nat) (n : Nat)
    (h : matchLits (c :: cs) s = some n) :
    ∃ k r, k ≤ wsRun s ∧ litAt c (s.drop k) = true ∧
      matchLits cs (s.drop (k + c.length)) = some r ∧ n = k + c.length + r := by
  rw [matchLits_cons] at h
  obtain ⟨k, hk, hf⟩ := List.exists_of_findSome?_eq_some h
  have hk' : k ≤ wsRun s := by
    simp at hk; omega
  cases hl : litAt c (s.drop k) with
  | false => simp [hl] at hf
  | true =>
    simp only [hl, if_true] at hf
    cases hr : matchLits cs (s.drop (k + c.length)) with
    | none => simp [hr] at hf
    | some r =>
      simp [hr] at hf
      exact ⟨k, r, hk', hl, hr, hf.symm⟩

/-- every split of the white-space run after which the rest matches makes the whole pattern match -/
theorem matchLits_cons_isSome (c : List Nat) (cs : List (List Nat)) (s : List Nat) (k r : Nat)
    (hk : k ≤ wsRun s) (hl : litAt c (s.drop k) = true)
    (hr : matchLits cs (s.drop (k + c.length)) = some r) :
    ∃ m, matchLits (c :: cs) s = some m := by
  cases hm : matchLits (c :: cs) s with
  | some m => exact ⟨m, rfl⟩
  | none =>
    rw [matchLits_cons, List.findSome?_eq_none_iff] at hm
    have h1 := hm k (by simp; omega)
    simp [hl, hr] at h1

/-- white space in front of a match does not destroy it (the leading `\s*` takes it) -/
theorem matchLits_cons_ws (lits : List (List Nat)) (s : List Nat) (c n : Nat) (hc : isWsCp c = true)
    (h : matchLits lits s = some n) : ∃ m, matchLits lits (c :: s) = some m := by
  cases lits with
  | nil => exact ⟨_, matchLits_nil _⟩
  | cons c' cs =>
    obtain ⟨k, r, hk, hl, hr, _⟩ := matchLits_cons_some c' cs s n h
    refine matchLits_cons_isSome c' cs (c :: s) (k + 1) r ?_ ?_ ?_
    · rw [wsRun_cons_ws c s hc]; omega
    · rw [List.drop_succ_cons]; exact hl
    · have : k + 1 + c'.length = (k + c'.length) + 1 := by omega
      rw [this, List.drop_succ_cons]; exact hr

/-! ### the language of the pattern (literals of any length) -/

/-- `l` is an instance of `\s* c1 \s* c2 ... \s* cn \s*`: white space, then each literal followed by white space -/
def PatInst : List (List Nat) → List Nat → Prop
  | [], l => ∀ x ∈ l, isWsCp x = true
  | c :: cs, l => ∃ w r, (∀ x ∈ w, isWsCp x = true) ∧ l = w ++ (c ++ r) ∧ PatInst cs r

theorem length_le_wsRun_append (w t : List Nat) (hw : ∀ x ∈ w, isWsCp x = true) :
    w.length ≤ wsRun (w ++ t) := by
  induction w with
  | nil => simp
  | cons x w ih =>
    rw [List.cons_append, wsRun_cons_ws x (w ++ t) (hw x (by simp))]
    have := ih (fun y hy => hw y (by simp [hy]))
    simp; omega

theorem all_ws_take_of_le_wsRun (s : List Nat) (k : Nat) (h : k ≤ wsRun s) :
    ∀ x ∈ s.take k, isWsCp x = true := by
  induction s generalizing k with
  | nil => simp
  | cons c l ih =>
    cases k with
    | zero => simp
    | succ k =>
      cases hc : isWsCp c with
      | true =>
        rw [wsRun_cons_ws c l hc] at h
        rw [List.take_succ_cons]
        intro x hx
        rcases List.mem_cons.mp hx with hx | hx
        · rw [hx]; exact hc
        · exact ih k (by omega) x hx
      | false => rw [wsRun_cons_nws c l hc] at h; omega

/-- the matcher is complete for the language of the pattern: it succeeds on every string that has an instance
of the pattern as a prefix -/
theorem matchLits_of_patInst (lits : List (List Nat)) (l t : List Nat) (h : PatInst lits l) :
    ∃ m, matchLits lits (l ++ t) = some m := by
  induction lits generalizing l with
  | nil => exact ⟨_, matchLits_nil _⟩
  | cons c cs ih =>
    obtain ⟨w, r, hw, hl, hr⟩ := h
    obtain ⟨m, hm⟩ := ih r hr
    have hd : (l ++ t).drop w.length = c ++ (r ++ t) := by
      rw [hl, List.append_assoc, List.drop_left, List.append_assoc]
    refine matchLits_cons_isSome c cs (l ++ t) w.length m ?_ ?_ ?_
    · rw [hl, List.append_assoc]; exact length_le_wsRun_append w _ hw
    · rw [hd]; exact litAt_append c _
    · rw [← List.drop_drop, hd, List.drop_left]; exact hm

/-- what the matcher returns is an instance of the pattern -/
theorem patInst_of_matchLits (lits : List (List Nat)) (s : List Nat) (n : Nat)
    (h : matchLits lits s = some n) : PatInst lits (s.take n) := by
  induction lits generalizing s n with
  | nil =>
    rw [matchLits_nil] at h
    injection h with h
    rw [← h]
    exact all_ws_take_of_le_wsRun s _ (Nat.le_refl _)
  | cons c cs ih =>
    obtain ⟨k, r, hk, hl, hr, hn⟩ := matchLits_cons_some c cs s n h
    have h2 := litAt_drop c s k hl
    have h3 : n = k + (c.length + r) := by omega
    refine ⟨s.take k, (s.drop (k + c.length)).take r, all_ws_take_of_le_wsRun s k hk, ?_, ih _ _ hr⟩
    rw [h3, List.take_add, h2, List.take_length_add_append]

/-! ### the search loop -/

theorem findFrom_zero (lits : List (List Nat)) (s : List Nat) (p : Nat) : findFrom lits s p 0 = none := by
  rw [findFrom]

theorem findFrom_succ_some (lits : List (List Nat)) (s : List Nat) (p fuel len : Nat)
    (h : matchLits lits (s.drop p) = some len) : findFrom lits s p (fuel + 1) = some (p, p + len) := by
  rw [findFrom, h]

theorem findFrom_succ_none (lits : List (List Nat)) (s : List Nat) (p fuel : Nat)
    (h : matchLits lits (s.drop p) = none) :
    findFrom lits s p (fuel + 1) = findFrom lits s (p + 1) fuel := by
  rw [findFrom, h]

theorem findFrom_some (lits : List (List Nat)) (s : List Nat) (fuel p a b : Nat)
    (h : findFrom lits s p fuel = some (a, b)) :
    p ≤ a ∧ a < p + fuel ∧ a ≤ b ∧ matchLits lits (s.drop a) = some (b - a) ∧
      ∀ q, p ≤ q → q < a → matchLits lits (s.drop q) = none := by
  induction fuel generalizing p with
  | zero => rw [findFrom_zero] at h; cases h
  | succ fuel ih =>
    cases hm : matchLits lits (s.drop p) with
    | some len =>
      rw [findFrom_succ_some lits s p fuel len hm] at h
      injection h with h
      injection h with h1 h2
      subst h1; subst h2
      refine ⟨Nat.le_refl _, by omega, by omega, ?_, ?_⟩
      · rw [hm]; congr 1; omega
      · intro q h1 h2; omega
    | none =>
      rw [findFrom_succ_none lits s p fuel hm] at h
      obtain ⟨h1, h2, h3, h4, h5⟩ := ih (p + 1) h
      refine ⟨by omega, by omega, h3, h4, ?_⟩
      intro q hq1 hq2
      by_cases hqp : q = p
      · rw [hqp]; exact hm
      · exact h5 q (by omega) hq2

theorem findFrom_none (lits : List (List Nat)) (s : List Nat) (fuel p : Nat)
    (h : findFrom lits s p fuel = none) :
    ∀ q, p ≤ q → q < p + fuel → matchLits lits (s.drop q) = none := by
  induction fuel generalizing p with
  | zero => intro q h1 h2; omega
  | succ fuel ih =>
    cases hm : matchLits lits (s.drop p) with
    | some len => rw [findFrom_succ_some lits s p fuel len hm] at h; cases h
    | none =>
      rw [findFrom_succ_none lits s p fuel hm] at h
      intro q hq1 hq2
      by_cases hqp : q = p
      · rw [hqp]; exact hm
      · exact ih (p + 1) h q (by omega) (by omega)

/-! ### completeness of the matcher for single-code-point literals -/

/-- the first code point that is not white space -/
theorem nonWs_eq_cons (l : List Nat) (x : Nat) (rest : List Nat) (h : nonWs l = x :: rest) :
    ∃ k, k ≤ wsRun l ∧ l.drop k = x :: l.drop (k + 1) ∧ nonWs (l.drop (k + 1)) = rest := by
  induction l with
  | nil => rw [nonWs_nil] at h; cases h
  | cons y l ih =>
    cases hy : isWsCp y with
    | true =>
      rw [nonWs_cons_ws y l hy] at h
      obtain ⟨k, hk, hd, hn⟩ := ih h
      refine ⟨k + 1, ?_, ?_, ?_⟩
      · rw [wsRun_cons_ws y l hy]; omega
      · rw [List.drop_succ_cons, List.drop_succ_cons]; exact hd
      · rw [List.drop_succ_cons]; exact hn
    | false =>
      rw [nonWs_cons_nws y l hy] at h
      injection h with h1 h2
      refine ⟨0, Nat.zero_le _, ?_, ?_⟩
      · simp [h1]
      · simpa using h2

theorem matchLits_complete_app (lits : List (List Nat))
    (hl : ∀ c ∈ lits, ∃ x, c = [x] ∧ isWsCp x = false)
    (l t : List Nat) (h : nonWs l = lits.flatten) : ∃ m, matchLits lits (l ++ t) = some m := by
  induction lits generalizing l with
  | nil => exact ⟨_, matchLits_nil _⟩
  | cons c cs ih =>
    obtain ⟨x, hx, _⟩ := hl c (by simp)
    subst hx
    rw [List.flatten_cons, List.singleton_append] at h
    obtain ⟨k, hk, hd, hn⟩ := nonWs_eq_cons l x cs.flatten h
    have hkl : k ≤ l.length := Nat.le_trans hk (wsRun_le_length l)
    obtain ⟨r, hr⟩ := ih (fun c hc => hl c (by simp [hc])) (l.drop (k + 1)) hn
    have hkl1 : k + 1 ≤ l.length := by
      have : (l.drop k).length = (x :: l.drop (k + 1)).length := by rw [← hd]
      simp at this; omega
    refine matchLits_cons_isSome [x] cs (l ++ t) k r (Nat.le_trans hk (wsRun_le_append l t)) ?_ ?_
    · rw [List.drop_append_of_le_length hkl, hd]
      exact litAt_append [x] (l.drop (k + 1) ++ t)
    · show matchLits cs (List.drop (k + 1) (l ++ t)) = some r
      rw [List.drop_append_of_le_length hkl1]; exact hr

end Tu
