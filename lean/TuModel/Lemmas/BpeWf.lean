/-
  Consequences of `wfTable`: merge ids are `< t.length` (pigeonhole), unique, and
  `tbytes` inverts `tlookup`.
-/
import TuModel.Model.Bpe
namespace Tu

theorem filter_id_lt_succ (t : MTable) (m : Nat) :
    (t.filter (fun e => decide (e.2 < m + 1))).length =
      (t.filter (fun e => decide (e.2 < m))).length + (t.filter (fun e => e.2 == m)).length := by
  induction t with
  | nil => rfl
  | cons a t ih =>
    simp only [List.filter_cons]
    by_cases h1 : a.2 < m
    · have h2 : a.2 < m + 1 := by omega
      have h3 : (a.2 == m) = false := by
        simp only [beq_eq_false_iff_ne, ne_eq]; omega
      simp only [h1, h2, h3, decide_true, if_true, List.length_cons, ih]
      simp only [Bool.false_eq_true, if_false]
      omega
    · by_cases h3 : a.2 = m
      · have h2 : a.2 < m + 1 := by omega
        have h4 : (a.2 == m) = true := by simp only [beq_iff_eq]; exact h3
        simp only [h1, h2, h4, decide_true, decide_false, if_true, List.length_cons, ih]
        simp only [Bool.false_eq_true, if_false]
        omega
      · have h2 : ¬ a.2 < m + 1 := by omega
        have h4 : (a.2 == m) = false := by
          simp only [beq_eq_false_iff_ne, ne_eq]; exact h3
        simp only [h1, h2, h4, decide_false]
        simp only [Bool.false_eq_true, if_false]
        exact ih

theorem filter_id_lt_length (t : MTable) :
    ∀ m, (∀ k, k < m → (t.filter (fun e => e.2 == k)).length = 1) →
      (t.filter (fun e => decide (e.2 < m))).length = m := by
  intro m
  induction m with
  | zero =>
    intro _
    have : t.filter (fun e => decide (e.2 < 0)) = [] := by
      apply List.filter_eq_nil_iff.mpr
      intro a _
      simp
    rw [this]; rfl
  | succ m ih =>
    intro h
    rw [filter_id_lt_succ, ih (fun k hk => h k (by omega)), h m (by omega)]

theorem wf_first {t : MTable} (hwf : wfTable t = true) :
    ∀ k, k < t.length → (t.filter (fun e => e.2 == k)).length = 1 := by
  unfold wfTable at hwf
  rw [Bool.and_eq_true, Bool.and_eq_true] at hwf
  have h := hwf.1.1
  rw [List.all_eq_true] at h
  intro k hk
  have := h k (List.mem_range.mpr hk)
  exact eq_of_beq this

/-- pigeonhole: every merge id of a well-formed table is below the table length -/
theorem wf_id_lt {t : MTable} (hwf : wfTable t = true) : ∀ e ∈ t, e.2 < t.length := by
  have h := filter_id_lt_length t t.length (wf_first hwf)
  have h2 := List.length_filter_eq_length_iff.mp h
  intro e he
  have := h2 e he
  exact of_decide_eq_true this

/-- merge ids are unique among ALL entries -/
theorem wf_ids_unique {t : MTable} (hwf : wfTable t = true) :
    ∀ e1 ∈ t, ∀ e2 ∈ t, e1.2 = e2.2 → e1 = e2 := by
  intro e1 h1 e2 h2 heq
  have hlt := wf_id_lt hwf e1 h1
  have hlen := wf_first hwf e1.2 hlt
  obtain ⟨x, hx⟩ := List.length_eq_one_iff.mp hlen
  have m1 : e1 ∈ t.filter (fun e => e.2 == e1.2) :=
    List.mem_filter.mpr ⟨h1, by simp⟩
  have m2 : e2 ∈ t.filter (fun e => e.2 == e1.2) :=
    List.mem_filter.mpr ⟨h2, by simp [heq]⟩
  rw [hx] at m1 m2
  rw [List.mem_singleton] at m1 m2
  rw [m1, m2]

theorem tlookup_mem {t : MTable} {b : List Nat} {k : Nat} (h : tlookup t b = some k) :
    (b, k) ∈ t := by
  unfold tlookup at h
  rw [Option.map_eq_some_iff] at h
  obtain ⟨e, he, hk⟩ := h
  have hm := List.mem_of_find?_eq_some he
  have hb := List.find?_some he
  have hb' : e.1 = b := eq_of_beq hb
  have : e = (b, k) := by
    cases e; simp only at hb' hk; rw [hb', hk]
  rw [← this]; exact hm

/-- a merge id determines its key -/
theorem tlookup_inj {t : MTable} (hwf : wfTable t = true) {b1 b2 : List Nat} {k : Nat}
    (h1 : tlookup t b1 = some k) (h2 : tlookup t b2 = some k) : b1 = b2 := by
  have := wf_ids_unique hwf _ (tlookup_mem h1) _ (tlookup_mem h2) rfl
  exact (Prod.mk.inj this).1

theorem tlookup_lt {t : MTable} (hwf : wfTable t = true) {b : List Nat} {k : Nat}
    (h : tlookup t b = some k) : k < t.length :=
  wf_id_lt hwf _ (tlookup_mem h)

/-- `tbytes` inverts `tlookup` -/
theorem tbytes_of_tlookup {t : MTable} (hwf : wfTable t = true) {b : List Nat} {k : Nat}
    (h : tlookup t b = some k) : tbytes t k = some b := by
  have hm := tlookup_mem h
  unfold tbytes
  cases hf : t.find? (fun e => e.2 == k) with
  | none =>
    have := List.find?_eq_none.mp hf (b, k) hm
    simp at this
  | some e' =>
    have hm' := List.mem_of_find?_eq_some hf
    have hk' : (e'.2 == k) = true := List.find?_some (p := fun e : List Nat × Nat => e.2 == k) hf
    have hk : e'.2 = k := eq_of_beq hk'
    have := wf_ids_unique hwf e' hm' (b, k) hm hk
    rw [this]; rfl

end Tu
