/-
  Invariant of the `Buffered` producer model (`bstep`, Model/Pipe.lean).
-/
import TuModel.Model.Pipe
namespace Tu

/-- the item the producer has pulled but not yet handed over -/
def BPC.pend : BPC → List Nat
  | .have i => [i]
  | _ => []

structure BInv (B n : Nat) (s : BufState) : Prop where
  hB : s.B = B
  hn : s.n = n
  pulled_le : s.pulled ≤ n
  chan_le : s.chan.length ≤ B
  fifo : s.dropped = false → s.recvd ++ s.chan ++ s.pc.pend = List.range s.pulled
  exited_ : s.dropped = false → s.pc = .exited → s.pulled = n
  closed_ : s.closed = true → s.pc = .exited ∧ s.chan = [] ∧ s.dropped = false

theorem binv_init (B n : Nat) : BInv B n (BufState.init B n) := by
  constructor <;> simp [BufState.init, BPC.pend]

theorem binv_step {B n : Nat} {s s' : BufState} (a : BAction) (h : BInv B n s) (hs : bstep s a = some s') :
    BInv B n s' := by
  have hn := h.hn
  have hpl := h.pulled_le
  cases a with
  | pull =>
    simp only [bstep] at hs
    split at hs
    · rename_i hpc
      split at hs
      · injection hs with hs; subst hs
        exact {
          hB := h.hB, hn := h.hn
          pulled_le := by dsimp only; omega
          chan_le := h.chan_le
          fifo := by
            dsimp only; intro hd
            have := h.fifo hd
            rw [hpc] at this; simp only [BPC.pend, List.append_nil] at this
            simp only [BPC.pend]; rw [this, List.range_succ]
          exited_ := by dsimp only; intro _ hc; cases hc
          closed_ := by
            dsimp only; intro hc
            have := (h.closed_ hc).1; rw [hpc] at this; cases this }
      · injection hs with hs; subst hs
        exact {
          hB := h.hB, hn := h.hn
          pulled_le := h.pulled_le
          chan_le := h.chan_le
          fifo := by
            dsimp only; intro hd
            have := h.fifo hd
            rw [hpc] at this; exact this
          exited_ := by dsimp only; intro _ _; omega
          closed_ := by
            dsimp only; intro hc
            have := (h.closed_ hc).1; rw [hpc] at this; cases this }
    · cases hs
  | send =>
    simp only [bstep] at hs
    split at hs
    · rename_i i hpc
      split at hs
      · rename_i hd
        injection hs with hs; subst hs
        exact {
          hB := h.hB, hn := h.hn
          pulled_le := h.pulled_le
          chan_le := h.chan_le
          fifo := by dsimp only; intro hd'; rw [hd] at hd'; cases hd'
          exited_ := by dsimp only; intro hd'; rw [hd] at hd'; cases hd'
          closed_ := by
            dsimp only; intro hc
            have := (h.closed_ hc).1; rw [hpc] at this; cases this }
      · rename_i hd
        have hd : s.dropped = false := by simpa using hd
        split at hs
        · rename_i hB0
          split at hs
          · cases hs
          · injection hs with hs; subst hs
            have hch : s.chan = [] := by
              have := h.chan_le; rw [← h.hB, hB0] at this
              exact List.eq_nil_of_length_eq_zero (by omega)
            exact {
              hB := h.hB, hn := h.hn
              pulled_le := h.pulled_le
              chan_le := h.chan_le
              fifo := by
                dsimp only; intro _
                have := h.fifo hd
                rw [hpc, hch] at this; simp only [BPC.pend, List.append_nil] at this
                rw [hch]; simpa [BPC.pend] using this
              exited_ := by dsimp only; intro _ hc; cases hc
              closed_ := by
                dsimp only; intro hc
                have := (h.closed_ hc).1; rw [hpc] at this; cases this }
        · split at hs
          · rename_i hlen
            injection hs with hs; subst hs
            exact {
              hB := h.hB, hn := h.hn
              pulled_le := h.pulled_le
              chan_le := by
                dsimp only; have := h.hB
                simp only [List.length_append, List.length_cons, List.length_nil]; omega
              fifo := by
                dsimp only; intro _
                have := h.fifo hd
                rw [hpc] at this; simp only [BPC.pend] at this
                simp only [BPC.pend, List.append_nil]; rw [← List.append_assoc]; exact this
              exited_ := by dsimp only; intro _ hc; cases hc
              closed_ := by
                dsimp only; intro hc
                have := (h.closed_ hc).1; rw [hpc] at this; cases this }
          · cases hs
    · cases hs
  | recv =>
    simp only [bstep] at hs
    split at hs
    · cases hs
    · rename_i hdc
      have hd : s.dropped = false := by
        cases hd : s.dropped <;> simp [hd] at hdc ⊢
      split at hs
      · rename_i x rest hch
        injection hs with hs; subst hs
        have hf := h.fifo hd
        have hcl := h.chan_le
        have hcd := h.closed_
        rw [hch] at hf hcl hcd
        exact {
          hB := h.hB, hn := h.hn
          pulled_le := h.pulled_le
          chan_le := by dsimp only; simp only [List.length_cons] at hcl; omega
          fifo := by
            dsimp only; intro _
            rw [← hf]; simp
          exited_ := h.exited_
          closed_ := by
            dsimp only; intro hc
            have := (hcd hc).2.1; cases this }
      · cases hs
  | close =>
    simp only [bstep] at hs
    split at hs
    · rename_i hg
      injection hs with hs; subst hs
      simp only [Bool.and_eq_true, Bool.not_eq_true', List.isEmpty_iff, beq_iff_eq] at hg
      obtain ⟨⟨⟨hd, _⟩, hch⟩, hpc⟩ := hg
      exact {
        hB := h.hB, hn := h.hn
        pulled_le := h.pulled_le
        chan_le := h.chan_le
        fifo := h.fifo
        exited_ := h.exited_
        closed_ := fun _ => ⟨hpc, hch, hd⟩ }
    · cases hs
  | drop =>
    simp only [bstep] at hs
    split at hs
    · cases hs
    · rename_i hdc
      injection hs with hs; subst hs
      have hcl : s.closed = false := by
        cases hd : s.closed <;> simp [hd] at hdc ⊢
      exact {
        hB := h.hB, hn := h.hn
        pulled_le := h.pulled_le
        chan_le := h.chan_le
        fifo := by dsimp only; intro hd; cases hd
        exited_ := by dsimp only; intro hd; cases hd
        closed_ := by dsimp only; intro hc; rw [hcl] at hc; cases hc }

theorem binv_reach {B n : Nat} {s : BufState} (h : BReach B n s) : BInv B n s := by
  induction h with
  | init => exact binv_init B n
  | step a _ hs ih => exact binv_step a ih hs

end Tu
