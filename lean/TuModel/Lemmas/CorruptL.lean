/-
  Lemmas for C15 (`corrupt::edit_word`): `normExcl` membership, a case characterisation of
  `kindOutcomes`, and the per-edit facts (bound of the re-indexed exclusion set, preservation of
  protected characters).
-/
import TuModel.Model.Corrupt
namespace Tu

theorem mem_normExcl {x : Nat} {l : List Nat} : x ∈ normExcl l ↔ x ∈ l := by
  simp [normExcl, List.mem_eraseDups]

/-! ### which results a fixed edit kind can produce -/

theorem mem_kindOutcomes_ins {c : EditCfg} {word : List Cl} {excl : List Nat} {r : List Cl × List Nat}
    (h : r ∈ kindOutcomes c word excl .ins) :
    r = (word, normExcl excl) ∨
    ∃ idx e, idx ≤ word.length ∧ idx ∉ excl ∧ (0 < idx → idx - 1 ∉ excl) ∧ r = applyInsert word excl idx e := by
  simp only [kindOutcomes] at h
  split at h
  · left; simpa using h
  · right
    simp only [List.mem_flatMap, List.mem_filterMap, List.mem_range, List.mem_map] at h
    obtain ⟨⟨idx, es⟩, ⟨i, hi, hc⟩, e, he, rfl⟩ := h
    split at hc
    · simp at hc
    · rename_i hne
      simp only [Option.map_eq_some_iff, Prod.mk.injEq] at hc
      obtain ⟨_, _, rfl, rfl⟩ := hc
      simp only [List.contains_eq_mem, Bool.or_eq_true, decide_eq_true_eq, Bool.and_eq_true, not_or, not_and] at hne
      exact ⟨i, e, by omega, hne.1, hne.2, rfl⟩

theorem mem_kindOutcomes_del {c : EditCfg} {word : List Cl} {excl : List Nat} {r : List Cl × List Nat}
    (h : r ∈ kindOutcomes c word excl .del) :
    r = (word, normExcl excl) ∨
    ∃ idx, idx < word.length ∧ idx ∉ excl ∧ r = applyDelete word excl idx := by
  simp only [kindOutcomes] at h
  split at h
  · left; simpa using h
  · right
    simp only [List.mem_map, List.mem_filter, List.mem_range] at h
    obtain ⟨i, ⟨hi, hc⟩, rfl⟩ := h
    simp only [List.contains_eq_mem, Bool.and_eq_true, Bool.not_eq_true', decide_eq_false_iff_not] at hc
    exact ⟨i, hi, hc.1.1, rfl⟩

theorem mem_kindOutcomes_rep {c : EditCfg} {word : List Cl} {excl : List Nat} {r : List Cl × List Nat}
    (h : r ∈ kindOutcomes c word excl .rep) :
    r = (word, normExcl excl) ∨
    ∃ idx e, idx < word.length ∧ idx ∉ excl ∧ r = applyReplace word excl idx e := by
  simp only [kindOutcomes] at h
  split at h
  · left; simpa using h
  · right
    simp only [List.mem_flatMap, List.mem_filterMap, List.mem_range, List.mem_map] at h
    obtain ⟨⟨idx, es⟩, ⟨i, hi, hc⟩, e, he, rfl⟩ := h
    split at hc
    · simp at hc
    · rename_i hne
      simp only [Option.map_eq_some_iff, Prod.mk.injEq] at hc
      obtain ⟨_, _, rfl, rfl⟩ := hc
      simp only [List.contains_eq_mem, decide_eq_true_eq] at hne
      exact ⟨i, e, hi, hne, rfl⟩

theorem mem_kindOutcomes_swp {c : EditCfg} {word : List Cl} {excl : List Nat} {r : List Cl × List Nat}
    (h : r ∈ kindOutcomes c word excl .swp) :
    r = (word, normExcl excl) ∨
    ∃ idx, idx + 1 < word.length ∧ idx ∉ excl ∧ idx + 1 ∉ excl ∧ r = applySwap word excl idx := by
  simp only [kindOutcomes] at h
  split at h
  · left; simpa using h
  · split at h
    · left; simpa using h
    · right
      simp only [List.mem_map, List.mem_filter, List.mem_range] at h
      obtain ⟨i, ⟨hi, hc⟩, rfl⟩ := h
      simp only [List.contains_eq_mem, Bool.and_eq_true, Bool.not_eq_true', Bool.or_eq_false_iff,
        decide_eq_false_iff_not] at hc
      exact ⟨i, by omega, hc.1.1, hc.1.2, rfl⟩

/-! ### indexing into a spliced word -/

theorem getElem?_splice_left {α} (word mid tail : List α) (idx i : Nat) (hidx : idx ≤ word.length) (hi : i < idx) :
    (word.take idx ++ mid ++ tail)[i]? = word[i]? := by
  rw [List.append_assoc, List.getElem?_append_left (by simp [List.length_take]; omega), List.getElem?_take]
  simp [hi]

theorem getElem?_splice_right {α} (word mid : List α) (idx k j : Nat) (hidx : idx ≤ word.length)
    (hj : idx + mid.length ≤ j) :
    (word.take idx ++ mid ++ word.drop k)[j]? = word[k + (j - idx - mid.length)]? := by
  rw [List.getElem?_append_right (by simp [List.length_take]; omega), List.getElem?_drop]
  congr 1
  simp [List.length_take]
  omega

/-! ### the re-indexed exclusion set stays inside the new word -/

theorem applyInsert_bound {word : List Cl} {excl : List Nat} {idx : Nat} {e : List Cl}
    (hex : ∀ i ∈ excl, i < word.length) (hidx : idx ≤ word.length) :
    ∀ j ∈ (applyInsert word excl idx e).2, j < (applyInsert word excl idx e).1.length := by
  intro j hj
  simp only [applyInsert, mem_normExcl, List.mem_append, List.mem_map, List.mem_range] at hj
  simp only [applyInsert, List.length_append, List.length_take, List.length_drop]
  rcases hj with ⟨i, hi, rfl⟩ | ⟨k, hk, rfl⟩
  · have := hex i hi
    split <;> omega
  · omega

theorem applyDelete_bound {word : List Cl} {excl : List Nat} {idx : Nat}
    (hex : ∀ i ∈ excl, i < word.length) (hidx : idx < word.length) (hne : idx ∉ excl) :
    ∀ j ∈ (applyDelete word excl idx).2, j < (applyDelete word excl idx).1.length := by
  intro j hj
  simp only [applyDelete, mem_normExcl, List.mem_map] at hj
  simp only [applyDelete, List.length_append, List.length_take, List.length_drop]
  obtain ⟨i, hi, rfl⟩ := hj
  have := hex i hi
  have : i ≠ idx := fun h => hne (h ▸ hi)
  split <;> omega

theorem applyReplace_bound {word : List Cl} {excl : List Nat} {idx : Nat} {e : List Cl}
    (hex : ∀ i ∈ excl, i < word.length) (hidx : idx < word.length) (hne : idx ∉ excl) :
    ∀ j ∈ (applyReplace word excl idx e).2, j < (applyReplace word excl idx e).1.length := by
  intro j hj
  simp only [applyReplace, mem_normExcl, List.mem_append, List.mem_map, List.mem_range] at hj
  simp only [applyReplace, List.length_append, List.length_take, List.length_drop]
  rcases hj with ⟨i, hi, rfl⟩ | ⟨k, hk, rfl⟩
  · have := hex i hi
    have : i ≠ idx := fun h => hne (h ▸ hi)
    split <;> omega
  · omega

theorem applySwap_bound {word : List Cl} {excl : List Nat} {idx : Nat}
    (hex : ∀ i ∈ excl, i < word.length) (hidx : idx + 1 < word.length) :
    ∀ j ∈ (applySwap word excl idx).2, j < (applySwap word excl idx).1.length := by
  intro j hj
  simp only [applySwap, mem_normExcl, List.mem_append, List.mem_cons, List.not_mem_nil, or_false] at hj
  simp only [applySwap, List.length_append, List.length_take, List.length_drop, List.length_cons]
  rcases hj with hi | rfl | rfl
  · have := hex j hi
    omega
  · omega
  · omega

/-! ### protected characters keep their content -/

theorem applyInsert_protected {word : List Cl} {excl : List Nat} {idx : Nat} {e : List Cl}
    (hidx : idx ≤ word.length) :
    ∀ i ∈ excl, ∃ j, j ∈ (applyInsert word excl idx e).2 ∧ (applyInsert word excl idx e).1[j]? = word[i]? := by
  intro i hi
  refine ⟨if i ≥ idx then i + e.length else i, ?_, ?_⟩
  · simp only [applyInsert, mem_normExcl, List.mem_append, List.mem_map]
    exact Or.inl ⟨i, hi, rfl⟩
  · simp only [applyInsert]
    split
    · rw [getElem?_splice_right word e idx idx _ hidx (by omega)]
      congr 1; omega
    · exact getElem?_splice_left word e _ idx i hidx (by omega)

theorem applyDelete_protected {word : List Cl} {excl : List Nat} {idx : Nat}
    (hidx : idx < word.length) (hne : idx ∉ excl) :
    ∀ i ∈ excl, ∃ j, j ∈ (applyDelete word excl idx).2 ∧ (applyDelete word excl idx).1[j]? = word[i]? := by
  intro i hi
  have hii : i ≠ idx := fun h => hne (h ▸ hi)
  refine ⟨if i > idx then i - 1 else i, ?_, ?_⟩
  · simp only [applyDelete, mem_normExcl, List.mem_map]
    exact ⟨i, hi, rfl⟩
  · simp only [applyDelete]
    have h0 : word.take idx ++ word.drop (idx + 1) = word.take idx ++ [] ++ word.drop (idx + 1) := by simp
    rw [h0]
    split
    · rw [getElem?_splice_right word [] idx (idx + 1) _ (by omega) (by simp; omega)]
      congr 1; simp; omega
    · exact getElem?_splice_left word [] _ idx i (by omega) (by omega)

theorem applyReplace_protected {word : List Cl} {excl : List Nat} {idx : Nat} {e : List Cl}
    (hidx : idx < word.length) (hne : idx ∉ excl) :
    ∀ i ∈ excl, ∃ j, j ∈ (applyReplace word excl idx e).2 ∧ (applyReplace word excl idx e).1[j]? = word[i]? := by
  intro i hi
  have hii : i ≠ idx := fun h => hne (h ▸ hi)
  refine ⟨if i > idx then i + e.length - 1 else i, ?_, ?_⟩
  · simp only [applyReplace, mem_normExcl, List.mem_append, List.mem_map]
    exact Or.inl ⟨i, hi, rfl⟩
  · simp only [applyReplace]
    split
    · rw [getElem?_splice_right word e idx (idx + 1) _ (by omega) (by omega)]
      congr 1; omega
    · exact getElem?_splice_left word e _ idx i (by omega) (by omega)

theorem applySwap_protected {word : List Cl} {excl : List Nat} {idx : Nat}
    (hidx : idx + 1 < word.length) (hne : idx ∉ excl) (hne1 : idx + 1 ∉ excl) :
    ∀ i ∈ excl, ∃ j, j ∈ (applySwap word excl idx).2 ∧ (applySwap word excl idx).1[j]? = word[i]? := by
  intro i hi
  have hii : i ≠ idx := fun h => hne (h ▸ hi)
  have hii1 : i ≠ idx + 1 := fun h => hne1 (h ▸ hi)
  refine ⟨i, ?_, ?_⟩
  · simp only [applySwap, mem_normExcl, List.mem_append]
    exact Or.inl hi
  · simp only [applySwap]
    have h0 : ∀ a b : Cl, word.take idx ++ a :: b :: word.drop (idx + 2)
        = word.take idx ++ [a, b] ++ word.drop (idx + 2) := by simp
    rw [h0]
    by_cases h : i < idx
    · exact getElem?_splice_left word _ _ idx i (by omega) h
    · rw [getElem?_splice_right word _ idx (idx + 2) _ (by omega) (by simp; omega)]
      congr 1; simp; omega

/-! ### enabled kinds, `outcomes`, `editWord` -/

theorem mem_kinds_ins {c : EditCfg} : EdKind.ins ∈ c.kinds ↔ c.insert.isSome := by
  simp only [EditCfg.kinds, List.mem_append]
  constructor
  · rintro (((h | h) | h) | h) <;> split at h <;> simp_all
  · intro h; simp [h]

theorem mem_kinds_del {c : EditCfg} : EdKind.del ∈ c.kinds ↔ c.delete.isSome := by
  simp only [EditCfg.kinds, List.mem_append]
  constructor
  · rintro (((h | h) | h) | h) <;> split at h <;> simp_all
  · intro h; simp [h]

theorem mem_kinds_rep {c : EditCfg} : EdKind.rep ∈ c.kinds ↔ c.replace.isSome := by
  simp only [EditCfg.kinds, List.mem_append]
  constructor
  · rintro (((h | h) | h) | h) <;> split at h <;> simp_all
  · intro h; simp [h]

theorem mem_kinds_swp {c : EditCfg} : EdKind.swp ∈ c.kinds ↔ c.swap = true := by
  simp only [EditCfg.kinds, List.mem_append]
  constructor
  · rintro (((h | h) | h) | h) <;> split at h <;> simp_all
  · intro h; simp [h]

theorem mem_outcomes {c : EditCfg} {word : List Cl} {excl : List Nat} {r : List Cl × List Nat}
    (h : r ∈ outcomes c word excl) :
    r = (word, normExcl excl) ∨ ∃ kind ∈ c.kinds, r ∈ kindOutcomes c word excl kind := by
  unfold outcomes at h
  split at h
  · left; simpa using h
  · right; simpa [List.mem_flatMap] using h

theorem mem_outcomes_of_kind {c : EditCfg} {word : List Cl} {excl : List Nat} {r : List Cl × List Nat}
    {kind : EdKind} (hk : kind ∈ c.kinds) (h : r ∈ kindOutcomes c word excl kind) : r ∈ outcomes c word excl := by
  unfold outcomes
  have : c.kinds.isEmpty = false := by cases hc : c.kinds <;> simp_all
  simp only [this, Bool.false_eq_true, if_false, List.mem_flatMap]
  exact ⟨kind, hk, h⟩

/-- `editWord` returns a listed outcome, or (only when the chosen kind has an empty outcome list: a table
entry without edit strings) the unchanged word -/
theorem editWord_cases (c : EditCfg) (word : List Cl) (excl : List Nat) (c1 c2 : Nat) :
    editWord c word excl c1 c2 ∈ outcomes c word excl ∨
    (editWord c word excl c1 c2 = (word, normExcl excl) ∧ ∃ kind ∈ c.kinds, kindOutcomes c word excl kind = []) := by
  unfold editWord
  split
  · rename_i hk
    left; simp [outcomes, hk]
  · rename_i k ks hk
    have hlt : c1 % (ks.length + 1) < (k :: ks).length := by
      simp only [List.length_cons]; exact Nat.mod_lt _ (by omega)
    have hkind : (k :: ks).getD (c1 % (ks.length + 1)) k ∈ c.kinds := by
      rw [hk, List.getD_eq_getElem?_getD, List.getElem?_eq_getElem hlt]
      exact List.getElem_mem hlt
    generalize (k :: ks).getD (c1 % (ks.length + 1)) k = kind at hkind
    simp only
    by_cases hne : kindOutcomes c word excl kind = []
    · right
      exact ⟨by simp [hne], kind, hkind, hne⟩
    · left
      have hpos : 0 < (kindOutcomes c word excl kind).length := List.length_pos_iff.mpr hne
      have hlt2 : c2 % (kindOutcomes c word excl kind).length < (kindOutcomes c word excl kind).length :=
        Nat.mod_lt _ hpos
      rw [List.getD_eq_getElem?_getD, List.getElem?_eq_getElem hlt2]
      exact mem_outcomes_of_kind hkind (List.getElem_mem hlt2)

/-- every context-table entry offers at least one edit string (otherwise `sample_edit` panics on
`WeightedIndex::new(&[])`) -/
def TablesNonempty (c : EditCfg) : Prop :=
  (∀ t, c.insert = some t → ∀ en ∈ t, en.2 ≠ []) ∧ (∀ t, c.replace = some t → ∀ en ∈ t, en.2 ≠ [])

theorem flatMap_ne_nil_of_all {α β} (l : List α) (f : α → List β) (hl : l ≠ []) (hf : ∀ a ∈ l, f a ≠ []) :
    l.flatMap f ≠ [] := by
  cases l with
  | nil => exact absurd rfl hl
  | cons a t =>
    simp only [List.flatMap_cons, ne_eq, List.append_eq_nil_iff, not_and]
    intro h; exact absurd h (hf a (by simp))

theorem insertLookup_ne_nil {tbl} {word : List Cl} {idx : Nat} {es : List (List Cl)}
    (ht : ∀ en ∈ tbl, en.2 ≠ []) (h : insertLookup tbl word idx = some es) : es ≠ [] := by
  simp only [insertLookup, Option.map_eq_some_iff] at h
  obtain ⟨en, hf, rfl⟩ := h
  exact ht en (List.mem_of_find?_eq_some hf)

theorem replaceLookup_ne_nil {tbl} {word : List Cl} {idx : Nat} {es : List (List Cl)}
    (ht : ∀ en ∈ tbl, en.2 ≠ []) (h : replaceLookup tbl word idx = some es) : es ≠ [] := by
  simp only [replaceLookup] at h
  split at h
  · simp at h
  · simp only [Option.map_eq_some_iff] at h
    obtain ⟨en, hf, rfl⟩ := h
    exact ht en (List.mem_of_find?_eq_some hf)

theorem kindOutcomes_ne_nil {c : EditCfg} (hc : TablesNonempty c) (word : List Cl) (excl : List Nat) (kind : EdKind) :
    kindOutcomes c word excl kind ≠ [] := by
  cases kind with
  | ins =>
    simp only [kindOutcomes]
    split
    · simp
    · rename_i hne
      apply flatMap_ne_nil_of_all
      · intro h; exact hne (by rw [h]; rfl)
      · rintro ⟨idx, es⟩ hmem
        simp only [List.mem_filterMap, List.mem_range] at hmem
        obtain ⟨i, _, hi⟩ := hmem
        split at hi
        · simp at hi
        · simp only [Option.map_eq_some_iff, Prod.mk.injEq] at hi
          obtain ⟨es', hl, _, rfl⟩ := hi
          have : es' ≠ [] := by
            cases hins : c.insert with
            | none => simp [hins, insertLookup] at hl
            | some t => rw [hins] at hl; exact insertLookup_ne_nil (hc.1 t hins) hl
          simpa using this
  | del =>
    simp only [kindOutcomes]
    split
    · simp
    · rename_i hne
      simpa using hne
  | rep =>
    simp only [kindOutcomes]
    split
    · simp
    · rename_i hne
      apply flatMap_ne_nil_of_all
      · intro h; exact hne (by rw [h]; rfl)
      · rintro ⟨idx, es⟩ hmem
        simp only [List.mem_filterMap, List.mem_range] at hmem
        obtain ⟨i, _, hi⟩ := hmem
        split at hi
        · simp at hi
        · simp only [Option.map_eq_some_iff, Prod.mk.injEq] at hi
          obtain ⟨es', hl, _, rfl⟩ := hi
          have : es' ≠ [] := by
            cases hrep : c.replace with
            | none =>
              rw [hrep] at hl
              simp only [Option.getD_none, replaceLookup] at hl
              split at hl <;> simp at hl
            | some t => rw [hrep] at hl; exact replaceLookup_ne_nil (hc.2 t hrep) hl
          simpa using this
  | swp =>
    simp only [kindOutcomes]
    split
    · simp
    · split
      · simp
      · rename_i hne
        simpa using hne

/-! ### `normExcl` is strictly sorted; a structurally recursive evaluator (for `decide`) -/

theorem pairwise_lt_eraseDups : ∀ (n : Nat) (l : List Nat), l.length ≤ n → l.Pairwise (· ≤ ·) →
    l.eraseDups.Pairwise (· < ·) := by
  intro n
  induction n with
  | zero =>
    intro l hl _
    have : l = [] := List.eq_nil_of_length_eq_zero (by omega)
    subst this; simp
  | succ n ih =>
    intro l hl hp
    cases l with
    | nil => simp
    | cons a as =>
      rw [List.eraseDups_cons, List.pairwise_cons]
      rw [List.pairwise_cons] at hp
      constructor
      · intro x hx
        rw [List.mem_eraseDups, List.mem_filter] at hx
        have h1 := hp.1 x hx.1
        have h2 : x ≠ a := by simpa using hx.2
        omega
      · apply ih
        · refine Nat.le_trans (List.length_filter_le _ as) ?_
          simp only [List.length_cons] at hl
          omega
        · exact hp.2.filter _

theorem normExcl_sorted (l : List Nat) : (normExcl l).Pairwise (· < ·) := by
  unfold normExcl
  apply pairwise_lt_eraseDups _ _ (Nat.le_refl _)
  have := List.pairwise_mergeSort (le := fun (a b : Nat) => decide (a ≤ b))
    (by intro a b c; simp; omega) (by intro a b; simp; omega) l
  simpa using this

theorem normExcl_nodup (l : List Nat) : (normExcl l).Nodup :=
  (normExcl_sorted l).imp (by intro a b h; omega)

theorem sorted_lt_ext : ∀ (l1 l2 : List Nat), l1.Pairwise (· < ·) → l2.Pairwise (· < ·) →
    (∀ x, x ∈ l1 ↔ x ∈ l2) → l1 = l2
  | [], [], _, _, _ => rfl
  | [], b :: l2, _, _, h => absurd ((h b).mpr (by simp)) (by simp)
  | a :: l1, [], _, _, h => absurd ((h a).mp (by simp)) (by simp)
  | a :: l1, b :: l2, h1, h2, h => by
    rw [List.pairwise_cons] at h1 h2
    have hab : a = b := by
      have ha := (h a).mp (by simp)
      have hb := (h b).mpr (by simp)
      simp only [List.mem_cons] at ha hb
      rcases ha with ha | ha
      · exact ha
      · rcases hb with hb | hb
        · exact hb.symm
        · have := h2.1 a ha
          have := h1.1 b hb
          omega
    subst hab
    congr 1
    apply sorted_lt_ext l1 l2 h1.2 h2.2
    intro x
    constructor
    · intro hx
      have := (h x).mp (by simp [hx])
      simp only [List.mem_cons] at this
      rcases this with rfl | this
      · have := h1.1 x hx; omega
      · exact this
    · intro hx
      have := (h x).mpr (by simp [hx])
      simp only [List.mem_cons] at this
      rcases this with rfl | this
      · have := h2.1 x hx; omega
      · exact this

/-- insertion into a strictly sorted list, dropping duplicates -/
def insS (x : Nat) : List Nat → List Nat
  | [] => [x]
  | y :: ys => if x < y then x :: y :: ys else if x = y then y :: ys else y :: insS x ys

/-- `normExcl` by structural recursion (reduces in the kernel, so `decide` can evaluate it) -/
def normExclS (l : List Nat) : List Nat := l.foldr insS []

theorem mem_insS {x y : Nat} {l : List Nat} : y ∈ insS x l ↔ y = x ∨ y ∈ l := by
  induction l with
  | nil => simp [insS]
  | cons z zs ih =>
    simp only [insS]
    split
    · simp
    · split
      · subst_vars; simp
      · simp only [List.mem_cons, ih]
        constructor
        · rintro (h | h | h) <;> simp [h]
        · rintro (h | h | h) <;> simp [h]

theorem insS_sorted {x : Nat} {l : List Nat} (h : l.Pairwise (· < ·)) : (insS x l).Pairwise (· < ·) := by
  induction l with
  | nil => simp [insS]
  | cons z zs ih =>
    rw [List.pairwise_cons] at h
    simp only [insS]
    split
    · rename_i hxz
      rw [List.pairwise_cons]
      refine ⟨?_, List.pairwise_cons.mpr h⟩
      intro w hw
      simp only [List.mem_cons] at hw
      rcases hw with rfl | hw
      · exact hxz
      · have := h.1 w hw; omega
    · split
      · exact List.pairwise_cons.mpr h
      · rw [List.pairwise_cons]
        refine ⟨?_, ih h.2⟩
        intro w hw
        rcases mem_insS.mp hw with rfl | hw
        · omega
        · exact h.1 w hw

theorem mem_normExclS {x : Nat} {l : List Nat} : x ∈ normExclS l ↔ x ∈ l := by
  induction l with
  | nil => simp [normExclS]
  | cons a as ih =>
    have : normExclS (a :: as) = insS a (normExclS as) := rfl
    rw [this, mem_insS, ih]; simp

theorem normExclS_sorted (l : List Nat) : (normExclS l).Pairwise (· < ·) := by
  induction l with
  | nil => simp [normExclS]
  | cons a as ih => exact insS_sorted ih

theorem normExcl_eq_normExclS (l : List Nat) : normExcl l = normExclS l :=
  sorted_lt_ext _ _ (normExcl_sorted l) (normExclS_sorted l)
    (fun x => by rw [mem_normExcl, mem_normExclS])

end Tu
