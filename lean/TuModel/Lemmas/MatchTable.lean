import TuModel.Lemmas.MatchL
import TuModel.Lemmas.FlatTable
namespace Tu

/-- LCS length of the prefixes of length `i` and `j` -/
def refL (a b : List (List Nat)) (i j : Nat) : Nat := lcsR (a.take i).reverse (b.take j).reverse

/-- what the recorded operation of cell `(i, j)` promises -/
def MOpOK (a b : List (List Nat)) (i j : Nat) : MOp → Prop
  | .none => False
  | .delete => 1 ≤ i ∧ refL a b i j = refL a b (i - 1) j
  | .insert => 1 ≤ j ∧ refL a b i j = refL a b i (j - 1)
  | .matched => 1 ≤ i ∧ 1 ≤ j ∧ a.getD (i - 1) [] = b.getD (j - 1) [] ∧ refL a b i j = refL a b (i - 1) (j - 1) + 1
  | .unmatched => (i = 0 ∧ j = 0) ∨ (1 ≤ i ∧ 1 ≤ j ∧ refL a b i j = refL a b (i - 1) (j - 1))

def MCellOK (a b : List (List Nat)) (i j : Nat) (v : Nat × MOp) : Prop :=
  v.1 = refL a b i j ∧ MOpOK a b i j v.2

theorem mStep_ok (a b : List (List Nat)) (get : Nat → Nat → Nat × MOp) (i j : Nat)
    (hi : i ≤ a.length) (hj : j ≤ b.length)
    (hget : ∀ i' j', (i' < i ∨ (i' = i ∧ j' < j)) → j' ≤ b.length → MCellOK a b i' j' (get i' j')) :
    MCellOK a b i j (mStep a b get i j) := by
  cases i with
  | zero =>
    cases j with
    | zero => simp [mStep, MCellOK, MOpOK, refL, lcsR_nil_left]
    | succ j => simp [mStep, MCellOK, MOpOK, refL, lcsR_nil_left]
  | succ i =>
    cases j with
    | zero => simp [mStep, MCellOK, MOpOK, refL, lcsR_nil_right]
    | succ j =>
      have hi' : i < a.length := by omega
      have hj' : j < b.length := by omega
      have e1 : (get i (j + 1)).1 = refL a b i (j + 1) := (hget i (j + 1) (Or.inl (by omega)) (by omega)).1
      have e2 : (get (i + 1) j).1 = refL a b (i + 1) j := (hget (i + 1) j (Or.inr ⟨rfl, by omega⟩) (by omega)).1
      have e3 : (get i j).1 = refL a b i j := (hget i j (Or.inl (by omega)) (by omega)).1
      have hx : a.getD i [] = a[i] := by simp [List.getD_eq_getElem?_getD, List.getElem?_eq_getElem hi']
      have hy : b.getD j [] = b[j] := by simp [List.getD_eq_getElem?_getD, List.getElem?_eq_getElem hj']
      have hrec : refL a b (i + 1) (j + 1) =
          (maxByFst (mCandidates (a[i] == b[j]) (refL a b i (j + 1)) (refL a b (i + 1) j) (refL a b i j))).1 := by
        unfold refL
        rw [take_succ_reverse a i hi', take_succ_reverse b j hj', lcsR_cons]
      simp only [mStep, e1, e2, e3, hx, hy]
      have hmem := maxByFst_mem (l := mCandidates (a[i] == b[j]) (refL a b i (j + 1)) (refL a b (i + 1) j) (refL a b i j))
        (by simp [mCandidates])
      refine ⟨hrec.symm, ?_⟩
      rcases mem_mCandidates.mp hmem with h | h | ⟨he, h⟩ | ⟨he, h⟩
      · rw [h]; simp only [MOpOK]; rw [hrec, h]; simp
      · rw [h]; simp only [MOpOK]; rw [hrec, h]; simp
      · rw [h]; simp only [MOpOK]; rw [hrec, h]
        simp only [Nat.add_sub_cancel, hx, hy]
        simp
        simpa using he
      · rw [h]; simp only [MOpOK]; rw [hrec, h]
        simp

theorem mFill_spec (a b : List (List Nat)) :
    ∀ i j, i ≤ a.length → j ≤ b.length → MCellOK a b i j (mGet (mFill a b) (b.length + 1) i j) := by
  have := flat_fill_spec (0, MOp.none) (mStep a b) (a.length + 1) (b.length + 1) (by omega) (MCellOK a b)
    (by
      intro get i j hi hj hget
      exact mStep_ok a b get i j (by omega) (by omega) (fun i' j' h h' => hget i' j' h (by omega)))
  intro i j hi hj
  exact this.2 i j (by omega) (by omega)

/-- the pairs collected by the backtrace from cell `(i, j)` -/
structure MatchOK (a b : List (List Nat)) (i j : Nat) (l : List (Nat × Nat)) : Prop where
  len : l.length = refL a b i j
  bound : ∀ p ∈ l, p.1 < i ∧ p.2 < j
  eq : ∀ p ∈ l, a.getD p.1 [] = b.getD p.2 []
  incr : l.Pairwise (fun p q => p.1 < q.1 ∧ p.2 < q.2)

theorem MatchOK.mono {a b i j i' j' l} (h : MatchOK a b i j l) (hi : i ≤ i') (hj : j ≤ j')
    (hl : refL a b i j = refL a b i' j') : MatchOK a b i' j' l :=
  ⟨by rw [h.len, hl], fun p hp => by have := h.bound p hp; omega, h.eq, h.incr⟩

theorem MatchOK.snoc {a b i j l} (h : MatchOK a b i j l) (he : a.getD i [] = b.getD j [])
    (hl : refL a b (i + 1) (j + 1) = refL a b i j + 1) : MatchOK a b (i + 1) (j + 1) (l ++ [(i, j)]) := by
  refine ⟨by simp [h.len, hl], ?_, ?_, ?_⟩
  · intro p hp
    rcases List.mem_append.mp hp with hp | hp
    · have := h.bound p hp; omega
    · simp at hp; subst hp; simp
  · intro p hp
    rcases List.mem_append.mp hp with hp | hp
    · exact h.eq p hp
    · simp at hp; subst hp; exact he
  · rw [List.pairwise_append]
    refine ⟨h.incr, by simp, ?_⟩
    intro p hp q hq
    simp at hq; subst hq
    exact h.bound p hp

theorem mBacktrace_ok (a b : List (List Nat)) :
    ∀ (fuel i j : Nat) (acc : List (Nat × Nat)), i ≤ a.length → j ≤ b.length → i + j < fuel →
      ∃ l, mBacktrace (mFill a b) (b.length + 1) fuel i j acc = some (l ++ acc) ∧ MatchOK a b i j l := by
  intro fuel
  induction fuel with
  | zero => intro i j acc _ _ h; omega
  | succ fuel ih =>
    intro i j acc hi hj hf
    unfold mBacktrace
    by_cases h0 : i = 0 ∧ j = 0
    · simp only [h0, and_self, if_true]
      refine ⟨[], by simp, ?_⟩
      obtain ⟨rfl, rfl⟩ := h0
      exact ⟨by simp [refL, lcsR_nil_left], by simp, by simp, by simp⟩
    · simp only [h0, if_false]
      obtain ⟨_, hop⟩ := mFill_spec a b i j hi hj
      cases hv : (mGet (mFill a b) (b.length + 1) i j).2 with
      | none => rw [hv] at hop; exact absurd hop (by simp [MOpOK])
      | delete =>
        rw [hv] at hop
        obtain ⟨h1, hl⟩ := hop
        simp only [h1, if_true]
        obtain ⟨l, hb, hok⟩ := ih (i - 1) j acc (by omega) hj (by omega)
        exact ⟨l, hb, hok.mono (by omega) (by omega) hl.symm⟩
      | insert =>
        rw [hv] at hop
        obtain ⟨h1, hl⟩ := hop
        simp only [h1, if_true]
        obtain ⟨l, hb, hok⟩ := ih i (j - 1) acc hi (by omega) (by omega)
        exact ⟨l, hb, hok.mono (by omega) (by omega) hl.symm⟩
      | matched =>
        rw [hv] at hop
        obtain ⟨h1, h2, he, hl⟩ := hop
        simp only [h1, h2, and_self, if_true]
        obtain ⟨l, hb, hok⟩ := ih (i - 1) (j - 1) ((i - 1, j - 1) :: acc) (by omega) (by omega) (by omega)
        refine ⟨l ++ [(i - 1, j - 1)], by simpa using hb, ?_⟩
        have := hok.snoc he (by rw [show i - 1 + 1 = i by omega, show j - 1 + 1 = j by omega]; exact hl)
        rwa [show i - 1 + 1 = i by omega, show j - 1 + 1 = j by omega] at this
      | unmatched =>
        rw [hv] at hop
        rcases hop with hz | ⟨h1, h2, hl⟩
        · exact absurd hz h0
        · simp only [h1, h2, and_self, if_true]
          obtain ⟨l, hb, hok⟩ := ih (i - 1) (j - 1) acc (by omega) (by omega) (by omega)
          exact ⟨l, hb, hok.mono (by omega) (by omega) hl.symm⟩

end Tu
