import TuModel.Lemmas.EditTable
namespace Tu

/-- a row-major table filled cell by cell, every cell computed from already filled cells: if the
step function establishes `Q i j` from `Q` on all earlier cells, then `Q` holds everywhere. -/
theorem flat_fill_spec {β : Type} (dflt : β) (step : (Nat → Nat → β) → Nat → Nat → β) (rows cols : Nat)
    (hc : 0 < cols) (Q : Nat → Nat → β → Prop)
    (hstep : ∀ (get : Nat → Nat → β) (i j : Nat), i < rows → j < cols →
      (∀ i' j', (i' < i ∨ (i' = i ∧ j' < j)) → j' < cols → Q i' j' (get i' j')) → Q i j (step get i j)) :
    ((List.range (rows * cols)).foldl
        (fun t k => t.push (step (fun i j => t.getD (i * cols + j) dflt) (k / cols) (k % cols))) #[]).size = rows * cols ∧
    ∀ i j, i < rows → j < cols →
      Q i j (((List.range (rows * cols)).foldl
        (fun t k => t.push (step (fun i j => t.getD (i * cols + j) dflt) (k / cols) (k % cols))) #[]).getD (i * cols + j) dflt) := by
  have key := fold_push_inv
    (fun t k => step (fun i j => t.getD (i * cols + j) dflt) (k / cols) (k % cols))
    (fun idx v => idx / cols < rows → Q (idx / cols) (idx % cols) v)
    (by
      intro tbl k hsz hP hk
      apply hstep _ _ _ hk (Nat.mod_lt k hc)
      intro i' j' hlt hj'
      have hidx : i' * cols + j' < tbl.size := by
        rw [hsz]
        have hk' : k = (k / cols) * cols + k % cols := by
          rw [Nat.mul_comm]; exact (Nat.div_add_mod k cols).symm
        rcases hlt with h | ⟨h1, h2⟩
        · have : (i' + 1) * cols ≤ (k / cols) * cols := Nat.mul_le_mul_right _ h
          rw [Nat.add_mul] at this
          omega
        · rw [h1]; omega
      have hdiv : (i' * cols + j') / cols = i' := by
        rw [Nat.mul_comm, Nat.mul_add_div hc, Nat.div_eq_of_lt hj']; simp
      have hmod : (i' * cols + j') % cols = j' := by
        rw [Nat.mul_comm, Nat.mul_add_mod, Nat.mod_eq_of_lt hj']
      have := hP _ hidx
      rw [hdiv, hmod] at this
      rw [Array.getD_eq_getD_getElem?, Array.getElem?_eq_getElem hidx]
      simp only [Option.getD_some]
      apply this
      rcases hlt with h | ⟨h1, _⟩ <;> omega)
    (rows * cols)
  refine ⟨key.1, ?_⟩
  intro i j hi hj
  have hidx : i * cols + j < rows * cols := by
    have : (i + 1) * cols ≤ rows * cols := Nat.mul_le_mul_right _ (by omega)
    rw [Nat.add_mul] at this
    omega
  have hdiv : (i * cols + j) / cols = i := by
    rw [Nat.mul_comm, Nat.mul_add_div hc, Nat.div_eq_of_lt hj]; simp
  have hmod : (i * cols + j) % cols = j := by
    rw [Nat.mul_comm, Nat.mul_add_mod, Nat.mod_eq_of_lt hj]
  have := key.2 (i * cols + j) (by rw [key.1]; exact hidx)
  rw [hdiv, hmod] at this
  rw [Array.getD_eq_getD_getElem?, Array.getElem?_eq_getElem (by rw [key.1]; exact hidx)]
  simp only [Option.getD_some]
  exact this hi

end Tu
