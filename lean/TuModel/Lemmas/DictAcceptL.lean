/-
  Helper lemmas for the relational acceptance test `dictAccept` (C20): `eraseDups` and distinctness,
  the `foldl min` of the kept frequencies, counts.
-/
import TuModel.Lemmas.DictL
namespace Tu.DictAcceptL
open Tu

/-! ### `eraseDups` and `Nodup` -/

theorem eraseDups_of_nodup {α : Type} [BEq α] [LawfulBEq α] (l : List α) (h : l.Nodup) : l.eraseDups = l := by
  induction l with
  | nil => simp
  | cons a as ih =>
    rw [List.nodup_cons] at h
    have hf : as.filter (fun b => !b == a) = as := by
      rw [List.filter_eq_self]
      intro b hb
      have : b ≠ a := fun e => h.1 (e ▸ hb)
      simpa using this
    rw [List.eraseDups_cons, hf, ih h.2]

theorem eraseDups_length_le_aux {α : Type} [BEq α] [LawfulBEq α] (n : Nat) :
    ∀ (l : List α), l.length ≤ n → l.eraseDups.length ≤ l.length := by
  induction n with
  | zero =>
    intro l hl
    have : l = [] := List.eq_nil_of_length_eq_zero (by omega)
    subst this; simp
  | succ n ih =>
    intro l hl
    cases l with
    | nil => simp
    | cons a as =>
      rw [List.eraseDups_cons]
      have h1 := List.length_filter_le (fun b => !b == a) as
      simp only [List.length_cons] at hl ⊢
      have := ih (as.filter (fun b => !b == a)) (by omega)
      omega

theorem eraseDups_length_le {α : Type} [BEq α] [LawfulBEq α] (l : List α) : l.eraseDups.length ≤ l.length :=
  eraseDups_length_le_aux l.length l (Nat.le_refl _)

theorem nodup_of_eraseDups_length {α : Type} [BEq α] [LawfulBEq α] (l : List α)
    (h : l.eraseDups.length = l.length) : l.Nodup := by
  induction l with
  | nil => simp
  | cons a as ih =>
    rw [List.eraseDups_cons] at h
    simp only [List.length_cons] at h
    have h1 := List.length_filter_le (fun b => !b == a) as
    have h2 := eraseDups_length_le (as.filter (fun b => !b == a))
    have hlen : (as.filter (fun b => !b == a)).length = as.length := by omega
    have hf : as.filter (fun b => !b == a) = as := by
      rw [List.filter_eq_self]; exact List.length_filter_eq_length_iff.1 hlen
    rw [hf] at h
    rw [List.nodup_cons]
    refine ⟨?_, ih (by omega)⟩
    intro hmem
    have := (List.filter_eq_self.1 hf) a hmem
    simp at this

theorem eraseDups_length_eq_iff {α : Type} [BEq α] [LawfulBEq α] (l : List α) :
    l.eraseDups.length = l.length ↔ l.Nodup :=
  ⟨nodup_of_eraseDups_length l, fun h => by rw [eraseDups_of_nodup l h]⟩

/-! ### `foldl min` -/

theorem foldl_min_le (l : List Nat) : ∀ (a : Nat), l.foldl min a ≤ a ∧ ∀ x ∈ l, l.foldl min a ≤ x := by
  induction l with
  | nil => intro a; simp
  | cons y l ih =>
    intro a
    obtain ⟨h1, h2⟩ := ih (min a y)
    simp only [List.foldl_cons]
    refine ⟨by omega, ?_⟩
    intro x hx
    rcases List.mem_cons.1 hx with rfl | hx
    · omega
    · exact h2 x hx

theorem le_foldl_min (l : List Nat) (c : Nat) : ∀ (a : Nat), c ≤ a → (∀ x ∈ l, c ≤ x) → c ≤ l.foldl min a := by
  induction l with
  | nil => intro a ha _; simpa using ha
  | cons y l ih =>
    intro a ha hl
    simp only [List.foldl_cons]
    apply ih
    · have := hl y List.mem_cons_self
      omega
    · intro x hx; exact hl x (List.mem_cons_of_mem _ hx)

/-! ### counts -/

theorem countOf_le_length (toks : List Tok) (t : Tok) : countOf toks t ≤ toks.length := by
  unfold countOf; exact List.length_filter_le _ _

theorem countOf_pos_iff (toks : List Tok) (t : Tok) : 0 < countOf toks t ↔ t ∈ toks := by
  unfold countOf
  rw [List.length_pos_iff_exists_mem]
  constructor
  · rintro ⟨a, ha⟩
    rw [List.mem_filter] at ha
    have : a = t := by simpa using ha.2
    exact this ▸ ha.1
  · intro h; exact ⟨t, List.mem_filter.2 ⟨h, by simp⟩⟩

theorem countAll_length (toks : List Tok) : (countAll toks).length = toks.eraseDups.length := by
  unfold countAll; rw [List.length_map]

theorem mem_countAll (toks : List Tok) (e : Tok × Nat) :
    e ∈ countAll toks ↔ e.1 ∈ toks ∧ e.2 = countOf toks e.1 := by
  obtain ⟨t, n⟩ := e
  unfold countAll
  simp only [List.mem_map, Prod.mk.injEq, List.mem_eraseDups]
  constructor
  · rintro ⟨t', ht', rfl, rfl⟩; exact ⟨ht', rfl⟩
  · rintro ⟨ht, rfl⟩; exact ⟨t, ht, rfl, rfl⟩

end Tu.DictAcceptL
