/-
  The forward-trace invariant of the backtrace of `operations()` (moved here from GroupWordsL.lean so that
  Props/C12 can use it without the word-grouping material), the index bounds it yields for every operation,
  and the lemmas about the relational acceptance test `scriptAccept` (Model/Edit.lean).
-/
import TuModel.Lemmas.EditScript
namespace Tu

/-! ## the script as a forward trace -/

/-- the scripts the backtrace can collect, built forwards from cell (0,0) -/
inductive Trace (fl : EFlags) (a b : List (List Nat)) : Nat → Nat → List (EKind × Nat × Nat) → Prop
  | zero : Trace fl a b 0 0 []
  | keep {i j l} : Trace fl a b i j l → i < a.length → j < b.length → a.getD i [] = b.getD j [] →
      Trace fl a b (i+1) (j+1) l
  | ins {i j l} : Trace fl a b i j l → j < b.length → Trace fl a b i (j+1) (l ++ [(.insert, i, j)])
  | del {i j l} : Trace fl a b i j l → i < a.length → Trace fl a b (i+1) j (l ++ [(.delete, i, j)])
  | rep {i j l} : Trace fl a b i j l → i < a.length → j < b.length →
      canReplace fl (a.getD i []) (b.getD j []) = true → Trace fl a b (i+1) (j+1) (l ++ [(.replace, i, j)])
  | swp {i j l} : Trace fl a b i j l → fl.swap = true → Trace fl a b (i+2) (j+2) (l ++ [(.swap, i, j)])

theorem backtrace_trace (fl : EFlags) (a b : List (List Nat)) :
    ∀ (fuel i j : Nat) (acc ops : List (EKind × Nat × Nat)), i ≤ a.length → j ≤ b.length →
      backtrace (fillTable fl a b) (b.length + 1) fuel i j acc = some ops →
      ∃ l, ops = l ++ acc ∧ Trace fl a b i j l := by
  intro fuel
  induction fuel with
  | zero => intro i j acc ops _ _ h; rw [backtrace] at h; exact absurd h (by simp)
  | succ fuel ih =>
    intro i j acc ops hi hj hb
    rw [backtrace] at hb
    by_cases h0 : i = 0 ∧ j = 0
    · simp only [h0, and_self, if_true, Option.some.injEq] at hb
      obtain ⟨rfl, rfl⟩ := h0
      exact ⟨[], by simp [hb], .zero⟩
    · simp only [h0, if_false] at hb
      obtain ⟨_, hop⟩ := fillTable_ok fl a b i j hi hj
      cases hv : (tblGet (fillTable fl a b) (b.length + 1) i j).2 with
      | none => rw [hv] at hop; exact absurd hop (by simp [EOpOK])
      | keep =>
        rw [hv] at hop hb
        rcases hop with hz | ⟨i', j', rfl, rfl, he, _⟩
        · exact absurd hz h0
        · simp only [Nat.add_sub_cancel, ge_iff_le, Nat.le_add_left, and_self, if_true] at hb
          obtain ⟨l, hl, ht⟩ := ih i' j' acc ops (by omega) (by omega) hb
          exact ⟨l, hl, ht.keep (by omega) (by omega) he⟩
      | insert =>
        rw [hv] at hop hb
        obtain ⟨j', rfl, _⟩ := hop
        simp only [Nat.add_sub_cancel, ge_iff_le, Nat.le_add_left, if_true] at hb
        obtain ⟨l, hl, ht⟩ := ih i j' _ ops hi (by omega) hb
        exact ⟨l ++ [(.insert, i, j')], by simp [hl], ht.ins (by omega)⟩
      | delete =>
        rw [hv] at hop hb
        obtain ⟨i', rfl, _⟩ := hop
        simp only [Nat.add_sub_cancel, ge_iff_le, Nat.le_add_left, if_true] at hb
        obtain ⟨l, hl, ht⟩ := ih i' j _ ops (by omega) hj hb
        exact ⟨l ++ [(.delete, i', j)], by simp [hl], ht.del (by omega)⟩
      | replace =>
        rw [hv] at hop hb
        obtain ⟨i', j', rfl, rfl, _, hr, _⟩ := hop
        simp only [Nat.add_sub_cancel, ge_iff_le, Nat.le_add_left, and_self, if_true] at hb
        obtain ⟨l, hl, ht⟩ := ih i' j' _ ops (by omega) (by omega) hb
        exact ⟨l ++ [(.replace, i', j')], by simp [hl], ht.rep (by omega) (by omega) hr⟩
      | swap =>
        rw [hv] at hop hb
        obtain ⟨i', j', rfl, rfl, _, _, hs, _, _⟩ := hop
        simp only [Nat.add_sub_cancel, ge_iff_le, Nat.le_add_left, and_self, if_true] at hb
        obtain ⟨l, hl, ht⟩ := ih i' j' _ ops (by omega) (by omega) hb
        exact ⟨l ++ [(.swap, i', j')], by simp [hl], ht.swp hs⟩

theorem editOperations_trace (fl : EFlags) (a b : List (List Nat)) :
    ∃ ops, editOperations fl a b = some ops ∧ Trace fl a b a.length b.length ops := by
  obtain ⟨l, hb, _⟩ := backtrace_ok fl a b (a.length + b.length + 1) a.length b.length []
    (Nat.le_refl _) (Nat.le_refl _) (by omega)
  obtain ⟨l', hl', ht⟩ := backtrace_trace fl a b _ _ _ [] _ (Nat.le_refl _) (Nat.le_refl _) hb
  refine ⟨l, by simpa [editOperations] using hb, ?_⟩
  simp only [List.append_nil] at hl'
  rw [hl']; exact ht

/-! ## index bounds of the operations of a trace -/

/-- what a trace ending in row `i` guarantees about the positions of each of its operations -/
def OpBound (a b : List (List Nat)) (i : Nat) (p : EKind × Nat × Nat) : Prop :=
  (p.1 = EKind.insert → p.2.1 ≤ i ∧ p.2.2 < b.length) ∧
  (p.1 = EKind.delete → p.2.1 < i ∧ p.2.1 < a.length) ∧
  (p.1 = EKind.replace → p.2.1 < i ∧ p.2.1 < a.length ∧ p.2.2 < b.length) ∧
  (p.1 = EKind.swap → p.2.1 + 2 ≤ i)

theorem OpBound.mono {a b : List (List Nat)} {i i' : Nat} {p : EKind × Nat × Nat}
    (h : OpBound a b i p) (hi : i ≤ i') : OpBound a b i' p := by
  obtain ⟨h1, h2, h3, h4⟩ := h
  refine ⟨fun e => ?_, fun e => ?_, fun e => ?_, fun e => ?_⟩
  · have := h1 e; omega
  · have := h2 e; omega
  · have := h3 e; omega
  · have := h4 e; omega

theorem trace_bounds {fl : EFlags} {a b : List (List Nat)} {i j : Nat} {l : List (EKind × Nat × Nat)}
    (h : Trace fl a b i j l) : ∀ p ∈ l, OpBound a b i p := by
  induction h with
  | zero => intro p hp; simp at hp
  | keep _ _ _ _ ih => intro p hp; exact (ih p hp).mono (by omega)
  | ins _ hj ih =>
    intro p hp
    rcases List.mem_append.mp hp with hp | hp
    · exact ih p hp
    · simp only [List.mem_singleton] at hp; subst hp
      simp [OpBound, hj]
  | del _ hi ih =>
    intro p hp
    rcases List.mem_append.mp hp with hp | hp
    · exact (ih p hp).mono (by omega)
    · simp only [List.mem_singleton] at hp; subst hp
      simp [OpBound, hi]
  | rep _ hi hj _ ih =>
    intro p hp
    rcases List.mem_append.mp hp with hp | hp
    · exact (ih p hp).mono (by omega)
    · simp only [List.mem_singleton] at hp; subst hp
      simp [OpBound, hi, hj]
  | swp _ _ ih =>
    intro p hp
    rcases List.mem_append.mp hp with hp | hp
    · exact (ih p hp).mono (by omega)
    · simp only [List.mem_singleton] at hp; subst hp
      simp [OpBound]

/-- every operation of the script of `operations(a, b)` refers to existing characters: a deleted or replaced
`a[i]` exists, an inserted or replacing `b[j]` exists, an insertion happens at `i ≤ |a|`, and a swap has both
`a[i]` and `a[i+1]` -/
theorem editOperations_bounds (fl : EFlags) (a b : List (List Nat)) (ops : List (EKind × Nat × Nat))
    (h : editOperations fl a b = some ops) : ∀ p ∈ ops, OpBound a b a.length p := by
  obtain ⟨ops', h', ht⟩ := editOperations_trace fl a b
  rw [h] at h'; cases h'
  exact trace_bounds ht

/-! ## `scriptSorted` is `Pairwise` -/

theorem scriptSorted_cons_cons (p q : EKind × Nat × Nat) (rest : List (EKind × Nat × Nat)) :
    scriptSorted (p :: q :: rest) = true ↔ (p.2.1 ≤ q.2.1 ∧ p.2.2 ≤ q.2.2) ∧ scriptSorted (q :: rest) = true := by
  rw [scriptSorted]; simp [Bool.and_eq_true]

theorem scriptSorted_head_le : ∀ (l : List (EKind × Nat × Nat)) (p : EKind × Nat × Nat),
    scriptSorted (p :: l) = true → ∀ q ∈ l, p.2.1 ≤ q.2.1 ∧ p.2.2 ≤ q.2.2 := by
  intro l
  induction l with
  | nil => intro p _ q hq; simp at hq
  | cons r rest ih =>
    intro p h q hq
    obtain ⟨hpr, hs⟩ := (scriptSorted_cons_cons p r rest).mp h
    rcases List.mem_cons.mp hq with rfl | hq
    · exact hpr
    · have := ih r hs q hq
      omega

theorem scriptSorted_tail : ∀ (l : List (EKind × Nat × Nat)) (p : EKind × Nat × Nat),
    scriptSorted (p :: l) = true → scriptSorted l = true := by
  intro l p h
  cases l with
  | nil => rfl
  | cons r rest => exact ((scriptSorted_cons_cons p r rest).mp h).2

/-- the adjacent-pairs test implies the pairwise order (the componentwise order is transitive) -/
theorem scriptSorted_pairwise (l : List (EKind × Nat × Nat)) (h : scriptSorted l = true) :
    l.Pairwise (fun p q => p.2.1 ≤ q.2.1 ∧ p.2.2 ≤ q.2.2) := by
  induction l with
  | nil => exact List.Pairwise.nil
  | cons p l ih =>
    exact List.Pairwise.cons (scriptSorted_head_le l p h) (ih (scriptSorted_tail l p h))

theorem pairwise_scriptSorted (l : List (EKind × Nat × Nat))
    (h : l.Pairwise (fun p q => p.2.1 ≤ q.2.1 ∧ p.2.2 ≤ q.2.2)) : scriptSorted l = true := by
  induction l with
  | nil => rfl
  | cons p l ih =>
    cases l with
    | nil => rfl
    | cons q rest =>
      rw [List.pairwise_cons] at h
      exact (scriptSorted_cons_cons p q rest).mpr ⟨h.1 q (by simp), ih h.2⟩

theorem scriptSorted_iff_pairwise (l : List (EKind × Nat × Nat)) :
    scriptSorted l = true ↔ l.Pairwise (fun p q => p.2.1 ≤ q.2.1 ∧ p.2.2 ≤ q.2.2) :=
  ⟨scriptSorted_pairwise l, pairwise_scriptSorted l⟩

/-! ## `opOk` and `scriptAccept`, clause by clause -/

theorem opOk_iff (fl : EFlags) (a b : List (List Nat)) (p : EKind × Nat × Nat) :
    opOk fl a b p = true ↔
      (p.1 = EKind.insert → p.2.2 < b.length ∧ p.2.1 ≤ a.length) ∧
      (p.1 = EKind.delete → p.2.1 < a.length) ∧
      (p.1 = EKind.replace → p.2.1 < a.length ∧ p.2.2 < b.length ∧
        canReplace fl (a.getD p.2.1 []) (b.getD p.2.2 []) = true) ∧
      (p.1 = EKind.swap → fl.swap = true ∧ p.2.1 + 1 < a.length ∧
        canReplace fl (a.getD p.2.1 []) (a.getD (p.2.1 + 1) []) = true) := by
  obtain ⟨k, i, j⟩ := p
  cases k <;> simp [opOk, Bool.and_eq_true, and_assoc]

theorem scriptAccept_iff (fl : EFlags) (a b : List (List Nat)) (ops : List (EKind × Nat × Nat)) :
    scriptAccept fl a b ops = true ↔
      ops.length = editDistance fl a b ∧ scriptSorted ops = true ∧ (∀ p ∈ ops, opOk fl a b p = true) ∧
      applyScript a b ops 0 = b := by
  unfold scriptAccept
  simp [Bool.and_eq_true, and_assoc]

end Tu
