/-
  Lemmas for the threaded `Pipe` model (Model/Pipe.lean): definitions used by C05/C09
  (`holds`, `pmeasure`, `takesLeft`), sums over `List.range W` of pointwise-updated functions,
  the inductive invariant `Inv` and its preservation by every action.
-/
import TuModel.Model.Pipe
namespace Tu

/-- worker `w` currently owns item `i` (took it, has not yet advanced `turn` past it) -/
def holds (s : PState) (w i : Nat) : Prop :=
  s.pc w = .holding i ∨ s.pc w = .computed i ∨ s.pc w = .cleared i ∨ ∃ ok, s.pc w = .sent i ok

def pcRank : PC → Nat
  | .idle => 1 | .sent _ _ => 3 | .cleared _ => 5 | .computed _ => 7 | .holding _ => 9 | .exited => 0

/-- progress measure: strictly decreases on every non-stutter step (other than `drop`) -/
def pmeasure (s : PState) : Nat :=
  10 * (s.n - s.next) + ((List.range s.W).map (fun w => pcRank (s.pc w))).sum + s.chan.length + (if s.closed then 0 else 1)

/-- takes still possible after the consumer is gone: only workers that are idle, or will become idle -/
def takesLeft (s : PState) : Nat :=
  ((List.range s.W).filter (fun w => match s.pc w with | .idle => true | .sent _ true => true | _ => false)).length

/-- the item a program counter owns -/
def PC.item : PC → Option Nat
  | .holding i => some i
  | .computed i => some i
  | .cleared i => some i
  | .sent i _ => some i
  | .idle => none
  | .exited => none

/-- 1 if the program counter owns an item -/
def PC.busy : PC → Nat
  | .idle => 0
  | .exited => 0
  | _ => 1

/-- indicator of the predicate counted by `takesLeft` -/
def PC.tl : PC → Nat
  | .idle => 1
  | .sent _ true => 1
  | _ => 0

theorem holds_iff (s : PState) (w i : Nat) : holds s w i ↔ (s.pc w).item = some i := by
  unfold holds
  cases h : s.pc w <;> simp [PC.item]

/-! ### pointwise updates -/

@[simp] theorem setPc_same (pc : Nat → PC) (w : Nat) (v : PC) : setPc pc w v w = v := by
  simp [setPc]

theorem setPc_ne (pc : Nat → PC) {w u : Nat} (v : PC) (h : u ≠ w) : setPc pc w v u = pc u := by
  simp [setPc, h]

@[simp] theorem bump_same (c : Nat → Nat) (i : Nat) : bump c i i = c i + 1 := by simp [bump]

theorem bump_ne (c : Nat → Nat) {i j : Nat} (h : j ≠ i) : bump c i j = c j := by simp [bump, h]

theorem sum_range_update_aux (g g' : Nat → Nat) (w : Nat) (h : ∀ u, u ≠ w → g' u = g u) :
    ∀ W, (w < W → ((List.range W).map g').sum + g w = ((List.range W).map g).sum + g' w) ∧
         (W ≤ w → ((List.range W).map g').sum = ((List.range W).map g).sum) := by
  intro W
  induction W with
  | zero => exact ⟨fun h => absurd h (Nat.not_lt_zero _), fun _ => rfl⟩
  | succ W ih =>
    simp only [List.range_succ, List.map_append, List.sum_append, List.map_cons, List.map_nil,
      List.sum_cons, List.sum_nil, Nat.add_zero]
    constructor
    · intro hw
      by_cases hwW : w = W
      · subst hwW
        have := ih.2 (Nat.le_refl _)
        omega
      · have := ih.1 (by omega)
        have := h W (fun e => hwW e.symm)
        omega
    · intro hw
      have := ih.2 (by omega)
      have := h W (by omega)
      omega

/-- sums over `range W` of a function updated at one point `w < W` -/
theorem sum_range_update (g g' : Nat → Nat) (w W : Nat) (hw : w < W) (h : ∀ u, u ≠ w → g' u = g u) :
    ((List.range W).map g').sum + g w = ((List.range W).map g).sum + g' w :=
  (sum_range_update_aux g g' w h W).1 hw

theorem sum_map_setPc (f : PC → Nat) (pc : Nat → PC) (w W : Nat) (v : PC) (hw : w < W) :
    ((List.range W).map (fun u => f (setPc pc w v u))).sum + f (pc w) =
      ((List.range W).map (fun u => f (pc u))).sum + f v := by
  have := sum_range_update (fun u => f (pc u)) (fun u => f (setPc pc w v u)) w W hw
    (fun u hu => by simp only [setPc_ne pc v hu])
  simpa using this

theorem sum_range_le (g : Nat → Nat) (b : Nat) (h : ∀ u, g u ≤ b) :
    ∀ W, ((List.range W).map g).sum ≤ b * W := by
  intro W
  induction W with
  | zero => simp
  | succ W ih =>
    simp only [List.range_succ, List.map_append, List.sum_append, List.map_cons, List.map_nil,
      List.sum_cons, List.sum_nil, Nat.add_zero, Nat.mul_succ]
    have := h W
    omega

theorem filter_length_eq_sum {α : Type} (p : α → Bool) (l : List α) :
    (l.filter p).length = (l.map (fun x => if p x then 1 else 0)).sum := by
  induction l with
  | nil => rfl
  | cons a l ih =>
    by_cases hp : p a = true
    · simp [hp, ih]; omega
    · simp [hp, ih]

theorem takesLeft_eq (s : PState) : takesLeft s = ((List.range s.W).map (fun u => (s.pc u).tl)).sum := by
  unfold takesLeft
  rw [filter_length_eq_sum]
  congr 1
  apply List.map_congr_left
  intro u _
  cases h : s.pc u with
  | sent i ok => cases ok <;> simp [PC.tl]
  | _ => simp [PC.tl]

theorem allExited_iff (s : PState) : allExited s = true ↔ ∀ w, w < s.W → s.pc w = .exited := by
  simp [allExited, List.all_eq_true]

/-! ### the invariant -/

structure Inv (W n : Nat) (s : PState) : Prop where
  hW : s.W = W
  hn : s.n = n
  next_le : s.next ≤ n
  turn_le : s.turn ≤ s.next
  held_ex : ∀ i, s.turn ≤ i → i < s.next → ∃ w, w < W ∧ (s.pc w).item = some i
  held_rng : ∀ w i, w < W → (s.pc w).item = some i → s.turn ≤ i ∧ i < s.next
  held_uniq : ∀ w w' i, w < W → w' < W → (s.pc w).item = some i → (s.pc w').item = some i → w = w'
  at_turn : ∀ w i, w < W → (s.pc w = .cleared i ∨ ∃ ok, s.pc w = .sent i ok) → i = s.turn
  count : s.next = s.turn + ((List.range W).map (fun u => (s.pc u).busy)).sum
  chan_le : s.chan.length ≤ W
  fifo : s.dropped = false → s.recvd ++ s.chan = List.range (s.recvd ++ s.chan).length
  len_sent : s.dropped = false → ∀ w i ok, w < W → s.pc w = .sent i ok → (s.recvd ++ s.chan).length = i + 1
  len_turn : s.dropped = false →
    (s.recvd ++ s.chan).length = s.turn ∨ ∃ w ok, w < W ∧ s.pc w = .sent s.turn ok
  sent_false : ∀ w i, w < W → s.pc w = .sent i false → s.dropped = true
  calls_hi : ∀ i, s.next ≤ i → s.calls i = 0
  calls_hold : ∀ w i, w < W → s.pc w = .holding i → s.calls i = 0
  calls_done : ∀ i, i < s.next → (∀ w, w < W → s.pc w ≠ .holding i) → s.calls i = 1
  closed_ : s.closed = true → (∀ w, w < W → s.pc w = .exited) ∧ s.chan = [] ∧ s.dropped = false
  exited_ : s.dropped = false → ∀ w, w < W → s.pc w = .exited → s.next = n

theorem inv_init (W n : Nat) : Inv W n (PState.init W n) := by
  constructor <;> simp [PState.init, PC.item, PC.busy]
  have := sum_range_le (fun _ => 0) 0 (fun _ => Nat.le_refl _) W
  omega

end Tu
