/-
  Lemmas for the threaded `Pipe` model (Model/Pipe.lean): definitions used by C05/C09
  (`holds`, `pmeasure`, `takesLeft`), sums over `List.range W` of pointwise-updated functions,
  the inductive invariant `Inv` and its preservation by every action.
-/
import TuModel.Model.Pipe
namespace Tu

/-- worker `w` currently owns item `i` (took it, has not yet advanced `turn` past it) -/
def holds (s : PState) (w i : Nat) : Prop :=
  s.pc w = .holding i ∨ s.pc w = .computed i ∨ s.pc w = .cleared i ∨ ∃ ok, s.pc w = .sent i ok

def pcRank : PC → Nat
  | .idle => 1 | .sent _ _ => 3 | .cleared _ => 5 | .computed _ => 7 | .holding _ => 9 | .exited => 0

/-- progress measure: strictly decreases on every non-stutter step (other than `drop`), provided the upstream
returns `None` for ever from its `N`-th call on -/
def pmeasure (N : Nat) (s : PState) : Nat :=
  10 * (N - s.pulls) + ((List.range s.W).map (fun w => pcRank (s.pc w))).sum + s.chan.length + (if s.closed then 0 else 1)

/-- takes still possible after the consumer is gone: only workers that are idle, or will become idle -/
def takesLeft (s : PState) : Nat :=
  ((List.range s.W).filter (fun w => match s.pc w with | .idle => true | .sent _ true => true | _ => false)).length

/-- the item a program counter owns -/
def PC.item : PC → Option Nat
  | .holding i => some i
  | .computed i => some i
  | .cleared i => some i
  | .sent i _ => some i
  | .idle => none
  | .exited => none

/-- 1 if the program counter owns an item -/
def PC.busy : PC → Nat
  | .idle => 0
  | .exited => 0
  | _ => 1

/-- 1 if the worker has left its loop -/
def PC.ex : PC → Nat
  | .exited => 1
  | _ => 0

/-- indicator of the predicate counted by `takesLeft` -/
def PC.tl : PC → Nat
  | .idle => 1
  | .sent _ true => 1
  | _ => 0

theorem holds_iff (s : PState) (w i : Nat) : holds s w i ↔ (s.pc w).item = some i := by
  unfold holds
  cases h : s.pc w <;> simp [PC.item]

/-! ### pointwise updates -/

@[simp] theorem setPc_same (pc : Nat → PC) (w : Nat) (v : PC) : setPc pc w v w = v := by
  simp [setPc]

theorem setPc_ne (pc : Nat → PC) {w u : Nat} (v : PC) (h : u ≠ w) : setPc pc w v u = pc u := by
  simp [setPc, h]

@[simp] theorem bump_same (c : Nat → Nat) (i : Nat) : bump c i i = c i + 1 := by simp [bump]

theorem bump_ne (c : Nat → Nat) {i j : Nat} (h : j ≠ i) : bump c i j = c j := by simp [bump, h]

theorem sum_range_update_aux (g g' : Nat → Nat) (w : Nat) (h : ∀ u, u ≠ w → g' u = g u) :
    ∀ W, (w < W → ((List.range W).map g').sum + g w = ((List.range W).map g).sum + g' w) ∧
         (W ≤ w → ((List.range W).map g').sum = ((List.range W).map g).sum) := by
  intro W
  induction W with
  | zero => exact ⟨fun h => absurd h (Nat.not_lt_zero _), fun _ => rfl⟩
  | succ W ih =>
    simp only [List.range_succ, List.map_append, List.sum_append, List.map_cons, List.map_nil,
      List.sum_cons, List.sum_nil, Nat.add_zero]
    constructor
    · intro hw
      by_cases hwW : w = W
      · subst hwW
        have := ih.2 (Nat.le_refl _)
        omega
      · have := ih.1 (by omega)
        have := h W (fun e => hwW e.symm)
        omega
    · intro hw
      have := ih.2 (by omega)
      have := h W (by omega)
      omega

/-- sums over `range W` of a function updated at one point `w < W` -/
theorem sum_range_update (g g' : Nat → Nat) (w W : Nat) (hw : w < W) (h : ∀ u, u ≠ w → g' u = g u) :
    ((List.range W).map g').sum + g w = ((List.range W).map g).sum + g' w :=
  (sum_range_update_aux g g' w h W).1 hw

theorem sum_map_setPc (f : PC → Nat) (pc : Nat → PC) (w W : Nat) (v : PC) (hw : w < W) :
    ((List.range W).map (fun u => f (setPc pc w v u))).sum + f (pc w) =
      ((List.range W).map (fun u => f (pc u))).sum + f v := by
  have := sum_range_update (fun u => f (pc u)) (fun u => f (setPc pc w v u)) w W hw
    (fun u hu => by simp only [setPc_ne pc v hu])
  simpa using this

theorem sum_range_le (g : Nat → Nat) (b : Nat) (h : ∀ u, g u ≤ b) :
    ∀ W, ((List.range W).map g).sum ≤ b * W := by
  intro W
  induction W with
  | zero => simp
  | succ W ih =>
    simp only [List.range_succ, List.map_append, List.sum_append, List.map_cons, List.map_nil,
      List.sum_cons, List.sum_nil, Nat.add_zero, Nat.mul_succ]
    have := h W
    omega

theorem filter_length_eq_sum {α : Type} (p : α → Bool) (l : List α) :
    (l.filter p).length = (l.map (fun x => if p x then 1 else 0)).sum := by
  induction l with
  | nil => rfl
  | cons a l ih =>
    by_cases hp : p a = true
    · simp [hp, ih]; omega
    · simp [hp, ih]

theorem takesLeft_eq (s : PState) : takesLeft s = ((List.range s.W).map (fun u => (s.pc u).tl)).sum := by
  unfold takesLeft
  rw [filter_length_eq_sum]
  congr 1
  apply List.map_congr_left
  intro u _
  cases h : s.pc u with
  | sent i ok => cases ok <;> simp [PC.tl]
  | _ => simp [PC.tl]

theorem allExited_iff (s : PState) : allExited s = true ↔ ∀ w, w < s.W → s.pc w = .exited := by
  simp [allExited, List.all_eq_true]

/-! ### upstream answers: items and gaps -/

theorem itemsBefore_succ_true {src : Nat → Bool} {k : Nat} (h : src k = true) :
    itemsBefore src (k + 1) = itemsBefore src k + 1 := by
  show itemsBefore src k + (if src k then 1 else 0) = _
  rw [h]; rfl

theorem itemsBefore_succ_false {src : Nat → Bool} {k : Nat} (h : src k = false) :
    itemsBefore src (k + 1) = itemsBefore src k := by
  show itemsBefore src k + (if src k then 1 else 0) = _
  rw [h]; rfl

theorem gapsBefore_succ_true {src : Nat → Bool} {k : Nat} (h : src k = true) :
    gapsBefore src (k + 1) = gapsBefore src k := by
  show gapsBefore src k + (if src k then 0 else 1) = _
  rw [h]; rfl

theorem gapsBefore_succ_false {src : Nat → Bool} {k : Nat} (h : src k = false) :
    gapsBefore src (k + 1) = gapsBefore src k + 1 := by
  show gapsBefore src k + (if src k then 0 else 1) = _
  rw [h]; rfl

/-- every answer is an item or a gap -/
theorem items_add_gaps (src : Nat → Bool) (k : Nat) : itemsBefore src k + gapsBefore src k = k := by
  induction k with
  | zero => rfl
  | succ k ih =>
    cases h : src k
    · rw [itemsBefore_succ_false h, gapsBefore_succ_false h]; omega
    · rw [itemsBefore_succ_true h, gapsBefore_succ_true h]; omega

theorem gapsBefore_mono (src : Nat → Bool) {j k : Nat} (h : j ≤ k) : gapsBefore src j ≤ gapsBefore src k := by
  induction k with
  | zero => have : j = 0 := by omega
            subst this; exact Nat.le_refl _
  | succ k ih =>
    by_cases hj : j = k + 1
    · subst hj; exact Nat.le_refl _
    · have := ih (by omega)
      cases hs : src k
      · rw [gapsBefore_succ_false hs]; omega
      · rw [gapsBefore_succ_true hs]; omega

theorem fused_true {n k : Nat} (h : k < n) : fused n k = true := by simp [fused, h]
theorem fused_false {n k : Nat} (h : n ≤ k) : fused n k = false := by
  simp only [fused, decide_eq_false_iff_not]; omega

theorem itemsBefore_fused (n k : Nat) : itemsBefore (fused n) k = min k n := by
  induction k with
  | zero => simp [itemsBefore]
  | succ k ih =>
    by_cases h : k < n
    · rw [itemsBefore_succ_true (fused_true h), ih]; omega
    · rw [itemsBefore_succ_false (fused_false (by omega)), ih]; omega

theorem gapsBefore_fused (n k : Nat) : gapsBefore (fused n) k = k - n := by
  have := items_add_gaps (fused n) k
  rw [itemsBefore_fused] at this
  omega

/-- one answer at the front: the rest is the shifted upstream -/
theorem itemsBefore_shift (src : Nat → Bool) (k : Nat) :
    itemsBefore src (k + 1) = (if src 0 then 1 else 0) + itemsBefore (fun j => src (j + 1)) k := by
  induction k with
  | zero => simp [itemsBefore]
  | succ k ih =>
    cases h : src (k + 1)
    · rw [itemsBefore_succ_false h, ih, itemsBefore_succ_false (src := fun j => src (j + 1)) h]
    · rw [itemsBefore_succ_true h, ih, itemsBefore_succ_true (src := fun j => src (j + 1)) h]; omega

theorem gapsBefore_shift (src : Nat → Bool) (k : Nat) :
    gapsBefore src (k + 1) = (if src 0 then 0 else 1) + gapsBefore (fun j => src (j + 1)) k := by
  induction k with
  | zero => simp [gapsBefore]
  | succ k ih =>
    cases h : src (k + 1)
    · rw [gapsBefore_succ_false h, ih, gapsBefore_succ_false (src := fun j => src (j + 1)) h]; omega
    · rw [gapsBefore_succ_true h, ih, gapsBefore_succ_true (src := fun j => src (j + 1)) h]

theorem srcOf_nil (k : Nat) : srcOf [] k = false := by simp [srcOf]
theorem srcOf_cons_zero (e : Bool) (es : List Bool) : srcOf (e :: es) 0 = e := by simp [srcOf]
theorem srcOf_cons_succ (e : Bool) (es : List Bool) : (fun j => srcOf (e :: es) (j + 1)) = srcOf es := by
  funext j; simp [srcOf]

theorem itemsBefore_srcOf_nil (k : Nat) : itemsBefore (srcOf []) k = 0 := by
  induction k with
  | zero => rfl
  | succ k ih => rw [itemsBefore_succ_false (srcOf_nil k), ih]

/-- the upstream `srcOf entries` is exhausted after `entries.length` calls -/
theorem srcOf_exhausted (entries : List Bool) (k : Nat) (h : entries.length ≤ k) : srcOf entries k = false := by
  unfold srcOf
  rw [List.getD_eq_getElem?_getD, List.getElem?_eq_none h]; rfl

/-- the pulls `p` at which exactly `W` gaps were consumed and not before: the items before it are what
`gapDelivered` computes -/
theorem gapDelivered_spec (entries : List Bool) : ∀ (W p : Nat),
    gapsBefore (srcOf entries) p = W → (∀ k, k < p → gapsBefore (srcOf entries) k < W) →
    itemsBefore (srcOf entries) p = gapDelivered W entries := by
  induction entries with
  | nil =>
    intro W p _ _
    rw [itemsBefore_srcOf_nil]
    cases W <;> rfl
  | cons e es ih =>
    intro W p hg hmin
    cases p with
    | zero =>
      have : W = 0 := by rw [← hg]; rfl
      subst this; rfl
    | succ p =>
      rw [gapsBefore_shift, srcOf_cons_zero, srcOf_cons_succ] at hg
      rw [itemsBefore_shift, srcOf_cons_zero, srcOf_cons_succ]
      have hmin' : ∀ k, k < p → (if e = true then 0 else 1) + gapsBefore (srcOf es) k < W := by
        intro k hk
        have := hmin (k + 1) (by omega)
        rw [gapsBefore_shift, srcOf_cons_zero, srcOf_cons_succ] at this
        exact this
      cases e with
      | true =>
        simp only [if_true] at hg hmin' ⊢
        have hW : W ≠ 0 := by
          intro e0; subst e0
          have := hmin 0 (by omega)
          omega
        obtain ⟨W', rfl⟩ : ∃ W', W = W' + 1 := ⟨W - 1, by omega⟩
        rw [ih (W' + 1) p (by omega) (fun k hk => by have := hmin' k hk; omega)]
        show _ = gapDelivered (W' + 1) es + 1
        omega
      | false =>
        simp only [Bool.false_eq_true, if_false] at hg hmin' ⊢
        obtain ⟨W', rfl⟩ : ∃ W', W = W' + 1 := ⟨W - 1, by omega⟩
        rw [ih W' p (by omega) (fun k hk => by have := hmin' k hk; omega)]
        show _ = gapDelivered W' es
        omega

/-! ### exited workers -/

theorem ex_idle : PC.ex .idle = 0 := rfl
theorem ex_exited : PC.ex .exited = 1 := rfl
theorem ex_holding (i : Nat) : PC.ex (.holding i) = 0 := rfl
theorem ex_computed (i : Nat) : PC.ex (.computed i) = 0 := rfl
theorem ex_cleared (i : Nat) : PC.ex (.cleared i) = 0 := rfl
theorem ex_sent (i : Nat) (ok : Bool) : PC.ex (.sent i ok) = 0 := rfl

theorem exSum_le (pc : Nat → PC) (W : Nat) : ((List.range W).map (fun u => (pc u).ex)).sum ≤ W := by
  have := sum_range_le (fun u => (pc u).ex) 1 (fun u => by cases pc u <;> simp [PC.ex]) W
  omega

/-- a worker that has not exited keeps the count below `W` -/
theorem exSum_lt (pc : Nat → PC) {w W : Nat} (hw : w < W) (h : pc w ≠ .exited) :
    ((List.range W).map (fun u => (pc u).ex)).sum < W := by
  have h1 := sum_map_setPc PC.ex pc w W .exited hw
  have h2 := exSum_le (setPc pc w .exited) W
  have h3 : (pc w).ex = 0 := by
    cases hp : pc w <;> first | rfl | exact absurd hp h
  rw [h3, ex_exited] at h1
  omega

theorem exSum_all (pc : Nat → PC) : ∀ W, (∀ u, u < W → pc u = .exited) →
    ((List.range W).map (fun u => (pc u).ex)).sum = W := by
  intro W
  induction W with
  | zero => intro _; rfl
  | succ W ih =>
    intro h
    simp only [List.range_succ, List.map_append, List.sum_append, List.map_cons, List.map_nil,
      List.sum_cons, List.sum_nil, Nat.add_zero]
    rw [ih (fun u hu => h u (by omega)), h W (by omega)]
    rfl

/-- an update that does not change whether the worker has exited leaves the count alone -/
theorem exSum_setPc (pc : Nat → PC) {w W : Nat} (v : PC) (hw : w < W) (h : v.ex = (pc w).ex) :
    ((List.range W).map (fun u => (setPc pc w v u).ex)).sum = ((List.range W).map (fun u => (pc u).ex)).sum := by
  have := sum_map_setPc PC.ex pc w W v hw
  omega

/-! ### the invariant -/

structure Inv (W : Nat) (src : Nat → Bool) (s : PState) : Prop where
  hW : s.W = W
  hsrc : s.src = src
  next_eq : s.next = itemsBefore src s.pulls
  /-- every `None` ended a worker of its own … -/
  gaps_le : gapsBefore src s.pulls ≤ ((List.range W).map (fun u => (s.pc u).ex)).sum
  /-- … and while the consumer is there nothing else ends a worker -/
  gaps_eq : s.dropped = false → ((List.range W).map (fun u => (s.pc u).ex)).sum = gapsBefore src s.pulls
  /-- no call of `upstream.next()` is made after the `W`-th `None` -/
  pulls_min : ∀ k, k < s.pulls → gapsBefore src k < W
  turn_le : s.turn ≤ s.next
  held_ex : ∀ i, s.turn ≤ i → i < s.next → ∃ w, w < W ∧ (s.pc w).item = some i
  held_rng : ∀ w i, w < W → (s.pc w).item = some i → s.turn ≤ i ∧ i < s.next
  held_uniq : ∀ w w' i, w < W → w' < W → (s.pc w).item = some i → (s.pc w').item = some i → w = w'
  at_turn : ∀ w i, w < W → (s.pc w = .cleared i ∨ ∃ ok, s.pc w = .sent i ok) → i = s.turn
  count : s.next = s.turn + ((List.range W).map (fun u => (s.pc u).busy)).sum
  chan_le : s.chan.length ≤ W
  fifo : s.dropped = false → s.recvd ++ s.chan = List.range (s.recvd ++ s.chan).length
  len_sent : s.dropped = false → ∀ w i ok, w < W → s.pc w = .sent i ok → (s.recvd ++ s.chan).length = i + 1
  len_turn : s.dropped = false →
    (s.recvd ++ s.chan).length = s.turn ∨ ∃ w ok, w < W ∧ s.pc w = .sent s.turn ok
  sent_false : ∀ w i, w < W → s.pc w = .sent i false → s.dropped = true
  calls_hi : ∀ i, s.next ≤ i → s.calls i = 0
  calls_hold : ∀ w i, w < W → s.pc w = .holding i → s.calls i = 0
  calls_done : ∀ i, i < s.next → (∀ w, w < W → s.pc w ≠ .holding i) → s.calls i = 1
  closed_ : s.closed = true → (∀ w, w < W → s.pc w = .exited) ∧ s.chan = [] ∧ s.dropped = false

theorem inv_init (W : Nat) (src : Nat → Bool) : Inv W src (PState.init W src) := by
  have h0 : ((List.range W).map (fun _ : Nat => 0)).sum = 0 := by
    have := sum_range_le (fun _ => 0) 0 (fun _ => Nat.le_refl _) W
    omega
  constructor <;> simp [PState.init, PC.item, PC.busy, PC.ex, itemsBefore, gapsBefore, h0]

end Tu
