/-
  Lemmas for the incremental BPE trainer model, part 8: `StatsOk` implies the executable check `statsExact`;
  `max_byte_pair` on exact statistics chooses a pair of maximal positive recounted frequency; the loop.
-/
import TuModel.Lemmas.BpeTrainIncL7
import TuModel.Lemmas.DictAcceptL
namespace Tu.BpeTrainIncL
open Tu

/-! ### `StatsOk → statsExact` -/

theorem find?_eq_alGet : ∀ (ws : List (Nat × Nat)) (i : Nat), (ws.find? (fun io => io.1 == i)).map (·.2) = alGet ws i := by
  intro ws
  induction ws with
  | nil => intro i; rfl
  | cons e r ih =>
    intro i
    obtain ⟨k, v⟩ := e
    rw [List.find?_cons, alGet_cons]
    by_cases h : k = i
    · subst h; simp
    · have : (k == i) = false := by simpa using h
      simp only [this]
      exact ih i

theorem wcount_pos_of_mem (c : Corpus) (w : List Tok) (n : Nat) (q : BPair) (h : (w, n) ∈ c) (hq : q ∈ wordPairs w) :
    ∃ i, 0 < wcount c i q := by
  obtain ⟨i, hi⟩ := List.getElem?_of_mem h
  refine ⟨i, ?_⟩
  rw [wcount_of_get c i q w n hi]
  exact cnt_pos_of_mem q _ hq

theorem StatsOk.entry_of_occurs {c : Corpus} {st : Stats} (h : StatsOk c st) (q : BPair) (hq : q ∈ allPairs c) :
    ∃ info, alGet st q = some info := by
  obtain ⟨w, n, hw, hqw⟩ := (BpeTrainL.mem_allPairs c q).mp hq
  obtain ⟨i, hi⟩ := wcount_pos_of_mem c w n q hw hqw
  rw [← (h.2 q).2 i] at hi
  obtain ⟨info, h1, _⟩ := occOf_pos_hasKey st q i hi
  exact ⟨info, h1⟩

theorem StatsOk.statsExact {c : Corpus} {st : Stats} (h : StatsOk c st) : statsExact c st = true := by
  unfold Tu.statsExact
  rw [Bool.and_eq_true, Bool.and_eq_true]
  refine ⟨⟨?_, ?_⟩, ?_⟩
  · rw [List.all_eq_true]
    intro e he
    have hg := alGet_of_mem st h.1.1 e he
    rw [Bool.and_eq_true, Bool.and_eq_true]
    refine ⟨⟨?_, ?_⟩, ?_⟩
    · have := (h.2 e.1).1
      unfold freqOf at this
      rw [hg] at this
      simpa using this
    · rw [List.all_eq_true]
      intro io hio
      exact decide_eq_true ((h.1.2 e.1 e.2 hg).2 io.1 (List.mem_map_of_mem hio))
    · rw [List.all_eq_true]
      intro i _
      have := (h.2 e.1).2 i
      unfold occOf at this
      rw [hg] at this
      rw [find?_eq_alGet]
      simpa [wcount] using this
  · have hnd : (st.map (fun x => x.1)).Nodup := h.1.1
    rw [DictAcceptL.eraseDups_of_nodup _ hnd, List.length_map]
    simp
  · rw [List.all_eq_true]
    intro q hq
    obtain ⟨info, hinfo⟩ := h.entry_of_occurs q hq
    rw [List.any_eq_true]
    exact ⟨(q, info), mem_of_alGet st q info hinfo, by simp⟩

/-! ### `max_byte_pair` -/

theorem foldl_max_le (m : Nat) : ∀ (l : List Nat) (a : Nat), a ≤ m → (∀ x ∈ l, x ≤ m) → l.foldl max a ≤ m := by
  intro l
  induction l with
  | nil => intro a ha _; exact ha
  | cons y r ih =>
    intro a ha h
    rw [List.foldl_cons]
    apply ih
    · have := h y (by simp); omega
    · intro x hx; exact h x (List.mem_cons_of_mem _ hx)

theorem maxPairFreq_le (c : Corpus) (m : Nat) (h : ∀ q ∈ allPairs c, pairFreq c q ≤ m) : maxPairFreq c ≤ m := by
  unfold maxPairFreq
  apply foldl_max_le m _ 0 (Nat.zero_le _)
  intro x hx
  obtain ⟨q, hq, rfl⟩ := List.mem_map.mp hx
  exact h q hq

theorem pairFreq_le_max (c : Corpus) (q : BPair) : pairFreq c q ≤ maxPairFreq c := by
  by_cases h : 0 < pairFreq c q
  · exact BpeTrainL.maxPairFreq_ge c q (BpeTrainL.pairFreq_pos_mem c q h)
  · omega

theorem StatsOk.freq_of_mem {c : Corpus} {st : Stats} (h : StatsOk c st) (e : BPair × PairInfo) (he : e ∈ st) :
    e.2.1 = pairFreq c e.1 := by
  have hg := alGet_of_mem st h.1.1 e he
  have := (h.2 e.1).1
  unfold freqOf at this
  rw [hg] at this
  exact this

/-- on exact statistics `max_byte_pair` may return `p` iff `p` has maximal positive recounted frequency -/
theorem isMaxBytePair_iff {c : Corpus} {st : Stats} (h : StatsOk c st) (p : BPair) :
    isMaxBytePair st p = true ↔ (0 < pairFreq c p ∧ pairFreq c p = maxPairFreq c) := by
  unfold isMaxBytePair
  rw [List.any_eq_true]
  constructor
  · rintro ⟨e, he, hc⟩
    simp only [Bool.and_eq_true, beq_iff_eq, decide_eq_true_eq, List.all_eq_true] at hc
    obtain ⟨⟨h1, h2⟩, h3⟩ := hc
    have hf := h.freq_of_mem e he
    rw [h1] at hf
    refine ⟨by omega, ?_⟩
    apply Nat.le_antisymm (pairFreq_le_max c p)
    apply maxPairFreq_le
    intro q hq
    obtain ⟨info, hinfo⟩ := h.entry_of_occurs q hq
    have hm := mem_of_alGet st q info hinfo
    have := h3 _ hm
    rw [h.freq_of_mem _ hm] at this
    simp only at this
    omega
  · rintro ⟨h1, h2⟩
    obtain ⟨info, hinfo⟩ := alGet_of_freq_pos st p (by rw [(h.2 p).1]; exact h1)
    have hm := mem_of_alGet st p info hinfo
    refine ⟨(p, info), hm, ?_⟩
    have hf := h.freq_of_mem _ hm
    simp only at hf
    simp only [Bool.and_eq_true, beq_iff_eq, decide_eq_true_eq, List.all_eq_true, true_and]
    refine ⟨by omega, ?_⟩
    intro e he
    rw [h.freq_of_mem e he, hf, h2]
    exact pairFreq_le_max c e.1

/-- on exact statistics `max_byte_pair` returns `None` iff no pair occurs any more -/
theorem noBytePair_iff {c : Corpus} {st : Stats} (h : StatsOk c st) : noBytePair st = true ↔ maxPairFreq c = 0 := by
  unfold noBytePair
  rw [List.all_eq_true]
  constructor
  · intro hall
    have : maxPairFreq c ≤ 0 := by
      apply maxPairFreq_le
      intro q hq
      obtain ⟨info, hinfo⟩ := h.entry_of_occurs q hq
      have hm := mem_of_alGet st q info hinfo
      have := hall _ hm
      rw [h.freq_of_mem _ hm] at this
      simp only [beq_iff_eq] at this
      omega
    omega
  · intro hz e he
    rw [h.freq_of_mem e he]
    have := pairFreq_le_max c e.1
    simp only [beq_iff_eq]
    omega

/-! ### the loop -/

/-- the choices are greedy with respect to the recounted corpus -/
def greedyChoices : Corpus → List BPair → Prop
  | _, [] => True
  | c, p :: ps => (0 < pairFreq c p ∧ pairFreq c p = maxPairFreq c) ∧ greedyChoices (applyMerge c p) ps

theorem greedyReplay_cons_mem (c : Corpus) (p : BPair) (es : List (List Nat)) (c' : Corpus)
    (hp : 0 < pairFreq c p) (hmax : pairFreq c p = maxPairFreq c) (h : c' ∈ greedyReplay (applyMerge c p) es) :
    c' ∈ greedyReplay c ((p.1 ++ p.2) :: es) := by
  rw [greedyReplay]
  simp only
  have : ¬ maxPairFreq c = 0 := by omega
  rw [if_neg this, List.mem_flatMap]
  refine ⟨p, ?_, h⟩
  rw [List.mem_filter]
  refine ⟨BpeTrainL.pairFreq_pos_mem c p hp, ?_⟩
  simp [hmax]

theorem greedyChoices_replay : ∀ (ps : List BPair) (c : Corpus), greedyChoices c ps →
    corpusAfter c ps ∈ greedyReplay c (ps.map (fun p => p.1 ++ p.2)) := by
  intro ps
  induction ps with
  | nil => intro c _; simp [corpusAfter, greedyReplay]
  | cons p ps ih =>
    intro c h
    obtain ⟨⟨h1, h2⟩, h3⟩ := h
    rw [List.map_cons, corpusAfter]
    exact greedyReplay_cons_mem c p _ _ h1 h2 (ih _ h3)

/-- **the loop refines the recount**: from exact statistics and a well-formed vocabulary, the incremental loop can make
exactly the greedy choice sequences, never fails on them, and ends in the recounted corpus with exact statistics -/
theorem trainRun_spec : ∀ (ps : List BPair) (c : Corpus) (st : Stats), StatsOk c st → CorpusWf c →
    ((trainRun (c, st) ps).isSome = true ↔ greedyChoices c ps) ∧
    ∀ s', trainRun (c, st) ps = some s' → s'.1 = corpusAfter c ps ∧ StatsOk s'.1 s'.2 ∧ CorpusWf s'.1 := by
  intro ps
  induction ps with
  | nil =>
    intro c st h hwf
    refine ⟨by simp [trainRun, greedyChoices], ?_⟩
    intro s' hs
    simp only [trainRun, Option.some.injEq] at hs
    subst hs
    exact ⟨rfl, h, hwf⟩
  | cons p ps ih =>
    intro c st h hwf
    rw [trainRun]
    simp only []
    by_cases hmax : isMaxBytePair st p = true
    · rw [if_pos hmax]
      have hg := (isMaxBytePair_iff h p).mp hmax
      obtain ⟨st', hstep, hok⟩ := trainStep_exact' c st p h hg.1 hwf
      rw [hstep]
      simp only []
      have hwf' := hwf.applyMerge p hg.1
      obtain ⟨i1, i2⟩ := ih (applyMerge c p) st' hok hwf'
      refine ⟨?_, ?_⟩
      · rw [i1]
        simp only [greedyChoices]
        constructor
        · intro hh; exact ⟨hg, hh⟩
        · intro hh; exact hh.2
      · intro s' hs
        exact i2 s' hs
    · rw [if_neg hmax]
      refine ⟨?_, by intro s' hs; cases hs⟩
      simp only [Option.isSome_none, Bool.false_eq_true, greedyChoices, false_iff]
      intro hh
      exact hmax ((isMaxBytePair_iff h p).mpr hh.1)

end Tu.BpeTrainIncL
