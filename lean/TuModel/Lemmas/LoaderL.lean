/-
  Helper lemmas for C08 (loader item selection): arithmetic of residues modulo the world size and
  the filter of a range by a lower bound.
-/
import TuModel.Model.Loader
namespace Tu

theorem filter_ge_range (s : Nat) : ∀ n, (List.range n).filter (fun i => decide (s ≤ i)) = List.range' s (n - s) := by
  intro n
  induction n with
  | zero => simp
  | succ n ih =>
    rw [List.range_succ, List.filter_append, ih]
    by_cases h : s ≤ n
    · have e : n + 1 - s = (n - s) + 1 := by omega
      rw [e, List.range'_concat]
      simp [h]
    · have e : n + 1 - s = n - s := by omega
      simp [h, e]

/-- `start + r ≤ i` with residue zero, for `r` the residue of `i - start` -/
theorem residue_rank (start i W : Nat) (h : start ≤ i) :
    start + (i - start) % W ≤ i ∧ (i - (start + (i - start) % W)) % W = 0 := by
  have hle : (i - start) % W ≤ i - start := Nat.mod_le _ _
  refine ⟨by omega, ?_⟩
  have e : i - (start + (i - start) % W) = W * ((i - start) / W) := by
    have := Nat.div_add_mod (i - start) W
    omega
  rw [e]; exact Nat.mul_mod_right _ _

/-- the rank is determined by the index -/
theorem residue_unique (start i W r : Nat) (hr : r < W) (h1 : start + r ≤ i) (h2 : (i - (start + r)) % W = 0) :
    r = (i - start) % W := by
  have e : i - start = r + W * ((i - (start + r)) / W) := by
    have := Nat.div_add_mod (i - (start + r)) W
    omega
  rw [e, Nat.add_mul_mod_self_left, Nat.mod_eq_of_lt hr]

end Tu
