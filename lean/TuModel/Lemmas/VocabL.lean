/-
  Helper lemmas for the vocabulary-map results of Props/C04.lean: `idxOf` / `natIdxOf` on
  duplicate-free lists, `tbytes` membership, and "every key of a well-formed table has at least
  two bytes".
-/
import TuModel.Lemmas.BpeE2E
import TuModel.Model.CharTok
namespace Tu

/-- a byte string that is not a special token has no special id -/
theorem tokenToId_none_of_not_mem (sp : Special) (t : List Nat) (h : t ∉ sp.tokens) :
    sp.tokenToId t = none := by
  unfold Special.tokenToId idxOf
  have : ¬ (List.idxOf t sp.tokens < sp.tokens.length) := by
    intro hlt
    exact h (List.idxOf_lt_length_iff.mp hlt)
  simp only [this, if_false, Option.map_none]

/-- a byte string with a special id is a special token -/
theorem mem_of_tokenToId_some (sp : Special) (t : List Nat) (id : Nat) (h : sp.tokenToId t = some id) :
    t ∈ sp.tokens := by
  refine Classical.byContradiction (fun hn => ?_)
  rw [tokenToId_none_of_not_mem sp t hn] at h
  cases h

/-- position lookup in a duplicate-free alphabet -/
theorem natIdxOf_getElem {l : List Nat} (hn : l.Nodup) (i : Nat) (hi : i < l.length) :
    natIdxOf l l[i] = some i := by
  unfold natIdxOf
  have := hn.idxOf_getElem i hi
  simp only [this, hi, if_true]

theorem natIdxOf_of_getElem? {l : List Nat} (hn : l.Nodup) {i c : Nat} (h : l[i]? = some c) :
    natIdxOf l c = some i := by
  obtain ⟨hi, hc⟩ := List.getElem?_eq_some_iff.mp h
  rw [← hc]
  exact natIdxOf_getElem hn i hi

/-- `tbytes` only returns keys of the table, with the id asked for -/
theorem tbytes_mem {t : MTable} {k : Nat} {b : List Nat} (h : tbytes t k = some b) : (b, k) ∈ t := by
  unfold tbytes at h
  rw [Option.map_eq_some_iff] at h
  obtain ⟨e, he, hb⟩ := h
  have hm := List.mem_of_find?_eq_some he
  have hk' : (e.2 == k) = true := List.find?_some (p := fun e : List Nat × Nat => e.2 == k) he
  have hk : e.2 = k := eq_of_beq hk'
  have : e = (b, k) := by
    cases e; simp only at hb hk; rw [hb, hk]
  rw [← this]; exact hm

/-- `tlookup` inverts `tbytes` on a well-formed table (keys are distinct) -/
theorem tlookup_of_tbytes {t : MTable} (hwf : wfTable t = true) {k : Nat} {b : List Nat}
    (h : tbytes t k = some b) : tlookup t b = some k :=
  tlookup_of_mem (wf_keys_unique hwf) (tbytes_mem h)

theorem splitsOf_length (b : List Nat) : (splitsOf b).length = b.length - 1 := by
  simp [splitsOf]

/-- every key of a well-formed table is the concatenation of two non-empty parts: at least two bytes -/
theorem wf_key_length {t : MTable} (hwf : wfTable t = true) : ∀ e ∈ t, 2 ≤ e.1.length := by
  intro e he
  have h := wf_third hwf e he
  rw [Bool.and_eq_true] at h
  have h2 := h.2
  rw [List.any_eq_true] at h2
  obtain ⟨x, hx, _⟩ := h2
  have hpos : 0 < (splitsOf e.1).length := List.length_pos_of_mem hx
  rw [splitsOf_length] at hpos
  omega

end Tu
