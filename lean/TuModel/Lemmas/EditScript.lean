import TuModel.Lemmas.EditTable
import TuModel.Lemmas.FlatTable
namespace Tu

/-! ## what the recorded operation of a cell promises -/

/-- what the operation recorded in cell `(i, j)` promises, in terms of the reference recurrence -/
def EOpOK (fl : EFlags) (a b : List (List Nat)) (i j : Nat) : EOp → Prop
  | .none => False
  | .keep => (i = 0 ∧ j = 0) ∨
      ∃ i' j', i = i' + 1 ∧ j = j' + 1 ∧ a.getD i' [] = b.getD j' [] ∧ refCell fl a b i j = refCell fl a b i' j'
  | .delete => ∃ i', i = i' + 1 ∧ refCell fl a b i j = refCell fl a b i' j + 1
  | .insert => ∃ j', j = j' + 1 ∧ refCell fl a b i j = refCell fl a b i j' + 1
  | .replace => ∃ i' j', i = i' + 1 ∧ j = j' + 1 ∧ a.getD i' [] ≠ b.getD j' [] ∧
      canReplace fl (a.getD i' []) (b.getD j' []) = true ∧ refCell fl a b i j = refCell fl a b i' j' + 1
  | .swap => ∃ i' j', i = i' + 2 ∧ j = j' + 2 ∧ a.getD (i' + 1) [] = b.getD j' [] ∧ a.getD i' [] = b.getD (j' + 1) [] ∧
      fl.swap = true ∧ canReplace fl (a.getD (i' + 1) []) (a.getD i' []) = true ∧
      refCell fl a b i j = refCell fl a b i' j' + 1

def ECellOK (fl : EFlags) (a b : List (List Nat)) (i j : Nat) (v : Nat × EOp) : Prop :=
  v.1 = refCell fl a b i j ∧ EOpOK fl a b i j v.2

theorem refCell_zero_left (fl : EFlags) (a b : List (List Nat)) (j : Nat) (hj : j ≤ b.length) :
    refCell fl a b 0 j = j := by
  unfold refCell
  simp [osaR_nil_left]; omega

theorem refCell_zero_right (fl : EFlags) (a b : List (List Nat)) (i : Nat) (hi : i ≤ a.length) :
    refCell fl a b i 0 = i := by
  unfold refCell
  simp [osaR_nil_right]; omega

theorem refCell_succ (fl : EFlags) (a b : List (List Nat)) (i j : Nat) (hi : i < a.length) (hj : j < b.length) :
    refCell fl a b (i + 1) (j + 1) =
      (minByFst (candidates fl a[i] b[j] (if i = 0 then none else a[i - 1]?) (if j = 0 then none else b[j - 1]?)
        (refCell fl a b i (j + 1)) (refCell fl a b (i + 1) j) (refCell fl a b i j)
        (refCell fl a b (i - 1) (j - 1)))).1 := by
  unfold refCell
  rw [take_succ_reverse a i hi, take_succ_reverse b j hj, osaR_cons]
  rw [take_reverse_head? a i (by omega), take_reverse_head? b j (by omega),
    take_reverse_tail a i (by omega), take_reverse_tail b j (by omega)]

theorem stepCell_ok (fl : EFlags) (a b : List (List Nat)) (get : Nat → Nat → Nat × EOp) (i j : Nat)
    (hi : i ≤ a.length) (hj : j ≤ b.length)
    (hget : ∀ i' j', (i' < i ∨ (i' = i ∧ j' < j)) → j' ≤ b.length → ECellOK fl a b i' j' (get i' j')) :
    ECellOK fl a b i j (stepCell fl a b get i j) := by
  cases i with
  | zero =>
    cases j with
    | zero => simp [stepCell, ECellOK, EOpOK, refCell_zero_left]
    | succ j =>
      refine ⟨by rw [refCell_zero_left fl a b _ hj]; rfl, ?_⟩
      exact ⟨j, rfl, by rw [refCell_zero_left fl a b _ hj, refCell_zero_left fl a b _ (by omega)]⟩
  | succ i =>
    cases j with
    | zero =>
      refine ⟨by rw [refCell_zero_right fl a b _ hi]; rfl, ?_⟩
      exact ⟨i, rfl, by rw [refCell_zero_right fl a b _ hi, refCell_zero_right fl a b _ (by omega)]⟩
    | succ j =>
      have hi' : i < a.length := by omega
      have hj' : j < b.length := by omega
      have e1 : (get i (j + 1)).1 = refCell fl a b i (j + 1) := (hget i (j + 1) (Or.inl (by omega)) (by omega)).1
      have e2 : (get (i + 1) j).1 = refCell fl a b (i + 1) j := (hget (i + 1) j (Or.inr ⟨rfl, by omega⟩) (by omega)).1
      have e3 : (get i j).1 = refCell fl a b i j := (hget i j (Or.inl (by omega)) (by omega)).1
      have e4 : (get (i - 1) (j - 1)).1 = refCell fl a b (i - 1) (j - 1) :=
        (hget (i - 1) (j - 1) (Or.inl (by omega)) (by omega)).1
      have hx : a.getD i [] = a[i] := by simp [List.getD_eq_getElem?_getD, List.getElem?_eq_getElem hi']
      have hy : b.getD j [] = b[j] := by simp [List.getD_eq_getElem?_getD, List.getElem?_eq_getElem hj']
      have hrec := refCell_succ fl a b i j hi' hj'
      have hstep : stepCell fl a b get (i + 1) (j + 1) =
          minByFst (candidates fl a[i] b[j] (if i = 0 then none else a[i - 1]?) (if j = 0 then none else b[j - 1]?)
            (refCell fl a b i (j + 1)) (refCell fl a b (i + 1) j) (refCell fl a b i j)
            (refCell fl a b (i - 1) (j - 1))) := by
        simp only [stepCell, e1, e2, e3, e4, hx, hy]
      rw [hstep]
      have hmem := minByFst_mem (candidates_ne_nil fl a[i] b[j] (if i = 0 then none else a[i - 1]?)
        (if j = 0 then none else b[j - 1]?)
        (refCell fl a b i (j + 1)) (refCell fl a b (i + 1) j) (refCell fl a b i j)
        (refCell fl a b (i - 1) (j - 1)))
      refine ⟨hrec.symm, ?_⟩
      rcases mem_candidates.mp hmem with h | h | ⟨he, h⟩ | ⟨hne, hr, h⟩ | ⟨u, v, hu, hv, hs, he1, he2, hr, h⟩
      · rw [h]; exact ⟨i, rfl, by rw [hrec, h]⟩
      · rw [h]; exact ⟨j, rfl, by rw [hrec, h]⟩
      · rw [h]; exact Or.inr ⟨i, j, rfl, rfl, by rw [hx, hy]; exact he, by rw [hrec, h]⟩
      · rw [h]; exact ⟨i, j, rfl, rfl, by rw [hx, hy]; exact hne, by rw [hx, hy]; exact hr, by rw [hrec, h]⟩
      · rw [h]
        cases i with
        | zero => simp at hu
        | succ i =>
          cases j with
          | zero => simp at hv
          | succ j =>
            simp only [Nat.add_sub_cancel] at hu hv h hrec
            have hu' : a.getD i [] = u := by
              simp at hu; simp [List.getD_eq_getElem?_getD, hu]
            have hv' : b.getD j [] = v := by
              simp at hv; simp [List.getD_eq_getElem?_getD, hv]
            refine ⟨i, j, rfl, rfl, ?_, ?_, hs, ?_, ?_⟩
            · rw [hx, hv']; exact he1
            · rw [hy, hu']; exact he2
            · rw [hx, hu']; exact hr
            · rw [hrec, h]

theorem fillTable_ok (fl : EFlags) (a b : List (List Nat)) :
    ∀ i j, i ≤ a.length → j ≤ b.length → ECellOK fl a b i j (tblGet (fillTable fl a b) (b.length + 1) i j) := by
  have := flat_fill_spec (0, EOp.none) (stepCell fl a b) (a.length + 1) (b.length + 1) (by omega) (ECellOK fl a b)
    (by
      intro get i j hi hj hget
      exact stepCell_ok fl a b get i j (by omega) (by omega) (fun i' j' h h' => hget i' j' h (by omega)))
  intro i j hi hj
  exact this.2 i j (by omega) (by omega)

/-! ## `applyScript` -/

theorem applyScript_nil (a b : List (List Nat)) (pa : Nat) : applyScript a b [] pa = a.drop pa := rfl

theorem applyScript_insert (a b : List (List Nat)) (i j : Nat) (rest : List (EKind × Nat × Nat)) (pa : Nat) :
    applyScript a b ((.insert, i, j) :: rest) pa =
      (a.drop pa).take (i - pa) ++ b.getD j [] :: applyScript a b rest i := rfl

theorem applyScript_delete (a b : List (List Nat)) (i j : Nat) (rest : List (EKind × Nat × Nat)) (pa : Nat) :
    applyScript a b ((.delete, i, j) :: rest) pa =
      (a.drop pa).take (i - pa) ++ applyScript a b rest (i + 1) := rfl

theorem applyScript_replace (a b : List (List Nat)) (i j : Nat) (rest : List (EKind × Nat × Nat)) (pa : Nat) :
    applyScript a b ((.replace, i, j) :: rest) pa =
      (a.drop pa).take (i - pa) ++ b.getD j [] :: applyScript a b rest (i + 1) := rfl

theorem applyScript_swap (a b : List (List Nat)) (i j : Nat) (rest : List (EKind × Nat × Nat)) (pa : Nat) :
    applyScript a b ((.swap, i, j) :: rest) pa =
      (a.drop pa).take (i - pa) ++ a.getD (i + 1) [] :: a.getD i [] :: applyScript a b rest (i + 2) := rfl

theorem drop_take_step (a : List (List Nat)) (pa i : Nat) (h : pa < a.length) (hi : pa < i) :
    (a.drop pa).take (i - pa) = a.getD pa [] :: (a.drop (pa + 1)).take (i - (pa + 1)) := by
  rw [List.drop_eq_getElem_cons h, show i - pa = (i - (pa + 1)) + 1 by omega, List.take_succ_cons]
  simp [List.getD_eq_getElem?_getD, List.getElem?_eq_getElem h]

/-- an untouched position before the next operation is copied -/
theorem applyScript_step (a b : List (List Nat)) (rest : List (EKind × Nat × Nat)) (pa : Nat)
    (h : pa < a.length) (hr : ∀ p ∈ rest, pa < p.2.1) :
    applyScript a b rest pa = a.getD pa [] :: applyScript a b rest (pa + 1) := by
  cases rest with
  | nil =>
    rw [applyScript_nil, applyScript_nil, List.drop_eq_getElem_cons h]
    simp [List.getD_eq_getElem?_getD, List.getElem?_eq_getElem h]
  | cons op rest =>
    obtain ⟨k, i, j⟩ := op
    have hi : pa < i := hr (k, i, j) (List.mem_cons_self ..)
    cases k with
    | insert => rw [applyScript_insert, applyScript_insert, drop_take_step a pa i h hi]; rfl
    | delete => rw [applyScript_delete, applyScript_delete, drop_take_step a pa i h hi]; rfl
    | replace => rw [applyScript_replace, applyScript_replace, drop_take_step a pa i h hi]; rfl
    | swap => rw [applyScript_swap, applyScript_swap, drop_take_step a pa i h hi]; rfl

theorem take_succ_getD (b : List (List Nat)) (j : Nat) (h : j < b.length) :
    b.take (j + 1) = b.take j ++ [b.getD j []] := by
  rw [List.take_add_one, List.getElem?_eq_getElem h]
  simp [List.getD_eq_getElem?_getD, List.getElem?_eq_getElem h]

/-! ## the script collected by the backtrace -/

/-- the operations collected by the backtrace from cell `(i, j)` -/
structure ScriptOK (fl : EFlags) (a b : List (List Nat)) (i j : Nat) (l : List (EKind × Nat × Nat)) : Prop where
  len : l.length = refCell fl a b i j
  bound : ∀ p ∈ l, p.2.1 ≤ i ∧ p.2.2 ≤ j
  sorted : l.Pairwise (fun p q => p.2.1 ≤ q.2.1 ∧ p.2.2 ≤ q.2.2)
  sem : ∀ rest : List (EKind × Nat × Nat), (∀ p ∈ rest, i ≤ p.2.1) →
    applyScript a b (l ++ rest) 0 = b.take j ++ applyScript a b rest i

theorem ScriptOK.zero (fl : EFlags) (a b : List (List Nat)) : ScriptOK fl a b 0 0 [] :=
  ⟨by rw [refCell_zero_left fl a b 0 (by omega)]; rfl, by simp, by simp, by intro rest _; simp⟩

/-- extending the script by one more operation, recorded at the position `(i, j)` the prefix script ends at -/
theorem ScriptOK.snoc {fl a b i j i' j' l} (k : EKind) (h : ScriptOK fl a b i j l) (hi : i ≤ i') (hj : j ≤ j')
    (hl : refCell fl a b i' j' = refCell fl a b i j + 1)
    (hsem : ∀ rest : List (EKind × Nat × Nat), (∀ p ∈ rest, i' ≤ p.2.1) →
      b.take j ++ applyScript a b ((k, i, j) :: rest) i = b.take j' ++ applyScript a b rest i') :
    ScriptOK fl a b i' j' (l ++ [(k, i, j)]) := by
  refine ⟨by simp [h.len, hl], ?_, ?_, ?_⟩
  · intro p hp
    rcases List.mem_append.mp hp with hp | hp
    · have := h.bound p hp; omega
    · simp at hp; subst hp; exact ⟨hi, hj⟩
  · rw [List.pairwise_append]
    refine ⟨h.sorted, by simp, ?_⟩
    intro p hp q hq
    simp at hq; subst hq
    exact h.bound p hp
  · intro rest hrest
    rw [List.append_assoc, List.singleton_append, h.sem ((k, i, j) :: rest) ?_, hsem rest hrest]
    intro p hp
    rcases List.mem_cons.mp hp with rfl | hp
    · exact Nat.le_refl _
    · have := hrest p hp; omega

/-- a kept character: same script, one more copied position -/
theorem ScriptOK.keep {fl a b i j l} (h : ScriptOK fl a b i j l) (hi : i < a.length) (hj : j < b.length)
    (he : a.getD i [] = b.getD j []) (hl : refCell fl a b (i + 1) (j + 1) = refCell fl a b i j) :
    ScriptOK fl a b (i + 1) (j + 1) l := by
  refine ⟨by rw [h.len, hl], fun p hp => by have := h.bound p hp; omega, h.sorted, ?_⟩
  intro rest hrest
  rw [h.sem rest (fun p hp => by have := hrest p hp; omega),
    applyScript_step a b rest i hi (fun p hp => by have := hrest p hp; omega),
    take_succ_getD b j hj, he]
  simp

theorem backtrace_ok (fl : EFlags) (a b : List (List Nat)) :
    ∀ (fuel i j : Nat) (acc : List (EKind × Nat × Nat)), i ≤ a.length → j ≤ b.length → i + j < fuel →
      ∃ l, backtrace (fillTable fl a b) (b.length + 1) fuel i j acc = some (l ++ acc) ∧ ScriptOK fl a b i j l := by
  intro fuel
  induction fuel with
  | zero => intro i j acc _ _ h; omega
  | succ fuel ih =>
    intro i j acc hi hj hf
    rw [backtrace]
    by_cases h0 : i = 0 ∧ j = 0
    · simp only [h0, and_self, if_true]
      obtain ⟨rfl, rfl⟩ := h0
      exact ⟨[], by simp, ScriptOK.zero fl a b⟩
    · simp only [h0, if_false]
      obtain ⟨_, hop⟩ := fillTable_ok fl a b i j hi hj
      cases hv : (tblGet (fillTable fl a b) (b.length + 1) i j).2 with
      | none => rw [hv] at hop; exact absurd hop (by simp [EOpOK])
      | keep =>
        rw [hv] at hop
        rcases hop with hz | ⟨i', j', rfl, rfl, he, hl⟩
        · exact absurd hz h0
        · simp only [Nat.add_sub_cancel, ge_iff_le, Nat.le_add_left, and_self, if_true]
          obtain ⟨l, hb, hok⟩ := ih i' j' acc (by omega) (by omega) (by omega)
          exact ⟨l, hb, hok.keep (by omega) (by omega) he hl⟩
      | insert =>
        rw [hv] at hop
        obtain ⟨j', rfl, hl⟩ := hop
        simp only [Nat.add_sub_cancel, ge_iff_le, Nat.le_add_left, if_true]
        obtain ⟨l, hb, hok⟩ := ih i j' ((.insert, i, j') :: acc) hi (by omega) (by omega)
        refine ⟨l ++ [(.insert, i, j')], by simpa using hb, ?_⟩
        apply hok.snoc EKind.insert (Nat.le_refl _) (by omega) hl
        intro rest _
        rw [applyScript_insert, take_succ_getD b j' (by omega)]
        simp
      | delete =>
        rw [hv] at hop
        obtain ⟨i', rfl, hl⟩ := hop
        simp only [Nat.add_sub_cancel, ge_iff_le, Nat.le_add_left, if_true]
        obtain ⟨l, hb, hok⟩ := ih i' j ((.delete, i', j) :: acc) (by omega) hj (by omega)
        refine ⟨l ++ [(.delete, i', j)], by simpa using hb, ?_⟩
        apply hok.snoc EKind.delete (by omega) (Nat.le_refl _) hl
        intro rest _
        rw [applyScript_delete]
        simp
      | replace =>
        rw [hv] at hop
        obtain ⟨i', j', rfl, rfl, _, _, hl⟩ := hop
        simp only [Nat.add_sub_cancel, ge_iff_le, Nat.le_add_left, and_self, if_true]
        obtain ⟨l, hb, hok⟩ := ih i' j' ((.replace, i', j') :: acc) (by omega) (by omega) (by omega)
        refine ⟨l ++ [(.replace, i', j')], by simpa using hb, ?_⟩
        apply hok.snoc EKind.replace (by omega) (by omega) hl
        intro rest _
        rw [applyScript_replace, take_succ_getD b j' (by omega)]
        simp
      | swap =>
        rw [hv] at hop
        obtain ⟨i', j', rfl, rfl, he1, he2, _, _, hl⟩ := hop
        simp only [Nat.add_sub_cancel, ge_iff_le, Nat.le_add_left, and_self, if_true]
        obtain ⟨l, hb, hok⟩ := ih i' j' ((.swap, i', j') :: acc) (by omega) (by omega) (by omega)
        refine ⟨l ++ [(.swap, i', j')], by simpa using hb, ?_⟩
        apply hok.snoc EKind.swap (by omega) (by omega) hl
        intro rest _
        rw [applyScript_swap, show j' + 2 = (j' + 1) + 1 by rfl, take_succ_getD b (j' + 1) (by omega),
          take_succ_getD b j' (by omega), he1, he2]
        simp

/-! ## the flags are respected by every recorded operation -/

theorem canReplace_comm (fl : EFlags) (x y : List Nat) : canReplace fl x y = canReplace fl y x := by
  unfold canReplace; rw [Bool.and_comm]

/-- a swap is only used with `with_swap` and never on whitespace under `spaces_insert_delete_only`;
a replace never involves whitespace under `spaces_insert_delete_only` -/
def OpFlagsOK (fl : EFlags) (a b : List (List Nat)) (p : EKind × Nat × Nat) : Prop :=
  (p.1 = EKind.swap → fl.swap = true ∧ canReplace fl (a.getD p.2.1 []) (a.getD (p.2.1 + 1) []) = true) ∧
  (p.1 = EKind.replace → canReplace fl (a.getD p.2.1 []) (b.getD p.2.2 []) = true)

theorem all_cons {α} {P : α → Prop} {x : α} {l : List α} (hx : P x) (hl : ∀ p ∈ l, P p) : ∀ p ∈ x :: l, P p := by
  intro p hp
  rcases List.mem_cons.mp hp with rfl | hp
  · exact hx
  · exact hl p hp

theorem backtrace_flags (fl : EFlags) (a b : List (List Nat)) :
    ∀ (fuel i j : Nat) (acc ops : List (EKind × Nat × Nat)), i ≤ a.length → j ≤ b.length →
      backtrace (fillTable fl a b) (b.length + 1) fuel i j acc = some ops →
      (∀ p ∈ acc, OpFlagsOK fl a b p) → ∀ p ∈ ops, OpFlagsOK fl a b p := by
  intro fuel
  induction fuel with
  | zero => intro i j acc ops _ _ h; rw [backtrace] at h; exact absurd h (by simp)
  | succ fuel ih =>
    intro i j acc ops hi hj hb hacc
    rw [backtrace] at hb
    by_cases h0 : i = 0 ∧ j = 0
    · simp only [h0, and_self, if_true, Option.some.injEq] at hb
      subst hb; exact hacc
    · simp only [h0, if_false] at hb
      obtain ⟨_, hop⟩ := fillTable_ok fl a b i j hi hj
      cases hv : (tblGet (fillTable fl a b) (b.length + 1) i j).2 with
      | none => rw [hv] at hop; exact absurd hop (by simp [EOpOK])
      | keep =>
        rw [hv] at hop hb
        rcases hop with hz | ⟨i', j', rfl, rfl, _, _⟩
        · exact absurd hz h0
        · simp only [Nat.add_sub_cancel, ge_iff_le, Nat.le_add_left, and_self, if_true] at hb
          exact ih i' j' acc ops (by omega) (by omega) hb hacc
      | insert =>
        rw [hv] at hop hb
        obtain ⟨j', rfl, _⟩ := hop
        simp only [Nat.add_sub_cancel, ge_iff_le, Nat.le_add_left, if_true] at hb
        refine ih i j' _ ops hi (by omega) hb (all_cons ?_ hacc)
        exact ⟨by simp, by simp⟩
      | delete =>
        rw [hv] at hop hb
        obtain ⟨i', rfl, _⟩ := hop
        simp only [Nat.add_sub_cancel, ge_iff_le, Nat.le_add_left, if_true] at hb
        refine ih i' j _ ops (by omega) hj hb (all_cons ?_ hacc)
        exact ⟨by simp, by simp⟩
      | replace =>
        rw [hv] at hop hb
        obtain ⟨i', j', rfl, rfl, _, hr, _⟩ := hop
        simp only [Nat.add_sub_cancel, ge_iff_le, Nat.le_add_left, and_self, if_true] at hb
        refine ih i' j' _ ops (by omega) (by omega) hb (all_cons ?_ hacc)
        exact ⟨by simp, fun _ => hr⟩
      | swap =>
        rw [hv] at hop hb
        obtain ⟨i', j', rfl, rfl, _, _, hs, hr, _⟩ := hop
        simp only [Nat.add_sub_cancel, ge_iff_le, Nat.le_add_left, and_self, if_true] at hb
        refine ih i' j' _ ops (by omega) (by omega) hb (all_cons ?_ hacc)
        exact ⟨fun _ => ⟨hs, by rw [canReplace_comm]; exact hr⟩, by simp⟩

end Tu
