/-
  Helper lemmas for the checked-arithmetic mirror `Model/WindowsU.lean` of `windows::char` / `windows::byte`:
  under explicit size bounds no checked operation yields `none` and the mirror computes the `Nat` model
  (`Model/Windows.lean`).  The property theorems built from these are in `Props/C16.lean`.
-/
import TuModel.Model.WindowsU
namespace Tu

theorem U64_eq : U64 = 2 ^ 64 := rfl

theorem addU_eq {a b : Nat} (h : a + b < U64) : addU a b = some (a + b) := by
  unfold addU; rw [if_pos h]

theorem mulU_eq {a b : Nat} (h : a * b < U64) : mulU a b = some (a * b) := by
  unfold mulU; rw [if_pos h]

theorem subU_eq {a b : Nat} (h : b ≤ a) : subU a b = some (a - b) := by
  unfold subU; rw [if_pos h]

theorem addU_none {a b : Nat} (h : U64 ≤ a + b) : addU a b = none := by
  unfold addU; rw [if_neg (by omega)]

theorem mulU_none {a b : Nat} (h : U64 ≤ a * b) : mulU a b = none := by
  unfold mulU; rw [if_neg (by omega)]

/-! ### the configuration check -/

/-- the repaired check: no overflow for any pair of `usize` values, and it decides `max ≤ 2·ctx` -/
theorem cfgInvalidU_val (maxLen ctx : Nat) (hm : maxLen < U64) :
    cfgInvalidU maxLen ctx = some (decide (maxLen ≤ 2 * ctx)) := by
  unfold cfgInvalidU
  by_cases h : maxLen / 2 < ctx
  · rw [if_pos h]
    have : maxLen ≤ 2 * ctx := by omega
    simp [this]
  · rw [if_neg h]
    have h2 : 2 * ctx < U64 := by omega
    rw [mulU_eq h2]
    rfl

/-- the check before the repair panics as soon as `2·ctx` does not fit -/
theorem cfgInvalidOldU_none (maxLen ctx : Nat) (h : 2 ^ 63 ≤ ctx) : cfgInvalidOldU maxLen ctx = none := by
  unfold cfgInvalidOldU
  rw [mulU_none (by unfold U64; omega)]
  rfl

/-- ... and only then -/
theorem cfgInvalidOldU_val (maxLen ctx : Nat) (h : ctx < 2 ^ 63) :
    cfgInvalidOldU maxLen ctx = some (decide (maxLen ≤ 2 * ctx)) := by
  unfold cfgInvalidOldU
  rw [mulU_eq (by unfold U64; omega)]
  rfl

/-! ### `window_length` -/

theorem winLenU_eq (maxLen ctx ws : Nat) (hcfg : 2 * ctx < maxLen) (hm : maxLen < U64) :
    winLenU maxLen ctx ws = some (winLen maxLen ctx ws) := by
  unfold winLenU winLen
  by_cases h : ws = 0
  · subst h
    have e1 : addU 1 (if 0 > 0 then 1 else 0) = some 1 := by
      rw [if_neg (by omega)]; exact addU_eq (by unfold U64; omega)
    rw [e1]
    simp only
    rw [mulU_eq (by omega)]
    simp only
    rw [subU_eq (by omega), Nat.one_mul]
    simp
  · have e1 : addU 1 (if ws > 0 then 1 else 0) = some 2 := by
      rw [if_pos (by omega)]; exact addU_eq (by unfold U64; omega)
    rw [e1]
    simp only
    rw [mulU_eq (by omega)]
    simp only
    rw [subU_eq (by omega), if_neg h]

/-! ### `char` -/

/-- the loop of `char`: from a position `ws` that the code can reach (`ws = 0`, or the first window did not
already cover the text: `maxLen - ctx < lens.length`) no addition overflows, provided the text has at most
`2^63` characters -/
theorem charLoopU_eq (lens : List Nat) (maxLen ctx : Nat) (hcfg : 2 * ctx < maxLen) (hm : maxLen < U64)
    (hn : 2 * lens.length ≤ U64) :
    ∀ (k ws : Nat), lens.length - ws = k → (ws < lens.length → ws = 0 ∨ maxLen - ctx < lens.length) →
      charLoopU lens maxLen ctx ws = some (charLoop lens maxLen ctx ws) := by
  intro k
  induction k using Nat.strongRecOn with
  | _ k ih =>
    intro ws hk hinv
    rw [charLoopU, charLoop]
    by_cases h : ws < lens.length
    · simp only [h, dite_true]
      rw [winLenU_eq maxLen ctx ws hcfg hm]
      simp only
      have hwl : winLen maxLen ctx ws = if ws = 0 then maxLen - ctx else maxLen - 2 * ctx := rfl
      have b1 : ws + winLen maxLen ctx ws + ctx < U64 := by
        rw [hwl]; have := hinv h; split <;> omega
      rw [addU_eq (by omega)]
      simp only
      rw [addU_eq b1]
      simp only
      by_cases hp : min lens.length (ws + winLen maxLen ctx ws) ≤ ws
      · simp only [hp, dite_true]
      · simp only [hp, dite_false]
        have hinv' : min lens.length (ws + winLen maxLen ctx ws) < lens.length →
            min lens.length (ws + winLen maxLen ctx ws) = 0 ∨ maxLen - ctx < lens.length := by
          intro hlt
          right
          by_cases h0 : ws = 0
          · rw [hwl, if_pos h0] at hlt; omega
          · have := hinv h; omega
        rw [ih (lens.length - min lens.length (ws + winLen maxLen ctx ws)) (by omega) _ rfl hinv']
        cases charLoop lens maxLen ctx (min lens.length (ws + winLen maxLen ctx ws)) <;> rfl
    · simp only [h, dite_false]

/-! ### `count_until` -/

/-- the accumulating fold of the code computes the budget-subtracting `countUntil` of the model, as long as
the running byte sum and the running count fit into `usize` -/
theorem countUntilGo_eq (ls : List Nat) (m : Nat) :
    ∀ (count acc : Nat), acc ≤ m → acc + ls.sum < U64 → count + ls.length < U64 →
      countUntilGo ls m count acc = some (count + countUntil ls (m - acc)) := by
  induction ls with
  | nil => intro count acc _ _ _; simp [countUntilGo, countUntil]
  | cons l ls ih =>
    intro count acc ha hs hc
    simp only [List.sum_cons, List.length_cons] at hs hc
    simp only [countUntilGo, countUntil]
    rw [addU_eq (by omega)]
    simp only
    by_cases hgt : acc + l > m
    · rw [if_pos hgt, if_pos (by omega)]; rfl
    · rw [if_neg hgt, if_neg (by omega), addU_eq (by omega)]
      simp only
      rw [ih (count + 1) (acc + l) (by omega) (by omega) (by omega)]
      congr 1
      rw [show m - (acc + l) = m - acc - l by omega]
      omega

theorem countUntilU_eq (ls : List Nat) (m : Nat) (hs : ls.sum < U64) (hc : ls.length < U64) :
    countUntilU ls m = some (countUntil ls m) := by
  unfold countUntilU
  rw [countUntilGo_eq ls m 0 0 (by omega) (by omega) (by omega)]
  simp

theorem countUntil_le_len (ls : List Nat) (m : Nat) : countUntil ls m ≤ ls.length := by
  induction ls generalizing m with
  | nil => simp [countUntil]
  | cons l ls ih =>
    simp only [countUntil]
    split
    · omega
    · have := ih (m - l); simp; omega

theorem sum_take_add_drop (l : List Nat) (k : Nat) : (l.take k).sum + (l.drop k).sum = l.sum := by
  rw [← List.sum_append, List.take_append_drop]

theorem sum_drop_le (l : List Nat) (k : Nat) : (l.drop k).sum ≤ l.sum := by
  have := sum_take_add_drop l k; omega

theorem sum_take_rev_le (l : List Nat) (k : Nat) : (l.take k).reverse.sum ≤ l.sum := by
  have := sum_take_add_drop l k
  rw [List.sum_reverse]; omega

/-! ### `byte` -/

/-- the loop of `byte`: no addition overflows provided the byte length and the character count of the text fit
into `usize` -/
theorem byteLoopU_eq (lens : List Nat) (maxB ctx : Nat) (hcfg : 2 * ctx < maxB) (hm : maxB < U64)
    (hs : lens.sum < U64) (hn : lens.length < U64) :
    ∀ (k ws : Nat), lens.length - ws = k →
      byteLoopU lens maxB ctx ws = some (byteLoop lens maxB ctx ws) := by
  intro k
  induction k using Nat.strongRecOn with
  | _ k ih =>
    intro ws hk
    rw [byteLoopU, byteLoop]
    by_cases h : ws < lens.length
    · simp only [h, dite_true]
      rw [winLenU_eq maxB ctx ws hcfg hm]
      simp only
      have hd : ∀ j, (lens.drop j).sum < U64 := fun j => by have := sum_drop_le lens j; omega
      have hdl : ∀ j, (lens.drop j).length < U64 := fun j => by rw [List.length_drop]; omega
      rw [countUntilU_eq _ _ (hd ws) (hdl ws)]
      simp only
      have hle := countUntil_le_len (lens.drop ws) (winLen maxB ctx ws)
      rw [List.length_drop] at hle
      rw [addU_eq (by omega)]
      simp only
      by_cases hz : countUntil (lens.drop ws) (winLen maxB ctx ws) = 0
      · have hp : ws + countUntil (lens.drop ws) (winLen maxB ctx ws) ≤ ws := by omega
        rw [dif_pos hp, dif_pos hz]
      · have hp : ¬ ws + countUntil (lens.drop ws) (winLen maxB ctx ws) ≤ ws := by omega
        rw [dif_neg hp, dif_neg hz]
        have ht : (lens.take ws).reverse.sum < U64 := by have := sum_take_rev_le lens ws; omega
        have htl : (lens.take ws).reverse.length < U64 := by
          rw [List.length_reverse, List.length_take]; omega
        rw [countUntilU_eq _ _ ht htl]
        simp only
        rw [countUntilU_eq _ _ (hd _) (hdl _)]
        simp only
        have hce := countUntil_le_len (lens.drop (ws + countUntil (lens.drop ws) (winLen maxB ctx ws))) ctx
        rw [List.length_drop] at hce
        rw [addU_eq (by omega)]
        simp only
        rw [ih (lens.length - (ws + countUntil (lens.drop ws) (winLen maxB ctx ws))) (by omega) _ rfl]
        cases byteLoop lens maxB ctx (ws + countUntil (lens.drop ws) (winLen maxB ctx ws)) <;> rfl
    · simp only [h, dite_false]

/-- every character has at least one byte: there are at most as many characters as bytes -/
theorem length_le_sum (lens : List Nat) (hl : ∀ l ∈ lens, 1 ≤ l) : lens.length ≤ lens.sum := by
  induction lens with
  | nil => simp
  | cons a t ih =>
    have h1 := hl a List.mem_cons_self
    have h2 := ih (fun l h => hl l (List.mem_cons_of_mem _ h))
    simp only [List.length_cons, List.sum_cons]
    omega

end Tu
