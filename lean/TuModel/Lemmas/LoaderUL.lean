/-
  Helper lemmas for C08u (the adaptor chain of the loader with machine arithmetic, `Model/LoaderU.lean`):
  saturating addition, `step_by` as a filter on positions, `skip` of a range.
-/
import TuModel.Model.LoaderU
import TuModel.Lemmas.LoaderL
namespace Tu

theorem U64_pos : 0 < U64 := by unfold U64; omega

theorem satAddU_eq (a b : Nat) : satAddU a b = min (a + b) (U64 - 1) := by
  unfold satAddU
  have := U64_pos
  by_cases h : a + b < U64
  · rw [if_pos h]; omega
  · rw [if_neg h]; omega

theorem satAddU_lt (a b : Nat) (_ha : a < U64) (_hb : b < U64) : satAddU a b < U64 := by
  rw [satAddU_eq]
  have := U64_pos
  omega

/-- the start of the chain: the sum saturated once -/
theorem satAddU_satAddU (a b c : Nat) : satAddU (satAddU a b) c = min (a + b + c) (U64 - 1) := by
  rw [satAddU_eq, satAddU_eq]
  omega

/-! ### `filterMap` congruence -/

theorem filterMap_congr_mem {α β : Type} {f g : α → Option β} :
    ∀ l : List α, (∀ x, x ∈ l → f x = g x) → l.filterMap f = l.filterMap g := by
  intro l
  induction l with
  | nil => intro _; rfl
  | cons a l ih =>
    intro h
    have ha : f a = g a := h a (List.mem_cons_self ..)
    have hl : l.filterMap f = l.filterMap g := ih (fun x hx => h x (List.mem_cons_of_mem _ hx))
    rw [List.filterMap_cons, List.filterMap_cons, ha, hl]

/-! ### one-step unfolding of `stepByAux` -/

theorem stepByAux_zero (w : Nat) (l : List Nat) : stepByAux w 0 l = [] := by
  cases l <;> rfl

theorem stepByAux_nil (w fuel : Nat) : stepByAux w fuel [] = [] := by
  cases fuel <;> rfl

theorem stepByAux_cons (w fuel x : Nat) (xs : List Nat) :
    stepByAux w (fuel + 1) (x :: xs) = x :: stepByAux w fuel (xs.drop (w - 1)) := rfl

/-! ### positions that are multiples of `w` -/

/-- below `w` only position 0 is a multiple of `w` -/
theorem filterMap_mult_lt (w : Nat) (g : Nat → Option Nat) (x : Nat) (h0 : g 0 = some x) (m : Nat) (hm : m + 1 ≤ w) :
    (List.range (m + 1)).filterMap (fun j => if j % w = 0 then g j else none) = [x] := by
  rw [List.range_eq_range', List.range'_succ, List.filterMap_cons]
  have e0 : (if 0 % w = 0 then g 0 else none) = some x := by
    rw [Nat.zero_mod, if_pos rfl, h0]
  rw [e0]
  have : (List.range' (0 + 1) m).filterMap (fun j => if j % w = 0 then g j else none) = [] := by
    rw [List.filterMap_eq_nil_iff]
    intro a ha
    rw [List.mem_range'_1] at ha
    have hlt : a < w := by omega
    have hne : ¬ a % w = 0 := by rw [Nat.mod_eq_of_lt hlt]; omega
    rw [if_neg hne]
  rw [this]

/-- peel the first period off the positions -/
theorem filterMap_mult_step (w : Nat) (hw : 0 < w) (g : Nat → Option Nat) (x : Nat) (h0 : g 0 = some x) (n : Nat) :
    (List.range (n + 1)).filterMap (fun j => if j % w = 0 then g j else none)
      = x :: (List.range (n + 1 - w)).filterMap (fun j => if j % w = 0 then g (j + w) else none) := by
  by_cases h : n + 1 ≤ w
  · have e : n + 1 - w = 0 := by omega
    rw [e, filterMap_mult_lt w g x h0 n h]
    rfl
  · have e : n + 1 = w + (n + 1 - w) := by omega
    have ew : w = (w - 1) + 1 := by omega
    rw [e, List.range_add, List.filterMap_append]
    have e1 : (List.range w).filterMap (fun j => if j % w = 0 then g j else none) = [x] := by
      have := filterMap_mult_lt w g x h0 (w - 1) (by omega)
      rw [← ew] at this
      exact this
    rw [e1, List.filterMap_map]
    have e2 : w + (n + 1 - w) - w = n + 1 - w := by omega
    rw [e2]
    show x :: _ = x :: _
    congr 1
    apply filterMap_congr_mem
    intro j _
    show (if (w + j) % w = 0 then g (w + j) else none) = _
    rw [Nat.add_comm w j, Nat.add_mod_right]

/-! ### `step_by` -/

theorem stepByAux_eq (w : Nat) (hw : 0 < w) : ∀ (fuel : Nat) (l : List Nat), l.length ≤ fuel →
    stepByAux w fuel l = (List.range l.length).filterMap (fun j => if j % w = 0 then l[j]? else none) := by
  intro fuel
  induction fuel with
  | zero =>
    intro l hl
    have : l = [] := List.eq_nil_of_length_eq_zero (by omega)
    subst this
    rfl
  | succ fuel ih =>
    intro l hl
    cases l with
    | nil => rfl
    | cons x xs =>
      rw [stepByAux_cons]
      have hlen : (xs.drop (w - 1)).length ≤ fuel := by
        rw [List.length_drop]
        simp only [List.length_cons] at hl
        omega
      rw [ih _ hlen, List.length_cons,
        filterMap_mult_step w hw (fun j => (x :: xs)[j]?) x rfl xs.length, List.length_drop]
      have e : xs.length + 1 - w = xs.length - (w - 1) := by omega
      rw [e]
      congr 1
      apply filterMap_congr_mem
      intro j _
      have ej : j + w = (w - 1 + j) + 1 := by omega
      show (if j % w = 0 then (xs.drop (w - 1))[j]? else none) = (if j % w = 0 then (x :: xs)[j + w]? else none)
      rw [List.getElem?_drop, ej, List.getElem?_cons_succ]

/-- step_by(w) keeps exactly the elements at positions 0, w, 2w, ... -/
theorem stepBy_eq (w : Nat) (hw : 0 < w) (l : List Nat) :
    stepBy w l = (List.range l.length).filterMap (fun j => if j % w = 0 then l[j]? else none) :=
  stepByAux_eq w hw l.length l (Nat.le_refl _)

theorem stepBy_range' (w : Nat) (hw : 0 < w) (s n : Nat) :
    stepBy w (List.range' s n) = (List.range' s n).filter (fun i => (i - s) % w == 0) := by
  rw [stepBy_eq w hw, List.length_range', ← List.filterMap_eq_filter, List.range'_eq_map_range (s := s) (n := n),
    List.filterMap_map]
  apply filterMap_congr_mem
  intro j hj
  rw [List.mem_range] at hj
  rw [← List.range'_eq_map_range, List.getElem?_range' hj]
  show _ = Option.guard (fun x => (x - s) % w == 0) (s + j)
  have e : s + j - s = j := by omega
  rw [Nat.one_mul]
  by_cases h : j % w = 0
  · rw [if_pos h, Option.guard_eq_some_iff.mpr ⟨rfl, by rw [e, h]; rfl⟩]
  · rw [if_neg h]
    symm
    rw [Option.guard_eq_none_iff, e]
    simpa using h

/-! ### `skip` of a range -/

theorem drop_range (s n : Nat) : (List.range n).drop s = List.range' s (n - s) := by
  rw [List.range_eq_range', List.drop_range']
  have e : 0 + s * 1 = s := by omega
  rw [e]

end Tu
