import TuModel.Model.Text
namespace Tu

theorem isWsCl_sp : isWsCl sp = true := by decide
theorem isWsCl_nil : isWsCl [] = true := rfl

theorem any_dropWhile {α} (p : α → Bool) (l : List α) :
    (l.dropWhile p).any (fun x => !p x) = l.any (fun x => !p x) := by
  induction l with
  | nil => rfl
  | cons a l ih => simp only [List.dropWhile_cons]; split <;> simp_all

theorem isWsCl_eq_not_any (c : List Nat) : isWsCl c = !(c.any (fun x => !isWsCp x)) := by
  unfold isWsCl; induction c with
  | nil => rfl
  | cons a l ih => simp [List.all_cons, List.any_cons, ih]

theorem isWsCl_trimCl (c : List Nat) : isWsCl (trimCl c) = isWsCl c := by
  simp only [isWsCl_eq_not_any, trimCl, List.any_reverse, any_dropWhile]

theorem trimCl_ne_nil {c : List Nat} (h : isWsCl c = false) : (trimCl c).isEmpty = false := by
  cases ht : trimCl c with
  | nil => have := isWsCl_trimCl c; rw [ht, h] at this; simp [isWsCl] at this
  | cons a l => rfl

/-- trimming does nothing on a cluster without white-space code points -/
theorem trimCl_of_all_nonws {c : List Nat} (h : c.all (fun x => !isWsCp x) = true) : trimCl c = c := by
  have hd : ∀ l : List Nat, l.all (fun x => !isWsCp x) = true → l.dropWhile isWsCp = l := by
    intro l hl; cases l with
    | nil => rfl
    | cons a l => simp at hl; simp [hl.1]
  unfold trimCl
  rw [hd c h, hd c.reverse (by simpa using h), List.reverse_reverse]

/-- the clusters on which `trim` is the identity: every non-white-space cluster of the text is
already trimmed.  Holds in code-point mode (`singletons`) and on the property's grapheme-mode
domain (`unmixed`). -/
def Stable (s : List (List Nat)) : Prop := ∀ c ∈ s, isWsCl c = false → trimCl c = c

theorem stable_of_unmixed {s : List (List Nat)} (h : unmixed s = true) : Stable s := by
  intro c hc hw
  simp only [unmixed, List.all_eq_true] at h
  have := h c hc
  simp [hw] at this
  exact trimCl_of_all_nonws (by simpa using this.2)

theorem unmixed_of_singletons {s : List (List Nat)} (h : singletons s = true) : unmixed s = true := by
  simp only [singletons, unmixed, List.all_eq_true] at *
  intro c hc
  have := h c hc
  match c, this with
  | [x], _ => cases hx : isWsCp x <;> simp [isWsCl, hx]

theorem Stable.tail {c : List Nat} {s : List (List Nat)} (h : Stable (c :: s)) : Stable s :=
  fun d hd => h d (List.mem_cons_of_mem _ hd)

end Tu
