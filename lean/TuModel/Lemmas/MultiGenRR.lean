/-
  The interleaved strategy of the `MultiTrainDataGenerator` model produces `rrSpec` (round robin
  over the sources that still have items).
-/
import TuModel.Lemmas.MultiGenSeq
namespace Tu.MultiGenL
open Tu

/-! ### one row of heads -/

/-- the heads of the non-empty sources, tagged from `i` on -/
def heads (i : Nat) (l : List (List Nat)) : List (Nat × Nat) :=
  (l.zipIdx i).filterMap (fun (s, k) => s.head?.map (fun x => (x, k)))

theorem rrSpec_succ (f : Nat) (srcs : List (List Nat)) :
    rrSpec (f+1) srcs =
      if srcs.all List.isEmpty then [] else heads 0 srcs ++ rrSpec f (srcs.map List.tail) := by
  rw [rrSpec]; rfl

theorem heads_nil (i : Nat) : heads i [] = [] := rfl

theorem heads_cons_nil (i : Nat) (l : List (List Nat)) : heads i ([] :: l) = heads (i + 1) l := by
  rw [heads, List.zipIdx_cons, List.filterMap_cons]; rfl

theorem heads_cons_cons (i x : Nat) (r : List Nat) (l : List (List Nat)) :
    heads i ((x :: r) :: l) = (x, i) :: heads (i + 1) l := by
  simp [heads, List.zipIdx_cons]

theorem heads_empty (i : Nat) (l : List (List Nat)) (h : ∀ s ∈ l, s = []) : heads i l = [] := by
  induction l generalizing i with
  | nil => rfl
  | cons s l ih =>
    rw [h s (List.mem_cons_self ..), heads_cons_nil, ih _ (fun t ht => h t (List.mem_cons_of_mem _ ht))]

theorem all_isEmpty_iff (srcs : List (List Nat)) :
    srcs.all List.isEmpty = true ↔ ∀ l ∈ srcs, l = [] := by
  rw [List.all_eq_true]
  constructor
  · intro h l hl; exact List.isEmpty_iff.mp (h l hl)
  · intro h l hl; exact List.isEmpty_iff.mpr (h l hl)

/-! ### the fuel of `rrSpec` -/

theorem totalItems_tail_le (srcs : List (List Nat)) : totalItems (srcs.map List.tail) ≤ totalItems srcs := by
  induction srcs with
  | nil => exact Nat.le_refl _
  | cons s l ih =>
    rw [List.map_cons, totalItems_cons, totalItems_cons, List.length_tail]; omega

theorem totalItems_tail_lt (srcs : List (List Nat)) (h : ¬ srcs.all List.isEmpty = true) :
    totalItems (srcs.map List.tail) < totalItems srcs := by
  induction srcs with
  | nil => simp at h
  | cons s l ih =>
    rw [List.map_cons, totalItems_cons, totalItems_cons, List.length_tail]
    have hle := totalItems_tail_le l
    cases s with
    | nil =>
      have : ¬ l.all List.isEmpty = true := by
        intro hl; apply h; simp [hl]
      have := ih this
      simp; omega
    | cons x r => simp; omega

theorem rrSpec_fuel : ∀ (f f' : Nat) (srcs : List (List Nat)), totalItems srcs < f → totalItems srcs < f' →
    rrSpec f srcs = rrSpec f' srcs := by
  intro f
  induction f with
  | zero => intro f' srcs h; omega
  | succ f ih =>
    intro f' srcs h h'
    cases f' with
    | zero => omega
    | succ f' =>
      rw [rrSpec_succ, rrSpec_succ]
      by_cases he : srcs.all List.isEmpty = true
      · simp only [he, if_true]
      · simp only [he]
        have := totalItems_tail_lt srcs he
        rw [ih f' _ (by omega) (by omega)]

/-- `rrSpec` with sufficient fuel -/
def rrTot (srcs : List (List Nat)) : List (Nat × Nat) := rrSpec (totalItems srcs + 1) srcs

theorem rrTot_unfold (srcs : List (List Nat)) :
    rrTot srcs = if srcs.all List.isEmpty then [] else heads 0 srcs ++ rrTot (srcs.map List.tail) := by
  unfold rrTot
  rw [rrSpec_succ]
  by_cases he : srcs.all List.isEmpty = true
  · simp only [he, if_true]
  · simp only [he]
    have := totalItems_tail_lt srcs he
    rw [rrSpec_fuel (totalItems srcs) (totalItems (srcs.map List.tail) + 1) _ this (Nat.lt_succ_self _)]

theorem rrTot_empty (srcs : List (List Nat)) (h : ∀ l ∈ srcs, l = []) : rrTot srcs = [] := by
  rw [rrTot_unfold, (all_isEmpty_iff srcs).mpr h]; rfl

/-! ### the remaining output in the middle of a row -/

/-- the rest of the current row from position `i`, then the following rows -/
def RRs (i : Nat) (srcs : List (List Nat)) : List (Nat × Nat) :=
  heads i (srcs.drop i) ++ rrTot (srcs.take i ++ (srcs.drop i).map List.tail)

theorem RRs_ge (i : Nat) (srcs : List (List Nat)) (h : srcs.length ≤ i) : RRs i srcs = rrTot srcs := by
  unfold RRs
  rw [List.drop_of_length_le h, List.take_of_length_le h]
  simp [heads_nil]

theorem RRs_zero (srcs : List (List Nat)) : RRs 0 srcs = heads 0 srcs ++ rrTot (srcs.map List.tail) := by
  simp [RRs]

theorem RRs_wrap (i : Nat) (srcs : List (List Nat)) (h : srcs.length ≤ i) : RRs i srcs = RRs 0 srcs := by
  rw [RRs_ge i srcs h, RRs_zero, rrTot_unfold]
  by_cases he : srcs.all List.isEmpty = true
  · simp only [he, if_true]
    have hall := (all_isEmpty_iff srcs).mp he
    rw [heads_empty 0 srcs hall, rrTot_empty]
    · rfl
    · intro l hl
      obtain ⟨t, ht, rfl⟩ := List.mem_map.mp hl
      rw [hall t ht]; rfl
  · simp only [he]; rfl

theorem RRs_skip (i : Nat) (srcs : List (List Nat)) (h : srcs.getD i [] = []) :
    RRs i srcs = RRs (i + 1) srcs := by
  by_cases hi : i < srcs.length
  · unfold RRs
    rw [drop_of_getD srcs i [] hi, h, heads_cons_nil, List.take_succ_eq_append_getElem hi,
      ← getD_eq_getElem srcs i [] hi, h]
    simp
  · rw [RRs_ge i srcs (by omega), RRs_ge (i+1) srcs (by omega)]

theorem RRs_skip_range (srcs : List (List Nat)) : ∀ (d i : Nat),
    (∀ j, i ≤ j → j < i + d → srcs.getD j [] = []) → RRs i srcs = RRs (i + d) srcs := by
  intro d
  induction d with
  | zero => intro i _; rfl
  | succ d ih =>
    intro i h
    rw [RRs_skip i srcs (h i (Nat.le_refl _) (by omega)), ih (i+1) (fun j h1 h2 => h j (by omega) (by omega))]
    congr 1; omega

theorem RRs_yield (i x : Nat) (rest : List Nat) (srcs : List (List Nat)) (h : srcs.getD i [] = x :: rest) :
    RRs i srcs = (x, i) :: RRs (i + 1) (srcs.set i rest) := by
  have hi : i < srcs.length := lt_length_of_getD_ne srcs i [] (by rw [h]; simp)
  unfold RRs
  rw [drop_of_getD srcs i [] hi, h, heads_cons_cons, List.drop_set_of_lt (Nat.lt_succ_self i),
    List.take_succ_eq_append_getElem (by simpa using hi), List.getElem_set_self,
    List.take_set_of_le (Nat.le_refl i)]
  simp

/-- skipping cyclically over empty sources -/
theorem RRs_cyc (srcs : List (List Nat)) (a r : Nat)
    (h : (a ≤ r ∧ ∀ j, a ≤ j → j < r → srcs.getD j [] = []) ∨
      (r < a ∧ (∀ j, a ≤ j → srcs.getD j [] = []) ∧ ∀ j, j < r → srcs.getD j [] = [])) :
    RRs a srcs = RRs r srcs := by
  rcases h with ⟨h1, h2⟩ | ⟨_, h2, h3⟩
  · have := RRs_skip_range srcs (r - a) a (fun j hj1 hj2 => h2 j hj1 (by omega))
    rw [this]; congr 1; omega
  · rw [RRs_skip_range srcs (srcs.length - a) a (fun j hj1 _ => h2 j hj1),
      RRs_wrap _ srcs (by omega),
      RRs_skip_range srcs r 0 (fun j _ hj2 => h3 j (by omega))]
    congr 1; omega

theorem RRs_empty (i : Nat) (srcs : List (List Nat)) (h : ∀ j, srcs.getD j [] = []) : RRs i srcs = [] := by
  rw [RRs_skip_range srcs srcs.length i (fun j _ _ => h j), RRs_ge _ srcs (by omega)]
  exact rrTot_empty srcs ((all_empty_iff_getD srcs).mpr h)

/-! ### the simulation -/

theorem sim_rr :
    Sim .interleaved (Inv .interleaved) (fun g out => out = RRs g.idx g.srcs) where
  len := fun g h => h.1.1
  cur := fun g h => h.1.2.1
  yld := by
    intro g x rest c hI hsrc
    have hI' := Inv_yield _ g x rest c hI hsrc
    refine ⟨hI', ?_⟩
    intro out hout
    rw [hout, RRs_yield g.idx x rest g.srcs hsrc]
    congr 1
    symm
    have hsp := (nextUnfinished_spec g.fin g.idx hI.1.idx_lt ⟨_, hI.1.2.1⟩).2
    have hemp := hI'.1.2.2
    apply RRs_cyc
    rcases hsp with ⟨h1, h2⟩ | ⟨h1, h2, h3⟩
    · exact Or.inl ⟨h1, fun j hj1 hj2 => hemp j (h2 j hj1 hj2)⟩
    · exact Or.inr ⟨h1, fun j hj => hemp j (h2 j hj), fun j hj => hemp j (h3 j hj)⟩
  mrk := by
    intro g c hI hsrc hall
    have hI' := Inv_mark _ g c hI hsrc hall
    refine ⟨hI', ?_⟩
    intro out hout
    rw [hout, RRs_skip g.idx g.srcs hsrc]
    symm
    have hlen : g.idx < (marked g).fin.length := by
      have := hI.1.idx_lt
      simpa [marked] using this
    have hsp := (nextUnfinished_spec (marked g).fin g.idx hlen (marked_exists g hall)).2
    have hemp := hI'.1.2.2
    apply RRs_cyc
    rcases hsp with ⟨h1, h2⟩ | ⟨h1, h2, h3⟩
    · exact Or.inl ⟨h1, fun j hj1 hj2 => hemp j (h2 j hj1 hj2)⟩
    · exact Or.inr ⟨h1, fun j hj => hemp j (h2 j hj), fun j hj => hemp j (h3 j hj)⟩
  stop := by
    intro g hI hsrc hall
    symm
    apply RRs_empty
    intro i
    by_cases hi : g.idx = i
    · subst hi; exact hsrc
    · apply hI.1.2.2
      rw [← marked_getD_ne g i hi]
      exact (all_id_iff _).mp hall i

theorem mgRun_interleaved (srcs : List (List Nat)) (cs : List Nat) (hne : srcs ≠ []) :
    mgRun .interleaved srcs cs = rrSpec (totalItems srcs + 1) srcs := by
  have : mgRun .interleaved srcs cs = RRs 0 srcs :=
    mgDrain_sim sim_rr (totalItems srcs + 1) (MG.init srcs) cs (Inv_init _ srcs hne)
      (Nat.lt_succ_self _)
  rw [this, ← RRs_wrap srcs.length srcs (Nat.le_refl _), RRs_ge _ srcs (Nat.le_refl _)]
  rfl

end Tu.MultiGenL
