/-
  Progress measure and enabledness lemmas for the `Pipe` model: every action other than `drop`
  is a stutter (failed spin) or strictly decreases `pmeasure`; a worker that is not exited can
  always make (or let another worker make) a measure-decreasing step unless it is blocked on a
  full channel.
-/
import TuModel.Lemmas.PipeInv
namespace Tu
set_option linter.unusedSimpArgs false

theorem pcRank_idle : pcRank .idle = 1 := rfl
theorem pcRank_exited : pcRank .exited = 0 := rfl
theorem pcRank_holding (i : Nat) : pcRank (.holding i) = 9 := rfl
theorem pcRank_computed (i : Nat) : pcRank (.computed i) = 7 := rfl
theorem pcRank_cleared (i : Nat) : pcRank (.cleared i) = 5 := rfl
theorem pcRank_sent (i : Nat) (ok : Bool) : pcRank (.sent i ok) = 3 := rfl

theorem measure_take {N : Nat} {s s' : PState} {w : Nat} (hN : ∀ k, N ≤ k → s.src k = false)
    (hs : stepTake s w = some s') : pmeasure N s' < pmeasure N s := by
  unfold stepTake at hs
  split at hs
  · rename_i hg
    obtain ⟨hw, hpc⟩ := hg
    split at hs
    · rename_i hlt
      injection hs with hs; subst hs
      have hpN : s.pulls < N := by
        apply Classical.byContradiction
        intro hge
        rw [hN s.pulls (by omega)] at hlt; cases hlt
      unfold pmeasure; dsimp only
      have := sum_map_setPc pcRank s.pc w s.W (.holding s.next) hw
      rw [hpc] at this; simp only [pcRank_idle, pcRank_exited, pcRank_holding, pcRank_computed, pcRank_cleared, pcRank_sent] at this
      omega
    · injection hs with hs; subst hs
      unfold pmeasure; dsimp only
      have := sum_map_setPc pcRank s.pc w s.W .exited hw
      rw [hpc] at this; simp only [pcRank_idle, pcRank_exited, pcRank_holding, pcRank_computed, pcRank_cleared, pcRank_sent] at this
      omega
  · cases hs

theorem measure_compute {N : Nat} {s s' : PState} {w : Nat} (hs : stepCompute s w = some s') :
    pmeasure N s' < pmeasure N s := by
  unfold stepCompute at hs
  split at hs
  · rename_i hw
    split at hs
    · rename_i i hpc
      injection hs with hs; subst hs
      unfold pmeasure; dsimp only
      have := sum_map_setPc pcRank s.pc w s.W (.computed i) hw
      rw [hpc] at this; simp only [pcRank_idle, pcRank_exited, pcRank_holding, pcRank_computed, pcRank_cleared, pcRank_sent] at this
      omega
    · cases hs
  · cases hs

theorem measure_spin {N : Nat} {s s' : PState} {w : Nat} (hs : stepSpin s w = some s') :
    s' = s ∨ pmeasure N s' < pmeasure N s := by
  unfold stepSpin at hs
  split at hs
  · rename_i hw
    split at hs
    · rename_i i hpc
      split at hs
      · injection hs with hs; subst hs
        right
        unfold pmeasure; dsimp only
        have := sum_map_setPc pcRank s.pc w s.W (.cleared i) hw
        rw [hpc] at this; simp only [pcRank_idle, pcRank_exited, pcRank_holding, pcRank_computed, pcRank_cleared, pcRank_sent] at this
        omega
      · injection hs with hs; exact Or.inl hs.symm
    · cases hs
  · cases hs

theorem measure_send {N : Nat} {s s' : PState} {w : Nat} (hs : stepSend s w = some s') :
    pmeasure N s' < pmeasure N s := by
  unfold stepSend at hs
  split at hs
  · rename_i hw
    split at hs
    · rename_i i hpc
      split at hs
      · injection hs with hs; subst hs
        unfold pmeasure; dsimp only
        have := sum_map_setPc pcRank s.pc w s.W (.sent i false) hw
        rw [hpc] at this; simp only [pcRank_idle, pcRank_exited, pcRank_holding, pcRank_computed, pcRank_cleared, pcRank_sent] at this
        omega
      · split at hs
        · injection hs with hs; subst hs
          unfold pmeasure; dsimp only
          have := sum_map_setPc pcRank s.pc w s.W (.sent i true) hw
          rw [hpc] at this; simp only [pcRank_idle, pcRank_exited, pcRank_holding, pcRank_computed, pcRank_cleared, pcRank_sent] at this
          simp only [List.length_append, List.length_cons, List.length_nil]
          omega
        · cases hs
    · cases hs
  · cases hs

theorem measure_advance {N : Nat} {s s' : PState} {w : Nat} (hs : stepAdvance s w = some s') :
    pmeasure N s' < pmeasure N s := by
  unfold stepAdvance at hs
  split at hs
  · rename_i hw
    split at hs
    · rename_i i ok hpc
      injection hs with hs; subst hs
      unfold pmeasure; dsimp only
      cases ok
      · have := sum_map_setPc pcRank s.pc w s.W PC.exited hw
        rw [hpc] at this; simp only [pcRank_idle, pcRank_exited, pcRank_holding, pcRank_computed, pcRank_cleared, pcRank_sent] at this
        simp only [Bool.false_eq_true, if_false]
        omega
      · have := sum_map_setPc pcRank s.pc w s.W PC.idle hw
        rw [hpc] at this; simp only [pcRank_idle, pcRank_exited, pcRank_holding, pcRank_computed, pcRank_cleared, pcRank_sent] at this
        simp only [if_true]
        omega
    · cases hs
  · cases hs

theorem measure_recv {N : Nat} {s s' : PState} (hs : stepRecv s = some s') : pmeasure N s' < pmeasure N s := by
  unfold stepRecv at hs
  split at hs
  · cases hs
  · split at hs
    · rename_i x rest hch
      injection hs with hs; subst hs
      unfold pmeasure; dsimp only
      rw [hch]; simp only [List.length_cons]; omega
    · cases hs

theorem measure_close {N : Nat} {s s' : PState} (hs : stepClose s = some s') : pmeasure N s' < pmeasure N s := by
  unfold stepClose at hs
  split at hs
  · rename_i hg
    injection hs with hs; subst hs
    simp only [Bool.and_eq_true, Bool.not_eq_true'] at hg
    obtain ⟨⟨⟨_, hcl⟩, _⟩, _⟩ := hg
    unfold pmeasure; dsimp only
    rw [hcl]; simp
  · cases hs

/-- every step other than `drop` is a stutter or strictly decreases the measure (no invariant needed) -/
theorem pstep_measure {N : Nat} {s s' : PState} {a : PAction} (hN : ∀ k, N ≤ k → s.src k = false)
    (ha : a ≠ PAction.drop) (hs : pstep s a = some s') :
    s' = s ∨ pmeasure N s' < pmeasure N s := by
  cases a with
  | take w => exact Or.inr (measure_take hN hs)
  | compute w => exact Or.inr (measure_compute hs)
  | spin w => exact measure_spin hs
  | send w => exact Or.inr (measure_send hs)
  | advance w => exact Or.inr (measure_advance hs)
  | recv => exact Or.inr (measure_recv hs)
  | close => exact Or.inr (measure_close hs)
  | drop => exact absurd rfl ha

/-! ### enabledness -/

theorem take_enabled {s : PState} {w : Nat} (hw : w < s.W) (hpc : s.pc w = .idle) :
    ∃ s', stepTake s w = some s' := by
  unfold stepTake
  rw [if_pos ⟨hw, hpc⟩]
  split <;> exact ⟨_, rfl⟩

theorem compute_enabled {s : PState} {w i : Nat} (hw : w < s.W) (hpc : s.pc w = .holding i) :
    ∃ s', stepCompute s w = some s' := by
  unfold stepCompute
  rw [if_pos hw, hpc]
  exact ⟨_, rfl⟩

theorem spin_enabled {N : Nat} {s : PState} {w : Nat} (hw : w < s.W) (hpc : s.pc w = .computed s.turn) :
    ∃ s', stepSpin s w = some s' ∧ pmeasure N s' < pmeasure N s := by
  refine ⟨{ s with pc := setPc s.pc w (.cleared s.turn) }, ?_, ?_⟩
  · unfold stepSpin
    rw [if_pos hw, hpc]
    simp
  · unfold pmeasure; dsimp only
    have := sum_map_setPc pcRank s.pc w s.W (.cleared s.turn) hw
    rw [hpc] at this; simp only [pcRank_idle, pcRank_exited, pcRank_holding, pcRank_computed, pcRank_cleared, pcRank_sent] at this
    omega

theorem send_enabled {s : PState} {w i : Nat} (hw : w < s.W) (hpc : s.pc w = .cleared i)
    (hg : s.dropped = true ∨ s.chan.length < s.W) : ∃ s', stepSend s w = some s' := by
  unfold stepSend
  rw [if_pos hw, hpc]
  dsimp only
  by_cases hd : s.dropped = true
  · rw [if_pos hd]; exact ⟨_, rfl⟩
  · rw [if_neg hd]
    rcases hg with hg | hg
    · exact absurd hg hd
    · rw [if_pos hg]; exact ⟨_, rfl⟩

theorem advance_enabled {s : PState} {w i : Nat} {ok : Bool} (hw : w < s.W) (hpc : s.pc w = .sent i ok) :
    ∃ s', stepAdvance s w = some s' := by
  unfold stepAdvance
  rw [if_pos hw, hpc]
  exact ⟨_, rfl⟩

/-- a worker that is not spinning on somebody else's turn can step, unless blocked on a full channel -/
theorem ready_progress {N : Nat} {s : PState} {w : Nat} (hN : ∀ k, N ≤ k → s.src k = false)
    (hw : w < s.W) (hne : s.pc w ≠ .exited)
    (hsp : ∀ i, s.pc w = .computed i → i = s.turn)
    (hg : s.dropped = true ∨ s.chan.length < s.W) :
    ∃ a s', a ≠ PAction.drop ∧ a ≠ PAction.recv ∧ a ≠ PAction.close ∧
      pstep s a = some s' ∧ pmeasure N s' < pmeasure N s := by
  cases hpc : s.pc w with
  | idle =>
    obtain ⟨s', hs⟩ := take_enabled hw hpc
    exact ⟨.take w, s', by simp, by simp, by simp, hs, measure_take hN hs⟩
  | holding i =>
    obtain ⟨s', hs⟩ := compute_enabled hw hpc
    exact ⟨.compute w, s', by simp, by simp, by simp, hs, measure_compute hs⟩
  | computed i =>
    have := hsp i hpc; subst this
    obtain ⟨s', hs, hm⟩ := spin_enabled hw hpc
    exact ⟨.spin w, s', by simp, by simp, by simp, hs, hm⟩
  | cleared i =>
    obtain ⟨s', hs⟩ := send_enabled hw hpc hg
    exact ⟨.send w, s', by simp, by simp, by simp, hs, measure_send hs⟩
  | sent i ok =>
    obtain ⟨s', hs⟩ := advance_enabled hw hpc
    exact ⟨.advance w, s', by simp, by simp, by simp, hs, measure_advance hs⟩
  | exited => exact absurd hpc hne

/-- if some worker has not exited and sends are not blocked, some worker step decreases the measure -/
theorem worker_progress {W N : Nat} {src : Nat → Bool} {s : PState} (h : Inv W src s)
    (hN : ∀ k, N ≤ k → s.src k = false) {w : Nat} (hw : w < W)
    (hne : s.pc w ≠ .exited) (hg : s.dropped = true ∨ s.chan.length < s.W) :
    ∃ a s', a ≠ PAction.drop ∧ a ≠ PAction.recv ∧ a ≠ PAction.close ∧
      pstep s a = some s' ∧ pmeasure N s' < pmeasure N s := by
  have hWs := h.hW
  by_cases hsp : ∀ i, s.pc w = .computed i → i = s.turn
  · exact ready_progress hN (by omega) hne hsp hg
  · have : ∃ i, s.pc w = .computed i ∧ i ≠ s.turn := by
      apply Classical.byContradiction
      intro hcon
      apply hsp
      intro i hi
      apply Classical.byContradiction
      intro hit
      exact hcon ⟨i, hi, hit⟩
    obtain ⟨i, hpc, hit⟩ := this
    have hr := h.held_rng w i hw (by rw [hpc]; rfl)
    obtain ⟨u, hu, hui⟩ := h.held_ex s.turn (Nat.le_refl _) (by omega)
    apply ready_progress (w := u) hN (by omega) _ _ hg
    · intro e; rw [e] at hui; cases hui
    · intro j hj; rw [hj] at hui; injection hui

/-! ### after the consumer dropped the iterator -/

theorem tl_idle : PC.tl .idle = 1 := rfl
theorem tl_exited : PC.tl .exited = 0 := rfl
theorem tl_holding (i : Nat) : PC.tl (.holding i) = 0 := rfl
theorem tl_computed (i : Nat) : PC.tl (.computed i) = 0 := rfl
theorem tl_cleared (i : Nat) : PC.tl (.cleared i) = 0 := rfl
theorem tl_sent_true (i : Nat) : PC.tl (.sent i true) = 1 := rfl
theorem tl_sent_false (i : Nat) : PC.tl (.sent i false) = 0 := rfl

theorem takesLeft_le (s : PState) : takesLeft s ≤ s.W := by
  rw [takesLeft_eq]
  have := sum_range_le (fun u => (s.pc u).tl) 1 (fun u => by
    cases h : s.pc u with
    | sent i ok => cases ok <;> simp [PC.tl]
    | _ => simp [PC.tl]) s.W
  omega

/-- once `dropped`, it stays so, and `next + takesLeft` never grows: a worker takes at most one more item -/
theorem drop_step {s s' : PState} {a : PAction} (hd : s.dropped = true) (hs : pstep s a = some s') :
    s'.dropped = true ∧ s'.next + takesLeft s' ≤ s.next + takesLeft s := by
  cases a with
  | take w =>
    simp only [pstep] at hs
    unfold stepTake at hs
    split at hs
    · rename_i hg
      obtain ⟨hw, hpc⟩ := hg
      split at hs
      · injection hs with hs; subst hs
        refine ⟨hd, ?_⟩
        rw [takesLeft_eq, takesLeft_eq]; dsimp only
        have := sum_map_setPc PC.tl s.pc w s.W (.holding s.next) hw
        rw [hpc] at this; simp only [tl_idle, tl_exited, tl_holding, tl_computed, tl_cleared, tl_sent_true, tl_sent_false] at this
        omega
      · injection hs with hs; subst hs
        refine ⟨hd, ?_⟩
        rw [takesLeft_eq, takesLeft_eq]; dsimp only
        have := sum_map_setPc PC.tl s.pc w s.W .exited hw
        rw [hpc] at this; simp only [tl_idle, tl_exited, tl_holding, tl_computed, tl_cleared, tl_sent_true, tl_sent_false] at this
        omega
    · cases hs
  | compute w =>
    simp only [pstep] at hs
    unfold stepCompute at hs
    split at hs
    · rename_i hw
      split at hs
      · rename_i i hpc
        injection hs with hs; subst hs
        refine ⟨hd, ?_⟩
        rw [takesLeft_eq, takesLeft_eq]; dsimp only
        have := sum_map_setPc PC.tl s.pc w s.W (.computed i) hw
        rw [hpc] at this; simp only [tl_idle, tl_exited, tl_holding, tl_computed, tl_cleared, tl_sent_true, tl_sent_false] at this
        omega
      · cases hs
    · cases hs
  | spin w =>
    simp only [pstep] at hs
    unfold stepSpin at hs
    split at hs
    · rename_i hw
      split at hs
      · rename_i i hpc
        split at hs
        · injection hs with hs; subst hs
          refine ⟨hd, ?_⟩
          rw [takesLeft_eq, takesLeft_eq]; dsimp only
          have := sum_map_setPc PC.tl s.pc w s.W (.cleared i) hw
          rw [hpc] at this; simp only [tl_idle, tl_exited, tl_holding, tl_computed, tl_cleared, tl_sent_true, tl_sent_false] at this
          omega
        · injection hs with hs; subst hs
          exact ⟨hd, Nat.le_refl _⟩
      · cases hs
    · cases hs
  | send w =>
    simp only [pstep] at hs
    unfold stepSend at hs
    split at hs
    · rename_i hw
      split at hs
      · rename_i i hpc
        injection hs with hs; subst hs
        refine ⟨hd, ?_⟩
        rw [takesLeft_eq, takesLeft_eq]; dsimp only
        have := sum_map_setPc PC.tl s.pc w s.W (.sent i false) hw
        rw [hpc] at this; simp only [tl_idle, tl_exited, tl_holding, tl_computed, tl_cleared, tl_sent_true, tl_sent_false] at this
        omega
      · cases hs
    · cases hs
  | advance w =>
    simp only [pstep] at hs
    unfold stepAdvance at hs
    split at hs
    · rename_i hw
      split at hs
      · rename_i i ok hpc
        injection hs with hs; subst hs
        refine ⟨hd, ?_⟩
        rw [takesLeft_eq, takesLeft_eq]; dsimp only
        cases ok
        · have := sum_map_setPc PC.tl s.pc w s.W .exited hw
          rw [hpc] at this; simp only [tl_idle, tl_exited, tl_holding, tl_computed, tl_cleared, tl_sent_true, tl_sent_false] at this
          simp only [Bool.false_eq_true, if_false]
          omega
        · have := sum_map_setPc PC.tl s.pc w s.W .idle hw
          rw [hpc] at this; simp only [tl_idle, tl_exited, tl_holding, tl_computed, tl_cleared, tl_sent_true, tl_sent_false] at this
          simp only [if_true]
          omega
      · cases hs
    · cases hs
  | recv => simp [pstep, stepRecv, hd] at hs
  | close => simp [pstep, stepClose, hd] at hs
  | drop => simp [pstep, stepDrop, hd] at hs

end Tu
