/-
  Lemmas for `groupWords_total` (C13): the grouping loop of `_group_words` ends with
  `input_idx = #input words` and `pred_idx = #predicted words` on whitespace-clean texts.
-/
import TuModel.Model.Metrics
import TuModel.Lemmas.EditScript
import TuModel.Lemmas.ScriptAcceptL
import TuModel.Lemmas.TextL
namespace Tu

/-! ## the grouping loop, for an arbitrary merge set / insertion count -/

/-- what the loop adds to `pred_idx` from word `k` on, `d` words remaining -/
def gwPhi (merged : List Nat) (inserted : Nat → Nat) : Nat → Nat → Nat
  | 0, _ => 0
  | d+1, k => inserted k + (if merged.contains k then 0 else 1) + gwPhi merged inserted d (k+1)

theorem gwPhi_succ (merged : List Nat) (inserted : Nat → Nat) (d k : Nat) :
    gwPhi merged inserted (d+1) k =
      inserted k + (if merged.contains k then 0 else 1) + gwPhi merged inserted d (k+1) := rfl

def geCount (merged : List Nat) (i : Nat) : Nat := (merged.filter (fun m => decide (i ≤ m))).length

theorem geCount_le (merged : List Nat) (i : Nat) : geCount merged i ≤ merged.length :=
  List.length_filter_le _ _

theorem geCount_succ_le (merged : List Nat) (i : Nat) : geCount merged (i+1) ≤ geCount merged i := by
  unfold geCount
  induction merged with
  | nil => simp
  | cons m ms ih =>
    simp only [List.filter_cons]
    by_cases h1 : i + 1 ≤ m
    · have h2 : i ≤ m := by omega
      simp only [h1, h2, decide_true, if_true, List.length_cons]; omega
    · by_cases h2 : i ≤ m
      · simp only [h1, h2, decide_true, decide_false, if_true, List.length_cons]
        simp only [Bool.false_eq_true, if_false]; omega
      · simp only [h1, h2, decide_false, Bool.false_eq_true, if_false]; exact ih

theorem geCount_succ_lt (merged : List Nat) (i : Nat) (h : i ∈ merged) :
    geCount merged (i+1) < geCount merged i := by
  induction merged with
  | nil => simp at h
  | cons m ms ih =>
    rcases List.mem_cons.mp h with rfl | h
    · have := geCount_succ_le ms i
      unfold geCount at this ⊢
      simp only [List.filter_cons]
      have h1 : ¬ (i + 1 ≤ i) := by omega
      simp only [h1, decide_false, Bool.false_eq_true, if_false, Nat.le_refl, decide_true, if_true,
        List.length_cons]
      omega
    · have := ih h
      unfold geCount at this ⊢
      simp only [List.filter_cons]
      by_cases h1 : i + 1 ≤ m
      · have h2 : i ≤ m := by omega
        simp only [h1, h2, decide_true, if_true, List.length_cons]; omega
      · by_cases h2 : i ≤ m
        · simp only [h1, h2, decide_true, decide_false, if_true, List.length_cons]
          simp only [Bool.false_eq_true, if_false]; omega
        · simp only [h1, h2, decide_false, Bool.false_eq_true, if_false]; exact this

theorem ext_spec (merged : List Nat) (inserted : Nat → Nat) (n : Nat) (hm : ∀ m ∈ merged, m + 1 < n) :
    ∀ (f i : Nat) (mw : List Nat) (tot : Nat), i < n → geCount merged i < f →
      ∃ i' mw' tot', groupLoop.ext merged inserted f i mw tot = (i', mw', tot') ∧ i' < n ∧ i ≤ i' ∧
        tot + (if merged.contains i then 0 else 1) + gwPhi merged inserted (n - i - 1) (i+1) =
          tot' + 1 + gwPhi merged inserted (n - i' - 1) (i'+1) := by
  intro f
  induction f with
  | zero => intro i mw tot _ h; omega
  | succ f ih =>
    intro i mw tot hi hf
    rw [groupLoop.ext.eq_2]
    by_cases hc : merged.contains i = true
    · have hmem : i ∈ merged := by simpa using hc
      have hi1 := hm i hmem
      have hlt := geCount_succ_lt merged i hmem
      obtain ⟨i', mw', tot', he, hi', hle, heq⟩ :=
        ih (i+1) ((i+1) :: mw) (tot + inserted (i+1)) hi1 (by omega)
      refine ⟨i', mw', tot', by simp only [hc, if_true]; exact he, hi', by omega, ?_⟩
      rw [← heq]
      have hd : n - i - 1 = (n - (i+1) - 1) + 1 := by omega
      rw [hd, gwPhi_succ]
      simp only [hc, if_true]
      omega
    · refine ⟨i, mw, tot, by rw [if_neg hc], hi, Nat.le_refl _, ?_⟩
      rw [if_neg hc]

theorem groupLoop_spec (n : Nat) (merged : List Nat) (inserted : Nat → Nat) (matching : List Nat)
    (hm : ∀ m ∈ merged, m + 1 < n) :
    ∀ (fuel inIdx predIdx : Nat) (correct : List Nat), inIdx ≤ n → n - inIdx < fuel →
      ∃ c, groupLoop n merged inserted matching fuel inIdx predIdx correct =
        some (n, predIdx + gwPhi merged inserted (n - inIdx) inIdx, c) := by
  intro fuel
  induction fuel with
  | zero => intro _ _ _ _ h; omega
  | succ fuel ih =>
    intro inIdx predIdx correct hle hf
    rw [groupLoop.eq_2]
    by_cases hlt : inIdx < n
    · simp only [hlt, if_true]
      obtain ⟨i', mw', tot', he, hi', hle', heq⟩ :=
        ext_spec merged inserted n hm (merged.length + 1) inIdx [inIdx] (inserted inIdx) hlt
          (by have := geCount_le merged inIdx; omega)
      rw [he]
      simp only []
      obtain ⟨c, hc⟩ := ih (i' + 1) (predIdx + tot' + 1)
        (if ((List.range (tot' + 1)).all fun k => matching.contains (predIdx + k)) = true then mw' ++ correct else correct)
        (by omega) (by omega)
      refine ⟨c, ?_⟩
      rw [hc]
      have hd : n - inIdx = (n - inIdx - 1) + 1 := by omega
      rw [hd, gwPhi_succ, show n - (i' + 1) = n - i' - 1 by omega]
      congr 3
      omega
    · have : inIdx = n := by omega
      subst this
      simp only [Nat.lt_irrefl, if_false, Nat.sub_self]
      exact ⟨correct, rfl⟩

/-! ## closed form of the final `pred_idx` -/

theorem countP_range_split (l : List Nat) (k d : Nat) :
    l.countP (fun x => decide (k ≤ x) && decide (x < k + (d+1))) =
      l.countP (· == k) + l.countP (fun x => decide (k+1 ≤ x) && decide (x < k+1+d)) := by
  induction l with
  | nil => rfl
  | cons x xs ih =>
    simp only [List.countP_cons, ih, Bool.and_eq_true, decide_eq_true_eq, beq_iff_eq]
    grind

theorem countP_eq_of_sorted (l : List Nat) (h : l.Pairwise (· < ·)) (k : Nat) :
    l.countP (· == k) = if l.contains k then 1 else 0 := by
  induction l with
  | nil => rfl
  | cons x xs ih =>
    rw [List.pairwise_cons] at h
    rw [List.countP_cons, ih h.2]
    by_cases hx : x = k
    · subst hx
      have : ¬ x ∈ xs := fun hm => by have := h.1 x hm; omega
      simp [this]
    · have : (x == k) = false := by simpa using hx
      simp [this]
      grind

theorem gwPhi_closed (merged I : List Nat) (hs : merged.Pairwise (· < ·)) : ∀ d k,
    gwPhi merged (fun w => (I.filter (· == w)).length) d k +
        merged.countP (fun x => decide (k ≤ x) && decide (x < k + d)) =
      I.countP (fun x => decide (k ≤ x) && decide (x < k + d)) + d := by
  intro d
  induction d with
  | zero =>
    intro k
    have h0 : ∀ l : List Nat, l.countP (fun x => decide (k ≤ x) && decide (x < k + 0)) = 0 := by
      intro l
      rw [List.countP_eq_zero]
      intro x _
      simp only [Bool.and_eq_true, decide_eq_true_eq]; omega
    rw [h0, h0]; rfl
  | succ d ih =>
    intro k
    rw [gwPhi_succ, countP_range_split merged, countP_range_split I, countP_eq_of_sorted merged hs]
    have := ih (k+1)
    simp only [← List.countP_eq_length_filter] at this ⊢
    split <;> omega

/-- the final `pred_idx` of the loop -/
theorem gwPhi_total (merged I : List Nat) (n : Nat) (hs : merged.Pairwise (· < ·))
    (hm : ∀ m ∈ merged, m < n) (hI : ∀ w ∈ I, w < n) :
    gwPhi merged (fun w => (I.filter (· == w)).length) n 0 + merged.length = I.length + n := by
  have := gwPhi_closed merged I hs n 0
  have e1 : merged.countP (fun x => decide (0 ≤ x) && decide (x < 0 + n)) = merged.length := by
    rw [List.countP_eq_length]
    intro x hx; have := hm x hx; simp; omega
  have e2 : I.countP (fun x => decide (0 ≤ x) && decide (x < 0 + n)) = I.length := by
    rw [List.countP_eq_length]
    intro x hx; have := hI x hx; simp; omega
  rw [e1, e2] at this
  exact this


/-! ## whitespace bookkeeping along a script (`sid`, no swaps) -/

/-- input positions of the deleted whitespace clusters -/
def delWs (a : List (List Nat)) (l : List (EKind × Nat × Nat)) : List Nat :=
  l.filterMap (fun (k, i, _) => if k == .delete && isWsCl (a.getD i []) then some i else none)

/-- input positions at which a whitespace cluster is inserted -/
def insWs (b : List (List Nat)) (l : List (EKind × Nat × Nat)) : List Nat :=
  l.filterMap (fun (k, i, j) => if k == .insert && isWsCl (b.getD j []) then some i else none)

theorem delWs_append (a l1 l2) : delWs a (l1 ++ l2) = delWs a l1 ++ delWs a l2 := by
  simp [delWs, List.filterMap_append]
theorem insWs_append (b l1 l2) : insWs b (l1 ++ l2) = insWs b l1 ++ insWs b l2 := by
  simp [insWs, List.filterMap_append]

theorem countP_take_succ (p : List Nat → Bool) (a : List (List Nat)) (i : Nat) (h : i < a.length) :
    (a.take (i+1)).countP p = (a.take i).countP p + if p (a.getD i []) then 1 else 0 := by
  rw [take_succ_getD a i h, List.countP_append]
  simp [List.countP_cons]

structure WsOK (a b : List (List Nat)) (i j : Nat) (l : List (EKind × Nat × Nat)) : Prop where
  hi : i ≤ a.length
  hj : j ≤ b.length
  count : (b.take j).countP isWsCl + (delWs a l).length = (a.take i).countP isWsCl + (insWs b l).length
  dpos : ∀ p ∈ delWs a l, p < i ∧ isWsCl (a.getD p []) = true
  dsorted : (delWs a l).Pairwise (· < ·)
  ipos : ∀ p ∈ insWs b l, p ≤ i

theorem delWs_single (a : List (List Nat)) (k : EKind) (i j : Nat) :
    delWs a [(k, i, j)] = if k == .delete && isWsCl (a.getD i []) then [i] else [] := by
  unfold delWs
  simp only [List.filterMap_cons, List.filterMap_nil]
  by_cases h : (k == .delete && isWsCl (a.getD i [])) = true
  · rw [if_pos h, if_pos h]
  · rw [if_neg h, if_neg h]
theorem insWs_single (b : List (List Nat)) (k : EKind) (i j : Nat) :
    insWs b [(k, i, j)] = if k == .insert && isWsCl (b.getD j []) then [i] else [] := by
  unfold insWs
  simp only [List.filterMap_cons, List.filterMap_nil]
  by_cases h : (k == .insert && isWsCl (b.getD j [])) = true
  · rw [if_pos h, if_pos h]
  · rw [if_neg h, if_neg h]

theorem trace_wsOK (a b : List (List Nat)) {i j l} (h : Trace { swap := false, sid := true } a b i j l) :
    WsOK a b i j l := by
  induction h with
  | zero => exact ⟨by omega, by omega, by simp [delWs, insWs], by simp [delWs], by simp [delWs], by simp [insWs]⟩
  | @keep i j l _ hi hj he ih =>
    refine ⟨by omega, by omega, ?_, fun p hp => ⟨by have := (ih.dpos p hp).1; omega, (ih.dpos p hp).2⟩, ih.dsorted,
      fun p hp => by have := ih.ipos p hp; omega⟩
    rw [countP_take_succ _ a i hi, countP_take_succ _ b j hj, he]
    have := ih.count
    omega
  | @ins i j l _ hj ih =>
    have e2 : delWs a (l ++ [(.insert, i, j)]) = delWs a l := by
      rw [delWs_append, delWs_single]; simp
    cases hw : isWsCl (b.getD j []) with
    | true =>
      have e1 : insWs b (l ++ [(.insert, i, j)]) = insWs b l ++ [i] := by
        rw [insWs_append, insWs_single, hw]; simp
      refine ⟨ih.hi, by omega, ?_, by rw [e2]; exact ih.dpos, by rw [e2]; exact ih.dsorted, ?_⟩
      · rw [e1, e2, countP_take_succ _ b j hj, hw]
        have := ih.count
        simp only [List.length_append, List.length_singleton, if_true]
        omega
      · rw [e1]; intro p hp
        rcases List.mem_append.mp hp with hp | hp
        · exact ih.ipos p hp
        · simp at hp; omega
    | false =>
      have e1 : insWs b (l ++ [(.insert, i, j)]) = insWs b l := by
        rw [insWs_append, insWs_single, hw]; simp
      refine ⟨ih.hi, by omega, ?_, by rw [e2]; exact ih.dpos, by rw [e2]; exact ih.dsorted, by rw [e1]; exact ih.ipos⟩
      rw [e1, e2, countP_take_succ _ b j hj, hw]
      have := ih.count
      simp only [Bool.false_eq_true, if_false]
      omega
  | @del i j l _ hi ih =>
    have e1 : insWs b (l ++ [(.delete, i, j)]) = insWs b l := by
      rw [insWs_append, insWs_single]; simp
    cases hw : isWsCl (a.getD i []) with
    | true =>
      have e2 : delWs a (l ++ [(.delete, i, j)]) = delWs a l ++ [i] := by
        rw [delWs_append, delWs_single, hw]; simp
      refine ⟨by omega, ih.hj, ?_, ?_, ?_, by rw [e1]; intro p hp; have := ih.ipos p hp; omega⟩
      · rw [e1, e2, countP_take_succ _ a i hi, hw]
        have := ih.count
        simp only [List.length_append, List.length_singleton, if_true]
        omega
      · rw [e2]; intro p hp
        rcases List.mem_append.mp hp with hp | hp
        · exact ⟨by have := (ih.dpos p hp).1; omega, (ih.dpos p hp).2⟩
        · simp at hp; subst hp; exact ⟨by omega, hw⟩
      · rw [e2, List.pairwise_append]
        refine ⟨ih.dsorted, by simp, ?_⟩
        intro p hp q hq
        simp at hq; subst hq
        exact (ih.dpos p hp).1
    | false =>
      have e2 : delWs a (l ++ [(.delete, i, j)]) = delWs a l := by
        rw [delWs_append, delWs_single, hw]; simp
      refine ⟨by omega, ih.hj, ?_, by rw [e2]; exact fun p hp => ⟨by have := (ih.dpos p hp).1; omega, (ih.dpos p hp).2⟩,
        by rw [e2]; exact ih.dsorted, by rw [e1]; intro p hp; have := ih.ipos p hp; omega⟩
      rw [e1, e2, countP_take_succ _ a i hi, hw]
      have := ih.count
      simp only [Bool.false_eq_true, if_false]
      omega
  | @rep i j l _ hi hj hr ih =>
    have e1 : insWs b (l ++ [(.replace, i, j)]) = insWs b l := by
      rw [insWs_append, insWs_single]; simp
    have e2 : delWs a (l ++ [(.replace, i, j)]) = delWs a l := by
      rw [delWs_append, delWs_single]; simp
    simp only [canReplace, Bool.not_true, Bool.false_or, Bool.and_eq_true, Bool.not_eq_true'] at hr
    refine ⟨by omega, by omega, ?_, by rw [e2]; exact fun p hp => ⟨by have := (ih.dpos p hp).1; omega, (ih.dpos p hp).2⟩,
      by rw [e2]; exact ih.dsorted, by rw [e1]; intro p hp; have := ih.ipos p hp; omega⟩
    rw [e1, e2, countP_take_succ _ a i hi, countP_take_succ _ b j hj, hr.1, hr.2]
    have := ih.count
    simp only [Bool.false_eq_true, if_false]
    omega
  | swp _ hs _ => simp at hs

/-! ## word boundaries of a clean text -/

/-- positions (offset `idx`) of the whitespace clusters -/
def wsPosFrom : List (List Nat) → Nat → List Nat
  | [], _ => []
  | c :: cs, idx => if isWsCl c then idx :: wsPosFrom cs (idx+1) else wsPosFrom cs (idx+1)

theorem wsPosFrom_length (cs : List (List Nat)) (idx : Nat) : (wsPosFrom cs idx).length = cs.countP isWsCl := by
  induction cs generalizing idx with
  | nil => rfl
  | cons c cs ih =>
    rw [wsPosFrom, List.countP_cons]
    split <;> simp [ih]

/-- on a clean text the word ends are the whitespace positions and the text end -/
theorem wbAux_ends (cs : List (List Nat)) : ∀ (idx : Nat) (start : Option Nat) (st : CSt),
    cleanSt st cs = true →
    ((st = .ch ∧ ∃ s0, start = some s0 ∧ s0 < idx) ∨ (st ≠ .ch ∧ start = none ∧ cs ≠ [])) →
    (wbAux cs idx start).map Prod.snd = wsPosFrom cs idx ++ [idx + cs.length] := by
  induction cs with
  | nil =>
    intro idx start st hc hst
    rcases hst with ⟨rfl, s0, rfl, hs⟩ | ⟨_, _, h⟩
    · simp [wbAux, hs, wsPosFrom]
    · exact absurd rfl h
  | cons c cs ih =>
    intro idx start st hc hst
    rw [cleanSt] at hc
    cases hw : isWsCl c with
    | true =>
      simp only [hw, if_true, Bool.and_eq_true, beq_iff_eq] at hc
      obtain ⟨⟨_, hch⟩, hcs⟩ := hc
      rcases hst with ⟨_, s0, rfl, hs⟩ | ⟨h, _, _⟩
      · have hne : cs ≠ [] := by rintro rfl; simp [cleanSt] at hcs
        rw [wbAux.eq_3 _ _ _ _ hw]
        rw [List.map_cons, ih (idx+1) none .sep hcs (Or.inr ⟨by simp, rfl, hne⟩), wsPosFrom]
        simp only [hw, if_true, List.cons_append, List.length_cons]
        rw [show idx + 1 + cs.length = idx + (cs.length + 1) by omega]
      · exact absurd hch h
    | false =>
      simp only [hw, Bool.false_eq_true, if_false] at hc
      rcases hst with ⟨_, s0, rfl, hs⟩ | ⟨_, rfl, _⟩
      · rw [wbAux.eq_5 _ _ _ _ (by simp [hw]) (by simp)]
        rw [ih (idx+1) (some s0) .ch hc (Or.inl ⟨rfl, s0, rfl, by omega⟩), wsPosFrom]
        simp only [hw, Bool.false_eq_true, if_false, List.length_cons]
        rw [show idx + 1 + cs.length = idx + (cs.length + 1) by omega]
      · rw [wbAux.eq_4 _ _ _ hw]
        rw [ih (idx+1) (some idx) .ch hc (Or.inl ⟨rfl, idx, rfl, by omega⟩), wsPosFrom]
        simp only [hw, Bool.false_eq_true, if_false, List.length_cons]
        rw [show idx + 1 + cs.length = idx + (cs.length + 1) by omega]

theorem wordBoundaries_ends {s : List (List Nat)} (hc : CleanB s = true) (hne : s ≠ []) :
    (wordBoundaries s).map Prod.snd = wsPosFrom s 0 ++ [s.length] := by
  have := wbAux_ends s 0 none .start hc (Or.inr ⟨by simp, rfl, hne⟩)
  simpa [wordBoundaries] using this

theorem wordBoundaries_length {s : List (List Nat)} (hc : CleanB s = true) (hne : s ≠ []) :
    (wordBoundaries s).length = s.countP isWsCl + 1 := by
  have := congrArg List.length (wordBoundaries_ends hc hne)
  simpa [wsPosFrom_length] using this

theorem wordIdxOf_eq (words : List (Nat × Nat)) (p : Nat) :
    wordIdxOf words p = (words.map Prod.snd).findIdx (fun e => decide (p ≤ e)) := by
  unfold wordIdxOf
  rw [List.findIdx_eq_getD_findIdx?, List.findIdx?_map, List.length_map]
  rfl

theorem wsPosFrom_mem_ge (cs : List (List Nat)) (idx : Nat) : ∀ e ∈ wsPosFrom cs idx, idx ≤ e := by
  induction cs generalizing idx with
  | nil => simp [wsPosFrom]
  | cons c cs ih =>
    intro e he
    rw [wsPosFrom] at he
    split at he
    · rcases List.mem_cons.mp he with rfl | he
      · omega
      · have := ih (idx+1) e he; omega
    · have := ih (idx+1) e he; omega

/-- the word index of a whitespace position is the number of whitespace clusters before it -/
theorem findIdx_wsPos (cs : List (List Nat)) (rest : List Nat) : ∀ (idx k : Nat), k < cs.length →
    isWsCl (cs.getD k []) = true →
    (wsPosFrom cs idx ++ rest).findIdx (fun e => decide (idx + k ≤ e)) = (cs.take k).countP isWsCl := by
  induction cs with
  | nil => intro idx k hk; simp at hk
  | cons c cs ih =>
    intro idx k hk hw
    cases k with
    | zero =>
      simp only [List.getD_cons_zero] at hw
      rw [wsPosFrom]
      simp [hw, List.findIdx_cons]
    | succ k =>
      simp only [List.getD_cons_succ] at hw
      have hk' : k < cs.length := by simpa using hk
      have := ih (idx+1) k hk' hw
      rw [show idx + 1 + k = idx + (k + 1) by omega] at this
      rw [wsPosFrom, List.take_succ_cons, List.countP_cons]
      cases hc : isWsCl c with
      | true =>
        simp only [if_true, List.cons_append, List.findIdx_cons]
        have : decide (idx + (k+1) ≤ idx) = false := by simp
        rw [this, ‹List.findIdx _ _ = _›]
        simp
      | false =>
        simp only [Bool.false_eq_true, if_false]
        rw [this]; simp

/-! ## assembling: `_group_words` passes its closing assertion -/

theorem wordIdxOf_ws {a : List (List Nat)} (hc : CleanB a = true) (p : Nat) (hp : p < a.length)
    (hw : isWsCl (a.getD p []) = true) :
    wordIdxOf (wordBoundaries a) p = (a.take p).countP isWsCl := by
  have hne : a ≠ [] := by rintro rfl; simp at hp
  rw [wordIdxOf_eq, wordBoundaries_ends hc hne]
  have := findIdx_wsPos a [a.length] 0 p hp hw
  simpa using this

theorem wordIdxOf_lt {a : List (List Nat)} (hc : CleanB a = true) (hne : a ≠ []) (p : Nat) (hp : p ≤ a.length) :
    wordIdxOf (wordBoundaries a) p < (wordBoundaries a).length := by
  rw [wordIdxOf_eq]
  have := List.findIdx_lt_length_of_exists (p := fun e => decide (p ≤ e))
    (xs := (wordBoundaries a).map Prod.snd) ⟨a.length, by rw [wordBoundaries_ends hc hne]; simp, by simpa using hp⟩
  simpa using this

theorem countP_take_lt (a : List (List Nat)) (p q : Nat) (hp : p < a.length) (hw : isWsCl (a.getD p []) = true)
    (hpq : p < q) : (a.take p).countP isWsCl < (a.take q).countP isWsCl := by
  have h1 := countP_take_succ isWsCl a p hp
  rw [hw] at h1
  have h2 : (a.take (p+1)).countP isWsCl ≤ (a.take q).countP isWsCl := by
    apply List.Sublist.countP_le
    rw [show p + 1 = min (p+1) q by omega, ← List.take_take]
    exact List.take_sublist _ _
  simp at h1; omega

theorem countP_take_lt_all (a : List (List Nat)) (p : Nat) (hp : p < a.length) (hw : isWsCl (a.getD p []) = true) :
    (a.take p).countP isWsCl < a.countP isWsCl := by
  have := countP_take_lt a p a.length hp hw hp
  simpa using this

theorem merged_eq (input : List (List Nat)) (words : List (Nat × Nat)) (ops : List (EKind × Nat × Nat)) :
    ops.filterMap (fun (k, i, _) =>
      if k == .delete && isWsCl (input.getD i []) then some (wordIdxOf words i) else none) =
    (delWs input ops).map (wordIdxOf words) := by
  rw [delWs, List.map_filterMap]
  congr 1
  funext ⟨k, i, j⟩
  simp only []
  split <;> rfl

theorem insertedAt_eq (pred : List (List Nat)) (words : List (Nat × Nat)) (ops : List (EKind × Nat × Nat)) :
    ops.filterMap (fun (k, i, j) =>
      if k == .insert && isWsCl (pred.getD j []) then some (wordIdxOf words i) else none) =
    (insWs pred ops).map (wordIdxOf words) := by
  rw [insWs, List.map_filterMap]
  congr 1
  funext ⟨k, i, j⟩
  simp only []
  split <;> rfl

theorem wordBoundaries_nil : wordBoundaries [] = [] := rfl

theorem groupWords_isSome (input pred : List (List Nat)) (hi : CleanB input = true) (hp : CleanB pred = true)
    (matching : List Nat) : (groupWords input pred matching).isSome = true := by
  obtain ⟨ops, hops, htr⟩ := editOperations_trace { swap := false, sid := true } input pred
  have hws := trace_wsOK input pred htr
  unfold groupWords
  rw [hops]
  simp only []
  split
  · rfl
  · rename_i h1
    split
    · rfl
    · rename_i h2
      have hine : input ≠ [] := by rintro rfl; simp [wordBoundaries_nil] at h2
      have hpne : pred ≠ [] := by rintro rfl; simp [wordBoundaries_nil] at h1
      rw [merged_eq, insertedAt_eq]
      have hn := wordBoundaries_length hi hine
      have hnp := wordBoundaries_length hp hpne
      have hcount := hws.count
      simp only [List.take_length] at hcount
      -- merged
      have hmeq : (delWs input ops).map (wordIdxOf (wordBoundaries input)) =
          (delWs input ops).map (fun p => (input.take p).countP isWsCl) := by
        apply List.map_congr_left
        intro p hpm
        have := hws.dpos p hpm
        exact wordIdxOf_ws hi p this.1 this.2
      have hmb : ∀ m ∈ (delWs input ops).map (wordIdxOf (wordBoundaries input)),
          m + 1 < (wordBoundaries input).length := by
        intro m hm
        rw [hmeq, List.mem_map] at hm
        obtain ⟨p, hpm, rfl⟩ := hm
        have := hws.dpos p hpm
        have := countP_take_lt_all input p this.1 this.2
        omega
      have hms : ((delWs input ops).map (wordIdxOf (wordBoundaries input))).Pairwise (· < ·) := by
        rw [hmeq, List.pairwise_map]
        refine List.Pairwise.imp_of_mem ?_ hws.dsorted
        intro p q hpm _ hpq
        have := hws.dpos p hpm
        exact countP_take_lt input p q this.1 this.2 hpq
      have hib : ∀ w ∈ (insWs pred ops).map (wordIdxOf (wordBoundaries input)),
          w < (wordBoundaries input).length := by
        intro w hw
        rw [List.mem_map] at hw
        obtain ⟨p, hpm, rfl⟩ := hw
        exact wordIdxOf_lt hi hine p (by have := hws.ipos p hpm; omega)
      obtain ⟨c, hc⟩ := groupLoop_spec (wordBoundaries input).length _
        (fun w => (((insWs pred ops).map (wordIdxOf (wordBoundaries input))).filter (· == w)).length)
        matching hmb ((wordBoundaries input).length + 1) 0 0 [] (by omega) (by omega)
      have htot := gwPhi_total _ _ (wordBoundaries input).length hms
        (fun m hm => by have := hmb m hm; omega) hib
      simp only [List.length_map] at htot
      rw [hc]
      simp only [Nat.sub_zero, Nat.zero_add]
      have : gwPhi ((delWs input ops).map (wordIdxOf (wordBoundaries input)))
          (fun w => (((insWs pred ops).map (wordIdxOf (wordBoundaries input))).filter (· == w)).length)
          (wordBoundaries input).length 0 = (wordBoundaries pred).length := by omega
      rw [this]
      simp

end Tu
