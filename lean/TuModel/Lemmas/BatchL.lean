import TuModel.Model.Batch
namespace Tu

theorem maxSize_append (a b : List Item) : maxSize (a ++ b) = max (maxSize a) (maxSize b) := by
  induction a with
  | nil => simp [maxSize]
  | cons x xs ih => simp [maxSize, ih, Nat.max_assoc]

theorem maxSize_perm {a b : List Item} (h : a.Perm b) : maxSize a = maxSize b := by
  induction h with
  | nil => rfl
  | cons x _ ih => simp [maxSize, ih]
  | swap x y l => simp [maxSize]; omega
  | trans _ _ ih1 ih2 => rw [ih1, ih2]

theorem itemsLimit_perm (p : Bool) {a b : List Item} (h : a.Perm b) : itemsLimit p a = itemsLimit p b := by
  unfold itemsLimit; rw [h.length_eq, maxSize_perm h]

theorem itemsLimit_reverse (p : Bool) (a : List Item) : itemsLimit p a.reverse = itemsLimit p a :=
  itemsLimit_perm p (List.reverse_perm a)

/-- a batch is within the limit, or consists of a single item (which is always accepted) -/
def Good (p : Bool) (L : Nat) (l : List Item) : Prop := l.length ≤ 1 ∨ itemsLimit p l ≤ L

theorem Good.reverse {p L l} (h : Good p L l) : Good p L l.reverse := by
  unfold Good at *; rw [itemsLimit_reverse]; simpa using h

/-- everything `batch_from` does, in one statement -/
theorem batchFromAux_spec (p : Bool) (L : Nat) : ∀ (src items : List Item) (c m : Nat),
    c = items.length → m = maxSize items → Good p L items →
    ∀ got rem un, batchFromAux p L src items c m = (got, rem, un) →
      got ++ rem.toList ++ un = items.reverse ++ src ∧ Good p L got ∧
      (∀ r, rem = some r → got ≠ [] ∧ limOf p (got.length + 1) (max (maxSize got) r.size) > L) ∧
      (rem = none → un = []) ∧ ((src ≠ [] ∨ items ≠ []) → got ≠ []) := by
  intro src
  induction src with
  | nil =>
    intro items c m _ _ hg got rem un h
    simp [batchFromAux] at h
    obtain ⟨rfl, rfl, rfl⟩ := h
    exact ⟨by simp, hg.reverse, by simp, by simp, by simp⟩
  | cons x xs ih =>
    intro items c m hc hm hg got rem un h
    unfold batchFromAux at h
    split at h
    · rename_i hov
      simp only [Bool.and_eq_true, decide_eq_true_eq, Bool.not_eq_true', List.isEmpty_eq_false_iff] at hov
      simp at h
      obtain ⟨rfl, rfl, rfl⟩ := h
      refine ⟨by simp, hg.reverse, ?_, by simp, by simp [hov.2]⟩
      intro r hr
      injection hr with hr; subst hr
      refine ⟨by simp [hov.2], ?_⟩
      have := hov.1
      rw [hc, hm] at this
      simpa [maxSize_perm (List.reverse_perm items)] using this
    · rename_i hov
      have hg' : Good p L (x :: items) := by
        simp only [Bool.and_eq_true, decide_eq_true_eq, Bool.not_eq_true', List.isEmpty_eq_false_iff, not_and] at hov
        by_cases he : items = []
        · left; simp [he]
        · right
          have := hov
          simp only [gt_iff_lt] at this
          have h2 : ¬ (L < limOf p (c + 1) (max m x.size)) := by
            intro hlt; exact (this hlt) he
          unfold itemsLimit
          simp only [List.length_cons, maxSize]
          rw [hc, hm] at h2
          rw [Nat.max_comm]; omega
      obtain ⟨h1, h2, h3, h4, h5⟩ := ih (x :: items) (c + 1) (max m x.size) (by simp [hc]) (by simp [maxSize, hm]; omega) hg' got rem un h
      exact ⟨by simpa using h1, h2, h3, h4, fun _ => h5 (Or.inr (by simp))⟩

theorem batchFrom_spec (p : Bool) (L : Nat) (src got : List Item) (rem : Option Item) (un : List Item)
    (h : batchFrom p L src = (got, rem, un)) :
    got ++ rem.toList ++ un = src ∧ Good p L got ∧
    (∀ r, rem = some r → got ≠ [] ∧ limOf p (got.length + 1) (max (maxSize got) r.size) > L) ∧
    (rem = none → un = []) ∧ (src ≠ [] → got ≠ []) := by
  obtain ⟨h1, h2, h3, h4, h5⟩ := batchFromAux_spec p L src [] 0 0 rfl rfl (Or.inl (by simp)) got rem un h
  exact ⟨by simpa using h1, h2, h3, h4, fun hs => h5 (Or.inl hs)⟩

theorem fillBuf_spec (p : Bool) (cap : Nat) : ∀ (rest buf : List Item) (c m : Nat) (buf' rest' : List Item),
    fillBuf p cap rest buf c m = (buf', rest') → buf' ++ rest' = buf ++ rest := by
  intro rest
  induction rest with
  | nil => intro buf c m buf' rest' h; simp [fillBuf] at h; obtain ⟨rfl, rfl⟩ := h; rfl
  | cons x xs ih =>
    intro buf c m buf' rest' h
    unfold fillBuf at h
    split at h
    · have := ih _ _ _ _ _ h; simpa using this
    · simp at h; obtain ⟨rfl, rfl⟩ := h; rfl

/-! ### `find_subsequences_of_max_size_k` only returns windows that fit -/

theorem subseqLoop_sound (sz : Nat → Nat → Nat) (n k : Nat) :
    ∀ (fuel st en prev : Nat) (acc : List (Nat × Nat)),
      (∀ w ∈ acc, sz w.1 w.2 ≤ k) → (prev ≤ k → sz st (en - 1) ≤ k) →
      ∀ w ∈ subseqLoop sz n k fuel st en prev acc, sz w.1 w.2 ≤ k := by
  intro fuel
  induction fuel with
  | zero => intro st en prev acc ha _ w hw; simp [subseqLoop] at hw; exact ha w hw
  | succ fuel ih =>
    intro st en prev acc ha hp w hw
    unfold subseqLoop at hw
    split at hw
    · simp only at hw
      split at hw
      · rename_i hs
        apply ih _ _ _ _ _ _ w hw
        · intro v hv
          split at hv
          · rcases List.mem_cons.mp hv with rfl | hv
            · exact hs
            · exact ha v hv
          · exact ha v hv
        · intro _; simpa using hs
      · split at hw
        · rename_i hs hpk
          apply ih _ _ _ _ _ _ w hw
          · intro v hv
            rcases List.mem_cons.mp hv with rfl | hv
            · exact hp hpk
            · exact ha v hv
          · intro h; omega
        · rename_i hs hpk
          apply ih _ _ _ _ ha _ w hw
          intro h; omega
    · simp at hw; exact ha w hw

theorem findSubseq_sound (p : Bool) (values : List Item) (k : Nat) (s e : Nat) (h : (s, e) ∈ findSubseq p values k) :
    itemsLimit p ((values.drop s).take (e - s)) ≤ k := by
  unfold findSubseq at h
  simp only at h
  split at h
  · simp at h
  · rename_i st _
    exact subseqLoop_sound _ _ _ _ _ _ _ [] (by simp) (by intro _; simp [itemsLimit, limOf, maxSize]) (s, e) h

end Tu
