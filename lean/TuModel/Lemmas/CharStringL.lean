/-
  Lemmas about the `CharString` index arithmetic (Model/CharString.lean): run-length encoding,
  `byte_start_end` as prefix sums, and the two-pointer loop of `find_subsequences_of_max_size_k`
  for `size_fn` = byte sum.
-/
import TuModel.Model.CharString
import TuModel.Model.Windows
import TuModel.Lemmas.BatchL
namespace Tu

/-! ### prefix sums -/

theorem byteOf_zero (l : List Nat) : byteOf l 0 = 0 := by simp [byteOf]

theorem byteOf_nil (k : Nat) : byteOf [] k = 0 := by simp [byteOf]

theorem byteOf_add' (l : List Nat) (a k : Nat) :
    byteOf l (a + k) = byteOf l a + ((l.drop a).take k).sum := by
  unfold byteOf
  rw [← List.sum_append, List.take_add]

theorem byteOf_mono (l : List Nat) {a b : Nat} (h : a ≤ b) : byteOf l a ≤ byteOf l b := by
  obtain ⟨d, rfl⟩ := Nat.exists_eq_add_of_le h
  rw [byteOf_add']; omega

theorem byteOf_succ (l : List Nat) (n : Nat) (h : n < l.length) :
    byteOf l (n + 1) = byteOf l n + l[n] := by
  unfold byteOf
  rw [List.take_succ_eq_append_getElem h, List.sum_append]; simp

theorem byteOf_append (a b : List Nat) (j : Nat) :
    byteOf (a ++ b) j = byteOf a j + byteOf b (j - a.length) := by
  unfold byteOf
  rw [List.take_append, List.sum_append]

theorem byteOf_replicate (c v j : Nat) : byteOf (List.replicate c v) j = min j c * v := by
  unfold byteOf
  rw [List.take_replicate, List.sum_replicate_nat]

/-- the size function of the enumeration is a difference of prefix sums -/
theorem sumSz_eq (l : List Nat) (s e : Nat) (h : s ≤ e) :
    ((l.drop s).take (e - s)).sum = byteOf l e - byteOf l s := by
  have := byteOf_add' l s (e - s)
  rw [show s + (e - s) = e by omega] at this
  omega

/-! ### run-length encoding -/

theorem rleAux_nil (v c : Nat) : rleAux v c [] = [(v, c)] := by rw [rleAux]

theorem rleAux_cons_eq (v c : Nat) (xs : List Nat) : rleAux v c (v :: xs) = rleAux v (c + 1) xs := by
  rw [rleAux]; simp

theorem rleAux_cons_ne (v c x : Nat) (xs : List Nat) (h : x ≠ v) :
    rleAux v c (x :: xs) = (v, c) :: rleAux x 1 xs := by
  rw [rleAux]; simp [h]

theorem rld_nil : rld [] = [] := by rw [rld]

theorem rld_cons (v c : Nat) (r : List (Nat × Nat)) : rld ((v, c) :: r) = List.replicate c v ++ rld r := by
  rw [rld]

theorem rld_rleAux : ∀ (xs : List Nat) (v c : Nat), rld (rleAux v c xs) = List.replicate c v ++ xs := by
  intro xs
  induction xs with
  | nil => intro v c; rw [rleAux_nil, rld_cons, rld_nil]
  | cons x xs ih =>
    intro v c
    by_cases h : x = v
    · subst h
      rw [rleAux_cons_eq, ih, List.replicate_succ', List.append_assoc]; rfl
    · rw [rleAux_cons_ne _ _ _ _ h, rld_cons, ih]; rfl

theorem rld_rle' (l : List Nat) : rld (rle l) = l := by
  cases l with
  | nil => rw [rle, rld_nil]
  | cons x xs => rw [rle, rld_rleAux]; rfl

theorem rleAux_counts_pos : ∀ (xs : List Nat) (v c : Nat), 0 < c → ∀ p ∈ rleAux v c xs, 0 < p.2 := by
  intro xs
  induction xs with
  | nil => intro v c hc p hp; rw [rleAux_nil] at hp; simp at hp; subst hp; exact hc
  | cons x xs ih =>
    intro v c hc p hp
    by_cases h : x = v
    · subst h; rw [rleAux_cons_eq] at hp; exact ih _ _ (by omega) p hp
    · rw [rleAux_cons_ne _ _ _ _ h] at hp
      rcases List.mem_cons.mp hp with rfl | hp
      · exact hc
      · exact ih _ _ (by omega) p hp

theorem rleAux_count_sum : ∀ (xs : List Nat) (v c : Nat),
    ((rleAux v c xs).map (·.2)).sum = c + xs.length := by
  intro xs
  induction xs with
  | nil => intro v c; rw [rleAux_nil]; simp
  | cons x xs ih =>
    intro v c
    by_cases h : x = v
    · subst h; rw [rleAux_cons_eq, ih]; simp; omega
    · rw [rleAux_cons_ne _ _ _ _ h, List.map_cons, List.sum_cons, ih]; simp; omega

/-- the first run of the loop's output carries the current value -/
theorem rleAux_head : ∀ (xs : List Nat) (v c : Nat), ∃ c' r, rleAux v c xs = (v, c') :: r := by
  intro xs
  induction xs with
  | nil => intro v c; exact ⟨c, [], rleAux_nil v c⟩
  | cons x xs ih =>
    intro v c
    by_cases h : x = v
    · subst h; rw [rleAux_cons_eq]; exact ih _ _
    · exact ⟨c, _, rleAux_cons_ne _ _ _ _ h⟩

theorem rleAux_adjacent_ne : ∀ (xs : List Nat) (v c : Nat) (i : Nat) (h : i + 1 < (rleAux v c xs).length),
    ((rleAux v c xs)[i]'(by omega)).1 ≠ ((rleAux v c xs)[i + 1]'h).1 := by
  intro xs
  induction xs with
  | nil => intro v c i h; rw [rleAux_nil] at h; simp at h
  | cons x xs ih =>
    intro v c i h
    by_cases hx : x = v
    · subst hx
      have e := rleAux_cons_eq x c xs
      simp only [e] at h ⊢
      exact ih _ _ i h
    · have e := rleAux_cons_ne v c x xs hx
      simp only [e] at h ⊢
      cases i with
      | zero =>
        obtain ⟨c', r, hr⟩ := rleAux_head xs x 1
        simp only [hr]
        simp
        exact fun h => hx h.symm
      | succ j =>
        simp only [List.getElem_cons_succ]
        exact ih _ _ j (by simpa using h)

/-! ### `byte_start_end` -/

theorem byteStartEndAux_nil (n start total : Nat) : byteStartEndAux [] n start total = none := by
  rw [byteStartEndAux]

theorem byteStartEndAux_cons (nb cnt : Nat) (r : List (Nat × Nat)) (n start total : Nat) :
    byteStartEndAux ((nb, cnt) :: r) n start total =
      if n < total + cnt then some (start + nb * (n - total), start + nb * (n - total) + nb)
      else byteStartEndAux r n (start + cnt * nb) (total + cnt) := by
  rw [byteStartEndAux]

/-- the loop over an arbitrary run list computes the prefix sums of the decoded list, shifted by the
two accumulators -/
theorem byteStartEndAux_spec : ∀ (r : List (Nat × Nat)) (n start total : Nat), total ≤ n →
    byteStartEndAux r n start total =
      if n - total < (rld r).length then
        some (start + byteOf (rld r) (n - total), start + byteOf (rld r) (n - total + 1))
      else none := by
  intro r
  induction r with
  | nil => intro n start total _; rw [byteStartEndAux_nil, rld_nil]; simp
  | cons p r ih =>
    obtain ⟨nb, cnt⟩ := p
    intro n start total hle
    rw [byteStartEndAux_cons, rld_cons]
    simp only [List.length_append, List.length_replicate, byteOf_append, byteOf_replicate]
    by_cases h : n < total + cnt
    · rw [if_pos h, if_pos (by omega)]
      have e1 : min (n - total) cnt = n - total := by omega
      have e2 : min (n - total + 1) cnt = n - total + 1 := by omega
      have e3 : n - total - cnt = 0 := by omega
      have e4 : n - total + 1 - cnt = 0 := by omega
      rw [e1, e2, e3, e4, byteOf_zero, Nat.mul_comm nb, Nat.succ_mul]
      simp only [Nat.add_zero, Nat.add_assoc]
    · rw [if_neg h, ih _ _ _ (by omega)]
      have e1 : min (n - total) cnt = cnt := by omega
      have e2 : min (n - total + 1) cnt = cnt := by omega
      have e3 : n - (total + cnt) = n - total - cnt := by omega
      have e4 : n - total - cnt + 1 = n - total + 1 - cnt := by omega
      rw [e1, e2, e3, e4]
      by_cases h2 : n - total - cnt < (rld r).length
      · rw [if_pos h2, if_pos (by omega)]
        simp only [Nat.add_assoc]
      · rw [if_neg h2, if_neg (by omega)]

theorem byteStartEnd_spec (r : List (Nat × Nat)) (n : Nat) :
    byteStartEnd r n =
      if n < (rld r).length then some (byteOf (rld r) n, byteOf (rld r) (n + 1)) else none := by
  unfold byteStartEnd
  rw [byteStartEndAux_spec r n 0 0 (Nat.zero_le _)]
  simp

theorem byteStartEnd_rle_some (l : List Nat) (n : Nat) (h : n < l.length) :
    byteStartEnd (rle l) n = some (byteOf l n, byteOf l (n + 1)) := by
  rw [byteStartEnd_spec, rld_rle', if_pos h]

theorem byteStartEnd_rle_none' (l : List Nat) (n : Nat) (h : l.length ≤ n) :
    byteStartEnd (rle l) n = none := by
  rw [byteStartEnd_spec, rld_rle', if_neg (by omega)]

theorem charRange_rle_some (l : List Nat) (s e : Nat) (h : s < e) (he : e ≤ l.length) :
    charRangeToByteRange (rle l) l.length s e = some (byteOf l s, byteOf l e) := by
  unfold charRangeToByteRange
  rw [if_pos ⟨h, he⟩, byteStartEnd_rle_some l s (by omega)]
  simp only
  by_cases h2 : s < e - 1
  · rw [if_pos h2, byteStartEnd_rle_some l (e - 1) (by omega)]
    simp only
    rw [show e - 1 + 1 = e by omega]
  · rw [if_neg h2, show e = s + 1 by omega]

/-! ### sequencing -/

theorem allSome_nil {α : Type _} : allSome ([] : List (Option α)) = some [] := by rw [allSome]

theorem allSome_none {α : Type _} (r : List (Option α)) : allSome (none :: r) = none := by rw [allSome]

theorem allSome_some {α : Type _} (x : α) (r : List (Option α)) :
    allSome (some x :: r) = (allSome r).map (x :: ·) := by rw [allSome]

theorem allSome_map_some {α β : Type _} (f : α → Option β) (g : α → β) :
    ∀ (xs : List α), (∀ x ∈ xs, f x = some (g x)) → allSome (xs.map f) = some (xs.map g) := by
  intro xs
  induction xs with
  | nil => intro _; simp [allSome_nil]
  | cons x xs ih =>
    intro h
    rw [List.map_cons, h x List.mem_cons_self, allSome_some, ih (fun y hy => h y (List.mem_cons_of_mem _ hy))]
    simp

/-! ### the two-pointer loop of `find_subsequences_of_max_size_k` -/

theorem subseqLoop_zero (sz : Nat → Nat → Nat) (n k st en prev : Nat) (acc : List (Nat × Nat)) :
    subseqLoop sz n k 0 st en prev acc = acc.reverse := by rw [subseqLoop]

theorem subseqLoop_succ (sz : Nat → Nat → Nat) (n k fuel st en prev : Nat) (acc : List (Nat × Nat)) :
    subseqLoop sz n k (fuel + 1) st en prev acc =
      if st < n ∧ en ≤ n then
        if sz st en ≤ k then
          subseqLoop sz n k fuel st (en + 1) (sz st en) (if en ≥ n then (st, en) :: acc else acc)
        else if prev ≤ k then subseqLoop sz n k fuel (st + 1) en (sz st en) ((st, en - 1) :: acc)
        else subseqLoop sz n k fuel (st + 1) (max en (st + 2)) (sz st en) acc
      else acc.reverse := by
  rw [subseqLoop]

/-- invariant rule for the main loop: a state predicate preserved by the three branches holds in the
final state; with enough fuel the final state has left the array -/
theorem subseqLoop_inv (sz : Nat → Nat → Nat) (n k : Nat) (P : Nat → Nat → Nat → List (Nat × Nat) → Prop)
    (h1 : ∀ st en prev acc, P st en prev acc → st < n → en ≤ n → sz st en ≤ k →
      P st (en + 1) (sz st en) (if en ≥ n then (st, en) :: acc else acc))
    (h2 : ∀ st en prev acc, P st en prev acc → st < n → en ≤ n → ¬ sz st en ≤ k → prev ≤ k →
      P (st + 1) en (sz st en) ((st, en - 1) :: acc))
    (h3 : ∀ st en prev acc, P st en prev acc → st < n → en ≤ n → ¬ sz st en ≤ k → ¬ prev ≤ k →
      P (st + 1) (max en (st + 2)) (sz st en) acc) :
    ∀ (fuel st en prev : Nat) (acc : List (Nat × Nat)), P st en prev acc →
      ∃ st' en' prev' acc', subseqLoop sz n k fuel st en prev acc = acc'.reverse ∧ P st' en' prev' acc' ∧
        (2 * n + 1 ≤ fuel + st + en → ¬ (st' < n ∧ en' ≤ n)) := by
  intro fuel
  induction fuel with
  | zero =>
    intro st en prev acc hP
    exact ⟨st, en, prev, acc, subseqLoop_zero .., hP, by omega⟩
  | succ fuel ih =>
    intro st en prev acc hP
    rw [subseqLoop_succ]
    by_cases hb : st < n ∧ en ≤ n
    · rw [if_pos hb]
      by_cases hs : sz st en ≤ k
      · rw [if_pos hs]
        obtain ⟨a, b, c, d, e1, e2, e3⟩ := ih _ _ _ _ (h1 _ _ _ _ hP hb.1 hb.2 hs)
        exact ⟨a, b, c, d, e1, e2, fun h => e3 (by omega)⟩
      · rw [if_neg hs]
        by_cases hp : prev ≤ k
        · rw [if_pos hp]
          obtain ⟨a, b, c, d, e1, e2, e3⟩ := ih _ _ _ _ (h2 _ _ _ _ hP hb.1 hb.2 hs hp)
          exact ⟨a, b, c, d, e1, e2, fun h => e3 (by omega)⟩
        · rw [if_neg hp]
          obtain ⟨a, b, c, d, e1, e2, e3⟩ := ih _ _ _ _ (h3 _ _ _ _ hP hb.1 hb.2 hs hp)
          exact ⟨a, b, c, d, e1, e2, fun h => e3 (by omega)⟩
    · rw [if_neg hb]
      exact ⟨st, en, prev, acc, rfl, hP, fun _ => hb⟩

/-- more fuel than `2n + 1 - (st + en)` changes nothing -/
theorem subseqLoop_fuel (sz : Nat → Nat → Nat) (n k extra : Nat) :
    ∀ (fuel st en prev : Nat) (acc : List (Nat × Nat)), 2 * n + 1 ≤ fuel + st + en →
      subseqLoop sz n k (fuel + extra) st en prev acc = subseqLoop sz n k fuel st en prev acc := by
  intro fuel
  induction fuel with
  | zero =>
    intro st en prev acc h
    rw [subseqLoop_zero]
    cases extra with
    | zero => exact subseqLoop_zero ..
    | succ x => rw [Nat.zero_add, subseqLoop_succ, if_neg (by omega)]
  | succ fuel ih =>
    intro st en prev acc h
    rw [show fuel + 1 + extra = (fuel + extra) + 1 by omega, subseqLoop_succ, subseqLoop_succ]
    by_cases hb : st < n ∧ en ≤ n
    · rw [if_pos hb, if_pos hb, ih _ _ _ _ (by omega), ih _ _ _ _ (by omega), ih _ _ _ _ (by omega)]
    · rw [if_neg hb, if_neg hb]

/-! ### `firstFit` -/

theorem firstFit_zero (sz : Nat → Nat → Nat) (n k st : Nat) : firstFit sz n k 0 st = none := by rw [firstFit]

theorem firstFit_succ (sz : Nat → Nat → Nat) (n k fuel st : Nat) :
    firstFit sz n k (fuel + 1) st =
      if st < n then (if sz st (st + 1) > k then firstFit sz n k fuel (st + 1) else some st) else none := by
  rw [firstFit]

/-- a result of the fast-forward fits alone and nothing before it does -/
theorem firstFit_some (sz : Nat → Nat → Nat) (n k : Nat) : ∀ (fuel st r : Nat),
    firstFit sz n k fuel st = some r →
      st ≤ r ∧ r < n ∧ sz r (r + 1) ≤ k ∧ ∀ i, st ≤ i → i < r → k < sz i (i + 1) := by
  intro fuel
  induction fuel with
  | zero => intro st r h; rw [firstFit_zero] at h; cases h
  | succ fuel ih =>
    intro st r h
    rw [firstFit_succ] at h
    by_cases h1 : st < n
    · rw [if_pos h1] at h
      by_cases h2 : sz st (st + 1) > k
      · rw [if_pos h2] at h
        obtain ⟨a, b, c, d⟩ := ih _ _ h
        refine ⟨by omega, b, c, ?_⟩
        intro i hi hir
        by_cases hi2 : i = st
        · subst hi2; exact h2
        · exact d i (by omega) hir
      · rw [if_neg h2] at h
        injection h with h; subst h
        exact ⟨Nat.le_refl _, h1, by omega, fun i a b => by omega⟩
    · rw [if_neg h1] at h; cases h

/-- with enough fuel the fast-forward fails only if nothing fits alone -/
theorem firstFit_none (sz : Nat → Nat → Nat) (n k : Nat) : ∀ (fuel st : Nat), n < fuel + st →
    firstFit sz n k fuel st = none → ∀ i, st ≤ i → i < n → k < sz i (i + 1) := by
  intro fuel
  induction fuel with
  | zero => intro st hf _ i h1 h2; omega
  | succ fuel ih =>
    intro st hf h i hi hin
    rw [firstFit_succ, if_pos (by omega)] at h
    by_cases h2 : sz st (st + 1) > k
    · rw [if_pos h2] at h
      by_cases hi2 : i = st
      · subst hi2; exact h2
      · exact ih _ (by omega) h i (by omega) hin
    · rw [if_neg h2] at h; cases h

theorem firstFit_none_of (sz : Nat → Nat → Nat) (n k : Nat) : ∀ (fuel st : Nat),
    (∀ i, st ≤ i → i < n → k < sz i (i + 1)) → firstFit sz n k fuel st = none := by
  intro fuel
  induction fuel with
  | zero => intro st _; exact firstFit_zero ..
  | succ fuel ih =>
    intro st h
    rw [firstFit_succ]
    by_cases h1 : st < n
    · rw [if_pos h1, if_pos (h st (Nat.le_refl _) h1)]
      exact ih _ (fun i a b => h i (by omega) b)
    · rw [if_neg h1]

/-! ### the enumeration for `size_fn` = byte sum -/

/-- the size function handed to the generic loops by `findSubseqSum` -/
def sumSz (l : List Nat) : Nat → Nat → Nat := fun s e => ((l.drop s).take (e - s)).sum

theorem sumSz_byteOf (l : List Nat) (s e : Nat) (h : s ≤ e) : sumSz l s e = byteOf l e - byteOf l s :=
  sumSz_eq l s e h

theorem sumSz_one (l : List Nat) (i : Nat) (h : i < l.length) : sumSz l i (i + 1) = l[i] := by
  rw [sumSz_byteOf l i (i + 1) (by omega), byteOf_succ l i h]; omega

theorem findSubseqSum_eq (l : List Nat) (k : Nat) :
    findSubseqSum l k =
      match firstFit (sumSz l) l.length k (l.length + 1) 0 with
      | none => []
      | some st => subseqLoop (sumSz l) l.length k (2 * l.length + 2) st (st + 1) (sumSz l st (st + 1)) [] := rfl

theorem findSubseqSum_of_none (l : List Nat) (k : Nat)
    (h : firstFit (sumSz l) l.length k (l.length + 1) 0 = none) : findSubseqSum l k = [] := by
  rw [findSubseqSum_eq, h]

theorem findSubseqSum_of_some (l : List Nat) (k st : Nat)
    (h : firstFit (sumSz l) l.length k (l.length + 1) 0 = some st) :
    findSubseqSum l k =
      subseqLoop (sumSz l) l.length k (2 * l.length + 2) st (st + 1) (sumSz l st (st + 1)) [] := by
  rw [findSubseqSum_eq, h]

/-- invariant A: emitted windows are non-empty, inside, fit, and are right-maximal -/
def InvA (l : List Nat) (k : Nat) (st en prev : Nat) (acc : List (Nat × Nat)) : Prop :=
  st < en ∧ (prev ≤ k → byteOf l (en - 1) - byteOf l st ≤ k) ∧
  (prev ≤ k → en = st + 1 → byteOf l en - byteOf l st ≤ k) ∧
  ∀ p ∈ acc, p.1 < p.2 ∧ p.2 ≤ l.length ∧ byteOf l p.2 - byteOf l p.1 ≤ k ∧
    (p.2 = l.length ∨ k < byteOf l (p.2 + 1) - byteOf l p.1)

theorem invA_loop (l : List Nat) (k : Nat) (fuel st en prev : Nat) (acc : List (Nat × Nat))
    (h : InvA l k st en prev acc) :
    ∀ p ∈ subseqLoop (sumSz l) l.length k fuel st en prev acc,
      p.1 < p.2 ∧ p.2 ≤ l.length ∧ byteOf l p.2 - byteOf l p.1 ≤ k ∧
        (p.2 = l.length ∨ k < byteOf l (p.2 + 1) - byteOf l p.1) := by
  refine Exists.elim (subseqLoop_inv (sumSz l) l.length k (InvA l k) ?_ ?_ ?_ fuel st en prev acc h) ?_
  rotate_right
  · rintro a ⟨b, c, d, e1, e2, _⟩
    rw [e1]; intro p hp; exact e2.2.2.2 p (List.mem_reverse.mp hp)
  · intro st en prev acc ⟨i1, i2, i3, i4⟩ hst hen hs
    rw [sumSz_byteOf l st en (by omega)] at hs ⊢
    refine ⟨by omega, fun _ => by simpa using hs, fun _ h => by omega, ?_⟩
    intro p hp
    split at hp
    · rcases List.mem_cons.mp hp with rfl | hp
      · exact ⟨i1, hen, hs, Or.inl (by simp only; omega)⟩
      · exact i4 p hp
    · exact i4 p hp
  · intro st en prev acc ⟨i1, i2, i3, i4⟩ hst hen hs hp
    rw [sumSz_byteOf l st en (by omega)] at hs ⊢
    have hne : en ≠ st + 1 := fun h => hs (i3 hp h)
    refine ⟨by omega, fun h => by omega, fun h => by omega, ?_⟩
    intro p hp'
    rcases List.mem_cons.mp hp' with rfl | hp'
    · refine ⟨by simp only; omega, by simp only; omega, i2 hp, Or.inr ?_⟩
      simp only
      rw [show en - 1 + 1 = en by omega]; omega
    · exact i4 p hp'
  · intro st en prev acc ⟨i1, i2, i3, i4⟩ hst hen hs hp
    rw [sumSz_byteOf l st en (by omega)] at hs ⊢
    exact ⟨by omega, fun h => by omega, fun h => by omega, i4⟩

theorem findSubseqSum_props (l : List Nat) (k : Nat) : ∀ p ∈ findSubseqSum l k,
    p.1 < p.2 ∧ p.2 ≤ l.length ∧ byteOf l p.2 - byteOf l p.1 ≤ k ∧
      (p.2 = l.length ∨ k < byteOf l (p.2 + 1) - byteOf l p.1) := by
  cases hf : firstFit (sumSz l) l.length k (l.length + 1) 0 with
  | none => rw [findSubseqSum_of_none l k hf]; intro p hp; cases hp
  | some st =>
    rw [findSubseqSum_of_some l k st hf]
    obtain ⟨_, h2, h3, _⟩ := firstFit_some _ _ _ _ _ _ hf
    rw [sumSz_byteOf l st (st + 1) (by omega)] at h3
    apply invA_loop
    refine ⟨by omega, fun _ => by simp, fun _ _ => h3, fun p hp => by cases hp⟩

/-- invariant B: the emitted windows increase in both coordinates -/
def InvB (sz : Nat → Nat → Nat) (n k : Nat) (st en prev : Nat) (acc : List (Nat × Nat)) : Prop :=
  st < en ∧ (prev ≤ k → en = st + 1 → sz st en ≤ k) ∧ acc.Pairwise (fun a b => b.1 < a.1 ∧ b.2 < a.2) ∧
  ∀ p ∈ acc, n < en ∨ (p.1 < st ∧ p.2 < en ∧ (prev ≤ k → p.2 + 1 < en))

theorem invB_loop (sz : Nat → Nat → Nat) (n k : Nat) (fuel st en prev : Nat) (acc : List (Nat × Nat))
    (h : InvB sz n k st en prev acc) :
    (subseqLoop sz n k fuel st en prev acc).Pairwise (fun a b => a.1 < b.1 ∧ a.2 < b.2) := by
  refine Exists.elim (subseqLoop_inv sz n k (InvB sz n k) ?_ ?_ ?_ fuel st en prev acc h) ?_
  rotate_right
  · rintro a ⟨b, c, d, e1, e2, _⟩
    rw [e1, List.pairwise_reverse]; exact e2.2.2.1
  · intro st en prev acc ⟨i1, i0, i2, i3⟩ hst hen hs
    by_cases hn : en ≥ n
    · rw [if_pos hn]
      refine ⟨by omega, fun _ h => by omega, ?_, fun p _ => Or.inl (by omega)⟩
      rw [List.pairwise_cons]
      refine ⟨fun p hp => ?_, i2⟩
      have := i3 p hp
      simp only; omega
    · rw [if_neg hn]
      refine ⟨by omega, fun _ h => by omega, i2, fun p hp => Or.inr ?_⟩
      have := i3 p hp
      omega
  · intro st en prev acc ⟨i1, i0, i2, i3⟩ hst hen hs hp
    have hne : en ≠ st + 1 := fun h => hs (i0 hp h)
    refine ⟨by omega, fun h => by omega, ?_, ?_⟩
    · rw [List.pairwise_cons]
      refine ⟨fun p hp' => ?_, i2⟩
      have := i3 p hp'
      simp only; omega
    · intro p hp'
      rcases List.mem_cons.mp hp' with rfl | hp'
      · right; simp only; omega
      · have := i3 p hp'; omega
  · intro st en prev acc ⟨i1, i0, i2, i3⟩ hst hen hs hp
    refine ⟨by omega, fun h => by omega, i2, fun p hp' => ?_⟩
    have := i3 p hp'
    omega

/-- invariant C for a fixed fitting window `(s, e)`: it is covered by an emitted window, or still
ahead of the two pointers -/
def InvC (sz : Nat → Nat → Nat) (n k s e : Nat) (st en prev : Nat) (acc : List (Nat × Nat)) : Prop :=
  st < en ∧ (prev ≤ k → en = st + 1 → sz st en ≤ k) ∧ ((∃ p ∈ acc, p.1 ≤ s ∧ e ≤ p.2) ∨ (st ≤ s ∧ (en ≤ e ∨ (prev ≤ k ∧ en ≤ n))))

theorem invC_loop (l : List Nat) (k s e : Nat) (hse : s < e) (he : e ≤ l.length)
    (hfit : byteOf l e - byteOf l s ≤ k) (fuel st en prev : Nat) (acc : List (Nat × Nat))
    (hfuel : 2 * l.length + 1 ≤ fuel + st + en) (h : InvC (sumSz l) l.length k s e st en prev acc) :
    ∃ p ∈ subseqLoop (sumSz l) l.length k fuel st en prev acc, p.1 ≤ s ∧ e ≤ p.2 := by
  refine Exists.elim
    (subseqLoop_inv (sumSz l) l.length k (InvC (sumSz l) l.length k s e) ?_ ?_ ?_ fuel st en prev acc h) ?_
  rotate_right
  · rintro a ⟨b, c, d, e1, e2, e3⟩
    rw [e1]
    have hout := e3 hfuel
    rcases e2.2.2 with ⟨p, hp, hp2⟩ | ⟨h1, h2⟩
    · exact ⟨p, List.mem_reverse.mpr hp, hp2⟩
    · exfalso; omega
  · intro st en prev acc ⟨i1, i0, i2⟩ hst hen hs
    refine ⟨by omega, fun _ h => by omega, ?_⟩
    rcases i2 with ⟨p, hp, hp2⟩ | ⟨h1, h2⟩
    · left
      refine ⟨p, ?_, hp2⟩
      split
      · exact List.mem_cons_of_mem _ hp
      · exact hp
    · by_cases hn : en ≥ l.length
      · rw [if_pos hn]
        exact Or.inl ⟨(st, en), List.mem_cons_self, h1, by simp only; omega⟩
      · rw [if_neg hn]
        exact Or.inr ⟨h1, Or.inr ⟨hs, by omega⟩⟩
  · intro st en prev acc ⟨i1, i0, i2⟩ hst hen hs hp
    have hne1 : en ≠ st + 1 := fun h => hs (i0 hp h)
    rw [sumSz_byteOf l st en (by omega)] at hs ⊢
    refine ⟨by omega, fun h => by omega, ?_⟩
    rcases i2 with ⟨p, hp1, hp2⟩ | ⟨h1, h2⟩
    · exact Or.inl ⟨p, List.mem_cons_of_mem _ hp1, hp2⟩
    · by_cases hee : en ≤ e
      · right
        have hne : st ≠ s := by
          intro hh; subst hh
          have := byteOf_mono l hee
          omega
        exact ⟨by omega, Or.inl hee⟩
      · exact Or.inl ⟨(st, en - 1), List.mem_cons_self, h1, by simp only; omega⟩
  · intro st en prev acc ⟨i1, i0, i2⟩ hst hen hs hp
    rw [sumSz_byteOf l st en (by omega)] at hs ⊢
    refine ⟨by omega, fun h => by omega, ?_⟩
    rcases i2 with ⟨p, hp1, hp2⟩ | ⟨h1, h2⟩
    · exact Or.inl ⟨p, hp1, hp2⟩
    · have hee : en ≤ e := by omega
      have hne : st ≠ s := by
        intro hh; subst hh
        have := byteOf_mono l hee
        omega
      exact Or.inr ⟨by omega, Or.inl (by omega)⟩

theorem findSubseqSum_covers (l : List Nat) (k s e : Nat) (hse : s < e) (he : e ≤ l.length)
    (hfit : byteOf l e - byteOf l s ≤ k) : ∃ p ∈ findSubseqSum l k, p.1 ≤ s ∧ e ≤ p.2 := by
  have hs1 : sumSz l s (s + 1) ≤ k := by
    rw [sumSz_byteOf l s (s + 1) (by omega)]
    have := byteOf_mono l (show s + 1 ≤ e by omega)
    omega
  cases hf : firstFit (sumSz l) l.length k (l.length + 1) 0 with
  | none =>
    have := firstFit_none _ _ _ _ _ (by omega) hf s (Nat.zero_le _) (by omega)
    omega
  | some st =>
    rw [findSubseqSum_of_some l k st hf]
    obtain ⟨_, h2, h3, h4⟩ := firstFit_some _ _ _ _ _ _ hf
    have hst : st ≤ s := by
      apply Nat.le_of_not_lt
      intro hlt
      have := h4 s (Nat.zero_le _) hlt
      omega
    exact invC_loop l k s e hse he hfit _ _ _ _ _ (by omega) ⟨by omega, fun _ _ => h3, Or.inr ⟨hst, Or.inl (by omega)⟩⟩

end Tu
