/-
  The relational acceptance test `cwMatch` (Model/Whitespace.lean) accepts exactly the outputs of the
  function model `corruptWsAux` under decision lists the flags allow.
-/
import TuModel.Model.Whitespace
import TuModel.Lemmas.TextL
namespace Tu

/-- the flags describe two actual probabilities: "certain" implies "possible".  Exactly the condition
under which some decision is allowed at all (`CwFlags.consistent_iff`). -/
def CwFlags.consistent (f : CwFlags) : Bool := (!f.mustDel || f.mayDel) && (!f.mustIns || f.mayIns)

theorem CwFlags.consistent_iff (f : CwFlags) : f.consistent = true ↔ ∃ d, f.allows d = true := by
  constructor
  · intro h
    refine ⟨(f.mustDel, f.mustIns), ?_⟩
    rcases f with ⟨a, b, c, d⟩
    revert h; cases a <;> cases b <;> cases c <;> cases d <;> decide
  · rintro ⟨⟨x, y⟩, h⟩
    rcases f with ⟨a, b, c, d⟩
    revert h; cases a <;> cases b <;> cases c <;> cases d <;> cases x <;> cases y <;> decide

theorem CwFlags.ofPermille_consistent (iw dw : Nat) : (CwFlags.ofPermille iw dw).consistent = true := by
  simp only [CwFlags.ofPermille, CwFlags.consistent, Bool.and_eq_true, Bool.or_eq_true,
    Bool.not_eq_true', decide_eq_true_eq, decide_eq_false_iff_not]
  omega

/-- a decision with the given delete component that the (consistent) flags allow -/
theorem CwFlags.allows_del {f : CwFlags} (hf : f.consistent = true) (hm : f.mayDel = true) :
    f.allows (true, f.mustIns) = true := by
  rcases f with ⟨a, b, c, d⟩
  revert hf hm; cases a <;> cases b <;> cases c <;> cases d <;> decide

theorem CwFlags.allows_keep {f : CwFlags} (hf : f.consistent = true) (hm : f.mustDel = false) :
    f.allows (false, f.mustIns) = true := by
  rcases f with ⟨a, b, c, d⟩
  revert hf hm; cases a <;> cases b <;> cases c <;> cases d <;> decide

theorem CwFlags.allows_ins {f : CwFlags} (hf : f.consistent = true) (hm : f.mayIns = true) :
    f.allows (f.mustDel, true) = true := by
  rcases f with ⟨a, b, c, d⟩
  revert hf hm; cases a <;> cases b <;> cases c <;> cases d <;> decide

theorem CwFlags.allows_noins {f : CwFlags} (hf : f.consistent = true) (hm : f.mustIns = false) :
    f.allows (f.mustDel, false) = true := by
  rcases f with ⟨a, b, c, d⟩
  revert hf hm; cases a <;> cases b <;> cases c <;> cases d <;> decide

theorem CwFlags.allows_any {f : CwFlags} (hf : f.consistent = true) :
    f.allows (f.mustDel, f.mustIns) = true := by
  rcases f with ⟨a, b, c, d⟩
  revert hf; cases a <;> cases b <;> cases c <;> cases d <;> decide

theorem isPrefixOf_split {c out : List Nat} (h : c.isPrefixOf out = true) :
    c ++ out.drop c.length = out :=
  List.prefix_iff_eq_append.mp (List.isPrefixOf_iff_prefix.mp h)

theorem isPrefixOf_append_self (c r : List Nat) : c.isPrefixOf (c ++ r) = true :=
  List.isPrefixOf_iff_prefix.mpr (List.prefix_append c r)

/-! one-step unfoldings -/
theorem cwMatch_nil (f : CwFlags) (first prevWs : Bool) (out : List Nat) :
    cwMatch f [] first prevWs out = out.isEmpty := by rw [cwMatch]

theorem cwMatch_ws (f : CwFlags) {c : List Nat} (cs : List (List Nat)) (first prevWs : Bool)
    (out : List Nat) (hw : isWsCl c = true) :
    cwMatch f (c :: cs) first prevWs out =
      ((f.mayDel && cwMatch f cs false true out) ||
        (!f.mustDel && c.isPrefixOf out && cwMatch f cs false true (out.drop c.length))) := by
  rw [cwMatch, if_pos hw]

theorem cwMatch_nonws (f : CwFlags) {c : List Nat} (cs : List (List Nat)) (first prevWs : Bool)
    (out : List Nat) (hw : isWsCl c = false) :
    cwMatch f (c :: cs) first prevWs out =
      (((!first && !prevWs) && f.mayIns && (32 :: c).isPrefixOf out &&
          cwMatch f cs false false (out.drop (c.length + 1))) ||
        ((!(!first && !prevWs) || !f.mustIns) && c.isPrefixOf out &&
          cwMatch f cs false false (out.drop c.length))) := by
  rw [cwMatch, if_neg (by simp [hw])]

theorem corruptWsAux_nil (ds : List (Bool × Bool)) (first prevWs : Bool) :
    corruptWsAux [] ds first prevWs = [] := by cases ds <;> simp [corruptWsAux]

theorem corruptWsAux_ws {c : List Nat} (cs : List (List Nat)) (d : Bool × Bool)
    (ds : List (Bool × Bool)) (first prevWs : Bool) (hw : isWsCl c = true) :
    corruptWsAux (c :: cs) (d :: ds) first prevWs =
      (if d.1 then [] else [c]) ++ corruptWsAux cs ds false true := by
  simp only [corruptWsAux, hw, if_true]

theorem corruptWsAux_nonws {c : List Nat} (cs : List (List Nat)) (d : Bool × Bool)
    (ds : List (Bool × Bool)) (first prevWs : Bool) (hw : isWsCl c = false) :
    corruptWsAux (c :: cs) (d :: ds) first prevWs =
      if (d.2 && !first && !prevWs) = true then sp :: c :: corruptWsAux cs ds false false
      else c :: corruptWsAux cs ds false false := by
  simp only [corruptWsAux, hw, Bool.false_eq_true, if_false]

/-- soundness, generalised over the position flags -/
theorem cwMatchAux_sound (f : CwFlags) (hf : f.consistent = true) (s : List (List Nat)) :
    ∀ (first prevWs : Bool) (out : List Nat), cwMatch f s first prevWs out = true →
      ∃ ds : List (Bool × Bool), ds.length = s.length ∧ (∀ d ∈ ds, f.allows d = true) ∧
        (corruptWsAux s ds first prevWs).flatten = out := by
  induction s with
  | nil =>
    intro first prevWs out h
    rw [cwMatch_nil] at h
    exact ⟨[], rfl, by simp, by simpa [corruptWsAux_nil] using (List.isEmpty_iff.mp h).symm⟩
  | cons c cs ih =>
    intro first prevWs out h
    have cons_allowed : ∀ (d : Bool × Bool) (ds : List (Bool × Bool)), f.allows d = true →
        (∀ x ∈ ds, f.allows x = true) → ∀ x ∈ d :: ds, f.allows x = true := by
      intro d ds hd hds x hx
      rcases List.mem_cons.mp hx with rfl | hx
      · exact hd
      · exact hds x hx
    by_cases hw : isWsCl c = true
    · rw [cwMatch_ws f cs first prevWs out hw] at h
      simp only [Bool.or_eq_true, Bool.and_eq_true, Bool.not_eq_true'] at h
      rcases h with ⟨hm, h⟩ | ⟨⟨hnm, hp⟩, h⟩
      · obtain ⟨ds, hl, ha, he⟩ := ih _ _ _ h
        refine ⟨(true, f.mustIns) :: ds, by simp [hl], cons_allowed _ _ (f.allows_del hf hm) ha, ?_⟩
        rw [corruptWsAux_ws cs _ ds first prevWs hw]
        simpa using he
      · obtain ⟨ds, hl, ha, he⟩ := ih _ _ _ h
        refine ⟨(false, f.mustIns) :: ds, by simp [hl], cons_allowed _ _ (f.allows_keep hf hnm) ha, ?_⟩
        rw [corruptWsAux_ws cs _ ds first prevWs hw]
        simp only [Bool.false_eq_true, if_false, List.flatten_append, List.flatten_cons,
          List.flatten_nil, List.append_nil, he]
        exact isPrefixOf_split hp
    · have hw' : isWsCl c = false := by simpa using hw
      rw [cwMatch_nonws f cs first prevWs out hw'] at h
      simp only [Bool.or_eq_true, Bool.and_eq_true] at h
      rcases h with ⟨⟨⟨hci, hm⟩, hp⟩, h⟩ | ⟨⟨hci, hp⟩, h⟩
      · obtain ⟨ds, hl, ha, he⟩ := ih _ _ _ h
        refine ⟨(f.mustDel, true) :: ds, by simp [hl], cons_allowed _ _ (f.allows_ins hf hm) ha, ?_⟩
        rw [corruptWsAux_nonws cs _ ds first prevWs hw']
        have hc : ((f.mustDel, true).2 && !first && !prevWs) = true := by
          simpa [Bool.and_assoc] using hci
        rw [if_pos hc]
        have := isPrefixOf_split hp
        simp only [List.flatten_cons, he, sp]
        simpa using this
      · by_cases hcan : (!first && !prevWs) = true
        · have hmi : f.mustIns = false := by
            rcases hci with h1 | h1
            · rw [hcan] at h1; simp at h1
            · simpa using h1
          obtain ⟨ds, hl, ha, he⟩ := ih _ _ _ h
          refine ⟨(f.mustDel, false) :: ds, by simp [hl], cons_allowed _ _ (f.allows_noins hf hmi) ha, ?_⟩
          rw [corruptWsAux_nonws cs _ ds first prevWs hw']
          rw [if_neg (by simp)]
          simp only [List.flatten_cons, he]
          exact isPrefixOf_split hp
        · obtain ⟨ds, hl, ha, he⟩ := ih _ _ _ h
          refine ⟨(f.mustDel, f.mustIns) :: ds, by simp [hl], cons_allowed _ _ (f.allows_any hf) ha, ?_⟩
          rw [corruptWsAux_nonws cs _ ds first prevWs hw']
          have hc : ¬ ((f.mustDel, f.mustIns).2 && !first && !prevWs) = true := by
            intro hh
            apply hcan
            simp only [Bool.and_eq_true] at hh ⊢
            exact ⟨hh.1.2, hh.2⟩
          rw [if_neg hc]
          simp only [List.flatten_cons, he]
          exact isPrefixOf_split hp

/-- completeness, generalised over the position flags (holds for arbitrary flags) -/
theorem cwMatchAux_complete (f : CwFlags) (s : List (List Nat)) :
    ∀ (ds : List (Bool × Bool)) (first prevWs : Bool), ds.length = s.length →
      (∀ d ∈ ds, f.allows d = true) →
      cwMatch f s first prevWs (corruptWsAux s ds first prevWs).flatten = true := by
  induction s with
  | nil =>
    intro ds first prevWs _ _
    rw [corruptWsAux_nil, cwMatch_nil]; rfl
  | cons c cs ih =>
    intro ds first prevWs hl ha
    cases ds with
    | nil => simp at hl
    | cons d ds =>
      have hl' : ds.length = cs.length := by simpa using hl
      have had : f.allows d = true := ha d List.mem_cons_self
      have ha' : ∀ x ∈ ds, f.allows x = true := fun x hx => ha x (List.mem_cons_of_mem _ hx)
      simp only [CwFlags.allows, Bool.and_eq_true, Bool.or_eq_true, Bool.not_eq_true'] at had
      obtain ⟨⟨⟨h1, h2⟩, h3⟩, h4⟩ := had
      by_cases hw : isWsCl c = true
      · have := ih ds false true hl' ha'
        rw [corruptWsAux_ws cs d ds first prevWs hw, cwMatch_ws f cs first prevWs _ hw]
        cases hd : d.1
        · have hnm : f.mustDel = false := by
            rcases h2 with h | h
            · exact h
            · rw [hd] at h; cases h
          simp only [Bool.false_eq_true, if_false, List.flatten_append, List.flatten_cons,
            List.flatten_nil, List.append_nil, hnm, Bool.not_false, Bool.true_and,
            isPrefixOf_append_self, List.drop_left, this, Bool.or_true]
        · have hm : f.mayDel = true := by
            rcases h1 with h | h
            · rw [hd] at h; cases h
            · exact h
          simp only [if_true, List.nil_append, hm, this, Bool.and_self, Bool.true_or]
      · have hw' : isWsCl c = false := by simpa using hw
        have := ih ds false false hl' ha'
        rw [corruptWsAux_nonws cs d ds first prevWs hw', cwMatch_nonws f cs first prevWs _ hw']
        by_cases hc : (d.2 && !first && !prevWs) = true
        · rw [if_pos hc]
          simp only [Bool.and_eq_true] at hc
          obtain ⟨⟨hd2, hf1⟩, hp1⟩ := hc
          have hm : f.mayIns = true := by
            rcases h3 with h | h
            · rw [hd2] at h; cases h
            · exact h
          have e : (sp :: c :: corruptWsAux cs ds false false).flatten =
              (32 :: c) ++ (corruptWsAux cs ds false false).flatten := by
            simp [sp]
          have e2 : c.length + 1 = (32 :: c).length := by simp
          rw [e, e2]
          simp only [hf1, hp1, hm, Bool.and_self, isPrefixOf_append_self,
            List.drop_left, this, Bool.true_or]
        · rw [if_neg hc]
          have hcond : (!(!first && !prevWs) || !f.mustIns) = true := by
            cases hd2 : d.2
            · have : f.mustIns = false := by
                rcases h4 with h | h
                · exact h
                · rw [hd2] at h; cases h
              simp [this]
            · rw [hd2] at hc
              revert hc; cases first <;> cases prevWs <;> simp
          simp only [List.flatten_cons, hcond, Bool.true_and, isPrefixOf_append_self,
            List.drop_left, this, Bool.or_true]

end Tu
