/-
  End-to-end lemmas for the BPE tokenizer: UTF-8 encoding is valid UTF-8, `truncateTable` keeps
  well-formedness, decoding of regular / special ids.
-/
import TuModel.Lemmas.BpeWf
import TuModel.Lemmas.SpecialL
import TuModel.Model.Bpe
namespace Tu

/-! ### UTF-8 -/

theorem utf8_bytes' (c : Nat) (hc : isScalar c = true) : ∀ b ∈ utf8 c, b < 256 := by
  unfold isScalar at hc
  simp only [Bool.or_eq_true, Bool.and_eq_true, decide_eq_true_eq] at hc
  intro b hb
  unfold utf8 at hb
  split at hb
  · simp only [List.mem_singleton] at hb; omega
  · split at hb
    · simp only [List.mem_cons, List.not_mem_nil, or_false] at hb; omega
    · split at hb
      · simp only [List.mem_cons, List.not_mem_nil, or_false] at hb; omega
      · simp only [List.mem_cons, List.not_mem_nil, or_false] at hb; omega

theorem validUtf8_cons (b : Nat) (rest : List Nat) : validUtf8 (b :: rest) =
    (if b < 0x80 then validUtf8 rest
    else if 0xC2 ≤ b && b ≤ 0xDF then
      match rest with
      | c :: r => isCont c && validUtf8 r
      | _ => false
    else if 0xE0 ≤ b && b ≤ 0xEF then
      match rest with
      | c :: d :: r =>
        isCont c && isCont d &&
          (if b == 0xE0 then 0xA0 ≤ c else if b == 0xED then c ≤ 0x9F else true) && validUtf8 r
      | _ => false
    else if 0xF0 ≤ b && b ≤ 0xF4 then
      match rest with
      | c :: d :: e :: r =>
        isCont c && isCont d && isCont e &&
          (if b == 0xF0 then 0x90 ≤ c else if b == 0xF4 then c ≤ 0x8F else true) && validUtf8 r
      | _ => false
    else false) := by
  conv => lhs; unfold validUtf8
  rfl

theorem validUtf8_utf8_append (c : Nat) (hc : isScalar c = true) (rest : List Nat) :
    validUtf8 (utf8 c ++ rest) = validUtf8 rest := by
  unfold isScalar at hc
  simp only [Bool.or_eq_true, Bool.and_eq_true, decide_eq_true_eq] at hc
  unfold utf8
  by_cases h1 : c < 0x80
  · rw [if_pos h1]
    simp only [List.cons_append, List.nil_append]
    rw [validUtf8_cons, if_pos h1]
  · rw [if_neg h1]
    by_cases h2 : c < 0x800
    · rw [if_pos h2]
      simp only [List.cons_append, List.nil_append]
      rw [validUtf8_cons]
      have a1 : ¬ (0xC0 + c / 64 < 0x80) := by omega
      have a2 : (decide (0xC2 ≤ 0xC0 + c / 64) && decide (0xC0 + c / 64 ≤ 0xDF)) = true := by
        simp only [Bool.and_eq_true, decide_eq_true_eq]; omega
      have a3 : isCont (0x80 + c % 64) = true := by
        unfold isCont; simp only [Bool.and_eq_true, decide_eq_true_eq]; omega
      rw [if_neg a1, if_pos a2]
      simp only [a3, Bool.true_and]
    · rw [if_neg h2]
      by_cases h3 : c < 0x10000
      · rw [if_pos h3]
        simp only [List.cons_append, List.nil_append]
        rw [validUtf8_cons]
        have a1 : ¬ (0xE0 + c / 4096 < 0x80) := by omega
        have a2 : ¬ ((decide (0xC2 ≤ 0xE0 + c / 4096) && decide (0xE0 + c / 4096 ≤ 0xDF)) = true) := by
          simp only [Bool.and_eq_true, decide_eq_true_eq]; omega
        have a2' : (decide (0xE0 ≤ 0xE0 + c / 4096) && decide (0xE0 + c / 4096 ≤ 0xEF)) = true := by
          simp only [Bool.and_eq_true, decide_eq_true_eq]; omega
        have a3 : isCont (0x80 + c % 64) = true := by
          unfold isCont; simp only [Bool.and_eq_true, decide_eq_true_eq]; omega
        have a4 : isCont (0x80 + c / 64 % 64) = true := by
          unfold isCont; simp only [Bool.and_eq_true, decide_eq_true_eq]; omega
        have a5 : (if (0xE0 + c / 4096 == 0xE0) = true then decide (0xA0 ≤ 0x80 + c / 64 % 64)
            else if (0xE0 + c / 4096 == 0xED) = true then decide (0x80 + c / 64 % 64 ≤ 0x9F) else true) = true := by
          split
          · rename_i h; simp only [beq_iff_eq] at h; simp only [decide_eq_true_eq]; omega
          · split
            · rename_i h; simp only [beq_iff_eq] at h; simp only [decide_eq_true_eq]; omega
            · rfl
        rw [if_neg a1, if_neg a2, if_pos a2']
        simp only [a3, a4, a5, Bool.true_and]
      · rw [if_neg h3]
        simp only [List.cons_append, List.nil_append]
        rw [validUtf8_cons]
        have a1 : ¬ (0xF0 + c / 262144 < 0x80) := by omega
        have a2 : ¬ ((decide (0xC2 ≤ 0xF0 + c / 262144) && decide (0xF0 + c / 262144 ≤ 0xDF)) = true) := by
          simp only [Bool.and_eq_true, decide_eq_true_eq]; omega
        have a2' : ¬ ((decide (0xE0 ≤ 0xF0 + c / 262144) && decide (0xF0 + c / 262144 ≤ 0xEF)) = true) := by
          simp only [Bool.and_eq_true, decide_eq_true_eq]; omega
        have a2'' : (decide (0xF0 ≤ 0xF0 + c / 262144) && decide (0xF0 + c / 262144 ≤ 0xF4)) = true := by
          simp only [Bool.and_eq_true, decide_eq_true_eq]; omega
        have a3 : isCont (0x80 + c % 64) = true := by
          unfold isCont; simp only [Bool.and_eq_true, decide_eq_true_eq]; omega
        have a4 : isCont (0x80 + c / 64 % 64) = true := by
          unfold isCont; simp only [Bool.and_eq_true, decide_eq_true_eq]; omega
        have a4' : isCont (0x80 + c / 4096 % 64) = true := by
          unfold isCont; simp only [Bool.and_eq_true, decide_eq_true_eq]; omega
        have a5 : (if (0xF0 + c / 262144 == 0xF0) = true then decide (0x90 ≤ 0x80 + c / 4096 % 64)
            else if (0xF0 + c / 262144 == 0xF4) = true then decide (0x80 + c / 4096 % 64 ≤ 0x8F) else true) = true := by
          split
          · rename_i h; simp only [beq_iff_eq] at h; simp only [decide_eq_true_eq]; omega
          · split
            · rename_i h; simp only [beq_iff_eq] at h; simp only [decide_eq_true_eq]; omega
            · rfl
        rw [if_neg a1, if_neg a2, if_neg a2', if_pos a2'']
        simp only [a3, a4, a4', a5, Bool.true_and]

theorem validUtf8_utf8' (cps : List Nat) (h : ∀ c ∈ cps, isScalar c = true) :
    validUtf8 (cps.flatMap utf8) = true := by
  induction cps with
  | nil => rfl
  | cons c cps ih =>
    rw [List.flatMap_cons, validUtf8_utf8_append c (h c List.mem_cons_self)]
    exact ih (fun x hx => h x (List.mem_cons_of_mem _ hx))

/-! ### `truncateTable` keeps well-formedness -/

theorem wf_second {t : MTable} (hwf : wfTable t = true) :
    ∀ e ∈ t, (t.filter (fun e' => e'.1 == e.1)).length = 1 := by
  unfold wfTable at hwf
  rw [Bool.and_eq_true, Bool.and_eq_true] at hwf
  have h := hwf.1.2
  rw [List.all_eq_true] at h
  intro e he
  exact eq_of_beq (h e he)

theorem wf_third {t : MTable} (hwf : wfTable t = true) :
    ∀ e ∈ t, (e.1.all (· < 256) &&
      (splitsOf e.1).any (fun (l, r) => isTokenBefore t e.2 l && isTokenBefore t e.2 r)) = true := by
  unfold wfTable at hwf
  rw [Bool.and_eq_true, Bool.and_eq_true] at hwf
  have h := hwf.2
  rw [List.all_eq_true] at h
  exact h

/-- keys are unique among all entries -/
theorem wf_keys_unique {t : MTable} (hwf : wfTable t = true) :
    ∀ e1 ∈ t, ∀ e2 ∈ t, e1.1 = e2.1 → e1 = e2 := by
  intro e1 h1 e2 h2 heq
  have hlen := wf_second hwf e1 h1
  obtain ⟨x, hx⟩ := List.length_eq_one_iff.mp hlen
  have m1 : e1 ∈ t.filter (fun e => e.1 == e1.1) :=
    List.mem_filter.mpr ⟨h1, by simp⟩
  have m2 : e2 ∈ t.filter (fun e => e.1 == e1.1) :=
    List.mem_filter.mpr ⟨h2, by simp [heq]⟩
  rw [hx] at m1 m2
  rw [List.mem_singleton] at m1 m2
  rw [m1, m2]

theorem tlookup_of_mem {t : MTable} (hu : ∀ e1 ∈ t, ∀ e2 ∈ t, e1.1 = e2.1 → e1 = e2)
    {b : List Nat} {j : Nat} (hm : (b, j) ∈ t) : tlookup t b = some j := by
  unfold tlookup
  cases hf : t.find? (fun e => e.1 == b) with
  | none =>
    have := List.find?_eq_none.mp hf (b, j) hm
    simp at this
  | some e' =>
    have hm' := List.mem_of_find?_eq_some hf
    have hk' : (e'.1 == b) = true := List.find?_some (p := fun e : List Nat × Nat => e.1 == b) hf
    have hk : e'.1 = b := eq_of_beq hk'
    have := hu e' hm' (b, j) hm hk
    rw [this]; rfl

theorem isTokenBefore_mono {t t' : MTable} {k : Nat} {b : List Nat}
    (hl : ∀ j, tlookup t b = some j → j < k → tlookup t' b = some j)
    (h : isTokenBefore t k b = true) : isTokenBefore t' k b = true := by
  have key : (match tlookup t b with | some j => decide (j < k) | none => false) = true →
      (match tlookup t' b with | some j => decide (j < k) | none => false) = true := by
    intro h
    cases hj : tlookup t b with
    | none => rw [hj] at h; simp at h
    | some j =>
      rw [hj] at h
      have hjk : j < k := of_decide_eq_true h
      rw [hl j hj hjk]; exact h
  match b, hl, h, key with
  | [], _, h, key => exact key h
  | [x], _, h, _ => exact h
  | x :: y :: r, _, h, key => exact key h

theorem truncateTable_wf' (t : MTable) (mv : Option Nat) (k : Nat) (h : wfTable t = true) :
    wfTable (truncateTable t mv k) = true := by
  cases mv with
  | none => exact h
  | some lim =>
    show wfTable (t.filter (fun e => decide (e.2 < lim - k - 256))) = true
    generalize lim - k - 256 = L
    by_cases hL : t.length ≤ L
    · have : t.filter (fun e => decide (e.2 < L)) = t := by
        rw [List.filter_eq_self]
        intro e he
        have := wf_id_lt h e he
        exact decide_eq_true (by omega)
      rw [this]; exact h
    · have hL' : L < t.length := by omega
      have hsub : ∀ e, e ∈ t.filter (fun e => decide (e.2 < L)) → e ∈ t ∧ e.2 < L := by
        intro e he
        have := List.mem_filter.mp he
        exact ⟨this.1, of_decide_eq_true this.2⟩
      have hlen : (t.filter (fun e => decide (e.2 < L))).length = L :=
        filter_id_lt_length t L (fun j hj => wf_first h j (by omega))
      have hu' : ∀ e1 ∈ t.filter (fun e => decide (e.2 < L)), ∀ e2 ∈ t.filter (fun e => decide (e.2 < L)),
          e1.1 = e2.1 → e1 = e2 :=
        fun e1 h1 e2 h2 => wf_keys_unique h e1 (hsub e1 h1).1 e2 (hsub e2 h2).1
      unfold wfTable
      rw [Bool.and_eq_true, Bool.and_eq_true]
      refine ⟨⟨?_, ?_⟩, ?_⟩
      · rw [List.all_eq_true]
        intro j hj
        rw [List.mem_range, hlen] at hj
        rw [List.filter_filter]
        have : t.filter (fun a => (a.2 == j) && decide (a.2 < L)) = t.filter (fun e => e.2 == j) := by
          apply List.filter_congr
          intro e _
          by_cases hej : e.2 = j
          · have : e.2 < L := by omega
            simp [hej, hj]
          · have : (e.2 == j) = false := by simpa using hej
            simp [this]
        rw [this, wf_first h j (by omega)]; rfl
      · rw [List.all_eq_true]
        intro e he
        have h1 := wf_second h e (hsub e he).1
        have hs : ((t.filter (fun e => decide (e.2 < L))).filter (fun e' => e'.1 == e.1)).Sublist
            (t.filter (fun e' => e'.1 == e.1)) := List.Sublist.filter _ List.filter_sublist
        have h2 := hs.length_le
        have h3 : e ∈ (t.filter (fun e => decide (e.2 < L))).filter (fun e' => e'.1 == e.1) :=
          List.mem_filter.mpr ⟨he, by simp⟩
        have h4 := List.length_pos_of_mem h3
        have : ((t.filter (fun e => decide (e.2 < L))).filter (fun e' => e'.1 == e.1)).length = 1 := by omega
        rw [this]; rfl
      · rw [List.all_eq_true]
        intro e he
        obtain ⟨het, heL⟩ := hsub e he
        have h3 := wf_third h e het
        rw [Bool.and_eq_true] at h3 ⊢
        refine ⟨h3.1, ?_⟩
        have h4 := h3.2
        rw [List.any_eq_true] at h4 ⊢
        obtain ⟨⟨l, r⟩, hlr, hb⟩ := h4
        refine ⟨(l, r), hlr, ?_⟩
        simp only [Bool.and_eq_true] at hb ⊢
        have mono : ∀ b, isTokenBefore t e.2 b = true →
            isTokenBefore (t.filter (fun e => decide (e.2 < L))) e.2 b = true := by
          intro b hb
          apply isTokenBefore_mono _ hb
          intro j hj hje
          apply tlookup_of_mem hu'
          exact List.mem_filter.mpr ⟨tlookup_mem hj, decide_eq_true (by omega)⟩
        exact ⟨mono l hb.1, mono r hb.2⟩

/-! ### word-wise tokenization, flattened -/

theorem mapM_flatten_decode (f : List Nat → Option (List Nat)) (g : Nat → List Nat)
    (enc : List Nat → List Nat) (P : Nat → Prop) :
    ∀ (ws : List (List Nat)),
      (∀ w ∈ ws, ∃ ids, f w = some ids ∧ ids.flatMap g = enc w ∧ ∀ id ∈ ids, P id) →
      ∃ idss, ws.mapM f = some idss ∧ idss.flatten.flatMap g = ws.flatMap enc ∧ ∀ id ∈ idss.flatten, P id := by
  intro ws
  induction ws with
  | nil => intro _; exact ⟨[], rfl, rfl, by simp⟩
  | cons w ws ih =>
    intro h
    obtain ⟨ids, h1, h2, h3⟩ := h w List.mem_cons_self
    obtain ⟨idss, i1, i2, i3⟩ := ih (fun w' hw' => h w' (List.mem_cons_of_mem _ hw'))
    refine ⟨ids :: idss, ?_, ?_, ?_⟩
    · simp [List.mapM_cons, h1, i1]
    · rw [List.flatten_cons, List.flatMap_append, h2, i2, List.flatMap_cons]
    · intro id hid
      rw [List.flatten_cons, List.mem_append] at hid
      rcases hid with hid | hid
      · exact h3 id hid
      · exact i3 id hid

theorem flatMap_flatten_utf8 (ws : List (List Nat)) :
    ws.flatMap (fun w => w.flatMap utf8) = ws.flatten.flatMap utf8 := by
  induction ws with
  | nil => rfl
  | cons w ws ih => rw [List.flatMap_cons, List.flatten_cons, List.flatMap_append, ih]

/-! ### decoding -/

theorem tbytes_isSome_of_wf {t : MTable} (h : wfTable t = true) :
    ∀ k, k < t.length → (tbytes t k).isSome = true := by
  intro k hk
  have h1 := wf_first h k hk
  unfold tbytes
  cases hf : t.find? (fun e => e.2 == k) with
  | some e => simp
  | none =>
    rw [List.find?_eq_none] at hf
    have : t.filter (fun e => e.2 == k) = [] := by
      rw [List.filter_eq_nil_iff]; exact hf
    rw [this] at h1; simp at h1

theorem bpeDetokBytes_append (cfg : BpeCfg) (ign : Bool) (a b : List Nat) :
    bpeDetokBytes cfg ign (a ++ b) =
      (bpeDetokBytes cfg ign a).bind (fun x => (bpeDetokBytes cfg ign b).map (x ++ ·)) := by
  induction a with
  | nil => simp [bpeDetokBytes]
  | cons id ids ih =>
    simp only [List.cons_append, bpeDetokBytes]
    split
    · split
      · rw [ih]; cases bpeDetokBytes cfg ign ids <;> simp
        cases bpeDetokBytes cfg ign b <;> simp
      · simp
    · split
      · exact ih
      · split
        · rw [ih]; cases bpeDetokBytes cfg ign ids <;> simp
          cases bpeDetokBytes cfg ign b <;> simp
        · simp

/-- with `ignore_special_tokens`, ids at or above the table are skipped -/
theorem bpeDetokBytes_skip (cfg : BpeCfg) (ids : List Nat) (h : ∀ id ∈ ids, 256 + cfg.table.length ≤ id) :
    bpeDetokBytes cfg true ids = some [] := by
  induction ids with
  | nil => rfl
  | cons id ids ih =>
    have h1 : ¬ id < 256 + cfg.table.length := by have := h id List.mem_cons_self; omega
    simp only [bpeDetokBytes, h1, if_false, if_true]
    exact ih (fun x hx => h x (List.mem_cons_of_mem _ hx))

/-- table ids decode through the vocabulary -/
theorem bpeDetokBytes_regular (cfg : BpeCfg) (ign : Bool)
    (hc : ∀ k, k < cfg.table.length → (tbytes cfg.table k).isSome = true)
    (ids : List Nat) (h : ∀ id ∈ ids, id < 256 + cfg.table.length) :
    bpeDetokBytes cfg ign ids =
      some (ids.flatMap (fun id => if id < 256 then [id] else (tbytes cfg.table (id - 256)).getD [])) := by
  induction ids with
  | nil => rfl
  | cons id ids ih =>
    have h1 := h id List.mem_cons_self
    have ih := ih (fun x hx => h x (List.mem_cons_of_mem _ hx))
    simp only [bpeDetokBytes, h1, if_true, ih, List.flatMap_cons]
    unfold bpeIdBytes
    by_cases h2 : id < 256
    · simp [h2]
    · have := hc (id - 256) (by omega)
      cases hb : tbytes cfg.table (id - 256) with
      | none => rw [hb] at this; simp at this
      | some b => simp [h2, h1]

theorem mkBpeCfg_spec {t : MTable} {mv : Option Nat} {tokens : List (List Nat)} {pad : List Nat}
    {pre suf : List (List Nat)} {cfg : BpeCfg} (h : mkBpeCfg t mv tokens pad pre suf = some cfg) :
    cfg.table = truncateTable t mv tokens.length ∧
      mkSpecial (256 + cfg.table.length) tokens pad pre suf = some cfg.sp := by
  unfold mkBpeCfg at h
  simp only [Option.map_eq_some_iff] at h
  obtain ⟨sp, hsp, rfl⟩ := h
  exact ⟨rfl, hsp⟩

theorem special_id_lt (sp : Special) (id : Nat) (h : (sp.idToToken id).isSome = true) :
    id < sp.offset + sp.tokens.length := by
  unfold Special.idToToken at h
  split at h
  · simp at h
  · rcases Nat.lt_or_ge (id - sp.offset) sp.tokens.length with h' | h'
    · omega
    · rw [List.getElem?_eq_none h'] at h; simp at h

theorem mem_dropTrailing (s : List Nat) (c : Nat) (h : c ∈ (s.reverse.dropWhile isWsCp).reverse) : c ∈ s := by
  rw [List.mem_reverse] at h
  exact List.mem_reverse.mp ((List.dropWhile_sublist _).subset h)

end Tu
