/-
  Lemmas for the incremental BPE trainer model, part 5: `update_stats` keeps the statistics exact.
-/
import TuModel.Lemmas.BpeTrainIncL4
namespace Tu.BpeTrainIncL
open Tu

/-- the statistics in the middle of `update_stats` for the pair `p`: exact for every other pair, zero for `p` -/
structure MidInv (p : BPair) (c : Corpus) (st : Stats) : Prop where
  wf : StatsWf c.length st
  other : ∀ q, q ≠ p → freqOf st q = pairFreq c q ∧ ∀ i, occOf st q i = wcount c i q
  self : freqOf st p = 0 ∧ ∀ i, occOf st p i = 0

/-- one changed word: the two loops succeed and re-establish the invariant for the corpus with that word replaced -/
theorem change_step (x y : Tok) (hx : x ≠ []) (hy : y ≠ []) (c : Corpus) (st : Stats) (idx : Nat) (old : List Tok) (f : Nat)
    (hinv : MidInv (x, y) c st) (hget : c[idx]? = some (old, f)) (hfresh : (x ++ y) ∉ old) (hk : hasKey st (x, y) idx) :
    ∃ st1, oldLoop x y old idx f (old.length + 1) 0 st = some st1 ∧
      MidInv (x, y) (c.set idx (rep x y old, f)) (newLoop (x ++ y) (rep x y old) idx f ((rep x y old).length + 1) 0 st1) ∧
      ∀ q i, hasKey st q i → hasKey (newLoop (x ++ y) (rep x y old) idx f ((rep x y old).length + 1) 0 st1) q i := by
  have hidx : idx < c.length := by
    have := (List.getElem?_eq_some_iff.mp hget).1
    exact this
  have hwc : ∀ q, wcount c idx q = cnt q (wordPairs old) := fun q => wcount_of_get c idx q old f hget
  -- the decrements hit existing keys
  have hkeys : ∀ q ∈ decsN x y none old, hasKey st q idx := by
    intro q hq
    by_cases hqp : q = (x, y)
    · rw [hqp]; exact hk
    · apply occOf_pos_hasKey
      rw [((hinv.other q hqp).2 idx), hwc]
      have h1 := cnt_pos_of_mem q _ hq
      have h2 := decs_le x y q old none
      rw [pairsP_none] at h2
      omega
  obtain ⟨st1, e1, d1, d2, d3, d4⟩ := applyDecs_effect c.length idx f (decsN x y none old) st hkeys
  obtain ⟨i1, i2, i3, i4⟩ := applyIncs_effect c.length idx f hidx (incsN (x ++ y) none (rep x y old)) st1
  rw [oldLoop_top]
  refine ⟨st1, e1, ?_⟩
  rw [newLoop_top]
  refine ⟨?_, ?_⟩
  · refine ⟨?_, ?_, ?_⟩
    · rw [List.length_set]
      exact i4 (d4 hinv.wf)
    · intro q hqp
      have hbal := count_balance x y q hqp old none hfresh
      have hle := decs_le x y q old none
      rw [pairsP_none, pairsP_none] at hbal
      rw [pairsP_none] at hle
      obtain ⟨hs1, hs2⟩ := pairFreq_set q c idx old (rep x y old) f hget
      refine ⟨?_, ?_⟩
      · rw [i1, d1, (hinv.other q hqp).1]
        have m1 := congrArg (fun t => f * t) hbal
        simp only [Nat.mul_add] at m1
        have m2 := Nat.mul_le_mul_left f hle
        omega
      · intro i
        rw [i2, d2, (hinv.other q hqp).2, wcount_set c idx i _ q hidx]
        by_cases hi : idx = i
        · subst hi
          simp only [if_true]
          rw [hwc]
          omega
        · simp only [hi, if_false]
    · have hz : cnt (x, y) (incsN (x ++ y) none (rep x y old)) = 0 := incs_xy_zero x y hx hy _ none
      refine ⟨?_, ?_⟩
      · rw [i1, d1, hinv.self.1, hz]; simp
      · intro i
        rw [i2, d2, hinv.self.2, hz]
        split <;> simp
  · intro q i h
    exact i3 q i ((d3 q i).mpr h)

/-! ### the loop over the changes -/

/-- the vocabulary after the changes -/
def applyChanges : Corpus → Changes → Corpus
  | c, [] => c
  | c, e :: r => applyChanges (c.set e.1 (e.2.2.1, e.2.2.2)) r

/-- the change list is what `replace_pair` produces: distinct indices, the old word as in the corpus, the new word is
the re-segmented old word, and the merged token is new -/
def ValidCh (x y : Tok) (c : Corpus) (ch : Changes) : Prop :=
  (ch.map (·.1)).Nodup ∧ ∀ e ∈ ch, c[e.1]? = some (e.2.1, e.2.2.2) ∧ e.2.2.1 = rep x y e.2.1 ∧ (x ++ y) ∉ e.2.1

theorem applyChanges_length : ∀ (ch : Changes) (c : Corpus), (applyChanges c ch).length = c.length := by
  intro ch
  induction ch with
  | nil => intro c; rfl
  | cons e r ih => intro c; rw [applyChanges, ih, List.length_set]

theorem updateStatsLoop_ok (x y : Tok) (hx : x ≠ []) (hy : y ≠ []) : ∀ (ch : Changes) (c : Corpus) (st : Stats),
    MidInv (x, y) c st → ValidCh x y c ch → (∀ e ∈ ch, hasKey st (x, y) e.1) →
    ∃ st', updateStatsLoop (x, y) ch st = some st' ∧ MidInv (x, y) (applyChanges c ch) st' := by
  intro ch
  induction ch with
  | nil => intro c st h _ _; exact ⟨st, rfl, h⟩
  | cons e r ih =>
    intro c st hinv hv hk
    obtain ⟨idx, old, new, f⟩ := e
    obtain ⟨hget, hnew, hfresh⟩ := hv.2 (idx, old, new, f) (by simp)
    simp only at hget hnew hfresh
    subst hnew
    obtain ⟨st1, e1, hm, hkk⟩ := change_step x y hx hy c st idx old f hinv hget hfresh (hk (idx, old, rep x y old, f) (by simp))
    rw [updateStatsLoop]
    simp only []
    rw [e1]
    simp only []
    rw [applyChanges]
    apply ih _ _ hm
    · have hnd := hv.1
      simp only [List.map_cons, List.nodup_cons] at hnd
      refine ⟨hnd.2, ?_⟩
      intro e he
      have hne : idx ≠ e.1 := by
        intro hh
        apply hnd.1
        rw [hh]
        exact List.mem_map_of_mem he
      obtain ⟨g1, g2, g3⟩ := hv.2 e (List.mem_cons_of_mem _ he)
      refine ⟨?_, g2, g3⟩
      rw [List.getElem?_set_ne hne]
      exact g1
    · intro e he
      exact hkk _ _ (hk e (List.mem_cons_of_mem _ he))

end Tu.BpeTrainIncL
