/-
  Lemmas for the incremental BPE trainer model, part 7: the corpus invariant (tokens non-empty, unique segmentation)
  that makes the merged token new, and its preservation.
-/
import TuModel.Lemmas.BpeTrainIncL6
namespace Tu.BpeTrainIncL
open Tu

/-! ### splitting the result of `rep` -/

theorem rep_split (x y : Tok) : ∀ (W A B : List Tok), rep x y W = A ++ B →
    ∃ A' B', W = A' ++ B' ∧ rep x y A' = A ∧ rep x y B' = B := by
  intro W
  induction W using rep.induct x y with
  | case1 =>
    intro A B h
    rw [rep_nil] at h
    have := List.append_eq_nil_iff.mp h.symm
    exact ⟨[], [], rfl, by rw [rep_nil, this.1], by rw [rep_nil, this.2]⟩
  | case2 a =>
    intro A B h
    rw [rep_single] at h
    cases A with
    | nil => exact ⟨[], [a], rfl, rep_nil x y, by rw [rep_single]; exact h⟩
    | cons a0 A1 =>
      simp only [List.cons_append, List.cons.injEq] at h
      have := List.append_eq_nil_iff.mp h.2.symm
      refine ⟨[a], [], rfl, ?_, ?_⟩
      · rw [rep_single, ← h.1, this.1]
      · rw [rep_nil, this.2]
  | case3 a b r hc ih =>
    intro A B h
    simp only [Bool.and_eq_true, beq_iff_eq] at hc
    obtain ⟨rfl, rfl⟩ := hc
    cases A with
    | nil => exact ⟨[], a :: b :: r, rfl, rep_nil a b, h⟩
    | cons a0 A1 =>
      rw [rep_match] at h
      simp only [List.cons_append, List.cons.injEq] at h
      obtain ⟨A1', B', h1, h2, h3⟩ := ih A1 B h.2
      refine ⟨a :: b :: A1', B', by rw [h1]; rfl, ?_, h3⟩
      rw [rep_match, h2, h.1]
  | case4 a b r hc ih =>
    intro A B h
    have hne : ¬ (a = x ∧ b = y) := by simpa using hc
    cases A with
    | nil => exact ⟨[], a :: b :: r, rfl, rep_nil x y, h⟩
    | cons a0 A1 =>
      rw [rep_nomatch x y a b r hne] at h
      simp only [List.cons_append, List.cons.injEq] at h
      obtain ⟨A1', B', h1, h2, h3⟩ := ih A1 B h.2
      refine ⟨a :: A1', B', by rw [h1]; rfl, ?_, h3⟩
      cases A1' with
      | nil => rw [rep_single, ← h.1, ← h2, rep_nil]
      | cons b' t =>
        simp only [List.cons_append, List.cons.injEq] at h1
        rw [← h1.1, rep_nomatch x y a b t hne, ← h.1, ← h2, ← h1.1]

theorem rep_infix (x y : Tok) (W R : List Tok) (h : R <:+: rep x y W) : ∃ R', R' <:+: W ∧ rep x y R' = R := by
  obtain ⟨A, B, hAB⟩ := h
  rw [List.append_assoc] at hAB
  obtain ⟨A', T, h1, _, h3⟩ := rep_split x y W A (R ++ B) hAB.symm
  obtain ⟨R', B', h4, h5, _⟩ := rep_split x y T R B h3
  refine ⟨R', ⟨A', B', ?_⟩, h5⟩
  rw [h1, h4, List.append_assoc]

/-! ### the corpus invariant -/

/-- unique segmentation: two runs of consecutive tokens (anywhere in the corpus) that spell the same bytes are the same
token sequence -/
def UniqueSeg (c : Corpus) : Prop :=
  ∀ e1 ∈ c, ∀ e2 ∈ c, ∀ R1 R2 : List Tok, R1 <:+: e1.1 → R2 <:+: e2.1 → R1.flatten = R2.flatten → R1 = R2

/-- well-formedness of the trainer's vocabulary: every token is non-empty and segmentation is unique -/
def CorpusWf (c : Corpus) : Prop := (∀ e ∈ c, ∀ t ∈ e.1, t ≠ []) ∧ UniqueSeg c

theorem mem_applyMerge (c : Corpus) (p : BPair) (e : List Tok × Nat) (h : e ∈ applyMerge c p) :
    ∃ w n, (w, n) ∈ c ∧ e = (replacePairInWord w p.1 p.2, n) := by
  unfold applyMerge at h
  obtain ⟨⟨w, n⟩, h1, h2⟩ := List.mem_map.mp h
  exact ⟨w, n, h1, h2.symm⟩

theorem wordPairs_infix : ∀ (w : List Tok) (q : BPair), q ∈ wordPairs w → [q.1, q.2] <:+: w := by
  intro w
  induction w with
  | nil => intro q h; cases h
  | cons a l ih =>
    intro q h
    cases l with
    | nil => cases h
    | cons b r =>
      rw [wordPairs_cons2] at h
      rcases List.mem_cons.mp h with h | h
      · subst h
        exact ⟨[], r, rfl⟩
      · obtain ⟨A, B, hAB⟩ := ih q h
        exact ⟨a :: A, B, by rw [← hAB]; rfl⟩

/-- under unique segmentation the concatenation of an adjacent pair is not yet a token: the merged token is new -/
theorem UniqueSeg.fresh {c : Corpus} (h : UniqueSeg c) (p : BPair) (hp : 0 < pairFreq c p) :
    ∀ e ∈ c, (p.1 ++ p.2) ∉ e.1 := by
  intro e he hm
  obtain ⟨w0, n0, hw0, hpw0⟩ := pairFreq_pos_occurs c p hp
  have h1 : [p.1, p.2] <:+: w0 := wordPairs_infix w0 p hpw0
  have h2 : [p.1 ++ p.2] <:+: e.1 := by
    obtain ⟨A, B, hAB⟩ := List.append_of_mem hm
    exact ⟨A, B, by rw [hAB]; simp⟩
  have := h (w0, n0) hw0 e he [p.1, p.2] [p.1 ++ p.2] h1 h2 (by simp)
  simp at this

theorem CorpusWf.applyMerge {c : Corpus} (h : CorpusWf c) (p : BPair) (hp : 0 < pairFreq c p) : CorpusWf (applyMerge c p) := by
  obtain ⟨w0, n0, hw0, hpw0⟩ := pairFreq_pos_occurs c p hp
  have hxy := BpeTrainL.wordPairs_mem w0 p hpw0
  have hx : p.1 ≠ [] := h.1 _ hw0 p.1 hxy.1
  have hy : p.2 ≠ [] := h.1 _ hw0 p.2 hxy.2
  refine ⟨?_, ?_⟩
  · intro e he t ht
    obtain ⟨w, n, hw, rfl⟩ := mem_applyMerge c p e he
    rcases BpeTrainL.replacePairInWord_mem w p.1 p.2 t ht with h1 | h1
    · exact h.1 _ hw t h1
    · rw [h1]; intro hh; exact hx (List.append_eq_nil_iff.mp hh).1
  · intro e1 he1 e2 he2 R1 R2 hR1 hR2 hfl
    obtain ⟨w1, n1, hw1, rfl⟩ := mem_applyMerge c p e1 he1
    obtain ⟨w2, n2, hw2, rfl⟩ := mem_applyMerge c p e2 he2
    simp only [replacePairInWord_eq_rep _ p.1 p.2 hy] at hR1 hR2
    obtain ⟨R1', g1, g2⟩ := rep_infix p.1 p.2 w1 R1 hR1
    obtain ⟨R2', g3, g4⟩ := rep_infix p.1 p.2 w2 R2 hR2
    have : R1' = R2' := by
      apply h.2 (w1, n1) hw1 (w2, n2) hw2 R1' R2' g1 g3
      rw [← rep_flatten p.1 p.2 R1', ← rep_flatten p.1 p.2 R2', g2, g4, hfl]
    rw [← g2, ← g4, this]

theorem singletons_eq : ∀ (R : List Tok), (∀ t ∈ R, ∃ b, t = [b]) → R = R.flatten.map (fun b => [b]) := by
  intro R
  induction R with
  | nil => intro _; rfl
  | cons t r ih =>
    intro h
    obtain ⟨b, rfl⟩ := h t (by simp)
    rw [List.flatten_cons, List.map_append, ← ih (fun t ht => h t (List.mem_cons_of_mem _ ht))]
    rfl

theorem CorpusWf_init (words : List (List Nat × Nat)) : CorpusWf (initCorpus words) := by
  have hsing : ∀ e ∈ initCorpus words, ∀ t ∈ e.1, ∃ b, t = [b] := by
    intro e he t ht
    unfold initCorpus at he
    obtain ⟨⟨w, n⟩, _, rfl⟩ := List.mem_map.mp he
    simp only at ht
    obtain ⟨b, _, rfl⟩ := List.mem_map.mp ht
    exact ⟨b, rfl⟩
  refine ⟨?_, ?_⟩
  · intro e he t ht
    obtain ⟨b, rfl⟩ := hsing e he t ht
    simp
  · intro e1 he1 e2 he2 R1 R2 hR1 hR2 hfl
    have s1 : ∀ t ∈ R1, ∃ b, t = [b] := fun t ht => hsing e1 he1 t (List.IsInfix.subset hR1 ht)
    have s2 : ∀ t ∈ R2, ∃ b, t = [b] := fun t ht => hsing e2 he2 t (List.IsInfix.subset hR2 ht)
    rw [singletons_eq R1 s1, singletons_eq R2 s2, hfl]

/-- **one step of the merge loop** -/
theorem trainStep_exact' (c : Corpus) (st : Stats) (p : BPair) (h : StatsOk c st) (hp : 0 < pairFreq c p) (hwf : CorpusWf c) :
    ∃ st', trainStep (c, st) p = some (applyMerge c p, st') ∧ StatsOk (applyMerge c p) st' :=
  trainStep_ok c st p h hp hwf.1 (hwf.2.fresh p hp)

end Tu.BpeTrainIncL
