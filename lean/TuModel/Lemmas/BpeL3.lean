/-
  BPE: the refinement invariant between the heap-driven loop (`mergeLoop`) and the token list
  `live st.bytes` of the specification, and its preservation by `mergeStep`.
-/
import TuModel.Lemmas.BpeL2
import TuModel.Lemmas.BpeWf
namespace Tu

/-! ### ids determine bytes -/

/-- `b` is the byte string of token id `a` -/
def IdOK (t : MTable) (a : Nat) (b : List Nat) : Prop :=
  (a < 256 ∧ b = [a]) ∨ (256 ≤ a ∧ 2 ≤ b.length ∧ tlookup t b = some (a - 256))

theorem IdOK.ne_nil {t : MTable} {a : Nat} {b : List Nat} (h : IdOK t a b) : b ≠ [] := by
  rcases h with ⟨_, rfl⟩ | ⟨_, h2, _⟩
  · simp
  · intro h0; subst h0; simp at h2

theorem IdOK.inj {t : MTable} (hwf : wfTable t = true) {a : Nat} {b b' : List Nat}
    (h : IdOK t a b) (h' : IdOK t a b') : b = b' := by
  rcases h with ⟨h1, rfl⟩ | ⟨h1, _, h3⟩ <;> rcases h' with ⟨h1', rfl⟩ | ⟨h1', _, h3'⟩
  · rfl
  · omega
  · omega
  · exact tlookup_inj hwf h3 h3'

theorem IdOK.tokId_eq {t : MTable} {a : Nat} {b : List Nat} (h : IdOK t a b) : Tu.tokId t b = some a := by
  rcases h with ⟨_, rfl⟩ | ⟨h1, h2, h3⟩
  · rfl
  · unfold Tu.tokId
    split
    · simp at h2
    · rw [h3]; simp; omega

theorem IdOK.merged {t : MTable} {x y : List Nat} {m : Nat} (hx : x ≠ []) (hy : y ≠ [])
    (h : tlookup t (x ++ y) = some m) : IdOK t (256 + m) (x ++ y) := by
  have : 0 < x.length := List.length_pos_iff.mpr hx
  have : 0 < y.length := List.length_pos_iff.mpr hy
  refine Or.inr ⟨by omega, by simp; omega, ?_⟩
  rw [h]; simp

/-! ### the invariant -/

/-- every cell is dead (no bytes, no id) or carries the id of its bytes -/
def CellOK (t : MTable) (bytes : List (List Nat)) (ids : List (Option Nat)) : Prop :=
  ∀ k, (bytes.getD k [] = [] ∧ ids.getD k none = none) ∨
    ∃ a, ids.getD k none = some a ∧ IdOK t a (bytes.getD k [])

/-- a heap entry: two cells with only dead cells in between, recorded ids, their byte strings -/
def EntryOK (t : MTable) (bytes : List (List Nat)) (e : HEntry) : Prop :=
  e.fst < e.snd ∧ e.snd < bytes.length ∧ (∀ k, e.fst < k → k < e.snd → bytes.getD k [] = []) ∧
  ∃ a b x y, e.fid = some a ∧ e.sid = some b ∧ IdOK t a x ∧ IdOK t b y ∧ e.merged = x ++ y ∧
    tlookup t e.merged = some e.mid

structure Inv (t : MTable) (st : MState) : Prop where
  len : st.ids.length = st.bytes.length
  cell : CellOK t st.bytes st.ids
  entry : ∀ e ∈ st.heap, EntryOK t st.bytes e
  complete : ∀ i j m, Adj st.bytes i j → tlookup t (st.bytes.getD i [] ++ st.bytes.getD j []) = some m →
    ∃ e ∈ st.heap, e.fst = i ∧ e.snd = j ∧ e.fid = st.ids.getD i none ∧ e.sid = st.ids.getD j none

theorem CellOK.live_some {t : MTable} {bytes : List (List Nat)} {ids : List (Option Nat)}
    (h : CellOK t bytes ids) (k : Nat) (hk : bytes.getD k [] ≠ []) :
    ∃ a, ids.getD k none = some a ∧ IdOK t a (bytes.getD k []) := by
  rcases h k with ⟨h1, _⟩ | h1
  · exact absurd h1 hk
  · exact h1

theorem CellOK.of_some {t : MTable} {bytes : List (List Nat)} {ids : List (Option Nat)}
    (h : CellOK t bytes ids) (k a : Nat) (hk : ids.getD k none = some a) : IdOK t a (bytes.getD k []) := by
  rcases h k with ⟨_, h2⟩ | ⟨a', h1, h2⟩
  · rw [hk] at h2; simp at h2
  · rw [hk] at h1; simp only [Option.some.injEq] at h1; subst h1; exact h2

/-- an entry whose recorded ids are the current ids denotes two adjacent live cells and their
concatenation: stale entries are exactly the invalid ones -/
theorem valid_entry {t : MTable} (hwf : wfTable t = true) {bytes : List (List Nat)} {ids : List (Option Nat)}
    (hc : CellOK t bytes ids) {e : HEntry} (he : EntryOK t bytes e)
    (h1 : ids.getD e.fst none = e.fid) (h2 : ids.getD e.snd none = e.sid) :
    Adj bytes e.fst e.snd ∧ e.merged = bytes.getD e.fst [] ++ bytes.getD e.snd [] ∧
      tlookup t e.merged = some e.mid := by
  obtain ⟨hlt, _, hmid, a, b, x, y, hfa, hsb, hax, hby, hm, hl⟩ := he
  have hx := hc.of_some e.fst a (by rw [h1, hfa])
  have hy := hc.of_some e.snd b (by rw [h2, hsb])
  have ex := IdOK.inj hwf hax hx
  have ey := IdOK.inj hwf hby hy
  subst ex; subst ey
  exact ⟨⟨hlt, hx.ne_nil, hy.ne_nil, hmid⟩, hm, hl⟩

theorem mk_entry {t : MTable} {bytes : List (List Nat)} {ids : List (Option Nat)}
    (hc : CellOK t bytes ids) (p q id : Nat) (hpq : p < q)
    (hp : bytes.getD p [] ≠ []) (hq : bytes.getD q [] ≠ [])
    (hmid : ∀ k, p < k → k < q → bytes.getD k [] = [])
    (hl : tlookup t (bytes.getD p [] ++ bytes.getD q []) = some id) :
    EntryOK t bytes {
      mid := id, fst := p, snd := q, fid := ids.getD p none, sid := ids.getD q none,
      merged := bytes.getD p [] ++ bytes.getD q [] } := by
  obtain ⟨a, ha1, ha2⟩ := hc.live_some p hp
  obtain ⟨b, hb1, hb2⟩ := hc.live_some q hq
  exact ⟨hpq, lt_length_of_getD_ne _ _ _ hq, hmid, a, b, _, _, ha1, hb1, ha2, hb2, rfl, hl⟩

theorem EntryOK.mono {t : MTable} {bytes bytes' : List (List Nat)} {e : HEntry}
    (hlen : bytes'.length = bytes.length) (hd : ∀ k, bytes.getD k [] = [] → bytes'.getD k [] = [])
    (h : EntryOK t bytes e) : EntryOK t bytes' e := by
  obtain ⟨h1, h2, h3, h4⟩ := h
  exact ⟨h1, by omega, fun k hk1 hk2 => hd k (h3 k hk1 hk2), h4⟩

/-! ### `mergeStep` unfolded -/

def mergedBytes (bytes : List (List Nat)) (e : HEntry) : List (List Nat) :=
  (bytes.set e.fst e.merged).set e.snd []

def mergedIds (ids : List (Option Nat)) (e : HEntry) : List (Option Nat) :=
  (ids.set e.fst (some (256 + e.mid))).set e.snd none

def pushPrev (t : MTable) (bytes : List (List Nat)) (ids : List (Option Nat)) (e : HEntry) : List HEntry :=
  match prevLive bytes e.fst with
  | some p =>
    match tlookup t (bytes.getD p [] ++ e.merged) with
    | some id => [{ mid := id, fst := p, snd := e.fst, fid := ids.getD p none, sid := ids.getD e.fst none,
                    merged := bytes.getD p [] ++ e.merged : HEntry }]
    | none => []
  | none => []

def pushNext (t : MTable) (bytes : List (List Nat)) (ids : List (Option Nat)) (e : HEntry) : List HEntry :=
  match nextLive bytes e.snd with
  | some n =>
    match tlookup t (e.merged ++ bytes.getD n []) with
    | some id => [{ mid := id, fst := e.fst, snd := n, fid := ids.getD e.fst none, sid := ids.getD n none,
                    merged := e.merged ++ bytes.getD n [] : HEntry }]
    | none => []
  | none => []

theorem mergeStep_stale (t : MTable) (st : MState) (e : HEntry)
    (h : ¬ (st.ids.getD e.fst none = e.fid ∧ st.ids.getD e.snd none = e.sid)) : mergeStep t st e = st := by
  unfold mergeStep
  have : (st.ids.getD e.fst none != e.fid || st.ids.getD e.snd none != e.sid) = true := by
    rw [Bool.or_eq_true]
    by_cases h1 : st.ids.getD e.fst none = e.fid
    · by_cases h2 : st.ids.getD e.snd none = e.sid
      · exact absurd ⟨h1, h2⟩ h
      · right; exact bne_iff_ne.mpr h2
    · left; exact bne_iff_ne.mpr h1
  rw [if_pos this]

theorem mergeStep_valid (t : MTable) (st : MState) (e : HEntry)
    (h1 : st.ids.getD e.fst none = e.fid) (h2 : st.ids.getD e.snd none = e.sid) :
    mergeStep t st e = {
      bytes := mergedBytes st.bytes e, ids := mergedIds st.ids e,
      heap := st.heap ++ pushPrev t (mergedBytes st.bytes e) (mergedIds st.ids e) e ++
        pushNext t (mergedBytes st.bytes e) (mergedIds st.ids e) e } := by
  unfold mergeStep
  have : (st.ids.getD e.fst none != e.fid || st.ids.getD e.snd none != e.sid) = false := by
    rw [h1, h2]; simp
  rw [if_neg (by rw [this]; simp)]
  rfl

theorem pushPrev_length (t : MTable) (bytes : List (List Nat)) (ids : List (Option Nat)) (e : HEntry) :
    (pushPrev t bytes ids e).length ≤ 1 := by
  unfold pushPrev
  split
  · split <;> simp
  · simp

theorem pushNext_length (t : MTable) (bytes : List (List Nat)) (ids : List (Option Nat)) (e : HEntry) :
    (pushNext t bytes ids e).length ≤ 1 := by
  unfold pushNext
  split
  · split <;> simp
  · simp

theorem mem_pushPrev {t : MTable} {bytes : List (List Nat)} {ids : List (Option Nat)} {e x : HEntry}
    (h : x ∈ pushPrev t bytes ids e) :
    ∃ p id, prevLive bytes e.fst = some p ∧ tlookup t (bytes.getD p [] ++ e.merged) = some id ∧
      x = { mid := id, fst := p, snd := e.fst, fid := ids.getD p none, sid := ids.getD e.fst none,
            merged := bytes.getD p [] ++ e.merged } := by
  unfold pushPrev at h
  split at h
  · rename_i p hp
    split at h
    · rename_i id hid
      simp only [List.mem_singleton] at h
      exact ⟨p, id, hp, hid, h⟩
    · simp at h
  · simp at h

theorem mem_pushNext {t : MTable} {bytes : List (List Nat)} {ids : List (Option Nat)} {e x : HEntry}
    (h : x ∈ pushNext t bytes ids e) :
    ∃ n id, nextLive bytes e.snd = some n ∧ tlookup t (e.merged ++ bytes.getD n []) = some id ∧
      x = { mid := id, fst := e.fst, snd := n, fid := ids.getD e.fst none, sid := ids.getD n none,
            merged := e.merged ++ bytes.getD n [] } := by
  unfold pushNext at h
  split at h
  · rename_i n hn
    split at h
    · rename_i id hid
      simp only [List.mem_singleton] at h
      exact ⟨n, id, hn, hid, h⟩
    · simp at h
  · simp at h

theorem pushPrev_mem {t : MTable} {bytes : List (List Nat)} {ids : List (Option Nat)} {e : HEntry}
    {p id : Nat} (hp : prevLive bytes e.fst = some p) (hl : tlookup t (bytes.getD p [] ++ e.merged) = some id) :
    ({ mid := id, fst := p, snd := e.fst, fid := ids.getD p none, sid := ids.getD e.fst none,
       merged := bytes.getD p [] ++ e.merged } : HEntry) ∈ pushPrev t bytes ids e := by
  unfold pushPrev
  rw [hp]; simp only; rw [hl]; simp

theorem pushNext_mem {t : MTable} {bytes : List (List Nat)} {ids : List (Option Nat)} {e : HEntry}
    {n id : Nat} (hn : nextLive bytes e.snd = some n) (hl : tlookup t (e.merged ++ bytes.getD n []) = some id) :
    ({ mid := id, fst := e.fst, snd := n, fid := ids.getD e.fst none, sid := ids.getD n none,
       merged := e.merged ++ bytes.getD n [] } : HEntry) ∈ pushNext t bytes ids e := by
  unfold pushNext
  rw [hn]; simp only; rw [hl]; simp

/-! ### preservation: a stale entry is dropped -/

theorem Inv_stale {t : MTable} {st : MState} {e : HEntry} (hinv : Inv t st)
    (hs : ¬ (st.ids.getD e.fst none = e.fid ∧ st.ids.getD e.snd none = e.sid)) :
    Inv t { st with heap := st.heap.erase e } := by
  refine ⟨hinv.len, hinv.cell, fun x hx => hinv.entry x (List.mem_of_mem_erase hx), ?_⟩
  intro i j m hadj hl
  obtain ⟨x, hx, h1, h2, h3, h4⟩ := hinv.complete i j m hadj hl
  refine ⟨x, ?_, h1, h2, h3, h4⟩
  have hne : x ≠ e := by
    intro hxe; subst hxe
    exact hs ⟨by rw [h1, h3], by rw [h2, h4]⟩
  exact (List.mem_erase_of_ne hne).mpr hx

/-! ### preservation: a valid entry is applied -/

theorem Inv_merge {t : MTable} (hwf : wfTable t = true) {st : MState} {e : HEntry} (hinv : Inv t st)
    (he : e ∈ st.heap)
    (h1 : st.ids.getD e.fst none = e.fid) (h2 : st.ids.getD e.snd none = e.sid) :
    Inv t {
      bytes := mergedBytes st.bytes e, ids := mergedIds st.ids e,
      heap := st.heap.erase e ++ pushPrev t (mergedBytes st.bytes e) (mergedIds st.ids e) e ++
        pushNext t (mergedBytes st.bytes e) (mergedIds st.ids e) e } := by
  obtain ⟨hadj, hm, hlk⟩ := valid_entry hwf hinv.cell (hinv.entry e he) h1 h2
  obtain ⟨hij, hi, hj, hmid⟩ := hadj
  have hjl : e.snd < st.bytes.length := lt_length_of_getD_ne _ _ _ hj
  have hlen := hinv.len
  have hB : ∀ k, (mergedBytes st.bytes e).getD k [] =
      if k = e.snd then [] else if k = e.fst then e.merged else st.bytes.getD k [] :=
    fun k => getD_set2 _ _ _ _ _ _ _ (by omega) hjl (by omega)
  have hI : ∀ k, (mergedIds st.ids e).getD k none =
      if k = e.snd then none else if k = e.fst then some (256 + e.mid) else st.ids.getD k none :=
    fun k => getD_set2 _ _ _ _ _ _ _ (by omega) (by omega) (by omega)
  have hmne : e.merged ≠ [] := by
    rw [hm]; intro h0; exact hi (List.append_eq_nil_iff.mp h0).1
  have hne : e.fst ≠ e.snd := by omega
  have hBi : (mergedBytes st.bytes e).getD e.fst [] = e.merged := by
    rw [hB, if_neg hne, if_pos rfl]
  have hBj : (mergedBytes st.bytes e).getD e.snd [] = [] := by
    rw [hB, if_pos rfl]
  have hIi : (mergedIds st.ids e).getD e.fst none = some (256 + e.mid) := by
    rw [hI, if_neg hne, if_pos rfl]
  have hIj : (mergedIds st.ids e).getD e.snd none = none := by
    rw [hI, if_pos rfl]
  have hBo : ∀ k, k ≠ e.fst → k ≠ e.snd → (mergedBytes st.bytes e).getD k [] = st.bytes.getD k [] := by
    intro k k1 k2; rw [hB, if_neg k2, if_neg k1]
  have hIo : ∀ k, k ≠ e.fst → k ≠ e.snd → (mergedIds st.ids e).getD k none = st.ids.getD k none := by
    intro k k1 k2; rw [hI, if_neg k2, if_neg k1]
  have hdead : ∀ k, st.bytes.getD k [] = [] → (mergedBytes st.bytes e).getD k [] = [] := by
    intro k hk
    by_cases k1 : k = e.snd
    · rw [k1]; exact hBj
    · have k2 : k ≠ e.fst := by intro h; rw [h] at hk; exact hi hk
      rw [hBo k k2 k1]; exact hk
  have hBlen : (mergedBytes st.bytes e).length = st.bytes.length := by
    simp [mergedBytes]
  -- cells
  have hcell : CellOK t (mergedBytes st.bytes e) (mergedIds st.ids e) := by
    intro k
    by_cases k1 : k = e.snd
    · left; rw [k1]; exact ⟨hBj, hIj⟩
    · by_cases k2 : k = e.fst
      · right
        rw [k2]
        refine ⟨256 + e.mid, hIi, ?_⟩
        rw [hBi, hm]
        exact IdOK.merged hi hj (by rw [← hm]; exact hlk)
      · rw [hBo k k2 k1, hIo k k2 k1]
        exact hinv.cell k
  refine ⟨by simp [mergedBytes, mergedIds, hlen], hcell, ?_, ?_⟩
  · -- heap entries
    intro x hx
    simp only [List.mem_append] at hx
    rcases hx with (hx | hx) | hx
    · exact (hinv.entry x (List.mem_of_mem_erase hx)).mono hBlen hdead
    · obtain ⟨p, id, hp, hl, rfl⟩ := mem_pushPrev hx
      obtain ⟨p1, p2, p3⟩ := prevLive_some _ _ _ hp
      have := mk_entry hcell p e.fst id p1 p2 (by rw [hBi]; exact hmne) p3 (by rw [hBi]; exact hl)
      rw [hBi] at this
      exact this
    · obtain ⟨n, id, hn, hl, rfl⟩ := mem_pushNext hx
      obtain ⟨n1, n2, n3⟩ := nextLive_some _ _ _ hn
      have := mk_entry hcell e.fst n id (by omega) (by rw [hBi]; exact hmne) n2
        (by
          intro k k1 k2
          by_cases hk : e.snd < k
          · exact n3 k hk k2
          · by_cases hk' : k = e.snd
            · rw [hk']; exact hBj
            · exact hdead k (hmid k k1 (by omega)))
        (by rw [hBi]; exact hl)
      rw [hBi] at this
      exact this
  · -- completeness
    intro a b m hadj' hl'
    obtain ⟨hab, ha, hb, hmid'⟩ := hadj'
    have haj : a ≠ e.snd := by intro h; rw [h] at ha; exact ha hBj
    have hbj : b ≠ e.snd := by intro h; rw [h] at hb; exact hb hBj
    by_cases hai : a = e.fst
    · -- the pair (merged cell, next live cell)
      subst hai
      have hbgt : e.snd < b := by
        by_cases hlt : b < e.snd
        · have := hmid b hab hlt
          rw [hBo b (by omega) hbj] at hb
          exact absurd this hb
        · omega
      cases hn : nextLive (mergedBytes st.bytes e) e.snd with
      | none => exact absurd (nextLive_none _ _ hn b hbgt) hb
      | some n =>
        obtain ⟨n1, n2, n3⟩ := nextLive_some _ _ _ hn
        have hnb : n = b := by
          by_cases c1 : n < b
          · exact absurd (hmid' n (by omega) c1) n2
          · by_cases c2 : b < n
            · exact absurd (n3 b hbgt c2) hb
            · omega
        subst hnb
        rw [hBi] at hl'
        refine ⟨{ mid := m, fst := e.fst, snd := n, fid := (mergedIds st.ids e).getD e.fst none,
                  sid := (mergedIds st.ids e).getD n none,
                  merged := e.merged ++ (mergedBytes st.bytes e).getD n [] }, ?_, rfl, rfl, rfl, rfl⟩
        simp only [List.mem_append]
        exact Or.inr (pushNext_mem hn hl')
    · by_cases hbi : b = e.fst
      · -- the pair (previous live cell, merged cell)
        subst hbi
        cases hp : prevLive (mergedBytes st.bytes e) e.fst with
        | none => exact absurd (prevLive_none _ _ hp a hab) ha
        | some p =>
          obtain ⟨p1, p2, p3⟩ := prevLive_some _ _ _ hp
          have hpa : p = a := by
            by_cases c1 : p < a
            · exact absurd (p3 a c1 hab) ha
            · by_cases c2 : a < p
              · exact absurd (hmid' p c2 p1) p2
              · omega
          subst hpa
          rw [hBi] at hl'
          refine ⟨{ mid := m, fst := p, snd := e.fst, fid := (mergedIds st.ids e).getD p none,
                    sid := (mergedIds st.ids e).getD e.fst none,
                    merged := (mergedBytes st.bytes e).getD p [] ++ e.merged }, ?_, rfl, rfl, rfl, rfl⟩
          simp only [List.mem_append]
          exact Or.inl (Or.inr (pushPrev_mem hp hl'))
      · -- an untouched pair
        rw [hBo a hai haj] at ha hl'
        rw [hBo b hbi hbj] at hb hl'
        have hadj0 : Adj st.bytes a b := by
          refine ⟨hab, ha, hb, ?_⟩
          intro k k1 k2
          have hk := hmid' k k1 k2
          have kf : k ≠ e.fst := by intro h; rw [h, hBi] at hk; exact hmne hk
          by_cases ks : k = e.snd
          · exfalso
            subst ks
            by_cases c : a < e.fst
            · have := hmid' e.fst c (by omega)
              rw [hBi] at this; exact hmne this
            · exact ha (hmid a (by omega) k1)
          · rw [hBo k kf ks] at hk; exact hk
        obtain ⟨x, hx, x1, x2, x3, x4⟩ := hinv.complete a b m hadj0 hl'
        refine ⟨x, ?_, x1, x2, ?_, ?_⟩
        · simp only [List.mem_append]
          refine Or.inl (Or.inl ((List.mem_erase_of_ne ?_).mpr hx))
          intro hxe; rw [hxe] at x1; exact hai x1.symm
        · rw [hIo a hai haj]; exact x3
        · rw [hIo b hbi hbj]; exact x4

end Tu
