/-
  BPE, specification side: `bestPair`, `mergeAt`, `specLoop` (Model/Bpe.lean).
  * `bestPair` is characterised by minimality of `(merge id, position)`,
  * `specLoop` ends in a list without mergeable adjacent pair,
  * `mergeAt` preserves the concatenation.
-/
import TuModel.Model.Bpe
namespace Tu

/-! ### `bestPair` -/

theorem bestPair_nil (t : MTable) (c : Nat) : bestPair t [] c = none := by
  simp [bestPair]

theorem bestPair_single (t : MTable) (a : List Nat) (c : Nat) : bestPair t [a] c = none := by
  simp [bestPair]

theorem bestPair_cons2 (t : MTable) (a b : List Nat) (rest : List (List Nat)) (c : Nat) :
    bestPair t (a :: b :: rest) c =
      match tlookup t (a ++ b) with
      | some m => match bestPair t (b :: rest) (c + 1) with
        | some (m', i') => if m' < m then some (m', i') else some (m, c)
        | none => some (m, c)
      | none => bestPair t (b :: rest) (c + 1) := by
  rw [bestPair]
  cases tlookup t (a ++ b) with
  | none => rfl
  | some m =>
    cases bestPair t (b :: rest) (c + 1) with
    | none => rfl
    | some r => rfl

/-- a result of `bestPair` denotes a mergeable position, and it is minimal -/
theorem bestPair_some (t : MTable) : ∀ (toks : List (List Nat)) (c m p : Nat),
    bestPair t toks c = some (m, p) →
    ∃ k, p = c + k ∧ k + 1 < toks.length ∧
      tlookup t (toks.getD k [] ++ toks.getD (k + 1) []) = some m
  | [], c, m, p, h => by simp [bestPair] at h
  | [a], c, m, p, h => by simp [bestPair] at h
  | a :: b :: rest, c, m, p, h => by
    rw [bestPair_cons2] at h
    have ih := bestPair_some t (b :: rest) (c + 1)
    cases hl : tlookup t (a ++ b) with
    | none =>
      rw [hl] at h
      obtain ⟨k, hk1, hk2, hk3⟩ := ih m p h
      refine ⟨k + 1, by omega, by simp at hk2 ⊢; omega, ?_⟩
      simpa using hk3
    | some m0 =>
      rw [hl] at h
      cases hr : bestPair t (b :: rest) (c + 1) with
      | none =>
        rw [hr] at h
        simp only [Option.some.injEq, Prod.mk.injEq] at h
        refine ⟨0, by omega, by simp, ?_⟩
        simpa [h.1] using hl
      | some r =>
        obtain ⟨m', i'⟩ := r
        rw [hr] at h
        simp only at h
        split at h
        · simp only [Option.some.injEq, Prod.mk.injEq] at h
          obtain ⟨k, hk1, hk2, hk3⟩ := ih m' i' hr
          refine ⟨k + 1, by omega, by simp at hk2 ⊢; omega, ?_⟩
          rw [← h.1]
          simpa using hk3
        · simp only [Option.some.injEq, Prod.mk.injEq] at h
          refine ⟨0, by omega, by simp, ?_⟩
          simpa [h.1] using hl

/-- no result: no adjacent pair is a key -/
theorem bestPair_none (t : MTable) : ∀ (toks : List (List Nat)) (c : Nat),
    bestPair t toks c = none →
    ∀ k, k + 1 < toks.length → tlookup t (toks.getD k [] ++ toks.getD (k + 1) []) = none
  | [], c, _, k, hk => by simp at hk
  | [a], c, _, k, hk => by simp at hk
  | a :: b :: rest, c, h, k, hk => by
    rw [bestPair_cons2] at h
    cases hl : tlookup t (a ++ b) with
    | some m0 =>
      rw [hl] at h
      cases hr : bestPair t (b :: rest) (c + 1) with
      | none => rw [hr] at h; simp at h
      | some r =>
        obtain ⟨m', i'⟩ := r
        rw [hr] at h
        simp only at h
        split at h <;> simp at h
    | none =>
      rw [hl] at h
      cases k with
      | zero => simpa using hl
      | succ k =>
        have := bestPair_none t (b :: rest) (c + 1) h k (by simp at hk ⊢; omega)
        simpa using this

theorem bestPair_of_none (t : MTable) : ∀ (toks : List (List Nat)) (c : Nat),
    (∀ k, k + 1 < toks.length → tlookup t (toks.getD k [] ++ toks.getD (k + 1) []) = none) →
    bestPair t toks c = none
  | [], c, _ => by simp [bestPair]
  | [a], c, _ => by simp [bestPair]
  | a :: b :: rest, c, h => by
    rw [bestPair_cons2]
    have h0 := h 0 (by simp)
    simp only [List.getD_cons_zero, Nat.zero_add, List.getD_cons_succ] at h0
    rw [h0]
    apply bestPair_of_none
    intro k hk
    have := h (k + 1) (by simp at hk ⊢; omega)
    simpa using this

/-- a result of `bestPair` is minimal: lowest id, leftmost on ties -/
theorem bestPair_some_min (t : MTable) : ∀ (toks : List (List Nat)) (c m p : Nat),
    bestPair t toks c = some (m, p) →
    ∀ k' m', k' + 1 < toks.length → tlookup t (toks.getD k' [] ++ toks.getD (k' + 1) []) = some m' →
      m < m' ∨ (m = m' ∧ p ≤ c + k')
  | [], c, m, p, h => by simp [bestPair] at h
  | [a], c, m, p, h => by simp [bestPair] at h
  | a :: b :: rest, c, m, p, h => by
    rw [bestPair_cons2] at h
    have ih := bestPair_some_min t (b :: rest) (c + 1)
    intro k' m' hk' hl'
    cases hl : tlookup t (a ++ b) with
    | none =>
      rw [hl] at h
      cases k' with
      | zero =>
        simp only [List.getD_cons_zero, Nat.zero_add, List.getD_cons_succ] at hl'
        rw [hl] at hl'; simp at hl'
      | succ k' =>
        have := ih m p h k' m' (by simp at hk' ⊢; omega) (by simpa using hl')
        omega
    | some m0 =>
      rw [hl] at h
      cases hr : bestPair t (b :: rest) (c + 1) with
      | none =>
        rw [hr] at h
        simp only [Option.some.injEq, Prod.mk.injEq] at h
        cases k' with
        | zero =>
          simp only [List.getD_cons_zero, Nat.zero_add, List.getD_cons_succ] at hl'
          rw [hl] at hl'; simp only [Option.some.injEq] at hl'
          omega
        | succ k' =>
          have := bestPair_none t (b :: rest) (c + 1) hr k' (by simp at hk' ⊢; omega)
          have hl'' : tlookup t ((b :: rest).getD k' [] ++ (b :: rest).getD (k' + 1) []) = some m' := by
            simpa using hl'
          rw [this] at hl''; simp at hl''
      | some r =>
        obtain ⟨m1, i1⟩ := r
        rw [hr] at h
        simp only at h
        have ih' := ih m1 i1 hr
        split at h
        · rename_i hlt
          simp only [Option.some.injEq, Prod.mk.injEq] at h
          cases k' with
          | zero =>
            simp only [List.getD_cons_zero, Nat.zero_add, List.getD_cons_succ] at hl'
            rw [hl] at hl'; simp only [Option.some.injEq] at hl'
            omega
          | succ k' =>
            have := ih' k' m' (by simp at hk' ⊢; omega) (by simpa using hl')
            omega
        · rename_i hlt
          simp only [Option.some.injEq, Prod.mk.injEq] at h
          cases k' with
          | zero =>
            simp only [List.getD_cons_zero, Nat.zero_add, List.getD_cons_succ] at hl'
            rw [hl] at hl'; simp only [Option.some.injEq] at hl'
            omega
          | succ k' =>
            have := ih' k' m' (by simp at hk' ⊢; omega) (by simpa using hl')
            omega

/-- the minimal mergeable position (lowest id, leftmost) is the result of `bestPair` -/
theorem bestPair_eq (t : MTable) : ∀ (toks : List (List Nat)) (c k m : Nat),
    k + 1 < toks.length →
    tlookup t (toks.getD k [] ++ toks.getD (k + 1) []) = some m →
    (∀ k' m', k' + 1 < toks.length →
      tlookup t (toks.getD k' [] ++ toks.getD (k' + 1) []) = some m' → m < m' ∨ (m = m' ∧ k ≤ k')) →
    bestPair t toks c = some (m, c + k)
  | [], c, k, m, hk, _, _ => by simp at hk
  | [a], c, k, m, hk, _, _ => by simp at hk
  | a :: b :: rest, c, k, m, hk, hl, hmin => by
    rw [bestPair_cons2]
    cases k with
    | zero =>
      simp only [List.getD_cons_zero, Nat.zero_add, List.getD_cons_succ] at hl
      rw [hl]
      cases hr : bestPair t (b :: rest) (c + 1) with
      | none => simp
      | some r =>
        obtain ⟨m', i'⟩ := r
        obtain ⟨k', hk1, hk2, hk3⟩ := bestPair_some t _ _ _ _ hr
        have := hmin (k' + 1) m' (by simp at hk2 ⊢; omega) (by simpa using hk3)
        have hn : ¬ m' < m := by omega
        simp [hn]
    | succ k =>
      have hrec : bestPair t (b :: rest) (c + 1) = some (m, c + 1 + k) := by
        apply bestPair_eq t (b :: rest) (c + 1) k m (by simp at hk ⊢; omega) (by simpa using hl)
        intro k' m' hk' hl'
        have := hmin (k' + 1) m' (by simp at hk' ⊢; omega) (by simpa using hl')
        omega
      rw [hrec]
      cases hl0 : tlookup t (a ++ b) with
      | none => simp; omega
      | some m0 =>
        have := hmin 0 m0 (by simp) (by simpa using hl0)
        have hlt : m < m0 := by omega
        simp [hlt]; omega

/-! ### `mergeAt` -/

theorem mergeAt_length : ∀ (toks : List (List Nat)) (k : Nat), k + 1 < toks.length →
    (mergeAt toks k).length + 1 = toks.length
  | [], k, h => by simp at h
  | [a], k, h => by simp at h
  | a :: b :: rest, 0, _ => by simp [mergeAt]
  | a :: b :: rest, k + 1, h => by
    have := mergeAt_length (b :: rest) k (by simp at h ⊢; omega)
    simp only [mergeAt, List.length_cons] at this ⊢
    omega

theorem mergeAt_flatten : ∀ (toks : List (List Nat)) (k : Nat), (mergeAt toks k).flatten = toks.flatten
  | [], k => by cases k <;> simp [mergeAt]
  | [a], 0 => by simp [mergeAt]
  | [a], k + 1 => by
    have := mergeAt_flatten [] k
    simp [mergeAt]
  | a :: b :: rest, 0 => by simp [mergeAt]
  | a :: b :: rest, k + 1 => by
    have := mergeAt_flatten (b :: rest) k
    simp only [mergeAt, List.flatten_cons] at this ⊢
    rw [this]

/-- merging in the middle of an explicit decomposition -/
theorem mergeAt_append (L R : List (List Nat)) (x y : List Nat) :
    mergeAt (L ++ x :: y :: R) L.length = L ++ (x ++ y) :: R := by
  induction L with
  | nil => simp [mergeAt]
  | cons a L ih => simp [mergeAt, ih]

/-! ### `specLoop` -/

theorem specLoop_of_none (t : MTable) (F : Nat) (toks : List (List Nat)) (h : bestPair t toks 0 = none) :
    specLoop t F toks = toks := by
  cases F with
  | zero => rfl
  | succ F => simp [specLoop, h]

theorem specLoop_of_some (t : MTable) (F : Nat) (toks : List (List Nat)) (m k : Nat)
    (h : bestPair t toks 0 = some (m, k)) :
    specLoop t (F + 1) toks = specLoop t F (mergeAt toks k) := by
  simp [specLoop, h]

/-- with fuel at least `length - 1` the loop ends in a terminal list -/
theorem specLoop_terminal_aux (t : MTable) : ∀ (F : Nat) (toks : List (List Nat)), toks.length ≤ F + 1 →
    bestPair t (specLoop t F toks) 0 = none
  | 0, toks, h => by
    simp only [specLoop]
    apply bestPair_of_none
    intro k hk; omega
  | F + 1, toks, h => by
    cases hb : bestPair t toks 0 with
    | none => rw [specLoop_of_none t _ _ hb]; exact hb
    | some r =>
      obtain ⟨m, p⟩ := r
      rw [specLoop_of_some t F toks m p hb]
      obtain ⟨k, hk1, hk2, _⟩ := bestPair_some t _ _ _ _ hb
      have hp : p = k := by omega
      subst hp
      have := mergeAt_length toks p hk2
      exact specLoop_terminal_aux t F _ (by omega)

theorem specLoop_flatten (t : MTable) : ∀ (F : Nat) (toks : List (List Nat)),
    (specLoop t F toks).flatten = toks.flatten
  | 0, toks => rfl
  | F + 1, toks => by
    cases hb : bestPair t toks 0 with
    | none => rw [specLoop_of_none t _ _ hb]
    | some r =>
      obtain ⟨m, p⟩ := r
      rw [specLoop_of_some t F toks m p hb, specLoop_flatten t F, mergeAt_flatten]

/-- a token of the result is a single element of the start list or a table key -/
def TokOK (t : MTable) (tok : List Nat) : Prop := (∃ b, tok = [b] ∧ b < 256) ∨ (2 ≤ tok.length ∧ ∃ k, tlookup t tok = some k)

theorem mergeAt_tokOK (t : MTable) : ∀ (toks : List (List Nat)) (k m : Nat),
    (∀ tok ∈ toks, TokOK t tok) → (∀ tok ∈ toks, tok ≠ []) → k + 1 < toks.length →
    tlookup t (toks.getD k [] ++ toks.getD (k + 1) []) = some m →
    ∀ tok ∈ mergeAt toks k, TokOK t tok
  | [], k, m, _, _, h, _ => by simp at h
  | [a], k, m, _, _, h, _ => by simp at h
  | a :: b :: rest, 0, m, hok, hne, _, hl => by
    intro tok htok
    simp only [mergeAt, List.mem_cons] at htok
    rcases htok with rfl | htok
    · right
      have ha := hne a (by simp)
      have hb := hne b (by simp)
      have : 0 < a.length := List.length_pos_iff.mpr ha
      have : 0 < b.length := List.length_pos_iff.mpr hb
      refine ⟨by simp; omega, m, by simpa using hl⟩
    · exact hok tok (by simp [htok])
  | a :: b :: rest, k + 1, m, hok, hne, h, hl => by
    intro tok htok
    simp only [mergeAt, List.mem_cons] at htok
    rcases htok with rfl | htok
    · exact hok _ (by simp)
    · exact mergeAt_tokOK t (b :: rest) k m (fun x hx => hok x (List.mem_cons_of_mem _ hx))
        (fun x hx => hne x (List.mem_cons_of_mem _ hx)) (by simp at h ⊢; omega) (by simpa using hl) tok htok

theorem mergeAt_ne_nil : ∀ (toks : List (List Nat)) (k : Nat),
    (∀ tok ∈ toks, tok ≠ []) → ∀ tok ∈ mergeAt toks k, tok ≠ []
  | [], k, _ => by cases k <;> simp [mergeAt]
  | [a], 0, h => by simpa [mergeAt] using h
  | [a], k + 1, h => by
    have := mergeAt_ne_nil [] k
    simpa [mergeAt] using h
  | a :: b :: rest, 0, h => by
    intro tok htok
    simp only [mergeAt, List.mem_cons] at htok
    rcases htok with rfl | htok
    · have := h a (by simp); simp [this]
    · exact h tok (by simp [htok])
  | a :: b :: rest, k + 1, h => by
    intro tok htok
    simp only [mergeAt, List.mem_cons] at htok
    rcases htok with rfl | htok
    · exact h _ (by simp)
    · exact mergeAt_ne_nil (b :: rest) k (fun x hx => h x (List.mem_cons_of_mem _ hx)) tok htok

theorem specLoop_tokOK (t : MTable) : ∀ (F : Nat) (toks : List (List Nat)),
    (∀ tok ∈ toks, TokOK t tok) → (∀ tok ∈ toks, tok ≠ []) →
    ∀ tok ∈ specLoop t F toks, TokOK t tok
  | 0, toks, h, _ => h
  | F + 1, toks, h, hne => by
    cases hb : bestPair t toks 0 with
    | none => rw [specLoop_of_none t _ _ hb]; exact h
    | some r =>
      obtain ⟨m, p⟩ := r
      rw [specLoop_of_some t F toks m p hb]
      obtain ⟨k, hk1, hk2, hk3⟩ := bestPair_some t _ _ _ _ hb
      have hp : p = k := by omega
      subst hp
      exact specLoop_tokOK t F _ (mergeAt_tokOK t toks p m h hne hk2 hk3) (mergeAt_ne_nil toks p hne)

end Tu
