/-
  Lemmas for the incremental BPE trainer model, part 4: the effect of a sequence of decrements / increments on the
  meaning of the statistics; corpus-level counting (`pairFreq` under `List.set` / append); `StatsOk`; the initial statistics.
-/
import TuModel.Lemmas.BpeTrainIncL3
namespace Tu.BpeTrainIncL
open Tu

theorem oldLoop_top (x y : Tok) (idx f : Nat) (old : List Tok) (st : Stats) :
    oldLoop x y old idx f (old.length + 1) 0 st = applyDecs idx f (decsN x y none old) st := by
  have := oldLoop_eq x y idx f (old.length + 1) [] old st (by omega)
  rw [decsR_eq_decsN] at this
  exact this

theorem newLoop_top (m : Tok) (idx f : Nat) (new : List Tok) (st : Stats) :
    newLoop m new idx f (new.length + 1) 0 st = applyIncs idx f (incsN m none new) st := by
  have := newLoop_eq m idx f (new.length + 1) [] new st (by omega)
  rw [incsR_eq_incsN] at this
  exact this

theorem cnt_pos_of_mem (q : BPair) (l : List BPair) (h : q ∈ l) : 0 < cnt q l := by
  induction l with
  | nil => cases h
  | cons a r ih =>
    rw [cnt_cons]
    rcases List.mem_cons.mp h with h | h
    · subst h; simp; omega
    · have := ih h; omega

/-! ### effects -/

theorem applyDecs_effect (n idx f : Nat) : ∀ (L : List BPair) (st : Stats), (∀ q ∈ L, hasKey st q idx) →
    ∃ st', applyDecs idx f L st = some st' ∧
      (∀ q, freqOf st' q = freqOf st q - f * cnt q L) ∧
      (∀ q i, occOf st' q i = if idx = i then occOf st q i - cnt q L else occOf st q i) ∧
      (∀ q i, hasKey st' q i ↔ hasKey st q i) ∧
      (StatsWf n st → StatsWf n st') := by
  intro L
  induction L with
  | nil =>
    intro st _
    exact ⟨st, rfl, by simp, by simp, by simp, id⟩
  | cons a r ih =>
    intro st h
    have ha := h a (by simp)
    rw [applyDecs_cons, statsDec_eq st a idx f ha]
    simp only [Option.bind_some]
    obtain ⟨st', e, h1, h2, h3, h4⟩ := ih (alModify (decFn idx f) st a) (by
      intro q hq
      rw [hasKey_dec]
      exact h q (List.mem_cons_of_mem _ hq))
    refine ⟨st', e, ?_, ?_, ?_, ?_⟩
    · intro q
      rw [h1, freqOf_dec, cnt_cons]
      by_cases haq : a = q
      · simp only [haq, if_true]
        rw [Nat.mul_add, Nat.mul_one, Nat.sub_sub]
      · simp only [haq, if_false, Nat.zero_add]
    · intro q i
      rw [h2, occOf_dec, cnt_cons]
      by_cases hi : idx = i
      · simp only [hi, if_true, and_true]
        by_cases haq : a = q
        · simp only [haq, if_true]; omega
        · simp only [haq, if_false]; omega
      · simp only [hi, if_false, and_false]
    · intro q i
      rw [h3, hasKey_dec]
    · intro hw
      exact h4 (StatsWf_dec n st a idx f hw)

theorem applyIncs_effect (n idx f : Nat) (hidx : idx < n) : ∀ (L : List BPair) (st : Stats),
      (∀ q, freqOf (applyIncs idx f L st) q = freqOf st q + f * cnt q L) ∧
      (∀ q i, occOf (applyIncs idx f L st) q i = if idx = i then occOf st q i + cnt q L else occOf st q i) ∧
      (∀ q i, hasKey st q i → hasKey (applyIncs idx f L st) q i) ∧
      (StatsWf n st → StatsWf n (applyIncs idx f L st)) := by
  intro L
  induction L with
  | nil => intro st; exact ⟨by simp [applyIncs_nil], by simp [applyIncs_nil], fun _ _ h => h, id⟩
  | cons a r ih =>
    intro st
    rw [applyIncs_cons]
    obtain ⟨h1, h2, h3, h4⟩ := ih (statsInc st a idx f)
    refine ⟨?_, ?_, ?_, ?_⟩
    · intro q
      rw [h1, freqOf_inc, cnt_cons]
      by_cases haq : a = q
      · simp only [haq, if_true]
        rw [Nat.mul_add, Nat.mul_one]; omega
      · simp only [haq, if_false, Nat.zero_add]
    · intro q i
      rw [h2, occOf_inc, cnt_cons]
      by_cases hi : idx = i
      · simp only [hi, if_true, and_true]
        by_cases haq : a = q
        · simp only [haq, if_true]; omega
        · simp only [haq, if_false]; omega
      · simp only [hi, if_false, and_false]
    · intro q i h
      exact h3 q i (hasKey_inc st a q idx f i h)
    · intro hw
      exact h4 (StatsWf_inc n st a idx f hw hidx)

theorem StatsWf_mono (n n' : Nat) (st : Stats) (h : StatsWf n st) (hn : n ≤ n') : StatsWf n' st :=
  ⟨h.1, fun q info hq => ⟨(h.2 q info hq).1, fun i hi => Nat.lt_of_lt_of_le ((h.2 q info hq).2 i hi) hn⟩⟩

/-! ### corpus-level counting -/

/-- occurrences of `q` in word `i` of the corpus (0 beyond the end) -/
def wcount (c : Corpus) (i : Nat) (q : BPair) : Nat := wordPairCount (c.getD i ([], 0)).1 q

theorem pairFreq_nil (q : BPair) : pairFreq [] q = 0 := rfl
theorem pairFreq_cons (w : List Tok) (n : Nat) (r : Corpus) (q : BPair) :
    pairFreq ((w, n) :: r) q = n * cnt q (wordPairs w) + pairFreq r q := by
  unfold pairFreq
  rw [List.map_cons, List.sum_cons]
  rfl
theorem pairFreq_append (c1 c2 : Corpus) (q : BPair) : pairFreq (c1 ++ c2) q = pairFreq c1 q + pairFreq c2 q := by
  unfold pairFreq
  rw [List.map_append, List.sum_append]

theorem wcount_cons_zero (e : List Tok × Nat) (r : Corpus) (q : BPair) : wcount (e :: r) 0 q = cnt q (wordPairs e.1) := rfl
theorem wcount_cons_succ (e : List Tok × Nat) (r : Corpus) (i : Nat) (q : BPair) : wcount (e :: r) (i + 1) q = wcount r i q := rfl
theorem wcount_ge (c : Corpus) (i : Nat) (q : BPair) (h : c.length ≤ i) : wcount c i q = 0 := by
  unfold wcount
  rw [List.getD_eq_getElem?_getD, List.getElem?_eq_none h]
  rfl
theorem wcount_of_get (c : Corpus) (i : Nat) (q : BPair) (w : List Tok) (f : Nat) (h : c[i]? = some (w, f)) :
    wcount c i q = cnt q (wordPairs w) := by
  unfold wcount
  rw [List.getD_eq_getElem?_getD, h]
  rfl

theorem wcount_append_left (c1 c2 : Corpus) (i : Nat) (q : BPair) (h : i < c1.length) : wcount (c1 ++ c2) i q = wcount c1 i q := by
  unfold wcount
  rw [List.getD_eq_getElem?_getD, List.getD_eq_getElem?_getD, List.getElem?_append_left h]

theorem wcount_append_right (c1 c2 : Corpus) (i : Nat) (q : BPair) (h : c1.length ≤ i) :
    wcount (c1 ++ c2) i q = wcount c2 (i - c1.length) q := by
  unfold wcount
  rw [List.getD_eq_getElem?_getD, List.getD_eq_getElem?_getD, List.getElem?_append_right h]

/-- replacing one word -/
theorem pairFreq_set (q : BPair) : ∀ (c : Corpus) (i : Nat) (w nw : List Tok) (f : Nat), c[i]? = some (w, f) →
    pairFreq (c.set i (nw, f)) q + f * cnt q (wordPairs w) = pairFreq c q + f * cnt q (wordPairs nw) ∧
      f * cnt q (wordPairs w) ≤ pairFreq c q := by
  intro c
  induction c with
  | nil => intro i w nw f h; simp at h
  | cons e r ih =>
    intro i w nw f h
    obtain ⟨w0, n0⟩ := e
    cases i with
    | zero =>
      simp only [List.getElem?_cons_zero, Option.some.injEq, Prod.mk.injEq] at h
      obtain ⟨rfl, rfl⟩ := h
      rw [List.set_cons_zero, pairFreq_cons, pairFreq_cons]
      omega
    | succ i =>
      simp only [List.getElem?_cons_succ] at h
      rw [List.set_cons_succ, pairFreq_cons, pairFreq_cons]
      have := ih i w nw f h
      omega

theorem wcount_set (c : Corpus) (i j : Nat) (e : List Tok × Nat) (q : BPair) (hi : i < c.length) :
    wcount (c.set i e) j q = if i = j then cnt q (wordPairs e.1) else wcount c j q := by
  unfold wcount
  rw [List.getD_eq_getElem?_getD, List.getD_eq_getElem?_getD, List.getElem?_set]
  by_cases h : i = j
  · subst h; simp [hi]; rfl
  · simp [h]

/-! ### exact statistics -/

/-- the statistics describe the corpus exactly (map-style formulation of `statsExact`) -/
def StatsOk (c : Corpus) (st : Stats) : Prop :=
  StatsWf c.length st ∧ ∀ q, freqOf st q = pairFreq c q ∧ ∀ i, occOf st q i = wcount c i q

/-! ### `byte_pair_stats` -/

theorem bytePairStatsWord_eq (idx f : Nat) : ∀ (L : List BPair) (st : Stats),
    bytePairStatsWord st idx f L = applyIncs idx f L st := by
  intro L
  induction L with
  | nil => intro st; rfl
  | cons q qs ih => intro st; rw [bytePairStatsWord, ih]; rfl

theorem StatsOk_snoc (done : Corpus) (w : List Tok) (f : Nat) (st : Stats) (h : StatsOk done st) :
    StatsOk (done ++ [(w, f)]) (applyIncs done.length f (wordPairs w) st) := by
  obtain ⟨h1, h2, h3, h4⟩ := applyIncs_effect (done.length + 1) done.length f (by omega) (wordPairs w) st
  refine ⟨?_, ?_⟩
  · rw [List.length_append, List.length_singleton]
    exact h4 (StatsWf_mono _ _ st h.1 (by omega))
  · intro q
    refine ⟨?_, ?_⟩
    · rw [h1, (h.2 q).1, pairFreq_append, pairFreq_cons, pairFreq_nil]; omega
    · intro i
      rw [h2, (h.2 q).2]
      by_cases hi : done.length = i
      · subst hi
        simp only [if_true]
        rw [wcount_ge done _ q (Nat.le_refl _), wcount_append_right _ _ _ _ (Nat.le_refl _), Nat.sub_self, wcount_cons_zero]
        simp only []
        omega
      · simp only [hi, if_false]
        by_cases hlt : i < done.length
        · rw [wcount_append_left _ _ _ _ hlt]
        · rw [wcount_ge done i q (by omega), wcount_ge _ i q (by simp; omega)]

theorem bytePairStatsFrom_ok : ∀ (r done : Corpus) (st : Stats), StatsOk done st →
    StatsOk (done ++ r) (bytePairStatsFrom r done.length st) := by
  intro r
  induction r with
  | nil => intro done st h; rw [List.append_nil]; exact h
  | cons e r ih =>
    intro done st h
    obtain ⟨w, f⟩ := e
    rw [bytePairStatsFrom, bytePairStatsWord_eq]
    have := ih (done ++ [(w, f)]) _ (StatsOk_snoc done w f st h)
    simp only [List.length_append, List.length_singleton, List.append_assoc, List.singleton_append] at this
    exact this

theorem StatsOk_empty : StatsOk [] [] := by
  refine ⟨⟨by simp, ?_⟩, ?_⟩
  · intro q info h; simp [alGet_nil] at h
  · intro q
    refine ⟨rfl, ?_⟩
    intro i
    rfl

theorem bytePairStats_ok (c : Corpus) : StatsOk c (bytePairStats c) := by
  have := bytePairStatsFrom_ok c [] [] StatsOk_empty
  simp only [List.nil_append, List.length_nil] at this
  exact this

end Tu.BpeTrainIncL
