/-
  Helper lemmas for C19 (greedy BPE training): `replacePairInWord` only regroups bytes and only
  produces tokens of the word or the merged pair; `allPairs` / `pairFreq`; `entriesInOrder`;
  pigeonhole for the ids of a table whose `entriesInOrder` is defined; the replay invariant.
-/
import TuModel.Model.BpeTrain
import TuModel.Lemmas.BpeWf
import TuModel.Lemmas.DictL
namespace Tu.BpeTrainL
open Tu

/-! ### `replacePairInWord` -/

theorem replacePairAux_flatten (x y : List Nat) :
    ∀ (w acc : List (List Nat)), (replacePairAux x y w acc).flatten = acc.reverse.flatten ++ w.flatten := by
  intro w
  induction w with
  | nil => intro acc; simp [replacePairAux]
  | cons s rest ih =>
    intro acc
    cases acc with
    | nil => simp [replacePairAux, ih]
    | cons last acc =>
      rw [replacePairAux]
      split
      · rw [ih]; simp [List.flatten_append]
      · rw [ih]; simp [List.flatten_append]

theorem replacePairAux_mem (x y : List Nat) :
    ∀ (w acc : List (List Nat)) (tok : List Nat), tok ∈ replacePairAux x y w acc →
      tok ∈ acc ∨ tok ∈ w ∨ tok = x ++ y := by
  intro w
  induction w with
  | nil => intro acc tok h; simp [replacePairAux] at h; exact Or.inl h
  | cons s rest ih =>
    intro acc tok h
    cases acc with
    | nil =>
      rw [replacePairAux] at h
      rcases ih _ _ h with h | h | h
      · simp at h; subst h; right; left; simp
      · right; left; exact List.mem_cons_of_mem _ h
      · right; right; exact h
    | cons last acc =>
      rw [replacePairAux] at h
      split at h
      · rename_i hc
        simp only [Bool.and_eq_true, beq_iff_eq] at hc
        rcases ih _ _ h with h | h | h
        · rcases List.mem_cons.1 h with h | h
          · right; right; rw [h, hc.1, hc.2]
          · left; exact List.mem_cons_of_mem _ h
        · right; left; exact List.mem_cons_of_mem _ h
        · right; right; exact h
      · rcases ih _ _ h with h | h | h
        · rcases List.mem_cons.1 h with h | h
          · right; left; rw [h]; simp
          · left; exact h
        · right; left; exact List.mem_cons_of_mem _ h
        · right; right; exact h

theorem replacePairInWord_mem (w : List (List Nat)) (x y tok : List Nat)
    (h : tok ∈ replacePairInWord w x y) : tok ∈ w ∨ tok = x ++ y := by
  rcases replacePairAux_mem x y w [] tok h with h | h | h
  · cases h
  · exact Or.inl h
  · exact Or.inr h

/-! ### pairs -/

theorem wordPairs_mem : ∀ (w : List (List Nat)) (p : List Nat × List Nat), p ∈ wordPairs w → p.1 ∈ w ∧ p.2 ∈ w
  | [], p, h => by simp [wordPairs] at h
  | [_], p, h => by simp [wordPairs] at h
  | a :: b :: rest, p, h => by
    rw [wordPairs] at h
    rcases List.mem_cons.1 h with h | h
    · subst h; simp
    · have := wordPairs_mem (b :: rest) p h
      exact ⟨List.mem_cons_of_mem _ this.1, List.mem_cons_of_mem _ this.2⟩

theorem mem_allPairs (c : Corpus) (p : List Nat × List Nat) :
    p ∈ allPairs c ↔ ∃ w n, (w, n) ∈ c ∧ p ∈ wordPairs w := by
  unfold allPairs
  rw [List.mem_eraseDups, List.mem_flatMap]
  constructor
  · rintro ⟨⟨w, n⟩, hm, hp⟩; exact ⟨w, n, hm, hp⟩
  · rintro ⟨w, n, hm, hp⟩; exact ⟨(w, n), hm, hp⟩

theorem sum_pos_exists : ∀ (l : List Nat), 0 < l.sum → ∃ x ∈ l, 0 < x
  | [], h => by simp at h
  | a :: l, h => by
    rw [List.sum_cons] at h
    by_cases ha : 0 < a
    · exact ⟨a, by simp, ha⟩
    · obtain ⟨x, hx, hp⟩ := sum_pos_exists l (by omega)
      exact ⟨x, List.mem_cons_of_mem _ hx, hp⟩

theorem pairFreq_pos_mem (c : Corpus) (p : List Nat × List Nat) (h : 0 < pairFreq c p) : p ∈ allPairs c := by
  unfold pairFreq at h
  obtain ⟨x, hx, hp⟩ := sum_pos_exists _ h
  rw [List.mem_map] at hx
  obtain ⟨⟨w, n⟩, hm, rfl⟩ := hx
  simp only at hp
  have hlen : 0 < ((wordPairs w).filter (· == p)).length := Nat.pos_of_mul_pos_left hp
  obtain ⟨q, hq⟩ := List.exists_mem_of_length_pos hlen
  rw [List.mem_filter] at hq
  have : q = p := eq_of_beq hq.2
  rw [mem_allPairs]
  exact ⟨w, n, hm, this ▸ hq.1⟩

/-! ### `greedyReplay` -/

theorem maxPairFreq_ge (c : Corpus) : ∀ q ∈ allPairs c, pairFreq c q ≤ maxPairFreq c := by
  intro q hq
  unfold maxPairFreq
  exact (DictL.le_foldl_max _ 0).2 _ (List.mem_map_of_mem hq)

theorem greedyReplay_head (c : Corpus) (e : List Nat) (es : List (List Nat)) (c' : Corpus)
    (h : c' ∈ greedyReplay c (e :: es)) :
    ∃ p, p ∈ allPairs c ∧ p.1 ++ p.2 = e ∧ 0 < pairFreq c p ∧ (∀ q ∈ allPairs c, pairFreq c q ≤ pairFreq c p) ∧
      c' ∈ greedyReplay (applyMerge c p) es := by
  rw [greedyReplay] at h
  simp only at h
  split at h
  · cases h
  · rename_i hm
    rw [List.mem_flatMap] at h
    obtain ⟨p, hp, hc'⟩ := h
    rw [List.mem_filter] at hp
    obtain ⟨hpa, hpe⟩ := hp
    simp only [Bool.and_eq_true, beq_iff_eq] at hpe
    refine ⟨p, hpa, hpe.1, by omega, ?_, hc'⟩
    intro q hq
    rw [hpe.2]
    exact maxPairFreq_ge c q hq

/-! ### `entriesInOrder` -/

theorem mapM_some {α β : Type} (f : α → Option β) :
    ∀ (l : List α) (r : List β), l.mapM f = some r →
      r.length = l.length ∧ ∀ i (h : i < l.length), f l[i] = r[i]? := by
  intro l
  induction l with
  | nil =>
    intro r h
    simp at h
    subst h
    exact ⟨rfl, fun i hi => by simp at hi⟩
  | cons a l ih =>
    intro r h
    rw [List.mapM_cons] at h
    cases hfa : f a with
    | none => rw [hfa] at h; simp at h
    | some b =>
      cases hl : l.mapM f with
      | none => rw [hfa, hl] at h; simp at h
      | some r' =>
        rw [hfa, hl] at h
        simp at h
        subst h
        obtain ⟨h1, h2⟩ := ih r' hl
        refine ⟨by simp [h1], ?_⟩
        intro i hi
        cases i with
        | zero => simp [hfa]
        | succ i => simp; exact h2 i (by simpa using hi)

theorem entriesInOrder_spec (t : MTable) (es : List (List Nat)) (h : entriesInOrder t = some es) :
    es.length = t.length ∧ ∀ k, k < t.length → tbytes t k = es[k]? := by
  unfold entriesInOrder at h
  obtain ⟨h1, h2⟩ := mapM_some _ _ _ h
  rw [List.length_range] at h1
  refine ⟨h1, ?_⟩
  intro k hk
  have := h2 k (by rw [List.length_range]; exact hk)
  rw [List.getElem_range] at this
  exact this

theorem tbytes_mem {t : MTable} {k : Nat} {b : List Nat} (h : tbytes t k = some b) : (b, k) ∈ t := by
  unfold tbytes at h
  rw [Option.map_eq_some_iff] at h
  obtain ⟨e, he, hk⟩ := h
  have hm := List.mem_of_find?_eq_some he
  have hb : (e.2 == k) = true := List.find?_some (p := fun e : List Nat × Nat => e.2 == k) he
  have hb' : e.2 = k := eq_of_beq hb
  have : e = (b, k) := by
    cases e; simp only at hb' hk; rw [hb', hk]
  rw [← this]; exact hm

/-! ### pigeonhole on the ids -/

theorem filter_lt_mono (t : MTable) (hpos : ∀ k, k < t.length → 1 ≤ (t.filter (fun e => e.2 == k)).length) :
    ∀ d a, a + d ≤ t.length →
      (t.filter (fun e => decide (e.2 < a))).length + d ≤ (t.filter (fun e => decide (e.2 < a + d))).length := by
  intro d
  induction d with
  | zero => intro a _; simp
  | succ d ih =>
    intro a h
    have h1 := ih a (by omega)
    have h2 := filter_id_lt_succ t (a + d)
    have h3 := hpos (a + d) (by omega)
    have e : a + (d + 1) = a + d + 1 := by omega
    rw [e]
    omega

/-- if every id below the length occurs at least once, each occurs exactly once -/
theorem ids_exactly_once (t : MTable) (hpos : ∀ k, k < t.length → 1 ≤ (t.filter (fun e => e.2 == k)).length) :
    ∀ k, k < t.length → (t.filter (fun e => e.2 == k)).length = 1 := by
  intro k hk
  have h0 := filter_lt_mono t hpos k 0 (by omega)
  have h1 := filter_lt_mono t hpos (t.length - (k + 1)) (k + 1) (by omega)
  have h2 := filter_id_lt_succ t k
  have h3 := List.length_filter_le (fun e : List Nat × Nat => decide (e.2 < k + 1 + (t.length - (k + 1)))) t
  have h4 := hpos k hk
  have h5 : (t.filter (fun e => decide (e.2 < 0))).length = 0 := by
    rw [List.length_eq_zero_iff, List.filter_eq_nil_iff]; intro a _; simp
  rw [Nat.zero_add] at h0
  omega

/-! ### structure of a table whose `entriesInOrder` is defined -/

theorem table_ids_once (t : MTable) (es : List (List Nat)) (h : entriesInOrder t = some es) :
    ∀ k, k < t.length → (t.filter (fun e => e.2 == k)).length = 1 := by
  obtain ⟨hlen, hb⟩ := entriesInOrder_spec t es h
  apply ids_exactly_once
  intro k hk
  have h1 := hb k hk
  rw [List.getElem?_eq_getElem (by omega)] at h1
  have hm := tbytes_mem h1
  have : (es[k]'(by omega), k) ∈ t.filter (fun e => e.2 == k) := List.mem_filter.mpr ⟨hm, by simp⟩
  exact List.length_pos_of_mem this

theorem table_id_lt (t : MTable) (es : List (List Nat)) (h : entriesInOrder t = some es) :
    ∀ e ∈ t, e.2 < t.length := by
  have h1 := filter_id_lt_length t t.length (table_ids_once t es h)
  have h2 := List.length_filter_eq_length_iff.mp h1
  intro e he
  exact of_decide_eq_true (h2 e he)

theorem table_ids_unique (t : MTable) (es : List (List Nat)) (h : entriesInOrder t = some es) :
    ∀ e1 ∈ t, ∀ e2 ∈ t, e1.2 = e2.2 → e1 = e2 := by
  intro e1 h1 e2 h2 heq
  have hlt := table_id_lt t es h e1 h1
  have hlen := table_ids_once t es h e1.2 hlt
  obtain ⟨x, hx⟩ := List.length_eq_one_iff.mp hlen
  have m1 : e1 ∈ t.filter (fun e => e.2 == e1.2) := List.mem_filter.mpr ⟨h1, by simp⟩
  have m2 : e2 ∈ t.filter (fun e => e.2 == e1.2) := List.mem_filter.mpr ⟨h2, by simp [heq]⟩
  rw [hx] at m1 m2
  rw [List.mem_singleton] at m1 m2
  rw [m1, m2]

/-- every entry of the table is `(es[k], k)` -/
theorem table_entry (t : MTable) (es : List (List Nat)) (h : entriesInOrder t = some es) :
    ∀ e ∈ t, es[e.2]? = some e.1 := by
  obtain ⟨hlen, hb⟩ := entriesInOrder_spec t es h
  intro e he
  have hlt := table_id_lt t es h e he
  have h1 := hb e.2 hlt
  rw [List.getElem?_eq_getElem (by omega)] at h1
  have hm := tbytes_mem h1
  have := table_ids_unique t es h _ hm e he rfl
  rw [List.getElem?_eq_getElem (by omega)]
  exact congrArg (fun x => some x.1) this

theorem nodup_getElem?_inj {α : Type} {l : List α} (hnd : l.Nodup) {i j : Nat} {a : α}
    (hi : l[i]? = some a) (hj : l[j]? = some a) : i = j := by
  obtain ⟨hi1, hi2⟩ := List.getElem?_eq_some_iff.mp hi
  obtain ⟨hj1, hj2⟩ := List.getElem?_eq_some_iff.mp hj
  exact (List.getElem_inj hnd).mp (hi2.trans hj2.symm)

/-- `tlookup` of the `j`-th entry is `j` -/
theorem table_tlookup (t : MTable) (es : List (List Nat)) (h : entriesInOrder t = some es) (hnd : es.Nodup)
    (j : Nat) (b : List Nat) (hj : es[j]? = some b) : tlookup t b = some j := by
  obtain ⟨hlen, hb⟩ := entriesInOrder_spec t es h
  obtain ⟨hj1, hj2⟩ := List.getElem?_eq_some_iff.mp hj
  have h1 := hb j (by omega)
  rw [hj] at h1
  have hm := tbytes_mem h1
  unfold tlookup
  cases hf : t.find? (fun e => e.1 == b) with
  | none =>
    have := List.find?_eq_none.mp hf (b, j) hm
    simp at this
  | some e' =>
    have hm' := List.mem_of_find?_eq_some hf
    have hk' : (e'.1 == b) = true := List.find?_some (p := fun e : List Nat × Nat => e.1 == b) hf
    have hk : e'.1 = b := eq_of_beq hk'
    have he' := table_entry t es h e' hm'
    rw [hk] at he'
    have := nodup_getElem?_inj hnd he' hj
    simp [this]

/-! ### the replay invariant -/

/-- a token that existed before: a single byte or one of the entries `prev` -/
def Good (prev : List (List Nat)) (tok : List Nat) : Prop := (∃ b, b < 256 ∧ tok = [b]) ∨ tok ∈ prev

/-- non-empty and made of bytes -/
def AllB (tok : List Nat) : Prop := tok ≠ [] ∧ ∀ b ∈ tok, b < 256

theorem Good.mono {prev prev' : List (List Nat)} {tok : List Nat} (h : Good prev tok)
    (hs : ∀ x ∈ prev, x ∈ prev') : Good prev' tok := by
  rcases h with h | h
  · exact Or.inl h
  · exact Or.inr (hs _ h)

theorem AllB.append {x y : List Nat} (hx : AllB x) (hy : AllB y) : AllB (x ++ y) := by
  refine ⟨by simp [hx.1], ?_⟩
  intro b hb
  rcases List.mem_append.1 hb with hb | hb
  · exact hx.2 b hb
  · exact hy.2 b hb

def CorpusInv (prev : List (List Nat)) (c : Corpus) : Prop :=
  ∀ w n, (w, n) ∈ c → ∀ tok ∈ w, Good prev tok ∧ AllB tok

theorem replay_inv : ∀ (es : List (List Nat)) (c : Corpus) (prev : List (List Nat)) (c' : Corpus),
    CorpusInv prev c → c' ∈ greedyReplay c es →
    ∀ i (hi : i < es.length), ∃ l r, l ++ r = es[i] ∧
      Good (prev ++ es.take i) l ∧ Good (prev ++ es.take i) r ∧ AllB l ∧ AllB r := by
  intro es
  induction es with
  | nil => intro c prev c' _ _ i hi; simp at hi
  | cons e es ih =>
    intro c prev c' hinv hc' i hi
    obtain ⟨p, hpa, hpe, _, _, hrest⟩ := greedyReplay_head c e es c' hc'
    obtain ⟨w, n, hwn, hpw⟩ := (mem_allPairs c p).mp hpa
    obtain ⟨hp1, hp2⟩ := wordPairs_mem w p hpw
    obtain ⟨g1, a1⟩ := hinv w n hwn _ hp1
    obtain ⟨g2, a2⟩ := hinv w n hwn _ hp2
    cases i with
    | zero =>
      refine ⟨p.1, p.2, by simpa using hpe, ?_, ?_, a1, a2⟩
      · simpa using g1
      · simpa using g2
    | succ i =>
      have hinv' : CorpusInv (prev ++ [e]) (applyMerge c p) := by
        intro w' n' hw' tok htok
        unfold applyMerge at hw'
        rw [List.mem_map] at hw'
        obtain ⟨⟨w0, n0⟩, hm0, heq⟩ := hw'
        simp only [Prod.mk.injEq] at heq
        obtain ⟨rfl, rfl⟩ := heq
        rcases replacePairInWord_mem w0 p.1 p.2 tok htok with h | h
        · obtain ⟨g, a⟩ := hinv w0 n0 hm0 tok h
          exact ⟨g.mono (fun x hx => List.mem_append_left _ hx), a⟩
        · rw [h]
          refine ⟨Or.inr ?_, a1.append a2⟩
          rw [hpe]; simp
      obtain ⟨l, r, hlr, gl, gr, al, ar⟩ := ih (applyMerge c p) (prev ++ [e]) c' hinv' hrest i (by simpa using hi)
      refine ⟨l, r, by simpa using hlr, ?_, ?_, al, ar⟩
      · simpa [List.append_assoc] using gl
      · simpa [List.append_assoc] using gr

theorem initCorpus_inv (words : List (List Nat × Nat)) (hb : ∀ w ∈ words, ∀ b ∈ w.1, b < 256) :
    CorpusInv [] (initCorpus words) := by
  intro w n hw tok htok
  unfold initCorpus at hw
  rw [List.mem_map] at hw
  obtain ⟨⟨w0, n0⟩, hm0, heq⟩ := hw
  simp only [Prod.mk.injEq] at heq
  obtain ⟨rfl, rfl⟩ := heq
  rw [List.mem_map] at htok
  obtain ⟨b, hbm, rfl⟩ := htok
  have := hb _ hm0 b hbm
  exact ⟨Or.inl ⟨b, this, rfl⟩, by simp, by simpa using this⟩

theorem mem_splitsOf (l r : List Nat) (hl : l ≠ []) (hr : r ≠ []) : (l, r) ∈ splitsOf (l ++ r) := by
  unfold splitsOf
  rw [List.mem_map]
  have h1 : 0 < l.length := List.length_pos_iff.mpr hl
  have h2 : 0 < r.length := List.length_pos_iff.mpr hr
  refine ⟨l.length - 1, ?_, ?_⟩
  · rw [List.mem_range, List.length_append]; omega
  · have : l.length - 1 + 1 = l.length := by omega
    rw [this]
    simp

end Tu.BpeTrainL
