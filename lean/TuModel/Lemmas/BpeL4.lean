/-
  BPE: the heap-driven loop simulates the specification loop; initial state; final read-out.
-/
import TuModel.Lemmas.BpeL3
namespace Tu

/-! ### positions in the live list -/

theorem Split.live_getD {l A M B : List (List Nat)} {x y : List Nat} (h : Split l A M B x y) :
    (live l).getD (live A).length [] = x ∧ (live l).getD ((live A).length + 1) [] = y ∧
      (live A).length + 1 < (live l).length := by
  rw [h.live_eq]
  refine ⟨?_, ?_, by simp⟩
  · have := getD_append_right' (live A) (x :: y :: live B) 0 []
    rw [Nat.add_zero] at this; rw [this]; rfl
  · rw [getD_append_right']; rfl

theorem Split.take_eq {l A M B : List (List Nat)} {x y : List Nat} (h : Split l A M B x y) :
    l.take A.length = A := by
  rw [h.1]; exact List.take_left' rfl

theorem live_take_mono (l : List (List Nat)) (i i' : Nat) (h : i ≤ i') :
    (live (l.take i)).length ≤ (live (l.take i')).length := by
  have : l.take i = (l.take i').take i := by
    rw [List.take_take]; congr 1; omega
  rw [this]
  exact ((List.take_sublist i (l.take i')).filter _).length_le

/-! ### the popped valid entry is the specification's choice -/

theorem pop_valid_best {t : MTable} (hwf : wfTable t = true) {st : MState} {e : HEntry} (hinv : Inv t st)
    (he : e ∈ st.heap)
    (hmin : ∀ x ∈ st.heap, e.mid < x.mid ∨ (e.mid = x.mid ∧ e.fst ≤ x.fst))
    (h1 : st.ids.getD e.fst none = e.fid) (h2 : st.ids.getD e.snd none = e.sid) :
    ∃ k, bestPair t (live st.bytes) 0 = some (e.mid, k) ∧ k + 1 < (live st.bytes).length ∧
      live (mergedBytes st.bytes e) = mergeAt (live st.bytes) k := by
  obtain ⟨hadj, hm, hlk⟩ := valid_entry hwf hinv.cell (hinv.entry e he) h1 h2
  obtain ⟨A, M, B, hs, hA, hM⟩ := split_of_adj _ _ _ hadj
  obtain ⟨g1, g2, g3⟩ := hs.live_getD
  refine ⟨(live A).length, ?_, g3, ?_⟩
  · have := bestPair_eq t (live st.bytes) 0 (live A).length e.mid g3 (by rw [g1, g2, ← hm]; exact hlk) ?_
    · rw [Nat.zero_add] at this; exact this
    · intro k' m' hk' hl'
      obtain ⟨A', M', B', x', y', hs', hk⟩ := split_of_pos _ _ hk'
      obtain ⟨g1', g2', _⟩ := hs'.live_getD
      rw [hk] at g1' g2'
      rw [g1', g2'] at hl'
      have hadj' := hs'.adj
      have hx' := hs'.getD_x
      have hy' := hs'.getD_y
      obtain ⟨e', he', f1, f2, f3, f4⟩ := hinv.complete _ _ m' hadj' (by rw [hx', hy']; exact hl')
      obtain ⟨_, hm', hlk'⟩ := valid_entry hwf hinv.cell (hinv.entry e' he') (by rw [f1, f3]) (by rw [f2, f4])
      rw [f1, f2, hx', hy'] at hm'
      rw [hm', hl'] at hlk'
      simp only [Option.some.injEq] at hlk'
      rcases hmin e' he' with c | ⟨c1, c2⟩
      · left; omega
      · right
        refine ⟨by omega, ?_⟩
        rw [← hk]
        have := live_take_mono st.bytes A.length A'.length (by omega)
        rw [hs.take_eq, hs'.take_eq] at this
        exact this
  · have := hs.live_set
    rw [hM, hA, ← hm] at this
    exact this

/-- an empty heap: the token list is terminal -/
theorem heap_empty_terminal {t : MTable} {st : MState} (hinv : Inv t st)
    (hh : st.heap = []) : bestPair t (live st.bytes) 0 = none := by
  apply bestPair_of_none
  intro k hk
  obtain ⟨A, M, B, x, y, hs, hk'⟩ := split_of_pos _ _ hk
  obtain ⟨g1, g2, _⟩ := hs.live_getD
  rw [hk'] at g1 g2
  rw [g1, g2]
  cases hl : tlookup t (x ++ y) with
  | none => rfl
  | some m =>
    obtain ⟨e, he, _⟩ := hinv.complete _ _ m hs.adj (by rw [hs.getD_x, hs.getD_y]; exact hl)
    rw [hh] at he
    simp at he

/-! ### the loop -/

/-- result of the loop: the fuel suffices, the cells keep their ids, the tokens are the
specification's -/
theorem mergeLoop_spec {t : MTable} (hwf : wfTable t = true) : ∀ (fuel : Nat) (st : MState), Inv t st →
    st.heap.length + 2 * (live st.bytes).length ≤ fuel →
    ∃ st', mergeLoop t fuel st = some st' ∧ st'.ids.length = st'.bytes.length ∧ CellOK t st'.bytes st'.ids ∧
      ∀ F, (live st.bytes).length ≤ F + 1 → live st'.bytes = specLoop t F (live st.bytes)
  | 0, st, hinv, hf => by
    have hh : st.heap = [] := List.eq_nil_of_length_eq_zero (by omega)
    refine ⟨st, by simp [mergeLoop, hh], hinv.len, hinv.cell, fun F _ => ?_⟩
    rw [specLoop_of_none t F _ (heap_empty_terminal hinv hh)]
  | fuel + 1, st, hinv, hf => by
    rw [mergeLoop]
    cases hp : heapPop st.heap with
    | none =>
      have hh := heapPop_none _ hp
      refine ⟨st, rfl, hinv.len, hinv.cell, fun F _ => ?_⟩
      rw [specLoop_of_none t F _ (heap_empty_terminal hinv hh)]
    | some r =>
      obtain ⟨e, h⟩ := r
      obtain ⟨he, rfl, hmin⟩ := heapPop_some _ _ _ hp
      have hel : (st.heap.erase e).length = st.heap.length - 1 := List.length_erase_of_mem he
      have hpos : 0 < st.heap.length := List.length_pos_of_mem he
      simp only
      by_cases hv : st.ids.getD e.fst none = e.fid ∧ st.ids.getD e.snd none = e.sid
      · -- a valid entry: one merge of the specification
        obtain ⟨h1, h2⟩ := hv
        have hstep := mergeStep_valid t { st with heap := st.heap.erase e } e h1 h2
        rw [hstep]
        have hinv' := Inv_merge hwf hinv he h1 h2
        obtain ⟨k, hb, hk, hlive⟩ := pop_valid_best hwf hinv he hmin h1 h2
        have hlen := mergeAt_length _ _ hk
        have l1 := pushPrev_length t (mergedBytes st.bytes e) (mergedIds st.ids e) e
        have l2 := pushNext_length t (mergedBytes st.bytes e) (mergedIds st.ids e) e
        obtain ⟨st', r1, r2, r3, r4⟩ := mergeLoop_spec hwf fuel _ hinv' (by
          simp only [List.length_append]
          rw [hlive]
          omega)
        refine ⟨st', r1, r2, r3, fun F hF => ?_⟩
        cases F with
        | zero => omega
        | succ F =>
          rw [specLoop_of_some t F _ _ _ hb, ← hlive]
          exact r4 F (by rw [hlive]; omega)
      · -- a stale entry is dropped
        rw [mergeStep_stale t { st with heap := st.heap.erase e } e hv]
        have hinv' := Inv_stale hinv hv
        obtain ⟨st', r1, r2, r3, r4⟩ := mergeLoop_spec hwf fuel _ hinv' (by
          show (st.heap.erase e).length + 2 * (live st.bytes).length ≤ fuel
          omega)
        exact ⟨st', r1, r2, r3, r4⟩

/-! ### the initial state -/

theorem getD_map_single (w : List Nat) (k : Nat) :
    (w.map (fun b => [b])).getD k [] = if k < w.length then [w.getD k 0] else [] := by
  by_cases h : k < w.length
  · simp [List.getD_eq_getElem?_getD, h]
  · simp [List.getD_eq_getElem?_getD, h]

theorem getD_map_some (w : List Nat) (k : Nat) :
    (w.map some).getD k none = if k < w.length then some (w.getD k 0) else none := by
  by_cases h : k < w.length
  · simp [List.getD_eq_getElem?_getD, h]
  · simp [List.getD_eq_getElem?_getD, h]

theorem live_map_single (w : List Nat) : live (w.map (fun b => [b])) = w.map (fun b => [b]) := by
  induction w with
  | nil => rfl
  | cons b w ih => rw [List.map_cons, live_cons_ne _ _ (by simp), ih]

theorem getD_mem_lt (w : List Nat) (hw : ∀ b ∈ w, b < 256) (k : Nat) (hk : k < w.length) : w.getD k 0 < 256 := by
  apply hw
  rw [List.getD_eq_getElem?_getD, List.getElem?_eq_getElem hk]
  simp

theorem mem_initHeap {t : MTable} {w : List Nat} {e : HEntry} (h : e ∈ initHeap t w) :
    ∃ i id, i + 1 < w.length ∧ tlookup t [w.getD i 0, w.getD (i + 1) 0] = some id ∧
      e = { mid := id, fst := i, snd := i + 1, fid := some (w.getD i 0), sid := some (w.getD (i + 1) 0),
            merged := [w.getD i 0, w.getD (i + 1) 0] } := by
  unfold initHeap at h
  rw [List.mem_filterMap] at h
  obtain ⟨i, hi, hf⟩ := h
  rw [List.mem_range] at hi
  simp only [Option.map_eq_some_iff] at hf
  obtain ⟨id, h1, h2⟩ := hf
  exact ⟨i, id, by omega, h1, h2.symm⟩

theorem initHeap_mem {t : MTable} {w : List Nat} {i id : Nat} (hi : i + 1 < w.length)
    (hl : tlookup t [w.getD i 0, w.getD (i + 1) 0] = some id) :
    ({ mid := id, fst := i, snd := i + 1, fid := some (w.getD i 0), sid := some (w.getD (i + 1) 0),
       merged := [w.getD i 0, w.getD (i + 1) 0] } : HEntry) ∈ initHeap t w := by
  unfold initHeap
  rw [List.mem_filterMap]
  refine ⟨i, by rw [List.mem_range]; omega, ?_⟩
  simp only [hl, Option.map_some]

theorem initHeap_length (t : MTable) (w : List Nat) : (initHeap t w).length ≤ w.length - 1 := by
  unfold initHeap
  have := List.length_filterMap_le (fun i =>
    (tlookup t [w.getD i 0, w.getD (i + 1) 0]).map (fun id =>
      ({ mid := id, fst := i, snd := i + 1, fid := some (w.getD i 0), sid := some (w.getD (i + 1) 0),
         merged := [w.getD i 0, w.getD (i + 1) 0] } : HEntry))) (List.range (w.length - 1))
  rw [List.length_range] at this
  exact this

theorem Inv_init (t : MTable) (w : List Nat) (hw : ∀ b ∈ w, b < 256) :
    Inv t { bytes := w.map (fun b => [b]), ids := w.map some, heap := initHeap t w } := by
  have hcell : CellOK t (w.map (fun b => [b])) (w.map some) := by
    intro k
    rw [getD_map_single, getD_map_some]
    by_cases h : k < w.length
    · right
      rw [if_pos h, if_pos h]
      exact ⟨_, rfl, Or.inl ⟨getD_mem_lt w hw k h, rfl⟩⟩
    · left
      rw [if_neg h, if_neg h]
      exact ⟨rfl, rfl⟩
  refine ⟨by simp, hcell, ?_, ?_⟩
  · intro e he
    obtain ⟨i, id, hi, hl, rfl⟩ := mem_initHeap he
    refine ⟨by show i < i + 1; omega, by show i + 1 < (w.map (fun b => [b])).length; simp; omega,
      fun k k1 k2 => by simp only at k1 k2; omega, w.getD i 0, w.getD (i + 1) 0, [w.getD i 0], [w.getD (i + 1) 0],
      rfl, rfl, Or.inl ⟨getD_mem_lt w hw i (by omega), rfl⟩, Or.inl ⟨getD_mem_lt w hw _ hi, rfl⟩, rfl, hl⟩
  · intro i j m hadj hl
    obtain ⟨hij, hi, hj, hmid⟩ := hadj
    have hjl : j < w.length := by
      have := lt_length_of_getD_ne _ _ _ hj
      simpa using this
    have hji : j = i + 1 := by
      by_cases c : i + 1 < j
      · have := hmid (i + 1) (by omega) c
        rw [getD_map_single, if_pos (by omega)] at this
        simp at this
      · omega
    subst hji
    rw [getD_map_single, getD_map_single, if_pos (by omega), if_pos hjl] at hl
    refine ⟨_, initHeap_mem hjl hl, rfl, rfl, ?_, ?_⟩
    · show some (w.getD i 0) = (w.map some).getD i none
      rw [getD_map_some, if_pos (by omega)]
    · show some (w.getD (i + 1) 0) = (w.map some).getD (i + 1) none
      rw [getD_map_some, if_pos hjl]

/-! ### the final read-out -/

theorem mapM_cons_some {α β : Type} (f : α → Option β) (a : α) (l : List α) (b : β) (bs : List β)
    (h1 : f a = some b) (h2 : l.mapM f = some bs) : (a :: l).mapM f = some (b :: bs) := by
  rw [List.mapM_cons, h1, h2]; rfl

theorem readout {t : MTable} : ∀ (bytes : List (List Nat)) (ids : List (Option Nat)),
    ids.length = bytes.length → CellOK t bytes ids →
    (live bytes).mapM (tokId t) = some (ids.filterMap id)
  | [], [], _, _ => by simp [live]
  | [], _ :: _, h, _ => by simp at h
  | _ :: _, [], h, _ => by simp at h
  | b :: bytes, i :: ids, hlen, hc => by
    have hc' : CellOK t bytes ids := by
      intro k
      have := hc (k + 1)
      rw [List.getD_cons_succ, List.getD_cons_succ] at this
      exact this
    have ih := readout bytes ids (by simpa using hlen) hc'
    have h0 := hc 0
    rw [List.getD_cons_zero, List.getD_cons_zero] at h0
    rcases h0 with ⟨hb, hi⟩ | ⟨a, hi, hb⟩
    · subst hb; subst hi
      rw [live_cons_nil, List.filterMap_cons]
      exact ih
    · subst hi
      rw [live_cons_ne _ _ hb.ne_nil, List.filterMap_cons]
      exact mapM_cons_some _ _ _ _ _ hb.tokId_eq ih

/-! ### the theorems -/

theorem mergeWordImpl_eq_spec' (t : MTable) (w : List Nat) (hwf : wfTable t = true) (hw : ∀ b ∈ w, b < 256) :
    mergeWordImpl t w = mergeWordSpec t w ∧ (mergeWordImpl t w).isSome = true := by
  obtain ⟨st', r1, r2, r3, r4⟩ := mergeLoop_spec hwf (3 * w.length + 3) _ (Inv_init t w hw) (by
    have := initHeap_length t w
    show (initHeap t w).length + 2 * (live (w.map (fun b => [b]))).length ≤ 3 * w.length + 3
    rw [live_map_single, List.length_map]
    omega)
  have h4 := r4 w.length (by
    show (live (w.map (fun b => [b]))).length ≤ w.length + 1
    rw [live_map_single, List.length_map]; omega)
  have himpl : mergeWordImpl t w = some (st'.ids.filterMap id) := by
    unfold mergeWordImpl
    simp only
    rw [r1]; rfl
  have hspec : mergeWordSpec t w = some (st'.ids.filterMap id) := by
    unfold mergeWordSpec
    have h5 : live (w.map (fun b => [b])) = w.map (fun b => [b]) := live_map_single w
    rw [show specLoop t w.length (w.map (fun b => [b])) = live st'.bytes by
      rw [h4]; show _ = specLoop t w.length (live (w.map (fun b => [b]))); rw [h5]]
    exact readout _ _ r2 r3
  rw [himpl, hspec]
  exact ⟨rfl, rfl⟩

end Tu
