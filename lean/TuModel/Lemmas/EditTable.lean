import TuModel.Lemmas.EditL
namespace Tu

/-! ## filling a table cell by cell -/

theorem fold_push_inv {β : Type} (f : Array β → Nat → β) (P : Nat → β → Prop)
    (hstep : ∀ (tbl : Array β) (k : Nat), tbl.size = k →
      (∀ idx (h : idx < tbl.size), P idx tbl[idx]) → P k (f tbl k)) :
    ∀ n, ((List.range n).foldl (fun t k => t.push (f t k)) #[]).size = n ∧
      ∀ idx (h : idx < ((List.range n).foldl (fun t k => t.push (f t k)) #[]).size),
        P idx ((List.range n).foldl (fun t k => t.push (f t k)) #[])[idx] := by
  intro n
  induction n with
  | zero => simp
  | succ n ih =>
    obtain ⟨hs, hp⟩ := ih
    rw [List.range_succ, List.foldl_append]
    simp only [List.foldl_cons, List.foldl_nil]
    refine ⟨by simp [hs], ?_⟩
    intro idx h
    by_cases hlt : idx < ((List.range n).foldl (fun t k => t.push (f t k)) #[]).size
    · rw [Array.getElem_push_lt hlt]; exact hp idx hlt
    · have he : idx = ((List.range n).foldl (fun t k => t.push (f t k)) #[]).size := by
        simp at h; omega
      subst he
      rw [Array.getElem_push_eq]
      rw [hs]
      exact hstep _ n hs hp

/-! ## reversed prefixes -/

theorem take_succ_reverse {α} (l : List α) (i : Nat) (h : i < l.length) :
    (l.take (i + 1)).reverse = l[i] :: (l.take i).reverse := by
  rw [List.take_succ, List.getElem?_eq_getElem h]; simp

theorem take_reverse_head? {α} (l : List α) (i : Nat) (h : i ≤ l.length) :
    (l.take i).reverse.head? = if i = 0 then none else l[i - 1]? := by
  cases i with
  | zero => simp
  | succ i => rw [take_succ_reverse l i (by omega)]; simp [List.getElem?_eq_getElem (show i < l.length by omega)]

theorem take_reverse_tail {α} (l : List α) (i : Nat) (h : i ≤ l.length) :
    (l.take i).reverse.tail = (l.take (i - 1)).reverse := by
  cases i with
  | zero => simp
  | succ i => rw [take_succ_reverse l i (by omega)]; simp

/-! ## the table is the recurrence -/

/-- value of the reference recurrence for the prefixes of length `i` and `j` -/
def refCell (fl : EFlags) (a b : List (List Nat)) (i j : Nat) : Nat :=
  osaR fl (a.take i).reverse (b.take j).reverse

theorem candidates_swap_irrel {fl x y x' y' dU dL dD} (dS dS' : Nat) (h : x' = none ∨ y' = none) :
    candidates fl x y x' y' dU dL dD dS = candidates fl x y x' y' dU dL dD dS' := by
  unfold candidates candSwap
  rcases h with rfl | rfl
  · rfl
  · cases x' <;> rfl

theorem stepCell_ref (fl : EFlags) (a b : List (List Nat)) (get : Nat → Nat → Nat × EOp) (i j : Nat)
    (hi : i ≤ a.length) (hj : j ≤ b.length)
    (hget : ∀ i' j', (i' < i ∨ (i' = i ∧ j' < j)) → j' ≤ b.length → (get i' j').1 = refCell fl a b i' j') :
    (stepCell fl a b get i j).1 = refCell fl a b i j := by
  unfold refCell
  cases i with
  | zero =>
    cases j with
    | zero => simp [stepCell, osaR_nil_left]
    | succ j => simp [stepCell, osaR_nil_left]; omega
  | succ i =>
    cases j with
    | zero => simp [stepCell, osaR_nil_right]; omega
    | succ j =>
      have hi' : i < a.length := by omega
      have hj' : j < b.length := by omega
      rw [take_succ_reverse a i hi', take_succ_reverse b j hj', osaR_cons]
      simp only [stepCell]
      rw [take_reverse_head? a i (by omega), take_reverse_head? b j (by omega),
        take_reverse_tail a i (by omega), take_reverse_tail b j (by omega)]
      have e1 : (get i (j + 1)).1 = osaR fl (a.take i).reverse (b[j] :: (b.take j).reverse) := by
        rw [hget i (j + 1) (Or.inl (by omega)) (by omega)]; unfold refCell; rw [take_succ_reverse b j hj']
      have e2 : (get (i + 1) j).1 = osaR fl (a[i] :: (a.take i).reverse) (b.take j).reverse := by
        rw [hget (i + 1) j (Or.inr ⟨rfl, by omega⟩) (by omega)]; unfold refCell; rw [take_succ_reverse a i hi']
      have e3 : (get i j).1 = osaR fl (a.take i).reverse (b.take j).reverse := by
        rw [hget i j (Or.inl (by omega)) (by omega)]; rfl
      have e4 : (get (i - 1) (j - 1)).1 = osaR fl (a.take (i - 1)).reverse (b.take (j - 1)).reverse := by
        rw [hget (i - 1) (j - 1) (Or.inl (by omega)) (by omega)]; rfl
      rw [e1, e2, e3, e4]
      simp [List.getD_eq_getElem?_getD, List.getElem?_eq_getElem hi', List.getElem?_eq_getElem hj']

theorem tblGet_eq (tbl : Array (Nat × EOp)) (cols i j : Nat) (h : i * cols + j < tbl.size) :
    tblGet tbl cols i j = tbl[i * cols + j] := by
  unfold tblGet
  rw [Array.getD_eq_getD_getElem?, Array.getElem?_eq_getElem h]
  rfl

theorem fillTable_spec (fl : EFlags) (a b : List (List Nat)) :
    (fillTable fl a b).size = (a.length + 1) * (b.length + 1) ∧
    ∀ i j, i ≤ a.length → j ≤ b.length →
      (tblGet (fillTable fl a b) (b.length + 1) i j).1 = refCell fl a b i j := by
  have hcols : 0 < b.length + 1 := by omega
  have key := fold_push_inv
    (fun tbl k => stepCell fl a b (tblGet tbl (b.length + 1)) (k / (b.length + 1)) (k % (b.length + 1)))
    (fun idx v => idx / (b.length + 1) ≤ a.length → v.1 = refCell fl a b (idx / (b.length + 1)) (idx % (b.length + 1)))
    (by
      intro tbl k hsz hP hk
      apply stepCell_ref fl a b _ _ _ hk (by have := Nat.mod_lt k hcols; omega)
      intro i' j' hlt hj'
      have hidx : i' * (b.length + 1) + j' < tbl.size := by
        rw [hsz]
        have hk' : k = (k / (b.length + 1)) * (b.length + 1) + k % (b.length + 1) := by
          rw [Nat.mul_comm]; exact (Nat.div_add_mod k (b.length + 1)).symm
        rcases hlt with h | ⟨h1, h2⟩
        · have : (i' + 1) * (b.length + 1) ≤ (k / (b.length + 1)) * (b.length + 1) := Nat.mul_le_mul_right _ h
          rw [Nat.add_mul] at this
          omega
        · rw [h1]; omega
      have hdiv : (i' * (b.length + 1) + j') / (b.length + 1) = i' := by
        rw [Nat.mul_comm, Nat.mul_add_div hcols, Nat.div_eq_of_lt (by omega)]; simp
      have hmod : (i' * (b.length + 1) + j') % (b.length + 1) = j' := by
        rw [Nat.mul_comm, Nat.mul_add_mod, Nat.mod_eq_of_lt (by omega)]
      have := hP _ hidx
      rw [hdiv, hmod] at this
      rw [tblGet_eq _ _ _ _ hidx]
      apply this
      rcases hlt with h | ⟨h1, _⟩ <;> omega)
    ((a.length + 1) * (b.length + 1))
  have hft : fillTable fl a b = (List.range ((a.length + 1) * (b.length + 1))).foldl
      (fun t k => t.push (stepCell fl a b (tblGet t (b.length + 1)) (k / (b.length + 1)) (k % (b.length + 1)))) #[] := rfl
  rw [hft]
  refine ⟨key.1, ?_⟩
  intro i j hi hj
  have hidx : i * (b.length + 1) + j < (a.length + 1) * (b.length + 1) := by
    have : (i + 1) * (b.length + 1) ≤ (a.length + 1) * (b.length + 1) := Nat.mul_le_mul_right _ (by omega)
    rw [Nat.add_mul] at this
    omega
  have hdiv : (i * (b.length + 1) + j) / (b.length + 1) = i := by
    rw [Nat.mul_comm, Nat.mul_add_div hcols, Nat.div_eq_of_lt (by omega)]; simp
  have hmod : (i * (b.length + 1) + j) % (b.length + 1) = j := by
    rw [Nat.mul_comm, Nat.mul_add_mod, Nat.mod_eq_of_lt (by omega)]
  have := key.2 (i * (b.length + 1) + j) (by rw [key.1]; exact hidx)
  rw [hdiv, hmod] at this
  rw [tblGet_eq _ _ _ _ (by rw [key.1]; exact hidx)]
  exact this hi

end Tu
