/-
  Lemmas for the incremental BPE trainer model, part 9: the merged tokens of a greedy run are pairwise distinct
  (so the written table has no duplicate entries), via the segmentation function of the merges made so far.
-/
import TuModel.Lemmas.BpeTrainIncL8
namespace Tu.BpeTrainIncL
open Tu

/-- segmentation of a byte string by the merges `ps`, applied in order -/
def segOf (ps : List BPair) (bytes : List Nat) : List Tok :=
  ps.foldl (fun w p => replacePairInWord w p.1 p.2) (bytes.map (fun b => [b]))

theorem segOf_snoc (ps : List BPair) (p : BPair) (bytes : List Nat) :
    segOf (ps ++ [p]) bytes = replacePairInWord (segOf ps bytes) p.1 p.2 := by
  unfold segOf
  rw [List.foldl_append]
  rfl

theorem segOf_append (ps qs : List BPair) (bytes : List Nat) :
    segOf (ps ++ qs) bytes = qs.foldl (fun w p => replacePairInWord w p.1 p.2) (segOf ps bytes) := by
  unfold segOf
  rw [List.foldl_append]

/-- every run of consecutive tokens of the corpus is the segmentation of its bytes by the merges made so far -/
def SegInv (ps : List BPair) (c : Corpus) : Prop := ∀ e ∈ c, ∀ R : List Tok, R <:+: e.1 → segOf ps R.flatten = R

theorem SegInv_init (words : List (List Nat × Nat)) : SegInv [] (initCorpus words) := by
  intro e he R hR
  have hsing : ∀ t ∈ R, ∃ b, t = [b] := by
    intro t ht
    have ht' := List.IsInfix.subset hR ht
    unfold initCorpus at he
    obtain ⟨⟨w, n⟩, _, rfl⟩ := List.mem_map.mp he
    simp only at ht'
    obtain ⟨b, _, rfl⟩ := List.mem_map.mp ht'
    exact ⟨b, rfl⟩
  exact (singletons_eq R hsing).symm

theorem SegInv_step (ps : List BPair) (c : Corpus) (p : BPair) (h : SegInv ps c) (hy : p.2 ≠ []) :
    SegInv (ps ++ [p]) (applyMerge c p) := by
  intro e he R hR
  obtain ⟨w, n, hw, rfl⟩ := mem_applyMerge c p e he
  simp only [replacePairInWord_eq_rep _ p.1 p.2 hy] at hR
  obtain ⟨R', g1, g2⟩ := rep_infix p.1 p.2 w R hR
  rw [segOf_snoc, ← g2, rep_flatten, h (w, n) hw R' g1, replacePairInWord_eq_rep _ p.1 p.2 hy]

theorem pair_nonempty (c : Corpus) (p : BPair) (hne : ∀ e ∈ c, ∀ t ∈ e.1, t ≠ []) (hp : 0 < pairFreq c p) : p.1 ≠ [] ∧ p.2 ≠ [] := by
  obtain ⟨w0, n0, hw0, hpw0⟩ := pairFreq_pos_occurs c p hp
  have hxy := BpeTrainL.wordPairs_mem w0 p hpw0
  exact ⟨hne _ hw0 p.1 hxy.1, hne _ hw0 p.2 hxy.2⟩

/-- a pair that occurs is segmented as itself -/
theorem SegInv.pair {ps : List BPair} {c : Corpus} (h : SegInv ps c) (p : BPair) (hp : 0 < pairFreq c p) :
    segOf ps (p.1 ++ p.2) = [p.1, p.2] := by
  obtain ⟨w0, n0, hw0, hpw0⟩ := pairFreq_pos_occurs c p hp
  have := h (w0, n0) hw0 [p.1, p.2] (wordPairs_infix w0 p hpw0)
  simpa using this

theorem replacePairInWord_single (t x y : Tok) : replacePairInWord [t] x y = [t] := by
  unfold replacePairInWord
  rw [replacePairAux, replacePairAux]
  rfl

theorem foldl_replace_single (t : Tok) : ∀ (qs : List BPair), qs.foldl (fun w p => replacePairInWord w p.1 p.2) [t] = [t] := by
  intro qs
  induction qs with
  | nil => rfl
  | cons q r ih => rw [List.foldl_cons, replacePairInWord_single, ih]

/-- after its merge (and any further merges) the merged token is segmented as a single token -/
theorem segOf_after (ps qs : List BPair) (p : BPair) (hy : p.2 ≠ []) (h : segOf ps (p.1 ++ p.2) = [p.1, p.2]) :
    segOf (ps ++ p :: qs) (p.1 ++ p.2) = [p.1 ++ p.2] := by
  have : ps ++ p :: qs = (ps ++ [p]) ++ qs := by simp
  rw [this, segOf_append, segOf_snoc, h, replacePairInWord_eq_rep _ p.1 p.2 hy, rep_match, rep_nil]
  exact foldl_replace_single _ qs

/-- along a greedy run every chosen pair is, at the time of its choice, segmented as itself -/
theorem greedy_seg : ∀ (ps done : List BPair) (c : Corpus), SegInv done c → CorpusWf c → greedyChoices c ps →
    ∀ a p b, ps = a ++ p :: b → segOf (done ++ a) (p.1 ++ p.2) = [p.1, p.2] ∧ p.2 ≠ [] := by
  intro ps
  induction ps with
  | nil => intro done c _ _ _ a p b h; simp at h
  | cons p0 ps ih =>
    intro done c hs hwf hg a p b hsplit
    obtain ⟨⟨h1, h2⟩, h3⟩ := hg
    cases a with
    | nil =>
      simp only [List.nil_append, List.cons.injEq] at hsplit
      obtain ⟨rfl, rfl⟩ := hsplit
      rw [List.append_nil]
      exact ⟨hs.pair p0 h1, (pair_nonempty c p0 hwf.1 h1).2⟩
    | cons a0 a' =>
      simp only [List.cons_append, List.cons.injEq] at hsplit
      obtain ⟨rfl, hps⟩ := hsplit
      have := ih (done ++ [p0]) (applyMerge c p0) (SegInv_step done c p0 hs (pair_nonempty c p0 hwf.1 h1).2)
        (hwf.applyMerge p0 h1) h3 a' p b hps
      simpa using this

/-- **the merged tokens of a greedy run are pairwise distinct** -/
theorem greedy_nodup : ∀ (ps done : List BPair) (c : Corpus), SegInv done c → CorpusWf c → greedyChoices c ps →
    (ps.map (fun p => p.1 ++ p.2)).Nodup := by
  intro ps
  induction ps with
  | nil => intro _ _ _ _ _; simp
  | cons p0 ps ih =>
    intro done c hs hwf hg
    have hg' := hg
    obtain ⟨⟨h1, h2⟩, h3⟩ := hg
    have hy0 := (pair_nonempty c p0 hwf.1 h1).2
    rw [List.map_cons, List.nodup_cons]
    refine ⟨?_, ih (done ++ [p0]) (applyMerge c p0) (SegInv_step done c p0 hs hy0) (hwf.applyMerge p0 h1) h3⟩
    intro hmem
    obtain ⟨q, hq, hqe⟩ := List.mem_map.mp hmem
    obtain ⟨a, b, hab⟩ := List.append_of_mem hq
    have hseg := (greedy_seg (p0 :: ps) done c hs hwf hg' (p0 :: a) q b (by rw [hab]; rfl)).1
    have hafter := segOf_after done a p0 hy0 (hs.pair p0 h1)
    rw [hqe, hafter] at hseg
    simp at hseg

/-! ### `CorpusWf` is decidable -/

theorem mem_infixesOf {α : Type} (l R : List α) : R ∈ infixesOf l ↔ R <:+: l := by
  unfold infixesOf
  simp only [List.mem_flatMap, List.mem_range, List.mem_map]
  constructor
  · rintro ⟨i, _, k, _, rfl⟩
    exact (List.take_prefix k _).isInfix.trans (List.drop_suffix i l).isInfix
  · rintro ⟨A, B, hAB⟩
    have hl := congrArg List.length hAB
    simp only [List.length_append] at hl
    refine ⟨A.length, by omega, R.length, by omega, ?_⟩
    rw [← hAB, List.append_assoc, List.drop_left, List.take_left]

theorem corpusWfB_iff (c : Corpus) : corpusWfB c = true ↔ CorpusWf c := by
  unfold corpusWfB CorpusWf UniqueSeg
  rw [Bool.and_eq_true]
  apply and_congr
  · simp only [List.all_eq_true, bne_iff_ne, ne_eq]
  · simp only [List.all_eq_true, mem_infixesOf, Bool.or_eq_true, bne_iff_ne, ne_eq, beq_iff_eq]
    constructor
    · intro h e1 he1 e2 he2 R1 R2 h1 h2 hfl
      rcases h e1 he1 e2 he2 R1 h1 R2 h2 with h3 | h3
      · exact absurd hfl h3
      · exact h3
    · intro h e1 he1 e2 he2 R1 h1 R2 h2
      by_cases hfl : R1.flatten = R2.flatten
      · exact Or.inr (h e1 he1 e2 he2 R1 R2 h1 h2 hfl)
      · exact Or.inl hfl

instance (c : Corpus) : Decidable (CorpusWf c) := decidable_of_iff _ (corpusWfB_iff c)

end Tu.BpeTrainIncL
