/-
  BPE: the tokens of the specification concatenate to the word, and token ids decode to the tokens.
-/
import TuModel.Lemmas.BpeL4
namespace Tu

theorem mapM_cons_eq_some {α β : Type} (f : α → Option β) (a : α) (l : List α) (r : List β)
    (h : (a :: l).mapM f = some r) : ∃ b bs, f a = some b ∧ l.mapM f = some bs ∧ r = b :: bs := by
  rw [List.mapM_cons] at h
  cases hfa : f a with
  | none => rw [hfa] at h; simp at h
  | some b =>
    cases hl : l.mapM f with
    | none => rw [hfa, hl] at h; simp at h
    | some bs =>
      rw [hfa, hl] at h
      simp only [Option.pure_def, Option.bind_eq_bind, Option.bind_some, Option.some.injEq] at h
      exact ⟨b, bs, rfl, rfl, h.symm⟩

/-- decoding the id of an admissible token gives the token back -/
theorem tokId_decode {t : MTable} (hwf : wfTable t = true) {tok : List Nat} {i : Nat} (hok : TokOK t tok)
    (h : tokId t tok = some i) :
    (if i < 256 then [i] else (tbytes t (i - 256)).getD []) = tok ∧ i < 256 + t.length := by
  rcases hok with ⟨b, rfl, hb⟩ | ⟨h2, k, hk⟩
  · simp only [tokId, Option.some.injEq] at h
    subst h
    rw [if_pos hb]; exact ⟨rfl, by omega⟩
  · have hid : IdOK t (256 + k) tok := Or.inr ⟨by omega, h2, by rw [hk]; simp⟩
    rw [hid.tokId_eq] at h
    simp only [Option.some.injEq] at h
    subst h
    rw [if_neg (by omega), show 256 + k - 256 = k by omega, tbytes_of_tlookup hwf hk]
    exact ⟨rfl, by have := tlookup_lt hwf hk; omega⟩

theorem mapM_tokId_decode {t : MTable} (hwf : wfTable t = true) : ∀ (toks : List (List Nat)) (ids : List Nat),
    (∀ tok ∈ toks, TokOK t tok) → toks.mapM (tokId t) = some ids →
    ids.flatMap (fun i => if i < 256 then [i] else (tbytes t (i - 256)).getD []) = toks.flatten ∧
      ∀ i ∈ ids, i < 256 + t.length
  | [], ids, _, h => by
    simp only [List.mapM_nil, Option.pure_def, Option.some.injEq] at h
    subst h; simp
  | tok :: toks, ids, hok, h => by
    obtain ⟨b, bs, h1, h2, rfl⟩ := mapM_cons_eq_some _ _ _ _ h
    obtain ⟨d1, d2⟩ := tokId_decode hwf (hok tok (by simp)) h1
    obtain ⟨e1, e2⟩ := mapM_tokId_decode hwf toks bs (fun x hx => hok x (List.mem_cons_of_mem _ hx)) h2
    refine ⟨?_, ?_⟩
    · rw [List.flatMap_cons, List.flatten_cons, e1, d1]
    · intro i hi
      rcases List.mem_cons.mp hi with rfl | hi
      · exact d2
      · exact e2 i hi

theorem flatten_map_single (w : List Nat) : (w.map (fun b => [b])).flatten = w := by
  induction w with
  | nil => rfl
  | cons b w ih => simp [ih]

/-- the canonical procedure only regroups the bytes of the word -/
theorem mergeWordSpec_concat {t : MTable} (hwf : wfTable t = true) (w : List Nat) (hw : ∀ b ∈ w, b < 256)
    (ids : List Nat) (h : mergeWordSpec t w = some ids) :
    ids.flatMap (fun i => if i < 256 then [i] else (tbytes t (i - 256)).getD []) = w ∧
      ∀ i ∈ ids, i < 256 + t.length := by
  unfold mergeWordSpec at h
  have hok : ∀ tok ∈ specLoop t w.length (w.map (fun b => [b])), TokOK t tok := by
    apply specLoop_tokOK
    · intro tok htok
      rw [List.mem_map] at htok
      obtain ⟨b, hb, rfl⟩ := htok
      exact Or.inl ⟨b, rfl, hw b hb⟩
    · intro tok htok
      rw [List.mem_map] at htok
      obtain ⟨b, _, rfl⟩ := htok
      simp
  obtain ⟨h1, h2⟩ := mapM_tokId_decode hwf _ ids hok h
  rw [specLoop_flatten, flatten_map_single] at h1
  exact ⟨h1, h2⟩

end Tu
