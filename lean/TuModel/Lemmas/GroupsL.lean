/-
  Helper lemmas for C17 (token groups, sparse COO matrix, padding): `foldl max` bounds, sums of
  `flatMap`s, the entries of `cooItem`, sums of pair-rationals `Q` up to value equality.
-/
import TuModel.Model.Groups
namespace Tu.GroupsL
open Tu

/-! ### `foldl max` -/

theorem le_foldl_max (l : List Nat) : ∀ (a : Nat), a ≤ l.foldl max a ∧ ∀ x ∈ l, x ≤ l.foldl max a := by
  induction l with
  | nil => intro a; simp
  | cons y l ih =>
    intro a
    obtain ⟨h1, h2⟩ := ih (max a y)
    simp only [List.foldl_cons]
    refine ⟨by omega, ?_⟩
    intro x hx
    rcases List.mem_cons.1 hx with rfl | hx
    · omega
    · exact h2 x hx

/-! ### sums and lengths -/

theorem sum_flatMap_map {α β : Type} (f : α → List β) (g : β → Nat) (l : List α) :
    ((l.flatMap f).map g).sum = (l.map (fun a => ((f a).map g).sum)).sum := by
  induction l with
  | nil => rfl
  | cons x xs ih => simp [List.flatMap_cons, ih]

theorem length_flatMap' {α β : Type} (f : α → List β) (l : List α) :
    (l.flatMap f).length = (l.map (fun a => (f a).length)).sum := by
  induction l with
  | nil => rfl
  | cons x xs ih => simp [List.flatMap_cons, ih]

theorem sum_map_const_one {α : Type} (l : List α) : (l.map (fun _ => 1)).sum = l.length := by
  induction l with
  | nil => rfl
  | cons x xs ih => simp [ih]; omega

theorem sum_map_flatten (f : Nat → Nat) (cl : List (List Nat)) :
    (cl.map (fun c => (c.map f).sum)).sum = (cl.flatten.map f).sum := by
  induction cl with
  | nil => rfl
  | cons c cs ih => simp [ih]

/-! ### group weights -/

theorem groupWeights_length (mean : Bool) (g : TGroup) : (groupWeights mean g).length = g.len := by
  cases g with
  | full n => simp [groupWeights, TGroup.len]
  | nested gs =>
    simp only [groupWeights, TGroup.len]
    induction gs with
    | nil => rfl
    | cons x xs ih => simp [List.flatMap_cons] at ih ⊢

theorem regularGroups_sum (cp : Bool) (cl : List (List Nat)) :
    ((regularGroups cp cl).map TGroup.len).sum = (cl.flatten.map utf8Len).sum := by
  rw [← sum_map_flatten]
  unfold regularGroups
  cases cp <;> simp [List.map_map, Function.comp_def, TGroup.len]

theorem regularGroups_length (cp : Bool) (cl : List (List Nat)) :
    (regularGroups cp cl).length = cl.length := by
  unfold regularGroups
  cases cp <;> simp

/-! ### the entries of one batch element -/

theorem cooItem_length (b : Nat) (mean : Bool) : ∀ (gs : List TGroup) (gi off : Nat),
    (cooItem b mean gs gi off).length = (gs.map TGroup.len).sum := by
  intro gs
  induction gs with
  | nil => intro gi off; rfl
  | cons g gs ih =>
    intro gi off
    simp only [cooItem, List.length_append, List.length_map, List.length_zip, List.length_range,
      ih, List.map_cons, List.sum_cons]
    cases mean <;> simp [groupWeights_length]

theorem cooItem_mem (b : Nat) (mean : Bool) : ∀ (gs : List TGroup) (gi off : Nat) (e : Nat × Nat × Nat × Q),
    e ∈ cooItem b mean gs gi off →
      e.1 = b ∧ gi ≤ e.2.1 ∧ e.2.1 < gi + gs.length ∧ off ≤ e.2.2.1 ∧ e.2.2.1 < off + (gs.map TGroup.len).sum := by
  intro gs
  induction gs with
  | nil => intro gi off e h; simp [cooItem] at h
  | cons g gs ih =>
    intro gi off e h
    simp only [cooItem, List.mem_append, List.mem_map] at h
    rcases h with ⟨⟨k, v⟩, hkv, rfl⟩ | h
    · have hk := (List.of_mem_zip hkv).1
      simp only [List.mem_range] at hk
      simp only [List.length_cons, List.map_cons, List.sum_cons]
      refine ⟨trivial, Nat.le_refl _, by omega, by omega, by omega⟩
    · obtain ⟨h1, h2, h3, h4, h5⟩ := ih _ _ e h
      simp only [List.length_cons, List.map_cons, List.sum_cons]
      refine ⟨h1, by omega, by omega, by omega, by omega⟩

/-! ### the sparse matrix -/

theorem map_fst_zipIdx {α β : Type} (g : α → β) (l : List α) : ∀ k, (l.zipIdx k).map (fun x => g x.1) = l.map g := by
  induction l with
  | nil => intro k; rfl
  | cons x xs ih => intro k; simp [List.zipIdx_cons, ih]

/-- the per-item check of `sparseCoo`, as an equation between lists -/
theorem map_sum_eq_lengths : ∀ (groupings : List (List TGroup × Bool)) (lengths : List Nat),
    groupings.length = lengths.length →
    (∀ p ∈ groupings.zip lengths, (p.1.1.map TGroup.len).sum = p.2) →
    groupings.map (fun g => (g.1.map TGroup.len).sum) = lengths := by
  intro groupings
  induction groupings with
  | nil => intro lengths hl _; cases lengths with
    | nil => rfl
    | cons _ _ => simp at hl
  | cons g gs ih =>
    intro lengths hl hs
    cases lengths with
    | nil => simp at hl
    | cons l ls =>
      simp only [List.map_cons, List.cons.injEq]
      refine ⟨hs (g, l) (by simp), ih ls (by simpa using hl) ?_⟩
      intro p hp
      exact hs p (by simp [hp])

/-- the entry list from which `sparseCoo` builds its columns -/
def cooEntries (groupings : List (List TGroup × Bool)) : List (Nat × Nat × Nat × Q) :=
  (groupings.zipIdx).flatMap (fun ((gs, mean), b) => cooItem b mean gs 0 0)

theorem sparseCoo_some {groupings : List (List TGroup × Bool)} {lengths : List Nat} {c : Coo}
    (h : sparseCoo groupings lengths = some c) :
    groupings.length = lengths.length ∧
    (∀ p ∈ groupings.zip lengths, (p.1.1.map TGroup.len).sum = p.2) ∧
    c = { rowBatch := (cooEntries groupings).map (·.1), rowGroup := (cooEntries groupings).map (·.2.1),
          rowToken := (cooEntries groupings).map (·.2.2.1), values := (cooEntries groupings).map (·.2.2.2),
          size := [groupings.length, (groupings.map (fun g => g.1.length)).foldl max 0, lengths.foldl max 0],
          groupLengths := groupings.map (fun g => g.1.length) } := by
  unfold sparseCoo at h
  split at h
  · cases h
  · rename_i h1
    split at h
    · cases h
    · rename_i h2
      refine ⟨by simpa using h1, ?_, ?_⟩
      · intro p hp
        simp only [List.any_eq_true, not_exists, not_and, Bool.not_eq_true] at h2
        have := h2 p hp
        simpa using this
      · simp only [Option.some.injEq] at h
        rw [← h]; rfl

theorem cooEntries_length (groupings : List (List TGroup × Bool)) (lengths : List Nat)
    (hl : groupings.length = lengths.length)
    (hs : ∀ p ∈ groupings.zip lengths, (p.1.1.map TGroup.len).sum = p.2) :
    (cooEntries groupings).length = lengths.sum := by
  unfold cooEntries
  rw [length_flatMap']
  have : ∀ x : (List TGroup × Bool) × Nat,
      (match x with | ((gs, mean), b) => cooItem b mean gs 0 0).length = (x.1.1.map TGroup.len).sum := by
    intro ⟨⟨gs, mean⟩, b⟩; exact cooItem_length b mean gs 0 0
  simp only [this]
  rw [map_fst_zipIdx (fun g : List TGroup × Bool => (g.1.map TGroup.len).sum), map_sum_eq_lengths _ _ hl hs]

theorem cooEntries_mem (groupings : List (List TGroup × Bool)) (lengths : List Nat)
    (hl : groupings.length = lengths.length)
    (hs : ∀ p ∈ groupings.zip lengths, (p.1.1.map TGroup.len).sum = p.2)
    (e : Nat × Nat × Nat × Q) (he : e ∈ cooEntries groupings) :
    e.1 < groupings.length ∧ e.2.1 < (groupings.map (fun g => g.1.length)).foldl max 0 ∧
      e.2.2.1 < lengths.foldl max 0 := by
  unfold cooEntries at he
  rw [List.mem_flatMap] at he
  obtain ⟨⟨⟨gs, mean⟩, b⟩, hx, he⟩ := he
  obtain ⟨h1, h2, h3, h4, h5⟩ := cooItem_mem b mean gs 0 0 e he
  have hx' := List.mem_zipIdx hx
  have hmem : (gs, mean) ∈ groupings := by rw [hx'.2.2]; exact List.getElem_mem _
  have hA : gs.length ≤ (groupings.map (fun g => g.1.length)).foldl max 0 :=
    (le_foldl_max _ 0).2 _ (List.mem_map.2 ⟨(gs, mean), hmem, rfl⟩)
  have hB : (gs.map TGroup.len).sum ≤ lengths.foldl max 0 := by
    apply (le_foldl_max _ 0).2
    rw [← map_sum_eq_lengths _ _ hl hs]
    exact List.mem_map.2 ⟨(gs, mean), hmem, rfl⟩
  refine ⟨by omega, by omega, by omega⟩

/-! ### sums of pair-rationals, up to value equality -/

/-- adding `k` copies of `a/d` to `acc` gives the value `acc + k·a/d` -/
theorem foldl_add_replicate (a d : Nat) (hd : 0 < d) : ∀ (k : Nat) (acc : Q), 0 < acc.den →
    ((List.replicate k (⟨a, d⟩ : Q)).foldl Q.add acc).num * (acc.den * d) =
      (acc.num * d + k * a * acc.den) * ((List.replicate k (⟨a, d⟩ : Q)).foldl Q.add acc).den ∧
    0 < ((List.replicate k (⟨a, d⟩ : Q)).foldl Q.add acc).den := by
  intro k
  induction k with
  | zero => intro acc h; simp [h]; grind
  | succ k ih =>
    intro acc h
    simp only [List.replicate_succ, List.foldl_cons]
    have hacc' : 0 < (Q.add acc ⟨a, d⟩).den := Nat.mul_pos h hd
    obtain ⟨e, hp⟩ := ih (Q.add acc ⟨a, d⟩) hacc'
    refine ⟨?_, hp⟩
    generalize (List.replicate k (⟨a, d⟩ : Q)).foldl Q.add (Q.add acc ⟨a, d⟩) = r at e hp
    simp only [Q.add] at e
    apply Nat.eq_of_mul_eq_mul_left hd
    grind

/-- adding, for every inner group of `n` tokens, `n` copies of `1/(n·L)` gives `acc + |gs|/L` -/
theorem foldl_add_nested (L : Nat) (hL : 0 < L) : ∀ (gs : List Nat), (∀ n ∈ gs, 0 < n) → ∀ (acc : Q), 0 < acc.den →
    ((gs.flatMap (fun n => List.replicate n (⟨1 * 1, n * L⟩ : Q))).foldl Q.add acc).num * (acc.den * L) =
      (acc.num * L + gs.length * acc.den) *
        ((gs.flatMap (fun n => List.replicate n (⟨1 * 1, n * L⟩ : Q))).foldl Q.add acc).den ∧
    0 < ((gs.flatMap (fun n => List.replicate n (⟨1 * 1, n * L⟩ : Q))).foldl Q.add acc).den := by
  intro gs
  induction gs with
  | nil => intro _ acc h; simp [h]; grind
  | cons n rest ih =>
    intro hpos acc h
    have hn : 0 < n := hpos n (by simp)
    simp only [List.flatMap_cons, List.foldl_append, List.length_cons]
    obtain ⟨e1, hp1⟩ := foldl_add_replicate (1 * 1) (n * L) (Nat.mul_pos hn hL) n acc h
    generalize (List.replicate n (⟨1 * 1, n * L⟩ : Q)).foldl Q.add acc = acc' at e1 hp1
    obtain ⟨e2, hp2⟩ := ih (fun m hm => hpos m (by simp [hm])) acc' hp1
    refine ⟨?_, hp2⟩
    generalize (rest.flatMap (fun n => List.replicate n (⟨1 * 1, n * L⟩ : Q))).foldl Q.add acc' = r at e2 hp2
    have e1' : acc'.num * (acc.den * L) = (acc.num * L + acc.den) * acc'.den := by
      apply Nat.eq_of_mul_eq_mul_left hn
      grind
    apply Nat.eq_of_mul_eq_mul_left hp1
    grind

end Tu.GroupsL
