/-
  BPE helper lemmas (umbrella file).
    BpeWf  — well-formed tables: merge ids are < |table| and unique (pigeonhole), `tbytes` inverts `tlookup`
    BpeL1  — specification side: `bestPair` (minimality), `mergeAt`, `specLoop` (terminal, concatenation)
    BpeL2  — `getD`/`set`, the heap (`heapMax` is minimal in `(mid, fst)`), `prevLive`/`nextLive`,
             live cells and their decomposition at two adjacent live cells (`Adj`, `Split`)
    BpeL3  — the refinement invariant `Inv` and its preservation by `mergeStep`
    BpeL4  — the popped valid entry is `bestPair`; the loop simulates `specLoop`; initial state; read-out
    BpeL5  — the specification's tokens concatenate to the word; ids decode to the tokens
    SplitL — `splitWords` flattens to the text without trailing white space
-/
import TuModel.Lemmas.BpeL5
import TuModel.Lemmas.SplitL
