import TuModel.Model.Bpe
namespace Tu

/-- text without its trailing white space -/
def dropTrailWs (s : List Nat) : List Nat := (s.reverse.dropWhile isWsCp).reverse

theorem dropWhile_eq_nil_of_all {α : Type} (p : α → Bool) :
    ∀ (l : List α), (∀ c ∈ l, p c = true) → l.dropWhile p = []
  | [], _ => rfl
  | a :: t, h => by
    have ha : p a = true := h a (List.mem_cons_self)
    rw [List.dropWhile_cons_of_pos ha]
    exact dropWhile_eq_nil_of_all p t (fun c hc => h c (List.mem_cons_of_mem _ hc))

theorem all_of_dropWhile_eq_nil {α : Type} (p : α → Bool) :
    ∀ (l : List α), l.dropWhile p = [] → ∀ c ∈ l, p c = true
  | [], _ => fun c hc => nomatch hc
  | a :: t, h => by
    by_cases ha : p a = true
    · rw [List.dropWhile_cons_of_pos ha] at h
      intro c hc
      rcases List.mem_cons.mp hc with rfl | hc
      · exact ha
      · exact all_of_dropWhile_eq_nil p t h c hc
    · rw [List.dropWhile_cons_of_neg ha] at h
      exact absurd h (List.cons_ne_nil _ _)

theorem of_mem_takeWhile {α : Type} (p : α → Bool) (l : List α) (c : α)
    (hc : c ∈ l.takeWhile p) : p c = true :=
  List.all_eq_true.mp (List.all_takeWhile (l := l) (p := p)) c hc

theorem dropTrailWs_of_all_ws (s : List Nat) (h : ∀ c ∈ s, isWsCp c = true) :
    dropTrailWs s = [] := by
  unfold dropTrailWs
  rw [List.reverse_eq_nil_iff]
  apply dropWhile_eq_nil_of_all
  intro c hc
  exact h c (List.mem_reverse.mp hc)

theorem dropTrailWs_append (x y : List Nat) :
    dropTrailWs (x ++ y) =
      if (dropTrailWs y).isEmpty then dropTrailWs x else x ++ dropTrailWs y := by
  unfold dropTrailWs
  rw [List.reverse_append, List.dropWhile_append]
  by_cases h : (List.dropWhile isWsCp y.reverse).isEmpty = true
  · simp [h]
  · simp [h]

theorem dropTrailWs_snoc (x : List Nat) (a : Nat) (ha : isWsCp a = false) :
    dropTrailWs (x ++ [a]) = x ++ [a] := by
  unfold dropTrailWs
  rw [List.reverse_append]
  simp [ha]

/-- a text whose last code point is not white space has no trailing white space -/
theorem dropTrailWs_of_last (x : List Nat) (hne : x ≠ [])
    (hl : isWsCp (x.getLast hne) = false) : dropTrailWs x = x := by
  have hx : x = x.dropLast ++ [x.getLast hne] := (List.dropLast_concat_getLast hne).symm
  rw [hx]
  exact dropTrailWs_snoc _ _ hl

theorem dropTrailWs_append_of_last (x y : List Nat) (hne : x ≠ [])
    (hl : isWsCp (x.getLast hne) = false) :
    dropTrailWs (x ++ y) = x ++ dropTrailWs y := by
  rw [dropTrailWs_append]
  by_cases h : (dropTrailWs y).isEmpty = true
  · rw [if_pos h, dropTrailWs_of_last x hne hl]
    have : dropTrailWs y = [] := List.isEmpty_iff.mp h
    rw [this, List.append_nil]
  · rw [if_neg h]

/-- the non-whitespace run after the leading white space is empty only if nothing is left -/
theorem dropWhile_ws_eq_nil_of_word_nil (s : List Nat)
    (h : (s.dropWhile isWsCp).takeWhile (fun c => !isWsCp c) = []) :
    s.dropWhile isWsCp = [] := by
  cases hr : s.dropWhile isWsCp with
  | nil => rfl
  | cons a t =>
    exfalso
    have hne : s.dropWhile isWsCp ≠ [] := by rw [hr]; exact List.cons_ne_nil _ _
    have ha := List.head_dropWhile_not isWsCp hne
    rw [hr] at h
    simp only [hr, List.head_cons] at ha
    simp [ha] at h

theorem splitWordsAux_flatten :
    ∀ (fuel : Nat) (s : List Nat), s.length < fuel →
      (splitWordsAux fuel s).flatten = dropTrailWs s := by
  intro fuel
  induction fuel with
  | zero => intro s h; omega
  | succ fuel ih =>
    intro s hlen
    have hs : s.takeWhile isWsCp ++ s.dropWhile isWsCp = s := List.takeWhile_append_dropWhile
    have hrest : (s.dropWhile isWsCp).takeWhile (fun c => !isWsCp c) ++
        (s.dropWhile isWsCp).dropWhile (fun c => !isWsCp c) = s.dropWhile isWsCp :=
      List.takeWhile_append_dropWhile
    unfold splitWordsAux
    simp only []
    by_cases hw : ((s.dropWhile isWsCp).takeWhile (fun c => !isWsCp c)).isEmpty = true
    · rw [if_pos hw]
      have hw' := List.isEmpty_iff.mp hw
      have hnil := dropWhile_ws_eq_nil_of_word_nil s hw'
      have hall : ∀ c ∈ s, isWsCp c = true := all_of_dropWhile_eq_nil isWsCp s hnil
      rw [dropTrailWs_of_all_ws s hall]
      rfl
    · rw [if_neg hw]
      have hwne : (s.dropWhile isWsCp).takeWhile (fun c => !isWsCp c) ≠ [] := by
        intro h; exact hw (List.isEmpty_iff.mpr h)
      have hxne : s.takeWhile isWsCp ++ (s.dropWhile isWsCp).takeWhile (fun c => !isWsCp c) ≠ [] := by
        intro h; exact hwne (List.append_eq_nil_iff.mp h).2
      have hlast : isWsCp ((s.takeWhile isWsCp ++
          (s.dropWhile isWsCp).takeWhile (fun c => !isWsCp c)).getLast hxne) = false := by
        rw [List.getLast_append_of_ne_nil hxne hwne]
        have hm := of_mem_takeWhile _ _ _ (List.getLast_mem hwne)
        simpa using hm
      have hlen' : ((s.dropWhile isWsCp).dropWhile (fun c => !isWsCp c)).length < fuel := by
        have h1 := congrArg List.length hs
        have h2 := congrArg List.length hrest
        rw [List.length_append] at h1 h2
        have h3 : 0 < ((s.dropWhile isWsCp).takeWhile (fun c => !isWsCp c)).length :=
          List.length_pos_iff.mpr hwne
        omega
      rw [List.flatten_cons, ih _ hlen', ← dropTrailWs_append_of_last _ _ hxne hlast,
        List.append_assoc, hrest, hs]

theorem splitWords_flatten (s : List Nat) : (splitWords s).flatten = dropTrailWs s :=
  splitWordsAux_flatten (s.length + 1) s (Nat.lt_succ_self _)

end Tu
