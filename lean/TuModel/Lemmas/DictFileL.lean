/-
  Lemmas for the `Dictionary::save` / `Dictionary::load` round trip (Model/DictFile.lean).
-/
import TuModel.Model.DictFile
namespace Tu
namespace DictFileL

/-! ### decimal digits -/

theorem isDigit_not_ws {c : Nat} (h : isDigit c = true) : isWsCp c = false := by
  simp only [isDigit, Bool.and_eq_true, decide_eq_true_eq] at h
  simp only [isWsCp, Bool.or_eq_false_iff, Bool.and_eq_false_iff, decide_eq_false_iff_not, beq_eq_false_iff_ne]
  omega

theorem isDigit_toNat_of_isDigit {c : Char} (h : c.isDigit = true) : isDigit c.toNat = true := by
  simp only [Char.isDigit, ge_iff_le, Bool.and_eq_true, decide_eq_true_eq, UInt32.le_iff_toNat_le] at h
  simp only [isDigit, Bool.and_eq_true, decide_eq_true_eq]
  exact h

theorem decDigits_all_isDigit (n : Nat) : (decDigits n).all isDigit = true := by
  simp only [decDigits, List.all_map, List.all_eq_true, Function.comp_apply]
  intro c hc
  exact isDigit_toNat_of_isDigit (Nat.isDigit_of_mem_toDigits (by decide) (by decide) hc)

theorem decDigits_ne_nil (n : Nat) : decDigits n ≠ [] := by
  simp only [decDigits, ne_eq, List.map_eq_nil_iff]
  exact Nat.toDigits_ne_nil

theorem digitsVal_map_toNat (cs : List Char) (init : Nat) :
    (cs.map (fun c => c.toNat)).foldl (fun a c => a * 10 + (c - 48)) init = Nat.ofDigitChars 10 cs init := by
  induction cs generalizing init with
  | nil => rfl
  | cons c cs ih =>
    rw [List.map_cons, List.foldl_cons, ih, Nat.ofDigitChars_cons, Nat.mul_comm]
    rfl

theorem digitsVal_decDigits (n : Nat) : digitsVal (decDigits n) = n := by
  unfold digitsVal decDigits
  rw [digitsVal_map_toNat]
  exact Nat.ofDigitChars_ten_toDigits

theorem mem_decDigits {n c : Nat} (h : c ∈ decDigits n) : isDigit c = true :=
  List.all_eq_true.1 (decDigits_all_isDigit n) c h

theorem decDigits_head (n : Nat) : ∃ c r, decDigits n = c :: r ∧ isDigit c = true := by
  cases h : decDigits n with
  | nil => exact absurd h (decDigits_ne_nil n)
  | cons c r => exact ⟨c, r, rfl, mem_decDigits (h ▸ List.mem_cons_self)⟩

theorem decDigits_last (n : Nat) : ∃ i c, decDigits n = i ++ [c] ∧ isDigit c = true := by
  rcases List.eq_nil_or_concat (decDigits n) with h | ⟨i, c, h⟩
  · exact absurd h (decDigits_ne_nil n)
  · rw [List.concat_eq_append] at h
    exact ⟨i, c, h, mem_decDigits (by rw [h]; simp)⟩

theorem not_mem_decDigits {n c : Nat} (hc : isDigit c = false) : c ∉ decDigits n := by
  intro h
  rw [mem_decDigits h] at hc
  exact Bool.noConfusion hc

/-! ### `parseUsize` -/

theorem parseUsize_digits (d : List Nat) (hne : d ≠ []) (hall : d.all isDigit = true) (hlt : digitsVal d < 2 ^ 64) :
    parseUsize d = some (digitsVal d) := by
  cases d with
  | nil => exact absurd rfl hne
  | cons c r =>
    have hc : isDigit c = true := by
      rw [List.all_cons, Bool.and_eq_true] at hall
      exact hall.1
    have hc43 : c ≠ 43 := by
      intro e; subst e; revert hc; decide
    unfold parseUsize
    split
    · rename_i r' heq
      exact absurd (List.cons.inj heq).1 hc43
    · simp only [List.isEmpty_cons, Bool.false_eq_true, if_false, hall, if_true, hlt]

theorem parseUsize_some {s : List Nat} {n : Nat} (h : parseUsize s = some n) : n < 2 ^ 64 := by
  unfold parseUsize at h
  simp only at h
  repeat' split at h
  all_goals first | (cases h; assumption) | cases h

/-! ### `trimCl`, `stripCr`, `splitTab` -/

theorem dropWhile_eq_self_of_head {α : Type} (p : α → Bool) (a : α) (l : List α) (h : p a = false) :
    (a :: l).dropWhile p = a :: l := by
  rw [List.dropWhile_cons, h]; rfl

theorem trimCl_eq_self (a b : Nat) (m : List Nat) (ha : isWsCp a = false) (hb : isWsCp b = false) :
    trimCl (a :: (m ++ [b])) = a :: (m ++ [b]) := by
  unfold trimCl
  rw [dropWhile_eq_self_of_head _ _ _ ha]
  have : (a :: (m ++ [b])).reverse = b :: (a :: m).reverse := by simp
  rw [this, dropWhile_eq_self_of_head _ _ _ hb, ← this, List.reverse_reverse]

theorem stripCr_eq_self (m : List Nat) (b : Nat) (hb : b ≠ 13) : stripCr (m ++ [b]) = m ++ [b] := by
  unfold stripCr
  split
  · rename_i r heq
    rw [List.reverse_append, List.reverse_singleton, List.singleton_append] at heq
    exact absurd (List.cons.inj heq).1 hb
  · rfl

theorem splitTabAux_no_tab (d cur : List Nat) (h : 9 ∉ d) : splitTabAux d cur = [cur.reverse ++ d] := by
  induction d generalizing cur with
  | nil => simp [splitTabAux]
  | cons c r ih =>
    have hc : (c == 9) = false := by
      rw [beq_eq_false_iff_ne]; intro e; exact h (e ▸ List.mem_cons_self)
    rw [splitTabAux, hc, if_neg Bool.false_ne_true, ih _ (fun hm => h (List.mem_cons_of_mem _ hm))]
    simp

theorem splitTabAux_tab (k r cur : List Nat) (h : 9 ∉ k) :
    splitTabAux (k ++ 9 :: r) cur = (cur.reverse ++ k) :: splitTabAux r [] := by
  induction k generalizing cur with
  | nil => simp [splitTabAux]
  | cons c k ih =>
    have hc : (c == 9) = false := by
      rw [beq_eq_false_iff_ne]; intro e; exact h (e ▸ List.mem_cons_self)
    rw [List.cons_append, splitTabAux, hc, if_neg Bool.false_ne_true, ih _ (fun hm => h (List.mem_cons_of_mem _ hm))]
    simp

theorem splitTab_key_val (k d : List Nat) (hk : 9 ∉ k) (hd : 9 ∉ d) : splitTab (k ++ 9 :: d) = [k, d] := by
  unfold splitTab
  rw [splitTabAux_tab k d [] hk, splitTabAux_no_tab d [] hd]
  rfl

/-! ### `keyOk` -/

theorem keyOk_nil : keyOk [] = false := rfl

theorem keyOk_cons (a : Nat) (t : List Nat) :
    keyOk (a :: t) = true ↔ isWsCp a = false ∧ 9 ∉ a :: t ∧ 10 ∉ a :: t := by
  simp only [keyOk, List.isEmpty_cons, Bool.not_false, Bool.true_and, Bool.and_eq_true, Bool.not_eq_true',
    List.contains_eq_mem, decide_eq_false_iff_not, List.head?_cons, Option.any_some]
  constructor
  · rintro ⟨⟨h9, h10⟩, hw⟩
    exact ⟨hw, h9, h10⟩
  · rintro ⟨hw, h9, h10⟩
    exact ⟨⟨h9, h10⟩, hw⟩

/-! ### lines of the file -/

theorem linesAux_line (s rest cur : List Nat) (h : 10 ∉ s) :
    linesAux (s ++ 10 :: rest) cur = (cur.reverse ++ s) :: linesAux rest [] := by
  induction s generalizing cur with
  | nil => simp [linesAux]
  | cons c s ih =>
    have hc : (c == 10) = false := by
      rw [beq_eq_false_iff_ne]; intro e; exact h (e ▸ List.mem_cons_self)
    rw [List.cons_append, linesAux, hc, if_neg Bool.false_ne_true, ih _ (fun hm => h (List.mem_cons_of_mem _ hm))]
    simp

theorem mapM_map_some {α β : Type} (f : α → β) (g : β → Option α) (l : List α) (h : ∀ e ∈ l, g (f e) = some e) :
    (l.map f).mapM g = some l := by
  induction l with
  | nil => rfl
  | cons a l ih =>
    rw [List.map_cons, List.mapM_cons, h a List.mem_cons_self, ih (fun e he => h e (List.mem_cons_of_mem _ he))]
    rfl

/-! ### the map -/

theorem mapInsert_new (m : List (Key × Nat)) (k : Key) (v : Nat) (h : k ∉ m.map (·.1)) :
    mapInsert m k v = m ++ [(k, v)] := by
  unfold mapInsert
  have : m.any (fun e => e.1 == k) = false := by
    rw [List.any_eq_false]
    intro e he hek
    exact h (List.mem_map.2 ⟨e, he, eq_of_beq hek⟩)
  rw [this]; rfl

theorem foldl_mapInsert (l acc : List (Key × Nat)) (h : ((acc ++ l).map (·.1)).Nodup) :
    l.foldl (fun m e => mapInsert m e.1 e.2) acc = acc ++ l := by
  induction l generalizing acc with
  | nil => simp
  | cons e l ih =>
    have hnew : e.1 ∉ acc.map (·.1) := by
      rw [List.map_append, List.map_cons, List.nodup_append] at h
      intro hm
      exact h.2.2 _ hm _ List.mem_cons_self rfl
    rw [List.foldl_cons, mapInsert_new acc e.1 e.2 hnew]
    have : acc ++ e :: l = (acc ++ [(e.1, e.2)]) ++ l := by simp
    rw [this] at h ⊢
    exact ih _ h

/-! ### pigeonhole -/

theorem perm_of_nodup_subset {α : Type} [DecidableEq α] (l₁ l₂ : List α) (hnd : l₁.Nodup) (hs : l₁ ⊆ l₂)
    (hl : l₂.length ≤ l₁.length) : l₁.Perm l₂ := by
  induction l₁ generalizing l₂ with
  | nil =>
    have : l₂ = [] := List.eq_nil_of_length_eq_zero (Nat.le_zero.1 hl)
    rw [this]
  | cons a t ih =>
    have ha : a ∈ l₂ := hs List.mem_cons_self
    rw [List.nodup_cons] at hnd
    have hs' : t ⊆ l₂.erase a := by
      intro x hx
      have : x ≠ a := fun e => hnd.1 (e ▸ hx)
      exact (List.mem_erase_of_ne this).2 (hs (List.mem_cons_of_mem _ hx))
    have hl' : (l₂.erase a).length ≤ t.length := by
      rw [List.length_erase_of_mem ha]
      simp only [List.length_cons] at hl
      omega
    exact ((ih _ hnd.2 hs' hl').cons a).trans (List.perm_cons_erase ha).symm

/-! ### the lines of a saved file -/

theorem saveLine_eq (e : Key × Nat) : saveLine e = (e.1 ++ [9] ++ decDigits e.2) ++ 10 :: [] := rfl

theorem fileLines_dictSave (l : List (Key × Nat)) (hk : ∀ e ∈ l, 10 ∉ e.1) :
    fileLines (dictSave l) = l.map (fun e => e.1 ++ [9] ++ decDigits e.2) := by
  induction l with
  | nil => rfl
  | cons e l ih =>
    have h10 : 10 ∉ e.1 ++ [9] ++ decDigits e.2 := by
      simp only [List.mem_append, List.mem_singleton, not_or]
      exact ⟨⟨hk e List.mem_cons_self, by decide⟩, not_mem_decDigits (by decide)⟩
    have hsave : dictSave (e :: l) = (e.1 ++ [9] ++ decDigits e.2) ++ 10 :: dictSave l := by
      show (e :: l).flatMap saveLine = _
      rw [List.flatMap_cons, saveLine_eq]
      simp [dictSave]
    have ih' := ih (fun x hx => hk x (List.mem_cons_of_mem _ hx))
    unfold fileLines at ih' ⊢
    rw [hsave, linesAux_line _ _ _ h10, List.map_cons, ih', List.map_cons, List.reverse_nil, List.nil_append]
    congr 1
    obtain ⟨i, c, hi, hc⟩ := decDigits_last e.2
    have : e.1 ++ [9] ++ decDigits e.2 = (e.1 ++ [9] ++ i) ++ [c] := by rw [hi]; simp
    rw [this]
    exact stripCr_eq_self _ _ (by intro h13; subst h13; revert hc; decide)

/-! ### what `parseLine` can return -/

theorem dropWhile_head_not {α : Type} (p : α → Bool) (l : List α) (a : α) (r : List α)
    (h : l.dropWhile p = a :: r) : p a = false := by
  induction l with
  | nil => cases h
  | cons x l ih =>
    rw [List.dropWhile_cons] at h
    split at h
    · exact ih h
    · rename_i hx
      rw [← (List.cons.inj h).1]
      simpa using hx

theorem trimCl_mem (line : List Nat) : ∀ c ∈ trimCl line, c ∈ line := by
  intro c hc
  unfold trimCl at hc
  rw [List.mem_reverse] at hc
  have h1 := (List.dropWhile_sublist isWsCp).subset hc
  rw [List.mem_reverse] at h1
  exact (List.dropWhile_sublist isWsCp).subset h1

theorem trimCl_head (line : List Nat) (a : Nat) (r : List Nat) (h : trimCl line = a :: r) : isWsCp a = false := by
  unfold trimCl at h
  have hsuf : (line.dropWhile isWsCp).reverse.dropWhile isWsCp <:+ (line.dropWhile isWsCp).reverse :=
    List.dropWhile_suffix _
  have hpre := List.reverse_prefix.2 hsuf
  rw [List.reverse_reverse, h] at hpre
  obtain ⟨t, ht⟩ := hpre
  exact dropWhile_head_not isWsCp line a (r ++ t) (by rw [← ht]; rfl)

theorem splitTabAux_head (s cur p : List Nat) (ps : List (List Nat)) (h : splitTabAux s cur = p :: ps) :
    ∃ x, p = cur.reverse ++ x ∧ 9 ∉ x ∧ ∀ c ∈ x, c ∈ s := by
  induction s generalizing cur with
  | nil =>
    rw [splitTabAux] at h
    exact ⟨[], by rw [← (List.cons.inj h).1]; simp, by simp, by simp⟩
  | cons c s ih =>
    rw [splitTabAux] at h
    split at h
    · exact ⟨[], by rw [← (List.cons.inj h).1]; simp, by simp, by simp⟩
    · rename_i hc
      obtain ⟨x, hx, h9, hm⟩ := ih _ h
      refine ⟨c :: x, by rw [hx]; simp, ?_, ?_⟩
      · intro hmem
        rcases List.mem_cons.1 hmem with e | e
        · exact hc (by rw [← e]; rfl)
        · exact h9 e
      · intro d hd
        rcases List.mem_cons.1 hd with e | e
        · exact e ▸ List.mem_cons_self
        · exact List.mem_cons_of_mem _ (hm d e)

theorem parseLine_some {line : List Nat} {k : Key} {v : Nat} (h : parseLine line = some (k, v)) :
    ∃ w rest, splitTab (trimCl line) = k :: rest ∧ parseUsize w = some v := by
  unfold parseLine at h
  split at h
  · rename_i k' v' heq
    cases hp : parseUsize v' with
    | none => rw [hp] at h; cases h
    | some n =>
      rw [hp] at h
      simp only [Option.map_some, Option.some.injEq, Prod.mk.injEq] at h
      exact ⟨v', [v'], by rw [heq, h.1], by rw [hp, h.2]⟩
  · cases h

end DictFileL
end Tu
