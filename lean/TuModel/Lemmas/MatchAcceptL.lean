import TuModel.Lemmas.MatchTable
namespace Tu

/-! ## the relational acceptance test `matchAccept` -/

theorem pairsIncreasing_cons_cons (p q : Nat × Nat) (rest : List (Nat × Nat)) :
    pairsIncreasing (p :: q :: rest) = (decide (p.1 < q.1) && decide (p.2 < q.2) && pairsIncreasing (q :: rest)) := by
  rw [pairsIncreasing]

theorem pairsIncreasing_cons (p : Nat × Nat) (rest : List (Nat × Nat)) (h : pairsIncreasing (p :: rest) = true) :
    (∀ q ∈ rest, p.1 < q.1 ∧ p.2 < q.2) ∧ pairsIncreasing rest = true := by
  induction rest generalizing p with
  | nil => exact ⟨by simp, by rw [pairsIncreasing]⟩
  | cons q r ih =>
    rw [pairsIncreasing_cons_cons] at h
    simp only [Bool.and_eq_true, decide_eq_true_eq] at h
    obtain ⟨⟨h1, h2⟩, h3⟩ := h
    obtain ⟨h4, _⟩ := ih q h3
    refine ⟨?_, h3⟩
    intro x hx
    rcases List.mem_cons.mp hx with rfl | hx
    · exact ⟨h1, h2⟩
    · have := h4 x hx; omega

theorem pairsIncreasing_iff (m : List (Nat × Nat)) :
    pairsIncreasing m = true ↔ m.Pairwise (fun p q => p.1 < q.1 ∧ p.2 < q.2) := by
  induction m with
  | nil => simp [pairsIncreasing]
  | cons p rest ih =>
    constructor
    · intro h
      obtain ⟨h1, h2⟩ := pairsIncreasing_cons p rest h
      exact List.pairwise_cons.mpr ⟨h1, ih.mp h2⟩
    · intro h
      obtain ⟨h1, h2⟩ := List.pairwise_cons.mp h
      cases rest with
      | nil => rw [pairsIncreasing]
      | cons q r =>
        rw [pairsIncreasing_cons_cons]
        have := h1 q (by simp)
        simp [this.1, this.2, ih.mpr h2]

/-- the words at strictly increasing in-range positions form a subsequence -/
theorem map_getD_sublist_drop (a : List (List Nat)) :
    ∀ (is : List Nat) (k : Nat), is.Pairwise (· < ·) → (∀ i ∈ is, k ≤ i ∧ i < a.length) →
      List.Sublist (is.map (fun i => a.getD i [])) (a.drop k) := by
  intro is
  induction is with
  | nil => intro k _ _; simp
  | cons i is ih =>
    intro k hp hb
    obtain ⟨h1, h2⟩ := List.pairwise_cons.mp hp
    obtain ⟨hk, hi⟩ := hb i (by simp)
    have hrec := ih (i + 1) h2 (by
      intro x hx
      exact ⟨h1 x hx, (hb x (List.mem_cons_of_mem _ hx)).2⟩)
    have hx : a.getD i [] = a[i] := by simp [List.getD_eq_getElem?_getD, List.getElem?_eq_getElem hi]
    have hd : a.drop i = a[i] :: a.drop (i + 1) := List.drop_eq_getElem_cons hi
    have hs : List.Sublist (a.drop i) (a.drop k) := by
      have : a.drop i = (a.drop k).drop (i - k) := by
        rw [List.drop_drop]; congr 1; omega
      rw [this]; exact List.drop_sublist _ _
    refine List.Sublist.trans ?_ hs
    rw [hd, List.map_cons, hx]
    exact hrec.cons_cons _

theorem map_getD_sublist (a : List (List Nat)) (is : List Nat) (hp : is.Pairwise (· < ·))
    (hb : ∀ i ∈ is, i < a.length) : List.Sublist (is.map (fun i => a.getD i [])) a := by
  have := map_getD_sublist_drop a is 0 hp (fun i hi => ⟨Nat.zero_le _, hb i hi⟩)
  simpa using this

/-- the three clauses of `matchAccept`, as propositions -/
theorem matchAccept_iff (a b : List (List Nat)) (m : List (Nat × Nat)) :
    matchAccept a b m = true ↔
      m.Pairwise (fun p q => p.1 < q.1 ∧ p.2 < q.2) ∧
      (∀ p ∈ m, p.1 < a.length ∧ p.2 < b.length ∧ a.getD p.1 [] = b.getD p.2 []) ∧
      m.length = ((matchWords a b).getD []).length := by
  unfold matchAccept
  simp only [Bool.and_eq_true, pairsIncreasing_iff, List.all_eq_true, decide_eq_true_eq, beq_iff_eq,
    and_assoc]

end Tu
