/-
  BPE, implementation side, basic facts: `getD` of `set`, the heap (`heapMax`, `heapPop`),
  `prevLive` / `nextLive`, live cells (`live`) and their decomposition lemmas.
-/
import TuModel.Lemmas.BpeL1
namespace Tu

/-! ### `getD` and `set` -/

theorem getD_set_eq {α : Type} (l : List α) (i : Nat) (v d : α) (h : i < l.length) :
    (l.set i v).getD i d = v := by
  simp [List.getD_eq_getElem?_getD, h]

theorem getD_set_ne {α : Type} (l : List α) (i k : Nat) (v d : α) (h : i ≠ k) :
    (l.set i v).getD k d = l.getD k d := by
  simp [List.getD_eq_getElem?_getD, h]

/-- two updates at different valid positions -/
theorem getD_set2 {α : Type} (l : List α) (i j k : Nat) (v w d : α) (hi : i < l.length) (hj : j < l.length)
    (hij : i ≠ j) :
    ((l.set i v).set j w).getD k d = if k = j then w else if k = i then v else l.getD k d := by
  by_cases h1 : k = j
  · subst h1; simp only [if_true]; rw [getD_set_eq]; simp [hj]
  · simp only [h1, if_false]
    rw [getD_set_ne _ _ _ _ _ (Ne.symm h1)]
    by_cases h2 : k = i
    · subst h2; simp only [if_true]; rw [getD_set_eq _ _ _ _ hi]
    · simp only [h2, if_false]; rw [getD_set_ne _ _ _ _ _ (Ne.symm h2)]

theorem getD_of_le {α : Type} (l : List α) (k : Nat) (d : α) (h : l.length ≤ k) : l.getD k d = d := by
  simp [List.getD_eq_getElem?_getD, List.getElem?_eq_none h]

theorem lt_length_of_getD_ne {α : Type} (l : List α) (k : Nat) (d : α) (h : l.getD k d ≠ d) : k < l.length := by
  by_cases h' : k < l.length
  · exact h'
  · exact absurd (getD_of_le l k d (by omega)) h

/-! ### the heap -/

theorem HEntry.lt_true_key {a b : HEntry} (h : a.lt b = true) :
    b.mid < a.mid ∨ (b.mid = a.mid ∧ b.fst ≤ a.fst) := by
  unfold HEntry.lt at h
  by_cases h1 : a.mid = b.mid
  · by_cases h2 : a.fst = b.fst
    · right; omega
    · simp [h1, h2] at h; right; omega
  · simp [h1] at h; left; omega

theorem HEntry.lt_false_key {a b : HEntry} (h : a.lt b = false) :
    a.mid < b.mid ∨ (a.mid = b.mid ∧ a.fst ≤ b.fst) := by
  unfold HEntry.lt at h
  by_cases h1 : a.mid = b.mid
  · by_cases h2 : a.fst = b.fst
    · right; omega
    · simp [h1, h2] at h; right; omega
  · simp [h1] at h; left; omega

theorem heapMax_none : ∀ (h : List HEntry), heapMax h = none → h = []
  | [], _ => rfl
  | e :: es, hm => by
    simp only [heapMax] at hm
    split at hm
    · simp at hm
    · split at hm <;> simp at hm

theorem heapMax_mem : ∀ (h : List HEntry) (m : HEntry), heapMax h = some m → m ∈ h
  | [], m, hm => by simp [heapMax] at hm
  | e :: es, m, hm => by
    simp only [heapMax] at hm
    split at hm
    · simp only [Option.some.injEq] at hm; simp [hm]
    · rename_i m' hm'
      have := heapMax_mem es m' hm'
      split at hm
      · simp only [Option.some.injEq] at hm; subst hm; simp [this]
      · simp only [Option.some.injEq] at hm; simp [hm]

/-- the popped entry has the least `(merge id, first index)` -/
theorem heapMax_min : ∀ (h : List HEntry) (m : HEntry), heapMax h = some m →
    ∀ x ∈ h, m.mid < x.mid ∨ (m.mid = x.mid ∧ m.fst ≤ x.fst)
  | [], m, hm => by simp [heapMax] at hm
  | e :: es, m, hm => by
    simp only [heapMax] at hm
    intro x hx
    split at hm
    · rename_i hn
      have := heapMax_none es hn
      subst this
      simp only [Option.some.injEq] at hm
      subst hm
      simp only [List.mem_singleton] at hx
      subst hx
      right; exact ⟨rfl, Nat.le_refl _⟩
    · rename_i m' hm'
      have ih := heapMax_min es m' hm'
      split at hm
      · rename_i hlt
        simp only [Option.some.injEq] at hm; subst hm
        rcases List.mem_cons.mp hx with rfl | hx
        · have := HEntry.lt_true_key hlt; omega
        · exact ih x hx
      · rename_i hlt
        simp only [Option.some.injEq] at hm; subst hm
        have hk := HEntry.lt_false_key (Bool.eq_false_iff.mpr hlt)
        rcases List.mem_cons.mp hx with rfl | hx
        · right; exact ⟨rfl, Nat.le_refl _⟩
        · have := ih x hx; omega

theorem heapPop_none (h : List HEntry) (hp : heapPop h = none) : h = [] := by
  unfold heapPop at hp
  split at hp
  · rename_i hn; exact heapMax_none h hn
  · simp at hp

theorem heapPop_some (h : List HEntry) (e : HEntry) (h' : List HEntry) (hp : heapPop h = some (e, h')) :
    e ∈ h ∧ h' = h.erase e ∧ ∀ x ∈ h, e.mid < x.mid ∨ (e.mid = x.mid ∧ e.fst ≤ x.fst) := by
  unfold heapPop at hp
  split at hp
  · simp at hp
  · rename_i m hm
    simp only [Option.some.injEq, Prod.mk.injEq] at hp
    obtain ⟨rfl, rfl⟩ := hp
    exact ⟨heapMax_mem h m hm, rfl, heapMax_min h m hm⟩

/-! ### searching a range -/

theorem find_rev_range_some (p : Nat → Bool) : ∀ (n k : Nat), (List.range n).reverse.find? p = some k →
    k < n ∧ p k = true ∧ ∀ m, k < m → m < n → p m = false
  | 0, k, h => by simp at h
  | n + 1, k, h => by
    rw [List.range_succ, List.reverse_append, List.reverse_singleton, List.singleton_append,
      List.find?_cons] at h
    cases hp : p n with
    | true =>
      rw [hp] at h
      simp only [Option.some.injEq] at h
      subst h
      exact ⟨by omega, hp, fun m h1 h2 => by omega⟩
    | false =>
      rw [hp] at h
      obtain ⟨h1, h2, h3⟩ := find_rev_range_some p n k h
      refine ⟨by omega, h2, fun m hm1 hm2 => ?_⟩
      by_cases hmn : m = n
      · subst hmn; exact hp
      · exact h3 m hm1 (by omega)

theorem find_rev_range_none (p : Nat → Bool) : ∀ (n : Nat), (List.range n).reverse.find? p = none →
    ∀ m, m < n → p m = false
  | 0, _, m, hm => by omega
  | n + 1, h, m, hm => by
    rw [List.range_succ, List.reverse_append, List.reverse_singleton, List.singleton_append,
      List.find?_cons] at h
    cases hp : p n with
    | true => rw [hp] at h; simp at h
    | false =>
      rw [hp] at h
      by_cases hmn : m = n
      · subst hmn; exact hp
      · exact find_rev_range_none p n h m (by omega)

theorem map_add_range_succ (n c : Nat) :
    (List.range (n + 1)).map (fun x => x + c) = c :: (List.range n).map (fun x => x + (c + 1)) := by
  rw [List.range_succ_eq_map, List.map_cons, List.map_map]
  simp only [Nat.zero_add, List.cons.injEq, true_and]
  apply List.map_congr_left
  intro x _
  simp only [Function.comp, Nat.succ_eq_add_one]
  omega

theorem find_map_range_some (p : Nat → Bool) : ∀ (n c k : Nat),
    ((List.range n).map (fun x => x + c)).find? p = some k →
    c ≤ k ∧ k < c + n ∧ p k = true ∧ ∀ m, c ≤ m → m < k → p m = false
  | 0, c, k, h => by simp at h
  | n + 1, c, k, h => by
    rw [map_add_range_succ, List.find?_cons] at h
    cases hp : p c with
    | true =>
      rw [hp] at h
      simp only [Option.some.injEq] at h
      subst h
      exact ⟨by omega, by omega, hp, fun m h1 h2 => by omega⟩
    | false =>
      rw [hp] at h
      obtain ⟨h1, h2, h3, h4⟩ := find_map_range_some p n (c + 1) k h
      refine ⟨by omega, by omega, h3, fun m hm1 hm2 => ?_⟩
      by_cases hmc : m = c
      · subst hmc; exact hp
      · exact h4 m (by omega) hm2

theorem find_map_range_none (p : Nat → Bool) : ∀ (n c : Nat),
    ((List.range n).map (fun x => x + c)).find? p = none →
    ∀ m, c ≤ m → m < c + n → p m = false
  | 0, c, _, m, h1, h2 => by omega
  | n + 1, c, h, m, h1, h2 => by
    rw [map_add_range_succ, List.find?_cons] at h
    cases hp : p c with
    | true => rw [hp] at h; simp at h
    | false =>
      rw [hp] at h
      by_cases hmc : m = c
      · subst hmc; exact hp
      · exact find_map_range_none p n (c + 1) h m (by omega) (by omega)

/-! ### `prevLive`, `nextLive` -/

theorem isEmpty_not_false {b : List Nat} : (!b.isEmpty) = false ↔ b = [] := by
  cases b <;> simp

theorem isEmpty_not_true {b : List Nat} : (!b.isEmpty) = true ↔ b ≠ [] := by
  cases b <;> simp

theorem prevLive_some (bytes : List (List Nat)) (i p : Nat) (h : prevLive bytes i = some p) :
    p < i ∧ bytes.getD p [] ≠ [] ∧ ∀ k, p < k → k < i → bytes.getD k [] = [] := by
  unfold prevLive at h
  obtain ⟨h1, h2, h3⟩ := find_rev_range_some _ i p h
  exact ⟨h1, isEmpty_not_true.mp h2, fun k hk1 hk2 => isEmpty_not_false.mp (h3 k hk1 hk2)⟩

theorem prevLive_none (bytes : List (List Nat)) (i : Nat) (h : prevLive bytes i = none) :
    ∀ k, k < i → bytes.getD k [] = [] := by
  unfold prevLive at h
  exact fun k hk => isEmpty_not_false.mp (find_rev_range_none _ i h k hk)

theorem nextLive_some (bytes : List (List Nat)) (i n : Nat) (h : nextLive bytes i = some n) :
    i < n ∧ bytes.getD n [] ≠ [] ∧ ∀ k, i < k → k < n → bytes.getD k [] = [] := by
  unfold nextLive at h
  have hf : (fun x => x + i + 1) = (fun x => x + (i + 1)) := by funext x; omega
  rw [hf] at h
  obtain ⟨h1, _, h3, h4⟩ := find_map_range_some _ _ (i + 1) n h
  exact ⟨by omega, isEmpty_not_true.mp h3, fun k hk1 hk2 => isEmpty_not_false.mp (h4 k (by omega) hk2)⟩

theorem nextLive_none (bytes : List (List Nat)) (i : Nat) (h : nextLive bytes i = none) :
    ∀ k, i < k → bytes.getD k [] = [] := by
  unfold nextLive at h
  have hf : (fun x => x + i + 1) = (fun x => x + (i + 1)) := by funext x; omega
  rw [hf] at h
  intro k hk
  by_cases hkl : k < bytes.length
  · exact isEmpty_not_false.mp (find_map_range_none _ _ (i + 1) h k (by omega) (by omega))
  · exact getD_of_le _ _ _ (by omega)

/-! ### live cells -/

/-- the token list denoted by a cell array: the non-empty cells in order -/
def live (l : List (List Nat)) : List (List Nat) := l.filter (fun b => !b.isEmpty)

theorem live_nil : live [] = [] := rfl
theorem live_cons_nil (l : List (List Nat)) : live ([] :: l) = live l := by simp [live]
theorem live_cons_ne (b : List Nat) (l : List (List Nat)) (h : b ≠ []) : live (b :: l) = b :: live l := by
  cases b with
  | nil => exact absurd rfl h
  | cons x xs => simp [live]
theorem live_append (a b : List (List Nat)) : live (a ++ b) = live a ++ live b := by simp [live]
theorem live_dead (M : List (List Nat)) (h : ∀ b ∈ M, b = []) : live M = [] := by
  induction M with
  | nil => rfl
  | cons b M ih =>
    have := h b (by simp)
    subst this
    rw [live_cons_nil]; exact ih (fun x hx => h x (List.mem_cons_of_mem _ hx))
theorem live_ne_nil (l : List (List Nat)) : ∀ b ∈ live l, b ≠ [] := by
  intro b hb
  simp only [live, List.mem_filter] at hb
  exact isEmpty_not_true.mp hb.2

/-- adjacent live cells `i < j`: both non-empty, only dead cells in between -/
def Adj (bytes : List (List Nat)) (i j : Nat) : Prop :=
  i < j ∧ bytes.getD i [] ≠ [] ∧ bytes.getD j [] ≠ [] ∧ ∀ k, i < k → k < j → bytes.getD k [] = []

/-- explicit decomposition of a cell array at two adjacent live cells -/
def Split (l : List (List Nat)) (A M B : List (List Nat)) (x y : List Nat) : Prop :=
  l = A ++ x :: (M ++ y :: B) ∧ x ≠ [] ∧ y ≠ [] ∧ ∀ b ∈ M, b = []

theorem getD_append_left' {α : Type} (A B : List α) (k : Nat) (d : α) (h : k < A.length) :
    (A ++ B).getD k d = A.getD k d := by
  simp [List.getD_eq_getElem?_getD, List.getElem?_append_left h]

theorem getD_append_right' {α : Type} (A B : List α) (k : Nat) (d : α) :
    (A ++ B).getD (A.length + k) d = B.getD k d := by
  simp [List.getD_eq_getElem?_getD, List.getElem?_append_right]

theorem Split.getD_x {l A M B x y} (h : Split l A M B x y) : l.getD A.length [] = x := by
  rw [h.1]; simp

theorem Split.getD_y {l A M B x y} (h : Split l A M B x y) : l.getD (A.length + 1 + M.length) [] = y := by
  rw [h.1]
  have := getD_append_right' A (x :: (M ++ y :: B)) (1 + M.length) []
  rw [show A.length + (1 + M.length) = A.length + 1 + M.length by omega] at this
  rw [this, show 1 + M.length = M.length + 1 by omega, List.getD_cons_succ]
  simp

theorem Split.getD_mid {l A M B x y} (h : Split l A M B x y) (k : Nat) (h1 : A.length < k)
    (h2 : k < A.length + 1 + M.length) : l.getD k [] = [] := by
  rw [h.1]
  obtain ⟨d, rfl⟩ : ∃ d, k = A.length + (d + 1) := ⟨k - A.length - 1, by omega⟩
  rw [getD_append_right', List.getD_cons_succ, getD_append_left' _ _ _ _ (by omega)]
  by_cases hd : d < M.length
  · apply h.2.2.2
    rw [List.getD_eq_getElem?_getD, List.getElem?_eq_getElem hd]
    simp
  · omega

theorem Split.adj {l A M B x y} (h : Split l A M B x y) : Adj l A.length (A.length + 1 + M.length) := by
  refine ⟨by omega, ?_, ?_, fun k h1 h2 => h.getD_mid k h1 h2⟩
  · rw [h.getD_x]; exact h.2.1
  · rw [h.getD_y]; exact h.2.2.1

theorem Split.live_eq {l A M B x y} (h : Split l A M B x y) : live l = live A ++ x :: y :: live B := by
  rw [h.1, live_append, live_cons_ne _ _ h.2.1, live_append, live_dead M h.2.2.2, live_cons_ne _ _ h.2.2.1]
  simp

theorem set_append_len {α : Type} (A R : List α) (x v : α) : (A ++ x :: R).set A.length v = A ++ v :: R := by
  induction A with
  | nil => simp
  | cons a A ih => simp [ih]

theorem Split.set_eq {l A M B x y} (h : Split l A M B x y) (v : List Nat) :
    (l.set A.length v).set (A.length + 1 + M.length) [] = A ++ v :: (M ++ [] :: B) := by
  rw [h.1, set_append_len]
  have : A ++ v :: (M ++ y :: B) = (A ++ v :: M) ++ y :: B := by simp
  rw [this, show A.length + 1 + M.length = (A ++ v :: M).length by simp; omega, set_append_len]
  simp

theorem Split.live_set {l A M B x y} (h : Split l A M B x y) :
    live ((l.set A.length (x ++ y)).set (A.length + 1 + M.length) []) = mergeAt (live l) (live A).length := by
  rw [h.set_eq, h.live_eq, mergeAt_append, live_append, live_cons_ne, live_append, live_dead M h.2.2.2, live_cons_nil]
  · simp
  · have := h.2.1; simp [this]

/-- first live cell -/
theorem first_live : ∀ (l : List (List Nat)), live l ≠ [] →
    ∃ M y B, l = M ++ y :: B ∧ y ≠ [] ∧ ∀ b ∈ M, b = []
  | [], h => absurd rfl h
  | b :: l, h => by
    by_cases hb : b = []
    · subst hb
      rw [live_cons_nil] at h
      obtain ⟨M, y, B, h1, h2, h3⟩ := first_live l h
      refine ⟨[] :: M, y, B, by simp [h1], h2, ?_⟩
      intro b hb
      rcases List.mem_cons.mp hb with rfl | hb
      · rfl
      · exact h3 b hb
    · exact ⟨[], b, l, by simp, hb, by simp⟩

/-- every position of the live list comes from a pair of adjacent live cells -/
theorem split_of_pos : ∀ (l : List (List Nat)) (k : Nat), k + 1 < (live l).length →
    ∃ A M B x y, Split l A M B x y ∧ (live A).length = k
  | [], k, h => by simp [live] at h
  | b :: l, k, h => by
    by_cases hb : b = []
    · subst hb
      rw [live_cons_nil] at h
      obtain ⟨A, M, B, x, y, hs, hk⟩ := split_of_pos l k h
      refine ⟨[] :: A, M, B, x, y, ⟨by simp [hs.1], hs.2⟩, by rw [live_cons_nil]; exact hk⟩
    · rw [live_cons_ne _ _ hb] at h
      cases k with
      | zero =>
        have hne : live l ≠ [] := by
          intro h0; rw [h0] at h; simp at h
        obtain ⟨M, y, B, h1, h2, h3⟩ := first_live l hne
        exact ⟨[], M, B, b, y, ⟨by simp [h1], hb, h2, h3⟩, rfl⟩
      | succ k =>
        obtain ⟨A, M, B, x, y, hs, hk⟩ := split_of_pos l k (by simp at h ⊢; omega)
        refine ⟨b :: A, M, B, x, y, ⟨by simp [hs.1], hs.2⟩, by rw [live_cons_ne _ _ hb]; simp [hk]⟩

/-- two adjacent live cells give a decomposition -/
theorem split_of_adj (l : List (List Nat)) (i j : Nat) (h : Adj l i j) :
    ∃ A M B, Split l A M B (l.getD i []) (l.getD j []) ∧ A.length = i ∧ A.length + 1 + M.length = j := by
  obtain ⟨hij, hi, hj, hmid⟩ := h
  have hjl : j < l.length := lt_length_of_getD_ne l j [] hj
  have hil : i < l.length := by omega
  refine ⟨l.take i, (l.drop (i + 1)).take (j - i - 1), l.drop (j + 1), ⟨?_, hi, hj, ?_⟩, ?_, ?_⟩
  · have e1 : l = l.take i ++ l.drop i := (List.take_append_drop i l).symm
    have e2 : l.drop i = l.getD i [] :: l.drop (i + 1) := by
      rw [List.drop_eq_getElem_cons hil]
      simp [List.getD_eq_getElem?_getD, List.getElem?_eq_getElem hil]
    have e3 : l.drop (i + 1) = (l.drop (i + 1)).take (j - i - 1) ++ (l.drop (i + 1)).drop (j - i - 1) :=
      (List.take_append_drop _ _).symm
    have e4 : (l.drop (i + 1)).drop (j - i - 1) = l.drop j := by
      rw [List.drop_drop]; congr 1; omega
    have e5 : l.drop j = l.getD j [] :: l.drop (j + 1) := by
      rw [List.drop_eq_getElem_cons hjl]
      simp [List.getD_eq_getElem?_getD, List.getElem?_eq_getElem hjl]
    rw [e4, e5] at e3
    rw [← e3, ← e2]
    exact e1
  · intro b hb
    obtain ⟨n, hn, rfl⟩ := List.getElem_of_mem hb
    simp only [List.length_take, List.length_drop] at hn
    have := hmid (i + 1 + n) (by omega) (by omega)
    rw [List.getD_eq_getElem?_getD, List.getElem?_eq_getElem (by omega)] at this
    simp only [List.getElem_take, List.getElem_drop]
    simpa using this
  · simp; omega
  · simp; omega

end Tu
